import Librfn.Driver.Sched
/-! executable model driver for engine `sched` (one executable per engine: see Driver/PureBits.lean) -/
def main (args : List String) : IO UInt32 := Librfn.Driver.Sched.main args

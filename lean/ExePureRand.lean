import Librfn.Driver.PureRand
/-! executable model driver for engine `pure-rand` (one executable per engine: see Driver/PureBits.lean) -/
def main (args : List String) : IO UInt32 := Librfn.Driver.PureRand.main args

import Librfn.Driver.Pure
import Librfn.Driver.Mlog
import Librfn.Driver.Console

def main (args : List String) : IO UInt32 :=
  match args with
  | "pure" :: rest => Librfn.Driver.Pure.main rest
  | "mlog" :: rest => Librfn.Driver.Mlog.main rest
  | "console" :: rest => Librfn.Driver.Console.main rest
  | _ => do IO.eprintln "usage: librfn_model <engine> [args]"; return 2

import Librfn.Driver.Pure
import Librfn.Driver.Mlog
import Librfn.Driver.Hex
import Librfn.Driver.List
import Librfn.Driver.Ring
import Librfn.Driver.Pack
import Librfn.Driver.Wav
import Librfn.Driver.Messageq
import Librfn.Driver.MessageqConc
import Librfn.Driver.Bintree
import Librfn.Driver.PT
import Librfn.Driver.HB
import Librfn.Driver.Sched
import Librfn.Driver.Console
import Librfn.Driver.Isr

def main (args : List String) : IO UInt32 :=
  match args with
  | "pure" :: rest => Librfn.Driver.Pure.main rest
  | "mlog" :: rest => Librfn.Driver.Mlog.main rest
  | "hex" :: rest => Librfn.Driver.Hex.main rest
  | "list" :: rest => Librfn.Driver.List.main rest
  | "ring" :: rest => Librfn.Driver.Ring.main rest
  | "pack" :: rest => Librfn.Driver.Pack.main rest
  | "wav" :: rest => Librfn.Driver.Wav.main rest
  | "messageq" :: rest => Librfn.Driver.Messageq.main rest
  | "messageq-conc" :: rest => Librfn.Driver.MessageqConc.main rest
  | "bintree" :: rest => Librfn.Driver.Bintree.main rest
  | "pt" :: rest => Librfn.Driver.PT.main rest
  | "hb" :: rest => Librfn.Driver.HB.main rest
  | "sched" :: rest => Librfn.Driver.Sched.main rest
  | "console" :: rest => Librfn.Driver.Console.main rest
  | "isr" :: rest => Librfn.Driver.Isr.main rest
  | _ => do IO.eprintln "usage: librfn_model <engine> [args]"; return 2

import Librfn.Driver.Pure
import Librfn.Driver.Mlog
import Librfn.Driver.Messageq
import Librfn.Driver.MessageqConc

def main (args : List String) : IO UInt32 :=
  match args with
  | "pure" :: rest => Librfn.Driver.Pure.main rest
  | "mlog" :: rest => Librfn.Driver.Mlog.main rest
  | "messageq" :: rest => Librfn.Driver.Messageq.main rest
  | "messageq-conc" :: rest => Librfn.Driver.MessageqConc.main rest
  | _ => do IO.eprintln "usage: librfn_model <engine> [args]"; return 2

import Librfn.Driver.Pure

def main (args : List String) : IO UInt32 :=
  match args with
  | "pure" :: rest => Librfn.Driver.Pure.main rest
  | _ => do IO.eprintln "usage: librfn_model <engine> [args]"; return 2

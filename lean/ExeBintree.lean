import Librfn.Driver.Bintree
/-! executable model driver for engine `bintree` (one executable per engine: see Driver/PureBits.lean) -/
def main (args : List String) : IO UInt32 := Librfn.Driver.Bintree.main args

import Librfn.Driver.PureBits
/-! executable model driver for engine `pure-bits` (one executable per engine: see Driver/PureBits.lean) -/
def main (args : List String) : IO UInt32 := Librfn.Driver.PureBits.main args

import Librfn.Lemmas.PTInv5
namespace Librfn.Model.PT
open Stmt Librfn.Spec.PT

/-- PT_CALL's loop: the child is re-entered from a consistent state every time; `*pt` of the caller is untouched -/
theorem inv_spin {k ch} (wch : WF ch) : ∀ fuel, (∀ f, f < fuel → InvAt f ch) → ∀ e res n st r,
    ((st.me.kid k).pt = 0 ∨ ((st.me.kid k).pt ∈ labels ch ∧ Live ch (st.me.kid k))) →
    exec fuel (spin k ch) e res n st = some r → Post (spin k ch) st.me.pt r := by
  intro fuel
  induction fuel with
  | zero => intro _ e res n st r _ h; rw [exec_spin_zero] at h; cases h
  | succ f ih =>
    intro hc e res n st r hg h
    obtain ⟨e', hent, hE', hL'⟩ := entry_of_good wch hg
    rw [exec_spin_succ, hent] at h; dsimp only at h
    cases hx : exec f ch e' .yielded 0 (st.enter k) with
    | none => rw [hx] at h; cases h
    | some o =>
      rw [hx] at h
      have hP := hc f (Nat.lt_succ_self f) wch e' .yielded 0 (st.enter k) o hE' hL' hx
      cases o with
      | abort t => exact hP.elim
      | normal st2 r2 n2 t => simp only [spinPost, Option.some.injEq] at h; subst h; exact Or.inl rfl
      | ret c st2 n2 t =>
        simp only [spinPost] at h
        by_cases hb : c.blocking = true
        · rw [if_pos hb] at h
          rcases Option.map_eq_some_iff.1 h with ⟨r', hr', rfl⟩
          have hP2 := hP.2; rw [if_pos hb] at hP2
          have := ih (fun f' hf' => hc f' (Nat.lt_succ_of_lt hf')) none res n (st.wrap k st2) r'
            (by rw [St.wrap_kid]; exact Or.inr ⟨hP2.1, hP2.2.2⟩) hr'
          exact this.prepend t
        · rw [if_neg hb] at h; simp only [Option.some.injEq] at h; subst h; exact Or.inl rfl

theorem inv_call {fuel k ch} (hc : ∀ f, f < fuel → InvAt f ch) : InvAt fuel (call k ch) := by
  intro hwf e res n st r _ _ h
  rw [exec_call] at h
  have hk : ((st.initKid k).me.kid k).pt = 0 := by
    simp [St.initKid, PtSt.setPt, PtSt.kid, PtSt.setKid, PtSt.kids, PtSt.pt]
  have := inv_spin (k := k) (ch := ch) (show WF ch from hwf) fuel hc none res n (st.initKid k) r (Or.inl hk) h
  exact this.lift ⟨fun l hl => by simp [labels] at hl, fun l c h => by simp [MayBlock] at h,
    fun c h => by simp [MayReturn] at h, fun _ _ _ => trivial⟩

theorem inv_at : ∀ fuel s, InvAt fuel s := by
  intro fuel
  induction fuel using Nat.strongRecOn with
  | _ fuel ihf =>
    intro s
    induction s with
    | skip => exact inv_skip
    | eff => exact inv_eff
    | exit => exact inv_exit
    | fail => exact inv_fail
    | yield => exact inv_yield
    | wait => exact inv_wait
    | waitUntil => exact inv_waitUntil
    | exitOn => exact inv_exitOn
    | failOn => exact inv_failOn
    | seq a b iha ihb => exact inv_seq iha ihb
    | ifte c a b iha ihb => exact inv_ifte iha ihb
    | ifChildOk a b iha ihb => exact inv_ico iha ihb
    | «while» c b ihb => exact inv_while ihb (fun f hf => ⟨ihf f hf _, ihf f hf _⟩)
    | spawn l ch ih => exact inv_spawn ih
    | spawnAndCheck l ch ih => exact inv_sac ih
    | call k ch ih => exact inv_call (fun f hf => ihf f hf _)
    | join l ch ih => exact fun h => absurd h id
    | spin k ch ih => exact fun h => absurd h id

end Librfn.Model.PT

import Librfn.Lemmas.IsrQueues
/-! C06 `accepted_never_lost`: every fibre the specification monitor considers owed a dispatch (an accepted
`fibre_run_atomic` request not since followed by a dispatch or a kill) is pending in the implementation model:
a committed entry of the atomic run queue, or on the run queue, or held by the drain loop between its receive
and its `make_runnable`. -/
namespace Librfn.Isr.L
open Librfn.Model.MessageqConc Librfn.Model.FibreIsr Librfn.C04
open Librfn.Sched (Fid Ret)
open Librfn.Spec.IsrSpec
open Librfn.Model.Fibre (upd makeRunnable handleTimerq getNextTask fibreTimeout)

/-! ### how the monitor's set of owed fibres changes -/

theorem flag_owed (a : A) (v : Verdict) : (a.flag v).owed = a.owed := by
  unfold A.flag; split <;> rfl

theorem mem_owed_accepted (a : A) (f g : Fid) : g ∈ (a.step (.accepted f)).owedFids ↔ g ∈ a.owedFids ∨ g = f := by
  simp only [A.step]
  split
  · rename_i hf
    constructor
    · exact Or.inl
    · rintro (h | h)
      · exact h
      · subst h; exact hf
  · simp [A.owedFids]

theorem mem_owed_discharge (a : A) (f g : Fid) : g ∈ (a.discharge f).owedFids ↔ g ∈ a.owedFids ∧ g ≠ f := by
  simp only [A.discharge, A.owedFids, List.mem_map, List.mem_filter]
  constructor
  · rintro ⟨x, ⟨hx, hne⟩, e⟩
    subst e
    exact ⟨⟨x, hx, rfl⟩, by simpa using hne⟩
  · rintro ⟨⟨x, hx, e⟩, hne⟩
    subst e
    exact ⟨x, ⟨hx, by simpa using hne⟩, rfl⟩

theorem mem_owed_dispatched (a : A) (f g : Fid) : g ∈ (a.step (.dispatched f)).owedFids ↔ g ∈ a.owedFids ∧ g ≠ f :=
  mem_owed_discharge a f g

theorem mem_owed_killed (a : A) (f g : Fid) : g ∈ (a.step (.killed f)).owedFids ↔ g ∈ a.owedFids ∧ g ≠ f := by
  simp only [A.step]
  split
  · exact mem_owed_discharge a f g
  · exact mem_owed_discharge a f g

theorem ageOwed_owedFids (a : A) : a.ageOwed.owedFids = a.owedFids := by
  have key : a.aged.map Prod.fst = a.owed.map Prod.fst := by
    unfold A.aged
    rw [List.map_map]
    apply List.map_congr_left
    intro x _
    simp only [Function.comp]
    split <;> rfl
  unfold A.ageOwed
  split
  · rfl
  · split
    · simp only [A.owedFids, flag_owed]; exact key
    · simp only [A.owedFids]; exact key

/-- the observations that neither create nor discharge an obligation -/
def Neutral : Obs → Prop
  | .accepted _ | .dispatched _ | .killed _ => False
  | _ => True

theorem owedFids_neutral (a : A) (o : Obs) (h : Neutral o) : (a.step o).owedFids = a.owedFids := by
  cases o with
  | accepted f => exact False.elim h
  | dispatched f => exact False.elim h
  | killed f => exact False.elim h
  | rejected f => rfl
  | evClaimed st => rfl
  | evSent st ok => simp only [A.step]; split <;> rfl
  | evProcessed st =>
    simp only [A.step]
    split
    · simp only [A.owedFids, flag_owed]
    · split
      · rfl
      · simp only [A.owedFids, flag_owed]
  | passBegin => rfl
  | looked => rfl
  | bodyReturned y => rfl
  | threadBegin => rfl
  | threadEnd => rfl
  | passEnd onTime =>
    simp only [A.step]
    rw [ageOwed_owedFids]
    split
    · simp only [A.owedFids, flag_owed]
    · rfl

/-- `f` has a committed, unreceived entry in the atomic run queue -/
def InAq (q : St) (f : Fid) : Prop := ∃ k, q.received ≤ k ∧ k < q.claimed ∧ q.sent k = true ∧ q.written k = f

/-- the drain loop holds an entry for `f`: received, `make_runnable(*f)` not yet executed -/
def Held1 (s : S) (f : Fid) : Prop := ∃ c sl k, s.mpc = .recvd c ∧ s.aq.recv = .hold sl k ∧ s.aq.written k = f

def Pending (s : S) (f : Fid) : Prop := InAq s.aq f ∨ f ∈ s.k.runq ∨ Held1 s f

/-- **accepted_never_lost** as a state invariant -/
def Inv3 (s : S) : Prop := ∀ f ∈ s.a.owedFids, Pending s f

/-! ### the scheduler's plain code: who stays owed, who stays on the run queue -/

structure OwedFrame (s s' : S) : Prop where
  aq : s'.aq = s.aq
  owed : ∀ g, g ∈ s'.a.owedFids → g ∈ s.a.owedFids
  runq : ∀ g, g ∈ s'.a.owedFids → g ∈ s.k.runq → g ∈ s'.k.runq

theorem OwedFrame.trans {a b c : S} (h1 : OwedFrame a b) (h2 : OwedFrame b c) : OwedFrame a c :=
  ⟨h2.aq.trans h1.aq, fun g hg => h1.owed g (h2.owed g hg), fun g hg hr => h2.runq g hg (h1.runq g (h2.owed g hg) hr)⟩

theorem owedFrame_of_eq {s s' : S} (haq : s'.aq = s.aq) (ha : s'.a.owedFids = s.a.owedFids) (hr : s'.k.runq = s.k.runq) :
    OwedFrame s s' := ⟨haq, fun _ hg => ha ▸ hg, fun _ _ h => hr ▸ h⟩

theorem emit_owed_neutral (o : Obs) (s : S) (h : Neutral o) : (emit o s).a.owedFids = s.a.owedFids :=
  owedFids_neutral s.a o h

theorem owedFrame_finishPass (s : S) (v : BitVec 32) : OwedFrame s (finishPass s v) :=
  owedFrame_of_eq rfl (emit_owed_neutral _ _ trivial) rfl

theorem owedFrame_returned (s : S) (r : Ret) : OwedFrame s (returned s r) := by
  unfold returned
  split
  · refine OwedFrame.trans (a := s) ?_ (owedFrame_finishPass _ _)
    exact owedFrame_of_eq rfl (emit_owed_neutral _ _ trivial) rfl
  · exact owedFrame_of_eq rfl (emit_owed_neutral _ _ trivial) rfl

theorem owedFrame_bodyStep (s : S) : OwedFrame s (bodyStep s) := by
  unfold bodyStep
  split
  · exact owedFrame_returned _ _
  · exact owedFrame_of_eq rfl rfl rfl
  · exact owedFrame_of_eq rfl rfl rfl

theorem owedFrame_bodyOf (s : S) (c : Fid) : OwedFrame s (bodyOf s c) := by
  unfold bodyOf
  split
  · exact owedFrame_of_eq rfl rfl rfl
  · split
    · refine OwedFrame.trans (a := s) ?_ (owedFrame_returned _ _)
      exact owedFrame_of_eq rfl rfl rfl
    · exact owedFrame_returned _ _
  · split
    · refine OwedFrame.trans (a := s) (owedFrame_of_eq ?_ ?_ ?_) (owedFrame_returned _ _)
      · rfl
      · rfl
      · show (fibreTimeout (fibreTimeout s.k c (s.sdue c)).1 c _).1.runq = s.k.runq
        rw [runq_fibreTimeout, runq_fibreTimeout]
    · refine OwedFrame.trans (a := s) (owedFrame_of_eq ?_ ?_ ?_) (owedFrame_returned _ _)
      · rfl
      · rfl
      · show (fibreTimeout s.k c (s.sdue c)).1.runq = s.k.runq
        rw [runq_fibreTimeout]
  · exact owedFrame_returned _ _
  · exact owedFrame_bodyStep _

/-- dispatching `c` discharges `c` -/
theorem owedFrame_body (s : S) (c : Fid) : OwedFrame s (body s c) ∧ c ∉ (body s c).a.owedFids := by
  have h1 : OwedFrame s (tok (.disp c) (emit (.dispatched c) { s with dispatchedNow := true })) :=
    ⟨rfl, fun g hg => ((mem_owed_dispatched s.a c g).mp hg).1, fun g _ h => h⟩
  have h2 := owedFrame_bodyOf (tok (.disp c) (emit (.dispatched c) { s with dispatchedNow := true })) c
  refine ⟨h1.trans h2, fun hc => ?_⟩
  exact ((mem_owed_dispatched s.a c c).mp (h2.owed c hc)).2 rfl

theorem owedFrame_dispatch (s : S) : OwedFrame s (dispatch s) := by
  unfold dispatch
  split
  · exact (owedFrame_body s _).1
  · exact owedFrame_of_eq rfl rfl rfl

theorem owedFrame_afterUpdate {s : S} (hq : QOk s.k) : OwedFrame s (afterUpdate s) := by
  unfold afterUpdate dispatch
  have hmem : ∀ g, g ∈ s.k.runq → g ∈ (handleTimerq s.k).runq := fun g hg => mem_runq_handleTimerq hq hg
  cases hrq : (handleTimerq s.k).runq with
  | nil =>
    have e : getNextTask (handleTimerq s.k) = { handleTimerq s.k with current := none } := by
      unfold getNextTask; split
      · rfl
      · rename_i e'; rw [hrq] at e'; cases e'
    rw [e]
    exact ⟨rfl, fun g hg => hg, fun g _ h => by have := hmem g h; rw [hrq] at this; cases this⟩
  | cons c r =>
    have e : getNextTask (handleTimerq s.k) = { handleTimerq s.k with current := some c, runq := r } := by
      unfold getNextTask; split
      · rename_i e'; rw [hrq] at e'; cases e'
      · rename_i f' r' e'; rw [hrq] at e'; cases e'; rfl
    rw [e]
    have hb := owedFrame_body { s with k := { handleTimerq s.k with current := some c, runq := r } } c
    refine ⟨hb.1.aq, fun g hg => hb.1.owed g hg, fun g hg h => ?_⟩
    apply hb.1.runq g hg
    have hgc : g ≠ c := fun e => hb.2 (e ▸ hg)
    have := hmem g h
    rw [hrq] at this
    rcases List.mem_cons.mp this with e | e
    · exact absurd e hgc
    · exact e

theorem owedFrame_afterDrain {s : S} (hq : QOk s.k) (c : Cont) : OwedFrame s (afterDrain s c) := by
  cases c with
  | run f => exact ⟨rfl, fun _ hg => hg, fun g _ h => (mem_runq_makeRunnable f g).mpr (Or.inl h)⟩
  | kill f =>
    refine ⟨rfl, fun g hg => ((mem_owed_killed s.a f g).mp hg).1, fun g hg h => ?_⟩
    have hne := ((mem_owed_killed s.a f g).mp hg).2
    exact (List.mem_erase_of_ne hne).mpr h
  | pass1 =>
    simp only [afterDrain]
    split
    · exact owedFrame_afterUpdate hq
    · split
      · exact owedFrame_of_eq rfl rfl rfl
      · exact owedFrame_of_eq rfl rfl rfl
      · rename_i c _ _ _
        refine OwedFrame.trans (a := s) (b := { s with k := { s.k with priv := upd s.k.priv c 0 } }) ?_ (owedFrame_afterUpdate ?_)
        · exact owedFrame_of_eq rfl rfl rfl
        · exact qok_lists hq rfl rfl
      · exact owedFrame_afterUpdate hq
  | pass2 c =>
    refine OwedFrame.trans (a := s) (b := { s with k := makeRunnable s.k c }) ?_ (owedFrame_afterUpdate (qok_makeRunnable hq c))
    exact ⟨rfl, fun _ hg => hg, fun g _ h => (mem_runq_makeRunnable c g).mpr (Or.inl h)⟩
  | brun f =>
    refine OwedFrame.trans (a := s) (b := tok (.bcall (.run f) false) { s with k := makeRunnable s.k f }) ?_ (owedFrame_bodyStep _)
    exact ⟨rfl, fun _ hg => hg, fun g _ h => (mem_runq_makeRunnable f g).mpr (Or.inl h)⟩
  | bkill f =>
    refine OwedFrame.trans (a := s) ?_ (owedFrame_bodyStep _)
    refine ⟨rfl, fun g hg => ((mem_owed_killed s.a f g).mp hg).1, fun g hg h => ?_⟩
    have hne := ((mem_owed_killed s.a f g).mp hg).2
    exact (List.mem_erase_of_ne hne).mpr h

/-! ### the queue's ghost state under the steps of senders and of the receiver -/

/-- the recorded payload of a ticket that has been sent never changes -/
theorem written_sent_stable (q : St) (h : MqInv q) (i : Nat) (sp : Bool) (v k : Nat) (hs : q.sent k = true) :
    (step q (.sender i sp v)).written k = q.written k := by
  rcases sender_written q i sp v k with e | ⟨sl, hi⟩
  · exact e
  · have h1 : Held q i sl k := h.senders i _ hi
    rw [h1.2.2.1] at hs; cases hs

theorem inAq_sender {q : St} (h : MqInv q) (i : Nat) (sp : Bool) (v : Nat) {f : Fid} (hf : InAq q f) :
    InAq (step q (.sender i sp v)) f := by
  obtain ⟨k, h1, h2, h3, h4⟩ := hf
  refine ⟨k, ?_, ?_, sender_sent_mono q i sp v k h3, ?_⟩
  · rw [sender_received]; exact h1
  · exact Nat.lt_of_lt_of_le h2 (sender_claimed_le q i sp v)
  · rw [written_sent_stable q h i sp v k h3]; exact h4

theorem receive_cases (q : St) (h : q.recv = .idle) :
    ((step q (.recv false)).recv = .idle ∧ (step q (.recv false)).received = q.received) ∨
    ((step q (.recv false)).recv = .hold q.receivep q.received ∧ (step q (.recv false)).received = q.received + 1) := by
  simp only [step, h, stepRecv, Bool.false_eq_true, if_false, stepReceive]
  split
  · exact Or.inl ⟨rfl, rfl⟩
  · exact Or.inr ⟨rfl, rfl⟩

theorem recv_received_busy (q : St) (p : Bool) (h : q.recv ≠ .idle) (hp : ∀ b, q.recv ≠ .polled b) :
    (step q (.recv p)).received = q.received := by
  simp only [step]
  cases hr : q.recv with
  | idle => exact absurd hr h
  | polled b => exact absurd hr (hp b)
  | hold sl k => simp only [stepRecv]
  | read sl k v => simp only [stepRecv]

/-- a sender's step in the atomic run queue keeps every pending fibre pending -/
theorem pending_sender_aq {s s' : S} (h1 : Inv1 s) (i : Nat) (sp : Bool) (v : Nat)
    (haq : s'.aq = step s.aq (.sender i sp v)) (hk : s'.k = s.k) (hm : s'.mpc = s.mpc) {f : Fid} (hf : Pending s f) :
    Pending s' f := by
  rcases hf with hf | hf | ⟨c, sl, k, hc, hr, hw⟩
  · exact Or.inl (haq ▸ inAq_sender h1.aqInv i sp v hf)
  · exact Or.inr (Or.inl (hk ▸ hf))
  · refine Or.inr (Or.inr ⟨c, sl, k, hm ▸ hc, ?_, ?_⟩)
    · rw [haq, sender_recv]; exact hr
    · have hrv := h1.aqInv.recv
      rw [hr] at hrv
      rw [haq, written_sent_stable _ h1.aqInv i sp v k hrv.2.2.2]; exact hw

theorem pending_same {s s' : S} (haq : s'.aq = s.aq) (hk : s'.k = s.k) (hm : s'.mpc = s.mpc) {f : Fid} (hf : Pending s f) :
    Pending s' f := by
  unfold Pending InAq Held1 at *
  rw [haq, hk, hm]; exact hf

theorem inv3_of_same {s s' : S} (h3 : Inv3 s) (haq : s'.aq = s.aq) (hk : s'.k = s.k) (hm : s'.mpc = s.mpc)
    (ha : s'.a.owedFids = s.a.owedFids) : Inv3 s' :=
  fun f hf => pending_same haq hk hm (h3 f (ha ▸ hf))

theorem inv3_senderAtomic {s : S} (h1 : Inv1 s) (h3 : Inv3 s) (i : Nat) (hi : i < 3) : Inv3 (senderAtomic i s) := by
  have hs := h1.senders i hi
  unfold senderAtomic
  split
  · split
    · exact inv3_of_same h3 rfl rfl rfl (owedFids_neutral _ _ trivial)
    · exact inv3_of_same h3 rfl rfl rfl rfl
    · exact inv3_of_same h3 rfl rfl rfl rfl
  · exact inv3_of_same h3 rfl rfl rfl rfl
  · exact inv3_of_same h3 rfl rfl rfl rfl
  · rename_i f ev hpc
    split
    · exact fun g hg => by refine pending_sender_aq h1 i false f ?_ ?_ ?_ (h3 g hg) <;> rfl
    · exact fun g hg => by refine pending_sender_aq h1 i false f ?_ ?_ ?_ (h3 g hg) <;> rfl
    · exact fun g hg => by refine pending_sender_aq h1 i false f ?_ ?_ ?_ (h3 g hg) <;> rfl
  · exact inv3_of_same h3 rfl rfl rfl rfl
  · -- raSend: the request is published
    rename_i f ev hpc
    rw [hpc] at hs
    obtain ⟨_, sl, k, hq, hw⟩ := hs
    intro g hg
    rcases (mem_owed_accepted s.a f g).mp hg with hg | hg
    · refine pending_sender_aq h1 i false f ?_ ?_ ?_ (h3 g hg) <;> rfl
    · subst hg
      have hheld : Held s.aq i sl k := (h1.aqInv.senders i _ hq).1
      have hst := step_wrote s.aq i false g sl k hq
      refine Or.inl ⟨k, ?_, ?_, hst.2.1, ?_⟩
      · show (step s.aq _).received ≤ k; rw [sender_received]; exact hheld.1
      · show k < (step s.aq _).claimed; rw [hst.2.2.2]; exact hheld.2.1
      · show (step s.aq _).written k = g; rw [hst.2.2.1]; exact hw
  · exact h3

theorem inv3_senderPlain {s : S} (h1 : Inv1 s) (h3 : Inv3 s) (i : Nat) : Inv3 (senderPlain i s) := by
  unfold senderPlain
  split
  · exact inv3_of_same h3 rfl rfl rfl rfl
  · exact inv3_of_same h3 rfl rfl rfl rfl
  · exact inv3_of_same h3 rfl rfl rfl rfl
  · exact inv3_of_same h3 rfl rfl rfl rfl
  · rename_i f ev hpc
    exact fun g hg => by refine pending_sender_aq h1 i false f ?_ ?_ ?_ (h3 g hg) <;> rfl
  · exact inv3_of_same h3 rfl rfl rfl rfl
  · rename_i f ev hpc
    cases ev with
    | none => exact inv3_of_same h3 rfl rfl rfl (owedFids_neutral s.a (.rejected f) trivial)
    | some st =>
      refine inv3_of_same h3 rfl rfl rfl ?_
      show ((s.a.step (.rejected f)).step (.evSent st false)).owedFids = _
      rw [owedFids_neutral _ (.evSent st false) trivial, owedFids_neutral _ (.rejected f) trivial]
  · rename_i f ev hpc
    cases ev with
    | none => exact inv3_of_same h3 rfl rfl rfl rfl
    | some st => exact inv3_of_same h3 rfl rfl rfl (owedFids_neutral s.a (.evSent st true) trivial)
  · exact h3

/-- the drain loop holds no entry -/
def NoHeld (s : S) : Prop := ∀ f, ¬ Held1 s f

theorem noHeld_of_mpc {s : S} (h : ∀ c, s.mpc ≠ .recvd c) : NoHeld s :=
  fun _ ⟨c, _, _, hc, _, _⟩ => h c hc

theorem noHeld_of_idle {s : S} (h : s.aq.recv = .idle) : NoHeld s :=
  fun _ ⟨_, _, _, _, hr, _⟩ => by rw [h] at hr; cases hr

/-- plain code of the scheduler: the fibres still owed are still pending -/
theorem inv3_owedFrame {s s' : S} (h3 : Inv3 s) (hn : NoHeld s) (hf : OwedFrame s s') : Inv3 s' := by
  intro g hg
  rcases h3 g (hf.owed g hg) with h | h | h
  · exact Or.inl (hf.aq ▸ h)
  · exact Or.inr (Or.inl (hf.runq g hg h))
  · exact absurd h (hn g)

theorem inv3_mainAtomic {s : S} (h1 : Inv1 s) (h3 : Inv3 s) : Inv3 (mainAtomic s) := by
  have hm := h1.mainAq
  unfold mainAtomic
  split
  · rename_i hpc
    exact inv3_owedFrame h3 (noHeld_of_mpc (by rw [hpc]; intro c; simp)) (owedFrame_of_eq rfl (owedFids_neutral s.a .looked trivial) rfl)
  · -- recv c: the fetch_and of messageq_receive
    rename_i c hpc
    rw [hpc] at hm
    intro g hg
    rcases h3 g hg with ⟨k, k1, k2, k3, k4⟩ | h | ⟨c', _, _, hc', _, _⟩
    · rcases receive_cases s.aq hm with ⟨_, e2⟩ | ⟨e1, e2⟩
      · refine Or.inl ⟨k, ?_, ?_, ?_, ?_⟩
        · show (step s.aq _).received ≤ k; rw [e2]; exact k1
        · show k < (step s.aq _).claimed; rw [recv_claimed]; exact k2
        · show (step s.aq _).sent k = true; rw [recv_sent]; exact k3
        · show (step s.aq _).written k = g; rw [recv_written]; exact k4
      · by_cases hk : k = s.aq.received
        · subst hk
          refine Or.inr (Or.inr ⟨c, _, _, rfl, e1, ?_⟩)
          show (step s.aq _).written _ = g; rw [recv_written]; exact k4
        · refine Or.inl ⟨k, ?_, ?_, ?_, ?_⟩
          · show (step s.aq _).received ≤ k; rw [e2]; omega
          · show k < (step s.aq _).claimed; rw [recv_claimed]; exact k2
          · show (step s.aq _).sent k = true; rw [recv_sent]; exact k3
          · show (step s.aq _).written k = g; rw [recv_written]; exact k4
    · exact Or.inr (Or.inl h)
    · rw [hpc] at hc'; cases hc'
  · -- rel c: the fetch_add of messageq_release
    rename_i c hpc
    rw [hpc] at hm
    obtain ⟨sl, k0, v, hr⟩ := hm
    intro g hg
    rcases h3 g hg with ⟨k, k1, k2, k3, k4⟩ | h | ⟨c', _, _, hc', _, _⟩
    · refine Or.inl ⟨k, ?_, ?_, ?_, ?_⟩
      · show (step s.aq _).received ≤ k
        rw [recv_received_busy s.aq false (by rw [hr]; simp) (by rw [hr]; simp)]; exact k1
      · show k < (step s.aq _).claimed; rw [recv_claimed]; exact k2
      · show (step s.aq _).sent k = true; rw [recv_sent]; exact k3
      · show (step s.aq _).written k = g; rw [recv_written]; exact k4
    · exact Or.inr (Or.inl h)
    · rw [hpc] at hc'; cases hc'
  · rename_i hpc
    exact inv3_owedFrame h3 (noHeld_of_mpc (by rw [hpc]; intro c; simp)) (owedFrame_of_eq rfl rfl rfl)
  · rename_i hpc
    exact inv3_owedFrame h3 (noHeld_of_mpc (by rw [hpc]; intro c; simp)) (owedFrame_of_eq rfl rfl rfl)
  · rename_i hpc
    exact inv3_owedFrame h3 (noHeld_of_mpc (by rw [hpc]; intro c; simp)) (owedFrame_of_eq rfl rfl rfl)
  · rename_i hpc
    exact inv3_owedFrame h3 (noHeld_of_mpc (by rw [hpc]; intro c; simp)) (owedFrame_of_eq rfl (owedFids_neutral s.a .looked trivial) rfl)
  · exact h3

/-- what the receiver reads from the slot it holds is what the claimer of that ticket recorded (C04 `payload_intact`) -/
theorem hold_payload {q : St} (h : MqInv q) {sl : BitVec 8} {k : Nat} (hr : q.recv = .hold sl k) :
    q.payload sl.toNat = q.written k := by
  have hrv := h.recv
  rw [hr] at hrv
  obtain ⟨a, b, c, d⟩ := hrv
  have ho2 := h.order2
  rw [c]; exact h.inflight k (by omega) (by omega) d

theorem inv3_mainPlain {s : S} (h1 : Inv1 s) (h2 : Inv2 s) (h3 : Inv3 s) : Inv3 (mainPlain s) := by
  have hm := h1.mainAq
  unfold mainPlain
  split
  · rename_i c hpc
    have hn : NoHeld s := noHeld_of_mpc (by rw [hpc]; intro c; simp)
    cases c with
    | next t =>
      simp only [startCall]
      unfold startNext
      split
      · exact inv3_owedFrame h3 hn (owedFrame_of_eq rfl (owedFids_neutral s.a .passBegin trivial) rfl)
      · exact inv3_owedFrame h3 hn (owedFrame_of_eq rfl (owedFids_neutral s.a .passBegin trivial) rfl)
    | run f => exact inv3_owedFrame h3 hn (owedFrame_of_eq rfl rfl rfl)
    | kill f => exact inv3_owedFrame h3 hn (owedFrame_of_eq rfl rfl rfl)
  · rename_i e hpc
    have hn : NoHeld s := noHeld_of_mpc (by rw [hpc]; intro c; simp)
    split
    · exact inv3_owedFrame h3 hn (owedFrame_dispatch s)
    · exact inv3_owedFrame h3 hn (owedFrame_of_eq rfl rfl rfl)
  · -- recvd c
    rename_i c hpc
    rw [hpc] at hm
    split
    · -- make_runnable(*f)
      rename_i sl k hr
      intro g hg
      rcases h3 g hg with ⟨k', k1, k2, k3, k4⟩ | h | ⟨c', sl', k', _, hr', hw⟩
      · refine Or.inl ⟨k', ?_, ?_, ?_, ?_⟩
        · show (step s.aq _).received ≤ k'
          rw [recv_received_busy s.aq false (by rw [hr]; simp) (by rw [hr]; simp)]; exact k1
        · show k' < (step s.aq _).claimed; rw [recv_claimed]; exact k2
        · show (step s.aq _).sent k' = true; rw [recv_sent]; exact k3
        · show (step s.aq _).written k' = g; rw [recv_written]; exact k4
      · exact Or.inr (Or.inl ((mem_runq_makeRunnable _ g).mpr (Or.inl h)))
      · rw [hr] at hr'
        injection hr' with e1 e2
        subst e1; subst e2
        refine Or.inr (Or.inl ((mem_runq_makeRunnable _ g).mpr (Or.inr ?_)))
        rw [hold_payload h1.aqInv hr]; exact hw.symm
    · rename_i hnh
      rcases hm with hm | ⟨sl, k, hr⟩
      · exact inv3_owedFrame h3 (noHeld_of_idle hm) (owedFrame_afterDrain h2.q c)
      · exact absurd hr (hnh sl k)
  · rename_i c hpc
    exact inv3_owedFrame h3 (noHeld_of_mpc (by rw [hpc]; intro c; simp)) (owedFrame_of_eq rfl rfl rfl)
  · rename_i hpc
    refine inv3_owedFrame h3 (noHeld_of_mpc (by rw [hpc]; intro c; simp)) ?_
    unfold resetPriv
    split
    · rename_i c _
      refine OwedFrame.trans (a := s) (b := { s with k := { s.k with priv := upd s.k.priv c 0 } }) ?_ (owedFrame_afterUpdate ?_)
      · exact owedFrame_of_eq rfl rfl rfl
      · exact qok_lists h2.q rfl rfl
    · exact owedFrame_afterUpdate h2.q
  · rename_i hpc
    have hn : NoHeld s := noHeld_of_mpc (by rw [hpc]; intro c; simp)
    split
    · rename_i sl k hr
      exact inv3_owedFrame h3 hn (owedFrame_of_eq rfl (owedFids_neutral s.a (.evProcessed _) trivial) rfl)
    · exact inv3_owedFrame h3 hn (owedFrame_returned s _)
  · rename_i hpc
    exact inv3_owedFrame h3 (noHeld_of_mpc (by rw [hpc]; intro c; simp)) (owedFrame_of_eq rfl rfl rfl)
  · rename_i e hpc
    exact inv3_owedFrame h3 (noHeld_of_mpc (by rw [hpc]; intro c; simp)) (owedFrame_finishPass s _)
  · exact h3

/-- **`Inv3` holds in every reachable state** -/
theorem reach_inv3 {s : S} (hr : Reach s) : Inv3 s := by
  induction hr with
  | init d kinds budgets h1 h32 => exact fun f hf => absurd hf List.not_mem_nil
  | mainPlain hr ih => exact inv3_mainPlain (reach_inv1 hr) (reach_inv2 hr) ih
  | mainAtomic hr ih => exact inv3_mainAtomic (reach_inv1 hr) ih
  | senderPlain i hi hr ih => exact inv3_senderPlain (reach_inv1 hr) ih i
  | senderAtomic i hi hr ih => exact inv3_senderAtomic (reach_inv1 hr) ih i hi
  | enterMain c hr hidle ih =>
    exact inv3_owedFrame ih (noHeld_of_mpc (by rw [hidle]; intro c; simp)) (owedFrame_of_eq rfl rfl rfl)
  | enterSender i c hi _ hidle ih => exact inv3_of_same ih rfl rfl rfl rfl
  | tok t _ ih => exact inv3_of_same ih rfl rfl rfl rfl
  | hung _ ih => exact inv3_of_same ih rfl rfl rfl rfl
  | nops k _ ih => exact inv3_of_same ih rfl rfl rfl rfl
  | newItem _ ih => exact inv3_of_same ih rfl rfl rfl rfl
  | noYields _ ih => exact inv3_of_same ih rfl rfl rfl rfl
  | setBody b r _ ih => exact inv3_of_same ih rfl rfl rfl rfl
  | observe o ho _ ih =>
    refine inv3_of_same ih rfl rfl rfl (owedFids_neutral _ o ?_)
    rcases ho with e | e <;> subst e <;> trivial

end Librfn.Isr.L

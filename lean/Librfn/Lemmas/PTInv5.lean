import Librfn.Lemmas.PTInv4
namespace Librfn.Model.PT
open Stmt Librfn.Spec.PT

theorem St.wrap_kid (st st2 : St) (l : Nat) : (st.wrap l st2).me.kid l = st2.me := by
  simp [St.wrap, PtSt.kid_setKid]

/-- from a consistent child state the `switch` of the child finds a `case` -/
theorem entry_of_good {ch : Stmt} {q : PtSt} (wch : WF ch) (hg : q.pt = 0 ∨ (q.pt ∈ labels ch ∧ Live ch q)) :
    ∃ e', entryOf ch q.pt = some e' ∧ (∀ l, e' = some l → l ∈ labels ch ∧ q.pt = l) ∧ (∀ l, e' = some l → Live ch q) := by
  rcases hg with h0 | ⟨hl, hlive⟩
  · exact ⟨none, by simp [entryOf, h0], (fun l h => by cases h), (fun l h => by cases h)⟩
  · exact ⟨some q.pt, entryOf_label hl (wch.pos _ hl), (fun l h => by cases h; exact ⟨hl, rfl⟩), (fun _ _ => hlive)⟩

theorem inv_join {fuel l ch} (hc : InvAt fuel ch) (wch : WF ch) :
    ∀ e res n st r, st.me.pt = l → Live (join l ch) st.me → exec fuel (join l ch) e res n st = some r →
      Post (join l ch) st.me.pt r := by
  intro e res n st r hpt hlive h
  rw [Live] at hlive
  obtain ⟨e', hent, hE', hL'⟩ := entry_of_good wch (hlive hpt)
  rw [exec_join_eq, hent] at h; dsimp only at h
  cases hx : exec fuel ch e' .yielded n (st.enter l) with
  | none => rw [hx] at h; cases h
  | some rc =>
    rw [hx] at h
    have hP := hc wch e' .yielded n (st.enter l) rc hE' hL' hx
    cases rc with
    | abort t => exact hP.elim
    | normal st2 r2 n2 t =>
      simp only [joinPost, Option.some.injEq] at h; subst h; exact Or.inl rfl
    | ret c st2 n2 t =>
      by_cases hb : c.blocking = true
      · have hP2 := hP.2; rw [if_pos hb] at hP2
        simp only [joinPost, hb, if_true, Option.some.injEq] at h; subst h
        refine ⟨Or.inl rfl, ?_⟩
        rw [if_pos hb, St.wrap_pt, hpt]
        refine ⟨by simp [labels], ?_, ?_⟩
        · rw [MayBlock]; exact ⟨rfl, _, hP2.2.1⟩
        · rw [Live]; intro _; rw [St.wrap_kid]; exact Or.inr ⟨hP2.1, hP2.2.2⟩
      · simp only [joinPost] at h; rw [if_neg hb] at h
        simp only [Option.some.injEq] at h; subst h; exact Or.inl rfl

theorem kid_pt_spawned (st : St) (l : Label) : (((st.initKid l).setPt l).me.kid l).pt = 0 := by
  simp [St.setPt, St.initKid, PtSt.setPt, PtSt.kid, PtSt.setKid, PtSt.kids, PtSt.pt]

theorem lifts_join_spawn (l : Label) (ch : Stmt) : Lifts (join l ch) (spawn l ch) :=
  ⟨fun _ h => h, fun l' c h => by simp only [MayBlock] at h ⊢; exact h, fun c h => by simp [MayReturn] at h,
   fun p _ h => by simp only [Live] at h ⊢; exact h⟩

theorem inv_spawn {fuel l ch} (hc : InvAt fuel ch) : InvAt fuel (spawn l ch) := by
  intro hwf e res n st r hE hLive h
  by_cases he : e = some l
  · subst he; rw [exec_spawn_at] at h
    have hL := hLive l rfl; rw [Live] at hL
    exact (inv_join hc hwf.2 none res n st r (hE l rfl).2 (by rw [Live]; exact hL) h).lift (lifts_join_spawn l ch)
  · rw [exec_spawn_fresh _ _ _ _ _ _ _ he] at h
    have hp : ((st.initKid l).setPt l).me.pt = l := by simp [St.setPt, PtSt.setPt, PtSt.pt]
    have := inv_join hc hwf.2 none res n _ r hp (by rw [Live]; intro _; exact Or.inl (kid_pt_spawned st l)) h
    rw [hp] at this
    exact (this.lift (lifts_join_spawn l ch)).rebase (by simp [labels])

theorem inv_sac {fuel l ch} (hc : InvAt fuel ch) : InvAt fuel (spawnAndCheck l ch) := by
  intro hwf e res n st r hE hLive h
  rw [exec_sac] at h
  have hw : WF (seq (spawn l ch) (ifChildOk skip fail)) :=
    ⟨hwf, ⟨trivial, trivial, by simp [labels]⟩, by simp [labels]⟩
  have := inv_seq (inv_spawn hc) (inv_ico inv_skip inv_fail) hw e res n st r
    (fun l' hl' => by have := hE l' hl'; simpa [labels] using this)
    (fun l' hl' => by
      have h1 := hLive l' hl'; have h2 := (hE l' hl').2
      have h3 : l' = l := by have := (hE l' hl').1; simpa [labels] using this
      simp only [Live] at h1 ⊢; rw [if_pos (by simp [labels, h2, h3])]; exact h1) h
  refine this.lift ⟨fun l' hl' => by simpa [labels] using hl', fun l' c h => ?_, fun c h => ?_, fun p hp h => ?_⟩
  · simp only [MayBlock, or_false] at h ⊢; exact h
  · simpa [MayReturn] using h
  · simp only [Live] at h ⊢; rw [if_pos (by simpa [labels] using hp)] at h; exact h

end Librfn.Model.PT

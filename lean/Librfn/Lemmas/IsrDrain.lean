import Librfn.Lemmas.IsrWake
/-! C06 `drained_by_pass` and C03's `wakeup_with_isr`: what the drain loop of `handle_atomic_runq` has moved to the run
queue when its receive returns NULL, and what the scheduler's final `messageq_empty` check sees. -/
namespace Librfn.Isr.L
open Librfn.Model.MessageqConc Librfn.Model.FibreIsr Librfn.C04
open Librfn.Sched (Fid Ret)
open Librfn.Spec.IsrSpec
open Librfn.Model.Fibre (upd makeRunnable handleTimerq getNextTask fibreTimeout)

/-! ### every claimed ticket that has not been sent is held by a sender (an invariant C04 did not need) -/

def Owned (q : St) : Prop :=
  ∀ k, k < q.claimed → q.sent k = false →
    ∃ (i : Nat) (sl : BitVec 8), q.senders[i]? = some (SPc.hasSlot sl k) ∨ q.senders[i]? = some (SPc.wrote sl k)

theorem owned_init (depth msgLen n : Nat) : Owned (init depth msgLen n) :=
  fun k hk _ => absurd hk (Nat.not_lt_zero k)

theorem owned_recv {q : St} (h : Owned q) (p : Bool) : Owned (step q (.recv p)) := by
  intro k hk hs
  rw [recv_claimed] at hk
  rw [recv_sent] at hs
  rw [recv_senders]
  exact h k hk hs

theorem owned_sender {q : St} (h : Owned q) (i : Nat) (sp : Bool) (v : Nat) : Owned (step q (.sender i sp v)) := by
  rcases sender_cases q i sp v with ⟨_, e⟩ | ⟨pc, hpc, e⟩
  · rw [e]; exact h
  · have hl := lt_of_some hpc
    -- the other senders keep what they hold; what sender `i` held is tracked case by case
    have keep : ∀ (q' : St) (pc' : SPc), q'.senders = q.senders.set i pc' →
        ∀ (k j : Nat) (sl : BitVec 8), j ≠ i → (q.senders[j]? = some (SPc.hasSlot sl k) ∨ q.senders[j]? = some (SPc.wrote sl k)) →
        (q'.senders[j]? = some (SPc.hasSlot sl k) ∨ q'.senders[j]? = some (SPc.wrote sl k)) := by
      intro q' pc' hq' k j sl hj hh
      rw [hq', List.getElem?_set_ne (Ne.symm hj)]; exact hh
    rw [e]
    cases pc with
    | idle =>
      simp only [stepSender]
      split
      · intro k hk hs
        obtain ⟨j, sl, hh⟩ := h k hk hs
        have hj : j ≠ i := by rintro rfl; rw [hpc] at hh; rcases hh with hh | hh <;> cases hh
        exact ⟨j, sl, keep _ _ rfl k j sl hj hh⟩
      · intro k hk hs
        obtain ⟨j, sl, hh⟩ := h k hk hs
        have hj : j ≠ i := by rintro rfl; rw [hpc] at hh; rcases hh with hh | hh <;> cases hh
        exact ⟨j, sl, keep _ _ rfl k j sl hj hh⟩
    | loadedFree w0 =>
      simp only [stepSender]
      split
      · intro k hk hs
        obtain ⟨j, sl, hh⟩ := h k hk hs
        have hj : j ≠ i := by rintro rfl; rw [hpc] at hh; rcases hh with hh | hh <;> cases hh
        exact ⟨j, sl, keep _ _ rfl k j sl hj hh⟩
      · split
        · intro k hk hs
          obtain ⟨j, sl, hh⟩ := h k hk hs
          have hj : j ≠ i := by rintro rfl; rw [hpc] at hh; rcases hh with hh | hh <;> cases hh
          exact ⟨j, sl, keep _ _ rfl k j sl hj hh⟩
        · intro k hk hs
          obtain ⟨j, sl, hh⟩ := h k hk hs
          have hj : j ≠ i := by rintro rfl; rw [hpc] at hh; rcases hh with hh | hh <;> cases hh
          exact ⟨j, sl, keep _ _ rfl k j sl hj hh⟩
    | gotPerm =>
      intro k hk hs
      obtain ⟨j, sl, hh⟩ := h k hk hs
      have hj : j ≠ i := by rintro rfl; rw [hpc] at hh; rcases hh with hh | hh <;> cases hh
      exact ⟨j, sl, keep _ _ rfl k j sl hj hh⟩
    | loaded w =>
      simp only [stepSender]
      split
      · -- the compare-exchange succeeded: the new ticket is held by sender `i`
        intro k hk hs
        by_cases hkc : k = q.claimed
        · subst hkc
          exact ⟨i, w, Or.inl (by simp only [List.getElem?_set_self hl])⟩
        · have hk' : k < q.claimed := by
            have : k < q.claimed + 1 := hk
            omega
          obtain ⟨j, sl, hh⟩ := h k hk' hs
          have hj : j ≠ i := by rintro rfl; rw [hpc] at hh; rcases hh with hh | hh <;> cases hh
          exact ⟨j, sl, keep _ _ rfl k j sl hj hh⟩
      · intro k hk hs
        obtain ⟨j, sl, hh⟩ := h k hk hs
        have hj : j ≠ i := by rintro rfl; rw [hpc] at hh; rcases hh with hh | hh <;> cases hh
        exact ⟨j, sl, keep _ _ rfl k j sl hj hh⟩
    | hasSlot sl0 k0 =>
      intro k hk hs
      obtain ⟨j, sl, hh⟩ := h k hk hs
      by_cases hj : j = i
      · subst hj
        rw [hpc] at hh
        rcases hh with hh | hh
        · injection hh with hh; injection hh with e1 e2; subst e1; subst e2
          exact ⟨j, sl0, Or.inr (by simp only [stepSender, List.getElem?_set_self hl])⟩
        · cases hh
      · exact ⟨j, sl, keep _ _ rfl k j sl hj hh⟩
    | wrote sl0 k0 =>
      intro k hk hs
      have hs' : q.sent k = false := by
        simp only [stepSender] at hs
        by_cases hkk : k = k0
        · simp [hkk] at hs
        · simp only [hkk, if_false] at hs; exact hs
      have hkk : k ≠ k0 := by
        rintro rfl
        simp [stepSender] at hs
      obtain ⟨j, sl, hh⟩ := h k hk hs'
      by_cases hj : j = i
      · subst hj
        rw [hpc] at hh
        rcases hh with hh | hh
        · cases hh
        · injection hh with hh; injection hh with e1 e2; exact absurd e2.symm hkk
      · exact ⟨j, sl, keep _ _ rfl k j sl hj hh⟩

/-- a queue is only ever changed by steps of C04's model -/
def QueueStep (q q' : St) : Prop := q' = q ∨ ∃ act, q' = step q act

theorem owned_queueStep {q q' : St} (h : Owned q) (hs : QueueStep q q') : Owned q' := by
  rcases hs with e | ⟨act, e⟩
  · rw [e]; exact h
  · rw [e]
    cases act with
    | sender i sp v => exact owned_sender h i sp v
    | recv p => exact owned_recv h p

theorem senderAtomic_aqStep (i : Nat) (s : S) : QueueStep s.aq (senderAtomic i s).aq := by
  unfold senderAtomic
  split
  · split <;> exact Or.inl rfl
  · exact Or.inl rfl
  · exact Or.inl rfl
  · rename_i f ev _; split <;> exact Or.inr ⟨.sender i false f, rfl⟩
  · exact Or.inl rfl
  · rename_i f ev _; exact Or.inr ⟨.sender i false f, rfl⟩
  · exact Or.inl rfl

theorem senderAtomic_eqStep (i : Nat) (s : S) : QueueStep s.eq (senderAtomic i s).eq := by
  rcases senderAtomic_eq i s with e | ⟨v, e⟩
  · exact Or.inl e
  · exact Or.inr ⟨_, e⟩

theorem senderPlain_aqStep (i : Nat) (s : S) : QueueStep s.aq (senderPlain i s).aq := by
  unfold senderPlain
  split
  · exact Or.inl rfl
  · exact Or.inl rfl
  · exact Or.inl rfl
  · exact Or.inl rfl
  · rename_i f ev _; exact Or.inr ⟨.sender i false f, rfl⟩
  · exact Or.inl rfl
  · rename_i f ev _; cases ev <;> exact Or.inl rfl
  · rename_i f ev _; cases ev <;> exact Or.inl rfl
  · exact Or.inl rfl

theorem senderPlain_eqStep (i : Nat) (s : S) : QueueStep s.eq (senderPlain i s).eq := by
  rcases senderPlain_eq i s with e | ⟨v, e⟩
  · exact Or.inl e
  · exact Or.inr ⟨_, e⟩

theorem mainAtomic_aqStep (s : S) : QueueStep s.aq (mainAtomic s).aq := by
  unfold mainAtomic
  split
  · exact Or.inl rfl
  · exact Or.inr ⟨.recv false, rfl⟩
  · exact Or.inr ⟨.recv false, rfl⟩
  · exact Or.inl rfl
  · exact Or.inl rfl
  · exact Or.inl rfl
  · exact Or.inl rfl
  · exact Or.inl rfl

theorem mainAtomic_eqStep (s : S) : QueueStep s.eq (mainAtomic s).eq := by
  unfold mainAtomic
  split
  · exact Or.inl rfl
  · exact Or.inl rfl
  · exact Or.inl rfl
  · exact Or.inl rfl
  · exact Or.inr ⟨.recv false, rfl⟩
  · exact Or.inr ⟨.recv false, rfl⟩
  · exact Or.inl rfl
  · exact Or.inl rfl

theorem startCall_same (s : S) (c : MCall) : Same s (startCall s c) := by
  cases c with
  | next t => simp only [startCall]; unfold startNext; split <;> exact ⟨rfl, rfl, rfl, rfl⟩
  | run f => exact ⟨rfl, rfl, rfl, rfl⟩
  | kill f => exact ⟨rfl, rfl, rfl, rfl⟩

theorem resetPriv_same (s : S) : Same s (resetPriv s) := by
  unfold resetPriv; split <;> exact ⟨rfl, rfl, rfl, rfl⟩

theorem mainPlain_aqStep (s : S) : QueueStep s.aq (mainPlain s).aq := by
  unfold mainPlain
  split
  · exact Or.inl (startCall_same s _).aq
  · split
    · exact Or.inl (frame_dispatch ⟨rfl, rfl, rfl, rfl⟩).aq
    · exact Or.inl rfl
  · split
    · exact Or.inr ⟨.recv false, rfl⟩
    · exact Or.inl (frame_afterDrain ⟨rfl, rfl, rfl, rfl⟩ _).aq
  · exact Or.inl rfl
  · exact Or.inl (frame_afterUpdate (resetPriv_same s)).aq
  · split
    · exact Or.inl rfl
    · exact Or.inl (frame_returned ⟨rfl, rfl, rfl, rfl⟩ _).aq
  · exact Or.inl rfl
  · exact Or.inl rfl
  · exact Or.inl rfl

theorem mainPlain_eqStep (s : S) : QueueStep s.eq (mainPlain s).eq := by
  unfold mainPlain
  split
  · exact Or.inl (startCall_same s _).eq
  · split
    · exact Or.inl (frame_dispatch ⟨rfl, rfl, rfl, rfl⟩).eq
    · exact Or.inl rfl
  · split
    · exact Or.inl rfl
    · exact Or.inl (frame_afterDrain ⟨rfl, rfl, rfl, rfl⟩ _).eq
  · exact Or.inl rfl
  · exact Or.inl (frame_afterUpdate (resetPriv_same s)).eq
  · split
    · exact Or.inr ⟨.recv false, rfl⟩
    · exact Or.inl (frame_returned ⟨rfl, rfl, rfl, rfl⟩ _).eq
  · exact Or.inl rfl
  · exact Or.inl rfl
  · exact Or.inl rfl

/-- **every claimed and unsent entry of either queue is held by a sender**, in every reachable state -/
theorem reach_owned {s : S} (hr : Reach s) : Owned s.aq ∧ Owned s.eq := by
  induction hr with
  | init d kinds budgets h1 h32 => exact ⟨owned_init 8 8 3, owned_init d 4 3⟩
  | mainPlain _ ih => exact ⟨owned_queueStep ih.1 (mainPlain_aqStep _), owned_queueStep ih.2 (mainPlain_eqStep _)⟩
  | mainAtomic _ ih => exact ⟨owned_queueStep ih.1 (mainAtomic_aqStep _), owned_queueStep ih.2 (mainAtomic_eqStep _)⟩
  | senderPlain i hi _ ih => exact ⟨owned_queueStep ih.1 (senderPlain_aqStep i _), owned_queueStep ih.2 (senderPlain_eqStep i _)⟩
  | senderAtomic i hi _ ih => exact ⟨owned_queueStep ih.1 (senderAtomic_aqStep i _), owned_queueStep ih.2 (senderAtomic_eqStep i _)⟩
  | enterMain c _ hidle ih => exact ih
  | enterSender i c hi _ hidle ih => exact ih
  | tok t _ ih => exact ih
  | hung _ ih => exact ih
  | nops k _ ih => exact ih
  | newItem _ ih => exact ih
  | noYields _ ih => exact ih
  | setBody b r _ ih => exact ih
  | observe o _ _ ih => exact ih

/-- no sender is inside a call -/
def Quiet (s : S) : Prop := ∀ i, i < 3 → s.ipc i = .idle

/-- with no sender inside a call, every claimed entry of the atomic run queue has been sent -/
theorem quiet_all_sent {s : S} (h1 : Inv1 s) (ho : Owned s.aq) (hq : Quiet s) : ∀ k, k < s.aq.claimed → s.aq.sent k = true := by
  intro k hk
  cases hs : s.aq.sent k with
  | true => rfl
  | false =>
    obtain ⟨i, sl, hh⟩ := ho k hk hs
    have hi : i < 3 := by
      have : i < s.aq.senders.length := by
        rcases hh with hh | hh <;> exact lt_of_some hh
      rw [h1.aqLen] at this; exact this
    have hsi := h1.senders i hi
    rw [hq i hi] at hsi
    have : s.aq.senders[i]? = some .idle := hsi.2
    rw [this] at hh
    rcases hh with hh | hh <;> cases hh

theorem senderAtomic_aq (i : Nat) (s : S) :
    (senderAtomic i s).aq = s.aq ∨ ∃ v, (senderAtomic i s).aq = step s.aq (.sender i false v) := by
  unfold senderAtomic
  split
  · split <;> exact Or.inl rfl
  · exact Or.inl rfl
  · exact Or.inl rfl
  · rename_i f ev _; split <;> exact Or.inr ⟨f, rfl⟩
  · exact Or.inl rfl
  · rename_i f ev _; exact Or.inr ⟨f, rfl⟩
  · exact Or.inl rfl

theorem senderPlain_aq (i : Nat) (s : S) :
    (senderPlain i s).aq = s.aq ∨ ∃ v, (senderPlain i s).aq = step s.aq (.sender i false v) := by
  unfold senderPlain
  split
  · exact Or.inl rfl
  · exact Or.inl rfl
  · exact Or.inl rfl
  · exact Or.inl rfl
  · rename_i f ev _; exact Or.inr ⟨f, rfl⟩
  · exact Or.inl rfl
  · rename_i f ev _; cases ev <;> exact Or.inl rfl
  · rename_i f ev _; cases ev <;> exact Or.inl rfl
  · exact Or.inl rfl

theorem senderAtomic_drainFrom (i : Nat) (s : S) : (senderAtomic i s).drainFrom = s.drainFrom := by
  unfold senderAtomic; split <;> (try split) <;> rfl
theorem senderPlain_drainFrom (i : Nat) (s : S) : (senderPlain i s).drainFrom = s.drainFrom := by
  unfold senderPlain; split <;> (try split) <;> rfl

/-- inside the drain loop of `handle_atomic_runq` -/
def DrainPc : MPc → Prop
  | .recv _ | .recvd _ | .rel _ | .reld _ => True
  | _ => False

/-- the drain loop's invariant: every entry the current call has received so far (and passed to `make_runnable`) has
    its fibre on the run queue -/
structure Inv6 (s : S) : Prop where
  fast : FastPc s.mpc → s.drainFrom = s.aq.received
  drain : DrainPc s.mpc → s.drainFrom ≤ processed s.aq ∧
    ∀ k, s.drainFrom ≤ k → k < processed s.aq → s.aq.written k ∈ s.k.runq

theorem inv6_sender {s s' : S} (h1 : Inv1 s) (h6 : Inv6 s) (i : Nat)
    (haq : s'.aq = s.aq ∨ ∃ v, s'.aq = step s.aq (.sender i false v))
    (hk : s'.k = s.k) (hm : s'.mpc = s.mpc) (hd : s'.drainFrom = s.drainFrom) : Inv6 s' := by
  rcases haq with e | ⟨v, e⟩
  · exact ⟨by rw [hm, hd, e]; exact h6.fast, by rw [hm, hd, e, hk]; exact h6.drain⟩
  · have hp : processed s'.aq = processed s.aq := by
      unfold processed; rw [e, sender_recv, sender_received]
    refine ⟨?_, ?_⟩
    · rw [hm, hd, e, sender_received]; exact h6.fast
    · rw [hm, hd, hp, hk]
      intro hdp
      refine ⟨(h6.drain hdp).1, fun k k1 k2 => ?_⟩
      rw [e, written_sent_stable s.aq h1.aqInv i false v k
        (h1.aqInv.recvdSent k (Nat.lt_of_lt_of_le k2 (processed_le _)))]
      exact (h6.drain hdp).2 k k1 k2

theorem inv6_vacuous {s' : S} (h1 : ¬ FastPc s'.mpc) (h2 : ¬ DrainPc s'.mpc) : Inv6 s' :=
  ⟨fun h => absurd h h1, fun h => absurd h h2⟩

theorem processed_idle {q : St} (h : q.recv = .idle) : processed q = q.received := by
  unfold processed; rw [h]

theorem inv6_mainAtomic {s : S} (h1 : Inv1 s) (h6 : Inv6 s) : Inv6 (mainAtomic s) := by
  have hm := h1.mainAq
  unfold mainAtomic
  split
  · rename_i hpc
    exact ⟨fun _ => h6.fast (by rw [hpc]; trivial), fun h => False.elim h⟩
  · -- recv c
    rename_i c hpc
    rw [hpc] at hm
    have hd := h6.drain (by rw [hpc]; trivial)
    have hp : processed (step s.aq (.recv false)) = processed s.aq := by
      rw [processed_idle hm]
      rcases receive_cases s.aq hm with ⟨e1, e2⟩ | ⟨e1, e2⟩
      · rw [processed_idle e1, e2]
      · unfold processed; rw [e1, e2]; simp
    refine ⟨fun h => False.elim h, fun _ => ?_⟩
    show s.drainFrom ≤ processed (step s.aq _) ∧ ∀ k, s.drainFrom ≤ k → k < processed (step s.aq _) → (step s.aq _).written k ∈ s.k.runq
    rw [hp, recv_written]; exact hd
  · -- rel c
    rename_i c hpc
    rw [hpc] at hm
    obtain ⟨sl, k0, v, hr⟩ := hm
    have hd := h6.drain (by rw [hpc]; trivial)
    have hp : processed (step s.aq (.recv false)) = processed s.aq := by
      unfold processed
      rw [recv_from_read s.aq sl k0 v hr false, hr, recv_received_busy s.aq false (by rw [hr]; simp) (by rw [hr]; simp)]
    refine ⟨fun h => False.elim h, fun _ => ?_⟩
    show s.drainFrom ≤ processed (step s.aq _) ∧ ∀ k, s.drainFrom ≤ k → k < processed (step s.aq _) → (step s.aq _).written k ∈ s.k.runq
    rw [hp, recv_written]; exact hd
  · exact inv6_vacuous (fun h => h) (fun h => h)
  · exact inv6_vacuous (fun h => h) (fun h => h)
  · exact inv6_vacuous (fun h => h) (fun h => h)
  · exact inv6_vacuous (fun h => h) (fun h => h)
  · exact h6

/-- where the dispatch of a fibre leaves the main context -/
def AfterBody : MPc → Prop
  | .idle | .wake | .hRecv => True
  | _ => False

theorem AfterBody.notFast {pc : MPc} (h : AfterBody pc) : ¬ FastPc pc := by
  cases pc <;> first | exact False.elim h | exact fun h => h
theorem AfterBody.notDrain {pc : MPc} (h : AfterBody pc) : ¬ DrainPc pc := by
  cases pc <;> first | exact False.elim h | exact fun h => h

/-- where the dispatch of a fibre leaves the main context: at the end of the pass, inside the handler, or -- a scripted
    body that calls `fibre_run`/`fibre_kill` -- at the top of a fresh drain loop -/
def BodyCont : Cont → Prop
  | .brun _ | .bkill _ => True
  | _ => False

def BodyPost (s' : S) : Prop := AfterBody s'.mpc ∨ ∃ c, BodyCont c ∧ s'.mpc = .recv c ∧ s'.drainFrom = s'.aq.received

theorem inv6_of_bodyPost {s' : S} (h : BodyPost s') (hok : AqRecvOk s'.mpc s'.aq.recv) : Inv6 s' := by
  rcases h with h | ⟨c, _, hc, hd⟩
  · exact inv6_vacuous h.notFast h.notDrain
  · rw [hc] at hok
    have hidle : s'.aq.recv = .idle := hok
    refine ⟨fun hf => by rw [hc] at hf; exact False.elim hf, fun _ => ⟨?_, fun k k1 k2 => ?_⟩⟩
    · rw [processed_idle hidle, hd]; exact Nat.le_refl _
    · rw [processed_idle hidle] at k2; omega

theorem bodyPost_finishPass (s : S) (v : BitVec 32) : BodyPost (finishPass s v) := Or.inl trivial
theorem bodyPost_returned (s : S) (r : Ret) : BodyPost (returned s r) := by
  unfold returned; split <;> exact Or.inl trivial
theorem bodyPost_bodyStep (s : S) : BodyPost (bodyStep s) := by
  unfold bodyStep
  split
  · exact bodyPost_returned _ _
  · rename_i g r _; exact Or.inr ⟨.brun g, trivial, rfl, rfl⟩
  · rename_i g r _; exact Or.inr ⟨.bkill g, trivial, rfl, rfl⟩
theorem bodyPost_bodyOf (s : S) (c : Fid) : BodyPost (bodyOf s c) := by
  unfold bodyOf
  split
  · exact Or.inl trivial
  · split <;> exact bodyPost_returned _ _
  · split <;> exact bodyPost_returned _ _
  · exact bodyPost_returned _ _
  · exact bodyPost_bodyStep _
theorem bodyPost_dispatch (s : S) : BodyPost (dispatch s) := by
  unfold dispatch; split
  · exact bodyPost_bodyOf _ _
  · exact Or.inl trivial
theorem bodyPost_afterUpdate (s : S) : BodyPost (afterUpdate s) := bodyPost_dispatch _

theorem inv6_mainPlain_aux {s : S} (h1 : Inv1 s) (h6 : Inv6 s) :
    Inv6 (mainPlain s) ∨ BodyPost (mainPlain s) := by
  have hm := h1.mainAq
  unfold mainPlain
  split
  · -- start c: the call is entered
    rename_i c hpc
    rw [hpc] at hm
    have hm' : s.aq.recv = .idle := hm
    cases c with
    | next t =>
      simp only [startCall]
      unfold startNext
      split
      · refine Or.inl ⟨fun h => False.elim h, fun _ => ⟨?_, fun k k1 k2 => ?_⟩⟩
        · show s.aq.received ≤ processed s.aq; rw [processed_idle hm']; exact Nat.le_refl _
        · have k2' : k < processed s.aq := k2
          rw [processed_idle hm'] at k2'
          have k1' : s.aq.received ≤ k := k1
          omega
      · exact Or.inl ⟨fun _ => rfl, fun h => False.elim h⟩
    | run f =>
      refine Or.inl ⟨fun h => False.elim h, fun _ => ⟨?_, fun k k1 k2 => ?_⟩⟩
      · show s.aq.received ≤ processed s.aq; rw [processed_idle hm']; exact Nat.le_refl _
      · have k2' : k < processed s.aq := k2
        rw [processed_idle hm'] at k2'
        have k1' : s.aq.received ≤ k := k1
        omega
    | kill f =>
      refine Or.inl ⟨fun h => False.elim h, fun _ => ⟨?_, fun k k1 k2 => ?_⟩⟩
      · show s.aq.received ≤ processed s.aq; rw [processed_idle hm']; exact Nat.le_refl _
      · have k2' : k < processed s.aq := k2
        rw [processed_idle hm'] at k2'
        have k1' : s.aq.received ≤ k := k1
        omega
  · -- fastDone
    rename_i e hpc
    rw [hpc] at hm
    have hm' : s.aq.recv = .idle := hm
    have hf := h6.fast (by rw [hpc]; trivial)
    split
    · exact Or.inr (bodyPost_dispatch s)
    · refine Or.inl ⟨fun h => False.elim h, fun _ => ⟨?_, fun k k1 k2 => ?_⟩⟩
      · show s.drainFrom ≤ processed s.aq; rw [processed_idle hm', hf]; exact Nat.le_refl _
      · have k2' : k < processed s.aq := k2
        rw [processed_idle hm'] at k2'
        have k1' : s.drainFrom ≤ k := k1
        omega
  · -- recvd c
    rename_i c hpc
    rw [hpc] at hm
    have hd := h6.drain (by rw [hpc]; trivial)
    split
    · -- make_runnable(*f): one more entry moved
      rename_i sl k hr
      have hrv := h1.aqInv.recv
      rw [hr] at hrv
      have hk : k + 1 = s.aq.received := hrv.1
      have hp0 : processed s.aq = k := by unfold processed; rw [hr]; simp only; omega
      have hp1 : processed (step s.aq (.recv false)) = k + 1 := by
        unfold processed
        rw [recv_from_hold s.aq sl k hr false, recv_received_busy s.aq false (by rw [hr]; simp) (by rw [hr]; simp)]
        exact hk.symm
      refine Or.inl ⟨fun h => False.elim h, fun _ => ⟨?_, fun k' k1 k2 => ?_⟩⟩
      · show s.drainFrom ≤ processed (step s.aq _); rw [hp1]; have := hd.1; omega
      · have k2' : k' < processed (step s.aq (.recv false)) := k2
        rw [hp1] at k2'
        have k1' : s.drainFrom ≤ k' := k1
        show (step s.aq _).written k' ∈ (makeRunnable s.k (s.aq.payload sl.toNat)).runq
        rw [recv_written]
        by_cases hkk : k' = k
        · subst hkk
          rw [hold_payload h1.aqInv hr]
          exact (mem_runq_makeRunnable _ _).mpr (Or.inr rfl)
        · exact (mem_runq_makeRunnable _ _).mpr (Or.inl (hd.2 k' k1' (by omega)))
    · -- NULL: leave the loop
      cases c with
      | run f => exact Or.inl <| inv6_vacuous (fun h => h) (fun h => h)
      | kill f => exact Or.inl <| inv6_vacuous (fun h => h) (fun h => h)
      | pass1 =>
        simp only [afterDrain]
        split
        · exact Or.inr (bodyPost_afterUpdate s)
        · split
          · -- yielded: fibre_run(kernel.current) drains again, nothing else has changed
            exact Or.inl ⟨fun h => False.elim h, fun _ => hd⟩
          · exact Or.inl <| inv6_vacuous (fun h => h) (fun h => h)
          · exact Or.inr (bodyPost_afterUpdate _)
          · exact Or.inr (bodyPost_afterUpdate s)
      | pass2 c => exact Or.inr (bodyPost_afterUpdate _)
      | brun g => exact Or.inr (bodyPost_bodyStep _)
      | bkill g => exact Or.inr (bodyPost_bodyStep _)
  · -- reld c
    rename_i c hpc
    exact Or.inl ⟨fun h => False.elim h, fun _ => h6.drain (by rw [hpc]; trivial)⟩
  · exact Or.inr (bodyPost_afterUpdate _)
  · split
    · exact Or.inl <| inv6_vacuous (fun h => h) (fun h => h)
    · exact Or.inr (bodyPost_returned s _)
  · exact Or.inl <| inv6_vacuous (fun h => h) (fun h => h)
  · exact Or.inl <| inv6_vacuous (fun h => h) (fun h => h)
  · exact Or.inl h6

theorem inv6_mainPlain {s : S} (h1 : Inv1 s) (h6 : Inv6 s) : Inv6 (mainPlain s) :=
  (inv6_mainPlain_aux h1 h6).elim id (fun h => inv6_of_bodyPost h (inv1_mainPlain h1).mainAq)

theorem inv6_same {s s' : S} (h6 : Inv6 s) (haq : s'.aq = s.aq) (hk : s'.k = s.k) (hm : s'.mpc = s.mpc)
    (hd : s'.drainFrom = s.drainFrom) : Inv6 s' :=
  ⟨by rw [hm, hd, haq]; exact h6.fast, by rw [hm, hd, haq, hk]; exact h6.drain⟩

/-- **`Inv6` holds in every reachable state** -/
theorem reach_inv6 {s : S} (hr : Reach s) : Inv6 s := by
  induction hr with
  | init d kinds budgets h1 h32 => exact inv6_vacuous (fun h => h) (fun h => h)
  | mainPlain hr ih => exact inv6_mainPlain (reach_inv1 hr) ih
  | mainAtomic hr ih => exact inv6_mainAtomic (reach_inv1 hr) ih
  | senderPlain i hi hr ih =>
    exact inv6_sender (reach_inv1 hr) ih i (senderPlain_aq i _) (senderPlain_k i _) (senderPlain_mpc i _) (senderPlain_drainFrom i _)
  | senderAtomic i hi hr ih =>
    exact inv6_sender (reach_inv1 hr) ih i (senderAtomic_aq i _) (senderAtomic_k i _) (senderAtomic_mpc i _) (senderAtomic_drainFrom i _)
  | enterMain c _ hidle ih => exact inv6_vacuous (fun h => h) (fun h => h)
  | enterSender i c hi _ hidle ih => exact inv6_same ih rfl rfl rfl rfl
  | tok t _ ih => exact inv6_same ih rfl rfl rfl rfl
  | hung _ ih => exact inv6_same ih rfl rfl rfl rfl
  | nops k _ ih => exact inv6_same ih rfl rfl rfl rfl
  | newItem _ ih => exact inv6_same ih rfl rfl rfl rfl
  | noYields _ ih => exact inv6_same ih rfl rfl rfl rfl
  | setBody b r _ ih => exact inv6_same ih rfl rfl rfl rfl
  | observe o _ _ ih => exact inv6_same ih rfl rfl rfl rfl

/-! ### what the scheduler sees when it looks at the atomic run queue -/

/-- with no sender inside a call, a committed entry makes `messageq_empty` return false -/
theorem not_empty_of_inAq {s : S} (h1 : Inv1 s) (ho : Owned s.aq) (hq : Quiet s) {f : Fid} (hf : InAq s.aq f) :
    mqEmpty s.aq = false := by
  obtain ⟨k, k1, k2, _, _⟩ := hf
  have hlt : s.aq.received < s.aq.claimed := by omega
  have hs := quiet_all_sent h1 ho hq s.aq.received hlt
  have ht : ¬ (s.aq.flags &&& Librfn.Model.Messageq.bit s.aq.receivep.toNat = 0) :=
    fun hz => (head_test s.aq h1.aqInv).mp hz ⟨hlt, hs⟩
  unfold mqEmpty
  exact decide_eq_false ht

/-- with no sender inside a call, a receive that returns NULL has left nothing in the queue -/
theorem drain_complete {s : S} (h1 : Inv1 s) (ho : Owned s.aq) (hq : Quiet s) (hr : s.aq.recv = .idle)
    (hnull : (step s.aq (.recv false)).recv = .idle) : s.aq.received = s.aq.claimed := by
  have hstep : step s.aq (.recv false) = stepReceive s.aq := by simp [step, hr, stepRecv]
  have hns : ¬ (s.aq.received < s.aq.claimed ∧ s.aq.sent s.aq.received = true) :=
    fun hc => (receive_succeeds_iff s.aq h1.aqInv).mpr hc (hstep ▸ hnull)
  have ho2 := h1.aqInv.order2
  by_cases hlt : s.aq.received < s.aq.claimed
  · exact absurd ⟨hlt, quiet_all_sent h1 ho hq _ hlt⟩ hns
  · omega

end Librfn.Isr.L

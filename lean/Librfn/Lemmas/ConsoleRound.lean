import Librfn.Lemmas.ConsoleSeg
/-! The render / tokenise round trip on the tokeniser fold. -/
namespace Librfn.Lemmas.ConsoleRound
open Librfn.Model.Console Librfn.Gen.Layout Librfn.Lemmas.ConsoleTok Librfn.Lemmas.ConsoleScan Librfn.Lemmas.ConsoleSeg
open Librfn.Spec.Console (blank isQuote printable Word Blanks Item renderArgs)

def NZ (l : List Byte) : Prop := ∀ b ∈ l, b ≠ 0

theorem takeWhile_nz : ∀ (text rest : List Byte), NZ text → (text ++ 0 :: rest).takeWhile (· ≠ 0) = text
  | [], _, _ => by simp [List.takeWhile]
  | b :: t, rest, h => by
    have hb : b ≠ 0 := h b (List.mem_cons_self ..)
    simp only [List.cons_append, List.takeWhile_cons, ne_eq, hb, not_false_eq_true, decide_true, if_true]
    rw [takeWhile_nz t rest (fun x hx => h x (List.mem_cons_of_mem _ hx))]

/-- the C string at the end of `pre` is `text` when a NUL follows it -/
theorem cstr_at (pre text rest : List Byte) (h : NZ text) : cstr (pre ++ text ++ 0 :: rest) pre.length = text := by
  unfold cstr
  rw [List.append_assoc, List.drop_left]
  exact takeWhile_nz text rest h

theorem getD_set_argv (l : List (Option Nat)) (i j : Nat) (v : Option Nat) :
    (l.set i v).getD j none = if i = j ∧ i < l.length then v else l.getD j none := by
  simp only [List.getD_eq_getElem?_getD, List.getElem?_set]
  by_cases h : i = j
  · subst h
    by_cases h2 : i < l.length
    · simp [h2]
    · simp [h2]
  · simp [h]

/-- a list that is empty or starts with a NUL -/
def NulFirst (x : List Byte) : Prop := x = [] ∨ ∃ y, x = 0 :: y

/-- the bytes an item leaves in the buffer -/
def itemOut : Item → List Byte
  | .word w => w
  | .quoted _ s => 0 :: s ++ [0]

theorem item_nz (it : Item) (h : it.Ok) : NZ it.text := by
  cases it with
  | word w => exact fun b hb => nz_of_printable b (h.2 b hb).1
  | quoted q s => exact fun b hb => (h.2.2 b hb).1

/-- **one argument** (not the fourth): a new token whose string is the argument's text, whatever
    follows as long as that is nothing or starts with a NUL -/
theorem scan_item (it : Item) (s : Sc) (hb : s.brk = false) (hq : s.quote = 0) (hp : s.prev = 0)
    (hok : it.Ok) (hc : s.argc + 1 < argvLen) (hlen : s.argv.length = argvLen) :
    ∃ p, After s (scan s it.render) (itemOut it) 0 (s.argc + 1) (s.argv.set s.argc (some p)) false ∧
      ∀ (x tail : List Byte), NulFirst x → cstr (s.out ++ itemOut it ++ x ++ 0 :: tail) p = it.text := by
  have hnz := item_nz it hok
  cases it with
  | word w =>
    obtain ⟨a, _⟩ := scan_word w s hb hq hp hok hc
    refine ⟨s.out.length, a, ?_⟩
    intro x tail hx
    show cstr (s.out ++ w ++ x ++ 0 :: tail) s.out.length = w
    rcases hx with rfl | ⟨y, rfl⟩
    · simpa using cstr_at s.out w tail hnz
    · have := cstr_at s.out w (y ++ 0 :: tail) hnz
      simpa using this
  | quoted q str =>
    obtain ⟨a, _⟩ := scan_quoted q str s hb hq hp hok.1 hok.2.1 hok.2.2 hc
    refine ⟨s.out.length + 1, a, ?_⟩
    intro x tail _
    show cstr (s.out ++ (0 :: str ++ [0]) ++ x ++ 0 :: tail) (s.out.length + 1) = str
    have := cstr_at (s.out ++ [0]) str (x ++ 0 :: tail) hnz
    simpa using this

/-- the arguments a list of rendered items stands for -/
def argTexts (args : List (List Byte × Item)) (final : Option (List Byte × List Byte)) : List (List Byte) :=
  args.map (·.2.text) ++ (match final with | none => [] | some (_, w) => [w])

def finalR : Option (List Byte × List Byte) → List Byte
  | none => []
  | some (sep, w) => sep ++ w

theorem blanks_isspace (sep : List Byte) (h : Blanks sep) : ∀ b ∈ sep, isspace b = true :=
  fun b hb => isspace_of_blank b (h.2 b hb)

/-- **the arguments after the command word**: every one becomes a token holding exactly its text -/
theorem scan_args : ∀ (args : List (List Byte × Item)) (final : Option (List Byte × List Byte)) (s : Sc),
    s.brk = false → s.quote = 0 → s.argv.length = argvLen →
    (∀ a ∈ args, Blanks a.1 ∧ a.2.Ok) → s.argc + args.length < argvLen →
    (∀ f, final = some f → Blanks f.1 ∧ Word f.2) →
    ∃ x, (scan s (renderArgs args ++ finalR final)).out = s.out ++ x ∧ NulFirst x ∧
      (scan s (renderArgs args ++ finalR final)).argc = s.argc + (argTexts args final).length ∧
      (scan s (renderArgs args ++ finalR final)).argv.length = argvLen ∧
      (∀ j, j < s.argc → (scan s (renderArgs args ++ finalR final)).argv.getD j none = s.argv.getD j none) ∧
      (∀ j t, (argTexts args final)[j]? = some t → ∃ p,
          (scan s (renderArgs args ++ finalR final)).argv.getD (s.argc + j) none = some p ∧
          ∀ tail, cstr ((scan s (renderArgs args ++ finalR final)).out ++ 0 :: tail) p = t)
  | [], none, s, _, _, hl, _, _, _ => by
    refine ⟨[], by simp [renderArgs, finalR, scan_nil], Or.inl rfl, by simp [renderArgs, finalR, scan_nil, argTexts], ?_, ?_, ?_⟩
    · simpa [renderArgs, finalR, scan_nil] using hl
    · intro j _; simp [renderArgs, finalR, scan_nil]
    · intro j t h; simp [argTexts] at h
  | [], some (sep, w), s, hb, hq, hl, _, hc, hf => by
    obtain ⟨hsep, hw⟩ := hf (sep, w) rfl
    have hwnz : NZ w := fun b hb' => nz_of_printable b (hw.2 b hb').1
    obtain ⟨a1, p1⟩ := scan_blanks sep s hb hq hsep.1 (blanks_isspace sep hsep)
    have hrun : renderArgs [] ++ finalR (some (sep, w)) = sep ++ (w ++ []) := by simp [renderArgs, finalR]
    rw [hrun, scan_append]
    have hl1 : (scan s sep).argv.length = argvLen := by rw [a1.argv]; exact hl
    have hout1 : (scan s sep).out.length = s.out.length + sep.length := by rw [a1.out]; simp
    have hsep0 : ∃ y, List.replicate sep.length (0 : Byte) = 0 :: y := by
      cases hs : sep with
      | nil => exact absurd hs hsep.1
      | cons c r => exact ⟨List.replicate r.length 0, by simp [List.replicate_succ]⟩
    obtain ⟨y, hy⟩ := hsep0
    by_cases hlast : s.argc + 1 ≥ argvLen
    · have a2 := scan_word_last w [] (scan s sep) a1.brk a1.quote p1 hw (by rw [a1.argc]; exact hlast)
      refine ⟨List.replicate sep.length 0 ++ (w ++ []), ?_, ?_, ?_, ?_, ?_, ?_⟩
      · rw [a2.out, a1.out]; simp
      · exact Or.inr ⟨y ++ (w ++ []), by rw [hy]; simp⟩
      · rw [a2.argc, a1.argc]; simp [argTexts]
      · rw [a2.argv, List.length_set]; exact hl1
      · intro j hj
        rw [a2.argv, getD_set_argv, a1.argc, if_neg (by omega), a1.argv]
      · intro j t h
        have hj : j = 0 := by
          simp only [argTexts, List.map_nil, List.nil_append] at h
          cases j with
          | zero => rfl
          | succ j => simp at h
        subst hj
        have ht : t = w := by simp [argTexts] at h; exact h.symm
        subst ht
        refine ⟨(scan s sep).out.length, ?_, ?_⟩
        · rw [a2.argv, getD_set_argv, a1.argc, if_pos ⟨by omega, by rw [hl1]; have := argvLen_eq; omega⟩]
        · intro tail
          rw [a2.out]
          have := cstr_at (scan s sep).out t tail hwnz
          simpa using this
    · obtain ⟨a2, _⟩ := scan_word w (scan s sep) a1.brk a1.quote p1 hw (by rw [a1.argc]; omega)
      rw [List.append_nil]
      refine ⟨List.replicate sep.length 0 ++ w, ?_, ?_, ?_, ?_, ?_, ?_⟩
      · rw [a2.out, a1.out]; simp
      · exact Or.inr ⟨y ++ w, by rw [hy]; simp⟩
      · rw [a2.argc, a1.argc]; simp [argTexts]
      · rw [a2.argv, List.length_set]; exact hl1
      · intro j hj
        rw [a2.argv, getD_set_argv, a1.argc, if_neg (by omega), a1.argv]
      · intro j t h
        have hj : j = 0 := by
          simp only [argTexts, List.map_nil, List.nil_append] at h
          cases j with
          | zero => rfl
          | succ j => simp at h
        subst hj
        have ht : t = w := by simp [argTexts] at h; exact h.symm
        subst ht
        refine ⟨(scan s sep).out.length, ?_, ?_⟩
        · rw [a2.argv, getD_set_argv, a1.argc, if_pos ⟨by omega, by rw [hl1]; have := argvLen_eq; omega⟩]
        · intro tail
          rw [a2.out]
          have := cstr_at (scan s sep).out t tail hwnz
          simpa using this
  | (sep, it) :: rest, final, s, hb, hq, hl, hargs, hc, hf => by
    obtain ⟨hsep, hok⟩ := hargs (sep, it) (List.mem_cons_self ..)
    simp only [List.length_cons] at hc
    obtain ⟨a1, p1⟩ := scan_blanks sep s hb hq hsep.1 (blanks_isspace sep hsep)
    have hl1 : (scan s sep).argv.length = argvLen := by rw [a1.argv]; exact hl
    obtain ⟨p, a2, hcs⟩ := scan_item it (scan s sep) a1.brk a1.quote p1 hok (by rw [a1.argc]; omega) hl1
    have hl2 : (scan (scan s sep) it.render).argv.length = argvLen := by rw [a2.argv, List.length_set]; exact hl1
    have hrun : renderArgs ((sep, it) :: rest) ++ finalR final = sep ++ (it.render ++ (renderArgs rest ++ finalR final)) := by
      simp [renderArgs]
    rw [hrun, scan_append, scan_append]
    obtain ⟨x, i1, i2, i3, i4, i5, i6⟩ := scan_args rest final (scan (scan s sep) it.render) a2.brk a2.quote hl2
      (fun a ha => hargs a (List.mem_cons_of_mem _ ha)) (by rw [a2.argc, a1.argc]; omega) hf
    have hsep0 : ∃ y, List.replicate sep.length (0 : Byte) = 0 :: y := by
      cases hs : sep with
      | nil => exact absurd hs hsep.1
      | cons c r => exact ⟨List.replicate r.length 0, by simp [List.replicate_succ]⟩
    obtain ⟨y, hy⟩ := hsep0
    have hargc2 : (scan (scan s sep) it.render).argc = s.argc + 1 := by rw [a2.argc, a1.argc]
    refine ⟨List.replicate sep.length 0 ++ itemOut it ++ x, ?_, ?_, ?_, i4, ?_, ?_⟩
    · rw [i1, a2.out, a1.out]; simp
    · exact Or.inr ⟨y ++ itemOut it ++ x, by rw [hy]; simp⟩
    · rw [i3, hargc2]; simp [argTexts]; omega
    · intro j hj
      rw [i5 j (by rw [hargc2]; omega), a2.argv, getD_set_argv, a1.argc, if_neg (by omega), a1.argv]
    · intro j t h
      cases j with
      | zero =>
        have ht : t = it.text := by simp [argTexts] at h; exact h.symm
        subst ht
        refine ⟨p, ?_, ?_⟩
        · rw [i5 _ (by rw [hargc2]; omega), a2.argv, getD_set_argv, a1.argc,
            if_pos ⟨rfl, by rw [hl1]; omega⟩]
        · intro tail
          rw [i1, a2.out]
          have := hcs x tail i2
          simpa using this
      | succ j =>
        have h' : (argTexts rest final)[j]? = some t := by simpa [argTexts] using h
        obtain ⟨p', q1, q2⟩ := i6 j t h'
        refine ⟨p', ?_, q2⟩
        rw [← q1, hargc2]
        congr 1; omega

/-- without a final word the loop is still running, outside quotes, after the arguments -/
theorem scan_args_state : ∀ (args : List (List Byte × Item)) (s : Sc),
    s.brk = false → s.quote = 0 → s.argv.length = argvLen →
    (∀ a ∈ args, Blanks a.1 ∧ a.2.Ok) → s.argc + args.length < argvLen →
    (scan s (renderArgs args)).brk = false ∧ (scan s (renderArgs args)).quote = 0
  | [], s, hb, hq, _, _, _ => ⟨hb, hq⟩
  | (sep, it) :: rest, s, hb, hq, hl, hargs, hc => by
    obtain ⟨hsep, hok⟩ := hargs (sep, it) (List.mem_cons_self ..)
    simp only [List.length_cons] at hc
    obtain ⟨a1, p1⟩ := scan_blanks sep s hb hq hsep.1 (blanks_isspace sep hsep)
    have hl1 : (scan s sep).argv.length = argvLen := by rw [a1.argv]; exact hl
    obtain ⟨p, a2, _⟩ := scan_item it (scan s sep) a1.brk a1.quote p1 hok (by rw [a1.argc]; omega) hl1
    have hl2 : (scan (scan s sep) it.render).argv.length = argvLen := by rw [a2.argv, List.length_set]; exact hl1
    have hrun : renderArgs ((sep, it) :: rest) = sep ++ (it.render ++ renderArgs rest) := by simp [renderArgs]
    rw [hrun, scan_append, scan_append]
    exact scan_args_state rest _ a2.brk a2.quote hl2 (fun a ha => hargs a (List.mem_cons_of_mem _ ha))
      (by rw [a2.argc, a1.argc]; omega)

end Librfn.Lemmas.ConsoleRound

import Librfn.Lemmas.IsrInv
/-! C06 `queues_not_corrupted`: the scheduler's run queue and timer queue stay duplicate free and disjoint at every
step of every context (interrupts never touch them; the main context's own steps preserve the invariant at each gap). -/
namespace Librfn.Isr.L
open Librfn.Model.FibreIsr
open Librfn.Sched (Fid Ret)
open Librfn.Model.Fibre

/-- the scheduler's two lists are duplicate free and disjoint: what `list.c` needs to stay a sequence (C09) -/
structure QOk (k : K) : Prop where
  rn : k.runq.Nodup
  tn : k.timerq.Nodup
  dj : ∀ f ∈ k.runq, f ∉ k.timerq

theorem nodup_snoc {l : List Fid} {f : Fid} (h : l.Nodup) (hf : f ∉ l) : (l ++ [f]).Nodup := by
  rw [List.nodup_append]
  exact ⟨h, by simp, fun a ha b hb => by
    rw [List.mem_singleton] at hb; subst hb; exact fun e => hf (e ▸ ha)⟩

theorem qok_makeRunnable {k : K} (h : QOk k) (f : Fid) : QOk (makeRunnable k f) := by
  unfold makeRunnable
  split
  · exact h
  · rename_i hf
    refine ⟨nodup_snoc h.rn hf, h.tn.erase f, ?_⟩
    intro g hg hgt
    simp only [List.mem_append, List.mem_singleton] at hg
    rcases hg with hg | hg
    · exact h.dj g hg (List.mem_of_mem_erase hgt)
    · subst hg; exact (List.Nodup.mem_erase_iff h.tn).mp hgt |>.1 rfl

theorem mem_runq_makeRunnable {k : K} (f g : Fid) : g ∈ (makeRunnable k f).runq ↔ g ∈ k.runq ∨ g = f := by
  unfold makeRunnable
  split
  · rename_i hf
    constructor
    · exact Or.inl
    · rintro (h | h)
      · exact h
      · subst h; exact hf
  · simp

theorem timerqLoop_ok (due : Fid → BitVec 32) (now : BitVec 32) :
    ∀ (tq rq : List Fid), tq.Nodup → rq.Nodup → (∀ f ∈ rq, f ∉ tq) →
      (timerqLoop due now tq rq).1.Nodup ∧ (timerqLoop due now tq rq).2.Nodup ∧
      (∀ f ∈ (timerqLoop due now tq rq).2, f ∉ (timerqLoop due now tq rq).1) ∧
      (∀ f ∈ rq, f ∈ (timerqLoop due now tq rq).2)
  | [], rq, _, h2, _ => ⟨List.nodup_nil, h2, fun _ _ => List.not_mem_nil, fun _ h => h⟩
  | f :: r, rq, h1, h2, h3 => by
    unfold timerqLoop
    split
    · have hf : f ∉ rq := fun hm => h3 f hm List.mem_cons_self
      have hn := List.nodup_cons.mp h1
      have ih := timerqLoop_ok due now r (rq ++ [f]) hn.2 (nodup_snoc h2 hf) (by
        intro g hg
        simp only [List.mem_append, List.mem_singleton] at hg
        rcases hg with hg | hg
        · exact fun hm => h3 g hg (List.mem_cons_of_mem _ hm)
        · subst hg; exact hn.1)
      exact ⟨ih.1, ih.2.1, ih.2.2.1, fun g hg => ih.2.2.2 g (List.mem_append_left _ hg)⟩
    · exact ⟨h1, h2, h3, fun _ h => h⟩

theorem qok_handleTimerq {k : K} (h : QOk k) : QOk (handleTimerq k) := by
  have := timerqLoop_ok k.due k.now k.timerq k.runq h.tn h.rn h.dj
  exact ⟨this.2.1, this.1, this.2.2.1⟩

theorem mem_runq_handleTimerq {k : K} (h : QOk k) {g : Fid} (hg : g ∈ k.runq) : g ∈ (handleTimerq k).runq :=
  (timerqLoop_ok k.due k.now k.timerq k.runq h.tn h.rn h.dj).2.2.2 g hg

theorem qok_getNextTask {k : K} (h : QOk k) :
    QOk (getNextTask k) ∧ ∀ c, (getNextTask k).current = some c → c ∉ (getNextTask k).runq ∧ c ∉ (getNextTask k).timerq := by
  unfold getNextTask
  split
  · exact ⟨⟨h.rn, h.tn, h.dj⟩, fun c hc => by cases hc⟩
  · rename_i f r e
    have hn : (f :: r).Nodup := e ▸ h.rn
    have hd : ∀ g ∈ f :: r, g ∉ k.timerq := e ▸ h.dj
    refine ⟨⟨(List.nodup_cons.mp hn).2, h.tn, fun g hg => hd g (List.mem_cons_of_mem _ hg)⟩, ?_⟩
    intro c hc
    simp only [Option.some.injEq] at hc
    subst hc
    exact ⟨(List.nodup_cons.mp hn).1, hd f List.mem_cons_self⟩

theorem insertScan_perm (due : Fid → BitVec 32) (f : Fid) : ∀ l : List Fid, (insertScan due f l).Perm (f :: l)
  | [] => List.Perm.refl _
  | x :: xs => by
    unfold insertScan
    split
    · exact ((insertScan_perm due f xs).cons x).trans (List.Perm.swap f x xs)
    · exact List.Perm.refl _

theorem insertSorted_perm (due : Fid → BitVec 32) (f : Fid) (l : List Fid) : (insertSorted due f l).Perm (f :: l) := by
  unfold insertSorted
  split
  · rename_i e
    have : l = [] := List.getLast?_eq_none_iff.mp e
    subst this; exact List.Perm.refl _
  · split
    · exact List.perm_append_singleton f l
    · exact insertScan_perm due f l

theorem fibreTimeout_true {k : K} {c : Fid} {d : BitVec 32} (h : (fibreTimeout k c d).2 = true) : (fibreTimeout k c d).1 = k := by
  unfold fibreTimeout at h ⊢
  split
  · rfl
  · rename_i hn; simp only [hn] at h; cases h

theorem qok_fibreTimeout {k : K} (h : QOk k) (c : Fid) (d : BitVec 32) (hc : c ∉ k.timerq) : QOk (fibreTimeout k c d).1 := by
  unfold fibreTimeout
  split
  · exact h
  · simp only
    split
    · exact ⟨h.rn, h.tn, h.dj⟩
    · rename_i hr
      have hp := insertSorted_perm (upd k.due c d) c k.timerq
      refine ⟨h.rn, hp.nodup_iff.mpr (List.nodup_cons.mpr ⟨hc, h.tn⟩), ?_⟩
      intro g hg hgt
      rcases List.mem_cons.mp (hp.mem_iff.mp hgt) with e | e
      · subst e; exact hr hg
      · exact h.dj g hg e

theorem runq_fibreTimeout (k : K) (c : Fid) (d : BitVec 32) : (fibreTimeout k c d).1.runq = k.runq := by
  unfold fibreTimeout
  split
  · rfl
  · simp only; split <;> rfl

theorem mem_timerq_fibreTimeout {k : K} {c : Fid} {d : BitVec 32} {g : Fid} (h : g ∈ (fibreTimeout k c d).1.timerq) :
    g = c ∨ g ∈ k.timerq := by
  unfold fibreTimeout at h
  split at h
  · exact Or.inr h
  · simp only at h
    split at h
    · exact Or.inr h
    · exact List.mem_cons.mp ((insertSorted_perm _ c k.timerq).mem_iff.mp h)

/-! ### what the steps of a sender leave alone -/

theorem senderAtomic_k (i : Nat) (s : S) : (senderAtomic i s).k = s.k := by
  unfold senderAtomic; split <;> (try split) <;> rfl
theorem senderAtomic_mpc (i : Nat) (s : S) : (senderAtomic i s).mpc = s.mpc := by
  unfold senderAtomic; split <;> (try split) <;> rfl
theorem senderPlain_k (i : Nat) (s : S) : (senderPlain i s).k = s.k := by
  unfold senderPlain; split <;> (try split) <;> rfl
theorem senderPlain_mpc (i : Nat) (s : S) : (senderPlain i s).mpc = s.mpc := by
  unfold senderPlain; split <;> (try split) <;> rfl

def FastPc : MPc → Prop
  | .fast | .fastDone _ => True
  | _ => False

theorem PostPc.notFast {pc : MPc} (h : PostPc pc) : ¬ FastPc pc := by
  cases pc <;> first | exact False.elim h | exact fun h => h

/-- **queues_not_corrupted** as a state invariant: the run queue and the timer queue are duplicate free and disjoint;
    on the single-yielder fast path both are empty -/
structure Inv2 (s : S) : Prop where
  q : QOk s.k
  fast : FastPc s.mpc → s.k.runq = [] ∧ s.k.timerq = []

theorem qok_lists {k k' : K} (h : QOk k) (e1 : k'.runq = k.runq) (e2 : k'.timerq = k.timerq) : QOk k' :=
  ⟨e1 ▸ h.rn, e2 ▸ h.tn, by rw [e1, e2]; exact h.dj⟩

theorem returned_runq (s : S) (r : Ret) : (returned s r).k.runq = s.k.runq := by
  unfold returned; split <;> rfl
theorem returned_timerq (s : S) (r : Ret) : (returned s r).k.timerq = s.k.timerq := by
  unfold returned; split <;> rfl

theorem bodyStep_runq (s : S) : (bodyStep s).k.runq = s.k.runq := by
  unfold bodyStep; split
  · exact returned_runq _ _
  · rfl
  · rfl
theorem bodyStep_timerq (s : S) : (bodyStep s).k.timerq = s.k.timerq := by
  unfold bodyStep; split
  · exact returned_timerq _ _
  · rfl
  · rfl

theorem qok_bodyOf {s : S} (h : QOk s.k) (c : Fid) (hc : c ∉ s.k.timerq) : QOk (bodyOf s c).k := by
  unfold bodyOf
  split
  · exact h
  · split
    · exact qok_lists h (returned_runq _ _) (returned_timerq _ _)
    · exact qok_lists h (returned_runq _ _) (returned_timerq _ _)
  · split
    · rename_i ht
      have e := fibreTimeout_true ht
      refine qok_lists (k := (fibreTimeout (fibreTimeout s.k c (s.sdue c)).1 c _).1) ?_ (returned_runq _ _) (returned_timerq _ _)
      rw [e]; exact qok_fibreTimeout h c _ hc
    · exact qok_lists (qok_fibreTimeout h c _ hc) (returned_runq _ _) (returned_timerq _ _)
  · exact qok_lists h (returned_runq _ _) (returned_timerq _ _)
  · exact qok_lists h (bodyStep_runq _) (bodyStep_timerq _)

theorem qok_dispatch {s : S} (h : QOk s.k) (hc : ∀ c, s.k.current = some c → c ∉ s.k.timerq) : QOk (dispatch s).k := by
  unfold dispatch
  split
  · rename_i c e
    exact qok_bodyOf (s := tok (.disp c) (emit (.dispatched c) { s with dispatchedNow := true })) h c (hc c e)
  · exact h

theorem qok_afterUpdate {s : S} (h : QOk s.k) : QOk (afterUpdate s).k := by
  have := qok_getNextTask (qok_handleTimerq h)
  exact qok_dispatch (s := { s with k := getNextTask (handleTimerq s.k) }) this.1 (fun c hc => (this.2 c hc).2)

theorem qok_afterDrain {s : S} (h : QOk s.k) (c : Cont) : QOk (afterDrain s c).k := by
  cases c with
  | run f => exact qok_makeRunnable h f
  | kill f =>
    exact ⟨h.rn.erase f, h.tn.erase f, fun g hg hgt => h.dj g (List.mem_of_mem_erase hg) (List.mem_of_mem_erase hgt)⟩
  | pass1 =>
    simp only [afterDrain]
    split
    · exact qok_afterUpdate h
    · split
      · exact h
      · exact h
      · exact qok_afterUpdate (s := { s with k := { s.k with priv := _ } }) (qok_lists h rfl rfl)
      · exact qok_afterUpdate h
  | pass2 c => exact qok_afterUpdate (s := { s with k := makeRunnable s.k c }) (qok_makeRunnable h c)
  | brun g => exact qok_lists (qok_makeRunnable h g) (bodyStep_runq _) (bodyStep_timerq _)
  | bkill g =>
    refine qok_lists (k := { s.k with runq := s.k.runq.erase g, timerq := s.k.timerq.erase g }) ?_ (bodyStep_runq _) (bodyStep_timerq _)
    exact ⟨h.rn.erase g, h.tn.erase g, fun f hg hgt => h.dj f (List.mem_of_mem_erase hg) (List.mem_of_mem_erase hgt)⟩

theorem inv2_sched {s' : S} (hq : QOk s'.k) (hp : PostPc s'.mpc) : Inv2 s' :=
  ⟨hq, fun hf => absurd hf hp.notFast⟩

theorem inv2_mainAtomic {s : S} (h : Inv2 s) : Inv2 (mainAtomic s) := by
  unfold mainAtomic
  split
  · rename_i hpc
    exact ⟨h.q, fun _ => h.fast (by rw [hpc]; trivial)⟩
  all_goals first
    | exact ⟨h.q, fun hf => False.elim hf⟩
    | exact h

theorem inv2_mainPlain {s : S} (h : Inv2 s) : Inv2 (mainPlain s) := by
  unfold mainPlain
  split
  · rename_i c hpc
    cases c with
    | next t =>
      simp only [startCall]
      unfold startNext
      split
      · exact ⟨qok_lists h.q rfl rfl, fun hf => False.elim hf⟩
      · rename_i hn
        refine ⟨qok_lists h.q rfl rfl, fun _ => ?_⟩
        simp only [tok_k, emit_k, not_or, Decidable.not_not] at hn
        exact ⟨hn.2.1, hn.2.2⟩
    | run f => exact ⟨h.q, fun hf => False.elim hf⟩
    | kill f => exact ⟨h.q, fun hf => False.elim hf⟩
  · -- fastDone
    rename_i e hpc
    have hf := h.fast (by rw [hpc]; trivial)
    split
    · exact inv2_sched (qok_dispatch h.q (fun c _ => by rw [hf.2]; exact List.not_mem_nil)) (frame_dispatch ⟨rfl, rfl, rfl, rfl⟩).post
    · exact ⟨h.q, fun hf => False.elim hf⟩
  · -- recvd
    rename_i c hpc
    split
    · exact ⟨qok_makeRunnable h.q _, fun hf => False.elim hf⟩
    · exact inv2_sched (qok_afterDrain h.q c) (frame_afterDrain ⟨rfl, rfl, rfl, rfl⟩ c).post
  · exact ⟨h.q, fun hf => False.elim hf⟩
  · -- taintFd
    refine inv2_sched (qok_afterUpdate ?_) (frame_afterUpdate (s0 := s) ?_).post
    · unfold resetPriv; split
      · exact qok_lists h.q rfl rfl
      · exact h.q
    · unfold resetPriv; split
      · exact ⟨rfl, rfl, rfl, rfl⟩
      · exact ⟨rfl, rfl, rfl, rfl⟩
  · -- hRecvd
    split
    · exact ⟨h.q, fun hf => False.elim hf⟩
    · exact inv2_sched (qok_lists h.q (returned_runq _ _) (returned_timerq _ _)) (frame_returned ⟨rfl, rfl, rfl, rfl⟩ _).post
  · exact ⟨h.q, fun hf => False.elim hf⟩
  · exact inv2_sched h.q (frame_finishPass ⟨rfl, rfl, rfl, rfl⟩ _).post
  · exact h

theorem inv2_same {s s' : S} (h : Inv2 s) (hk : s'.k = s.k) (hm : s'.mpc = s.mpc) : Inv2 s' :=
  ⟨hk ▸ h.q, by rw [hm, hk]; exact h.fast⟩

/-- **`Inv2` holds in every reachable state** — in particular at every gap at which an interrupt can fire -/
theorem reach_inv2 {s : S} (hr : Reach s) : Inv2 s := by
  induction hr with
  | init d kinds budgets h1 h32 => exact ⟨⟨List.nodup_nil, List.nodup_nil, fun _ h => absurd h List.not_mem_nil⟩, fun h => False.elim h⟩
  | mainPlain _ ih => exact inv2_mainPlain ih
  | mainAtomic _ ih => exact inv2_mainAtomic ih
  | senderPlain i hi _ ih => exact inv2_same ih (senderPlain_k i _) (senderPlain_mpc i _)
  | senderAtomic i hi _ ih => exact inv2_same ih (senderAtomic_k i _) (senderAtomic_mpc i _)
  | enterMain c _ hidle ih => exact ⟨ih.q, fun h => False.elim h⟩
  | enterSender i c hi _ hidle ih => exact inv2_same ih rfl rfl
  | tok t _ ih => exact inv2_same ih rfl rfl
  | hung _ ih => exact inv2_same ih rfl rfl
  | nops k _ ih => exact inv2_same ih rfl rfl
  | newItem _ ih => exact inv2_same ih rfl rfl
  | noYields _ ih => exact inv2_same ih rfl rfl
  | setBody b r _ ih => exact inv2_same ih rfl rfl
  | observe o _ _ ih => exact inv2_same ih rfl rfl

end Librfn.Isr.L

import Librfn.Lemmas.ConsoleScan
import Librfn.Spec.Console
/-! What the tokeniser fold does on the building blocks of a rendered command line: the rest of a
word, a run of blanks, the start of a word, a quoted string. -/
namespace Librfn.Lemmas.ConsoleSeg
open Librfn.Model.Console Librfn.Gen.Layout Librfn.Lemmas.ConsoleTok Librfn.Lemmas.ConsoleScan
open Librfn.Spec.Console (blank isQuote printable Word Blanks Item)

theorem isspace_of_blank (b : Byte) (h : blank b) : isspace b = true := by
  unfold blank at h; unfold isspace
  rcases h with h | h <;> subst h <;> decide

theorem nat_not_space (b : Nat) (h : 33 ≤ b ∧ b ≤ 126) (h2 : b = 32 ∨ (9 ≤ b ∧ b ≤ 13)) : False := by omega

theorem nz_of_printable (b : Nat) (h : 33 ≤ b ∧ b ≤ 126) : b ≠ 0 := by omega

theorem not_isspace_of_printable (b : Byte) (h : printable b) : ¬ (isspace b = true) := by
  unfold isspace
  intro hs
  exact nat_not_space b h (of_decide_eq_true hs)

theorem not_isspace_of_quote (b : Byte) (h : isQuote b) : ¬ (isspace b = true) := by
  rcases h with rfl | rfl <;> decide

theorem quote_ne_zero (b : Byte) (h : isQuote b) : b ≠ 0 := by
  rcases h with rfl | rfl <;> decide

/-! ### single steps -/

theorem step_copy (s : Sc) (b : Byte) (hb : s.brk = false) (h1 : ¬ (isspace b = true ∧ s.quote = 0))
    (h2 : b ≠ s.quote) (h3 : s.prev ≠ 0) : scanStep s b = { s with out := s.out ++ [b], prev := b } := by
  unfold scanStep scanBody
  rw [if_neg (by rw [hb]; decide), if_neg h1, if_neg h2, if_neg h3]

theorem step_blank (s : Sc) (b : Byte) (hb : s.brk = false) (h1 : isspace b = true) (hq : s.quote = 0) :
    scanStep s b = { s with out := s.out ++ [0], prev := 0 } := by
  unfold scanStep scanBody
  rw [if_neg (by rw [hb]; decide), if_pos ⟨h1, hq⟩]

theorem step_open (s : Sc) (b : Byte) (hb : s.brk = false) (hq : s.quote = 0) (hp : s.prev = 0) (h : isQuote b) :
    scanStep s b = { s with out := s.out ++ [0], prev := 0, quote := b } := by
  have hns := not_isspace_of_quote b h
  have hne : b ≠ s.quote := by rw [hq]; exact quote_ne_zero b h
  unfold scanStep scanBody
  rw [if_neg (by rw [hb]; decide), if_neg (fun c => hns c.1), if_neg hne, if_pos hp, if_pos (show s.quote = 0 ∧ (b = 39 ∨ b = 34) from ⟨hq, h⟩)]

theorem step_close (s : Sc) (b : Byte) (hb : s.brk = false) (hq : b = s.quote) (hnz : b ≠ 0) :
    scanStep s b = { s with out := s.out ++ [0], prev := 0, quote := 0 } := by
  unfold scanStep scanBody
  rw [if_neg (by rw [hb]; decide), if_neg (fun c => hnz (hq.trans c.2)), if_pos hq]

theorem step_start (s : Sc) (b : Byte) (hb : s.brk = false) (h1 : ¬ (isspace b = true ∧ s.quote = 0))
    (h2 : b ≠ s.quote) (hp : s.prev = 0) (h4 : ¬ (s.quote = 0 ∧ isQuote b)) :
    scanStep s b = { s with out := s.out ++ [b], prev := b, argv := s.argv.set s.argc (some s.out.length),
                            argc := s.argc + 1, brk := decide (s.argc + 1 ≥ argvLen) } := by
  unfold scanStep scanBody
  rw [if_neg (by rw [hb]; decide), if_neg h1, if_neg h2, if_pos hp, if_neg (show ¬ (s.quote = 0 ∧ (b = 39 ∨ b = 34)) from h4)]

/-! ### segments -/

/-- what a segment lemma says about the state after the segment -/
structure After (s s' : Sc) (appended : List Byte) (quote : Byte) (argc : Nat) (argv : List (Option Nat)) (brk : Bool) : Prop where
  out : s'.out = s.out ++ appended
  quote : s'.quote = quote
  argc : s'.argc = argc
  argv : s'.argv = argv
  brk : s'.brk = brk

/-- characters that are copied unchanged: inside a word (no quote open: not white space) or inside a
    quoted string (any character but the closing quote) -/
theorem scan_copy : ∀ (w : List Byte) (s : Sc), s.brk = false → s.prev ≠ 0 →
    (∀ b ∈ w, b ≠ 0 ∧ b ≠ s.quote ∧ ¬ (isspace b = true ∧ s.quote = 0)) →
    After s (scan s w) w s.quote s.argc s.argv false ∧ ((scan s w).prev ≠ 0)
  | [], s, hb, hp, _ => ⟨⟨by simp [scan], rfl, rfl, rfl, hb⟩, hp⟩
  | b :: w, s, hb, hp, h => by
    obtain ⟨h1, h2, h3⟩ := h b (List.mem_cons_self ..)
    rw [scan_cons, step_copy s b hb h3 h2 hp]
    obtain ⟨a, ap⟩ := scan_copy w { s with out := s.out ++ [b], prev := b } hb h1
      (fun x hx => h x (List.mem_cons_of_mem _ hx))
    exact ⟨⟨by rw [a.out]; simp, a.quote, a.argc, a.argv, a.brk⟩, ap⟩

/-- a run of white space outside quotes becomes NULs -/
theorem scan_blanks : ∀ (sep : List Byte) (s : Sc), s.brk = false → s.quote = 0 → sep ≠ [] →
    (∀ b ∈ sep, isspace b = true) →
    After s (scan s sep) (List.replicate sep.length 0) 0 s.argc s.argv false ∧ (scan s sep).prev = 0
  | [], _, _, _, hne, _ => absurd rfl hne
  | [b], s, hb, hq, _, h => by
    rw [scan_cons, step_blank s b hb (h b (List.mem_cons_self ..)) hq]
    exact ⟨⟨rfl, hq, rfl, rfl, hb⟩, rfl⟩
  | b :: c :: sep, s, hb, hq, _, h => by
    rw [scan_cons, step_blank s b hb (h b (List.mem_cons_self ..)) hq]
    obtain ⟨a, ap⟩ := scan_blanks (c :: sep) { s with out := s.out ++ [0], prev := 0 } hb hq (by simp)
      (fun x hx => h x (List.mem_cons_of_mem _ hx))
    refine ⟨⟨?_, a.quote, a.argc, a.argv, a.brk⟩, ap⟩
    rw [a.out]
    simp [List.replicate_succ]

/-- a word that starts a new token (not the fourth) -/
theorem scan_word (w : List Byte) (s : Sc) (hb : s.brk = false) (hq : s.quote = 0) (hp : s.prev = 0)
    (hw : Word w) (hc : s.argc + 1 < argvLen) :
    After s (scan s w) w 0 (s.argc + 1) (s.argv.set s.argc (some s.out.length)) false ∧ (scan s w).prev ≠ 0 := by
  obtain ⟨hne, hall⟩ := hw
  cases w with
  | nil => exact absurd rfl hne
  | cons c w' =>
    obtain ⟨hc1, hc2⟩ := hall c (List.mem_cons_self ..)
    have hcnz : c ≠ 0 := nz_of_printable c hc1
    rw [scan_cons, step_start s c hb (fun x => not_isspace_of_printable c hc1 x.1) (by rw [hq]; exact hcnz) hp (fun x => hc2 x.2)]
    have hd : decide (s.argc + 1 ≥ argvLen) = false := decide_eq_false (show ¬ (s.argc + 1 ≥ argvLen) by omega)
    rw [hd]
    obtain ⟨a, ap⟩ := scan_copy w' { s with out := s.out ++ [c], prev := c, argv := s.argv.set s.argc (some s.out.length), argc := s.argc + 1, brk := false } rfl hcnz (by
      intro b hb'
      obtain ⟨p1, _⟩ := hall b (List.mem_cons_of_mem _ hb')
      refine ⟨nz_of_printable b p1, ?_, fun x => not_isspace_of_printable b p1 x.1⟩
      show b ≠ s.quote
      rw [hq]; exact nz_of_printable b p1)
    exact ⟨⟨by rw [a.out]; simp, by rw [a.quote]; exact hq, a.argc, a.argv, a.brk⟩, ap⟩

/-- a word that starts the fourth token: the loop breaks, the rest of the line is copied -/
theorem scan_word_last (w rest : List Byte) (s : Sc) (hb : s.brk = false) (hq : s.quote = 0) (hp : s.prev = 0)
    (hw : Word w) (hc : s.argc + 1 ≥ argvLen) :
    After s (scan s (w ++ rest)) (w ++ rest) 0 (s.argc + 1) (s.argv.set s.argc (some s.out.length)) true := by
  obtain ⟨hne, hall⟩ := hw
  cases w with
  | nil => exact absurd rfl hne
  | cons c w' =>
    obtain ⟨hc1, hc2⟩ := hall c (List.mem_cons_self ..)
    have hcnz : c ≠ 0 := nz_of_printable c hc1
    rw [List.cons_append, scan_cons, step_start s c hb (fun x => not_isspace_of_printable c hc1 x.1) (by rw [hq]; exact hcnz) hp (fun x => hc2 x.2)]
    have hd : decide (s.argc + 1 ≥ argvLen) = true := decide_eq_true hc
    rw [hd]
    obtain ⟨a1, a2, a3, a4, a5⟩ := scan_brk (w' ++ rest) { s with out := s.out ++ [c], prev := c, argv := s.argv.set s.argc (some s.out.length), argc := s.argc + 1, brk := true } rfl
    exact ⟨by rw [a1]; simp, by rw [a2]; exact hq, a3, a4, a5⟩

/-- a quoted string (not the fourth token); it may start with the other quote character (fix 15aaa9d) -/
theorem scan_quoted (q : Byte) (str : List Byte) (s : Sc) (hb : s.brk = false) (hq : s.quote = 0) (hp : s.prev = 0)
    (hqq : isQuote q) (hne : str ≠ []) (hall : ∀ b ∈ str, b ≠ 0 ∧ b ≠ q) (hc : s.argc + 1 < argvLen) :
    After s (scan s (q :: str ++ [q])) (0 :: str ++ [0]) 0 (s.argc + 1) (s.argv.set s.argc (some (s.out.length + 1))) false ∧
    (scan s (q :: str ++ [q])).prev = 0 := by
  have hqnz : q ≠ 0 := quote_ne_zero q hqq
  cases str with
  | nil => exact absurd rfl hne
  | cons c str' =>
    obtain ⟨hc1, hc2⟩ := hall c (List.mem_cons_self ..)
    rw [List.cons_append, scan_cons, step_open s q hb hq hp hqq]
    rw [List.cons_append, scan_cons, step_start { s with out := s.out ++ [0], prev := 0, quote := q } c hb (fun x => hqnz x.2) hc2 rfl (fun x => hqnz x.1)]
    have hd : decide (s.argc + 1 ≥ argvLen) = false := decide_eq_false (show ¬ (s.argc + 1 ≥ argvLen) by omega)
    simp only [hd]
    rw [scan_append]
    obtain ⟨a, ap⟩ := scan_copy str' { out := s.out ++ [0] ++ [c], prev := c, quote := q, argc := s.argc + 1, argv := s.argv.set s.argc (some (s.out ++ [0]).length), brk := false } rfl hc1 (by
      intro b hb'
      obtain ⟨p1, p2⟩ := hall b (List.mem_cons_of_mem _ hb')
      exact ⟨p1, p2, fun x => hqnz x.2⟩)
    rw [scan_cons, scan_nil, step_close _ q a.brk a.quote.symm hqnz]
    refine ⟨⟨?_, rfl, a.argc, ?_, a.brk⟩, rfl⟩
    · show (scan _ str').out ++ [0] = _
      rw [a.out]; simp
    · show (scan _ str').argv = _
      rw [a.argv]; simp

end Librfn.Lemmas.ConsoleSeg

import Librfn.Lemmas.PTSplit4
namespace Librfn.Model.PT
open Stmt Librfn.Spec.PT

theorem PtSt.kid_setKid (p : PtSt) (l : Nat) (k : PtSt) : (p.setKid l k).kid l = k := by
  simp [PtSt.setKid, PtSt.kid, PtSt.kids]
theorem PtSt.pt_setKid (p : PtSt) (l : Nat) (k : PtSt) : (p.setKid l k).pt = p.pt := rfl
theorem PtSt.setKid_setKid (p : PtSt) (l : Nat) (a b : PtSt) : (p.setKid l a).setKid l b = p.setKid l b := by
  simp [PtSt.setKid, PtSt.kids, PtSt.pt, List.filter_filter]

theorem St.enter_wrap_bump (st st2 : St) (l : Nat) : ((st.wrap l st2).bump).enter l = st2.bump := by
  simp [St.enter, St.wrap, St.bump, PtSt.kid_setKid]
theorem St.wrap_wrap_bump (st st2 stX : St) (l : Nat) : ((st.wrap l st2).bump).wrap l stX = st.wrap l stX := by
  simp [St.wrap, St.bump, PtSt.setKid_setKid]
theorem St.wrap_pt (st st2 : St) (l : Nat) : (st.wrap l st2).me.pt = st.me.pt := rfl
theorem St.wrap_kid_pt (st st2 : St) (l : Nat) : ((st.wrap l st2).bump.me.kid l).pt = st2.me.pt := by
  simp [St.wrap, St.bump, PtSt.kid_setKid]

theorem joinPost_prepend (st : St) (l : Label) (r : Out) (p : List Ev) :
    joinPost st l (some (r.prepend p)) = (joinPost st l (some r)).map (Out.prepend p) := by
  cases r with
  | normal => rfl
  | abort => rfl
  | ret c st2 n2 t => simp only [Out.prepend, joinPost]; split <;> rfl
theorem joinPost_base (st st2 : St) (l : Label) (x : Option Out) :
    joinPost ((st.wrap l st2).bump) l x = joinPost st l x := by
  cases x with
  | none => rfl
  | some r => cases r <;> simp [joinPost, St.wrap_wrap_bump]

theorem entryOf_label {ch : Stmt} {p : Nat} (hp : p ∈ labels ch) (h0 : p ≠ 0) : entryOf ch p = some (some p) := by
  simp [entryOf, h0, hp]
theorem entryOf_entry {ch : Stmt} {p : Nat} {e : Option Label} (h : entryOf ch p = some e) :
    ∀ l, e = some l → l ∈ labels ch ∧ p = l := by
  intro l hl; subst hl
  unfold entryOf at h
  by_cases h0 : p = 0
  · simp [h0] at h
  · by_cases hp : p ∈ labels ch
    · simp [h0, hp] at h; subst h; exact ⟨hp, rfl⟩
    · simp [h0, hp] at h

/-- PT_SPAWN after its PT_INIT, when the parent's `*pt` is (already / now) the spawn's label -/
theorem split_join {fuel l ch} (hc : SplitAt fuel ch) (wch : WF ch) :
    ∀ e res n st r, st.me.pt = l → exec fuel (join l ch) e res (n + 1) st = some r →
      ∃ r0, exec fuel (join l ch) e res 0 st = some r0 ∧ Resumes fuel (join l ch) n r0 r := by
  intro e res n st r hpt h
  rw [exec_join_eq] at h ⊢
  cases hent : entryOf ch (st.me.kid l).pt with
  | none => rw [hent] at h; simp only [Option.some.injEq] at h; subst h; exact ⟨_, rfl, rfl⟩
  | some e' =>
    rw [hent] at h; dsimp only at h ⊢
    cases hx : exec fuel ch e' .yielded (n + 1) (st.enter l) with
    | none => rw [hx] at h; cases h
    | some rc =>
      rw [hx] at h
      obtain ⟨rc0, h0, hR⟩ := hc wch e' .yielded n (st.enter l) rc (entryOf_entry hent) hx
      rw [h0]
      cases rc0 with
      | abort tr =>
        simp only [Resumes] at hR; subst hR
        simp only [joinPost, Option.some.injEq] at h; subst h; exact ⟨_, rfl, rfl⟩
      | normal st2 r2 n0 tr =>
        obtain ⟨hn0, hrc⟩ := hR; subst hrc; subst hn0
        simp only [joinPost, Option.some.injEq] at h; subst h; exact ⟨_, rfl, rfl, rfl⟩
      | ret c st2 n0 tr =>
        simp only [Resumes] at hR
        by_cases hb : c.blocking = true
        · rw [if_pos hb] at hR
          obtain ⟨hp2, rc', hrc', hrc⟩ := hR
          refine ⟨.ret c (st.wrap l st2) n0 tr, by simp [joinPost, hb], ?_⟩
          simp only [Resumes]; rw [if_pos hb]
          refine ⟨by simp [labels, St.wrap_pt, hpt], ?_⟩
          rw [St.wrap_pt, hpt, exec_join_eq, St.wrap_kid_pt, entryOf_label hp2 (wch.pos _ hp2)]
          dsimp only
          rw [St.enter_wrap_bump, hrc', joinPost_base]
          subst hrc
          rw [joinPost_prepend] at h
          rcases Option.map_eq_some_iff.1 h with ⟨r', hr', rfl⟩
          exact ⟨r', hr', rfl⟩
        · rw [if_neg hb] at hR
          obtain ⟨hn0, hrc⟩ := hR; subst hrc; subst hn0
          have hj : ∀ n2, joinPost st l (some (.ret c st2 n2 tr)) = some (.normal (st.wrap l st2) c n2 tr) := by
            intro n2; simp only [joinPost]; rw [if_neg hb]
          rw [hj] at h ⊢
          simp only [Option.some.injEq] at h; subst h
          exact ⟨_, rfl, rfl, rfl⟩

end Librfn.Model.PT

import Librfn.Lemmas.PTInv2
namespace Librfn.Model.PT
open Stmt Librfn.Spec.PT

theorem live_left {a b s : Stmt} {p : PtSt} (hlive : Live s p ↔ (if p.pt ∈ labels a then Live a p else Live b p))
    (h : Live s p) (hp : p.pt ∈ labels a) : Live a p := by rw [hlive, if_pos hp] at h; exact h
theorem live_right {a b s : Stmt} {p : PtSt} (hlive : Live s p ↔ (if p.pt ∈ labels a then Live a p else Live b p))
    (h : Live s p) (hp : p.pt ∉ labels a) : Live b p := by rw [hlive, if_neg hp] at h; exact h

theorem inv_seq {fuel a b} (ha : InvAt fuel a) (hb : InvAt fuel b) : InvAt fuel (seq a b) := by
  intro hwf e res n st r hE hLive h
  obtain ⟨wa, wb, hdis⟩ := hwf
  have hlive : ∀ p, Live (seq a b) p ↔ (if p.pt ∈ labels a then Live a p else Live b p) := fun p => by rw [Live]
  have La : Lifts a (seq a b) := lifts_left rfl (fun l c => by rw [MayBlock]) (fun c => by rw [MayReturn]) hlive
  have Lb : Lifts b (seq a b) := lifts_right rfl (fun l c => by rw [MayBlock]) (fun c => by rw [MayReturn]) hlive hdis
  have hk : ∀ st1 r1 n1 r', exec fuel b none r1 n1 st1 = some r' → Post (seq a b) st1.me.pt r' :=
    fun st1 r1 n1 r' hr' => (hb wb none r1 n1 st1 r' Entry.none (fun l hl => by cases hl) hr').lift Lb
  cases e with
  | none =>
    rw [exec_seq_none] at h
    exact post_andThen La (fun ra hra => ha wa none res n st ra Entry.none (fun l hl => by cases hl) hra)
      (fun st1 r1 n1 t r' _ hr' => hk _ _ _ _ hr') h
  | some l =>
    obtain ⟨hl, hpt⟩ := hE l rfl
    have hL := hLive l rfl
    by_cases hla : l ∈ labels a
    · rw [exec_seq_left _ _ _ _ _ _ _ hla] at h
      refine post_andThen La (fun ra hra => ha wa (some l) res n st ra (fun l' h' => by cases h'; exact ⟨hla, hpt⟩)
        (fun l' h' => live_left (hlive _) hL (by rw [hpt]; exact hla)) hra) (fun st1 r1 n1 t r' _ hr' => hk _ _ _ _ hr') h
    · rw [exec_seq_right _ _ _ _ _ _ _ hla] at h
      have hlb : l ∈ labels b := by
        simp only [labels, List.mem_append] at hl
        rcases hl with h' | h'; exact absurd h' hla; exact h'
      exact (hb wb (some l) res n st r (fun l' h' => by cases h'; exact ⟨hlb, hpt⟩)
        (fun l' h' => live_right (hlive _) hL (by rw [hpt]; exact hla)) h).lift Lb

theorem inv_branch {fuel s a b}
    (hlab : labels s = labels a ++ labels b)
    (hblk : ∀ l c, MayBlock s l c ↔ (MayBlock a l c ∨ MayBlock b l c))
    (hret : ∀ c, MayReturn s c ↔ (MayReturn a c ∨ MayReturn b c))
    (hlive : ∀ p, Live s p ↔ (if p.pt ∈ labels a then Live a p else Live b p))
    (hL : ∀ l res n st, l ∈ labels a → exec fuel s (some l) res n st = exec fuel a (some l) res n st)
    (hRt : ∀ l res n st, l ∉ labels a → exec fuel s (some l) res n st = exec fuel b (some l) res n st)
    (hN : ∀ res st, ∃ st1, st1.me = st.me ∧ ((∀ n, exec fuel s none res n st = exec fuel a none res n st1) ∨
                          (∀ n, exec fuel s none res n st = exec fuel b none res n st1)))
    (wa : WF a) (wb : WF b) (hdis : ∀ l, l ∈ labels a → l ∉ labels b)
    (ha : InvAt fuel a) (hb : InvAt fuel b) :
    ∀ e res n st r, Entry s e st → (∀ l, e = some l → Live s st.me) → exec fuel s e res n st = some r → Post s st.me.pt r := by
  intro e res n st r hE hLive h
  have La : Lifts a s := lifts_left hlab hblk hret hlive
  have Lb : Lifts b s := lifts_right hlab hblk hret hlive hdis
  cases e with
  | none =>
    obtain ⟨st1, hme, hh | hh⟩ := hN res st
    · rw [hh] at h; rw [← hme]
      exact (ha wa none res n st1 r Entry.none (fun l hl => by cases hl) h).lift La
    · rw [hh] at h; rw [← hme]
      exact (hb wb none res n st1 r Entry.none (fun l hl => by cases hl) h).lift Lb
  | some l =>
    obtain ⟨hl, hpt⟩ := hE l rfl
    have hLv := hLive l rfl
    by_cases hla : l ∈ labels a
    · rw [hL _ _ _ _ hla] at h
      exact (ha wa (some l) res n st r (fun l' h' => by cases h'; exact ⟨hla, hpt⟩)
        (fun l' h' => live_left (hlive _) hLv (by rw [hpt]; exact hla)) h).lift La
    · rw [hRt _ _ _ _ hla] at h
      have hlb : l ∈ labels b := by
        simp only [hlab, List.mem_append] at hl
        rcases hl with h' | h'; exact absurd h' hla; exact h'
      exact (hb wb (some l) res n st r (fun l' h' => by cases h'; exact ⟨hlb, hpt⟩)
        (fun l' h' => live_right (hlive _) hLv (by rw [hpt]; exact hla)) h).lift Lb

theorem inv_ifte {fuel c a b} (ha : InvAt fuel a) (hb : InvAt fuel b) : InvAt fuel (ifte c a b) := by
  intro hwf
  refine inv_branch rfl (fun l c => by rw [MayBlock]) (fun c => by rw [MayReturn]) (fun p => by rw [Live])
    (fun l res n st hl => exec_ifte_left _ _ _ _ _ _ _ _ hl)
    (fun l res n st hl => exec_ifte_right _ _ _ _ _ _ _ _ hl) ?_ hwf.1 hwf.2.1 hwf.2.2 ha hb
  intro res st
  refine ⟨(evalCond c st).2, evalCond_me c st, ?_⟩
  by_cases hc : (evalCond c st).1 = true
  · exact Or.inl (fun n => by rw [exec_ifte_none, if_pos hc])
  · exact Or.inr (fun n => by rw [exec_ifte_none, if_neg hc])

theorem inv_ico {fuel a b} (ha : InvAt fuel a) (hb : InvAt fuel b) : InvAt fuel (ifChildOk a b) := by
  intro hwf
  refine inv_branch rfl (fun l c => by rw [MayBlock]) (fun c => by rw [MayReturn]) (fun p => by rw [Live])
    (fun l res n st hl => exec_ico_left _ _ _ _ _ _ _ hl)
    (fun l res n st hl => exec_ico_right _ _ _ _ _ _ _ hl) ?_ hwf.1 hwf.2.1 hwf.2.2 ha hb
  intro res st
  refine ⟨st, rfl, ?_⟩
  by_cases hc : res ≠ .failed
  · exact Or.inl (fun n => by rw [exec_ico_none, if_pos hc])
  · exact Or.inr (fun n => by rw [exec_ico_none, if_neg hc])

end Librfn.Model.PT

import Librfn.Lemmas.ConsoleRound
/-! Lines without quote characters: decomposition into blank-separated words, what the specification's
`splitBlanks` makes of it, and what the tokeniser fold makes of it. -/
namespace Librfn.Lemmas.ConsoleSplit
open Librfn.Model.Console Librfn.Gen.Layout Librfn.Lemmas.ConsoleTok Librfn.Lemmas.ConsoleScan Librfn.Lemmas.ConsoleSeg
open Librfn.Lemmas.ConsoleRound
open Librfn.Spec.Console (blank isQuote printable Word Blanks Item renderArgs splitGo splitBlanks)

/-- a character of a line without quotes: visible and not a quote, or a blank -/
def WB (b : Nat) : Prop := (printable b ∧ ¬ isQuote b) ∨ blank b

def isBlankB (b : Nat) : Bool := decide (blank b)
def nonBlankB (b : Nat) : Bool := !isBlankB b

/-! ### span -/

def spanP (p : Nat → Bool) : List Nat → List Nat × List Nat
  | [] => ([], [])
  | b :: t => if p b = true then (b :: (spanP p t).1, (spanP p t).2) else ([], b :: t)

theorem spanP_eq (p : Nat → Bool) : ∀ l, (spanP p l).1 ++ (spanP p l).2 = l
  | [] => rfl
  | b :: t => by
    unfold spanP
    split
    · simp [spanP_eq p t]
    · rfl

theorem spanP_fst (p : Nat → Bool) : ∀ l, ∀ b ∈ (spanP p l).1, p b = true
  | [], b, h => by simp [spanP] at h
  | c :: t, b, h => by
    unfold spanP at h
    split at h
    · rcases List.mem_cons.mp h with rfl | h
      · assumption
      · exact spanP_fst p t b h
    · cases h

theorem spanP_snd (p : Nat → Bool) : ∀ l, (spanP p l).2 = [] ∨ ∃ c t, (spanP p l).2 = c :: t ∧ p c = false
  | [] => Or.inl rfl
  | b :: t => by
    unfold spanP
    split
    · exact spanP_snd p t
    · rename_i h
      exact Or.inr ⟨b, t, rfl, by simpa using h⟩

theorem spanP_len (p : Nat → Bool) : ∀ l, (spanP p l).2.length ≤ l.length
  | [] => Nat.le_refl _
  | b :: t => by
    unfold spanP
    split
    · simp only [List.length_cons]; have := spanP_len p t; omega
    · exact Nat.le_refl _

theorem spanP_ne (p : Nat → Bool) (b : Nat) (t : List Nat) (h : p b = true) : (spanP p (b :: t)).1 ≠ [] := by
  unfold spanP; rw [if_pos h]; simp

/-! ### decomposition -/

/-- (separator, word) blocks written one after the other -/
def flat (pairs : List (List Nat × List Nat)) : List Nat := (pairs.map fun a => a.1 ++ a.2).flatten

theorem flat_cons (a : List Nat × List Nat) (r : List (List Nat × List Nat)) : flat (a :: r) = a.1 ++ a.2 ++ flat r := by
  simp [flat]

theorem flat_append (a b : List (List Nat × List Nat)) : flat (a ++ b) = flat a ++ flat b := by simp [flat]

theorem blank_of_isBlankB (b : Nat) (h : isBlankB b = true) : blank b := of_decide_eq_true h
theorem not_blank_of_isBlankB (b : Nat) (h : isBlankB b = false) : ¬ blank b := of_decide_eq_false h

theorem word_of_nonblank (w : List Nat) (hne : w ≠ []) (hw : ∀ b ∈ w, WB b) (hn : ∀ b ∈ w, nonBlankB b = true) : Word w := by
  refine ⟨hne, fun b hb => ?_⟩
  have h1 : ¬ blank b := by
    have := hn b hb
    unfold nonBlankB at this
    exact not_blank_of_isBlankB b (by simpa using this)
  rcases hw b hb with h | h
  · exact h
  · exact absurd h h1

/-- a quote-free line that is empty or starts with a blank is a sequence of (blanks, word) blocks
    followed by blanks -/
theorem exists_decomp : ∀ (n : Nat) (l : List Nat), l.length ≤ n → (∀ b ∈ l, WB b) →
    (l = [] ∨ ∃ b t, l = b :: t ∧ blank b) →
    ∃ pairs trail, l = flat pairs ++ trail ∧ (∀ a ∈ pairs, Blanks a.1 ∧ Word a.2) ∧ (∀ b ∈ trail, blank b)
  | 0, l, hl, _, _ => by
    have : l = [] := List.length_eq_zero_iff.mp (by omega)
    subst this
    exact ⟨[], [], rfl, (fun a h => by cases h), (fun b h => by cases h)⟩
  | n + 1, l, hl, hw, hh => by
    rcases hh with rfl | ⟨b, t, rfl, hb⟩
    · exact ⟨[], [], rfl, (fun a h => by cases h), (fun b h => by cases h)⟩
    · have hbb : isBlankB b = true := decide_eq_true hb
      have e1 := spanP_eq isBlankB (b :: t)
      have f1 := spanP_fst isBlankB (b :: t)
      have n1 := spanP_ne isBlankB b t hbb
      have l1 := spanP_len isBlankB (b :: t)
      have hsep : Blanks (spanP isBlankB (b :: t)).1 := ⟨n1, fun x hx => blank_of_isBlankB x (f1 x hx)⟩
      rcases spanP_snd isBlankB (b :: t) with h2 | ⟨c, t', h2, hc⟩
      · refine ⟨[], b :: t, (by simp [flat]), (fun a h => by cases h), ?_⟩
        intro x hx
        rw [← e1, h2, List.append_nil] at hx
        exact hsep.2 x hx
      · have hcb : nonBlankB c = true := by unfold nonBlankB; rw [hc]; rfl
        have e2 := spanP_eq nonBlankB (c :: t')
        have f2 := spanP_fst nonBlankB (c :: t')
        have n2 := spanP_ne nonBlankB c t' hcb
        have l2 := spanP_len nonBlankB (c :: t')
        have hsub : ∀ x ∈ c :: t', WB x := by
          intro x hx
          apply hw x
          rw [← e1, h2]
          exact List.mem_append_right _ hx
        have hword : Word (spanP nonBlankB (c :: t')).1 :=
          word_of_nonblank _ n2 (fun x hx => hsub x (by rw [← e2]; exact List.mem_append_left _ hx)) f2
        have hlen : (spanP nonBlankB (c :: t')).2.length ≤ n := by
          have h3 : ((spanP isBlankB (b :: t)).1 ++ (spanP isBlankB (b :: t)).2).length = (b :: t).length := by rw [e1]
          rw [List.length_append, h2] at h3
          have h4 : 0 < (spanP isBlankB (b :: t)).1.length := List.length_pos_iff.mpr n1
          simp only [List.length_cons] at h3 hl l2
          omega
        obtain ⟨pairs, trail, p1, p2, p3⟩ := exists_decomp n (spanP nonBlankB (c :: t')).2 hlen
          (fun x hx => hsub x (by rw [← e2]; exact List.mem_append_right _ hx))
          (by
            rcases spanP_snd nonBlankB (c :: t') with h | ⟨c', t'', h, hc'⟩
            · exact Or.inl h
            · refine Or.inr ⟨c', t'', h, ?_⟩
              unfold nonBlankB at hc'
              exact blank_of_isBlankB c' (by simpa using hc'))
        refine ⟨((spanP isBlankB (b :: t)).1, (spanP nonBlankB (c :: t')).1) :: pairs, trail, ?_, ?_, p3⟩
        · rw [flat_cons]
          show b :: t = (spanP isBlankB (b :: t)).1 ++ (spanP nonBlankB (c :: t')).1 ++ flat pairs ++ trail
          rw [List.append_assoc, List.append_assoc, ← p1, e2, ← h2, e1]
        · intro a ha
          rcases List.mem_cons.mp ha with rfl | ha
          · exact ⟨hsep, hword⟩
          · exact p2 a ha

/-! ### the specification's split of such a line -/

theorem splitGo_word : ∀ (w acc rest : List Nat), (∀ b ∈ w, ¬ blank b) → splitGo acc (w ++ rest) = splitGo (acc ++ w) rest
  | [], acc, rest, _ => by simp
  | b :: w, acc, rest, h => by
    have hb : ¬ blank b := h b (List.mem_cons_self ..)
    rw [List.cons_append, splitGo, if_neg hb, splitGo_word w (acc ++ [b]) rest (fun x hx => h x (List.mem_cons_of_mem _ hx))]
    simp

theorem splitGo_blanks_nil : ∀ (sep rest : List Nat), (∀ b ∈ sep, blank b) → splitGo [] (sep ++ rest) = splitGo [] rest
  | [], _, _ => rfl
  | b :: sep, rest, h => by
    rw [List.cons_append, splitGo, if_pos (h b (List.mem_cons_self ..)), if_pos rfl]
    exact splitGo_blanks_nil sep rest (fun x hx => h x (List.mem_cons_of_mem _ hx))

theorem splitGo_blanks (sep acc rest : List Nat) (hs : Blanks sep) (hacc : acc ≠ []) :
    splitGo acc (sep ++ rest) = acc :: splitGo [] rest := by
  obtain ⟨hne, hall⟩ := hs
  cases sep with
  | nil => exact absurd rfl hne
  | cons b sep =>
    rw [List.cons_append, splitGo, if_pos (hall b (List.mem_cons_self ..)), if_neg hacc]
    rw [splitGo_blanks_nil sep rest (fun x hx => hall x (List.mem_cons_of_mem _ hx))]

theorem splitGo_trail : ∀ (trail acc : List Nat), (∀ b ∈ trail, blank b) → acc ≠ [] → splitGo acc trail = [acc]
  | [], acc, _, hacc => by rw [splitGo, if_neg hacc]
  | b :: t, acc, h, hacc => by
    rw [splitGo, if_pos (h b (List.mem_cons_self ..)), if_neg hacc]
    have : splitGo [] t = [] := by
      have := splitGo_blanks_nil t [] (fun x hx => h x (List.mem_cons_of_mem _ hx))
      simpa [splitGo] using this
    rw [this]

theorem word_nonblank (w : List Nat) (hw : Word w) : ∀ b ∈ w, ¬ blank b := by
  intro b hb hbl
  have h1 : 33 ≤ b ∧ b ≤ 126 := (hw.2 b hb).1
  have h2 : b = 32 ∨ b = 9 := hbl
  omega

theorem splitGo_blocks : ∀ (pairs : List (List Nat × List Nat)) (acc trail : List Nat), acc ≠ [] →
    (∀ a ∈ pairs, Blanks a.1 ∧ Word a.2) → (∀ b ∈ trail, blank b) →
    splitGo acc (flat pairs ++ trail) = acc :: pairs.map (·.2)
  | [], acc, trail, hacc, _, ht => by simpa [flat] using splitGo_trail trail acc ht hacc
  | a :: rest, acc, trail, hacc, hp, ht => by
    obtain ⟨hs, hw⟩ := hp a (List.mem_cons_self ..)
    rw [flat_cons, List.append_assoc, List.append_assoc, splitGo_blanks a.1 acc _ hs hacc]
    rw [splitGo_word a.2 [] _ (word_nonblank a.2 hw), List.nil_append]
    rw [splitGo_blocks rest a.2 trail hw.1 (fun x hx => hp x (List.mem_cons_of_mem _ hx)) ht]
    rfl

/-! ### the tokeniser on such a line -/

/-- the first tokens found so far hold the strings `E`, whatever NUL-first continuation follows -/
structure Tok3 (sc : Sc) (E : List (List Nat)) : Prop where
  alen : sc.argv.length = argvLen
  elen : E.length ≤ sc.argc
  tok : ∀ i t, E[i]? = some t → ∃ p, sc.argv.getD i none = some p ∧ ∀ tail, cstr (sc.out ++ 0 :: tail) p = t

/-- scanning on keeps the tokens found so far when what is appended is empty or starts with a NUL -/
theorem tok3_extend (sc sc' : Sc) (E : List (List Nat)) (more : List Nat) (h : Tok3 sc E)
    (hout : sc'.out = sc.out ++ more) (hm : NulFirst more) (hlen : sc'.argv.length = argvLen)
    (hargv : ∀ i, i < sc.argc → sc'.argv.getD i none = sc.argv.getD i none) (hargc : sc.argc ≤ sc'.argc) :
    Tok3 sc' E := by
  refine ⟨hlen, Nat.le_trans h.elen hargc, ?_⟩
  intro i t hi
  obtain ⟨p, q1, q2⟩ := h.tok i t hi
  have hlt : i < E.length := by
    rcases Nat.lt_or_ge i E.length with h1 | h1
    · exact h1
    · rw [List.getElem?_eq_none h1] at hi; cases hi
  refine ⟨p, by rw [hargv i (Nat.lt_of_lt_of_le hlt h.elen)]; exact q1, ?_⟩
  intro tail
  rw [hout]
  rcases hm with rfl | ⟨y, rfl⟩
  · simpa using q2 tail
  · have := q2 (y ++ 0 :: tail)
    simpa using this

/-- word items from (separator, word) blocks -/
def wordArgs (pairs : List (List Nat × List Nat)) : List (List Nat × Item) := pairs.map fun a => (a.1, Item.word a.2)

theorem renderArgs_wordArgs : ∀ pairs, renderArgs (wordArgs pairs) = flat pairs
  | [] => rfl
  | a :: r => by
    show a.1 ++ (Item.word a.2).render ++ renderArgs (wordArgs r) = _
    rw [renderArgs_wordArgs r, flat_cons]; rfl

theorem argTexts_wordArgs (pairs : List (List Nat × List Nat)) : argTexts (wordArgs pairs) none = pairs.map (·.2) := by
  simp [argTexts, wordArgs, Item.text]

theorem zeros_nulFirst (sep : List Nat) (hs : Blanks sep) (x : List Nat) : NulFirst (List.replicate sep.length 0 ++ x) := by
  obtain ⟨hne, _⟩ := hs
  cases sep with
  | nil => exact absurd rfl hne
  | cons c r => exact Or.inr ⟨List.replicate r.length 0 ++ x, by simp [List.replicate_succ]⟩

/-- after the command word and at most two further words: the tokens so far -/
theorem tok3_of_args (c0 : Nat) (w' : List Nat) (argv0 : List (Option Nat)) (pre : List (List Nat × List Nat))
    (hw : Word (c0 :: w')) (hpre : ∀ a ∈ pre, Blanks a.1 ∧ Word a.2) (hn : pre.length ≤ 2) (ha : argv0.length = 4) :
    let s2 := scan (scan (sc0 c0 argv0) w') (flat pre)
    Tok3 s2 ((c0 :: w') :: pre.map (·.2)) ∧ s2.argc = 1 + pre.length ∧ s2.brk = false ∧ s2.quote = 0 := by
  obtain ⟨_, hall⟩ := hw
  have hc0 := hall c0 (List.mem_cons_self ..)
  obtain ⟨a0, _⟩ := scan_copy w' (sc0 c0 argv0) rfl (nz_of_printable c0 hc0.1) (by
    intro b hb
    have hb' := hall b (List.mem_cons_of_mem _ hb)
    exact ⟨nz_of_printable b hb'.1, nz_of_printable b hb'.1, fun x => not_isspace_of_printable b hb'.1 x.1⟩)
  have hl0 : (scan (sc0 c0 argv0) w').argv.length = argvLen := by
    rw [a0.argv]; show (argv0.set 0 (some 0)).length = argvLen; rw [List.length_set, ha, argvLen_eq]
  have hargc0 : (scan (sc0 c0 argv0) w').argc = 1 := a0.argc
  obtain ⟨x, i1, i2, i3, i4, i5, i6⟩ := scan_args (wordArgs pre) none (scan (sc0 c0 argv0) w') a0.brk a0.quote hl0
    (by
      intro a ha'
      obtain ⟨b, hb, rfl⟩ := List.mem_map.mp ha'
      exact ⟨(hpre b hb).1, (hpre b hb).2⟩)
    (by rw [hargc0, argvLen_eq]; simp [wordArgs]; omega) (fun f hf => by cases hf)
  have hst := scan_args_state (wordArgs pre) (scan (sc0 c0 argv0) w') a0.brk a0.quote hl0
    (by
      intro a ha'
      obtain ⟨b, hb, rfl⟩ := List.mem_map.mp ha'
      exact ⟨(hpre b hb).1, (hpre b hb).2⟩)
    (by rw [hargc0, argvLen_eq]; simp [wordArgs]; omega)
  rw [renderArgs_wordArgs] at hst
  have hrun : renderArgs (wordArgs pre) ++ finalR none = flat pre := by rw [renderArgs_wordArgs]; simp [finalR]
  rw [hrun] at i1 i3 i4 i5 i6
  rw [argTexts_wordArgs] at i3 i6
  intro s2
  have hout : s2.out = (c0 :: w') ++ x := by show (scan _ (flat pre)).out = _; rw [i1, a0.out]; rfl
  refine ⟨⟨i4, by rw [i3, hargc0]; simp; omega, ?_⟩, by rw [i3, hargc0]; simp, ?_, ?_⟩
  · intro i t hi
    cases i with
    | zero =>
      have ht : t = c0 :: w' := by simp at hi; exact hi.symm
      subst ht
      refine ⟨0, ?_, ?_⟩
      · rw [i5 0 (by rw [hargc0]; omega), a0.argv]
        show (argv0.set 0 (some 0)).getD 0 none = some 0
        simp [List.getD_eq_getElem?_getD, ha]
      · intro tail
        rw [hout]
        rcases i2 with rfl | ⟨y, rfl⟩
        · have := cstr_at [] (c0 :: w') tail (fun b hb => nz_of_printable b (hall b hb).1)
          simpa using this
        · have := cstr_at [] (c0 :: w') (y ++ 0 :: tail) (fun b hb => nz_of_printable b (hall b hb).1)
          simpa using this
    | succ j =>
      have hi' : (pre.map (·.2))[j]? = some t := by simpa using hi
      obtain ⟨p, q1, q2⟩ := i6 j t hi'
      rw [hargc0] at q1
      exact ⟨p, by rw [show j + 1 = 1 + j by omega]; exact q1, q2⟩
  · exact hst.1
  · exact hst.2

/-- what comes after the first three words: trailing blanks, or a fourth word and anything -/
theorem tok3_final (s2 : Sc) (E : List (List Nat)) (post : List (List Nat × List Nat)) (trail : List Nat)
    (h : Tok3 s2 E) (hb : s2.brk = false) (hq : s2.quote = 0)
    (hpost : ∀ a ∈ post, Blanks a.1 ∧ Word a.2) (ht : ∀ b ∈ trail, blank b) (h3 : post ≠ [] → s2.argc = 3) :
    Tok3 (scan s2 (flat post ++ trail)) E ∧
    (scan s2 (flat post ++ trail)).argc = (if post = [] then s2.argc else 4) := by
  cases post with
  | nil =>
    rw [if_pos rfl]
    show Tok3 (scan s2 ([] ++ trail)) E ∧ _
    rw [List.nil_append]
    cases trail with
    | nil => exact ⟨h, rfl⟩
    | cons b t =>
      obtain ⟨a1, _⟩ := scan_blanks (b :: t) s2 hb hq (by simp) (fun x hx => isspace_of_blank x (ht x hx))
      refine ⟨tok3_extend s2 _ E _ h a1.out (zeros_nulFirst (b :: t) ⟨by simp, ht⟩ [] |> (by simpa using ·)) ?_ ?_ ?_, a1.argc⟩
      · rw [a1.argv]; exact h.alen
      · intro i _; rw [a1.argv]
      · rw [a1.argc]; exact Nat.le_refl _
  | cons c more =>
    rw [if_neg (by simp)]
    obtain ⟨hs, hw⟩ := hpost c (List.mem_cons_self ..)
    have hargc := h3 (by simp)
    obtain ⟨a1, p1⟩ := scan_blanks c.1 s2 hb hq hs.1 (fun x hx => isspace_of_blank x (hs.2 x hx))
    have a2 := scan_word_last c.2 (flat more ++ trail) (scan s2 c.1) a1.brk a1.quote p1 hw
      (by rw [a1.argc, hargc, argvLen_eq]; omega)
    have hrun : flat (c :: more) ++ trail = c.1 ++ (c.2 ++ (flat more ++ trail)) := by
      rw [flat_cons]; simp
    rw [hrun, scan_append]
    refine ⟨tok3_extend s2 _ E (List.replicate c.1.length 0 ++ (c.2 ++ (flat more ++ trail))) h ?_
      (zeros_nulFirst c.1 hs _) ?_ ?_ ?_, by rw [a2.argc, a1.argc, hargc]⟩
    · rw [a2.out, a1.out]; simp
    · rw [a2.argv, List.length_set, a1.argv]; exact h.alen
    · intro i hi
      rw [a2.argv, getD_set_argv, a1.argc, if_neg (by omega), a1.argv]
    · rw [a2.argc, a1.argc]; omega

end Librfn.Lemmas.ConsoleSplit

import Librfn.Spec.Sched
/-! List lemmas for the scheduler refinement (C01–C03): the stable sort of the sleepers by due time,
its interaction with `filter`, `takeWhile`/`dropWhile` on sorted lists, the earliest due time. -/
namespace Librfn.Sched.L
open Librfn.Sched Librfn.Spec.Sched

abbrev Sl := List (Fid × Int)

/-- the fibres of a list of sleepers -/
def fids (sl : Sl) : List Fid := sl.map Prod.fst

def Sorted (l : Sl) : Prop := l.Pairwise (fun x y => x.2 ≤ y.2)

theorem sortByDue_snoc (l : Sl) (x : Fid × Int) : sortByDue (l ++ [x]) = insByDue x (sortByDue l) := by
  simp [sortByDue, List.foldl_append]

theorem insByDue_perm (x : Fid × Int) (l : Sl) : (insByDue x l).Perm (x :: l) := by
  induction l with
  | nil => simp [insByDue]
  | cons y ys ih =>
    simp only [insByDue]
    split
    · exact (List.Perm.cons y ih).trans (List.Perm.swap x y ys)
    · exact List.Perm.refl _

theorem foldl_ins_perm (l acc : Sl) : (l.foldl (fun acc x => insByDue x acc) acc).Perm (acc ++ l) := by
  induction l generalizing acc with
  | nil => simp
  | cons x xs ih =>
    simp only [List.foldl_cons]
    refine (ih _).trans ?_
    refine ((insByDue_perm x acc).append_right xs).trans ?_
    simp only [List.cons_append]
    exact (List.perm_middle (a := x) (l₁ := acc) (l₂ := xs)).symm

theorem sortByDue_perm (l : Sl) : (sortByDue l).Perm l := by
  have := foldl_ins_perm l []
  simpa [sortByDue] using this

theorem mem_sortByDue {l : Sl} {x : Fid × Int} : x ∈ sortByDue l ↔ x ∈ l := (sortByDue_perm l).mem_iff

theorem fids_sortByDue_perm (l : Sl) : (fids (sortByDue l)).Perm (fids l) := (sortByDue_perm l).map _

theorem mem_fids_sortByDue {l : Sl} {f : Fid} : f ∈ fids (sortByDue l) ↔ f ∈ fids l := (fids_sortByDue_perm l).mem_iff

theorem nodup_fids_sortByDue {l : Sl} : (fids (sortByDue l)).Nodup ↔ (fids l).Nodup := (fids_sortByDue_perm l).nodup_iff

theorem sortByDue_eq_nil {l : Sl} : sortByDue l = [] ↔ l = [] := by
  constructor
  · intro h; have := (sortByDue_perm l).length_eq; rw [h] at this; exact List.length_eq_zero_iff.mp this.symm
  · intro h; subst h; rfl

/-! ### sortedness -/

theorem insByDue_front {x : Fid × Int} {l : Sl} (h : ∀ z ∈ l, x.2 < z.2) : insByDue x l = x :: l := by
  cases l with
  | nil => rfl
  | cons y ys =>
    have := h y (by simp)
    simp only [insByDue]
    rw [if_neg (by omega)]

theorem insByDue_back {x : Fid × Int} {l : Sl} (h : ∀ z ∈ l, z.2 ≤ x.2) : insByDue x l = l ++ [x] := by
  induction l with
  | nil => rfl
  | cons y ys ih =>
    simp only [insByDue]
    rw [if_pos (h y (by simp)), ih (fun z hz => h z (by simp [hz]))]
    rfl

theorem mem_insByDue {x y : Fid × Int} {l : Sl} : y ∈ insByDue x l ↔ y = x ∨ y ∈ l := by
  rw [(insByDue_perm x l).mem_iff]; simp

theorem sorted_insByDue {x : Fid × Int} {l : Sl} (h : Sorted l) : Sorted (insByDue x l) := by
  induction l with
  | nil => simp [insByDue, Sorted]
  | cons y ys ih =>
    unfold Sorted at h ih ⊢
    rw [List.pairwise_cons] at h
    simp only [insByDue]
    split
    · rename_i hy
      rw [List.pairwise_cons]
      refine ⟨?_, ih h.2⟩
      intro z hz
      rcases mem_insByDue.mp hz with rfl | hz
      · exact hy
      · exact h.1 z hz
    · rename_i hy
      rw [List.pairwise_cons, List.pairwise_cons]
      refine ⟨?_, h⟩
      intro z hz
      rcases List.mem_cons.mp hz with rfl | hz
      · omega
      · have := h.1 z hz; omega

theorem sorted_foldl_ins (l acc : Sl) (h : Sorted acc) : Sorted (l.foldl (fun acc x => insByDue x acc) acc) := by
  induction l generalizing acc with
  | nil => exact h
  | cons x xs ih => exact ih _ (sorted_insByDue h)

theorem sorted_sortByDue (l : Sl) : Sorted (sortByDue l) := sorted_foldl_ins l [] (by simp [Sorted])

theorem Sorted.filter {l : Sl} (h : Sorted l) (p : Fid × Int → Bool) : Sorted (l.filter p) :=
  List.Pairwise.filter p h

/-! ### filter commutes with the stable sort -/

theorem insByDue_filter (p : Fid × Int → Bool) (x : Fid × Int) (l : Sl) (hs : Sorted l) :
    (insByDue x l).filter p = if p x then insByDue x (l.filter p) else l.filter p := by
  induction l with
  | nil => by_cases hx : p x <;> simp [insByDue, hx]
  | cons y ys ih =>
    unfold Sorted at hs
    rw [List.pairwise_cons] at hs
    have ih := ih hs.2
    by_cases hy : y.2 ≤ x.2
    · simp only [insByDue, hy, if_true]
      by_cases hpy : p y = true
      · simp only [List.filter_cons, hpy, if_true, ih]
        by_cases hx : p x = true
        · simp [hx, insByDue, hy]
        · simp [hx]
      · simp only [List.filter_cons, hpy, ih]
        simp
    · simp only [insByDue, hy, if_false]
      by_cases hx : p x = true
      · have hfront : insByDue x ((y :: ys).filter p) = x :: (y :: ys).filter p := by
          apply insByDue_front
          intro z hz
          have hz := (List.mem_filter.mp hz).1
          rcases List.mem_cons.mp hz with rfl | hz
          · omega
          · have := hs.1 z hz; omega
        rw [if_pos hx, hfront, List.filter_cons, if_pos hx]
      · rw [if_neg hx, List.filter_cons, if_neg hx]

theorem foldl_ins_filter (p : Fid × Int → Bool) (l acc : Sl) (hs : Sorted acc) :
    (l.foldl (fun acc x => insByDue x acc) acc).filter p
      = (l.filter p).foldl (fun acc x => insByDue x acc) (acc.filter p) := by
  induction l generalizing acc with
  | nil => rfl
  | cons x xs ih =>
    simp only [List.foldl_cons]
    rw [ih _ (sorted_insByDue hs), insByDue_filter p x acc hs]
    by_cases hx : p x = true
    · simp [List.filter_cons, hx]
    · simp [List.filter_cons, hx]

/-- **filtering the stably sorted sleepers = stably sorting the filtered sleepers** -/
theorem sortByDue_filter (p : Fid × Int → Bool) (l : Sl) : (sortByDue l).filter p = sortByDue (l.filter p) := by
  have := foldl_ins_filter p l [] (by simp [Sorted])
  simpa [sortByDue] using this

/-! ### takeWhile / dropWhile of a sorted list by a threshold -/

theorem takeWhile_le_sorted {l : Sl} (h : Sorted l) (T : Int) :
    l.takeWhile (fun x => decide (x.2 ≤ T)) = l.filter (fun x => decide (x.2 ≤ T)) := by
  induction l with
  | nil => rfl
  | cons y ys ih =>
    unfold Sorted at h
    rw [List.pairwise_cons] at h
    by_cases hy : y.2 ≤ T
    · simp only [List.takeWhile_cons, List.filter_cons, hy, decide_true, if_true]
      rw [ih h.2]
    · simp only [List.takeWhile_cons, List.filter_cons, hy, decide_false, Bool.false_eq_true, if_false]
      symm
      rw [List.filter_eq_nil_iff]
      intro z hz
      have := h.1 z hz
      simp only [decide_eq_true_eq]; omega

theorem dropWhile_le_sorted {l : Sl} (h : Sorted l) (T : Int) :
    l.dropWhile (fun x => decide (x.2 ≤ T)) = l.filter (fun x => !decide (x.2 ≤ T)) := by
  induction l with
  | nil => rfl
  | cons y ys ih =>
    unfold Sorted at h
    rw [List.pairwise_cons] at h
    by_cases hy : y.2 ≤ T
    · simp only [List.dropWhile_cons, List.filter_cons, hy, decide_true, if_true, Bool.not_true, Bool.false_eq_true, if_false]
      rw [ih h.2]
    · simp only [List.dropWhile_cons, List.filter_cons, hy, decide_false, Bool.false_eq_true, if_false, Bool.not_false, if_true]
      congr 1
      symm
      rw [List.filter_eq_self]
      intro z hz
      have := h.1 z hz
      simp only [Bool.not_eq_eq_eq_not, Bool.not_true, decide_eq_false_iff_not]; omega

/-! ### the earliest due time is the head of the sorted list -/

def minStep (m : Option Int) (x : Fid × Int) : Option Int :=
  some (match m with | none => x.2 | some m => min m x.2)

theorem head_insByDue (x : Fid × Int) (acc : Sl) :
    ((insByDue x acc).head?).map Prod.snd = minStep (acc.head?.map Prod.snd) x := by
  cases acc with
  | nil => rfl
  | cons y ys =>
    simp only [insByDue, minStep]
    split
    · rename_i h; simp only [List.head?_cons, Option.map_some]; congr 1; omega
    · rename_i h; simp only [List.head?_cons, Option.map_some]; congr 1; omega

theorem head_foldl_ins (l acc : Sl) :
    ((l.foldl (fun acc x => insByDue x acc) acc).head?).map Prod.snd = l.foldl minStep (acc.head?.map Prod.snd) := by
  induction l generalizing acc with
  | nil => rfl
  | cons x xs ih => simp only [List.foldl_cons]; rw [ih, head_insByDue]

theorem minDue_eq_head (l : Sl) : minDue l = ((sortByDue l).head?).map Prod.snd := by
  have := head_foldl_ins l []
  simp only [List.head?_nil, Option.map_none] at this
  unfold sortByDue minDue
  rw [this]
  rfl

end Librfn.Sched.L

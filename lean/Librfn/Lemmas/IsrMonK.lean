import Librfn.Lemmas.IsrMonO
/-! C06 refinement, fairness: in run-to-completion executions whose calls only name existing fibres, an outstanding request
that has aged `a` passes sits in the run queue at a position `p` with `p + a < nf`; so the monitor never has reason for a
`starved` verdict. -/
namespace Librfn.Isr.L
open Librfn.Model.MessageqConc Librfn.Model.FibreIsr Librfn.C04
open Librfn.Sched (Fid Ret)
open Librfn.Spec.IsrSpec
open Librfn.Model.Fibre (K upd makeRunnable handleTimerq getNextTask fibreTimeout timerqLoop)

/-! ## list facts for the FIFO bound -/

theorem idxOf_append_mem {l l' : List Fid} {g : Fid} (h : g ∈ l) : (l ++ l').idxOf g = l.idxOf g := by
  rw [List.idxOf_append, if_pos h]

theorem idxOf_cons_ne' {l : List Fid} {g c : Fid} (h : g ≠ c) : (c :: l).idxOf g = l.idxOf g + 1 := by
  rw [List.idxOf_cons]
  have : (c == g) = false := by simp [Ne.symm h]
  rw [this]; rfl

theorem idxOf_erase_le {g f : Fid} (h : g ≠ f) : ∀ (l : List Fid), g ∈ l → (l.erase f).idxOf g ≤ l.idxOf g
  | [], hm => absurd hm List.not_mem_nil
  | x :: xs, hm => by
    by_cases hx : x = f
    · subst hx
      rw [List.erase_cons_head, idxOf_cons_ne' h]
      omega
    · rw [List.erase_cons_tail (by simpa using hx)]
      by_cases hg : g = x
      · subst hg
        rw [List.idxOf_cons_self, List.idxOf_cons_self]; omega
      · rw [idxOf_cons_ne' hg, idxOf_cons_ne' hg]
        have hm' : g ∈ xs := by rcases List.mem_cons.mp hm with e | e; exact absurd e hg; exact e
        have := idxOf_erase_le h xs hm'
        omega

theorem length_le_of_bounded {l : List Fid} {n : Nat} (hn : l.Nodup) (hb : ∀ x ∈ l, x < n) : l.length ≤ n := by
  have := List.Nodup.length_le_of_subset hn (l₂ := List.range n) (fun x hx => List.mem_range.mpr (hb x hx))
  rwa [List.length_range] at this

theorem timerqLoop_prefix (due : Fid → BitVec 32) (now : BitVec 32) :
    ∀ (tq rq : List Fid), ∃ l, (timerqLoop due now tq rq).2 = rq ++ l ∧ (∀ x ∈ l, x ∈ tq) ∧ (∀ x ∈ (timerqLoop due now tq rq).1, x ∈ tq)
  | [], rq => ⟨[], by simp [timerqLoop], fun _ h => absurd h List.not_mem_nil, fun _ h => by simp [timerqLoop] at h⟩
  | f :: r, rq => by
    unfold timerqLoop
    split
    · obtain ⟨l, e, hl, ht⟩ := timerqLoop_prefix due now r (rq ++ [f])
      refine ⟨f :: l, by rw [e]; simp, fun x hx => ?_, fun x hx => List.mem_cons_of_mem _ (ht x hx)⟩
      rcases List.mem_cons.mp hx with e' | e'
      · subst e'; exact List.mem_cons_self
      · exact List.mem_cons_of_mem _ (hl x e')
    · exact ⟨[], by simp, fun _ h => absurd h List.not_mem_nil, fun _ h => h⟩

theorem handleTimerq_prefix (k : K) :
    ∃ l, (handleTimerq k).runq = k.runq ++ l ∧ (∀ x ∈ l, x ∈ k.timerq) ∧ (∀ x ∈ (handleTimerq k).timerq, x ∈ k.timerq) := by
  obtain ⟨l, e, hl, ht⟩ := timerqLoop_prefix k.due k.now k.timerq k.runq
  exact ⟨l, e, hl, ht⟩

theorem idxOf_makeRunnable {k : K} {f g : Fid} (h : g ∈ k.runq) : (makeRunnable k f).runq.idxOf g = k.runq.idxOf g := by
  unfold makeRunnable
  split
  · rfl
  · exact idxOf_append_mem h

/-! ## the number of fibres is fixed -/

theorem nf_step (a : A) (o : Obs) : (a.step o).nf = a.nf := by
  cases o with
  | accepted f => exact (specSame_accepted a f).nf
  | rejected f => rfl
  | dispatched f => rfl
  | killed f => simp only [A.step]; split <;> rfl
  | evClaimed st => rfl
  | evSent st ok => exact (specSame_evSent a st ok).nf
  | evProcessed st => exact (specSame_evProcessed a st).2.2.2.2.2.1
  | passBegin => rfl
  | looked => rfl
  | bodyReturned y => rfl
  | passEnd onTime => exact (specRest_passEnd a onTime).nf
  | threadBegin => rfl
  | threadEnd => rfl

theorem reachR_nf {n : Nat} {s : S} (hr : ReachR n s) : s.a.nf = n := by
  have lift : ∀ a a', Emits a a' → a.nf = n → a'.nf = n := fun a a' he hp =>
    EmitsP.lift (I := fun a => a.nf = n) (fun a o _ h => by rw [nf_step]; exact h) he hp
  induction hr with
  | init d kinds budgets h1 h32 hn => exact hn.symm
  | mainPlain _ _ ih => exact lift _ _ (emits_mainPlain _) ih
  | mainAtomic _ _ ih => exact lift _ _ (emits_mainAtomic _) ih
  | enterMain c _ _ hidle _ ih => exact ih
  | senderPlain i hi _ ih => exact lift _ _ (emits_senderPlain i _) ih
  | senderAtomic i hi _ ih => exact lift _ _ (emits_senderAtomic i _) ih
  | enterSender i c hi _ hidle _ ih => exact ih
  | tok t _ ih => exact ih
  | nops k _ ih => exact ih
  | newItem _ ih => exact ih
  | noYields _ ih => exact ih
  | setBody b r hb _ ih => exact ih

/-! ## every fibre named anywhere in the state exists -/

def contFid : Cont → Option Fid
  | .run f | .kill f | .pass2 f | .brun f | .bkill f => some f
  | .pass1 => none

def mpcFid : MPc → Option Fid
  | .start (.run f) | .start (.kill f) => some f
  | .recv c | .recvd c | .rel c | .reld c => contFid c
  | _ => none

def ipcFid : IPc → Option Fid
  | .raClaim f _ | .raClaimed f _ | .raNull f _ | .raTaint f _ | .raTainted f _ | .raSend f _ | .raSent f _ => some f
  | _ => none

structure Scope (n : Nat) (s : S) : Prop where
  q : ∀ f, (f ∈ s.k.runq ∨ f ∈ s.k.timerq) → f < n
  cur : ∀ c, s.k.current = some c → c < n
  mpc : ∀ f, mpcFid s.mpc = some f → f < n
  ipc : ∀ i f, ipcFid (s.ipc i) = some f → f < n
  wr : ∀ k, k < s.aq.claimed → s.aq.sent k = true → s.aq.written k < n
  /-- the calls the scripted bodies have yet to make -/
  bs : ∀ c ∈ s.bscript, BCallOk n c

/-- the lists of `K`, `kernel.current`: what the scheduler's plain code can do to the scope -/
structure KScope (n : Nat) (k : K) : Prop where
  q : ∀ f, (f ∈ k.runq ∨ f ∈ k.timerq) → f < n
  cur : ∀ c, k.current = some c → c < n

theorem kscope_makeRunnable {n : Nat} {k : K} (h : KScope n k) (f : Fid) (hf : f < n) : KScope n (makeRunnable k f) := by
  unfold makeRunnable
  split
  · exact h
  · refine ⟨fun g hg => ?_, h.cur⟩
    rcases hg with hg | hg
    · rcases List.mem_append.mp hg with e | e
      · exact h.q g (Or.inl e)
      · rw [List.mem_singleton] at e; subst e; exact hf
    · exact h.q g (Or.inr (List.mem_of_mem_erase hg))

theorem kscope_handleTimerq {n : Nat} {k : K} (h : KScope n k) : KScope n (handleTimerq k) := by
  obtain ⟨l, e, hl, ht⟩ := handleTimerq_prefix k
  refine ⟨fun g hg => ?_, h.cur⟩
  rcases hg with hg | hg
  · rw [e] at hg
    rcases List.mem_append.mp hg with e' | e'
    · exact h.q g (Or.inl e')
    · exact h.q g (Or.inr (hl g e'))
  · exact h.q g (Or.inr (ht g hg))

theorem kscope_getNextTask {n : Nat} {k : K} (h : KScope n k) : KScope n (getNextTask k) := by
  unfold getNextTask
  split
  · exact ⟨h.q, fun c hc => by cases hc⟩
  · rename_i f r e
    refine ⟨fun g hg => ?_, fun c hc => ?_⟩
    · rcases hg with hg | hg
      · exact h.q g (Or.inl (e ▸ List.mem_cons_of_mem _ hg))
      · exact h.q g (Or.inr hg)
    · injection hc with hc; subst hc; exact h.q f (Or.inl (e ▸ List.mem_cons_self))

theorem kscope_fibreTimeout {n : Nat} {k : K} (h : KScope n k) (c : Fid) (hc : c < n) (d : BitVec 32) :
    KScope n (fibreTimeout k c d).1 := by
  refine ⟨fun g hg => ?_, fun c' hc' => ?_⟩
  · rcases hg with hg | hg
    · rw [runq_fibreTimeout] at hg; exact h.q g (Or.inl hg)
    · rcases mem_timerq_fibreTimeout hg with e | e
      · subst e; exact hc
      · exact h.q g (Or.inr e)
  · apply h.cur c'
    unfold fibreTimeout at hc'
    split at hc'
    · exact hc'
    · simp only at hc'; split at hc' <;> exact hc'

theorem kscope_lists {n : Nat} {k k' : K} (h : KScope n k) (e1 : k'.runq = k.runq) (e2 : k'.timerq = k.timerq)
    (e3 : k'.current = k.current) : KScope n k' :=
  ⟨by rw [e1, e2]; exact h.q, by rw [e3]; exact h.cur⟩

theorem returned_current (s : S) (r : Ret) : (returned s r).k.current = s.k.current := by
  unfold returned; split <;> rfl

theorem kscope_returned {n : Nat} {s : S} (h : KScope n s.k) (r : Ret) : KScope n (returned s r).k :=
  kscope_lists h (returned_runq s r) (returned_timerq s r) (returned_current s r)

theorem bodyStep_current (s : S) : (bodyStep s).k.current = s.k.current := by
  unfold bodyStep; split
  · exact returned_current _ _
  · rfl
  · rfl

theorem kscope_bodyStep {n : Nat} {s : S} (h : KScope n s.k) : KScope n (bodyStep s).k :=
  kscope_lists h (bodyStep_runq s) (bodyStep_timerq s) (bodyStep_current s)

theorem kscope_bodyOf {n : Nat} {s : S} (h : KScope n s.k) (c : Fid) (hc : c < n) : KScope n (bodyOf s c).k := by
  unfold bodyOf
  split
  · exact h
  · split <;> exact kscope_returned (by exact h) _
  · split
    · exact kscope_returned (s := tok _ (tok _ { s with k := _, sdue := _ }))
        (kscope_fibreTimeout (kscope_fibreTimeout h c hc _) c hc _) _
    · exact kscope_returned (s := tok _ { s with k := _ }) (kscope_fibreTimeout h c hc _) _
  · exact kscope_returned h _
  · exact kscope_bodyStep h

theorem kscope_dispatch {n : Nat} {s : S} (h : KScope n s.k) : KScope n (dispatch s).k := by
  unfold dispatch
  split
  · rename_i c e
    exact kscope_bodyOf (s := tok _ (emit _ { s with dispatchedNow := true })) h c (h.cur c e)
  · exact h

theorem kscope_afterUpdate {n : Nat} {s : S} (h : KScope n s.k) : KScope n (afterUpdate s).k :=
  kscope_dispatch (s := { s with k := getNextTask (handleTimerq s.k) }) (kscope_getNextTask (kscope_handleTimerq h))

/-- the scripted calls still to come name existing fibres, and so does the call the main context is in -/
def BsOk (n : Nat) (s : S) : Prop := ∀ c ∈ s.bscript, BCallOk n c

structure BPost (n : Nat) (s' : S) : Prop where
  bs : BsOk n s'
  mpc : ∀ f, mpcFid s'.mpc = some f → f < n

theorem bpost_finishPass {n : Nat} {s : S} (h : BsOk n s) (v : BitVec 32) : BPost n (finishPass s v) :=
  ⟨h, fun f hf => by cases hf⟩

theorem bpost_returned {n : Nat} {s : S} (h : BsOk n s) (r : Ret) : BPost n (returned s r) := by
  unfold returned
  split
  · exact bpost_finishPass (by exact h) _
  · exact ⟨h, fun f hf => by cases hf⟩

theorem bpost_bodyStep {n : Nat} {s : S} (h : BsOk n s) : BPost n (bodyStep s) := by
  unfold bodyStep
  split
  · exact bpost_returned h _
  · rename_i g r e
    refine ⟨fun c hc => h c (by rw [e]; exact List.mem_cons_of_mem _ hc), fun f hf => ?_⟩
    have hf' : some g = some f := hf
    injection hf' with hf'; subst hf'
    exact h (.run g) (by rw [e]; exact List.mem_cons_self)
  · rename_i g r e
    refine ⟨fun c hc => h c (by rw [e]; exact List.mem_cons_of_mem _ hc), fun f hf => ?_⟩
    have hf' : some g = some f := hf
    injection hf' with hf'; subst hf'
    exact h (.kill g) (by rw [e]; exact List.mem_cons_self)

theorem bpost_bodyOf {n : Nat} {s : S} (h : BsOk n s) (c : Fid) : BPost n (bodyOf s c) := by
  unfold bodyOf
  split
  · exact ⟨h, fun f hf => by cases hf⟩
  · split <;> exact bpost_returned (by exact h) _
  · split <;> exact bpost_returned (by exact h) _
  · exact bpost_returned h _
  · exact bpost_bodyStep h

theorem bpost_dispatch {n : Nat} {s : S} (h : BsOk n s) : BPost n (dispatch s) := by
  unfold dispatch
  split
  · exact bpost_bodyOf (by exact h) _
  · exact ⟨h, fun f hf => by cases hf⟩

theorem bpost_afterUpdate {n : Nat} {s : S} (h : BsOk n s) : BPost n (afterUpdate s) :=
  bpost_dispatch (by exact h)

theorem kscope_afterDrain {n : Nat} {s : S} (h : KScope n s.k) (hb : BsOk n s) (c : Cont) (hc : ∀ f, contFid c = some f → f < n) :
    KScope n (afterDrain s c).k ∧ BPost n (afterDrain s c) := by
  cases c with
  | run f => exact ⟨kscope_makeRunnable h f (hc f rfl), hb, fun g hg => by cases hg⟩
  | kill f =>
    exact ⟨⟨fun g hg => h.q g (hg.elim (fun e => Or.inl (List.mem_of_mem_erase e)) (fun e => Or.inr (List.mem_of_mem_erase e))), h.cur⟩,
           hb, fun g hg => by cases hg⟩
  | pass1 =>
    simp only [afterDrain]
    split
    · exact ⟨kscope_afterUpdate h, bpost_afterUpdate hb⟩
    · rename_i c' hcur
      split
      · exact ⟨h, hb, fun g hg => by injection hg with hg; subst hg; exact h.cur _ hcur⟩
      · exact ⟨h, hb, fun g hg => by cases hg⟩
      · exact ⟨kscope_afterUpdate (s := { s with k := { s.k with priv := _ } }) (kscope_lists h rfl rfl rfl),
               bpost_afterUpdate (by exact hb)⟩
      · exact ⟨kscope_afterUpdate h, bpost_afterUpdate hb⟩
  | pass2 c =>
    exact ⟨kscope_afterUpdate (s := { s with k := makeRunnable s.k c }) (kscope_makeRunnable h c (hc c rfl)),
           bpost_afterUpdate (by exact hb)⟩
  | brun g =>
    exact ⟨kscope_bodyStep (s := brunPre s g) (kscope_makeRunnable h g (hc g rfl)), bpost_bodyStep (s := brunPre s g) hb⟩
  | bkill g =>
    refine ⟨kscope_bodyStep (s := bkillPre s g) ?_, bpost_bodyStep (s := bkillPre s g) hb⟩
    exact ⟨fun f hf => h.q f (hf.elim (fun e => Or.inl (List.mem_of_mem_erase e)) (fun e => Or.inr (List.mem_of_mem_erase e))), h.cur⟩

/-- only a sender about to execute the `fetch_or` of `fibre_run_atomic` has stored a fibre pointer in a claimed slot of the
    atomic run queue -/
theorem raSend_of_wrote {s : S} (h1 : Inv1 s) (i : Nat) (hi : i < 3) (sl : BitVec 8) (k : Nat)
    (hw : s.aq.senders[i]? = some (.wrote sl k)) : ∃ ev, s.ipc i = .raSend (s.aq.written k) ev := by
  have hpo := h1.senders i hi
  cases hpc : s.ipc i with
  | raSend f ev =>
    rw [hpc] at hpo
    obtain ⟨_, sl', k', hq, hwr⟩ := hpo
    rw [hw] at hq
    injection hq with hq; injection hq with _ e2
    subst e2
    exact ⟨ev, by rw [hwr]⟩
  | raClaim f ev =>
    rw [hpc] at hpo
    obtain ⟨_, pc, hq, hc⟩ := hpo
    rw [hw] at hq; injection hq with hq; subst hq; exact False.elim hc
  | raClaimed f ev =>
    rw [hpc] at hpo
    obtain ⟨_, sl', k', hq⟩ := hpo
    rw [hw] at hq; cases hq
  | evClaim st => rw [hpc] at hpo; have := hpo.2; unfold SenderIdle at this; rw [hw] at this; cases this
  | evClaimed st => rw [hpc] at hpo; have := hpo.2; unfold SenderIdle at this; rw [hw] at this; cases this
  | evSend st => rw [hpc] at hpo; have := hpo.2; unfold SenderIdle at this; rw [hw] at this; cases this
  | idle => rw [hpc] at hpo; have := hpo.2; unfold SenderIdle at this; rw [hw] at this; cases this
  | evNull st => rw [hpc] at hpo; have := hpo.2; unfold SenderIdle at this; rw [hw] at this; cases this
  | evTaint st => rw [hpc] at hpo; have := hpo.2; unfold SenderIdle at this; rw [hw] at this; cases this
  | evTainted st => rw [hpc] at hpo; have := hpo.2; unfold SenderIdle at this; rw [hw] at this; cases this
  | evSent st => rw [hpc] at hpo; have := hpo.2; unfold SenderIdle at this; rw [hw] at this; cases this
  | raNull f ev => rw [hpc] at hpo; have := hpo.2; unfold SenderIdle at this; rw [hw] at this; cases this
  | raTaint f ev => rw [hpc] at hpo; have := hpo.2; unfold SenderIdle at this; rw [hw] at this; cases this
  | raTainted f ev => rw [hpc] at hpo; have := hpo.2; unfold SenderIdle at this; rw [hw] at this; cases this
  | raSent f ev => rw [hpc] at hpo; have := hpo.2; unfold SenderIdle at this; rw [hw] at this; cases this

theorem scope_sender {n : Nat} {s s' : S} (h1 : Inv1 s) (h : Scope n s) (i : Nat) (hi : i < 3)
    (hk : s'.k = s.k) (hm : s'.mpc = s.mpc)
    (haq : s'.aq = s.aq ∨ ∃ v, s'.aq = step s.aq (.sender i false v))
    (hipc : ∀ j, j ≠ i → s'.ipc j = s.ipc j)
    (hown : ∀ f, ipcFid (s'.ipc i) = some f → f < n) (hbs : s'.bscript = s.bscript) : Scope n s' := by
  refine ⟨by rw [hk]; exact h.q, by rw [hk]; exact h.cur, by rw [hm]; exact h.mpc, fun j f hj => ?_, ?_, by rw [hbs]; exact h.bs⟩
  · by_cases hji : j = i
    · subst hji; exact hown f hj
    · exact h.ipc j f (hipc j hji ▸ hj)
  · rcases haq with e | ⟨v, e⟩
    · rw [e]; exact h.wr
    · intro k hk hs
      rw [e] at hk hs ⊢
      rcases sender_sent_new s.aq i false v k hs with hs' | ⟨sl, hw⟩
      · rw [written_sent_stable s.aq h1.aqInv i false v k hs']
        exact h.wr k (h1.aqInv.sentlt k hs') hs'
      · -- the ticket sender `i` publishes now carries the fibre it names
        have hst := step_wrote s.aq i false v sl k hw
        rw [hst.2.2.1]
        have hfid := raSend_of_wrote h1 i hi sl k hw
        obtain ⟨ev, hev⟩ := hfid
        exact h.ipc i _ (by rw [hev]; rfl)

theorem ipcFid_senderAtomic (i : Nat) (s : S) (f : Fid) (h : ipcFid ((senderAtomic i s).ipc i) = some f) :
    ipcFid (s.ipc i) = some f := by
  unfold senderAtomic at h
  split at h
  · rename_i st hpc
    split at h
    · simp only [tok_ipc, emit_ipc, upd_same] at h; cases h
    · simp only [upd_same] at h; cases h
    · rw [hpc] at h; cases h
  · simp only [upd_same] at h; cases h
  · simp only [upd_same] at h; cases h
  · rename_i f' ev hpc
    rw [hpc]
    split at h
    · simp only [upd_same] at h; exact h
    · simp only [upd_same] at h; exact h
    · rw [hpc] at h; exact h
  · rename_i f' ev hpc; rw [hpc]; simp only [upd_same] at h; exact h
  · rename_i f' ev hpc; rw [hpc]; simp only [tok_ipc, emit_ipc, upd_same] at h; exact h
  · exact h

theorem ipcFid_senderPlain (i : Nat) (s : S) (f : Fid) (h : ipcFid ((senderPlain i s).ipc i) = some f) :
    ipcFid (s.ipc i) = some f ∨ f = HANDLER := by
  unfold senderPlain at h
  split at h
  · simp only [upd_same] at h; cases h
  · simp only [upd_same] at h; cases h
  · simp only [finishSender, upd_same] at h; cases h
  · simp only [upd_same] at h; injection h with h; exact Or.inr h.symm
  · rename_i f' ev hpc; rw [hpc]; simp only [upd_same] at h; exact Or.inl h
  · rename_i f' ev hpc; rw [hpc]; simp only [upd_same] at h; exact Or.inl h
  · rename_i f' ev hpc; cases ev <;> (simp only [finishSender, upd_same] at h; cases h)
  · rename_i f' ev hpc; cases ev <;> (simp only [finishSender, upd_same] at h; cases h)
  · exact Or.inl h

theorem scope_mainAtomic {n : Nat} {s : S} (h : Scope n s) : Scope n (mainAtomic s) := by
  have wrRecv : ∀ k, k < (step s.aq (.recv false)).claimed → (step s.aq (.recv false)).sent k = true → (step s.aq (.recv false)).written k < n := by
    intro k hk hs
    rw [recv_claimed] at hk; rw [recv_sent] at hs; rw [recv_written]; exact h.wr k hk hs
  unfold mainAtomic
  split
  · exact ⟨h.q, h.cur, (fun f hf => by cases hf), h.ipc, h.wr, h.bs⟩
  · rename_i c hpc; exact ⟨h.q, h.cur, fun f hf => h.mpc f (by rw [hpc]; exact hf), h.ipc, wrRecv, h.bs⟩
  · rename_i c hpc; exact ⟨h.q, h.cur, fun f hf => h.mpc f (by rw [hpc]; exact hf), h.ipc, wrRecv, h.bs⟩
  · exact ⟨h.q, h.cur, (fun f hf => by cases hf), h.ipc, h.wr, h.bs⟩
  · exact ⟨h.q, h.cur, (fun f hf => by cases hf), h.ipc, h.wr, h.bs⟩
  · exact ⟨h.q, h.cur, (fun f hf => by cases hf), h.ipc, h.wr, h.bs⟩
  · exact ⟨h.q, h.cur, (fun f hf => by cases hf), h.ipc, h.wr, h.bs⟩
  · exact h

theorem scope_of_parts {n : Nat} {s s' : S} (h : Scope n s) (hk : KScope n s'.k) (hm : BPost n s')
    (hi : s'.ipc = s.ipc) (ha : s'.aq = s.aq) : Scope n s' :=
  ⟨hk.q, hk.cur, hm.mpc, by rw [hi]; exact h.ipc, by rw [ha]; exact h.wr, hm.bs⟩

theorem scope_mainPlain {n : Nat} {s : S} (h1 : Inv1 s) (h : Scope n s) : Scope n (mainPlain s) := by
  have hks : KScope n s.k := ⟨h.q, h.cur⟩
  unfold mainPlain
  split
  · rename_i c hpc
    cases c with
    | next t =>
      simp only [startCall]; unfold startNext
      split
      · exact scope_of_parts h (kscope_lists hks rfl rfl rfl) ⟨h.bs, fun f hf => by cases hf⟩ rfl rfl
      · exact scope_of_parts h (kscope_lists hks rfl rfl rfl) ⟨h.bs, fun f hf => by cases hf⟩ rfl rfl
    | run f => exact scope_of_parts h hks ⟨h.bs, fun g hg => h.mpc g (by rw [hpc]; exact hg)⟩ rfl rfl
    | kill f => exact scope_of_parts h hks ⟨h.bs, fun g hg => h.mpc g (by rw [hpc]; exact hg)⟩ rfl rfl
  · split
    · exact scope_of_parts h (kscope_dispatch hks) (bpost_dispatch h.bs)
        (frame_dispatch ⟨rfl, rfl, rfl, rfl⟩).ipc (frame_dispatch ⟨rfl, rfl, rfl, rfl⟩).aq
    · exact scope_of_parts h hks ⟨h.bs, fun f hf => by cases hf⟩ rfl rfl
  · rename_i c hpc
    split
    · -- make_runnable(*f): the pointer read is the recorded payload of a sent ticket
      rename_i sl k hr
      have hrv := h1.aqInv.recv
      rw [hr] at hrv
      have ho2 := h1.aqInv.order2
      have hv : s.aq.payload sl.toNat < n := by
        rw [hold_payload h1.aqInv hr]
        have := hrv.1
        exact h.wr k (by omega) hrv.2.2.2
      refine ⟨(kscope_makeRunnable hks _ hv).q, (kscope_makeRunnable hks _ hv).cur,
              fun f hf => h.mpc f (by rw [hpc]; exact hf), h.ipc, ?_, h.bs⟩
      intro k' hk' hs'
      have hk2 : k' < (step s.aq (.recv false)).claimed := hk'
      have hs2 : (step s.aq (.recv false)).sent k' = true := hs'
      rw [recv_claimed] at hk2; rw [recv_sent] at hs2
      show (step s.aq (.recv false)).written k' < n
      rw [recv_written]; exact h.wr k' hk2 hs2
    · have := kscope_afterDrain (s := s) hks h.bs c (fun f hf => h.mpc f (by rw [hpc]; exact hf))
      exact scope_of_parts h this.1 this.2 (frame_afterDrain ⟨rfl, rfl, rfl, rfl⟩ c).ipc (frame_afterDrain ⟨rfl, rfl, rfl, rfl⟩ c).aq
  · rename_i c hpc
    exact scope_of_parts h hks ⟨h.bs, fun f hf => h.mpc f (by rw [hpc]; exact hf)⟩ rfl rfl
  · have hk' : KScope n (resetPriv s).k := by unfold resetPriv; split <;> exact kscope_lists hks rfl rfl rfl
    exact scope_of_parts h (kscope_afterUpdate hk') (bpost_afterUpdate (by unfold resetPriv; split <;> exact h.bs))
      (frame_afterUpdate (resetPriv_same s)).ipc (frame_afterUpdate (resetPriv_same s)).aq
  · split
    · exact scope_of_parts h hks ⟨h.bs, fun f hf => by cases hf⟩ rfl rfl
    · exact scope_of_parts h (kscope_returned hks _) (bpost_returned h.bs _)
        (frame_returned ⟨rfl, rfl, rfl, rfl⟩ _).ipc (frame_returned ⟨rfl, rfl, rfl, rfl⟩ _).aq
  · exact scope_of_parts h hks ⟨h.bs, fun f hf => by cases hf⟩ rfl rfl
  · exact scope_of_parts h hks ⟨h.bs, fun f hf => by cases hf⟩ rfl rfl
  · exact h

theorem senderAtomic_bscript (i : Nat) (s : S) : (senderAtomic i s).bscript = s.bscript := by
  unfold senderAtomic; split <;> (try split) <;> rfl
theorem senderPlain_bscript (i : Nat) (s : S) : (senderPlain i s).bscript = s.bscript := by
  unfold senderPlain; split <;> (try split) <;> rfl

theorem reachR_scope {n : Nat} {s : S} (hr : ReachR n s) : Scope n s := by
  induction hr with
  | init d kinds budgets h1 h32 hn =>
    exact ⟨(fun f hf => by rcases hf with hf | hf <;> cases hf), (fun c hc => by cases hc), (fun f hf => by cases hf),
           (fun i f hf => by cases hf), (fun k hk _ => absurd hk (Nat.not_lt_zero k)), fun c hc => by cases hc⟩
  | mainPlain hr _ ih => exact scope_mainPlain (reach_inv1 (reachR_reach hr)) ih
  | mainAtomic _ _ ih => exact scope_mainAtomic ih
  | enterMain c _ _ hidle hc ih =>
    refine ⟨ih.q, ih.cur, fun f hf => ?_, ih.ipc, ih.wr, ih.bs⟩
    cases c with
    | next t => cases hf
    | run g => injection hf with hf; subst hf; exact hc
    | kill g => injection hf with hf; subst hf; exact hc
  | senderPlain i hi hr ih =>
    have hnf := reachR_nf hr
    have hpos := (reachR_monB hr).nfpos
    refine scope_sender (reach_inv1 (reachR_reach hr)) ih i (by omega) (senderPlain_k i _) (senderPlain_mpc i _) (senderPlain_aq i _)
      (fun j hj => senderPlain_ipc_other i j _ hj) (fun f hf => ?_) (senderPlain_bscript i _)
    rcases ipcFid_senderPlain i _ f hf with e | e
    · exact ih.ipc i f e
    · subst e; show 0 < n; omega
  | senderAtomic i hi hr ih =>
    exact scope_sender (reach_inv1 (reachR_reach hr)) ih i (by omega) (senderAtomic_k i _) (senderAtomic_mpc i _) (senderAtomic_aq i _)
      (fun j hj => senderAtomic_ipc_other i j _ hj) (fun f hf => ih.ipc i f (ipcFid_senderAtomic i _ f hf)) (senderAtomic_bscript i _)
  | enterSender i c hi hr hidle hc ih =>
    refine scope_sender (reach_inv1 (reachR_reach hr)) ih i (by omega) rfl rfl (Or.inl rfl) (fun j hj => upd_other _ _ _ _ hj) (fun f hf => ?_) rfl
    have hf' : ipcFid (upd _ i (startPc c) i) = some f := hf
    rw [upd_same] at hf'
    cases c with
    | runAtomic g => injection hf' with hf'; subst hf'; exact hc
    | eventSend st => cases hf'
  | tok t _ ih => exact ⟨ih.q, ih.cur, ih.mpc, ih.ipc, ih.wr, ih.bs⟩
  | nops k _ ih => exact ⟨ih.q, ih.cur, ih.mpc, ih.ipc, ih.wr, ih.bs⟩
  | newItem _ ih => exact ⟨ih.q, ih.cur, ih.mpc, ih.ipc, ih.wr, ih.bs⟩
  | noYields _ ih => exact ⟨ih.q, ih.cur, ih.mpc, ih.ipc, ih.wr, ih.bs⟩
  | setBody b r hb _ ih => exact ⟨ih.q, ih.cur, ih.mpc, ih.ipc, ih.wr, hb⟩

/-! ## the ages of outstanding requests against their positions in the run queue -/

/-- control locations of a pass after the head of the run queue has been popped and discharged -/
def PastPop : MPc → Prop
  | .hRecv | .hRecvd | .hRel | .hReld | .wake | .woke _ => True
  | .recv c | .recvd c | .rel c | .reld c => BodyCont c
  | _ => False

/-- the drain loop of a pass has received NULL (and the plain code that follows has not run yet) -/
def DrainDone (s : S) : Prop := (∃ c, s.mpc = .recvd c ∧ s.aq.recv = .idle) ∨ s.mpc = .taintF ∨ s.mpc = .taintFd

/-- `f`, having waited `a` passes, is on the run queue with at most `nf - a - d - 1` fibres ahead of it -/
def Bound (s : S) (f : Fid) (a d : Nat) : Prop := f ∈ s.k.runq ∧ s.k.runq.idxOf f + a + d ≤ s.a.nf

structure KPost (s : S) : Prop where
  k1 : ∀ f a, (f, a) ∈ s.a.owed → 0 < a → Bound s f a 1
  k2 : ∀ f a, (f, a) ∈ s.a.owed → f ∈ s.a.atBegin → Bound s f a 2

structure MonK (s : S) : Prop where
  k1 : ∀ f a, (f, a) ∈ s.a.owed → 0 < a → Bound s f a 1
  k2 : PastPop s.mpc → ∀ f a, (f, a) ∈ s.a.owed → f ∈ s.a.atBegin → Bound s f a 2
  k3 : s.mpc = .fastDone true → s.a.atBegin = []
  k5 : DrainDone s → ∀ f ∈ s.a.atBegin, f ∈ s.k.runq

theorem bound_congr {s s' : S} {f : Fid} {a d : Nat} (hr : s'.k.runq = s.k.runq) (hn : s'.a.nf = s.a.nf) (h : Bound s f a d) :
    Bound s' f a d := by
  unfold Bound at *; rw [hr, hn]; exact h

/-- senders only ever add fresh entries (age 0, not outstanding when the pass began) to the monitor's `owed` -/
theorem owed_grow_sender {a a' : A} (h : EmitsP SenderObs a a') (hsub : ∀ f ∈ a.atBegin, f ∈ a.owedFids) :
    ∀ x ∈ a'.owed, x ∈ a.owed ∨ (x.2 = 0 ∧ x.1 ∉ a.atBegin) := by
  obtain ⟨l, hn, e⟩ := h
  subst e
  induction l generalizing a with
  | nil => exact fun x hx => Or.inl hx
  | cons o l ih =>
    have ho := hn o List.mem_cons_self
    have hsame := specSame_senderObs a o ho
    have hsub' : ∀ f ∈ (a.step o).atBegin, f ∈ (a.step o).owedFids := by
      intro f hf
      rw [hsame.atBegin] at hf
      exact owedFids_mono_sender (emitsP_one a o ho) f (hsub f hf)
    intro x hx
    rcases ih hsub' (fun y hy => hn y (List.mem_cons_of_mem _ hy)) x hx with h1 | ⟨h1, h2⟩
    · cases o with
      | accepted g =>
        rw [owed_accepted] at h1
        split at h1
        · exact Or.inl h1
        · rename_i hg
          rcases List.mem_append.mp h1 with e | e
          · exact Or.inl e
          · rw [List.mem_singleton] at e; subst e
            exact Or.inr ⟨rfl, fun hm => hg (hsub g hm)⟩
      | rejected g => exact Or.inl h1
      | evClaimed st => exact Or.inl h1
      | evSent st ok =>
        have : (a.step (.evSent st ok)).owed = a.owed := by simp only [A.step]; split <;> rfl
        exact Or.inl (this ▸ h1)
      | _ => exact False.elim ho
    · exact Or.inr ⟨h1, by rw [hsame.atBegin] at h2; exact h2⟩

/-- a step of a sender: the scheduler's side is untouched, the monitor gains fresh entries only -/
theorem monK_sender {s s' : S} (h : MonK s) (hb : MonB s.a) (hk : s'.k = s.k) (hm : s'.mpc = s.mpc) (hr : s'.aq.recv = s.aq.recv)
    (ha : EmitsP SenderObs s.a s'.a) : MonK s' := by
  have hsame := specSame_emits ha
  have hgrow := owed_grow_sender ha hb.sub
  have hrq : s'.k.runq = s.k.runq := by rw [hk]
  refine ⟨fun f a hfa hpos => ?_, fun hp f a hfa hat => ?_, fun hf => ?_, fun hd f hf => ?_⟩
  · rcases hgrow _ hfa with h1 | ⟨h1, _⟩
    · exact bound_congr hrq hsame.nf (h.k1 f a h1 hpos)
    · simp only at h1; omega
  · rw [hsame.atBegin] at hat
    rcases hgrow _ hfa with h1 | ⟨_, h2⟩
    · exact bound_congr hrq hsame.nf (h.k2 (hm ▸ hp) f a h1 hat)
    · exact absurd hat h2
  · rw [hsame.atBegin]; exact h.k3 (hm ▸ hf)
  · rw [hsame.atBegin] at hf
    rw [hrq]
    apply h.k5 _ f hf
    unfold DrainDone at hd ⊢
    rw [hm, hr] at hd; exact hd

theorem aged_flag (a : A) (v : Verdict) : (a.flag v).aged = a.aged := by
  unfold A.aged; rw [flag_owed, (specRest_flag a v).atBegin]

theorem owed_ageOwed (a : A) (hd : a.disturbed = false) : a.ageOwed.owed = a.aged := by
  unfold A.ageOwed
  rw [hd]
  simp only [Bool.false_eq_true, if_false]
  split
  · rw [flag_owed]
  · rfl

theorem owed_passEnd (a : A) (b : Bool) (hd : a.disturbed = false) : (a.step (.passEnd b)).owed = a.aged := by
  simp only [A.step]
  split
  · rw [owed_ageOwed _ (by rw [(specRest_flag a _).disturbed]; exact hd), aged_flag]
  · exact owed_ageOwed a hd

theorem mem_aged {a : A} {f : Fid} {n : Nat} (h : (f, n) ∈ a.aged) :
    ((f, n) ∈ a.owed ∧ f ∉ a.atBegin) ∨ (∃ m, (f, m) ∈ a.owed ∧ f ∈ a.atBegin ∧ n = m + 1) := by
  unfold A.aged at h
  obtain ⟨x, hx, e⟩ := List.mem_map.mp h
  split at e
  · rename_i hm
    injection e with e1 e2
    subst e1
    exact Or.inr ⟨x.2, hx, hm, e2.symm⟩
  · rename_i hm
    subst e
    exact Or.inl ⟨hx, hm⟩

/-- the pass ends: the requests that were outstanding when it began have waited one more pass — and are one place nearer
    the head of the run queue -/
theorem monK_finishPass {t : S} (h : KPost t) (hd : t.a.disturbed = false) (v : BitVec 32) : MonK (finishPass t v) := by
  have ho : (finishPass t v).a.owed = t.a.aged := owed_passEnd t.a _ hd
  have hn : (finishPass t v).a.nf = t.a.nf := nf_step _ _
  refine ⟨fun f a hfa hpos => ?_, fun hp => False.elim hp, (fun hf => by cases hf), fun hdd => ?_⟩
  · rw [ho] at hfa
    apply bound_congr (s := t) (s' := finishPass t v) rfl hn
    rcases mem_aged hfa with ⟨h1, _⟩ | ⟨m, h1, h2, e⟩
    · exact h.k1 f a h1 hpos
    · subst e
      have := h.k2 f m h1 h2
      exact ⟨this.1, by have := this.2; omega⟩
  · rcases hdd with ⟨c, hc, _⟩ | hc | hc <;> cases hc

/-- … so that no entry reaches the age `nf` -/
theorem aged_lt_nf {t : S} (h : KPost t) (hpos : 1 ≤ t.a.nf) : ∀ x ∈ t.a.aged, x.2 < t.a.nf := by
  rintro ⟨f, n⟩ hx
  rcases mem_aged hx with ⟨h1, _⟩ | ⟨m, h1, h2, e⟩
  · by_cases hn : 0 < n
    · have := (h.k1 f n h1 hn).2; simp only; omega
    · simp only; omega
  · subst e
    have := (h.k2 f m h1 h2).2
    simp only; omega

theorem kpost_congr {s s' : S} (h : KPost s) (hr : s'.k.runq = s.k.runq) (ho : s'.a.owed = s.a.owed) (hat : s'.a.atBegin = s.a.atBegin)
    (hn : s'.a.nf = s.a.nf) : KPost s' :=
  ⟨fun f a hfa hp => bound_congr hr hn (h.k1 f a (ho ▸ hfa) hp), fun f a hfa hb => bound_congr hr hn (h.k2 f a (ho ▸ hfa) (hat ▸ hb))⟩

theorem monK_of_kpost {s' : S} (h : KPost s') (hnf : ∀ e, s'.mpc ≠ .fastDone e) (hnd : ¬ DrainDone s') : MonK s' :=
  ⟨h.k1, fun _ => h.k2, fun hf => absurd hf (hnf true), fun hd => absurd hd hnd⟩

theorem monK_returned {t : S} (h : KPost t) (hd : t.a.disturbed = false) (r : Ret) : MonK (returned t r) := by
  unfold returned
  split
  · refine monK_finishPass ?_ ?_ _
    · exact kpost_congr h rfl rfl rfl rfl
    · exact hd
  · refine monK_of_kpost (kpost_congr h rfl rfl rfl rfl) (fun e he => by cases he) ?_
    rintro (⟨c, hc, _⟩ | hc | hc) <;> cases hc

theorem monK_bodyStep {t : S} (h : KPost t) (hd : t.a.disturbed = false) : MonK (bodyStep t) := by
  unfold bodyStep
  split
  · exact monK_returned h hd _
  · refine monK_of_kpost (kpost_congr h rfl rfl rfl rfl) (fun e he => by cases he) ?_
    rintro (⟨c, hc, _⟩ | hc | hc) <;> cases hc
  · refine monK_of_kpost (kpost_congr h rfl rfl rfl rfl) (fun e he => by cases he) ?_
    rintro (⟨c, hc, _⟩ | hc | hc) <;> cases hc

theorem monK_bodyOf {t : S} (h : KPost t) (hd : t.a.disturbed = false) (c : Fid) : MonK (bodyOf t c) := by
  unfold bodyOf
  split
  · refine monK_of_kpost (kpost_congr h rfl rfl rfl rfl) (fun e he => by cases he) ?_
    rintro (⟨c, hc, _⟩ | hc | hc) <;> cases hc
  · split
    · refine monK_returned ?_ ?_ _
      · exact kpost_congr h rfl rfl rfl rfl
      · exact hd
    · exact monK_returned h hd _
  · split
    · refine monK_returned ?_ ?_ _
      · refine kpost_congr h ?_ rfl rfl rfl
        simp only [tok_k]; rw [runq_fibreTimeout, runq_fibreTimeout]
      · exact hd
    · refine monK_returned ?_ ?_ _
      · refine kpost_congr h ?_ rfl rfl rfl
        simp only [tok_k]; rw [runq_fibreTimeout]
      · exact hd
  · exact monK_returned h hd _
  · exact monK_bodyStep h hd

/-- discharging a fibre removes obligations, never adds any -/
theorem kpost_discharge {t : S} (h : KPost t) (c : Fid) : KPost (tok (.disp c) (emit (.dispatched c) { t with dispatchedNow := true })) := by
  refine ⟨fun f a hfa hp => ?_, fun f a hfa hb => ?_⟩
  · have hfa' : (f, a) ∈ t.a.owed.filter (fun x => x.1 ≠ c) := hfa
    exact bound_congr (s := t) rfl rfl (h.k1 f a (List.mem_filter.mp hfa').1 hp)
  · have hfa' : (f, a) ∈ t.a.owed.filter (fun x => x.1 ≠ c) := hfa
    have hb' : f ∈ t.a.atBegin.filter (· ≠ c) := hb
    exact bound_congr (s := t) rfl rfl (h.k2 f a (List.mem_filter.mp hfa').1 (List.mem_filter.mp hb').1)

theorem monK_body {t : S} (h : KPost t) (hd : t.a.disturbed = false) (c : Fid) : MonK (body t c) :=
  monK_bodyOf (kpost_discharge h c) hd c

theorem monK_dispatch {t : S} (h : KPost t) (hd : t.a.disturbed = false) : MonK (dispatch t) := by
  unfold dispatch
  split
  · exact monK_body h hd _
  · refine monK_of_kpost (kpost_congr h rfl rfl rfl rfl) (fun e he => by cases he) ?_
    rintro (⟨c, hc, _⟩ | hc | hc) <;> cases hc

/-- `handle_timerq(); kernel.current = get_next_task();` and the dispatch: the head leaves the queue and is discharged, every
    other outstanding request moves one place forward -/
theorem monK_afterUpdate {t : S} (hk1 : ∀ f a, (f, a) ∈ t.a.owed → 0 < a → Bound t f a 1)
    (hin : ∀ f ∈ t.a.atBegin, f ∈ t.k.runq) (hq : QOk t.k)
    (hsc : ∀ f, (f ∈ t.k.runq ∨ f ∈ t.k.timerq) → f < t.a.nf) (hd : t.a.disturbed = false) : MonK (afterUpdate t) := by
  obtain ⟨l, e, hl, _⟩ := handleTimerq_prefix t.k
  have hq' := qok_handleTimerq hq
  have hlen : (handleTimerq t.k).runq.length ≤ t.a.nf := by
    apply length_le_of_bounded hq'.rn
    intro x hx
    rw [e] at hx
    rcases List.mem_append.mp hx with h | h
    · exact hsc x (Or.inl h)
    · exact hsc x (Or.inr (hl x h))
  unfold afterUpdate dispatch
  cases hrq : (handleTimerq t.k).runq with
  | nil =>
    have eg : getNextTask (handleTimerq t.k) = { handleTimerq t.k with current := none } := by
      unfold getNextTask; split
      · rfl
      · rename_i e'; rw [hrq] at e'; cases e'
    rw [eg]
    have hnil : t.k.runq = [] := by
      rw [hrq] at e
      exact (List.append_eq_nil_iff.mp e.symm).1
    refine monK_of_kpost ⟨fun f a hfa hp => ?_, fun f a hfa hb => ?_⟩ (fun e he => by cases he) ?_
    · have := (hk1 f a hfa hp).1; rw [hnil] at this; cases this
    · have := hin f hb; rw [hnil] at this; cases this
    · rintro (⟨c, hc, _⟩ | hc | hc) <;> cases hc
  | cons c r =>
    have eg : getNextTask (handleTimerq t.k) = { handleTimerq t.k with current := some c, runq := r } := by
      unfold getNextTask; split
      · rename_i e'; rw [hrq] at e'; cases e'
      · rename_i f' r' e'; rw [hrq] at e'; cases e'; rfl
    rw [eg]
    show MonK (body { t with k := { handleTimerq t.k with current := some c, runq := r } } c)
    unfold body
    refine monK_bodyOf (t := tok (.disp c) (emit (.dispatched c)
      { ({ t with k := { handleTimerq t.k with current := some c, runq := r } } : S) with dispatchedNow := true })) ?_ hd c
    refine ⟨fun f a hfa hp => ?_, fun f a hfa hb => ?_⟩
    all_goals
      have hfa' : (f, a) ∈ t.a.owed.filter (fun x => x.1 ≠ c) := hfa
      have hfo := (List.mem_filter.mp hfa').1
      have hfc : f ≠ c := by simpa using (List.mem_filter.mp hfa').2
    · -- an entry that has already waited
      have hb := hk1 f a hfo hp
      have hmem : f ∈ c :: r := by rw [← hrq, e]; exact List.mem_append_left _ hb.1
      have hfr : f ∈ r := by rcases List.mem_cons.mp hmem with e' | e'; exact absurd e' hfc; exact e'
      have hidx : (c :: r).idxOf f = t.k.runq.idxOf f := by rw [← hrq, e]; exact idxOf_append_mem hb.1
      rw [idxOf_cons_ne' hfc] at hidx
      refine ⟨hfr, ?_⟩
      show r.idxOf f + a + 1 ≤ t.a.nf
      have := hb.2; omega
    · have hb' : f ∈ t.a.atBegin.filter (· ≠ c) := hb
      have hft := hin f (List.mem_filter.mp hb').1
      have hmem : f ∈ c :: r := by rw [← hrq, e]; exact List.mem_append_left _ hft
      have hfr : f ∈ r := by rcases List.mem_cons.mp hmem with e' | e'; exact absurd e' hfc; exact e'
      have hidx : (c :: r).idxOf f = t.k.runq.idxOf f := by rw [← hrq, e]; exact idxOf_append_mem hft
      rw [idxOf_cons_ne' hfc] at hidx
      refine ⟨hfr, ?_⟩
      show r.idxOf f + a + 2 ≤ t.a.nf
      by_cases hp : 0 < a
      · have := (hk1 f a hfo hp).2; omega
      · have h1 : (c :: r).idxOf f < (c :: r).length := List.idxOf_lt_length_of_mem hmem
        rw [idxOf_cons_ne' hfc] at h1
        rw [hrq] at hlen
        omega

theorem owed_killed (a : A) (f : Fid) : (a.step (.killed f)).owed = a.owed.filter (fun x => x.1 ≠ f) := by
  simp only [A.step]; split <;> rfl

theorem bound_makeRunnable {t : S} {g : Fid} {f : Fid} {a d : Nat} (h : Bound t f a d) :
    Bound { t with k := makeRunnable t.k g } f a d :=
  ⟨(mem_runq_makeRunnable g f).mpr (Or.inl h.1), by show (makeRunnable t.k g).runq.idxOf f + a + d ≤ _; rw [idxOf_makeRunnable h.1]; exact h.2⟩

theorem atBegin_killed (a : A) (f : Fid) : (a.step (.killed f)).atBegin = a.atBegin.filter (· ≠ f) := by
  simp only [A.step]; split <;> rfl

theorem disturbed_killed (a : A) (f : Fid) : (a.step (.killed f)).disturbed = a.disturbed := by
  simp only [A.step]; split <;> rfl

theorem kpost_brunPre {t : S} (h : MonK t) (hpp : PastPop t.mpc) (g : Fid) : KPost (brunPre t g) :=
  ⟨fun f a hfa hp => bound_makeRunnable (h.k1 f a hfa hp), fun f a hfa hbg => bound_makeRunnable (h.k2 hpp f a hfa hbg)⟩

theorem kpost_bkillPre {t : S} (h : MonK t) (hpp : PastPop t.mpc) (g : Fid) : KPost (bkillPre t g) := by
  have erase_bound : ∀ f a d, f ≠ g → Bound t f a d → Bound (bkillPre t g) f a d := by
    intro f a d hfg hbd
    refine ⟨(List.mem_erase_of_ne hfg).mpr hbd.1, ?_⟩
    show (t.k.runq.erase g).idxOf f + a + d ≤ (t.a.step (.killed g)).nf
    rw [nf_step]
    have := idxOf_erase_le hfg t.k.runq hbd.1
    have := hbd.2
    omega
  refine ⟨fun f a hfa hp => ?_, fun f a hfa hbg => ?_⟩
  · have hfa' : (f, a) ∈ (t.a.step (.killed g)).owed := hfa
    rw [owed_killed] at hfa'
    have hm := List.mem_filter.mp hfa'
    exact erase_bound f a 1 (by simpa using hm.2) (h.k1 f a hm.1 hp)
  · have hfa' : (f, a) ∈ (t.a.step (.killed g)).owed := hfa
    have hbg' : f ∈ (t.a.step (.killed g)).atBegin := hbg
    rw [owed_killed] at hfa'
    rw [atBegin_killed] at hbg'
    have hm := List.mem_filter.mp hfa'
    exact erase_bound f a 2 (by simpa using hm.2) (h.k2 hpp f a hm.1 (List.mem_filter.mp hbg').1)

theorem monK_afterDrain {n : Nat} {t : S} (h : MonK t) (hb : MonB t.a) (hq : QOk t.k) (hsc : Scope n t) (hn : t.a.nf = n)
    (hdd : DrainDone t) (c : Cont) (hpb : t.mpc = .recvd c) (hcf : ∀ f, contFid c = some f → f < n) : MonK (afterDrain t c) := by
  have scq : ∀ f, (f ∈ t.k.runq ∨ f ∈ t.k.timerq) → f < t.a.nf := by rw [hn]; exact hsc.q
  cases c with
  | run f =>
    refine ⟨fun g a hga hp => bound_makeRunnable (h.k1 g a hga hp), fun hp => False.elim hp, (fun hf => by cases hf), fun hd => ?_⟩
    rcases hd with ⟨c, hc, _⟩ | hc | hc <;> cases hc
  | kill f =>
    refine ⟨fun g a hga hp => ?_, fun hp => False.elim hp, (fun hf => by cases hf), fun hd => ?_⟩
    · have hga' : (g, a) ∈ (t.a.step (.killed f)).owed := hga
      rw [owed_killed] at hga'
      have hm := List.mem_filter.mp hga'
      have hgf : g ≠ f := by simpa using hm.2
      have hbd := h.k1 g a hm.1 hp
      refine ⟨(List.mem_erase_of_ne hgf).mpr hbd.1, ?_⟩
      show (t.k.runq.erase f).idxOf g + a + 1 ≤ (t.a.step (.killed f)).nf
      rw [nf_step]
      have := idxOf_erase_le hgf t.k.runq hbd.1
      have := hbd.2
      omega
    · rcases hd with ⟨c, hc, _⟩ | hc | hc <;> cases hc
  | pass1 =>
    simp only [afterDrain]
    split
    · exact monK_afterUpdate h.k1 (h.k5 hdd) hq scq hb.dist
    · split
      · refine ⟨h.k1, fun hp => False.elim hp, (fun hf => by cases hf), fun hd => ?_⟩
        rcases hd with ⟨c, hc, _⟩ | hc | hc <;> cases hc
      · exact ⟨h.k1, fun hp => False.elim hp, (fun hf => by cases hf), fun _ => h.k5 hdd⟩
      · exact monK_afterUpdate (t := { t with k := { t.k with priv := _ } }) h.k1 (h.k5 hdd) (qok_lists hq rfl rfl) scq hb.dist
      · exact monK_afterUpdate h.k1 (h.k5 hdd) hq scq hb.dist
  | pass2 c =>
    have hc : c < n := hcf c rfl
    have hks : KScope n (makeRunnable t.k c) := kscope_makeRunnable ⟨hsc.q, hsc.cur⟩ c hc
    exact monK_afterUpdate (t := { t with k := makeRunnable t.k c })
      (fun g a hga hp => bound_makeRunnable (h.k1 g a hga hp))
      (fun g hg => (mem_runq_makeRunnable c g).mpr (Or.inl (h.k5 hdd g hg)))
      (qok_makeRunnable hq c) (by rw [hn]; exact hks.q) hb.dist
  | brun g => exact monK_bodyStep (kpost_brunPre h (hpb ▸ trivial) g) hb.dist
  | bkill g =>
    refine monK_bodyStep (kpost_bkillPre h (hpb ▸ trivial) g) ?_
    show (t.a.step (.killed g)).disturbed = false
    rw [disturbed_killed]; exact hb.dist

/-- the same scheduler lists and monitor entries, at a control location of the same phase -/
theorem monK_same {s s' : S} (h : MonK s) (hr : s'.k.runq = s.k.runq) (ho : s'.a.owed = s.a.owed) (hat : s'.a.atBegin = s.a.atBegin)
    (hn : s'.a.nf = s.a.nf) (hpp : PastPop s'.mpc → PastPop s.mpc) (hfd : s'.mpc = .fastDone true → s.mpc = .fastDone true)
    (hdd : DrainDone s' → DrainDone s) : MonK s' :=
  ⟨fun f a hfa hp => bound_congr hr hn (h.k1 f a (ho ▸ hfa) hp),
   fun hp f a hfa hb => bound_congr hr hn (h.k2 (hpp hp) f a (ho ▸ hfa) (hat ▸ hb)),
   fun hf => by rw [hat]; exact h.k3 (hfd hf),
   fun hd f hf => by rw [hr]; exact h.k5 (hdd hd) f (hat ▸ hf)⟩

/-- with no sender inside a call and the drain loop holding nothing: a fibre owed a dispatch whose request is not in
    the atomic queue is on the run queue -/
theorem owed_in_runq {s : S} (hr : Reach s) (hnh : NoHeld s) (hempty : s.aq.received = s.aq.claimed) :
    ∀ f ∈ s.a.owedFids, f ∈ s.k.runq := by
  intro f hf
  rcases reach_inv3 hr f hf with ⟨k, k1, k2, _, _⟩ | h | h
  · omega
  · exact h
  · exact absurd h (hnh f)

theorem monK_mainAtomic {s : S} (hr : Reach s) (hq : Quiet s) (hb : MonB s.a) (h : MonK s) : MonK (mainAtomic s) := by
  have h1 := reach_inv1 hr
  have hma := h1.mainAq
  unfold mainAtomic
  split
  · -- the fast-path check
    rename_i hpc
    refine ⟨h.k1, fun hp => False.elim hp, fun hf => ?_, fun hd => ?_⟩
    · have hf' : MPc.fastDone (mqEmpty s.aq) = MPc.fastDone true := hf
      injection hf' with he
      have hfast := (reach_inv2 hr).fast (by rw [hpc]; trivial)
      -- nothing is owed: an owed fibre would be in the (non-empty) atomic queue or on the (empty) run queue
      have hnone : s.a.owedFids = [] := by
        cases hl : s.a.owedFids with
        | nil => rfl
        | cons f r =>
          exfalso
          have hf : f ∈ s.a.owedFids := by rw [hl]; exact List.mem_cons_self
          rcases reach_inv3 hr f hf with h' | h' | ⟨c, _, _, hc, _, _⟩
          · have := not_empty_of_inAq h1 (reach_owned hr).1 hq h'
            rw [this] at he; cases he
          · rw [hfast.1] at h'; cases h'
          · rw [hpc] at hc; cases hc
      show s.a.atBegin = []
      cases hl : s.a.atBegin with
      | nil => rfl
      | cons f r =>
        have := hb.sub f (by rw [hl]; exact List.mem_cons_self)
        rw [hnone] at this; cases this
    · rcases hd with ⟨c, hc, _⟩ | hc | hc <;> cases hc
  · -- the drain loop's receive
    rename_i c hpc
    rw [hpc] at hma
    refine ⟨h.k1, fun hp => h.k2 (by rw [hpc]; exact hp), (fun hf => by cases hf), fun hd f hf => ?_⟩
    rcases hd with ⟨c', _, hidle⟩ | hc | hc
    · have hidle' : (step s.aq (.recv false)).recv = .idle := hidle
      have hemp := drain_complete h1 (reach_owned hr).1 hq hma hidle'
      exact owed_in_runq hr (noHeld_of_mpc (by rw [hpc]; intro c; simp)) hemp f (hb.sub f hf)
    · cases hc
    · cases hc
  · rename_i c hpc
    refine ⟨h.k1, fun hp => h.k2 (by rw [hpc]; exact hp), (fun hf => by cases hf), fun hd => ?_⟩
    rcases hd with ⟨c', hc, _⟩ | hc | hc <;> cases hc
  · rename_i hpc
    exact ⟨h.k1, fun hp => False.elim hp, (fun hf => by cases hf), fun _ => h.k5 (Or.inr (Or.inl hpc))⟩
  · rename_i hpc
    refine ⟨h.k1, fun _ => h.k2 (by rw [hpc]; trivial), (fun hf => by cases hf), fun hd => ?_⟩
    rcases hd with ⟨c', hc, _⟩ | hc | hc <;> cases hc
  · rename_i hpc
    refine ⟨h.k1, fun _ => h.k2 (by rw [hpc]; trivial), (fun hf => by cases hf), fun hd => ?_⟩
    rcases hd with ⟨c', hc, _⟩ | hc | hc <;> cases hc
  · rename_i hpc
    refine ⟨h.k1, fun _ => h.k2 (by rw [hpc]; trivial), (fun hf => by cases hf), fun hd => ?_⟩
    rcases hd with ⟨c', hc, _⟩ | hc | hc <;> cases hc
  · exact h

theorem monK_mainPlain {n : Nat} {s : S} (hr : Reach s) (hb : MonB s.a) (hsc : Scope n s) (hn : s.a.nf = n) (h : MonK s) :
    MonK (mainPlain s) := by
  have h1 := reach_inv1 hr
  have hq2 := (reach_inv2 hr).q
  have hma := h1.mainAq
  have notDD : ∀ (s' : S), (∀ c, s'.mpc ≠ .recvd c) → s'.mpc ≠ .taintF → s'.mpc ≠ .taintFd → ¬ DrainDone s' := by
    intro s' a b c hd
    rcases hd with ⟨c', hc, _⟩ | hc | hc
    · exact a c' hc
    · exact b hc
    · exact c hc
  unfold mainPlain
  split
  · rename_i c hpc
    cases c with
    | next t =>
      simp only [startCall]; unfold startNext
      split
      · exact ⟨h.k1, fun hp => False.elim hp, (fun hf => by cases hf), fun hd => absurd hd (notDD _ (by simp) (by simp) (by simp))⟩
      · exact ⟨h.k1, fun hp => False.elim hp, (fun hf => by cases hf), fun hd => absurd hd (notDD _ (by simp) (by simp) (by simp))⟩
    | run f =>
      simp only [startCall]
      exact ⟨h.k1, fun hp => False.elim hp, (fun hf => by cases hf), fun hd => absurd hd (notDD _ (by simp) (by simp) (by simp))⟩
    | kill f =>
      simp only [startCall]
      exact ⟨h.k1, fun hp => False.elim hp, (fun hf => by cases hf), fun hd => absurd hd (notDD _ (by simp) (by simp) (by simp))⟩
  · -- fastDone
    rename_i e hpc
    split
    · rename_i he
      subst he
      have hnil := h.k3 hpc
      exact monK_dispatch ⟨h.k1, fun f a _ hb' => by rw [hnil] at hb'; cases hb'⟩ hb.dist
    · exact ⟨h.k1, fun hp => False.elim hp, (fun hf => by cases hf), fun hd => absurd hd (notDD _ (by simp) (by simp) (by simp))⟩
  · -- recvd c
    rename_i c hpc
    rw [hpc] at hma
    split
    · refine ⟨fun g a hga hp => bound_makeRunnable (h.k1 g a hga hp),
              fun hp g a hga hbg => bound_makeRunnable (h.k2 (by rw [hpc]; exact hp) g a hga hbg), (fun hf => by cases hf),
              fun hd => absurd hd (notDD _ (by simp) (by simp) (by simp))⟩
    · rename_i hnh
      rcases hma with hma | ⟨sl, k, hrv⟩
      · exact monK_afterDrain h hb hq2 hsc hn (Or.inl ⟨c, hpc, hma⟩) c hpc (fun f hf => hsc.mpc f (by rw [hpc]; exact hf))
      · exact absurd hrv (hnh sl k)
  · rename_i c hpc
    exact ⟨h.k1, fun hp => h.k2 (by rw [hpc]; exact hp), (fun hf => by cases hf), fun hd => absurd hd (notDD _ (by simp) (by simp) (by simp))⟩
  · -- taintFd
    rename_i hpc
    have hdd : DrainDone s := Or.inr (Or.inr hpc)
    have e1 : (resetPriv s).k.runq = s.k.runq := by unfold resetPriv; split <;> rfl
    have e2 : (resetPriv s).k.timerq = s.k.timerq := by unfold resetPriv; split <;> rfl
    have e3 : (resetPriv s).a = s.a := by unfold resetPriv; split <;> rfl
    refine monK_afterUpdate (t := resetPriv s) ?_ ?_ (qok_lists hq2 e1 e2) ?_ (by rw [e3]; exact hb.dist)
    · intro f a hfa hp
      rw [e3] at hfa
      exact bound_congr e1 (by rw [e3]) (h.k1 f a hfa hp)
    · intro f hf; rw [e3] at hf; rw [e1]; exact h.k5 hdd f hf
    · intro f hf; rw [e1, e2] at hf; rw [e3, hn]; exact hsc.q f hf
  · -- hRecvd
    rename_i hpc
    have hpp : PastPop s.mpc := by rw [hpc]; trivial
    split
    · refine ⟨fun f a hfa hp => ?_, fun _ f a hfa hb' => ?_, (fun hf => by cases hf),
              fun hd => absurd hd (notDD _ (by simp) (by simp) (by simp))⟩
      · have hfa' : (f, a) ∈ (s.a.step (.evProcessed _)).owed := hfa
        rw [owed_evProcessed] at hfa'
        exact bound_congr (s := s) rfl (nf_step _ _) (h.k1 f a hfa' hp)
      · have hfa' : (f, a) ∈ (s.a.step (.evProcessed _)).owed := hfa
        have hb2 : f ∈ (s.a.step (.evProcessed _)).atBegin := hb'
        rw [owed_evProcessed] at hfa'
        rw [(specSame_evProcessed s.a _).1] at hb2
        exact bound_congr (s := s) rfl (nf_step _ _) (h.k2 hpp f a hfa' hb2)
    · exact monK_returned ⟨h.k1, h.k2 hpp⟩ hb.dist _
  · rename_i hpc
    exact ⟨h.k1, fun _ => h.k2 (by rw [hpc]; trivial), (fun hf => by cases hf), fun hd => absurd hd (notDD _ (by simp) (by simp) (by simp))⟩
  · rename_i e hpc
    exact monK_finishPass ⟨h.k1, h.k2 (by rw [hpc]; trivial)⟩ hb.dist _
  · exact h

theorem reachR_monK {n : Nat} {s : S} (hr : ReachR n s) : MonK s := by
  induction hr with
  | init d kinds budgets h1 h32 hn =>
    refine ⟨(fun f a hfa _ => by simp [initWith] at hfa), fun hp => False.elim hp, (fun hf => by cases hf), fun hd => ?_⟩
    rcases hd with ⟨c, hc, _⟩ | hc | hc <;> cases hc
  | mainPlain hr _ ih => exact monK_mainPlain (reachR_reach hr) (reachR_monB hr) (reachR_scope hr) (reachR_nf hr) ih
  | mainAtomic hr hq ih => exact monK_mainAtomic (reachR_reach hr) hq (reachR_monB hr) ih
  | enterMain c _ _ hidle _ ih =>
    refine ⟨ih.k1, fun hp => False.elim hp, (fun hf => by cases hf), fun hd => ?_⟩
    rcases hd with ⟨c, hc, _⟩ | hc | hc <;> cases hc
  | senderPlain i hi hr ih =>
    exact monK_sender ih (reachR_monB hr) (senderPlain_k i _) (senderPlain_mpc i _)
      (by rcases senderPlain_aq i _ with e | ⟨v, e⟩ <;> rw [e]; rw [sender_recv]) (sobs_senderPlain i _)
  | senderAtomic i hi hr ih =>
    exact monK_sender ih (reachR_monB hr) (senderAtomic_k i _) (senderAtomic_mpc i _)
      (by rcases senderAtomic_aq i _ with e | ⟨v, e⟩ <;> rw [e]; rw [sender_recv]) (sobs_senderAtomic i _)
  | enterSender i c hi _ hidle _ ih => exact monK_same ih rfl rfl rfl rfl (fun h => h) (fun h => h) (fun h => h)
  | tok t _ ih => exact monK_same ih rfl rfl rfl rfl (fun h => h) (fun h => h) (fun h => h)
  | nops k _ ih => exact monK_same ih rfl rfl rfl rfl (fun h => h) (fun h => h) (fun h => h)
  | newItem _ ih => exact monK_same ih rfl rfl rfl rfl (fun h => h) (fun h => h) (fun h => h)
  | noYields _ ih => exact monK_same ih rfl rfl rfl rfl (fun h => h) (fun h => h) (fun h => h)
  | setBody b r hb _ ih => exact monK_same ih rfl rfl rfl rfl (fun h => h) (fun h => h) (fun h => h)

end Librfn.Isr.L

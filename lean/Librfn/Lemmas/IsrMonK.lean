import Librfn.Lemmas.IsrMonO
/-! C06 refinement, fairness: in run-to-completion executions whose calls only name existing fibres, an outstanding request
that has aged `a` passes sits in the run queue at a position `p` with `p + a < nf`; so the monitor never has reason for a
`starved` verdict. -/
namespace Librfn.Isr.L
open Librfn.Model.MessageqConc Librfn.Model.FibreIsr Librfn.C04
open Librfn.Sched (Fid Ret)
open Librfn.Spec.IsrSpec
open Librfn.Model.Fibre (K upd makeRunnable handleTimerq getNextTask fibreTimeout timerqLoop)

/-! ## list facts for the FIFO bound -/

theorem idxOf_append_mem {l l' : List Fid} {g : Fid} (h : g ∈ l) : (l ++ l').idxOf g = l.idxOf g := by
  rw [List.idxOf_append, if_pos h]

theorem idxOf_cons_ne' {l : List Fid} {g c : Fid} (h : g ≠ c) : (c :: l).idxOf g = l.idxOf g + 1 := by
  rw [List.idxOf_cons]
  have : (c == g) = false := by simp [Ne.symm h]
  rw [this]; rfl

theorem idxOf_erase_le {g f : Fid} (h : g ≠ f) : ∀ (l : List Fid), g ∈ l → (l.erase f).idxOf g ≤ l.idxOf g
  | [], hm => absurd hm List.not_mem_nil
  | x :: xs, hm => by
    by_cases hx : x = f
    · subst hx
      rw [List.erase_cons_head, idxOf_cons_ne' h]
      omega
    · rw [List.erase_cons_tail (by simpa using hx)]
      by_cases hg : g = x
      · subst hg
        rw [List.idxOf_cons_self, List.idxOf_cons_self]; omega
      · rw [idxOf_cons_ne' hg, idxOf_cons_ne' hg]
        have hm' : g ∈ xs := by rcases List.mem_cons.mp hm with e | e; exact absurd e hg; exact e
        have := idxOf_erase_le h xs hm'
        omega

theorem length_le_of_bounded {l : List Fid} {n : Nat} (hn : l.Nodup) (hb : ∀ x ∈ l, x < n) : l.length ≤ n := by
  have := List.Nodup.length_le_of_subset hn (l₂ := List.range n) (fun x hx => List.mem_range.mpr (hb x hx))
  rwa [List.length_range] at this

theorem timerqLoop_prefix (due : Fid → BitVec 32) (now : BitVec 32) :
    ∀ (tq rq : List Fid), ∃ l, (timerqLoop due now tq rq).2 = rq ++ l ∧ (∀ x ∈ l, x ∈ tq) ∧ (∀ x ∈ (timerqLoop due now tq rq).1, x ∈ tq)
  | [], rq => ⟨[], by simp [timerqLoop], fun _ h => absurd h List.not_mem_nil, fun _ h => by simp [timerqLoop] at h⟩
  | f :: r, rq => by
    unfold timerqLoop
    split
    · obtain ⟨l, e, hl, ht⟩ := timerqLoop_prefix due now r (rq ++ [f])
      refine ⟨f :: l, by rw [e]; simp, fun x hx => ?_, fun x hx => List.mem_cons_of_mem _ (ht x hx)⟩
      rcases List.mem_cons.mp hx with e' | e'
      · subst e'; exact List.mem_cons_self
      · exact List.mem_cons_of_mem _ (hl x e')
    · exact ⟨[], by simp, fun _ h => absurd h List.not_mem_nil, fun _ h => h⟩

theorem handleTimerq_prefix (k : K) :
    ∃ l, (handleTimerq k).runq = k.runq ++ l ∧ (∀ x ∈ l, x ∈ k.timerq) ∧ (∀ x ∈ (handleTimerq k).timerq, x ∈ k.timerq) := by
  obtain ⟨l, e, hl, ht⟩ := timerqLoop_prefix k.due k.now k.timerq k.runq
  exact ⟨l, e, hl, ht⟩

theorem idxOf_makeRunnable {k : K} {f g : Fid} (h : g ∈ k.runq) : (makeRunnable k f).runq.idxOf g = k.runq.idxOf g := by
  unfold makeRunnable
  split
  · rfl
  · exact idxOf_append_mem h

/-! ## the number of fibres is fixed -/

theorem nf_step (a : A) (o : Obs) : (a.step o).nf = a.nf := by
  cases o with
  | accepted f => exact (specSame_accepted a f).nf
  | rejected f => rfl
  | dispatched f => rfl
  | killed f => simp only [A.step]; split <;> rfl
  | evClaimed st => rfl
  | evSent st ok => exact (specSame_evSent a st ok).nf
  | evProcessed st => exact (specSame_evProcessed a st).2.2.2.2.2.1
  | passBegin => rfl
  | looked => rfl
  | bodyReturned y => rfl
  | passEnd onTime => exact (specRest_passEnd a onTime).nf
  | threadBegin => rfl
  | threadEnd => rfl

theorem reachR_nf {n : Nat} {s : S} (hr : ReachR n s) : s.a.nf = n := by
  have lift : ∀ a a', Emits a a' → a.nf = n → a'.nf = n := fun a a' he hp =>
    EmitsP.lift (I := fun a => a.nf = n) (fun a o _ h => by rw [nf_step]; exact h) he hp
  induction hr with
  | init d kinds budgets h1 h32 hn => exact hn.symm
  | mainPlain _ _ ih => exact lift _ _ (emits_mainPlain _) ih
  | mainAtomic _ _ ih => exact lift _ _ (emits_mainAtomic _) ih
  | enterMain c _ _ hidle _ ih => exact ih
  | senderPlain i hi _ ih => exact lift _ _ (emits_senderPlain i _) ih
  | senderAtomic i hi _ ih => exact lift _ _ (emits_senderAtomic i _) ih
  | enterSender i c hi _ hidle _ ih => exact ih
  | tok t _ ih => exact ih
  | nops k _ ih => exact ih
  | newItem _ ih => exact ih
  | noYields _ ih => exact ih

/-! ## every fibre named anywhere in the state exists -/

def contFid : Cont → Option Fid
  | .run f | .kill f | .pass2 f => some f
  | .pass1 => none

def mpcFid : MPc → Option Fid
  | .start (.run f) | .start (.kill f) => some f
  | .recv c | .recvd c | .rel c | .reld c => contFid c
  | _ => none

def ipcFid : IPc → Option Fid
  | .raClaim f _ | .raClaimed f _ | .raNull f _ | .raTaint f _ | .raTainted f _ | .raSend f _ | .raSent f _ => some f
  | _ => none

structure Scope (n : Nat) (s : S) : Prop where
  q : ∀ f, (f ∈ s.k.runq ∨ f ∈ s.k.timerq) → f < n
  cur : ∀ c, s.k.current = some c → c < n
  mpc : ∀ f, mpcFid s.mpc = some f → f < n
  ipc : ∀ i f, ipcFid (s.ipc i) = some f → f < n
  wr : ∀ k, k < s.aq.claimed → s.aq.sent k = true → s.aq.written k < n

/-- the lists of `K`, `kernel.current`: what the scheduler's plain code can do to the scope -/
structure KScope (n : Nat) (k : K) : Prop where
  q : ∀ f, (f ∈ k.runq ∨ f ∈ k.timerq) → f < n
  cur : ∀ c, k.current = some c → c < n

theorem kscope_makeRunnable {n : Nat} {k : K} (h : KScope n k) (f : Fid) (hf : f < n) : KScope n (makeRunnable k f) := by
  unfold makeRunnable
  split
  · exact h
  · refine ⟨fun g hg => ?_, h.cur⟩
    rcases hg with hg | hg
    · rcases List.mem_append.mp hg with e | e
      · exact h.q g (Or.inl e)
      · rw [List.mem_singleton] at e; subst e; exact hf
    · exact h.q g (Or.inr (List.mem_of_mem_erase hg))

theorem kscope_handleTimerq {n : Nat} {k : K} (h : KScope n k) : KScope n (handleTimerq k) := by
  obtain ⟨l, e, hl, ht⟩ := handleTimerq_prefix k
  refine ⟨fun g hg => ?_, h.cur⟩
  rcases hg with hg | hg
  · rw [e] at hg
    rcases List.mem_append.mp hg with e' | e'
    · exact h.q g (Or.inl e')
    · exact h.q g (Or.inr (hl g e'))
  · exact h.q g (Or.inr (ht g hg))

theorem kscope_getNextTask {n : Nat} {k : K} (h : KScope n k) : KScope n (getNextTask k) := by
  unfold getNextTask
  split
  · exact ⟨h.q, fun c hc => by cases hc⟩
  · rename_i f r e
    refine ⟨fun g hg => ?_, fun c hc => ?_⟩
    · rcases hg with hg | hg
      · exact h.q g (Or.inl (e ▸ List.mem_cons_of_mem _ hg))
      · exact h.q g (Or.inr hg)
    · injection hc with hc; subst hc; exact h.q f (Or.inl (e ▸ List.mem_cons_self))

theorem kscope_fibreTimeout {n : Nat} {k : K} (h : KScope n k) (c : Fid) (hc : c < n) (d : BitVec 32) :
    KScope n (fibreTimeout k c d).1 := by
  refine ⟨fun g hg => ?_, fun c' hc' => ?_⟩
  · rcases hg with hg | hg
    · rw [runq_fibreTimeout] at hg; exact h.q g (Or.inl hg)
    · rcases mem_timerq_fibreTimeout hg with e | e
      · subst e; exact hc
      · exact h.q g (Or.inr e)
  · apply h.cur c'
    unfold fibreTimeout at hc'
    split at hc'
    · exact hc'
    · simp only at hc'; split at hc' <;> exact hc'

theorem kscope_lists {n : Nat} {k k' : K} (h : KScope n k) (e1 : k'.runq = k.runq) (e2 : k'.timerq = k.timerq)
    (e3 : k'.current = k.current) : KScope n k' :=
  ⟨by rw [e1, e2]; exact h.q, by rw [e3]; exact h.cur⟩

theorem returned_current (s : S) (r : Ret) : (returned s r).k.current = s.k.current := by
  unfold returned; split <;> rfl

theorem kscope_returned {n : Nat} {s : S} (h : KScope n s.k) (r : Ret) : KScope n (returned s r).k :=
  kscope_lists h (returned_runq s r) (returned_timerq s r) (returned_current s r)

theorem kscope_bodyOf {n : Nat} {s : S} (h : KScope n s.k) (c : Fid) (hc : c < n) : KScope n (bodyOf s c).k := by
  unfold bodyOf
  split
  · exact h
  · split <;> exact kscope_returned (by exact h) _
  · split
    · exact kscope_returned (s := tok _ (tok _ { s with k := _, sdue := _ }))
        (kscope_fibreTimeout (kscope_fibreTimeout h c hc _) c hc _) _
    · exact kscope_returned (s := tok _ { s with k := _ }) (kscope_fibreTimeout h c hc _) _
  · exact kscope_returned h _

theorem kscope_dispatch {n : Nat} {s : S} (h : KScope n s.k) : KScope n (dispatch s).k := by
  unfold dispatch
  split
  · rename_i c e
    exact kscope_bodyOf (s := tok _ (emit _ { s with dispatchedNow := true })) h c (h.cur c e)
  · exact h

theorem kscope_afterUpdate {n : Nat} {s : S} (h : KScope n s.k) : KScope n (afterUpdate s).k :=
  kscope_dispatch (s := { s with k := getNextTask (handleTimerq s.k) }) (kscope_getNextTask (kscope_handleTimerq h))

theorem AfterBody.noFid {pc : MPc} (h : AfterBody pc) : mpcFid pc = none := by
  cases pc <;> first | exact False.elim h | rfl

theorem kscope_afterDrain {n : Nat} {s : S} (h : KScope n s.k) (c : Cont) (hc : ∀ f, contFid c = some f → f < n) :
    KScope n (afterDrain s c).k ∧ ∀ f, mpcFid (afterDrain s c).mpc = some f → f < n := by
  cases c with
  | run f => exact ⟨kscope_makeRunnable h f (hc f rfl), fun g hg => by cases hg⟩
  | kill f =>
    exact ⟨⟨fun g hg => h.q g (hg.elim (fun e => Or.inl (List.mem_of_mem_erase e)) (fun e => Or.inr (List.mem_of_mem_erase e))), h.cur⟩,
           fun g hg => by cases hg⟩
  | pass1 =>
    simp only [afterDrain]
    split
    · exact ⟨kscope_afterUpdate h, fun g hg => by rw [(afterBody_afterUpdate s).noFid] at hg; cases hg⟩
    · rename_i c' hcur
      split
      · exact ⟨h, fun g hg => by injection hg with hg; subst hg; exact h.cur _ hcur⟩
      · exact ⟨h, fun g hg => by cases hg⟩
      · exact ⟨kscope_afterUpdate (s := { s with k := { s.k with priv := _ } }) (kscope_lists h rfl rfl rfl),
               fun g hg => by rw [(afterBody_afterUpdate _).noFid] at hg; cases hg⟩
      · exact ⟨kscope_afterUpdate h, fun g hg => by rw [(afterBody_afterUpdate s).noFid] at hg; cases hg⟩
  | pass2 c =>
    refine ⟨kscope_afterUpdate (s := { s with k := makeRunnable s.k c }) (kscope_makeRunnable h c (hc c rfl)), fun g hg => ?_⟩
    have hg' : mpcFid (afterUpdate { s with k := makeRunnable s.k c }).mpc = some g := hg
    rw [(afterBody_afterUpdate _).noFid] at hg'; cases hg'

/-- only a sender about to execute the `fetch_or` of `fibre_run_atomic` has stored a fibre pointer in a claimed slot of the
    atomic run queue -/
theorem raSend_of_wrote {s : S} (h1 : Inv1 s) (i : Nat) (hi : i < 3) (sl : BitVec 8) (k : Nat)
    (hw : s.aq.senders[i]? = some (.wrote sl k)) : ∃ ev, s.ipc i = .raSend (s.aq.written k) ev := by
  have hpo := h1.senders i hi
  cases hpc : s.ipc i with
  | raSend f ev =>
    rw [hpc] at hpo
    obtain ⟨_, sl', k', hq, hwr⟩ := hpo
    rw [hw] at hq
    injection hq with hq; injection hq with _ e2
    subst e2
    exact ⟨ev, by rw [hwr]⟩
  | raClaim f ev =>
    rw [hpc] at hpo
    obtain ⟨_, pc, hq, hc⟩ := hpo
    rw [hw] at hq; injection hq with hq; subst hq; exact False.elim hc
  | raClaimed f ev =>
    rw [hpc] at hpo
    obtain ⟨_, sl', k', hq⟩ := hpo
    rw [hw] at hq; cases hq
  | evClaim st => rw [hpc] at hpo; have := hpo.2; unfold SenderIdle at this; rw [hw] at this; cases this
  | evClaimed st => rw [hpc] at hpo; have := hpo.2; unfold SenderIdle at this; rw [hw] at this; cases this
  | evSend st => rw [hpc] at hpo; have := hpo.2; unfold SenderIdle at this; rw [hw] at this; cases this
  | idle => rw [hpc] at hpo; have := hpo.2; unfold SenderIdle at this; rw [hw] at this; cases this
  | evNull st => rw [hpc] at hpo; have := hpo.2; unfold SenderIdle at this; rw [hw] at this; cases this
  | evTaint st => rw [hpc] at hpo; have := hpo.2; unfold SenderIdle at this; rw [hw] at this; cases this
  | evTainted st => rw [hpc] at hpo; have := hpo.2; unfold SenderIdle at this; rw [hw] at this; cases this
  | evSent st => rw [hpc] at hpo; have := hpo.2; unfold SenderIdle at this; rw [hw] at this; cases this
  | raNull f ev => rw [hpc] at hpo; have := hpo.2; unfold SenderIdle at this; rw [hw] at this; cases this
  | raTaint f ev => rw [hpc] at hpo; have := hpo.2; unfold SenderIdle at this; rw [hw] at this; cases this
  | raTainted f ev => rw [hpc] at hpo; have := hpo.2; unfold SenderIdle at this; rw [hw] at this; cases this
  | raSent f ev => rw [hpc] at hpo; have := hpo.2; unfold SenderIdle at this; rw [hw] at this; cases this

theorem scope_sender {n : Nat} {s s' : S} (h1 : Inv1 s) (h : Scope n s) (i : Nat) (hi : i < 3)
    (hk : s'.k = s.k) (hm : s'.mpc = s.mpc)
    (haq : s'.aq = s.aq ∨ ∃ v, s'.aq = step s.aq (.sender i false v))
    (hipc : ∀ j, j ≠ i → s'.ipc j = s.ipc j)
    (hown : ∀ f, ipcFid (s'.ipc i) = some f → f < n) : Scope n s' := by
  refine ⟨by rw [hk]; exact h.q, by rw [hk]; exact h.cur, by rw [hm]; exact h.mpc, fun j f hj => ?_, ?_⟩
  · by_cases hji : j = i
    · subst hji; exact hown f hj
    · exact h.ipc j f (hipc j hji ▸ hj)
  · rcases haq with e | ⟨v, e⟩
    · rw [e]; exact h.wr
    · intro k hk hs
      rw [e] at hk hs ⊢
      rcases sender_sent_new s.aq i false v k hs with hs' | ⟨sl, hw⟩
      · rw [written_sent_stable s.aq h1.aqInv i false v k hs']
        exact h.wr k (h1.aqInv.sentlt k hs') hs'
      · -- the ticket sender `i` publishes now carries the fibre it names
        have hst := step_wrote s.aq i false v sl k hw
        rw [hst.2.2.1]
        have hfid := raSend_of_wrote h1 i hi sl k hw
        obtain ⟨ev, hev⟩ := hfid
        exact h.ipc i _ (by rw [hev]; rfl)

theorem ipcFid_senderAtomic (i : Nat) (s : S) (f : Fid) (h : ipcFid ((senderAtomic i s).ipc i) = some f) :
    ipcFid (s.ipc i) = some f := by
  unfold senderAtomic at h
  split at h
  · rename_i st hpc
    split at h
    · simp only [tok_ipc, emit_ipc, upd_same] at h; cases h
    · simp only [upd_same] at h; cases h
    · rw [hpc] at h; cases h
  · simp only [upd_same] at h; cases h
  · simp only [upd_same] at h; cases h
  · rename_i f' ev hpc
    rw [hpc]
    split at h
    · simp only [upd_same] at h; exact h
    · simp only [upd_same] at h; exact h
    · rw [hpc] at h; exact h
  · rename_i f' ev hpc; rw [hpc]; simp only [upd_same] at h; exact h
  · rename_i f' ev hpc; rw [hpc]; simp only [tok_ipc, emit_ipc, upd_same] at h; exact h
  · exact h

theorem ipcFid_senderPlain (i : Nat) (s : S) (f : Fid) (h : ipcFid ((senderPlain i s).ipc i) = some f) :
    ipcFid (s.ipc i) = some f ∨ f = HANDLER := by
  unfold senderPlain at h
  split at h
  · simp only [upd_same] at h; cases h
  · simp only [upd_same] at h; cases h
  · simp only [finishSender, upd_same] at h; cases h
  · simp only [upd_same] at h; injection h with h; exact Or.inr h.symm
  · rename_i f' ev hpc; rw [hpc]; simp only [upd_same] at h; exact Or.inl h
  · rename_i f' ev hpc; rw [hpc]; simp only [upd_same] at h; exact Or.inl h
  · rename_i f' ev hpc; cases ev <;> (simp only [finishSender, upd_same] at h; cases h)
  · rename_i f' ev hpc; cases ev <;> (simp only [finishSender, upd_same] at h; cases h)
  · exact Or.inl h

theorem scope_mainAtomic {n : Nat} {s : S} (h : Scope n s) : Scope n (mainAtomic s) := by
  have wrRecv : ∀ k, k < (step s.aq (.recv false)).claimed → (step s.aq (.recv false)).sent k = true → (step s.aq (.recv false)).written k < n := by
    intro k hk hs
    rw [recv_claimed] at hk; rw [recv_sent] at hs; rw [recv_written]; exact h.wr k hk hs
  unfold mainAtomic
  split
  · exact ⟨h.q, h.cur, (fun f hf => by cases hf), h.ipc, h.wr⟩
  · rename_i c hpc; exact ⟨h.q, h.cur, fun f hf => h.mpc f (by rw [hpc]; exact hf), h.ipc, wrRecv⟩
  · rename_i c hpc; exact ⟨h.q, h.cur, fun f hf => h.mpc f (by rw [hpc]; exact hf), h.ipc, wrRecv⟩
  · exact ⟨h.q, h.cur, (fun f hf => by cases hf), h.ipc, h.wr⟩
  · exact ⟨h.q, h.cur, (fun f hf => by cases hf), h.ipc, h.wr⟩
  · exact ⟨h.q, h.cur, (fun f hf => by cases hf), h.ipc, h.wr⟩
  · exact ⟨h.q, h.cur, (fun f hf => by cases hf), h.ipc, h.wr⟩
  · exact h

theorem scope_of_parts {n : Nat} {s s' : S} (h : Scope n s) (hk : KScope n s'.k) (hm : ∀ f, mpcFid s'.mpc = some f → f < n)
    (hi : s'.ipc = s.ipc) (ha : s'.aq = s.aq) : Scope n s' :=
  ⟨hk.q, hk.cur, hm, by rw [hi]; exact h.ipc, by rw [ha]; exact h.wr⟩

theorem scope_mainPlain {n : Nat} {s : S} (h1 : Inv1 s) (h : Scope n s) : Scope n (mainPlain s) := by
  have hks : KScope n s.k := ⟨h.q, h.cur⟩
  unfold mainPlain
  split
  · rename_i c hpc
    cases c with
    | next t =>
      simp only [startCall]; unfold startNext
      split
      · exact scope_of_parts h (kscope_lists hks rfl rfl rfl) (fun f hf => by cases hf) rfl rfl
      · exact scope_of_parts h (kscope_lists hks rfl rfl rfl) (fun f hf => by cases hf) rfl rfl
    | run f => exact scope_of_parts h hks (fun g hg => h.mpc g (by rw [hpc]; exact hg)) rfl rfl
    | kill f => exact scope_of_parts h hks (fun g hg => h.mpc g (by rw [hpc]; exact hg)) rfl rfl
  · split
    · exact scope_of_parts h (kscope_dispatch hks) (fun f hf => by rw [(afterBody_dispatch s).noFid] at hf; cases hf)
        (frame_dispatch ⟨rfl, rfl, rfl, rfl⟩).ipc (frame_dispatch ⟨rfl, rfl, rfl, rfl⟩).aq
    · exact scope_of_parts h hks (fun f hf => by cases hf) rfl rfl
  · rename_i c hpc
    split
    · -- make_runnable(*f): the pointer read is the recorded payload of a sent ticket
      rename_i sl k hr
      have hrv := h1.aqInv.recv
      rw [hr] at hrv
      have ho2 := h1.aqInv.order2
      have hv : s.aq.payload sl.toNat < n := by
        rw [hold_payload h1.aqInv hr]
        have := hrv.1
        exact h.wr k (by omega) hrv.2.2.2
      refine ⟨(kscope_makeRunnable hks _ hv).q, (kscope_makeRunnable hks _ hv).cur,
              fun f hf => h.mpc f (by rw [hpc]; exact hf), h.ipc, ?_⟩
      intro k' hk' hs'
      have hk2 : k' < (step s.aq (.recv false)).claimed := hk'
      have hs2 : (step s.aq (.recv false)).sent k' = true := hs'
      rw [recv_claimed] at hk2; rw [recv_sent] at hs2
      show (step s.aq (.recv false)).written k' < n
      rw [recv_written]; exact h.wr k' hk2 hs2
    · have := kscope_afterDrain (s := s) hks c (fun f hf => h.mpc f (by rw [hpc]; exact hf))
      exact scope_of_parts h this.1 this.2 (frame_afterDrain ⟨rfl, rfl, rfl, rfl⟩ c).ipc (frame_afterDrain ⟨rfl, rfl, rfl, rfl⟩ c).aq
  · rename_i c hpc
    exact scope_of_parts h hks (fun f hf => h.mpc f (by rw [hpc]; exact hf)) rfl rfl
  · have hk' : KScope n (resetPriv s).k := by unfold resetPriv; split <;> exact kscope_lists hks rfl rfl rfl
    exact scope_of_parts h (kscope_afterUpdate hk') (fun f hf => by rw [(afterBody_afterUpdate _).noFid] at hf; cases hf)
      (frame_afterUpdate (resetPriv_same s)).ipc (frame_afterUpdate (resetPriv_same s)).aq
  · split
    · exact scope_of_parts h hks (fun f hf => by cases hf) rfl rfl
    · exact scope_of_parts h (kscope_returned hks _) (fun f hf => by rw [(afterBody_returned s _).noFid] at hf; cases hf)
        (frame_returned ⟨rfl, rfl, rfl, rfl⟩ _).ipc (frame_returned ⟨rfl, rfl, rfl, rfl⟩ _).aq
  · exact scope_of_parts h hks (fun f hf => by cases hf) rfl rfl
  · exact scope_of_parts h hks (fun f hf => by cases hf) rfl rfl
  · exact h

theorem reachR_scope {n : Nat} {s : S} (hr : ReachR n s) : Scope n s := by
  induction hr with
  | init d kinds budgets h1 h32 hn =>
    exact ⟨(fun f hf => by rcases hf with hf | hf <;> cases hf), (fun c hc => by cases hc), (fun f hf => by cases hf),
           (fun i f hf => by cases hf), fun k hk _ => absurd hk (Nat.not_lt_zero k)⟩
  | mainPlain hr _ ih => exact scope_mainPlain (reach_inv1 (reachR_reach hr)) ih
  | mainAtomic _ _ ih => exact scope_mainAtomic ih
  | enterMain c _ _ hidle hc ih =>
    refine ⟨ih.q, ih.cur, fun f hf => ?_, ih.ipc, ih.wr⟩
    cases c with
    | next t => cases hf
    | run g => injection hf with hf; subst hf; exact hc
    | kill g => injection hf with hf; subst hf; exact hc
  | senderPlain i hi hr ih =>
    have hnf := reachR_nf hr
    have hpos := (reachR_monB hr).nfpos
    refine scope_sender (reach_inv1 (reachR_reach hr)) ih i (by omega) (senderPlain_k i _) (senderPlain_mpc i _) (senderPlain_aq i _)
      (fun j hj => senderPlain_ipc_other i j _ hj) (fun f hf => ?_)
    rcases ipcFid_senderPlain i _ f hf with e | e
    · exact ih.ipc i f e
    · subst e; show 0 < n; omega
  | senderAtomic i hi hr ih =>
    exact scope_sender (reach_inv1 (reachR_reach hr)) ih i (by omega) (senderAtomic_k i _) (senderAtomic_mpc i _) (senderAtomic_aq i _)
      (fun j hj => senderAtomic_ipc_other i j _ hj) (fun f hf => ih.ipc i f (ipcFid_senderAtomic i _ f hf))
  | enterSender i c hi hr hidle hc ih =>
    refine scope_sender (reach_inv1 (reachR_reach hr)) ih i (by omega) rfl rfl (Or.inl rfl) (fun j hj => upd_other _ _ _ _ hj) (fun f hf => ?_)
    have hf' : ipcFid (upd _ i (startPc c) i) = some f := hf
    rw [upd_same] at hf'
    cases c with
    | runAtomic g => injection hf' with hf'; subst hf'; exact hc
    | eventSend st => cases hf'
  | tok t _ ih => exact ⟨ih.q, ih.cur, ih.mpc, ih.ipc, ih.wr⟩
  | nops k _ ih => exact ⟨ih.q, ih.cur, ih.mpc, ih.ipc, ih.wr⟩
  | newItem _ ih => exact ⟨ih.q, ih.cur, ih.mpc, ih.ipc, ih.wr⟩
  | noYields _ ih => exact ⟨ih.q, ih.cur, ih.mpc, ih.ipc, ih.wr⟩

end Librfn.Isr.L

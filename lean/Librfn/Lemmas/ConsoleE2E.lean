import Librfn.Lemmas.ConsoleInv
import Librfn.Lemmas.ConsoleEdit
import Librfn.Lemmas.ConsoleDeliver
/-! End to end: the commands the console starts, with the argument strings they see, are a function
of the completed lines (and the table). -/
namespace Librfn.Lemmas.ConsoleE2E
open Librfn.Model.Console Librfn.Gen.Layout
open Librfn.Lemmas.ConsoleTok Librfn.Lemmas.ConsoleTable Librfn.Lemmas.ConsoleInv Librfn.Lemmas.ConsoleEdit
open Librfn.Spec.Console (editStep edit Lines feed feedAll completes)

/-! ### what a line stands for -/

/-- the strings `argv[0..argc-1]` after `do_tokenize` -/
def tokStrings (t : Tok) (len : Nat) : List (List Nat) :=
  (List.range t.argc).map fun i => match (padArgv t.argv t.argc len).getD i none with
    | some o => cstr t.mem o
    | none => []

/-- the scratch union holding exactly `line` after a prompt -/
def lineMem (line : List Byte) : List Byte := line ++ List.replicate (scratchSize - line.length) 0

/-- the arguments of a line: `do_tokenize` applied to the line alone -/
def lineTokens (line : List Byte) : List (List Byte) :=
  tokStrings (tokenizeMem (lineMem line) [none, none, none, none] line.length) line.length

/-- the command a completed line runs and the argument strings it is given -/
def dispatchSpec (tab : Table) (line : List Byte) : Option Cmd × List (List Byte) :=
  (findLoop ((lineTokens line).headD []) tab, lineTokens line)

/-! ### `do_tokenize` does not depend on what `argv` held before -/

structure Rel (t t' : Tok) : Prop where
  mem : t.mem = t'.mem
  quote : t.quote = t'.quote
  argc : t.argc = t'.argc
  len : t.argv.length = 4
  len' : t'.argv.length = 4
  argv : ∀ i, i < t.argc → t.argv.getD i none = t'.argv.getD i none

theorem getD_set_opt (l : List (Option Nat)) (i j : Nat) (v : Option Nat) :
    (l.set i v).getD j none = if i = j ∧ i < l.length then v else l.getD j none := by
  simp only [List.getD_eq_getElem?_getD, List.getElem?_set]
  by_cases h : i = j
  · subst h
    by_cases h2 : i < l.length
    · simp [h2]
    · simp [h2]
  · simp [h]

theorem tokStep_rel (t t' : Tok) (i : Nat) (h : Rel t t') (h4 : t.argc < 4) :
    Rel (tokStep t i).1 (tokStep t' i).1 ∧ (tokStep t i).2 = (tokStep t' i).2 := by
  obtain ⟨m, q, c, v, w⟩ := t
  obtain ⟨m', q', c', v', w'⟩ := t'
  have e1 : m = m' := h.mem
  have e2 : q = q' := h.quote
  have e3 : c = c' := h.argc
  subst e1; subst e2; subst e3
  have hlen : v.length = 4 := h.len
  have hlen' : v'.length = 4 := h.len'
  have hargv : ∀ j, j < c → v.getD j none = v'.getD j none := h.argv
  have h4' : c < 4 := h4
  unfold tokStep
  simp only []
  by_cases c1 : isspace (m.getD i 0) = true ∧ q = 0
  · rw [if_pos c1, if_pos c1]; exact ⟨⟨rfl, rfl, rfl, hlen, hlen', hargv⟩, rfl⟩
  · rw [if_neg c1, if_neg c1]
    by_cases c2 : m.getD i 0 = q
    · rw [if_pos c2, if_pos c2]; exact ⟨⟨rfl, rfl, rfl, hlen, hlen', hargv⟩, rfl⟩
    · rw [if_neg c2, if_neg c2]
      by_cases c3 : m.getD (i - 1) 0 = 0
      · rw [if_pos c3, if_pos c3]
        by_cases c4 : q = 0 ∧ (m.getD i 0 = 39 ∨ m.getD i 0 = 34)
        · rw [if_pos c4, if_pos c4]; exact ⟨⟨rfl, rfl, rfl, hlen, hlen', hargv⟩, rfl⟩
        · rw [if_neg c4, if_neg c4]
          refine ⟨⟨rfl, rfl, rfl, by simp [hlen], by simp [hlen'], ?_⟩, rfl⟩
          intro j hj
          have hj' : j < c + 1 := hj
          show (v.set c (some i)).getD j none = (v'.set c (some i)).getD j none
          rw [getD_set_opt, getD_set_opt, hlen, hlen']
          by_cases e : c = j
          · rw [if_pos ⟨e, h4'⟩, if_pos ⟨e, h4'⟩]
          · rw [if_neg (fun x => e x.1), if_neg (fun x => e x.1)]
            exact hargv j (by omega)
      · rw [if_neg c3, if_neg c3]; exact ⟨⟨rfl, rfl, rfl, hlen, hlen', hargv⟩, rfl⟩

theorem tokStep_argc (t : Tok) (i : Nat) (h : t.argc < 4) : (tokStep t i).2 = false → (tokStep t i).1.argc < 4 := by
  unfold tokStep
  split
  · exact fun _ => h
  · split
    · exact fun _ => h
    · split
      · split
        · exact fun _ => h
        · intro hb
          have hb' : decide (t.argc + 1 ≥ argvLen) = false := hb
          rw [argvLen_eq] at hb'
          have : ¬ (t.argc + 1 ≥ 4) := by simpa using hb'
          show t.argc + 1 < 4
          omega
      · exact fun _ => h

theorem tokLoop_rel : ∀ (n i : Nat) (t t' : Tok), Rel t t' → t.argc < 4 → Rel (tokLoop n i t) (tokLoop n i t')
  | 0, _, _, _, h, _ => h
  | n + 1, i, t, t', h, h4 => by
    obtain ⟨hr, hb⟩ := tokStep_rel t t' i h h4
    rw [tokLoop, tokLoop, ← hb]
    by_cases hbr : (tokStep t i).2 = true
    · rw [if_pos hbr, if_pos hbr]; exact hr
    · rw [if_neg hbr, if_neg hbr]
      exact tokLoop_rel n (i + 1) _ _ hr (tokStep_argc t i h4 (by simpa using hbr))

theorem tokStrings_argv_indep (mem : List Byte) (a a' : List (Option Nat)) (len : Nat) (ha : a.length = 4) (ha' : a'.length = 4) :
    tokStrings (tokenizeMem mem a len) len = tokStrings (tokenizeMem mem a' len) len := by
  have h0 : Rel { mem := mem, quote := 0, argc := 1, argv := a.set 0 (some 0), wr := [] }
      { mem := mem, quote := 0, argc := 1, argv := a'.set 0 (some 0), wr := [] } :=
    ⟨rfl, rfl, rfl, by simp [ha], by simp [ha'], fun i hi => by
      have hi' : i < 1 := hi
      have : i = 0 := by omega
      subst this
      show (a.set 0 (some 0)).getD 0 none = (a'.set 0 (some 0)).getD 0 none
      rw [getD_set_opt, getD_set_opt, if_pos ⟨rfl, by omega⟩, if_pos ⟨rfl, by omega⟩]⟩
  have h := tokLoop_rel (len - 1) 1 _ _ h0 (by show 1 < 4; omega)
  have hi := tokenizeMem_inv mem a len ha
  unfold tokStrings
  unfold tokenizeMem at hi ⊢
  rw [← h.argc, ← h.mem]
  apply List.map_congr_left
  intro i hi'
  have hlt : i < (tokLoop (len - 1) 1 { mem := mem, quote := 0, argc := 1, argv := a.set 0 (some 0), wr := [] }).argc :=
    List.mem_range.mp hi'
  have h4 := hi.hargc4
  rw [padArgv_getD _ _ _ i (by omega), padArgv_getD _ _ _ i (by omega), if_pos hlt, if_pos hlt, h.argv i hlt]

/-! ### the spawn: one completed line -/

theorem ext_getD0 (l₁ l₂ : List Byte) (hl : l₁.length = l₂.length) (h : ∀ j, l₁.getD j 0 = l₂.getD j 0) : l₁ = l₂ := by
  apply List.ext_getElem hl
  intro j h1 h2
  have := h j
  rw [List.getD_eq_getElem?_getD, List.getD_eq_getElem?_getD, List.getElem?_eq_getElem h1, List.getElem?_eq_getElem h2] at this
  simpa using this

theorem lineMem_getD (cur : List Byte) (j : Nat) : (lineMem cur).getD j 0 = cur.getD j 0 := by
  unfold lineMem
  rw [List.getD_eq_getElem?_getD, List.getD_eq_getElem?_getD]
  by_cases hj : j < cur.length
  · rw [List.getElem?_append_left hj]
  · rw [List.getElem?_append_right (by omega), List.getElem?_eq_none (by omega : cur.length ≤ j)]
    have := Librfn.Lemmas.ConsoleEdit.replicate_getD (scratchSize - cur.length) (j - cur.length)
    rw [List.getD_eq_getElem?_getD] at this
    rw [this]; rfl

theorem atPrompt_mem (s : St) (cur : List Byte) (h : AtPrompt s cur) : s.mem = lineMem cur := by
  have hss : 79 < scratchSize := by decide
  apply ext_getD0
  · rw [h.memlen]; unfold lineMem; rw [List.length_append, List.length_replicate]; have := h.short; omega
  · intro j; rw [h.mem j, lineMem_getD]

theorem tokStrings_head (t : Tok) (len o : Nat) (h1 : 1 ≤ t.argc) (ho : t.argv.getD 0 none = some o) :
    (tokStrings t len).headD [] = cstr t.mem o := by
  unfold tokStrings
  obtain ⟨k, hk⟩ : ∃ k, t.argc = k + 1 := ⟨t.argc - 1, by omega⟩
  rw [hk, List.range_succ_eq_map]
  simp only [List.map_cons, List.headD_cons]
  rw [padArgv_getD _ _ _ 0 (by omega), if_pos (by omega), ho]

/-- **one completed line**: with the edited line `cur` in the buffer, `do_tokenize` + `find_command` log
    the text `cur` and start exactly `dispatchSpec tab cur` -/
theorem spawn_ran (tab : Table) (named : List Cmd) (snt : Cmd) (s : St) (cur : List Byte)
    (ht : TableOk tab named snt) (hat : AtPrompt s cur) (ha : s.argv.length = 4) :
    (findCommand tab (doTokenize s)).lines = s.lines ++ [cur] ∧
    (findCommand tab (doTokenize s)).ran = s.ran ++ [dispatchSpec tab cur] := by
  obtain ⟨h1, h2⟩ := atPrompt_strlen s cur hat
  have hmem := atPrompt_mem s cur hat
  have hti := tokenizeMem_inv s.mem s.argv cur.length ha
  obtain ⟨o, ho, _, _⟩ := hti.hargv 0 hti.hargc1
  have hdt : doTokenize s = { s with mem := (tokenizeMem s.mem s.argv cur.length).mem, argc := (tokenizeMem s.mem s.argv cur.length).argc, argv := padArgv (tokenizeMem s.mem s.argv cur.length).argv (tokenizeMem s.mem s.argv cur.length).argc cur.length, wlog := (tokenizeMem s.mem s.argv cur.length).wr ++ s.wlog, lines := s.lines ++ [s.mem.take cur.length] } := by
    unfold doTokenize; rw [h1]
  have hp0 : (padArgv (tokenizeMem s.mem s.argv cur.length).argv (tokenizeMem s.mem s.argv cur.length).argc cur.length).getD 0 none = some o := by
    rw [padArgv_getD _ _ _ 0 (by decide), if_pos (show 0 < _ from hti.hargc1)]; exact ho
  have hstr : argStrings (doTokenize s) = lineTokens cur := by
    rw [hdt]
    show tokStrings (tokenizeMem s.mem s.argv cur.length) cur.length = _
    unfold lineTokens
    rw [← hmem]
    exact tokStrings_argv_indep s.mem s.argv _ cur.length ha rfl
  have hhead : cstr (tokenizeMem s.mem s.argv cur.length).mem o = (lineTokens cur).headD [] := by
    rw [← hstr, hdt]
    show _ = (tokStrings (tokenizeMem s.mem s.argv cur.length) cur.length).headD []
    rw [tokStrings_head _ _ o hti.hargc1 ho]
  have hfl := findLoop_mkTable ((lineTokens cur).headD []) snt ht.sentinel (tableCap - named.length - 1) named ht.names
  have hshape : tab = named.map some ++ some snt :: List.replicate (tableCap - named.length - 1) none := ht.shape
  have hfc : findCommand tab (doTokenize s) = { doTokenize s with cmd := some (findSpec ((lineTokens cur).headD []) snt named), ran := (doTokenize s).ran ++ [(some (findSpec ((lineTokens cur).headD []) snt named), argStrings (doTokenize s))] } := by
    unfold findCommand
    have e0 : (doTokenize s).argv.getD 0 none = some o := by rw [hdt]; exact hp0
    have e1 : cstr (doTokenize s).mem o = (lineTokens cur).headD [] := by rw [hdt]; exact hhead
    simp only [e0, e1, hshape, hfl]
  rw [hfc]
  refine ⟨?_, ?_⟩
  · show (doTokenize s).lines = _
    rw [hdt]; show s.lines ++ [s.mem.take cur.length] = _; rw [h2]
  · show (doTokenize s).ran ++ _ = _
    rw [hstr]
    have : (doTokenize s).ran = s.ran := by rw [hdt]
    rw [this]
    unfold dispatchSpec
    rw [hshape, hfl]

/-! ### lockstep of the two ghost logs -/

/-- from `s` to `s'` the console completed the lines `new` and started exactly their commands -/
def LS (tab : Table) (s s' : St) : Prop :=
  ∃ new, s'.lines = s.lines ++ new ∧ s'.ran = s.ran ++ new.map (dispatchSpec tab)

theorem LS.refl' (tab : Table) (s s' : St) (h1 : s'.lines = s.lines) (h2 : s'.ran = s.ran) : LS tab s s' :=
  ⟨[], by simp [h1], by simp [h2]⟩

theorem LS.trans {tab : Table} {a b c : St} (h1 : LS tab a b) (h2 : LS tab b c) : LS tab a c := by
  obtain ⟨n1, l1, r1⟩ := h1
  obtain ⟨n2, l2, r2⟩ := h2
  exact ⟨n1 ++ n2, by rw [l2, l1]; simp, by rw [r2, r1]; simp⟩

theorem runBody_ran (tab : Table) (s : St) (b : Body) : (runBody tab s b).1.ran = s.ran := by
  cases b with
  | echo => rfl
  | unknown =>
    rw [runBody]
    cases s.argv.getD 0 none with
    | none => rfl
    | some o => simp only []; split <;> rfl
  | help =>
    rw [runBody]
    split
    · rfl
    · split
      · split
        · rfl
        · cases tab.getD 0 none with
          | none => rfl
          | some c0 => simp only []; cases c0.name <;> rfl
      · split
        · cases tab.getD (s.hidx + 1) none with
          | none => rfl
          | some c1 => simp only []; cases c1.name <;> rfl
        · rfl
  | script id k fails dirty =>
    rw [runBody]
    split
    · split <;> rfl
    · split <;> rfl

theorem runCmd_ran (tab : Table) (s : St) : (runCmd tab s).1.ran = s.ran := by
  unfold runCmd
  cases s.cmd with
  | none => rfl
  | some c => exact runBody_ran tab s c.body

theorem editChar_ran (s : St) (ch : Byte) : (editChar s ch).ran = s.ran ∧ (editChar s ch).lines = s.lines := by
  unfold editChar St.poke
  split
  · split
    · split <;> exact ⟨rfl, rfl⟩
    · exact ⟨rfl, rfl⟩
  · split
    · exact ⟨rfl, rfl⟩
    · split
      · split <;> exact ⟨rfl, rfl⟩
      · exact ⟨rfl, rfl⟩

theorem finishCmd_ran (s : St) (r : PtState) : (finishCmd s r).ran = s.ran := by
  unfold finishCmd
  split <;> rfl

/-- the loop of `console_run`: every line it completes starts its command -/
theorem loopW_ls (n : Nat) (tab : Table) (named : List Cmd) (snt : Cmd)
    (ht : TableOk tab named snt) (hn : n = named.length) : ∀ (ring : List Byte) (s : St),
    Abs { s with fpt := 1, ring := ring } → Inv n { s with fpt := 1, ring := ring } → LS tab s (loopW tab ring s).1
  | [], s, _, _ => LS.refl' tab _ _ rfl rfl
  | ch :: rest, s, h, hi => by
    have hat : AtPrompt s (L s).cur := by
      have := h.idle (by show (1 : Nat) ≠ 2; decide)
      exact ⟨this.memlen, this.bufp, this.short, this.mem, this.nonul⟩
    have hlines : s.lines = (L s).done := h.lines
    have hrest : ∀ b ∈ rest, b ≠ 0 := fun b hb => h.ringnz b (List.mem_cons_of_mem _ hb)
    have hch : ch ≠ 0 := h.ringnz ch (List.mem_cons_self ..)
    have hat1 : AtPrompt { s with ring := rest, fpt := 1, eaten := s.eaten ++ [ch] } (L s).cur :=
      ⟨hat.memlen, hat.bufp, hat.short, hat.mem, hat.nonul⟩
    have hrestlen : rest.length < ringLen := by
      have := hi.ring
      simp only [List.length_cons] at this
      omega
    have hi1 : Inv n { s with ring := rest, fpt := 1, eaten := s.eaten ++ [ch] } := { hi with ring := hrestlen }
    rw [loopW]
    by_cases hc : ch = 10 ∨ s.bufp ≥ 79
    · rw [if_pos hc]
      have hcomp : completes (L s).cur ch := by
        unfold completes Librfn.Spec.Console.NL
        rw [← hat.bufp]; exact hc
      have hfeed : feed (L s) ch = ⟨(L s).done ++ [(L s).cur], []⟩ := by unfold feed; rw [if_pos hcomp]
      obtain ⟨sp1, sp2⟩ := spawn_ran tab named snt _ _ ht hat1 hi1.argvlen
      obtain ⟨t1, t2, t3⟩ := doTokenize_frame _ _ hat1
      obtain ⟨f1, f2, f3⟩ := findCommand_frame tab (doTokenize { s with ring := rest, fpt := 1, eaten := s.eaten ++ [ch] })
      obtain ⟨hs1, _⟩ := tokenize_find_inv n tab named snt _ ht hi1 (by show (1 : Nat) ≠ 2; decide)
      generalize hs1def : ({ findCommand tab (doTokenize { s with ring := rest, fpt := 1, eaten := s.eaten ++ [ch] }) with pt := 0, fpt := 2 } : St) = s1 at hs1
      have e_lines : s1.lines = s.lines ++ [(L s).cur] := by rw [← hs1def]; exact sp1
      have e_ran : s1.ran = s.ran ++ [dispatchSpec tab (L s).cur] := by rw [← hs1def]; exact sp2
      have e_eaten : s1.eaten = s.eaten ++ [ch] := by rw [← hs1def]; show (findCommand tab _).eaten = _; rw [f2, t2]
      have e_ring : s1.ring = rest := by rw [← hs1def]; show (findCommand tab _).ring = _; rw [f3, t3]
      have e_fpt : s1.fpt = 2 := by rw [← hs1def]
      obtain ⟨r1, r2, r3, r4⟩ := runCmd_frame tab s1
      have r5 := runCmd_ran tab s1
      obtain ⟨hcore, _, _, _⟩ := runCmd_inv n tab named snt s1 ht hn hs1 e_fpt
      have hspawn : LS tab s (runCmd tab s1).1 := ⟨[(L s).cur], by rw [r1, e_lines], by rw [r5, e_ran]; rfl⟩
      simp only []
      by_cases hy : (runCmd tab s1).2 = .yielded ∨ (runCmd tab s1).2 = .waiting
      · rw [if_pos hy]; exact hspawn
      · rw [if_neg hy]
        obtain ⟨p1, p2, p3⟩ := finishCmd_frame (runCmd tab s1).1 (runCmd tab s1).2
        have p4 := finishCmd_ran (runCmd tab s1).1 (runCmd tab s1).2
        have he : (finishCmd (runCmd tab s1).1 (runCmd tab s1).2).eaten = s.eaten ++ [ch] := by rw [p3, r2, e_eaten]
        have hL : L (finishCmd (runCmd tab s1).1 (runCmd tab s1).2) = ⟨(L s).done ++ [(L s).cur], []⟩ := by
          show feedAll ⟨[], []⟩ _ = _
          rw [L_snoc s ch _ he, hfeed]
        have habs := abs_wait _ rest _ hL (by rw [p2, r1, e_lines, hlines]) p1 hrest
        have hinv := finishCmd_inv n (runCmd tab s1).1 (runCmd tab s1).2 rest hcore hrestlen
        have ih := loopW_ls n tab named snt ht hn rest _ habs hinv
        exact hspawn.trans ((LS.refl' tab _ _ p2 p4).trans ih)
    · rw [if_neg hc]
      have hlt : (L s).cur.length < 79 := by rw [← hat.bufp]; omega
      have hncomp : ¬ completes (L s).cur ch := by
        unfold completes Librfn.Spec.Console.NL
        rw [← hat.bufp]; exact hc
      have hfeed : feed (L s) ch = ⟨(L s).done, editStep (L s).cur ch⟩ := by unfold feed; rw [if_neg hncomp]
      obtain ⟨e1, e2, e3, e4, e5⟩ := editChar_sim _ _ ch hat1 hlt (fun e => hc (Or.inl e)) hch
      obtain ⟨g1, _⟩ := editChar_ran { s with ring := rest, fpt := 1, eaten := s.eaten ++ [ch] } ch
      obtain ⟨he, hef, her⟩ := editChar_inv n _ ch hi1 rfl (by show s.bufp < 79; omega)
      have hLx : L (editChar { s with ring := rest, fpt := 1, eaten := s.eaten ++ [ch] } ch) = ⟨(L s).done, editStep (L s).cur ch⟩ := by
        show feedAll ⟨[], []⟩ _ = _
        rw [L_snoc s ch _ e3, hfeed]
      have habs := abs_wait _ rest _ hLx (by rw [e2]; exact hlines) e1 hrest
      have hinv : Inv n { editChar { s with ring := rest, fpt := 1, eaten := s.eaten ++ [ch] } ch with fpt := 1, ring := rest } := by
        rw [st_eta _ rest hef her]; exact he
      have ih := loopW_ls n tab named snt ht hn rest _ habs hinv
      exact (LS.refl' tab s _ e2 g1).trans ih

theorem consoleRun_ls (n : Nat) (tab : Table) (named : List Cmd) (snt : Cmd) (s : St)
    (ht : TableOk tab named snt) (hn : n = named.length) (h : Abs s) (hi : Inv n s) : LS tab s (consoleRun tab s).1 := by
  unfold consoleRun
  by_cases f0 : s.fpt = 0
  · rw [if_pos f0]
    have he := h.boot f0
    have hL : L s = ⟨[], []⟩ := by unfold L; rw [he]; rfl
    by_cases ha : s.argc = 0
    · rw [if_pos ha]
      have habs : Abs { doPrompt s with fpt := 1, ring := s.ring } := by
        refine abs_wait _ _ ⟨[], []⟩ ?_ ?_ (atPrompt_doPrompt s) h.ringnz
        · show feedAll ⟨[], []⟩ s.eaten = _; rw [he]; rfl
        · show s.lines = []; rw [h.lines, hL]
      exact (LS.refl' tab s (doPrompt s) rfl rfl).trans
        (loopW_ls n tab named snt ht hn s.ring (doPrompt s) habs (core_prompt n s s.ring hi.core hi.ring))
    · rw [if_neg ha]
      have hat := h.idle (by rw [f0]; decide)
      rw [hL] at hat
      have habs : Abs { ({ s with bufp := 0 } : St) with fpt := 1, ring := s.ring } := by
        refine abs_wait _ _ ⟨[], []⟩ hL ?_ ⟨hat.memlen, rfl, hat.short, hat.mem, hat.nonul⟩ h.ringnz
        show s.lines = []; rw [h.lines, hL]
      exact (LS.refl' tab s { s with bufp := 0 } rfl rfl).trans
        (loopW_ls n tab named snt ht hn s.ring { s with bufp := 0 } habs (inv_boot_silent n s hi f0))
  · rw [if_neg f0]
    by_cases f1 : s.fpt = 1
    · rw [if_pos f1]
      exact loopW_ls n tab named snt ht hn s.ring s
        (abs_wait s s.ring (L s) rfl h.lines (h.idle (by rw [f1]; decide)) h.ringnz)
        (by rw [st_eta s s.ring f1 rfl]; exact hi)
    · rw [if_neg f1]
      by_cases f2 : s.fpt = 2
      · rw [if_pos f2]
        obtain ⟨r1, r2, r3, r4⟩ := runCmd_frame tab s
        have r5 := runCmd_ran tab s
        obtain ⟨hcore, _, _, _⟩ := runCmd_inv n tab named snt s ht hn hi f2
        simp only []
        by_cases hy : (runCmd tab s).2 = .yielded ∨ (runCmd tab s).2 = .waiting
        · rw [if_pos hy]; exact LS.refl' tab _ _ r1 r5
        · rw [if_neg hy]
          obtain ⟨p1, p2, p3⟩ := finishCmd_frame (runCmd tab s).1 (runCmd tab s).2
          have p4 := finishCmd_ran (runCmd tab s).1 (runCmd tab s).2
          have hcur := h.busy f2
          have hLf : L (finishCmd (runCmd tab s).1 (runCmd tab s).2) = ⟨(L s).done, []⟩ := by
            unfold L; rw [p3, r2]
            show L s = _
            exact (by rw [hcur] : (⟨(L s).done, (L s).cur⟩ : Lines) = ⟨(L s).done, []⟩)
          have habs := abs_wait _ (runCmd tab s).1.ring _ hLf (by rw [p2, r1]; exact h.lines) p1 (by rw [r3]; exact h.ringnz)
          have hinv := finishCmd_inv n (runCmd tab s).1 (runCmd tab s).2 _ hcore hcore.ring
          exact (LS.refl' tab s _ (by rw [p2, r1]) (by rw [p4, r5])).trans
            (loopW_ls n tab named snt ht hn _ _ habs hinv)
      · rw [if_neg f2]; exact LS.refl' tab _ _ rfl rfl

/-! ### the delivery loops -/

theorem runWhileYielded_ls (n : Nat) (tab : Table) (named : List Cmd) (snt : Cmd)
    (ht : TableOk tab named snt) (hn : n = named.length) : ∀ (fuel : Nat) (s : St), Abs s → Inv n s →
    LS tab s (runWhileYielded tab fuel s)
  | 0, s, _, _ => by rw [runWhileYielded]; exact LS.refl' tab _ _ rfl rfl
  | fuel + 1, s, h, hi => by
    have h1 := consoleRun_ls n tab named snt s ht hn h hi
    rw [runWhileYielded]
    split
    · exact h1.trans (runWhileYielded_ls n tab named snt ht hn fuel _ (consoleRun_abs tab s h) (consoleRun_inv n tab named snt s ht hn hi))
    · exact h1

theorem process_ls (n : Nat) (tab : Table) (named : List Cmd) (snt : Cmd) (s : St) (d : Byte)
    (ht : TableOk tab named snt) (hn : n = named.length) (h : Abs s) (hi : Inv n s) (hd : d ≠ 0) :
    LS tab s (process tab s d) := by
  unfold process
  exact (LS.refl' tab s { s with ring := (ringPut s.ring d).1 } rfl rfl).trans
    (runWhileYielded_ls n tab named snt ht hn _ _ (abs_frame s _ h rfl rfl rfl rfl rfl (ringPut_nz _ _ h.ringnz hd))
      (inv_ring n s _ hi (ringPut_length _ _ hi.ring)))

theorem processes_ls (n : Nat) (tab : Table) (named : List Cmd) (snt : Cmd)
    (ht : TableOk tab named snt) (hn : n = named.length) : ∀ (cs : List Byte) (s : St), Abs s → Inv n s →
    (∀ b ∈ cs, b ≠ 0) → LS tab s (cs.foldl (process tab) s)
  | [], s, _, _, _ => LS.refl' tab _ _ rfl rfl
  | c :: cs, s, h, hi, hnz => by
    have hc := hnz c (List.mem_cons_self ..)
    simp only [List.foldl_cons]
    exact (process_ls n tab named snt s c ht hn h hi hc).trans
      (processes_ls n tab named snt ht hn cs _ (process_abs tab s c h hc) (process_inv n tab named snt s c ht hn hi)
        (fun b hb => hnz b (List.mem_cons_of_mem _ hb)))

theorem schedLoop_ls (n : Nat) (tab : Table) (named : List Cmd) (snt : Cmd)
    (ht : TableOk tab named snt) (hn : n = named.length) : ∀ (fuel : Nat) (s : St), Abs s → Inv n s →
    LS tab s (schedLoop tab fuel s)
  | 0, s, _, _ => by
    rw [schedLoop]
    split
    · exact LS.refl' tab _ _ rfl rfl
    · exact LS.refl' tab _ _ rfl rfl
  | fuel + 1, s, h, hi => by
    rw [schedLoop]
    split
    · have ha1 : Abs { s with runnable := false } := abs_frame s _ h rfl rfl rfl rfl rfl h.ringnz
      have hi1 : Inv n { s with runnable := false } := { hi with }
      have h1 := consoleRun_ls n tab named snt _ ht hn ha1 hi1
      have ha2 := consoleRun_abs tab _ ha1
      have hi2 := consoleRun_inv n tab named snt _ ht hn hi1
      refine (LS.refl' tab s { s with runnable := false } rfl rfl).trans (h1.trans ?_)
      dsimp only
      split
      · exact (LS.refl' tab _ { (consoleRun tab { s with runnable := false }).1 with runnable := true } rfl rfl).trans
          (schedLoop_ls n tab named snt ht hn fuel _ (abs_frame _ _ ha2 rfl rfl rfl rfl rfl ha2.ringnz) { hi2 with })
      · exact schedLoop_ls n tab named snt ht hn fuel _ ha2 hi2
    · exact LS.refl' tab _ _ rfl rfl

theorem putchars_frame : ∀ (cs : List Byte) (s : St), (cs.foldl putchar s).lines = s.lines ∧ (cs.foldl putchar s).ran = s.ran
  | [], _ => ⟨rfl, rfl⟩
  | c :: cs, s => by
    simp only [List.foldl_cons]
    obtain ⟨a, b⟩ := putchars_frame cs (putchar s c)
    exact ⟨a, b⟩

theorem putchars_abs : ∀ (cs : List Byte) (s : St), Abs s → (∀ b ∈ cs, b ≠ 0) → Abs (cs.foldl putchar s)
  | [], _, h, _ => h
  | c :: cs, s, h, hnz => by
    simp only [List.foldl_cons]
    exact putchars_abs cs _ (putchar_abs s c h (hnz c (List.mem_cons_self ..))) (fun b hb => hnz b (List.mem_cons_of_mem _ hb))

theorem putchars_inv (n : Nat) : ∀ (cs : List Byte) (s : St), Inv n s → Inv n (cs.foldl putchar s)
  | [], _, h => h
  | c :: cs, s, h => by
    simp only [List.foldl_cons]
    exact putchars_inv n cs _ (putchar_inv n s c h)

theorem evalLoop_frame2 (str : List Byte) : ∀ (fuel : Nat) (s : St),
    (evalLoop str fuel s).1.lines = s.lines ∧ (evalLoop str fuel s).1.ran = s.ran
  | 0, _ => ⟨rfl, rfl⟩
  | fuel + 1, s => by
    rw [evalLoop]
    split
    · exact ⟨rfl, rfl⟩
    · split
      · exact ⟨rfl, rfl⟩
      · split
        · exact evalLoop_frame2 str fuel _
        · exact ⟨rfl, rfl⟩

theorem evalResume_ls (tab : Table) (str : List Byte) (pt : Nat) (s : St) : LS tab s (evalResume str pt s).1 := by
  unfold evalResume
  obtain ⟨a, b⟩ := evalLoop_frame2 str (str.length + 1) (if pt = 0 then { s with evali := 0 } else s)
  have e1 : (if pt = 0 then { s with evali := 0 } else s).lines = s.lines := by split <;> rfl
  have e2 : (if pt = 0 then { s with evali := 0 } else s).ran = s.ran := by split <;> rfl
  exact LS.refl' tab _ _ (by show (evalLoop _ _ _).1.lines = _; rw [a, e1]) (by show (evalLoop _ _ _).1.ran = _; rw [b, e2])

theorem evalDrive_ls (n : Nat) (tab : Table) (named : List Cmd) (snt : Cmd) (str : List Byte)
    (ht : TableOk tab named snt) (hn : n = named.length) :
    ∀ (fuel pt k : Nat) (s : St), Abs s → Inv n s → LS tab s (evalDrive tab str fuel pt k s).1
  | 0, _, _, s, _, _ => LS.refl' tab _ _ rfl rfl
  | fuel + 1, pt, k, s, h, hi => by
    rw [evalDrive]
    have ha1 := evalResume_abs str pt s h
    have hi1 := evalResume_inv n str pt s hi
    have h1 : LS tab s (sched tab (evalResume str pt s).1) :=
      (evalResume_ls tab str pt s).trans (schedLoop_ls n tab named snt ht hn _ _ ha1 hi1)
    split
    · exact h1
    · exact h1.trans (evalDrive_ls n tab named snt str ht hn fuel _ _ _ (schedLoop_abs tab _ _ ha1) (sched_inv n tab named snt _ ht hn hi1))

/-! ### the specification side: completed lines accumulate -/

theorem feedAll_cons (l : Lines) (x : Byte) (xs : List Byte) : feedAll l (x :: xs) = feedAll (feed l x) xs := rfl

theorem feedAll_done : ∀ (xs : List Byte) (d : List (List Byte)) (c : List Byte),
    (feedAll ⟨d, c⟩ xs).done = d ++ (feedAll ⟨[], c⟩ xs).done ∧ (feedAll ⟨d, c⟩ xs).cur = (feedAll ⟨[], c⟩ xs).cur
  | [], d, c => ⟨by simp [feedAll], rfl⟩
  | x :: xs, d, c => by
    simp only [feedAll_cons]
    by_cases hc : completes c x
    · have e1 : feed ⟨d, c⟩ x = ⟨d ++ [c], []⟩ := by unfold feed; rw [if_pos (show completes (⟨d, c⟩ : Lines).cur x from hc)]
      have e2 : feed ⟨[], c⟩ x = ⟨[] ++ [c], []⟩ := by unfold feed; rw [if_pos (show completes (⟨[], c⟩ : Lines).cur x from hc)]
      rw [e1, e2]
      obtain ⟨a1, a2⟩ := feedAll_done xs (d ++ [c]) []
      obtain ⟨b1, b2⟩ := feedAll_done xs ([] ++ [c]) []
      exact ⟨by rw [a1, b1]; simp, by rw [a2, b2]⟩
    · have e1 : feed ⟨d, c⟩ x = ⟨d, editStep c x⟩ := by unfold feed; rw [if_neg (show ¬ completes (⟨d, c⟩ : Lines).cur x from hc)]
      have e2 : feed ⟨[], c⟩ x = ⟨[], editStep c x⟩ := by unfold feed; rw [if_neg (show ¬ completes (⟨[], c⟩ : Lines).cur x from hc)]
      rw [e1, e2]
      exact feedAll_done xs d (editStep c x)

/-- **the composition**: if from `s` to `s'` the two logs moved in lockstep, both states refine the
    edit-stack specification, and `s'` has consumed `input` more than `s`, then the commands started in
    between are exactly `dispatchSpec` of the lines the specification completes on `input` -/
theorem ran_of_ls (tab : Table) (s s' : St) (input : List Byte) (hls : LS tab s s') (h : Abs s) (h' : Abs s')
    (he : s'.eaten = s.eaten ++ input) :
    s'.ran = s.ran ++ ((feedAll ⟨[], (L s).cur⟩ input).done.map (dispatchSpec tab)) ∧
    s'.lines = s.lines ++ (feedAll ⟨[], (L s).cur⟩ input).done := by
  obtain ⟨new, l1, r1⟩ := hls
  have hL : L s' = feedAll (L s) input := by
    unfold L feedAll; rw [he, List.foldl_append]
  have hd := (feedAll_done input (L s).done (L s).cur).1
  have : s'.lines = s.lines ++ (feedAll ⟨[], (L s).cur⟩ input).done := by
    rw [h'.lines, hL, h.lines]
    exact hd
  have hnew : new = (feedAll ⟨[], (L s).cur⟩ input).done := by
    rw [l1] at this
    exact List.append_cancel_left this
  exact ⟨by rw [r1, hnew], this⟩

end Librfn.Lemmas.ConsoleE2E

import Librfn.Spec.PT
import Librfn.Lemmas.PTMono
/-! The split lemma behind `invocations_concat`: a run with budget `n+1` = a real invocation (budget 0)
followed, if it blocked, by a real re-entry at the stored label with budget `n`. -/
namespace Librfn.Model.PT
open Stmt Librfn.Spec.PT

theorem prepend_prepend (a b : List Ev) (r : Out) : (r.prepend b).prepend a = r.prepend (a ++ b) := by
  cases r <;> simp [Out.prepend, List.append_assoc]
theorem prepend_nil (r : Out) : r.prepend [] = r := by cases r <;> simp [Out.prepend]

/-- `r` (budget `n+1`) is what `r0` (budget 0) resumes to -/
def Resumes (fuel : Nat) (s : Stmt) (n : Nat) (r0 r : Out) : Prop :=
  match r0 with
  | .normal st res n0 tr => n0 = 0 ∧ r = .normal st res (n + 1) tr
  | .ret c st n0 tr =>
      if c.blocking then
        st.me.pt ∈ labels s ∧ ∃ r', exec fuel s (some st.me.pt) .yielded n st.bump = some r' ∧ r = r'.prepend (tr ++ [.ret c])
      else n0 = 0 ∧ r = .ret c st (n + 1) tr
  | .abort tr => r = .abort tr

def Entry (s : Stmt) (e : Option Label) (st : St) : Prop := ∀ l, e = some l → l ∈ labels s ∧ st.me.pt = l

def SplitAt (fuel : Nat) (s : Stmt) : Prop :=
  WF s → ∀ e res n st r, Entry s e st → exec fuel s e res (n + 1) st = some r →
    ∃ r0, exec fuel s e res 0 st = some r0 ∧ Resumes fuel s n r0 r

theorem Resumes.prepend {fuel s n r0 r} (t : List Ev) (h : Resumes fuel s n r0 r) :
    Resumes fuel s n (r0.prepend t) (r.prepend t) := by
  cases r0 with
  | normal st res n0 tr => obtain ⟨h1, h2⟩ := h; subst h2; exact ⟨h1, rfl⟩
  | abort tr => simp only [Resumes] at h; subst h; simp [Resumes, Out.prepend]
  | ret c st n0 tr =>
    show Resumes fuel s n (.ret c st n0 (t ++ tr)) _
    simp only [Resumes] at h ⊢
    by_cases hb : c.blocking = true
    · rw [if_pos hb] at h ⊢
      obtain ⟨h1, r', h2, h3⟩ := h
      refine ⟨h1, r', h2, ?_⟩
      subst h3; rw [prepend_prepend, List.append_assoc]
    · rw [if_neg hb] at h ⊢
      obtain ⟨h1, h2⟩ := h; subst h2; exact ⟨h1, rfl⟩

/-- transfer from a sub-statement whose `case` labels are entered through `s` unchanged -/
theorem Resumes.lift {fsub fuel sub s n r0 r}
    (hsub : ∀ l, l ∈ labels sub → l ∈ labels s ∧ ∀ res n st r', exec fsub sub (some l) res n st = some r' →
      exec fuel s (some l) res n st = some r')
    (h : Resumes fsub sub n r0 r) : Resumes fuel s n r0 r := by
  cases r0 with
  | normal st res n0 tr => exact h
  | abort tr => exact h
  | ret c st n0 tr =>
    simp only [Resumes] at h ⊢
    by_cases hb : c.blocking = true
    · rw [if_pos hb] at h ⊢
      obtain ⟨h1, r', h2, h3⟩ := h
      exact ⟨(hsub _ h1).1, r', (hsub _ h1).2 _ _ _ _ h2, h3⟩
    · rw [if_neg hb] at h ⊢; exact h

theorem Resumes.not_normal {fuel s n r0 r} (h : Resumes fuel s n r0 r) (hr : ∀ st r1 n1 t, r ≠ .normal st r1 n1 t) :
    ∀ st r1 n1 t, r0 ≠ .normal st r1 n1 t := by
  intro st r1 n1 t h0; subst h0; exact hr _ _ _ _ h.2

/-- sub-statement followed by a continuation `k` (rest of a sequence, next loop iterations) -/
theorem split_andThen {fsub fuel sub s n} {k : St → Code → Nat → Option Out}
    (hsub : ∀ l, l ∈ labels sub → l ∈ labels s ∧ ∀ res n st r', Out.andThen (exec fsub sub (some l) res n st) k = some r' →
      exec fuel s (some l) res n st = some r')
    (hk : ∀ st1 r1 r', k st1 r1 (n + 1) = some r' → ∃ rb0, k st1 r1 0 = some rb0 ∧ Resumes fuel s n rb0 r')
    {ra0 ra r : Out} (hR : Resumes fsub sub n ra0 ra) (h : Out.andThen (some ra) k = some r) :
    ∃ r0, Out.andThen (some ra0) k = some r0 ∧ Resumes fuel s n r0 r := by
  rcases andThen_eq_some.1 h with ⟨st1, r1, n1, t, r', h0, h1, h2⟩ | ⟨h0, h1⟩
  · -- the sub-statement completed (budget n+1)
    cases h0
    cases ra0 with
    | abort tr => simp only [Resumes] at hR; cases hR
    | normal st0 res0 n0 tr =>
      obtain ⟨hn0, hra⟩ := hR; cases hra; subst hn0
      obtain ⟨rb0, hb0, hRb⟩ := hk _ _ _ h1
      exact ⟨rb0.prepend t, by simp [Out.andThen, hb0], h2 ▸ hRb.prepend t⟩
    | ret c st0 n0 tr =>
      simp only [Resumes] at hR
      by_cases hb : c.blocking = true
      · rw [if_pos hb] at hR
        obtain ⟨hpt, ra', hra', hra⟩ := hR
        refine ⟨.ret c st0 n0 tr, rfl, ?_⟩
        simp only [Resumes]; rw [if_pos hb]
        refine ⟨(hsub _ hpt).1, ?_⟩
        cases ra' with
        | ret => simp [Out.prepend] at hra
        | abort => simp [Out.prepend] at hra
        | normal st2 r2 n2 t2 =>
          simp only [Out.prepend, Out.normal.injEq] at hra
          obtain ⟨rfl, rfl, rfl, rfl⟩ := hra
          refine ⟨r'.prepend t2, (hsub _ hpt).2 _ _ _ _ ?_, ?_⟩
          · rw [hra']; simp [Out.andThen, h1]
          · rw [h2, prepend_prepend]
      · rw [if_neg hb] at hR; cases hR.2
  · -- the sub-statement returned / aborted
    cases h0
    have hnn := hR.not_normal h1
    refine ⟨ra0, ?_, ?_⟩
    · exact andThen_eq_some.2 (Or.inr ⟨rfl, hnn⟩)
    · cases ra0 with
      | normal st0 res0 n0 tr => exact absurd rfl (hnn _ _ _ _)
      | abort tr => exact hR
      | ret c st0 n0 tr =>
        simp only [Resumes] at hR ⊢
        by_cases hb : c.blocking = true
        · rw [if_pos hb] at hR ⊢
          obtain ⟨hpt, ra', hra', hra⟩ := hR
          refine ⟨(hsub _ hpt).1, ra', (hsub _ hpt).2 _ _ _ _ ?_, hra⟩
          rw [hra']
          refine andThen_eq_some.2 (Or.inr ⟨rfl, ?_⟩)
          intro st r1 n1 t h0; subst h0; subst hra; exact h1 _ _ _ _ rfl
        · rw [if_neg hb] at hR ⊢; exact hR

end Librfn.Model.PT

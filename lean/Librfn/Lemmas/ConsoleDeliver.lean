import Librfn.Lemmas.ConsoleInv
import Librfn.Lemmas.ConsoleEdit
/-! Delivery: every character put into the ring is taken out exactly once, in order, and the bounded
loops of the model (`console_process`, the scheduler, the caller of `console_eval`) have enough fuel. -/
namespace Librfn.Lemmas.ConsoleDeliver
open Librfn.Model.Console Librfn.Gen.Layout
open Librfn.Lemmas.ConsoleTok Librfn.Lemmas.ConsoleTable Librfn.Lemmas.ConsoleInv

/-- `static bool locked` of `console_help` is set only while `help` is listing -/
def Lock (s : St) : Prop :=
  s.hlock = true → s.fpt = 2 ∧ s.pt = 3 ∧ ∃ c, s.cmd = some c ∧ c.body = .help

/-- the yields still to come from the running command; `n` = number of named commands -/
def rem (n : Nat) (s : St) : Nat :=
  match s.cmd with
  | none => 0
  | some c =>
    match c.body with
    | .echo => 0
    | .unknown => 0
    | .script _ k _ _ => k - s.pt
    | .help => if s.pt = 0 then n + 1 else if s.pt = 1 ∨ s.pt = 2 then n else n - 1 - s.hidx

/-- the yields a command found in the table can make from its start -/
def remBound (tab : Table) (n : Nat) : Nat := maxYields tab + n + 1

theorem maxYields_mem : ∀ (tab : Table) (c : Cmd) (id k : Nat) (f d : Bool), some c ∈ tab →
    c.body = .script id k f d → k ≤ maxYields tab
  | [], _, _, _, _, _, h, _ => by cases h
  | none :: rest, c, id, k, f, d, h, hb => by
    rcases List.mem_cons.mp h with h | h
    · cases h
    · simp only [maxYields]; exact maxYields_mem rest c id k f d h hb
  | some c' :: rest, c, id, k, f, d, h, hb => by
    simp only [maxYields]
    rcases List.mem_cons.mp h with h | h
    · injection h with h; subst h; rw [hb]; exact Nat.le_max_left _ _
    · exact Nat.le_trans (maxYields_mem rest c id k f d h hb) (Nat.le_max_right _ _)

theorem findLoop_mem (a : List Byte) : ∀ (tab : Table) (c : Cmd), findLoop a tab = some c → some c ∈ tab
  | [], _, h => by simp [findLoop] at h
  | none :: _, _, h => by simp [findLoop] at h
  | some c' :: rest, c, h => by
    unfold findLoop at h
    cases hn : c'.name with
    | none => simp only [hn] at h; injection h with h; subst h; exact List.mem_cons_self ..
    | some nm =>
      simp only [hn] at h
      by_cases e : a = nm
      · rw [if_pos e] at h; injection h with h; subst h; exact List.mem_cons_self ..
      · rw [if_neg e] at h; exact List.mem_cons_of_mem _ (findLoop_mem a rest c h)

theorem e_nw : PtState.exited ≠ .waiting := by decide
theorem y_nw : PtState.yielded ≠ .waiting := by decide
theorem e_ny {P : Prop} (e : PtState.exited = .yielded) : P := by cases e
theorem fe_nw (b : Bool) : (if b = true then PtState.failed else PtState.exited) ≠ .waiting := by cases b <;> decide
theorem fe_ny {P : Prop} (b : Bool) (e : (if b = true then PtState.failed else PtState.exited) = .yielded) : P := by
  cases b <;> cases e

/-- one invocation of the running command: it never waits, a yield uses up one of the remaining
    yields, and when it is over the help lock is free -/
theorem runBody_step (n : Nat) (tab : Table) (named : List Cmd) (snt : Cmd) (s : St) (c : Cmd)
    (ht : TableOk tab named snt) (hn : n = named.length) (h : Inv n s) (hf : s.fpt = 2) (hc : s.cmd = some c)
    (hlock : Lock s) (hfresh : s.pt = 0 → s.hlock = false) :
    (runBody tab s c.body).2 ≠ .waiting ∧ (runBody tab s c.body).1.cmd = s.cmd ∧
    ((runBody tab s c.body).2 = .yielded → rem n (runBody tab s c.body).1 + 1 = rem n s ∧ Lock (runBody tab s c.body).1) ∧
    ((runBody tab s c.body).2 ≠ .yielded → (runBody tab s c.body).1.hlock = false) := by
  have hshape := ht.shape
  subst hshape
  have hrem : ∀ s' : St, s'.cmd = some c → rem n s' = (match c.body with
      | .echo => 0 | .unknown => 0 | .script _ k _ _ => k - s'.pt
      | .help => if s'.pt = 0 then n + 1 else if s'.pt = 1 ∨ s'.pt = 2 then n else n - 1 - s'.hidx) := by
    intro s' hs'; unfold rem; rw [hs']
  have hnolock : c.body ≠ .help → s.hlock = false := by
    intro hne
    cases hl : s.hlock with
    | false => rfl
    | true =>
      obtain ⟨_, _, c', hc', hb'⟩ := hlock hl
      rw [hc] at hc'; injection hc' with hc'; subst hc'
      exact absurd hb' hne
  cases hb : c.body with
  | echo =>
    have hl := hnolock (by rw [hb]; intro e; cases e)
    exact ⟨e_nw, rfl, fun e => e_ny e, fun _ => hl⟩
  | unknown =>
    have hl := hnolock (by rw [hb]; intro e; cases e)
    rw [runBody]
    cases s.argv.getD 0 none with
    | none => exact ⟨e_nw, rfl, fun e => e_ny e, fun _ => hl⟩
    | some o =>
      simp only []
      split
      · exact ⟨e_nw, rfl, fun e => e_ny e, fun _ => hl⟩
      · exact ⟨e_nw, rfl, fun e => e_ny e, fun _ => hl⟩
  | script id k fails dirty =>
    have hl := hnolock (by rw [hb]; intro e; cases e)
    have hr := hrem s hc
    rw [hb] at hr
    simp only [] at hr
    have hlk : ∀ s' : St, s'.hlock = s.hlock → Lock s' := by
      intro s' e hl'; rw [e, hl] at hl'; cases hl'
    rw [runBody]
    by_cases p0 : s.pt = 0
    · rw [if_pos p0]
      by_cases pk : s.pt < k
      · rw [if_pos pk]
        refine ⟨y_nw, rfl, fun _ => ⟨?_, hlk _ rfl⟩, fun e => absurd rfl e⟩
        rw [hr]; unfold rem; simp only [hc, hb]; omega
      · rw [if_neg pk]
        exact ⟨fe_nw fails, rfl, fun e => fe_ny fails e, fun _ => hl⟩
    · rw [if_neg p0]
      by_cases pk : s.pt < k
      · rw [if_pos pk]
        refine ⟨y_nw, rfl, fun _ => ⟨?_, hlk _ rfl⟩, fun e => absurd rfl e⟩
        rw [hr]; unfold rem; simp only [hc, hb]; omega
      · rw [if_neg pk]
        exact ⟨fe_nw fails, rfl, fun e => fe_ny fails e, fun _ => hl⟩
  | help =>
    have hh := h.help hf c hc hb
    have hr := hrem s hc
    rw [hb] at hr
    simp only [] at hr
    rw [runBody]
    by_cases p0 : s.pt = 0
    · rw [if_pos p0]
      refine ⟨y_nw, rfl, fun _ => ⟨?_, ?_⟩, fun e => absurd rfl e⟩
      · rw [hr, if_pos p0]; unfold rem; simp [St.print, hc, hb]
      · intro hl
        have : s.hlock = true := hl
        rw [hfresh p0] at this; cases this
    · rw [if_neg p0]
      by_cases p12 : s.pt = 1 ∨ s.pt = 2
      · rw [if_pos p12]
        have hul : s.hlock = false := by
          cases hl : s.hlock with
          | false => rfl
          | true => obtain ⟨_, p3, _⟩ := hlock hl; omega
        rw [if_neg (by rw [hul]; decide)]
        rw [mkTable_getD]
        by_cases hn0 : 0 = named.length
        · rw [if_pos hn0]
          simp only [ht.sentinel]
          refine ⟨e_nw, ?_, fun e => e_ny e, ?_⟩
          · first | rfl | trivial
          · first | exact fun _ => rfl | exact fun _ => trivial
        · rw [if_neg hn0]
          have hlt : 0 < named.length := by omega
          rw [List.getElem?_eq_getElem hlt]
          have hnm := ht.names named[0] (List.getElem_mem hlt)
          cases hname : named[0].name with
          | none => exact absurd hname hnm
          | some nm =>
            simp only [hname]
            refine ⟨y_nw, rfl, fun _ => ⟨?_, ?_⟩, fun e => absurd rfl e⟩
            · rw [hr, if_neg p0, if_pos p12]; unfold rem; simp [St.printBytes, hc, hb]; omega
            · intro _; exact ⟨hf, rfl, c, hc, hb⟩
      · rw [if_neg p12]
        have p3 : s.pt = 3 := by omega
        rw [if_pos p3]
        have hlt := hh.2 p3
        rw [mkTable_getD]
        by_cases he : s.hidx + 1 = named.length
        · rw [if_pos he]
          simp only [ht.sentinel]
          refine ⟨e_nw, ?_, fun e => e_ny e, ?_⟩
          · first | rfl | trivial
          · first | exact fun _ => rfl | exact fun _ => trivial
        · rw [if_neg he]
          have hlt' : s.hidx + 1 < named.length := by omega
          rw [List.getElem?_eq_getElem hlt']
          have hnm := ht.names named[s.hidx + 1] (List.getElem_mem hlt')
          cases hname : named[s.hidx + 1].name with
          | none => exact absurd hname hnm
          | some nm =>
            simp only [hname]
            refine ⟨y_nw, rfl, fun _ => ⟨?_, ?_⟩, fun e => absurd rfl e⟩
            · rw [hr, if_neg p0, if_neg p12]; unfold rem; simp [St.printBytes, hc, hb, p0, p12]; omega
            · intro hl
              have hl' : s.hlock = true := hl
              obtain ⟨a1, a2, a3⟩ := hlock hl'
              exact ⟨a1, a2, a3⟩

/-! ### frames -/

theorem editChar_frame (s : St) (ch : Byte) :
    (editChar s ch).hlock = s.hlock ∧ (editChar s ch).eaten = s.eaten ∧ (editChar s ch).stuck = s.stuck ∧
    (editChar s ch).runnable = s.runnable ∧ (editChar s ch).evali = s.evali := by
  unfold editChar St.poke
  split
  · split
    · split <;> exact ⟨rfl, rfl, rfl, rfl, rfl⟩
    · exact ⟨rfl, rfl, rfl, rfl, rfl⟩
  · split
    · exact ⟨rfl, rfl, rfl, rfl, rfl⟩
    · split
      · split <;> exact ⟨rfl, rfl, rfl, rfl, rfl⟩
      · exact ⟨rfl, rfl, rfl, rfl, rfl⟩

theorem doTokenize_frame' (s : St) :
    (doTokenize s).hlock = s.hlock ∧ (doTokenize s).eaten = s.eaten ∧ (doTokenize s).stuck = s.stuck ∧
    (doTokenize s).runnable = s.runnable ∧ (doTokenize s).evali = s.evali := by
  unfold doTokenize
  cases strlen? s.mem <;> exact ⟨rfl, rfl, rfl, rfl, rfl⟩

theorem findCommand_frame' (tab : Table) (s : St) :
    (findCommand tab s).hlock = s.hlock ∧ (findCommand tab s).eaten = s.eaten ∧ (findCommand tab s).stuck = s.stuck ∧
    ((findCommand tab s).fault = false → ∃ c, (findCommand tab s).cmd = some c ∧ some c ∈ tab) ∧
    (findCommand tab s).runnable = s.runnable ∧ (findCommand tab s).evali = s.evali := by
  unfold findCommand
  cases s.argv.getD 0 none with
  | none => exact ⟨rfl, rfl, rfl, (fun h => by cases h), rfl, rfl⟩
  | some a0 =>
    simp only []
    cases hf : findLoop (cstr s.mem a0) tab with
    | none => exact ⟨rfl, rfl, rfl, (fun h => by cases h), rfl, rfl⟩
    | some c => exact ⟨rfl, rfl, rfl, fun _ => ⟨c, rfl, findLoop_mem _ tab c hf⟩, rfl, rfl⟩

theorem finishCmd_frame' (s : St) (r : PtState) :
    (finishCmd s r).hlock = s.hlock ∧ (finishCmd s r).eaten = s.eaten ∧ (finishCmd s r).stuck = s.stuck ∧
    (finishCmd s r).runnable = s.runnable ∧ (finishCmd s r).evali = s.evali := by
  unfold finishCmd
  split <;> exact ⟨rfl, rfl, rfl, rfl, rfl⟩

theorem runBody_stuck (tab : Table) (s : St) (b : Body) :
    (runBody tab s b).1.stuck = s.stuck ∧ (runBody tab s b).1.runnable = s.runnable ∧ (runBody tab s b).1.evali = s.evali := by
  cases b with
  | echo => exact ⟨rfl, rfl, rfl⟩
  | unknown =>
    rw [runBody]
    cases s.argv.getD 0 none with
    | none => exact ⟨rfl, rfl, rfl⟩
    | some o => simp only []; split <;> exact ⟨rfl, rfl, rfl⟩
  | help =>
    rw [runBody]
    split
    · exact ⟨rfl, rfl, rfl⟩
    · split
      · split
        · exact ⟨rfl, rfl, rfl⟩
        · cases tab.getD 0 none with
          | none => exact ⟨rfl, rfl, rfl⟩
          | some c0 => simp only []; cases c0.name <;> exact ⟨rfl, rfl, rfl⟩
      · split
        · cases tab.getD (s.hidx + 1) none with
          | none => exact ⟨rfl, rfl, rfl⟩
          | some c1 => simp only []; cases c1.name <;> exact ⟨rfl, rfl, rfl⟩
        · exact ⟨rfl, rfl, rfl⟩
  | script id k fails dirty =>
    rw [runBody]
    split
    · split <;> exact ⟨rfl, rfl, rfl⟩
    · split <;> exact ⟨rfl, rfl, rfl⟩

/-! ### the measure -/

def cost (M n : Nat) (s : St) : Nat := s.ring.length * (M + 1) + (if s.fpt = 2 then rem n s else 0)

/-- safety invariant + the help lock discipline -/
structure DInv (n : Nat) (s : St) : Prop where
  inv : Inv n s
  lock : Lock s

theorem rem_fresh (n : Nat) (tab : Table) (s : St) (c : Cmd) (hc : s.cmd = some c) (hm : some c ∈ tab) (hp : s.pt = 0) :
    rem n s ≤ remBound tab n := by
  unfold rem remBound
  simp only [hc]
  cases hb : c.body with
  | echo => exact Nat.zero_le _
  | unknown => exact Nat.zero_le _
  | script id k f d =>
    have := maxYields_mem tab c id k f d hm hb
    show k - s.pt ≤ _
    omega
  | help =>
    show (if s.pt = 0 then n + 1 else if s.pt = 1 ∨ s.pt = 2 then n else n - 1 - s.hidx) ≤ _
    rw [if_pos hp]; omega

/-- what one run of the `while (1)` loop of `console_run` does with the ring -/
structure LoopPost (M n : Nat) (ring : List Byte) (s : St) (r : St × PtState) : Prop where
  dinv : DInv n r.1
  notdone : r.2 = .yielded ∨ r.2 = .waiting
  yielded : r.2 = .yielded → cost M n r.1 < ring.length * (M + 1)
  waiting : r.2 = .waiting → r.1.ring = [] ∧ r.1.fpt = 1
  fifo : r.1.eaten ++ r.1.ring = s.eaten ++ ring
  stuck : r.1.stuck = s.stuck
  runnable : r.1.runnable = s.runnable
  evali : r.1.evali = s.evali

theorem loopW_deliver (n : Nat) (tab : Table) (named : List Cmd) (snt : Cmd)
    (ht : TableOk tab named snt) (hn : n = named.length) : ∀ (ring : List Byte) (s : St),
    Inv n { s with fpt := 1, ring := ring } → s.hlock = false →
    LoopPost (remBound tab n) n ring s (loopW tab ring s)
  | [], s, h, hl => by
    rw [loopW]
    exact { dinv := ⟨h, fun e => by rw [show ({ s with ring := [], fpt := 1 } : St).hlock = s.hlock from rfl, hl] at e; cases e⟩,
            notdone := Or.inr rfl, yielded := (fun e => by cases e), waiting := (fun _ => ⟨rfl, rfl⟩),
            fifo := (by simp), stuck := rfl, runnable := rfl, evali := rfl }
  | ch :: rest, s, h, hl => by
    have hrest : rest.length < ringLen := by
      have := h.ring
      simp only [List.length_cons] at this
      omega
    have h1 : Inv n { s with ring := rest, fpt := 1, eaten := s.eaten ++ [ch] } := { h with ring := hrest }
    rw [loopW]
    by_cases hc : ch = 10 ∨ s.bufp ≥ 79
    · rw [if_pos hc]
      obtain ⟨hs1, _⟩ := tokenize_find_inv n tab named snt _ ht h1 (by show (1 : Nat) ≠ 2; decide)
      obtain ⟨t1, t2, t3, t5, t6⟩ := doTokenize_frame' { s with ring := rest, fpt := 1, eaten := s.eaten ++ [ch] }
      obtain ⟨f1, f2, f3, f4, f5, f6⟩ := findCommand_frame' tab (doTokenize { s with ring := rest, fpt := 1, eaten := s.eaten ++ [ch] })
      obtain ⟨c, hcmd, hmem⟩ := f4 hs1.nofault
      generalize hs1def : ({ findCommand tab (doTokenize { s with ring := rest, fpt := 1, eaten := s.eaten ++ [ch] }) with pt := 0, fpt := 2 } : St) = s1 at hs1
      have e_hlock : s1.hlock = false := by rw [← hs1def]; show (findCommand tab _).hlock = false; rw [f1, t1]; exact hl
      have e_eaten : s1.eaten = s.eaten ++ [ch] := by rw [← hs1def]; show (findCommand tab _).eaten = _; rw [f2, t2]
      have e_stuck : s1.stuck = s.stuck := by rw [← hs1def]; show (findCommand tab _).stuck = _; rw [f3, t3]
      have e_cmd : s1.cmd = some c := by rw [← hs1def]; exact hcmd
      have e_run : s1.runnable = s.runnable := by rw [← hs1def]; show (findCommand tab _).runnable = _; rw [f5, t5]
      have e_evali : s1.evali = s.evali := by rw [← hs1def]; show (findCommand tab _).evali = _; rw [f6, t6]
      have e_fpt : s1.fpt = 2 := by rw [← hs1def]
      have e_pt : s1.pt = 0 := by rw [← hs1def]
      have e_ring : s1.ring = rest := by
        rw [← hs1def]
        obtain ⟨_, _, g3⟩ := Librfn.Lemmas.ConsoleEdit.findCommand_frame tab (doTokenize { s with ring := rest, fpt := 1, eaten := s.eaten ++ [ch] })
        show (findCommand tab _).ring = rest
        rw [g3]
        unfold doTokenize
        cases strlen? s.mem <;> rfl
      have hrc : runCmd tab s1 = runBody tab s1 c.body := by unfold runCmd; rw [e_cmd]
      obtain ⟨hcore, hf2, hring, hlive⟩ := runBody_inv n tab named snt s1 c ht hn hs1 e_fpt e_cmd
      obtain ⟨b1, b2, b3, b4⟩ := runBody_step n tab named snt s1 c ht hn hs1 e_fpt e_cmd
        (fun e => by rw [e_hlock] at e; cases e) (fun _ => e_hlock)
      obtain ⟨g1, g2, _, _⟩ := Librfn.Lemmas.ConsoleEdit.runBody_frame tab s1 c.body
      obtain ⟨gs, gr, ge⟩ := runBody_stuck tab s1 c.body
      simp only []
      rw [hrc]
      by_cases hy : (runBody tab s1 c.body).2 = .yielded ∨ (runBody tab s1 c.body).2 = .waiting
      · rw [if_pos hy]
        have hyy : (runBody tab s1 c.body).2 = .yielded := by
          rcases hy with hy | hy
          · exact hy
          · exact absurd hy b1
        obtain ⟨r1, r2⟩ := b3 hyy
        have hfresh := rem_fresh n tab s1 c e_cmd hmem e_pt
        refine { dinv := ⟨hlive hy, r2⟩, notdone := Or.inl hyy, yielded := ?_, waiting := (fun e => absurd e b1),
                 fifo := ?_, stuck := (by rw [gs, e_stuck]), runnable := (by rw [gr, e_run]), evali := (by rw [ge, e_evali]) }
        · intro _
          unfold cost
          rw [if_pos hf2, hring, e_ring]
          simp only [List.length_cons]
          have : (rest.length + 1) * (remBound tab n + 1) = rest.length * (remBound tab n + 1) + (remBound tab n + 1) := by
            rw [Nat.add_mul]; omega
          omega
        · rw [g2, hring, e_eaten, e_ring]; simp
      · rw [if_neg hy]
        have hny : (runBody tab s1 c.body).2 ≠ .yielded := fun e => hy (Or.inl e)
        obtain ⟨p1, p2, p3, p4, p5⟩ := finishCmd_frame' (runBody tab s1 c.body).1 (runBody tab s1 c.body).2
        have ih := loopW_deliver n tab named snt ht hn rest (finishCmd (runBody tab s1 c.body).1 (runBody tab s1 c.body).2)
          (finishCmd_inv n _ _ rest hcore hrest) (by rw [p1]; exact b4 hny)
        refine { dinv := ih.dinv, notdone := ih.notdone, yielded := ?_, waiting := ih.waiting, fifo := ?_, stuck := ?_,
                 runnable := (by rw [ih.runnable, p4, gr, e_run]), evali := (by rw [ih.evali, p5, ge, e_evali]) }
        · intro e
          have := ih.yielded e
          simp only [List.length_cons]
          have h2 : (rest.length + 1) * (remBound tab n + 1) = rest.length * (remBound tab n + 1) + (remBound tab n + 1) := by
            rw [Nat.add_mul]; omega
          omega
        · rw [ih.fifo, p2, g2, e_eaten]; simp
        · rw [ih.stuck, p3, gs, e_stuck]
    · rw [if_neg hc]
      obtain ⟨he, hef, her⟩ := editChar_inv n _ ch h1 rfl (by show s.bufp < 79; omega)
      obtain ⟨k1, k2, k3, k4, k5⟩ := editChar_frame { s with ring := rest, fpt := 1, eaten := s.eaten ++ [ch] } ch
      have ih := loopW_deliver n tab named snt ht hn rest (editChar { s with ring := rest, fpt := 1, eaten := s.eaten ++ [ch] } ch)
        (by rw [st_eta _ rest hef her]; exact he) (by rw [k1]; exact hl)
      refine { dinv := ih.dinv, notdone := ih.notdone, yielded := ?_, waiting := ih.waiting, fifo := ?_, stuck := ?_,
               runnable := (by rw [ih.runnable, k4]), evali := (by rw [ih.evali, k5]) }
      · intro e
        have := ih.yielded e
        simp only [List.length_cons]
        have h2 : (rest.length + 1) * (remBound tab n + 1) = rest.length * (remBound tab n + 1) + (remBound tab n + 1) := by
          rw [Nat.add_mul]; omega
        omega
      · rw [ih.fifo, k2]; simp
      · rw [ih.stuck, k3]

/-! ### console_run -/

theorem lock_idle (s : St) (hl : Lock s) (hf : s.fpt ≠ 2) : s.hlock = false := by
  cases h : s.hlock with
  | false => rfl
  | true => exact absurd (hl h).1 hf

/-- one call of `console_run`: the invariant is kept, a YIELDED return uses up measure, any other
    return leaves the console waiting with an empty ring, characters leave the ring in order -/
structure RunPost (M n : Nat) (s : St) (r : St × PtState) : Prop where
  dinv : DInv n r.1
  yielded : r.2 = .yielded → cost M n r.1 < cost M n s
  other : r.2 ≠ .yielded → r.1.ring = [] ∧ r.1.fpt = 1
  fifo : r.1.eaten ++ r.1.ring = s.eaten ++ s.ring
  stuck : r.1.stuck = s.stuck
  runnable : r.1.runnable = s.runnable
  evali : r.1.evali = s.evali

theorem runPost_of_loop (M n : Nat) (s s0 : St) (r : St × PtState) (h : LoopPost M n s.ring s0 r)
    (he : s0.eaten = s.eaten) (hs : s0.stuck = s.stuck) (hr : s0.runnable = s.runnable) (hv : s0.evali = s.evali)
    (hcost : s.ring.length * (M + 1) ≤ cost M n s) :
    RunPost M n s r :=
  { dinv := h.dinv, yielded := (fun e => Nat.lt_of_lt_of_le (h.yielded e) hcost),
    other := (fun e => h.waiting (by rcases h.notdone with x | x; exact absurd x e; exact x)),
    fifo := (by rw [h.fifo, he]), stuck := (by rw [h.stuck, hs]), runnable := (by rw [h.runnable, hr]), evali := (by rw [h.evali, hv]) }

theorem consoleRun_deliver (n : Nat) (tab : Table) (named : List Cmd) (snt : Cmd) (s : St)
    (ht : TableOk tab named snt) (hn : n = named.length) (h : DInv n s) :
    RunPost (remBound tab n) n s (consoleRun tab s) := by
  have hcost : s.ring.length * (remBound tab n + 1) ≤ cost (remBound tab n) n s := by unfold cost; omega
  unfold consoleRun
  by_cases f0 : s.fpt = 0
  · rw [if_pos f0]
    have hl := lock_idle s h.lock (by omega)
    by_cases ha : s.argc = 0
    · rw [if_pos ha]
      exact runPost_of_loop _ n s _ _
        (loopW_deliver n tab named snt ht hn s.ring (doPrompt s) (core_prompt n s s.ring h.inv.core h.inv.ring) hl) rfl rfl rfl rfl hcost
    · rw [if_neg ha]
      exact runPost_of_loop _ n s _ _ (loopW_deliver n tab named snt ht hn s.ring { s with bufp := 0 } (inv_boot_silent n s h.inv f0) hl) rfl rfl rfl rfl hcost
  · rw [if_neg f0]
    by_cases f1 : s.fpt = 1
    · rw [if_pos f1]
      have hl := lock_idle s h.lock (by omega)
      exact runPost_of_loop _ n s _ _
        (loopW_deliver n tab named snt ht hn s.ring s (by rw [st_eta s s.ring f1 rfl]; exact h.inv) hl) rfl rfl rfl rfl hcost
    · rw [if_neg f1]
      have f2 : s.fpt = 2 := by have := h.inv.fpt; omega
      rw [if_pos f2]
      obtain ⟨c, hc⟩ := h.inv.cmd f2
      have hrc : runCmd tab s = runBody tab s c.body := by unfold runCmd; rw [hc]
      obtain ⟨hcore, hf2, hring, hlive⟩ := runBody_inv n tab named snt s c ht hn h.inv f2 hc
      obtain ⟨b1, b2, b3, b4⟩ := runBody_step n tab named snt s c ht hn h.inv f2 hc h.lock (by
        intro p0
        cases hl : s.hlock with
        | false => rfl
        | true => have := (h.lock hl).2.1; omega)
      obtain ⟨_, g2, _, _⟩ := Librfn.Lemmas.ConsoleEdit.runBody_frame tab s c.body
      obtain ⟨gs, gr, ge⟩ := runBody_stuck tab s c.body
      simp only []
      rw [hrc]
      by_cases hy : (runBody tab s c.body).2 = .yielded ∨ (runBody tab s c.body).2 = .waiting
      · rw [if_pos hy]
        have hyy : (runBody tab s c.body).2 = .yielded := by
          rcases hy with hy | hy
          · exact hy
          · exact absurd hy b1
        obtain ⟨r1, r2⟩ := b3 hyy
        refine { dinv := ⟨hlive hy, r2⟩, yielded := ?_, other := (fun e => absurd hyy e), fifo := (by rw [g2, hring]), stuck := gs, runnable := gr, evali := ge }
        intro _
        unfold cost
        rw [if_pos hf2, if_pos f2, hring]
        omega
      · rw [if_neg hy]
        have hny : (runBody tab s c.body).2 ≠ .yielded := fun e => hy (Or.inl e)
        obtain ⟨p1, p2, p3, p4, p5⟩ := finishCmd_frame' (runBody tab s c.body).1 (runBody tab s c.body).2
        have ih := loopW_deliver n tab named snt ht hn (runBody tab s c.body).1.ring
          (finishCmd (runBody tab s c.body).1 (runBody tab s c.body).2)
          (finishCmd_inv n _ _ _ hcore hcore.ring) (by rw [p1]; exact b4 hny)
        rw [hring] at ih ⊢
        exact runPost_of_loop _ n s _ _ ih (by rw [p2, g2]) (by rw [p3, gs]) (by rw [p4, gr]) (by rw [p5, ge]) hcost

/-! ### console_process -/

theorem runWhileYielded_deliver (n : Nat) (tab : Table) (named : List Cmd) (snt : Cmd)
    (ht : TableOk tab named snt) (hn : n = named.length) : ∀ (fuel : Nat) (s : St), DInv n s →
    cost (remBound tab n) n s < fuel →
    DInv n (runWhileYielded tab fuel s) ∧ (runWhileYielded tab fuel s).ring = [] ∧ (runWhileYielded tab fuel s).fpt = 1 ∧
    (runWhileYielded tab fuel s).eaten = s.eaten ++ s.ring ∧ (runWhileYielded tab fuel s).stuck = s.stuck ∧
    (runWhileYielded tab fuel s).runnable = s.runnable
  | 0, _, _, hc => by omega
  | fuel + 1, s, h, hc => by
    have hr := consoleRun_deliver n tab named snt s ht hn h
    rw [runWhileYielded]
    by_cases hy : (consoleRun tab s).2 = .yielded
    · rw [if_pos hy]
      have := hr.yielded hy
      obtain ⟨a1, a2, a3, a4, a5, a6⟩ := runWhileYielded_deliver n tab named snt ht hn fuel _ hr.dinv (by omega)
      exact ⟨a1, a2, a3, by rw [a4, hr.fifo], by rw [a5, hr.stuck], by rw [a6, hr.runnable]⟩
    · rw [if_neg hy]
      obtain ⟨o1, o2⟩ := hr.other hy
      refine ⟨hr.dinv, o1, o2, ?_, hr.stuck, hr.runnable⟩
      have := hr.fifo
      rw [o1] at this
      simpa using this

theorem remBound_le (tab : Table) (n : Nat) (hn : n < tableCap) : remBound tab n + 1 ≤ maxYields tab + tableCap + 4 := by
  unfold remBound; omega

/-- **`console_process` from a console that is not inside a command**: the loop has enough fuel, the
    console ends waiting with an empty ring, and it has taken out of the ring, in order, everything
    that was in it plus the new character (if the ring had room for it) -/
theorem process_deliver (n : Nat) (tab : Table) (named : List Cmd) (snt : Cmd) (s : St) (d : Byte)
    (ht : TableOk tab named snt) (hn : n = named.length) (h : DInv n s) (hf : s.fpt ≠ 2) :
    DInv n (process tab s d) ∧ (process tab s d).ring = [] ∧ (process tab s d).fpt = 1 ∧
    (process tab s d).eaten = s.eaten ++ (ringPut s.ring d).1 ∧ (process tab s d).stuck = s.stuck ∧
    (process tab s d).runnable = s.runnable := by
  unfold process
  have h1 : DInv n { s with ring := (ringPut s.ring d).1 } :=
    ⟨inv_ring n s _ h.inv (ringPut_length _ _ h.inv.ring), h.lock⟩
  apply runWhileYielded_deliver n tab named snt ht hn _ _ h1
  unfold cost runFuel
  rw [if_neg hf]
  have hb := remBound_le tab n (by rw [hn]; exact ht.fits)
  show (ringPut s.ring d).1.length * (remBound tab n + 1) + 0 < ((ringPut s.ring d).1.length + 2) * (maxYields tab + tableCap + 4)
  have h2 : (ringPut s.ring d).1.length * (remBound tab n + 1) ≤ (ringPut s.ring d).1.length * (maxYields tab + tableCap + 4) :=
    Nat.mul_le_mul_left _ hb
  rw [Nat.add_mul]
  omega

/-! ### the scheduler -/

theorem dinv_runnable (n : Nat) (s : St) (b : Bool) (h : DInv n s) : DInv n { s with runnable := b } :=
  ⟨{ h.inv with }, h.lock⟩

theorem cost_runnable (M n : Nat) (s : St) (b : Bool) : cost M n { s with runnable := b } = cost M n s := rfl

theorem schedLoop_deliver (n : Nat) (tab : Table) (named : List Cmd) (snt : Cmd)
    (ht : TableOk tab named snt) (hn : n = named.length) : ∀ (fuel : Nat) (s : St), DInv n s → s.runnable = true →
    cost (remBound tab n) n s < fuel →
    DInv n (schedLoop tab fuel s) ∧ (schedLoop tab fuel s).ring = [] ∧ (schedLoop tab fuel s).fpt = 1 ∧
    (schedLoop tab fuel s).eaten = s.eaten ++ s.ring ∧ (schedLoop tab fuel s).stuck = s.stuck ∧
    (schedLoop tab fuel s).runnable = false ∧ (schedLoop tab fuel s).evali = s.evali
  | 0, _, _, _, hc => by omega
  | fuel + 1, s, h, hrun, hc => by
    have hr := consoleRun_deliver n tab named snt { s with runnable := false } ht hn (dinv_runnable n s false h)
    rw [schedLoop, if_pos hrun]
    dsimp only
    by_cases hy : (consoleRun tab { s with runnable := false }).2 = .yielded
    · rw [if_pos hy]
      have hlt : cost (remBound tab n) n (consoleRun tab { s with runnable := false }).1 < cost (remBound tab n) n s := hr.yielded hy
      obtain ⟨a1, a2, a3, a4, a5, a6, a7⟩ := schedLoop_deliver n tab named snt ht hn fuel
        { (consoleRun tab { s with runnable := false }).1 with runnable := true } (dinv_runnable n _ true hr.dinv) rfl
        (by show cost (remBound tab n) n (consoleRun tab { s with runnable := false }).1 < fuel; omega)
      refine ⟨a1, a2, a3, ?_, ?_, a6, ?_⟩
      · rw [a4]; exact hr.fifo
      · rw [a5]; exact hr.stuck
      · rw [a7]; exact hr.evali
    · rw [if_neg hy]
      obtain ⟨o1, o2⟩ := hr.other hy
      have hrf : (consoleRun tab { s with runnable := false }).1.runnable = false := hr.runnable
      have hstop : schedLoop tab fuel (consoleRun tab { s with runnable := false }).1 = (consoleRun tab { s with runnable := false }).1 := by
        cases fuel with
        | zero => rw [schedLoop, if_neg (by rw [hrf]; decide)]
        | succ f => rw [schedLoop, if_neg (by rw [hrf]; decide)]
      rw [hstop]
      refine ⟨hr.dinv, o1, o2, ?_, hr.stuck, hrf, hr.evali⟩
      have := hr.fifo
      rw [o1] at this
      simpa using this

/-- **the scheduler run until idle, console not inside a command** -/
theorem sched_deliver (n : Nat) (tab : Table) (named : List Cmd) (snt : Cmd) (s : St)
    (ht : TableOk tab named snt) (hn : n = named.length) (h : DInv n s) (hf : s.fpt ≠ 2) (hrun : s.runnable = true) :
    DInv n (sched tab s) ∧ (sched tab s).ring = [] ∧ (sched tab s).fpt = 1 ∧
    (sched tab s).eaten = s.eaten ++ s.ring ∧ (sched tab s).stuck = s.stuck ∧ (sched tab s).runnable = false ∧
    (sched tab s).evali = s.evali := by
  unfold sched
  apply schedLoop_deliver n tab named snt ht hn _ s h hrun
  unfold cost runFuel
  rw [if_neg hf]
  have hb := remBound_le tab n (by rw [hn]; exact ht.fits)
  have h2 : s.ring.length * (remBound tab n + 1) ≤ s.ring.length * (maxYields tab + tableCap + 4) :=
    Nat.mul_le_mul_left _ hb
  rw [Nat.add_mul]
  omega

/-- putting characters one after the other: while there is room they are appended -/
theorem putchars_room : ∀ (cs : List Byte) (s : St), s.ring.length + cs.length < ringLen →
    (cs.foldl putchar s).ring = s.ring ++ cs ∧ (cs.foldl putchar s).eaten = s.eaten ∧
    (cs.foldl putchar s).fpt = s.fpt ∧ (cs.foldl putchar s).stuck = s.stuck ∧
    (cs.length ≠ 0 → (cs.foldl putchar s).runnable = true)
  | [], s, _ => ⟨by simp, rfl, rfl, rfl, fun h => absurd rfl h⟩
  | c :: cs, s, h => by
    simp only [List.length_cons] at h
    have hput : (ringPut s.ring c) = (s.ring ++ [c], true) := by
      unfold ringPut; rw [if_neg (by omega)]
    have hs1 : putchar s c = { s with ring := s.ring ++ [c], runnable := true } := by unfold putchar; rw [hput]
    simp only [List.foldl_cons]
    rw [hs1]
    obtain ⟨a1, a2, a3, a4, a5⟩ := putchars_room cs { s with ring := s.ring ++ [c], runnable := true } (by
      show (s.ring ++ [c]).length + cs.length < ringLen
      rw [List.length_append]; simp only [List.length_singleton]; omega)
    refine ⟨by rw [a1]; simp, a2, a3, a4, fun _ => ?_⟩
    cases cs with
    | nil => rfl
    | cons d ds => exact a5 (by simp)

theorem putchars_dinv (n : Nat) : ∀ (cs : List Byte) (s : St), DInv n s → DInv n (cs.foldl putchar s)
  | [], _, h => h
  | c :: cs, s, h => by
    simp only [List.foldl_cons]
    exact putchars_dinv n cs _ ⟨putchar_inv n s c h.inv, h.lock⟩

/-! ### console_eval -/

/-- the loop of `console_eval` from cursor `i` with `q` in the ring: it puts as many of the remaining
    characters as fit; it reports the end iff it put them all -/
theorem evalLoop_spec (str : List Byte) (hnz : ∀ b ∈ str, b ≠ 0) (hlen : str.length < 65536) :
    ∀ (fuel : Nat) (s : St) (j : Nat), s.evali ≤ str.length → str.length - s.evali < fuel →
    j = min (ringLen - 1 - s.ring.length) (str.length - s.evali) → s.ring.length < ringLen →
    (evalLoop str fuel s).1.ring = s.ring ++ (str.drop s.evali).take j ∧ (evalLoop str fuel s).1.evali = s.evali + j ∧
    ((evalLoop str fuel s).2 = true ↔ s.evali + j = str.length) ∧
    (evalLoop str fuel s).1.eaten = s.eaten ∧ (evalLoop str fuel s).1.fpt = s.fpt ∧ (evalLoop str fuel s).1.stuck = s.stuck ∧
    (evalLoop str fuel s).1.hlock = s.hlock ∧ (evalLoop str fuel s).1.runnable = s.runnable
  | 0, _, _, _, hf, _, _ => by omega
  | fuel + 1, s, j, hi, hf, hjdef, hr => by
    rw [evalLoop]
    by_cases hend : s.evali = str.length
    · have hnone : str[s.evali]? = none := by rw [hend]; exact List.getElem?_eq_none (Nat.le_refl _)
      rw [hnone]
      have hj : j = 0 := by rw [hjdef, hend]; simp
      subst hj
      exact ⟨by simp, rfl, by simp [hend], rfl, rfl, rfl, rfl, rfl⟩
    · have hlt : s.evali < str.length := by omega
      rw [List.getElem?_eq_getElem hlt]
      dsimp only
      have hd : str[s.evali] ≠ 0 := hnz _ (List.getElem_mem hlt)
      rw [if_neg hd]
      by_cases hroom : s.ring.length + 1 ≥ ringLen
      · have hput : ringPut s.ring str[s.evali] = (s.ring, false) := by unfold ringPut; rw [if_pos hroom]
        rw [hput]
        rw [if_neg (show ¬ ((s.ring, false).2 = true) from Bool.false_ne_true)]
        have hj : j = 0 := by rw [hjdef]; omega
        subst hj
        refine ⟨by simp, rfl, ?_, rfl, rfl, rfl, rfl, rfl⟩
        constructor
        · intro e; cases e
        · intro e; omega
      · have hput : ringPut s.ring str[s.evali] = (s.ring ++ [str[s.evali]], true) := by unfold ringPut; rw [if_neg hroom]
        rw [hput]
        rw [if_pos (show (s.ring ++ [str[s.evali]], true).2 = true from rfl)]
        have hmod : (s.evali + 1) % 65536 = s.evali + 1 := Nat.mod_eq_of_lt (by omega)
        rw [hmod]
        have ih := evalLoop_spec str hnz hlen fuel { s with ring := s.ring ++ [str[s.evali]], evali := s.evali + 1 }
          (min (ringLen - 1 - (s.ring.length + 1)) (str.length - (s.evali + 1)))
          (by show s.evali + 1 ≤ str.length; omega) (by show str.length - (s.evali + 1) < fuel; omega)
          (by show _ = min (ringLen - 1 - (s.ring ++ [str[s.evali]]).length) _; rw [List.length_append]; rfl)
          (by show (s.ring ++ [str[s.evali]]).length < ringLen; rw [List.length_append]; simp only [List.length_singleton]; omega)
        obtain ⟨i1, i2, i3, i4, i5, i6, i7, i8⟩ := ih
        have hj : j = min (ringLen - 1 - (s.ring.length + 1)) (str.length - (s.evali + 1)) + 1 := by
          rw [hjdef]; omega
        refine ⟨?_, ?_, ?_, i4, i5, i6, i7, i8⟩
        · rw [i1, hj, List.append_assoc]
          congr 1
          rw [List.drop_eq_getElem_cons hlt, List.take_succ_cons]
          rfl
        · rw [i2, hj]; show s.evali + 1 + _ = _; omega
        · rw [i3, hj]; show s.evali + 1 + _ = _ ↔ _; omega

theorem evalLoop_dinv (n : Nat) (str : List Byte) (fuel : Nat) (s : St) (h : DInv n s) (hf : s.fpt ≠ 2)
    (hfr : (evalLoop str fuel s).1.hlock = s.hlock) : DInv n (evalLoop str fuel s).1 :=
  ⟨evalLoop_inv n str fuel s h.inv, fun e => by rw [hfr, lock_idle s h.lock hf] at e; cases e⟩

/-- **the caller of `console_eval`** (console not inside a command, ring drained): by induction on the
    characters still to be injected -/
theorem evalDrive_deliver (n : Nat) (tab : Table) (named : List Cmd) (snt : Cmd) (str : List Byte)
    (ht : TableOk tab named snt) (hn : n = named.length) (hnz : ∀ b ∈ str, b ≠ 0) (hlen : str.length < 65536)
    (e0 : List Byte) : ∀ (fuel pt k : Nat) (s : St) (i : Nat), DInv n s → s.fpt ≠ 2 → s.ring = [] →
    i = (if pt = 0 then 0 else s.evali) → i ≤ str.length → s.eaten = e0 ++ str.take i → str.length - i < fuel →
    ∃ k', (evalDrive tab str fuel pt k s).2 = some k' ∧ DInv n (evalDrive tab str fuel pt k s).1 ∧
      (evalDrive tab str fuel pt k s).1.ring = [] ∧ (evalDrive tab str fuel pt k s).1.fpt = 1 ∧
      (evalDrive tab str fuel pt k s).1.eaten = e0 ++ str ∧ (evalDrive tab str fuel pt k s).1.stuck = s.stuck
  | 0, _, _, _, _, _, _, _, _, _, _, hf => by omega
  | fuel + 1, pt, k, s, i, h, hf, hring, hi, hile, heat, hfuel => by
    -- the state the loop of console_eval starts from
    have h0 : DInv n (if pt = 0 then { s with evali := 0 } else s) := by
      split
      · exact ⟨{ h.inv with }, h.lock⟩
      · exact h
    have e_ring : (if pt = 0 then { s with evali := 0 } else s).ring = [] := by split <;> exact hring
    have e_fpt : (if pt = 0 then { s with evali := 0 } else s).fpt = s.fpt := by split <;> rfl
    have e_eaten : (if pt = 0 then { s with evali := 0 } else s).eaten = s.eaten := by split <;> rfl
    have e_stuck : (if pt = 0 then { s with evali := 0 } else s).stuck = s.stuck := by split <;> rfl
    have e_evali : (if pt = 0 then { s with evali := 0 } else s).evali = i := by
      rw [hi]; split <;> rfl
    have hrl := ringLen_eq
    obtain ⟨l1, l2, l3, l4, l5, l6, l7, _⟩ := evalLoop_spec str hnz hlen (str.length + 1)
      (if pt = 0 then { s with evali := 0 } else s) (min (ringLen - 1 - 0) (str.length - i))
      (by rw [e_evali]; exact hile) (by rw [e_evali]; omega) (by rw [e_ring, e_evali]; rfl) (by rw [e_ring]; simp [hrl])
    rw [e_ring, e_evali] at l1
    rw [e_evali] at l2 l3
    have hd1 := evalLoop_dinv n str (str.length + 1) _ h0 (by rw [e_fpt]; exact hf) l7
    -- evalResume = the loop + fibre_run
    rw [evalDrive]
    have hres1 : (evalResume str pt s).1 = { (evalLoop str (str.length + 1) (if pt = 0 then { s with evali := 0 } else s)).1 with runnable := true } := rfl
    have hres2 : (evalResume str pt s).2.2 = (if (evalLoop str (str.length + 1) (if pt = 0 then { s with evali := 0 } else s)).2 = true then .exited else .yielded) := rfl
    obtain ⟨c1, c2, c3, c4, c5, c6, c7⟩ := sched_deliver n tab named snt (evalResume str pt s).1 ht hn
      (by rw [hres1]; exact dinv_runnable n _ true hd1) (by rw [hres1]; show (evalLoop _ _ _).1.fpt ≠ 2; rw [l5, e_fpt]; exact hf)
      (by rw [hres1])
    have heat1 : (sched tab (evalResume str pt s).1).eaten = e0 ++ str.take (i + min (ringLen - 1 - 0) (str.length - i)) := by
      rw [c4, hres1]
      show (evalLoop _ _ _).1.eaten ++ (evalLoop _ _ _).1.ring = _
      rw [l4, l1, e_eaten, heat, List.nil_append, List.append_assoc]
      congr 1
      rw [List.take_add]
    have hstuck1 : (sched tab (evalResume str pt s).1).stuck = s.stuck := by
      rw [c5, hres1]; show (evalLoop _ _ _).1.stuck = _; rw [l6, e_stuck]
    by_cases hdone : (evalLoop str (str.length + 1) (if pt = 0 then { s with evali := 0 } else s)).2 = true
    · have hx : (evalResume str pt s).2.2 = .exited := by rw [hres2, if_pos hdone]
      rw [if_pos hx]
      have hall := l3.mp hdone
      refine ⟨k + 1, rfl, c1, c2, c3, ?_, hstuck1⟩
      rw [heat1, hall, List.take_length]
    · have hx : ¬ ((evalResume str pt s).2.2 = .exited) := by rw [hres2, if_neg hdone]; decide
      rw [if_neg hx]
      have hnot : ¬ (i + min (ringLen - 1 - 0) (str.length - i) = str.length) := fun e => hdone (l3.mpr e)
      have hj : min (ringLen - 1 - 0) (str.length - i) = 15 := by omega
      have hpt : (evalResume str pt s).2.1 = 1 := rfl
      rw [hpt]
      have hev : (sched tab (evalResume str pt s).1).evali = i + 15 := by
        rw [c7, hres1]; show (evalLoop _ _ _).1.evali = _; rw [l2, hj]
      obtain ⟨k', r1, r2, r3, r4, r5, r6⟩ := evalDrive_deliver n tab named snt str ht hn hnz hlen e0 fuel 1 (k + 1)
        (sched tab (evalResume str pt s).1) (i + 15) c1 (by rw [c3]; decide) c2 (by rw [if_neg (by decide), hev])
        (by omega) (by rw [heat1, hj]) (by omega)
      exact ⟨k', r1, r2, r3, r4, r5, by rw [r6, hstuck1]⟩

/-- **`console_eval`** driven to completion -/
theorem eval_deliver (n : Nat) (tab : Table) (named : List Cmd) (snt : Cmd) (str : List Byte) (s : St)
    (ht : TableOk tab named snt) (hn : n = named.length) (hnz : ∀ b ∈ str, b ≠ 0) (hlen : str.length < 65536)
    (h : DInv n s) (hf : s.fpt ≠ 2) (hring : s.ring = []) :
    ∃ k, (eval tab str s).2 = some k ∧ DInv n (eval tab str s).1 ∧ (eval tab str s).1.ring = [] ∧
      (eval tab str s).1.fpt = 1 ∧ (eval tab str s).1.eaten = s.eaten ++ str ∧ (eval tab str s).1.stuck = s.stuck := by
  unfold eval evalBound
  exact evalDrive_deliver n tab named snt str ht hn hnz hlen s.eaten (str.length + 8) 0 0 s 0 h hf hring rfl
    (Nat.zero_le _) (by simp) (by omega)

/-! ### every reachable state satisfies the delivery invariant -/

theorem runWhileYielded_dinv (n : Nat) (tab : Table) (named : List Cmd) (snt : Cmd)
    (ht : TableOk tab named snt) (hn : n = named.length) : ∀ (fuel : Nat) (s : St), DInv n s → DInv n (runWhileYielded tab fuel s)
  | 0, s, h => by rw [runWhileYielded]; exact ⟨{ h.inv with }, h.lock⟩
  | fuel + 1, s, h => by
    have hr := consoleRun_deliver n tab named snt s ht hn h
    rw [runWhileYielded]
    split
    · exact runWhileYielded_dinv n tab named snt ht hn fuel _ hr.dinv
    · exact hr.dinv

theorem schedLoop_dinv (n : Nat) (tab : Table) (named : List Cmd) (snt : Cmd)
    (ht : TableOk tab named snt) (hn : n = named.length) : ∀ (fuel : Nat) (s : St), DInv n s → DInv n (schedLoop tab fuel s)
  | 0, s, h => by
    rw [schedLoop]
    split
    · exact ⟨{ h.inv with }, h.lock⟩
    · exact h
  | fuel + 1, s, h => by
    rw [schedLoop]
    split
    · have hr := consoleRun_deliver n tab named snt { s with runnable := false } ht hn (dinv_runnable n s false h)
      apply schedLoop_dinv n tab named snt ht hn fuel
      split
      · exact dinv_runnable n _ true hr.dinv
      · exact hr.dinv
    · exact h

theorem evalLoop_lockframe (str : List Byte) : ∀ (fuel : Nat) (s : St),
    (evalLoop str fuel s).1.hlock = s.hlock ∧ (evalLoop str fuel s).1.fpt = s.fpt ∧
    (evalLoop str fuel s).1.pt = s.pt ∧ (evalLoop str fuel s).1.cmd = s.cmd
  | 0, _ => ⟨rfl, rfl, rfl, rfl⟩
  | fuel + 1, s => by
    rw [evalLoop]
    split
    · exact ⟨rfl, rfl, rfl, rfl⟩
    · split
      · exact ⟨rfl, rfl, rfl, rfl⟩
      · split
        · exact evalLoop_lockframe str fuel _
        · exact ⟨rfl, rfl, rfl, rfl⟩

theorem lock_frame (s s' : St) (h : Lock s) (h1 : s'.hlock = s.hlock) (h2 : s'.fpt = s.fpt) (h3 : s'.pt = s.pt)
    (h4 : s'.cmd = s.cmd) : Lock s' := by
  intro e
  rw [h1] at e
  obtain ⟨a, b, c, d1, d2⟩ := h e
  exact ⟨by rw [h2]; exact a, by rw [h3]; exact b, c, by rw [h4]; exact d1, d2⟩

theorem evalResume_dinv (n : Nat) (str : List Byte) (pt : Nat) (s : St) (h : DInv n s) : DInv n (evalResume str pt s).1 := by
  refine ⟨evalResume_inv n str pt s h.inv, ?_⟩
  unfold evalResume
  obtain ⟨a, b, c, d⟩ := evalLoop_lockframe str (str.length + 1) (if pt = 0 then { s with evali := 0 } else s)
  have h0 : Lock (if pt = 0 then { s with evali := 0 } else s) := by
    split
    · exact h.lock
    · exact h.lock
  exact lock_frame _ _ h0 a b c d

theorem evalDrive_dinv (n : Nat) (tab : Table) (named : List Cmd) (snt : Cmd) (str : List Byte)
    (ht : TableOk tab named snt) (hn : n = named.length) :
    ∀ (fuel pt k : Nat) (s : St), DInv n s → DInv n (evalDrive tab str fuel pt k s).1
  | 0, _, _, _, h => h
  | fuel + 1, pt, k, s, h => by
    rw [evalDrive]
    have h1 : DInv n (sched tab (evalResume str pt s).1) := schedLoop_dinv n tab named snt ht hn _ _ (evalResume_dinv n str pt s h)
    split
    · exact h1
    · exact evalDrive_dinv n tab named snt str ht hn fuel _ _ _ h1

theorem init_dinv (n : Nat) : DInv n init := ⟨init_inv n, fun e => by cases e⟩

theorem step_dinv (w : World) (op : Op) (hop : OpOk op) (named : List Cmd) (snt : Cmd)
    (ht : TableOk w.tab named snt) (h : DInv named.length w.s) :
    ∃ named', TableOk (step w op).tab named' snt ∧ DInv named'.length (step w op).s := by
  cases op with
  | register cmd =>
    cases hname : cmd.name with
    | none => exact absurd hname hop
    | some nm =>
      by_cases hroom : named.length + 1 < tableCap
      · obtain ⟨hr, hok⟩ := register_room w.tab named snt cmd nm ht hroom hname
        refine ⟨named.take (insIdx nm named) ++ cmd :: named.drop (insIdx nm named), ?_, ?_⟩
        · simp only [step, hr]
          exact hok
        · simp only [step, hr]
          refine ⟨inv_mono named.length _ _ h.inv ?_, h.lock⟩
          simp [List.length_take, List.length_drop]
          have := insIdx_le nm named
          omega
      · have hfull : named.length + 1 = tableCap := by have := ht.fits; omega
        have hr := register_full w.tab named snt cmd ht hfull
        refine ⟨named, ?_, ?_⟩
        · simp only [step, hr]; exact ht
        · simp only [step, hr]; exact h
  | process d =>
    refine ⟨named, ht, ?_⟩
    show DInv _ (process w.tab w.s d)
    unfold process
    exact runWhileYielded_dinv _ _ named snt ht rfl _ _ ⟨inv_ring _ _ _ h.inv (ringPut_length _ _ h.inv.ring), h.lock⟩
  | putchar d => exact ⟨named, ht, putchar_inv _ _ d h.inv, h.lock⟩
  | sched => exact ⟨named, ht, schedLoop_dinv _ _ named snt ht rfl _ _ h⟩
  | run => exact ⟨named, ht, (consoleRun_deliver _ _ named snt _ ht rfl h).dinv⟩
  | evalStep str pt => exact ⟨named, ht, evalResume_dinv _ str pt _ h⟩
  | eval str => exact ⟨named, ht, evalDrive_dinv _ _ named snt str ht rfl _ _ _ _ h⟩
  | silent => exact ⟨named, ht, silent_inv _ _ h.inv, h.lock⟩

theorem runOps_dinv : ∀ (ops : List Op) (w : World), (∀ op ∈ ops, OpOk op) → ∀ (named : List Cmd) (snt : Cmd),
    TableOk w.tab named snt → DInv named.length w.s →
    ∃ named', TableOk (runOps w ops).tab named' snt ∧ DInv named'.length (runOps w ops).s
  | [], w, _, named, _, ht, h => ⟨named, ht, h⟩
  | op :: ops, w, hok, named, snt, ht, h => by
    obtain ⟨named', ht', h'⟩ := step_dinv w op (hok op (List.mem_cons_self ..)) named snt ht h
    exact runOps_dinv ops (step w op) (fun o ho => hok o (List.mem_cons_of_mem _ ho)) named' snt ht' h'

/-! ### bursts of console_putchar beyond the ring's capacity; sequences of console_process -/

/-- what a burst of `console_putchar` does to the ring: the final ring and, per character, what
    `ringbuf_put` returned -/
def putLog : List Byte → List Byte → List Byte × List Bool
  | ring, [] => (ring, [])
  | ring, c :: cs => ((putLog (ringPut ring c).1 cs).1, (ringPut ring c).2 :: (putLog (ringPut ring c).1 cs).2)

/-- the characters for which `ringbuf_put` returned true -/
def acceptedOf : List Byte → List Bool → List Byte
  | c :: cs, true :: rs => c :: acceptedOf cs rs
  | _ :: cs, false :: rs => acceptedOf cs rs
  | _, _ => []

theorem putLog_ring : ∀ (cs ring : List Byte), (putLog ring cs).1 = ring ++ acceptedOf cs (putLog ring cs).2
  | [], ring => by simp [putLog, acceptedOf]
  | c :: cs, ring => by
    unfold putLog
    show (putLog (ringPut ring c).1 cs).1 = _
    rw [putLog_ring cs]
    unfold ringPut
    by_cases h : ring.length + 1 ≥ ringLen
    · simp only [if_pos h, acceptedOf]
    · simp only [if_neg h, acceptedOf]; simp

/-- nothing is consumed during the burst, so exactly the first `15 - fill` characters are accepted -/
theorem accepted_take : ∀ (cs ring : List Byte), ring.length < ringLen →
    acceptedOf cs (putLog ring cs).2 = cs.take (ringLen - 1 - ring.length)
  | [], _, _ => by simp [putLog, acceptedOf]
  | c :: cs, ring, hr => by
    unfold putLog
    unfold ringPut
    by_cases h : ring.length + 1 ≥ ringLen
    · simp only [if_pos h, acceptedOf]
      have ih := accepted_take cs ring hr
      have h0 : ringLen - 1 - ring.length = 0 := by omega
      rw [h0] at ih ⊢
      rw [ih]; simp
    · simp only [if_neg h, acceptedOf]
      have ih := accepted_take cs (ring ++ [c]) (by rw [List.length_append]; simp only [List.length_singleton]; omega)
      rw [ih, List.length_append]
      simp only [List.length_singleton]
      have : ringLen - 1 - ring.length = (ringLen - 1 - (ring.length + 1)) + 1 := by omega
      rw [this, List.take_succ_cons]

theorem putchars_log : ∀ (cs : List Byte) (s : St),
    (cs.foldl putchar s).ring = (putLog s.ring cs).1 ∧ (cs.foldl putchar s).eaten = s.eaten ∧
    (cs.foldl putchar s).fpt = s.fpt ∧ (cs.foldl putchar s).stuck = s.stuck ∧
    (cs ≠ [] → (cs.foldl putchar s).runnable = true)
  | [], s => ⟨rfl, rfl, rfl, rfl, fun h => absurd rfl h⟩
  | c :: cs, s => by
    obtain ⟨a1, a2, a3, a4, a5⟩ := putchars_log cs (putchar s c)
    simp only [List.foldl_cons]
    refine ⟨by rw [a1]; rfl, a2, a3, a4, fun _ => ?_⟩
    cases cs with
    | nil => rfl
    | cons d ds => exact a5 (by simp)

theorem processes_deliver (n : Nat) (tab : Table) (named : List Cmd) (snt : Cmd)
    (ht : TableOk tab named snt) (hn : n = named.length) : ∀ (cs : List Byte) (s : St), DInv n s → s.fpt ≠ 2 → s.ring = [] →
    DInv n (cs.foldl (process tab) s) ∧ (cs.foldl (process tab) s).ring = [] ∧ (cs.foldl (process tab) s).fpt ≠ 2 ∧
    (cs.foldl (process tab) s).eaten = s.eaten ++ cs ∧ (cs.foldl (process tab) s).stuck = s.stuck
  | [], s, h, hf, hr => ⟨h, hr, hf, by simp, rfl⟩
  | c :: cs, s, h, hf, hr => by
    obtain ⟨a1, a2, a3, a4, a5, _⟩ := process_deliver n tab named snt s c ht hn h hf
    obtain ⟨b1, b2, b3, b4, b5⟩ := processes_deliver n tab named snt ht hn cs (process tab s c) a1 (by rw [a3]; decide) a2
    simp only [List.foldl_cons]
    refine ⟨b1, b2, b3, ?_, by rw [b5, a5]⟩
    rw [b4, a4, hr]
    have hrl := ringLen_eq
    unfold ringPut
    rw [if_neg (by simp; omega)]
    simp

theorem processes_fpt1 (n : Nat) (tab : Table) (named : List Cmd) (snt : Cmd)
    (ht : TableOk tab named snt) (hn : n = named.length) : ∀ (cs : List Byte) (s : St), DInv n s → s.fpt = 1 → s.ring = [] →
    (cs.foldl (process tab) s).fpt = 1
  | [], _, _, hf, _ => hf
  | c :: cs, s, h, hf, _ => by
    obtain ⟨a1, a2, a3, _⟩ := process_deliver n tab named snt s c ht hn h (by rw [hf]; decide)
    simp only [List.foldl_cons]
    exact processes_fpt1 n tab named snt ht hn cs _ a1 a3 a2

end Librfn.Lemmas.ConsoleDeliver

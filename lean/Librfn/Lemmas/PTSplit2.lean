import Librfn.Lemmas.PTSplit
namespace Librfn.Model.PT
open Stmt Librfn.Spec.PT

theorem evalCond_me (c : Cond) (st : St) : (evalCond c st).2.me = st.me := by
  induction c generalizing st with
  | not c ih => simp only [evalCond]; exact ih st
  | _ => simp [evalCond, St.setVar]

theorem split_skip {fuel} : SplitAt fuel skip := by
  intro _ e res n st r _ h
  simp only [exec, Option.some.injEq] at h ⊢; subst h; exact ⟨_, rfl, rfl, rfl⟩
theorem split_eff {fuel x} : SplitAt fuel (eff x) := by
  intro _ e res n st r _ h
  simp only [exec, Option.some.injEq] at h ⊢; subst h; exact ⟨_, rfl, rfl, rfl⟩
theorem split_exit {fuel} : SplitAt fuel exit := by
  intro _ e res n st r _ h
  simp only [exec, Option.some.injEq] at h ⊢; subst h
  refine ⟨_, rfl, ?_⟩; simp [Resumes, Code.blocking]
theorem split_fail {fuel} : SplitAt fuel fail := by
  intro _ e res n st r _ h
  simp only [exec, Option.some.injEq] at h ⊢; subst h
  refine ⟨_, rfl, ?_⟩; simp [Resumes, Code.blocking]

theorem split_block {fuel s c l} (hc : c.blocking = true) (hl : labels s = [l])
    (hs : ∀ e res n st, exec fuel s e res n st = some (block c l e res n st)) : SplitAt fuel s := by
  intro _ e res n st r _ h
  rw [hs] at h ⊢; simp only [Option.some.injEq] at h ⊢; subst h
  refine ⟨_, rfl, ?_⟩
  by_cases he : e = some l
  · simp only [block, he, if_true]; exact ⟨rfl, rfl⟩
  · simp only [block, he, if_false, Resumes, hc, if_true]
    refine ⟨by simp [hl, St.setPt, PtSt.setPt, PtSt.pt], _, hs _ _ _ _, ?_⟩
    simp [block, St.setPt, PtSt.setPt, PtSt.pt, Out.prepend]

theorem split_yield {fuel l} : SplitAt fuel (yield l) :=
  split_block (c := .yielded) rfl rfl (by intros; simp [exec])
theorem split_wait {fuel l} : SplitAt fuel (wait l) :=
  split_block (c := .waiting) rfl rfl (by intros; simp [exec])

theorem waitLoop_succ (c : Cond) (res : Code) (n : Nat) (st : St) :
    waitLoop c res (n + 1) st =
      if (evalCond c st).1 then .normal (evalCond c st).2 res (n + 1) []
      else (waitLoop c .yielded n (evalCond c st).2.bump).prepend [.ret .waiting] := by
  rw [waitLoop]; rcases evalCond c st with ⟨b, s⟩; cases b <;> rfl
theorem waitLoop_zero (c : Cond) (res : Code) (st : St) :
    waitLoop c res 0 st =
      if (evalCond c st).1 then .normal (evalCond c st).2 res 0 [] else .ret .waiting (evalCond c st).2 0 [] := by
  rw [waitLoop]; rcases evalCond c st with ⟨b, s⟩; cases b <;> rfl

theorem split_waitUntil {fuel l c} : SplitAt fuel (waitUntil l c) := by
  intro _ e res n st r hE h
  simp only [exec, Option.some.injEq] at h ⊢
  refine ⟨_, rfl, ?_⟩
  have hpt : (if e = some l then st else st.setPt l).me.pt = l := by
    by_cases he : e = some l
    · simp only [he, if_true]; exact (hE l he).2
    · simp only [he, if_false]; simp [St.setPt, PtSt.setPt, PtSt.pt]
  generalize (if e = some l then st else st.setPt l) = st1 at h hpt ⊢
  rw [waitLoop_succ] at h; rw [waitLoop_zero]
  by_cases hc : (evalCond c st1).1 = true
  · rw [if_pos hc] at h ⊢; subst h; exact ⟨rfl, rfl⟩
  · rw [if_neg hc] at h ⊢; subst h
    have hme : (evalCond c st1).2.me.pt = l := by rw [evalCond_me]; exact hpt
    simp only [Resumes, Code.blocking, if_true]
    refine ⟨by simp [labels, hme], _, ?_, rfl⟩
    simp [exec, hme]

end Librfn.Model.PT

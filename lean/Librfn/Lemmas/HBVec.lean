import Librfn.Model.HB
/-! Vector-clock and association-list lemmas for the happens-before detector, and the projections of `step`. -/
namespace Librfn.Model.HB

@[simp] theorem vget_nil (i : Nat) : vget [] i = 0 := by simp [vget]
@[simp] theorem vget_cons_zero (a : Nat) (v : VC) : vget (a :: v) 0 = a := by simp [vget]
@[simp] theorem vget_cons_succ (a : Nat) (v : VC) (i : Nat) : vget (a :: v) (i + 1) = vget v i := by simp [vget]

theorem vget_vjoin (v w : VC) (i : Nat) : vget (vjoin v w) i = max (vget v i) (vget w i) := by
  induction v generalizing w i with
  | nil => simp [vjoin]
  | cons a v ih =>
    cases w with
    | nil => simp [vjoin]
    | cons b w =>
      cases i with
      | zero => simp [vjoin]
      | succ i => simp [vjoin, ih]

theorem vget_vset (v : VC) (i x j : Nat) : vget (vset v i x) j = if j = i then x else vget v j := by
  induction v generalizing i j with
  | nil =>
    induction i generalizing j with
    | zero => cases j <;> simp [vset]
    | succ i ih =>
      cases j with
      | zero => simp [vset]
      | succ j => simp [vset, ih]
  | cons a v ih =>
    cases i with
    | zero => cases j <;> simp [vset]
    | succ i =>
      cases j with
      | zero => simp [vset]
      | succ j => simp [vset, ih]

theorem lookup_update {α : Type} (m : List (Nat × α)) (k : Nat) (x : α) (k' : Nat) :
    lookup (update m k x) k' = if k' = k then some x else lookup m k' := by
  unfold lookup update
  by_cases h : k' = k
  · subst h; simp
  · have hk : (k == k') = false := by simp; omega
    simp only [List.find?_cons, hk, h, if_false]
    congr 1
    induction m with
    | nil => rfl
    | cons p m ih =>
      by_cases hp : p.1 = k
      · have h1 : (p.1 != k) = false := by simp [hp]
        have h2 : (p.1 == k') = false := by simp [hp]; omega
        simp [h1, h2, ih]
      · have h1 : (p.1 != k) = true := by simp [hp]
        simp only [List.filter_cons, h1, if_true, List.find?_cons]
        cases (p.1 == k') <;> simp [ih]

@[simp] theorem lookup_nil {α : Type} (k : Nat) : lookup ([] : List (Nat × α)) k = none := rfl

/-! ## projections of `step` -/

def relOf (s : St) (l : Nat) : VC := (lookup s.rels l).getD []
def readsOf (s : St) (l : Nat) : List Acc := (lookup s.reads l).getD []

/-- the thread's clock after the program-order tick -/
def tick (s : St) (e : Ev) : VC := vset (clockOf s e.tid) e.tid (vget (clockOf s e.tid) e.tid + 1)

/-- the thread's clock after the event -/
def newClock (s : St) (e : Ev) : VC :=
  if (e.kind = .aload ∨ e.kind = .armw) ∧ e.ord.acq = true then vjoin (tick s e) (relOf s e.loc) else tick s e

theorem clockOf_step (s : St) (i : Nat) (e : Ev) (t : Nat) :
    clockOf (step s i e) t = if t = e.tid then newClock s e else clockOf s t := by
  unfold clockOf
  cases hk : e.kind <;> cases ha : e.ord.acq <;>
    simp [step, hk, ha, lookup_update, newClock, tick, relOf, clockOf] <;> split <;> simp_all

theorem relOf_step_aload (s : St) (i : Nat) (e : Ev) (l : Nat) (hk : e.kind = .aload) :
    relOf (step s i e) l = relOf s l := by simp [relOf, step, hk]
theorem relOf_step_pread (s : St) (i : Nat) (e : Ev) (l : Nat) (hk : e.kind = .pread) :
    relOf (step s i e) l = relOf s l := by simp [relOf, step, hk]
theorem relOf_step_pwrite (s : St) (i : Nat) (e : Ev) (l : Nat) (hk : e.kind = .pwrite) :
    relOf (step s i e) l = relOf s l := by simp [relOf, step, hk]
theorem relOf_step_astore (s : St) (i : Nat) (e : Ev) (l : Nat) (hk : e.kind = .astore) :
    relOf (step s i e) l = if l = e.loc then (if e.ord.rel = true then newClock s e else []) else relOf s l := by
  simp only [relOf, step, hk, lookup_update, newClock, tick, clockOf]
  split <;> simp
theorem relOf_step_armw (s : St) (i : Nat) (e : Ev) (l : Nat) (hk : e.kind = .armw) :
    relOf (step s i e) l =
      if l = e.loc then (if e.ord.rel = true then vjoin (relOf s e.loc) (newClock s e) else relOf s e.loc)
      else relOf s l := by
  simp only [relOf, step, hk, lookup_update, newClock, tick, clockOf]
  split
  · cases e.ord.acq <;> cases e.ord.rel <;> simp
  · simp

end Librfn.Model.HB

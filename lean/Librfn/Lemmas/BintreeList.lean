import Librfn.Lemmas.Bintree
/-! The list iterators of `bintree.c` on right-leaning and left-leaning list spines. -/
namespace Librfn.Lemmas.Bintree
open Librfn.Model.Bintree Librfn.Spec Librfn.Spec.Tree

abbrev DrainRes := Except Err (List (Nat × Ptr) × Heap × Iter)

/-- `bintree_next`, then the rest of the caller's loop -/
def drainFrom (isList : Nat → Bool) (g calls : Nat) (h : Heap) (it : Iter) : DrainRes :=
  match next isList g h it with
  | .error e => .error e
  | .ok (r, h1, it1) => drain isList g calls h1 it1 r

def consP (a : Nat × Ptr) : DrainRes → DrainRes
  | .error e => .error e
  | .ok (out, h, it) => .ok (a :: out, h, it)

theorem drain_some (isList : Nat → Bool) (g calls : Nat) (h : Heap) (it : Iter) (n : Nat) :
    drain isList g (calls + 1) h it (some n) = consP (n, it.parent) (drainFrom isList g calls h it) := by
  rw [drain, drainFrom]
  cases next isList g h it with
  | error e => rfl
  | ok res =>
    obtain ⟨r, h1, it1⟩ := res
    simp only
    cases drain isList g calls h1 it1 r with
    | error e => rfl
    | ok res2 => obtain ⟨o, h2, it2⟩ := res2; rfl

theorem drain_none (isList : Nat → Bool) (g calls : Nat) (h : Heap) (it : Iter) :
    drain isList g (calls + 1) h it none = .ok ([], h, it) := by
  rw [drain]

/-! ### right-leaning spines -/

theorem isElem_root {isList : Nat → Bool} : ∀ {t : Tree}, IsElem isList t → ∃ a e b, t = .node a e b ∧ isList e = false
  | .nil, h => absurd h (by simp [IsElem])
  | .node a e b, h => ⟨a, e, b, rfl, h⟩

/-- the run of `list_right_iterator` down a right-leaning spine -/
theorem right_run (isList : Nat → Bool) (g : Nat) (h : Heap) : ∀ (t : Tree) (it : Iter) (calls : Nat),
    RightSpine isList t → ReprK (fun _ => false) h t none → it.next = .listRight → it.curr = root t →
    size t + 1 ≤ calls →
    ∃ out it', drainFrom isList g calls h it = .ok (out, h, it') ∧ out.map Prod.fst = traverseList isList t
  | .nil, _, _, hs, _, _, _, _ => absurd hs (by simp [RightSpine])
  | .node l x r, it, calls, hs, ⟨hx, hl, hr⟩, hn, hc, hcalls => by
    obtain ⟨itn, itc, itp⟩ := it
    simp only at hn hc; subst hn
    have hc' : itc = some x := hc
    subst hc'
    simp only [size] at hcalls
    obtain ⟨c1, rfl⟩ : ∃ c1, calls = c1 + 1 := ⟨calls - 1, by omega⟩
    by_cases hlx : isList x = true
    · -- a list node: hand out the element on the left, go on to the right
      simp only [RightSpine, hlx, if_true] at hs
      obtain ⟨a, e, b, rfl, he⟩ := isElem_root hs.1
      have hsz : size r + 1 ≤ c1 := by simp only [size] at hcalls; omega
      obtain ⟨out, it', hrun, hm⟩ := right_run isList g h r ⟨.listRight, root r, itp⟩ c1 hs.2 hr rfl rfl hsz
      have hx' : h x = some ⟨some e, false, root r⟩ := by rw [hx, rootK_none']; rfl
      refine ⟨(e, itp) :: out, it', ?_, ?_⟩
      · simp only [drainFrom, next, listRightIterator, callFilter, hx', hlx]
        simp only [Bool.false_eq_true, if_false]
        rw [drain_some, hrun]; rfl
      · simp [traverseList, hlx, he, hm]
    · -- the last element
      have hlx' : isList x = false := by simpa using hlx
      obtain ⟨c2, rfl⟩ : ∃ c2, c1 = c2 + 1 := ⟨c1 - 1, by omega⟩
      refine ⟨[(x, itp)], ⟨.listRight, none, itp⟩, ?_, by simp [traverseList, hlx']⟩
      simp only [drainFrom, next, listRightIterator, callFilter, hx, hlx']
      rw [drain_some]
      simp only [drainFrom, next, listRightIterator]
      rw [drain_none]; rfl
where rootK_none' {r : Tree} : rootK r none = root r := by cases r <;> rfl

/-! ### left-leaning spines -/

def prependP (xs : List (Nat × Ptr)) : DrainRes → DrainRes
  | .error e => .error e
  | .ok (out, h, it) => .ok (xs ++ out, h, it)

theorem prependP_nil (r : DrainRes) : prependP [] r = r := by cases r <;> simp [prependP]
theorem prependP_append (xs ys : List (Nat × Ptr)) (r : DrainRes) :
    prependP xs (prependP ys r) = prependP (xs ++ ys) r := by cases r <;> simp [prependP]
theorem consP_eq (a : Nat × Ptr) (r : DrainRes) : consP a r = prependP [a] r := by
  cases r <;> simp [prependP, consP]

theorem head?_append_ne {α : Type} (a b : List α) (h : a ≠ []) : (a ++ b).head? = a.head? := by
  cases a with
  | nil => exact absurd rfl h
  | cons c cs => rfl

/-- the root is a list node -/
def listRooted (isList : Nat → Bool) : Tree → Bool
  | .nil => false
  | .node _ x _ => isList x

/-- the deepest list node of a left-leaning spine -/
def deepest (isList : Nat → Bool) : Tree → Ptr
  | .nil => none
  | .node l x _ => if isList x then (if listRooted isList l then deepest isList l else some x) else none

/-- the elements handed out while `list_left_iterator` climbs the spine: all but the first -/
def upElems (isList : Nat → Bool) (t : Tree) : List Nat := (traverseList isList t).tail

theorem leftSpine_ne_nil {isList : Nat → Bool} : ∀ {t : Tree}, LeftSpine isList t → t ≠ .nil
  | .nil, h => absurd h (by simp [LeftSpine])
  | .node _ _ _, _ => by simp

theorem traverse_ne_nil {isList : Nat → Bool} : ∀ (t : Tree), LeftSpine isList t → traverseList isList t ≠ []
  | .nil, h => absurd h (by simp [LeftSpine])
  | .node l x r, h => by
    by_cases hx : isList x = true
    · simp only [LeftSpine, hx, if_true] at h
      simp only [traverseList, hx, if_true]
      intro e
      exact traverse_ne_nil l h.2 (List.append_eq_nil_iff.mp e).1
    · simp [traverseList, hx]

theorem traverse_elem {isList : Nat → Bool} {a : Tree} {e : Nat} {b : Tree} (he : isList e = false) :
    traverseList isList (.node a e b) = [e] := by simp [traverseList, he]

theorem upElems_node {isList : Nat → Bool} (l : Tree) (x : Nat) (a : Tree) (e : Nat) (b : Tree)
    (hx : isList x = true) (he : isList e = false) (hl : LeftSpine isList l) :
    upElems isList (.node l x (.node a e b)) = upElems isList l ++ [e] := by
  unfold upElems
  simp only [traverseList, hx, if_true, he, Bool.false_eq_true, if_false]
  cases htl : traverseList isList l with
  | nil => exact absurd htl (traverse_ne_nil l hl)
  | cons c cs => simp

/-- `do { tree = tree->left; } while (is_list(tree->left));` ends at the deepest list node, whose left
    child is the first element of the recursive traversal -/
theorem listDescend_spec (isList : Nat → Bool) (h : Heap) : ∀ (l : Tree) (x : Nat) (r : Tree) (f : Nat),
    isList x = true → listRooted isList l = true → LeftSpine isList (.node l x r) →
    ReprK (fun _ => false) h (.node l x r) none → size (.node l x r) ≤ f →
    ∃ d e0 dn, listDescend isList f h x = .ok d ∧ deepest isList (.node l x r) = some d ∧
      h d = some dn ∧ dn.left = some e0 ∧ dn.tag = false ∧
      (traverseList isList (.node l x r)).head? = some e0
  | .nil, _, _, _, _, hl, _, _, _ => by simp [listRooted] at hl
  | .node l' x1 r1, x, r, f, hx, hl, hs, ⟨hhx, ⟨hhx1, hrl', hrr1⟩, _⟩, hf => by
    have hx1 : isList x1 = true := hl
    simp only [LeftSpine, hx, hx1, if_true] at hs
    obtain ⟨_, _, hsl'⟩ := hs
    obtain ⟨f', rfl⟩ : ∃ f', f = f' + 1 := ⟨f - 1, by simp only [size] at hf; omega⟩
    have hhx' : h x = some ⟨some x1, false, rootK r none⟩ := hhx
    have hne := leftSpine_ne_nil hsl'
    cases hl'' : l' with
    | nil => exact absurd hl'' hne
    | node a z b =>
      subst hl''
      have hhx1' : h x1 = some ⟨some z, false, rootK r1 none⟩ := hhx1
      have hz : h z = some ⟨root a, false, rootK b none⟩ := hrl'.1
      by_cases hlz : isList z = true
      · -- the spine goes on
        have hsl : LeftSpine isList (.node (.node a z b) x1 r1) := by
          simp only [LeftSpine, hx1, if_true]; exact ⟨by assumption, hsl'⟩
        obtain ⟨d, e0, dn, hd, hdeep, hdn, hdl, hdt, hhead⟩ := listDescend_spec isList h (.node a z b) x1 r1 f' hx1 hlz hsl
          ⟨hhx1, hrl', hrr1⟩ (by simp only [size] at hf ⊢; omega)
        refine ⟨d, e0, dn, ?_, ?_, hdn, hdl, hdt, ?_⟩
        · rw [listDescend]
          simp only [hhx', hhx1', callFilter, hz, hlz, Bool.false_eq_true, if_false]
          exact hd
        · have : deepest isList (.node (.node (.node a z b) x1 r1) x r) = deepest isList (.node (.node a z b) x1 r1) := by
            simp [deepest, hx, listRooted, hx1]
          rw [this]; exact hdeep
        · have hne2 := traverse_ne_nil _ hsl
          have e1 : traverseList isList (.node (.node (.node a z b) x1 r1) x r) =
              traverseList isList (.node (.node a z b) x1 r1) ++ traverseList isList r := by
            rw [traverseList]; simp only [hx, if_true]
          rw [e1, head?_append_ne _ _ hne2]; exact hhead
      · -- `x1` is the deepest list node; its left child `z` is the first element
        have hlz' : isList z = false := by simpa using hlz
        refine ⟨x1, z, _, ?_, ?_, hhx1', rfl, rfl, ?_⟩
        · rw [listDescend]
          simp only [hhx', hhx1', callFilter, hz, hlz', Bool.false_eq_true, if_false]
        · simp [deepest, hx, listRooted, hx1, hlz']
        · simp [traverseList, hx, hx1, hlz']

theorem length_traverse_le (isList : Nat → Bool) : ∀ t : Tree, (traverseList isList t).length ≤ size t
  | .nil => by simp [traverseList, size]
  | .node l x r => by
    have h1 := length_traverse_le isList l
    have h2 := length_traverse_le isList r
    by_cases hx : isList x = true
    · simp only [traverseList, hx, if_true, List.length_append, size]; omega
    · have hx' : isList x = false := by simpa using hx
      simp only [traverseList, hx', Bool.false_eq_true, if_false, size, List.length_singleton]; omega

theorem head_tail_eq {α : Type} (xs : List α) (a : α) (h : xs.head? = some a) : a :: xs.tail = xs := by
  cases xs with
  | nil => simp at h
  | cons c cs => simp at h; simp [h]

theorem drainFrom_listLeft (isList : Nat → Bool) (g calls : Nat) (h : Heap) (c top : Ptr) :
    drainFrom isList g calls h ⟨.listLeft, c, top⟩ =
      match listLeftIterator g h ⟨.listLeft, c, top⟩ with
      | .error e => .error e
      | .ok (r, h1, it1) => drain isList g calls h1 it1 r := rfl

/-- **climbing a left-leaning spine.**  `s` is a sub-spine (rooted at the list node `x`) of the tree whose
    root is `top`; the walk from `top` reaches `x` after `n` steps for every target below `x`, and one
    call at `curr = x` returns `x`'s right element and moves `curr` to `k` (x's parent, or NULL when `x` is
    `top`).  Then from `curr` = the deepest list node of `s` the calls hand out `upElems s` and arrive at
    `curr = k`, never changing the heap. -/
theorem left_up (isList : Nat → Bool) (g : Nat) (h : Heap) (top : Nat) : ∀ (l : Tree) (x : Nat) (r : Tree) (n : Nat) (k : Ptr),
    isList x = true → LeftSpine isList (.node l x r) → ReprK (fun _ => false) h (.node l x r) none →
    Distinct (.node l x r) →
    (∀ c, c ∈ inorder l → ∀ f, listLeftWalk (f + n) h top c = listLeftWalk f h x c) →
    top ∉ inorder l →
    listLeftIterator g h ⟨.listLeft, some x, some top⟩ = .ok (root r, h, ⟨.listLeft, k, some top⟩) →
    n + size (.node l x r) ≤ g →
    ∃ d, deepest isList (.node l x r) = some d ∧ ∀ calls,
      drainFrom isList g (calls + (upElems isList (.node l x r)).length) h ⟨.listLeft, some d, some top⟩ =
        prependP ((upElems isList (.node l x r)).map (·, some top))
          (drainFrom isList g calls h ⟨.listLeft, k, some top⟩)
  | l, x, r, n, k, hx, hs, ⟨hhx, hrl, hrr⟩, nd, hreach, htop, hup, hg => by
    have d := distinct_node nd
    simp only [LeftSpine, hx, if_true] at hs
    obtain ⟨hre, hsl⟩ := hs
    obtain ⟨ra, er, rb, rfl, her⟩ := isElem_root hre
    cases hl : l with
    | nil => subst hl; exact absurd hsl (by simp [LeftSpine])
    | node l' x1 r1 =>
      subst hl
      by_cases hx1 : isList x1 = true
      · -- the spine goes on below: climb it first, then the step at x
        obtain ⟨hhx1, hrl', hrr1⟩ := hrl
        have dl := distinct_node d.left
        have hhx' : h x = some ⟨some x1, false, some er⟩ := hhx
        have hreach' : ∀ c, c ∈ inorder l' → ∀ f, listLeftWalk (f + (n + 1)) h top c = listLeftWalk f h x1 c := by
          intro c hc f
          have h1 := hreach c (mem_left hc) (f + 1)
          rw [show f + (n + 1) = f + 1 + n from by omega, h1, listLeftWalk]
          have hne : x1 ≠ c := fun e => dl.x_not_left (e ▸ hc)
          simp only [hhx', hne, if_false]
        have htop' : top ∉ inorder l' := fun hm => htop (mem_left hm)
        have hx1top : top ≠ x1 := fun e => htop (e ▸ mem_root)
        have hup' : listLeftIterator g h ⟨.listLeft, some x1, some top⟩ = .ok (root r1, h, ⟨.listLeft, some x, some top⟩) := by
          have hw : listLeftWalk g h top x1 = .ok x := by
            have h1 := hreach x1 mem_root (g - n)
            rw [show g - n + n = g from by omega] at h1
            rw [h1]
            obtain ⟨f', hf'⟩ : ∃ f', g - n = f' + 1 := ⟨g - n - 1, by simp only [size] at hg; omega⟩
            rw [hf', listLeftWalk]
            simp only [hhx', if_true]
          have hhx1' : h x1 = some ⟨root l', false, root r1⟩ := by
            rw [hhx1]; congr 2; cases r1 <;> rfl
          simp only [listLeftIterator, Option.some.injEq, hx1top, if_false, hw, hhx1']
        obtain ⟨dd, hdeep, hrun⟩ := left_up isList g h top l' x1 r1 (n + 1) (some x) hx1 hsl ⟨hhx1, hrl', hrr1⟩ d.left
          hreach' htop' hup' (by simp only [size] at hg ⊢; omega)
        refine ⟨dd, ?_, ?_⟩
        · have : deepest isList (.node (.node l' x1 r1) x (.node ra er rb)) = deepest isList (.node l' x1 r1) := by
            simp [deepest, hx, listRooted, hx1]
          rw [this]; exact hdeep
        · intro calls
          rw [upElems_node _ _ _ _ _ hx her hsl]
          rw [List.length_append, List.length_singleton, ← Nat.add_assoc, Nat.add_right_comm, hrun (calls + 1)]
          rw [drainFrom_listLeft isList g (calls + 1) h (some x), hup]
          simp only [root]
          rw [drain_some, consP_eq, prependP_append]
          simp
      · -- x is the deepest list node: one call hands out its right element
        have hx1' : isList x1 = false := by simpa using hx1
        refine ⟨x, by simp [deepest, hx, listRooted, hx1'], ?_⟩
        intro calls
        have hu : upElems isList (.node (.node l' x1 r1) x (.node ra er rb)) = [er] := by
          simp [upElems, traverseList, hx, hx1', her]
        rw [hu]
        simp only [List.length_singleton, List.map_cons, List.map_nil]
        rw [drainFrom_listLeft isList g (calls + 1) h (some x), hup]
        simp only [root]
        rw [drain_some, consP_eq]

end Librfn.Lemmas.Bintree

import Librfn.Lemmas.IsrMonSpec
/-! C06 refinement, events: the monitor's FIFO of claimed-and-unreceived events is the sequence of unreceived tickets of
the handler's event queue, so the stamp the handler reads is always the monitor's head: no `eventOutOfOrder` /
`eventFromNowhere` verdict.  Holds for every interleaving (`Reach`). -/
namespace Librfn.Isr.L
open Librfn.Model.MessageqConc Librfn.Model.FibreIsr Librfn.C04
open Librfn.Sched (Fid Ret)
open Librfn.Spec.IsrSpec
open Librfn.Model.Fibre (upd makeRunnable handleTimerq getNextTask fibreTimeout)

/-! ## the monitor's event FIFO against the event queue's tickets -/

/-- observations that leave the monitor's event FIFO alone (and can only shrink `mustGet` / `fresh`) -/
def EvNeutral : Obs → Prop
  | .evClaimed _ | .evSent _ _ | .evProcessed _ => False
  | _ => True

structure EvFrame (a a' : A) : Prop where
  evq : a'.evq = a.evq
  mg : ∀ st ∈ a'.mustGet, st ∈ a.mustGet
  fr : ∀ st ∈ a'.fresh, st ∈ a.fresh

theorem evFrame_refl (a : A) : EvFrame a a := ⟨rfl, fun _ h => h, fun _ h => h⟩
theorem EvFrame.trans {a b c : A} (h1 : EvFrame a b) (h2 : EvFrame b c) : EvFrame a c :=
  ⟨h2.evq.trans h1.evq, fun st h => h1.mg st (h2.mg st h), fun st h => h1.fr st (h2.fr st h)⟩

theorem evFrame_of_rest {a a' : A} (h : SpecRest a a') : EvFrame a a' :=
  ⟨h.evq, fun _ hs => h.mustGet ▸ hs, fun _ hs => h.fresh ▸ hs⟩

theorem evFrame_step (a : A) (o : Obs) (h : EvNeutral o) : EvFrame a (a.step o) := by
  cases o with
  | evClaimed st => exact False.elim h
  | evSent st ok => exact False.elim h
  | evProcessed st => exact False.elim h
  | accepted f => simp only [A.step]; split
                  · exact evFrame_refl _
                  · exact ⟨rfl, fun _ h => h, fun _ h => h⟩
  | rejected f => exact evFrame_refl _
  | dispatched f => exact ⟨rfl, fun _ h => h, fun _ h => h⟩
  | killed f =>
    simp only [A.step]
    split
    · exact ⟨rfl, fun _ h => absurd h List.not_mem_nil, fun _ h => absurd h List.not_mem_nil⟩
    · exact ⟨rfl, fun _ h => h, fun _ h => h⟩
  | passBegin => exact ⟨rfl, fun _ h => h, fun _ h => h⟩
  | looked => exact ⟨rfl, fun _ h => h, fun _ h => h⟩
  | bodyReturned y => exact ⟨rfl, fun _ h => h, fun _ h => h⟩
  | passEnd onTime => exact evFrame_of_rest (specRest_passEnd a onTime)
  | threadBegin => exact ⟨rfl, fun _ h => h, fun _ h => h⟩
  | threadEnd => exact ⟨rfl, fun _ h => h, fun _ h => h⟩

theorem SchedObs.evNeutral {o : Obs} (h : SchedObs o) : EvNeutral o := by
  cases o <;> first | exact False.elim h | trivial

theorem evFrame_emits {a a' : A} (h : EmitsP EvNeutral a a') : EvFrame a a' := by
  obtain ⟨l, hn, e⟩ := h
  subst e
  induction l generalizing a with
  | nil => exact evFrame_refl _
  | cons o l ih =>
    exact (evFrame_step a o (hn o List.mem_cons_self)).trans (ih (fun x hx => hn x (List.mem_cons_of_mem _ hx)))

/-- **the monitor's FIFO of claimed, unreceived events is the sequence of unreceived tickets of the event queue**, entry
    `j` being the stamp ticket `processed + j` carries or — while its claimer has not yet stored it — will carry -/
structure MonE (s : S) : Prop where
  len : s.a.evq.length + processed s.eq = s.eq.claimed
  stamp : ∀ j x, s.a.evq[j]? = some x →
      (∀ (i : Nat) (sl : BitVec 8) (st : Nat), s.ipc i = .evClaimed st → s.eq.senders[i]? = some (SPc.hasSlot sl (processed s.eq + j)) → x = st)
      ∧ ((∀ (i : Nat) (sl : BitVec 8), s.eq.senders[i]? ≠ some (SPc.hasSlot sl (processed s.eq + j))) → x = s.eq.written (processed s.eq + j))
  mg : ∀ st ∈ s.a.mustGet, st ∈ s.a.evq
  fr : ∀ st ∈ s.a.fresh, st ∈ s.a.evq

/-- nothing the invariant reads has changed except that the monitor made neutral observations -/
theorem monE_frame {s s' : S} (h : MonE s) (heq : s'.eq = s.eq) (hipc : s'.ipc = s.ipc) (ha : EvFrame s.a s'.a) : MonE s' := by
  refine ⟨by rw [ha.evq, heq]; exact h.len, ?_, fun st hs => ha.evq ▸ h.mg st (ha.mg st hs), fun st hs => ha.evq ▸ h.fr st (ha.fr st hs)⟩
  rw [ha.evq, heq, hipc]; exact h.stamp

def IsHasSlot : SPc → Prop
  | .hasSlot _ _ => True
  | _ => False

/-- a sender's step that does not end at `hasSlot` has not handed out a ticket -/
theorem claimed_of_not_hasSlot (q : St) (i : Nat) (sp : Bool) (v : Nat) (pc pc' : SPc) (h : q.senders[i]? = some pc)
    (h' : (step q (.sender i sp v)).senders[i]? = some pc') (hn : ¬ IsHasSlot pc') :
    (step q (.sender i sp v)).claimed = q.claimed := by
  have hl := lt_of_some h
  rw [step_of q i sp v _ h] at h' ⊢
  cases pc with
  | idle => simp only [stepSender]; split <;> rfl
  | loadedFree w => simp only [stepSender]; split <;> (try split) <;> rfl
  | gotPerm => simp only [stepSender]
  | hasSlot sl k => simp only [stepSender]
  | wrote sl k => simp only [stepSender]
  | loaded w =>
    simp only [stepSender] at h' ⊢
    split
    · rename_i hc
      rw [if_pos hc] at h'
      simp only [List.getElem?_set_self hl] at h'
      injection h' with h'; subst h'; exact False.elim (hn trivial)
    · rfl

/-- the compare-exchange that succeeds hands out ticket `claimed` -/
theorem cas_ok_facts (q : St) (i : Nat) (sp : Bool) (v : Nat) (pc : SPc) (h : q.senders[i]? = some pc) (hc : InClaim pc)
    (sl : BitVec 8) (k : Nat) (h' : (step q (.sender i sp v)).senders[i]? = some (.hasSlot sl k)) :
    k = q.claimed ∧ (step q (.sender i sp v)).claimed = q.claimed + 1 ∧ (step q (.sender i sp v)).written = q.written := by
  have hl := lt_of_some h
  rw [step_of q i sp v _ h] at h' ⊢
  cases pc with
  | idle =>
    simp only [stepSender] at h'
    split at h' <;> (simp only [List.getElem?_set_self hl] at h'; cases h')
  | loadedFree w =>
    simp only [stepSender] at h'
    split at h'
    · simp only [List.getElem?_set_self hl] at h'; cases h'
    · split at h' <;> (simp only [List.getElem?_set_self hl] at h'; cases h')
  | gotPerm => simp only [stepSender, List.getElem?_set_self hl] at h'; cases h'
  | hasSlot sl k => exact False.elim hc
  | wrote sl k => exact False.elim hc
  | loaded w =>
    simp only [stepSender] at h' ⊢
    split
    · rename_i hcas
      rw [if_pos hcas] at h'
      simp only [List.getElem?_set_self hl] at h'
      injection h' with h'; injection h' with e1 e2
      exact ⟨e2.symm, rfl, rfl⟩
    · rename_i hcas
      rw [if_neg hcas] at h'
      simp only [List.getElem?_set_self hl] at h'
      cases h'

theorem processed_sender (q : St) (i : Nat) (sp : Bool) (v : Nat) : processed (step q (.sender i sp v)) = processed q := by
  unfold processed; rw [sender_recv, sender_received]

/-- a step of sender `i` in the event queue that neither starts nor ends at `hasSlot` -/
theorem monE_eq_quiet {s s' : S} (h : MonE s) (i : Nat) (sp : Bool) (v : Nat) (pc pc' : SPc)
    (heq : s'.eq = step s.eq (.sender i sp v)) (hpc : s.eq.senders[i]? = some pc) (hn : ¬ IsHasSlot pc)
    (hpc' : s'.eq.senders[i]? = some pc') (hn' : ¬ IsHasSlot pc')
    (hipc : ∀ j, j ≠ i → s'.ipc j = s.ipc j) (ha : s'.a = s.a) : MonE s' := by
  have hcl : s'.eq.claimed = s.eq.claimed := by
    rw [heq]; exact claimed_of_not_hasSlot s.eq i sp v pc pc' hpc (heq ▸ hpc') hn'
  have hp : processed s'.eq = processed s.eq := by rw [heq]; exact processed_sender _ _ _ _
  have hw : ∀ k, s'.eq.written k = s.eq.written k := by
    intro k
    rw [heq]
    rcases sender_written s.eq i sp v k with e | ⟨sl, e⟩
    · exact e
    · rw [hpc] at e; injection e with e; subst e; exact False.elim (hn trivial)
  refine ⟨by rw [ha, hp, hcl]; exact h.len, ?_, by rw [ha]; exact h.mg, by rw [ha]; exact h.fr⟩
  intro j x hx
  rw [ha] at hx
  obtain ⟨c1, c2⟩ := h.stamp j x hx
  rw [hp]
  constructor
  · intro i' sl st hi' hs'
    by_cases hii : i' = i
    · subst hii; rw [hpc'] at hs'; injection hs' with hs'; subst hs'; exact False.elim (hn' trivial)
    · rw [heq, sender_other _ _ _ _ _ hii] at hs'
      exact c1 i' sl st (hipc i' hii ▸ hi') hs'
  · intro hno
    rw [hw]
    apply c2
    intro i' sl hs
    by_cases hii : i' = i
    · subst hii; rw [hpc] at hs; injection hs with hs; subst hs; exact hn trivial
    · exact hno i' sl (by rw [heq, sender_other _ _ _ _ _ hii]; exact hs)

/-- the compare-exchange of `fibre_eventq_claim` succeeds: the event joins the monitor's FIFO as the new last ticket -/
theorem monE_cas {s s' : S} (h1 : Inv1 s) (h : MonE s) (i : Nat) (st : Nat) (pc : SPc) (sl : BitVec 8) (k : Nat)
    (heq : s'.eq = step s.eq (.sender i false st)) (hpc : s.eq.senders[i]? = some pc) (hc : InClaim pc)
    (hpc' : s'.eq.senders[i]? = some (.hasSlot sl k))
    (hipc : s'.ipc = upd s.ipc i (.evClaimed st)) (ha : s'.a = s.a.step (.evClaimed st)) : MonE s' := by
  obtain ⟨hk, hcl, hw⟩ := cas_ok_facts s.eq i false st pc hpc hc sl k (heq ▸ hpc')
  have hp : processed s'.eq = processed s.eq := by rw [heq]; exact processed_sender _ _ _ _
  have hevq : s'.a.evq = s.a.evq ++ [st] := by rw [ha]; rfl
  have hlen := h.len
  have hnot : ¬ IsHasSlot pc := by cases pc <;> first | exact False.elim hc | exact fun h => h
  refine ⟨?_, ?_, ?_, ?_⟩
  · rw [hevq, List.length_append, hp, heq, hcl]; simp only [List.length_singleton]; omega
  · intro j x hx
    rw [hevq] at hx
    rw [hp]
    by_cases hj : j < s.a.evq.length
    · rw [List.getElem?_append_left hj] at hx
      obtain ⟨c1, c2⟩ := h.stamp j x hx
      constructor
      · intro i' sl' st' hi' hs'
        by_cases hii : i' = i
        · subst hii
          rw [hpc'] at hs'; injection hs' with hs'; injection hs' with _ e2
          omega
        · rw [heq, sender_other _ _ _ _ _ hii] at hs'
          rw [hipc, upd_other _ _ _ _ hii] at hi'
          exact c1 i' sl' st' hi' hs'
      · intro hno
        rw [heq, hw]
        apply c2
        intro i' sl' hs
        by_cases hii : i' = i
        · subst hii; rw [hpc] at hs; injection hs with hs; subst hs; exact hnot trivial
        · exact hno i' sl' (by rw [heq, sender_other _ _ _ _ _ hii]; exact hs)
    · have hjl : j = s.a.evq.length := by
        have := (List.getElem?_eq_some_iff.mp hx).1
        simp only [List.length_append, List.length_singleton] at this
        omega
      subst hjl
      rw [List.getElem?_append_right (Nat.le_refl _)] at hx
      simp only [Nat.sub_self, List.getElem?_cons_zero, Option.some.injEq] at hx
      subst hx
      constructor
      · intro i' sl' st' hi' hs'
        by_cases hii : i' = i
        · subst hii
          rw [hipc, upd_same] at hi'; injection hi' with hi'
        · rw [heq, sender_other _ _ _ _ _ hii] at hs'
          have hheld : Held s.eq i' sl' _ := h1.eqInv.senders i' _ hs'
          have := hheld.2.1
          omega
      · intro hno
        exact absurd (by rw [hpc']; congr 2; omega) (hno i sl)
  · intro st' hs'
    rw [hevq]
    have : s'.a.mustGet = s.a.mustGet := by rw [ha]; rfl
    exact List.mem_append_left _ (h.mg st' (this ▸ hs'))
  · intro st' hs'
    rw [hevq]
    have : s'.a.fresh = s.a.fresh ++ [st] := by rw [ha]; rfl
    rw [this] at hs'
    rcases List.mem_append.mp hs' with e | e
    · exact List.mem_append_left _ (h.fr st' e)
    · exact List.mem_append_right _ e

/-- `*p = stamp`: the ticket now carries the stamp the monitor recorded at the claim -/
theorem monE_write {s s' : S} (h : MonE s) (i : Nat) (st : Nat) (sl : BitVec 8) (k : Nat)
    (heq : s'.eq = step s.eq (.sender i false st)) (hpc : s.eq.senders[i]? = some (.hasSlot sl k))
    (hi : s.ipc i = .evClaimed st) (hipc : ∀ j, j ≠ i → s'.ipc j = s.ipc j) (ha : s'.a = s.a) : MonE s' := by
  have hst := step_hasSlot s.eq i false st sl k hpc
  have hp : processed s'.eq = processed s.eq := by rw [heq]; exact processed_sender _ _ _ _
  have hcl : s'.eq.claimed = s.eq.claimed := by rw [heq]; exact hst.2.2.2
  refine ⟨by rw [ha, hp, hcl]; exact h.len, ?_, by rw [ha]; exact h.mg, by rw [ha]; exact h.fr⟩
  intro j x hx
  rw [ha] at hx
  obtain ⟨c1, c2⟩ := h.stamp j x hx
  rw [hp]
  constructor
  · intro i' sl' st' hi' hs'
    by_cases hii : i' = i
    · subst hii; rw [heq, hst.1] at hs'; cases hs'
    · rw [heq, sender_other _ _ _ _ _ hii] at hs'
      exact c1 i' sl' st' (hipc i' hii ▸ hi') hs'
  · intro hno
    by_cases hk : processed s.eq + j = k
    · rw [hk, heq, hst.2.1]
      exact c1 i sl st hi (hk ▸ hpc)
    · have hw : s'.eq.written (processed s.eq + j) = s.eq.written (processed s.eq + j) := by
        rw [heq]
        rcases sender_written s.eq i false st (processed s.eq + j) with e | ⟨sl', e⟩
        · exact e
        · rw [hpc] at e; injection e with e; injection e with _ e2; exact absurd e2.symm hk
      rw [hw]
      apply c2
      intro i' sl' hs
      by_cases hii : i' = i
      · subst hii; rw [hpc] at hs; injection hs with hs; injection hs with _ e2; exact hk e2.symm
      · exact hno i' sl' (by rw [heq, sender_other _ _ _ _ _ hii]; exact hs)

theorem inClaim_not_hasSlot {pc : SPc} (h : InClaim pc) : ¬ IsHasSlot pc := by
  cases pc <;> first | exact False.elim h | exact fun h => h

/-- only the control location of sender `i` changed, neither to nor from `evClaimed` -/
theorem monE_ipc {s s' : S} (h : MonE s) (i : Nat) (heq : s'.eq = s.eq) (ha : EvFrame s.a s'.a)
    (hipc : ∀ j, j ≠ i → s'.ipc j = s.ipc j) (hold : ∀ st, s.ipc i ≠ .evClaimed st) (hnew : ∀ st, s'.ipc i ≠ .evClaimed st) :
    MonE s' := by
  refine ⟨by rw [ha.evq, heq]; exact h.len, ?_, fun st hs => ha.evq ▸ h.mg st (ha.mg st hs), fun st hs => ha.evq ▸ h.fr st (ha.fr st hs)⟩
  intro j x hx
  rw [ha.evq] at hx
  obtain ⟨c1, c2⟩ := h.stamp j x hx
  rw [heq]
  refine ⟨fun i' sl st hi' hs' => ?_, c2⟩
  by_cases hii : i' = i
  · subst hii; exact absurd hi' (hnew st)
  · exact c1 i' sl st (hipc i' hii ▸ hi') hs'

theorem monE_senderAtomic {s : S} (h1 : Inv1 s) (h : MonE s) (i : Nat) (hi : i < 3) : MonE (senderAtomic i s) := by
  have hs := h1.senders i hi
  unfold senderAtomic
  split
  · -- evClaim
    rename_i st hpc
    rw [hpc] at hs
    obtain ⟨⟨pc, hq, hc⟩, _⟩ := hs
    split
    · rename_i sl k hres
      exact monE_cas h1 h i st pc sl k rfl hq hc hres rfl rfl
    · rename_i hres
      exact monE_eq_quiet h i false st pc .idle rfl hq (inClaim_not_hasSlot hc) hres (fun h => h)
        (fun j hj => upd_other _ _ _ _ hj) rfl
    · rename_i hn1 hn2
      cases hres : (mqStep s.eq (.sender i false st)).senders[i]? with
      | none =>
        have := sender_senders_length s.eq i false st
        have hl := lt_of_some hq
        rw [List.getElem?_eq_none_iff] at hres
        have : (mqStep s.eq (.sender i false st)).senders.length = s.eq.senders.length := this
        omega
      | some pc' =>
        refine monE_eq_quiet h i false st pc pc' rfl hq (inClaim_not_hasSlot hc) hres ?_ (fun j _ => rfl) rfl
        intro hh
        cases pc' with
        | hasSlot sl k => exact hn1 sl k hres
        | _ => exact hh
  · rename_i st hpc
    exact monE_ipc h i rfl (evFrame_refl _) (fun j hj => upd_other _ _ _ _ hj) (by rw [hpc]; simp)
      (by intro st'; show upd s.ipc i _ i ≠ _; rw [upd_same]; simp)
  · -- evSend
    rename_i st hpc
    rw [hpc] at hs
    obtain ⟨⟨sl, k, hq, _⟩, _⟩ := hs
    exact monE_eq_quiet h i false st _ .idle rfl hq (fun h => h) (step_wrote s.eq i false st sl k hq).1 (fun h => h)
      (fun j hj => upd_other _ _ _ _ hj) rfl
  · rename_i f ev hpc
    split
    · exact monE_ipc h i rfl (evFrame_refl _) (fun j hj => upd_other _ _ _ _ hj) (by rw [hpc]; simp)
        (by intro st'; show upd s.ipc i _ i ≠ _; rw [upd_same]; simp)
    · exact monE_ipc h i rfl (evFrame_refl _) (fun j hj => upd_other _ _ _ _ hj) (by rw [hpc]; simp)
        (by intro st'; show upd s.ipc i _ i ≠ _; rw [upd_same]; simp)
    · exact monE_frame h rfl rfl (evFrame_refl _)
  · rename_i f ev hpc
    exact monE_ipc h i rfl (evFrame_refl _) (fun j hj => upd_other _ _ _ _ hj) (by rw [hpc]; simp)
      (by intro st'; show upd s.ipc i _ i ≠ _; rw [upd_same]; simp)
  · rename_i f ev hpc
    exact monE_ipc h i rfl (evFrame_step s.a (.accepted f) trivial) (fun j hj => upd_other _ _ _ _ hj) (by rw [hpc]; simp)
      (by intro st'; show upd s.ipc i _ i ≠ _; rw [upd_same]; simp)
  · exact h

theorem step_evSent_false (a : A) (st : Nat) : a.step (.evSent st false) = a := by
  simp [A.step]

theorem monE_ipc' {s s' : S} (h : MonE s) (i : Nat) (heq : s'.eq = s.eq) (hevq : s'.a.evq = s.a.evq)
    (hmg : ∀ st ∈ s'.a.mustGet, st ∈ s.a.evq) (hfr : ∀ st ∈ s'.a.fresh, st ∈ s.a.evq)
    (hipc : ∀ j, j ≠ i → s'.ipc j = s.ipc j) (hnew : ∀ st, s'.ipc i ≠ .evClaimed st) :
    MonE s' := by
  refine ⟨by rw [hevq, heq]; exact h.len, ?_, fun st hs => hevq ▸ hmg st hs, fun st hs => hevq ▸ hfr st hs⟩
  intro j x hx
  rw [hevq] at hx
  obtain ⟨c1, c2⟩ := h.stamp j x hx
  rw [heq]
  refine ⟨fun i' sl st hi' hs' => ?_, c2⟩
  by_cases hii : i' = i
  · subst hii; exact absurd hi' (hnew st)
  · exact c1 i' sl st (hipc i' hii ▸ hi') hs'

theorem monE_senderPlain {s : S} (h1 : Inv1 s) (h : MonE s) (i : Nat) (hi : i < 3) : MonE (senderPlain i s) := by
  have hs := h1.senders i hi
  have idleNew : ∀ (pc : IPc), (∀ st, pc ≠ .evClaimed st) → ∀ st, upd s.ipc i pc i ≠ .evClaimed st := by
    intro pc hp st; rw [upd_same]; exact hp st
  unfold senderPlain
  split
  · rename_i st hpc
    rw [hpc] at hs
    obtain ⟨⟨sl, k, hq⟩, _⟩ := hs
    exact monE_write h i st sl k rfl hq hpc (fun j hj => upd_other _ _ _ _ hj) rfl
  · exact monE_ipc' h i rfl rfl h.mg h.fr (fun j hj => upd_other _ _ _ _ hj) (idleNew _ (by simp))
  · exact monE_ipc' h i rfl rfl h.mg h.fr (fun j hj => upd_other _ _ _ _ hj) (idleNew _ (by simp))
  · exact monE_ipc' h i rfl rfl h.mg h.fr (fun j hj => upd_other _ _ _ _ hj) (idleNew _ (by simp))
  · exact monE_ipc' h i rfl rfl h.mg h.fr (fun j hj => upd_other _ _ _ _ hj) (idleNew _ (by simp))
  · exact monE_ipc' h i rfl rfl h.mg h.fr (fun j hj => upd_other _ _ _ _ hj) (idleNew _ (by simp))
  · rename_i f ev hpc
    cases ev with
    | none => exact monE_ipc' h i rfl rfl h.mg h.fr (fun j hj => upd_other _ _ _ _ hj) (idleNew _ (by simp))
    | some st =>
      refine monE_ipc' h i rfl ?_ ?_ ?_ (fun j hj => upd_other _ _ _ _ hj) (idleNew _ (by simp))
      · show ((s.a.step (.rejected f)).step (.evSent st false)).evq = _; rw [step_evSent_false]; rfl
      · show ∀ st' ∈ ((s.a.step (.rejected f)).step (.evSent st false)).mustGet, _; rw [step_evSent_false]; exact h.mg
      · show ∀ st' ∈ ((s.a.step (.rejected f)).step (.evSent st false)).fresh, _; rw [step_evSent_false]; exact h.fr
  · rename_i f ev hpc
    cases ev with
    | none => exact monE_ipc' h i rfl rfl h.mg h.fr (fun j hj => upd_other _ _ _ _ hj) (idleNew _ (by simp))
    | some st =>
      have hcases : s.a.step (.evSent st true) = s.a ∨
          (st ∈ s.a.fresh ∧ s.a.step (.evSent st true) = { s.a with mustGet := s.a.mustGet ++ [st] }) := by
        simp only [A.step]
        split
        · rename_i hc; exact Or.inr ⟨hc.2.2, rfl⟩
        · exact Or.inl rfl
      rcases hcases with e | ⟨hfr, e⟩
      · refine monE_ipc' h i rfl ?_ ?_ ?_ (fun j hj => upd_other _ _ _ _ hj) (idleNew _ (by simp))
        · show (s.a.step (.evSent st true)).evq = _; rw [e]
        · show ∀ st' ∈ (s.a.step (.evSent st true)).mustGet, _; rw [e]; exact h.mg
        · show ∀ st' ∈ (s.a.step (.evSent st true)).fresh, _; rw [e]; exact h.fr
      · refine monE_ipc' h i rfl ?_ ?_ ?_ (fun j hj => upd_other _ _ _ _ hj) (idleNew _ (by simp))
        · show (s.a.step (.evSent st true)).evq = _; rw [e]
        · show ∀ st' ∈ (s.a.step (.evSent st true)).mustGet, _; rw [e]
          intro st' hm
          rcases List.mem_append.mp hm with hm | hm
          · exact h.mg st' hm
          · rw [List.mem_singleton] at hm; subst hm; exact h.fr _ hfr
        · show ∀ st' ∈ (s.a.step (.evSent st true)).fresh, _; rw [e]; exact h.fr
  · exact h

theorem processed_receive {q : St} (h : q.recv = .idle) : processed (step q (.recv false)) = processed q := by
  rw [processed_idle h]
  rcases receive_cases q h with ⟨e1, e2⟩ | ⟨e1, e2⟩
  · rw [processed_idle e1, e2]
  · unfold processed; rw [e1, e2]; simp

theorem processed_release {q : St} {sl : BitVec 8} {k v : Nat} (hr : q.recv = .read sl k v) :
    processed (step q (.recv false)) = processed q := by
  unfold processed
  rw [recv_from_read q sl k v hr false, hr, recv_received_busy q false (by rw [hr]; simp) (by rw [hr]; simp)]

/-- the receiver's fetch_and / fetch_add: the number of processed events is unchanged -/
theorem monE_recv {s s' : S} (h : MonE s) (heq : s'.eq = step s.eq (.recv false)) (hp : processed s'.eq = processed s.eq)
    (hipc : s'.ipc = s.ipc) (ha : s'.a = s.a) : MonE s' := by
  refine ⟨by rw [ha, hp, heq, recv_claimed]; exact h.len, ?_, by rw [ha]; exact h.mg, by rw [ha]; exact h.fr⟩
  intro j x hx
  rw [ha] at hx
  rw [hp, hipc, heq, recv_senders, recv_written]
  exact h.stamp j x hx

theorem monE_mainAtomic {s : S} (h1 : Inv1 s) (h : MonE s) : MonE (mainAtomic s) := by
  have hm := h1.mainEq
  unfold mainAtomic
  split
  · exact monE_frame h rfl rfl (evFrame_step s.a .looked trivial)
  · exact monE_frame h rfl rfl (evFrame_refl _)
  · exact monE_frame h rfl rfl (evFrame_refl _)
  · exact monE_frame h rfl rfl (evFrame_refl _)
  · rename_i hpc
    rw [hpc] at hm
    exact monE_recv h rfl (processed_receive hm) rfl rfl
  · rename_i hpc
    rw [hpc] at hm
    obtain ⟨sl, k, v, hr⟩ := hm
    exact monE_recv h rfl (processed_release hr) rfl rfl
  · exact monE_frame h rfl rfl (evFrame_step s.a .looked trivial)
  · exact h

/-- `process(e)`: the stamp read is the head of the monitor's FIFO -/
theorem head_is_stamp {s : S} (h1 : Inv1 s) (h : MonE s) (sl : BitVec 8) (k : Nat) (hr : s.eq.recv = .hold sl k) :
    ∃ r, s.a.evq = s.eq.payload sl.toNat :: r := by
  have hrv := h1.eqInv.recv
  rw [hr] at hrv
  have hk : k + 1 = s.eq.received := hrv.1
  have hp0 : processed s.eq = k := by unfold processed; rw [hr]; simp only; omega
  have ho2 := h1.eqInv.order2
  have hlen := h.len
  cases hev : s.a.evq with
  | nil => rw [hev] at hlen; simp at hlen; omega
  | cons x r =>
    refine ⟨r, ?_⟩
    have hx : s.a.evq[0]? = some x := by rw [hev]; rfl
    have := (h.stamp 0 x hx).2 (by
      intro i sl' hs
      have hheld : Held s.eq i sl' _ := h1.eqInv.senders i _ hs
      have h3 := hheld.2.2.1
      rw [hp0, Nat.add_zero] at h3
      rw [hrv.2.2.2] at h3; cases h3)
    rw [hp0, Nat.add_zero] at this
    rw [this, hold_payload h1.eqInv hr]

theorem monE_process {s : S} (h1 : Inv1 s) (h : MonE s) (sl : BitVec 8) (k : Nat) (hr : s.eq.recv = .hold sl k) :
    MonE (tok (.proc (s.eq.payload sl.toNat)) (emit (.evProcessed (s.eq.payload sl.toNat))
        { s with eq := mqStep s.eq (.recv false), mpc := .hRel, evlog := s.evlog ++ [s.eq.payload sl.toNat] })) := by
  obtain ⟨r, hev⟩ := head_is_stamp h1 h sl k hr
  have hrv := h1.eqInv.recv
  rw [hr] at hrv
  have hk : k + 1 = s.eq.received := hrv.1
  have hp0 : processed s.eq = k := by unfold processed; rw [hr]; simp only; omega
  have hp1 : processed (step s.eq (.recv false)) = k + 1 := by
    unfold processed
    rw [recv_from_hold s.eq sl k hr false, recv_received_busy s.eq false (by rw [hr]; simp) (by rw [hr]; simp)]
    exact hk.symm
  have ha : (s.a.step (.evProcessed (s.eq.payload sl.toNat))) =
      { s.a with evq := r, got := s.a.got ++ [s.eq.payload sl.toNat],
                 mustGet := s.a.mustGet.filter (· ≠ s.eq.payload sl.toNat), fresh := s.a.fresh.filter (· ≠ s.eq.payload sl.toNat) } := by
    simp only [A.step, hev, if_true]
  have hlen := h.len
  rw [hev] at hlen
  simp only [List.length_cons] at hlen
  refine ⟨?_, ?_, ?_, ?_⟩
  · show (s.a.step _).evq.length + processed (step s.eq _) = (step s.eq _).claimed
    rw [ha, hp1, recv_claimed]; simp only; omega
  · intro j x hx
    have hx' : (s.a.step (.evProcessed (s.eq.payload sl.toNat))).evq[j]? = some x := hx
    rw [ha] at hx'
    have hx2 : s.a.evq[j + 1]? = some x := by rw [hev]; exact hx'
    obtain ⟨c1, c2⟩ := h.stamp (j + 1) x hx2
    show (∀ i sl' st, s.ipc i = _ → (step s.eq _).senders[i]? = some (SPc.hasSlot sl' (processed (step s.eq _) + j)) → x = st)
      ∧ ((∀ i sl', (step s.eq _).senders[i]? ≠ some (SPc.hasSlot sl' (processed (step s.eq _) + j))) → x = (step s.eq _).written (processed (step s.eq _) + j))
    rw [hp1, recv_senders, recv_written]
    have e : k + 1 + j = processed s.eq + (j + 1) := by omega
    rw [e]; exact ⟨c1, c2⟩
  · intro st hs
    have hs' : st ∈ (s.a.step (.evProcessed (s.eq.payload sl.toNat))).mustGet := hs
    rw [ha] at hs'
    have hm := List.mem_filter.mp hs'
    have := h.mg st hm.1
    rw [hev] at this
    show st ∈ (s.a.step _).evq
    rw [ha]
    rcases List.mem_cons.mp this with e | e
    · exact absurd e (by simpa using hm.2)
    · exact e
  · intro st hs
    have hs' : st ∈ (s.a.step (.evProcessed (s.eq.payload sl.toNat))).fresh := hs
    rw [ha] at hs'
    have hm := List.mem_filter.mp hs'
    have := h.fr st hm.1
    rw [hev] at this
    show st ∈ (s.a.step _).evq
    rw [ha]
    rcases List.mem_cons.mp this with e | e
    · exact absurd e (by simpa using hm.2)
    · exact e

theorem monE_sched {s s' : S} (h : MonE s) (hf : SchedFrame s s') (ha : EmitsP SchedObs s.a s'.a) : MonE s' :=
  monE_frame h hf.eq hf.ipc (evFrame_emits (ha.mono fun _ => SchedObs.evNeutral))

theorem monE_mainPlain {s : S} (h1 : Inv1 s) (h : MonE s) : MonE (mainPlain s) := by
  have hm := h1.mainEq
  unfold mainPlain
  split
  · rename_i c _
    cases c with
    | next t =>
      simp only [startCall]; unfold startNext
      split <;> exact monE_frame h rfl rfl (evFrame_step s.a .passBegin trivial)
    | run f => exact monE_frame h rfl rfl (evFrame_refl _)
    | kill f => exact monE_frame h rfl rfl (evFrame_refl _)
  · split
    · exact monE_sched h (frame_dispatch ⟨rfl, rfl, rfl, rfl⟩) (sched_dispatch s)
    · exact monE_frame h rfl rfl (evFrame_refl _)
  · split
    · exact monE_frame h rfl rfl (evFrame_refl _)
    · exact monE_sched h (frame_afterDrain ⟨rfl, rfl, rfl, rfl⟩ _) (sched_afterDrain s _)
  · exact monE_frame h rfl rfl (evFrame_refl _)
  · refine monE_sched h (frame_afterUpdate (resetPriv_same s)) ?_
    have : (resetPriv s).a = s.a := by unfold resetPriv; split <;> rfl
    rw [← this]; exact sched_afterUpdate _
  · rename_i hpc
    split
    · rename_i sl k hr
      exact monE_process h1 h sl k hr
    · exact monE_sched h (frame_returned ⟨rfl, rfl, rfl, rfl⟩ _) (sched_returned s _)
  · exact monE_frame h rfl rfl (evFrame_refl _)
  · exact monE_sched h (frame_finishPass ⟨rfl, rfl, rfl, rfl⟩ _) (sched_finishPass s _)
  · exact h

/-- **`MonE` holds in every reachable state (any interleaving)** -/
theorem reach_monE {s : S} (hr : Reach s) : MonE s := by
  induction hr with
  | init d kinds budgets h1 h32 =>
    exact ⟨rfl, fun j x hx => by simp [initWith] at hx, fun _ h => absurd h List.not_mem_nil, fun _ h => absurd h List.not_mem_nil⟩
  | mainPlain hr ih => exact monE_mainPlain (reach_inv1 hr) ih
  | mainAtomic hr ih => exact monE_mainAtomic (reach_inv1 hr) ih
  | senderPlain i hi hr ih => exact monE_senderPlain (reach_inv1 hr) ih i hi
  | senderAtomic i hi hr ih => exact monE_senderAtomic (reach_inv1 hr) ih i hi
  | enterMain c _ hidle ih => exact monE_frame ih rfl rfl (evFrame_refl _)
  | enterSender i c hi _ hidle ih =>
    refine monE_ipc' ih i rfl rfl ih.mg ih.fr (fun j hj => upd_other _ _ _ _ hj) ?_
    intro st
    show upd _ i (startPc c) i ≠ _
    rw [upd_same]
    cases c <;> simp [startPc]
  | tok t _ ih => exact monE_frame ih rfl rfl (evFrame_refl _)
  | hung _ ih => exact monE_frame ih rfl rfl (evFrame_refl _)
  | nops k _ ih => exact monE_frame ih rfl rfl (evFrame_refl _)
  | newItem _ ih => exact monE_frame ih rfl rfl (evFrame_refl _)
  | noYields _ ih => exact monE_frame ih rfl rfl (evFrame_refl _)
  | setBody b r _ ih => exact monE_frame ih rfl rfl (evFrame_refl _)
  | observe o ho _ ih =>
    refine monE_frame ih rfl rfl (evFrame_step _ o ?_)
    rcases ho with e | e <;> subst e <;> trivial

/-- the monitor never sees an event out of order: what the handler is about to process is the head of its FIFO -/
theorem verdict_evProcessed {s : S} (hr : Reach s) (sl : BitVec 8) (k : Nat) (hrecv : s.eq.recv = .hold sl k) :
    (s.a.step (.evProcessed (s.eq.payload sl.toNat))).verdict = s.a.verdict := by
  obtain ⟨r, hev⟩ := head_is_stamp (reach_inv1 hr) (reach_monE hr) sl k hrecv
  simp only [A.step, hev, if_true]

end Librfn.Isr.L

import Librfn.Lemmas.SchedRefine
/-! Time-shift invariance of the concrete model (C02): adding any constant `c : BitVec 32` to every time
stamp of a history (pass times and due times) changes nothing but the returned wake-up times, which move by
`c`.  This is the formal content of "behaviour is identical when the 32-bit tick counter wraps": every
placement of the time base in the ring is a shift of every other.  Holds for **all** histories, in scope or
not; about the model with the *generated* `cyclecmp32`. -/
namespace Librfn.Sched.L
open Librfn.Sched Librfn.Model.Fibre

theorem notAfter_shift (a b c : BitVec 32) : notAfter (a + c) (b + c) = notAfter a b := by
  unfold notAfter
  rw [cyclecmp32_tie, cyclecmp32_tie]
  have : (a + c) - (b + c) = a - b := by bv_omega
  rw [this]

theorem dueGe_shift (due due' : Fid → BitVec 32) (f x : Fid) (c : BitVec 32)
    (hf : due' f = due f + c) (hx : due' x = due x + c) : dueGe due' f x = dueGe due f x := by
  unfold dueGe
  have : due' f - due' x = due f - due x := by rw [hf, hx]; bv_omega
  rw [this]

/-- the shifted copy of a state: same queues, same current / state / priv; the stored due time of every
    fibre **on the timer queue** is shifted (stale due times of other fibres are never read) -/
structure Sh (c : BitVec 32) (k k' : K) : Prop where
  runq : k'.runq = k.runq
  timerq : k'.timerq = k.timerq
  atomq : k'.atomq = k.atomq
  current : k'.current = k.current
  state : k'.state = k.state
  priv : k'.priv = k.priv
  due : ∀ f ∈ k.timerq, k'.due f = k.due f + c

theorem Sh.refl_init (c : BitVec 32) : Sh c Model.Fibre.init Model.Fibre.init :=
  ⟨rfl, rfl, rfl, rfl, rfl, rfl, fun f hf => nomatch hf⟩

theorem sh_makeRunnable {c : BitVec 32} {k k' : K} (h : Sh c k k') (f : Fid) :
    Sh c (makeRunnable k f) (makeRunnable k' f) ∧ (makeRunnable k' f).now = k'.now ∧ (makeRunnable k f).now = k.now := by
  unfold makeRunnable
  rw [h.runq]
  by_cases hf : f ∈ k.runq
  · rw [if_pos hf, if_pos hf]; exact ⟨h, rfl, rfl⟩
  · rw [if_neg hf, if_neg hf]
    refine ⟨⟨?_, ?_, h.atomq, h.current, h.state, h.priv, ?_⟩, rfl, rfl⟩
    · rfl
    · show k'.timerq.erase f = k.timerq.erase f; rw [h.timerq]
    · intro g hg; exact h.due g (List.erase_sublist.subset hg)

theorem sh_foldl {c : BitVec 32} (l : List Fid) : ∀ (k k' : K), Sh c k k' →
    Sh c (l.foldl makeRunnable k) (l.foldl makeRunnable k') ∧ (l.foldl makeRunnable k').now = k'.now
    ∧ (l.foldl makeRunnable k).now = k.now := by
  induction l with
  | nil => intro k k' h; exact ⟨h, rfl, rfl⟩
  | cons f fs ih =>
    intro k k' h
    have h1 := sh_makeRunnable h f
    have h2 := ih _ _ h1.1
    exact ⟨h2.1, h2.2.1.trans h1.2.1, h2.2.2.trans h1.2.2⟩

theorem sh_handleAtomic {c : BitVec 32} {k k' : K} (h : Sh c k k') :
    Sh c (handleAtomic k) (handleAtomic k') ∧ (handleAtomic k').now = k'.now ∧ (handleAtomic k).now = k.now := by
  unfold handleAtomic
  rw [h.atomq]
  exact sh_foldl k.atomq _ _ ⟨h.runq, h.timerq, rfl, h.current, h.state, h.priv, h.due⟩

theorem sh_fibreRun {c : BitVec 32} {k k' : K} (h : Sh c k k') (f : Fid) :
    Sh c (fibreRun k f) (fibreRun k' f) ∧ (fibreRun k' f).now = k'.now ∧ (fibreRun k f).now = k.now := by
  unfold fibreRun
  have h1 := sh_handleAtomic h
  have h2 := sh_makeRunnable h1.1 f
  exact ⟨h2.1, h2.2.1.trans h1.2.1, h2.2.2.trans h1.2.2⟩

theorem sh_fibreKill {c : BitVec 32} {k k' : K} (h : Sh c k k') (f : Fid) :
    (fibreKill k' f).2 = (fibreKill k f).2 ∧ Sh c (fibreKill k f).1 (fibreKill k' f).1
    ∧ (fibreKill k' f).1.now = k'.now ∧ (fibreKill k f).1.now = k.now := by
  have h1 := sh_handleAtomic h
  unfold fibreKill
  refine ⟨?_, ⟨?_, ?_, h1.1.atomq, h1.1.current, h1.1.state, h1.1.priv, ?_⟩, h1.2.1, h1.2.2⟩
  · show (decide (f ∈ (handleAtomic k').runq) || decide (f ∈ (handleAtomic k').timerq)) = _
    rw [h1.1.runq, h1.1.timerq]
  · show (handleAtomic k').runq.erase f = (handleAtomic k).runq.erase f; rw [h1.1.runq]
  · show (handleAtomic k').timerq.erase f = (handleAtomic k).timerq.erase f; rw [h1.1.timerq]
  · intro g hg; exact h1.1.due g (List.erase_sublist.subset hg)

theorem sh_fibreRunAtomic {c : BitVec 32} {k k' : K} (h : Sh c k k') (f : Fid) :
    (fibreRunAtomic k' f).2 = (fibreRunAtomic k f).2 ∧ Sh c (fibreRunAtomic k f).1 (fibreRunAtomic k' f).1
    ∧ (fibreRunAtomic k' f).1.now = k'.now ∧ (fibreRunAtomic k f).1.now = k.now := by
  unfold fibreRunAtomic
  have ha := h.atomq
  by_cases hl : k.atomq.length < 8
  · have hl' : k'.atomq.length < 8 := by rw [ha]; exact hl
    rw [if_pos hl, if_pos hl']
    exact ⟨rfl, ⟨h.runq, h.timerq, by show k'.atomq ++ [f] = k.atomq ++ [f]; rw [ha], h.current, h.state, h.priv, h.due⟩, rfl, rfl⟩
  · have hl' : ¬ k'.atomq.length < 8 := by rw [ha]; exact hl
    rw [if_neg hl, if_neg hl']
    exact ⟨rfl, h, rfl, rfl⟩

theorem sh_timerqLoop (c : BitVec 32) (due due' : Fid → BitVec 32) (now : BitVec 32) : ∀ (tq rq : List Fid),
    (∀ f ∈ tq, due' f = due f + c) → timerqLoop due' (now + c) tq rq = timerqLoop due now tq rq
  | [], _, _ => rfl
  | f :: r, rq, h => by
    unfold timerqLoop
    rw [h f (by simp), notAfter_shift]
    split
    · exact sh_timerqLoop c due due' now r _ (fun g hg => h g (by simp [hg]))
    · rfl

theorem timerqLoop_sub (due : Fid → BitVec 32) (now : BitVec 32) : ∀ (tq rq : List Fid),
    ∀ g ∈ (timerqLoop due now tq rq).1, g ∈ tq
  | [], _, g, hg => by simp [timerqLoop] at hg
  | f :: r, rq, g, hg => by
    unfold timerqLoop at hg
    split at hg
    · exact List.mem_cons_of_mem _ (timerqLoop_sub due now r _ g hg)
    · exact hg

theorem sh_handleTimerq {c : BitVec 32} {k k' : K} (h : Sh c k k') (hnow : k'.now = k.now + c) :
    Sh c (handleTimerq k) (handleTimerq k') := by
  unfold handleTimerq
  have e : timerqLoop k'.due k'.now k'.timerq k'.runq = timerqLoop k.due k.now k.timerq k.runq := by
    rw [hnow, h.timerq, h.runq]; exact sh_timerqLoop c k.due k'.due k.now k.timerq k.runq h.due
  refine ⟨?_, ?_, h.atomq, h.current, h.state, h.priv, ?_⟩
  · show (timerqLoop k'.due k'.now k'.timerq k'.runq).2 = _; rw [e]
  · show (timerqLoop k'.due k'.now k'.timerq k'.runq).1 = _; rw [e]
  · intro g hg
    exact h.due g (timerqLoop_sub k.due k.now k.timerq k.runq g hg)

theorem getNextTask_cons {k : K} {f : Fid} {r : List Fid} (h : k.runq = f :: r) :
    getNextTask k = { k with current := some f, runq := r } := by
  unfold getNextTask; rw [h]

theorem sh_getNextTask {c : BitVec 32} {k k' : K} (h : Sh c k k') : Sh c (getNextTask k) (getNextTask k')
    ∧ (getNextTask k').now = k'.now ∧ (getNextTask k).now = k.now := by
  cases hr : k.runq with
  | nil =>
    rw [getNextTask_nil hr, getNextTask_nil (h.runq.trans hr)]
    exact ⟨⟨h.runq, h.timerq, h.atomq, rfl, h.state, h.priv, h.due⟩, rfl, rfl⟩
  | cons f r =>
    rw [getNextTask_cons hr, getNextTask_cons (h.runq.trans hr)]
    exact ⟨⟨rfl, h.timerq, h.atomq, rfl, h.state, h.priv, h.due⟩, rfl, rfl⟩

theorem sh_updateCurrent {c : BitVec 32} {k k' : K} (h : Sh c k k') (f : Fid) :
    Sh c (updateCurrent k f) (updateCurrent k' f) ∧ (updateCurrent k' f).now = k'.now ∧ (updateCurrent k f).now = k.now := by
  cases hk : k.state with
  | yielded =>
    have hk' : k'.state = .yielded := h.state.trans hk
    have e1 : updateCurrent k f = fibreRun k f := by unfold updateCurrent; rw [hk]
    have e2 : updateCurrent k' f = fibreRun k' f := by unfold updateCurrent; rw [hk']
    rw [e1, e2]; exact sh_fibreRun h f
  | waiting =>
    have hk' : k'.state = .waiting := h.state.trans hk
    have e1 : updateCurrent k f = k := by unfold updateCurrent; rw [hk]
    have e2 : updateCurrent k' f = k' := by unfold updateCurrent; rw [hk']
    rw [e1, e2]; exact ⟨h, rfl, rfl⟩
  | exited =>
    have hk' : k'.state = .exited := h.state.trans hk
    have e1 : updateCurrent k f = { k with priv := upd k.priv f 0 } := by unfold updateCurrent; rw [hk]
    have e2 : updateCurrent k' f = { k' with priv := upd k'.priv f 0 } := by unfold updateCurrent; rw [hk']
    rw [e1, e2]
    exact ⟨⟨h.runq, h.timerq, h.atomq, h.current, h.state, by show upd k'.priv f 0 = upd k.priv f 0; rw [h.priv], h.due⟩, rfl, rfl⟩
  | failed =>
    have hk' : k'.state = .failed := h.state.trans hk
    have e1 : updateCurrent k f = { k with priv := upd k.priv f 0 } := by unfold updateCurrent; rw [hk]
    have e2 : updateCurrent k' f = { k' with priv := upd k'.priv f 0 } := by unfold updateCurrent; rw [hk']
    rw [e1, e2]
    exact ⟨⟨h.runq, h.timerq, h.atomq, h.current, h.state, by show upd k'.priv f 0 = upd k.priv f 0; rw [h.priv], h.due⟩, rfl, rfl⟩

theorem sh_beforePop {c : BitVec 32} {k k' : K} (h : Sh c k k') (hnow : k'.now = k.now + c) :
    Sh c (beforePop k) (beforePop k') ∧ (beforePop k').now = (beforePop k).now + c := by
  have h1 := sh_handleAtomic h
  have hn1 : (handleAtomic k').now = (handleAtomic k).now + c := by rw [h1.2.1, h1.2.2]; exact hnow
  unfold beforePop
  rw [h1.1.current]
  cases (handleAtomic k).current with
  | none =>
    dsimp only
    exact ⟨sh_handleTimerq h1.1 hn1, hn1⟩
  | some d =>
    dsimp only
    have h2 := sh_updateCurrent h1.1 d
    have hn2 : (updateCurrent (handleAtomic k') d).now = (updateCurrent (handleAtomic k) d).now + c := by
      rw [h2.2.1, h2.2.2]; exact hn1
    exact ⟨sh_handleTimerq h2.1 hn2, hn2⟩

theorem sh_prelude {c : BitVec 32} {k k' : K} (h : Sh c k k') (hnow : k'.now = k.now + c) :
    Sh c (prelude k) (prelude k') ∧ (prelude k').now = (prelude k).now + c := by
  rw [prelude_eq, prelude_eq, h.state, h.runq, h.timerq, h.atomq]
  split
  · have hb := sh_beforePop h hnow
    have h4 := sh_getNextTask hb.1
    refine ⟨h4.1, ?_⟩
    rw [h4.2.1, h4.2.2]
    exact hb.2
  · exact ⟨h, hnow⟩

/-! ### fibre_timeout -/

theorem insertScan_congr {due1 due2 : Fid → BitVec 32} {f : Fid} : ∀ {l : List Fid},
    (∀ x ∈ l, dueGe due1 f x = dueGe due2 f x) → insertScan due1 f l = insertScan due2 f l
  | [], _ => rfl
  | x :: xs, h => by
    unfold insertScan
    rw [h x (by simp), insertScan_congr (l := xs) (fun y hy => h y (by simp [hy]))]

theorem insertSorted_congr {due1 due2 : Fid → BitVec 32} {f : Fid} {l : List Fid}
    (h : ∀ x ∈ l, dueGe due1 f x = dueGe due2 f x) : insertSorted due1 f l = insertSorted due2 f l := by
  unfold insertSorted
  cases hl : l.getLast? with
  | none => rfl
  | some t =>
    dsimp only
    rw [h t (List.mem_of_getLast? hl), insertScan_congr h]

theorem mem_insertScan {due : Fid → BitVec 32} {f g : Fid} : ∀ {l : List Fid}, g ∈ insertScan due f l → g = f ∨ g ∈ l
  | [], h => by simp [insertScan] at h; exact Or.inl h
  | x :: xs, h => by
    unfold insertScan at h
    split at h
    · rcases List.mem_cons.mp h with h | h
      · exact Or.inr (by simp [h])
      · rcases mem_insertScan h with h | h
        · exact Or.inl h
        · exact Or.inr (List.mem_cons_of_mem _ h)
    · rcases List.mem_cons.mp h with h | h
      · exact Or.inl h
      · exact Or.inr h

theorem mem_insertSorted {due : Fid → BitVec 32} {f g : Fid} {l : List Fid} (h : g ∈ insertSorted due f l) :
    g = f ∨ g ∈ l := by
  unfold insertSorted at h
  split at h
  · simp at h; exact Or.inl h
  · split at h
    · rcases List.mem_append.mp h with h | h
      · exact Or.inr h
      · simp at h; exact Or.inl h
    · exact mem_insertScan h

theorem sh_fibreTimeout {c : BitVec 32} {k k' : K} (h : Sh c k k') (hnow : k'.now = k.now + c) (f : Fid) (d : BitVec 32) :
    (fibreTimeout k' f (d + c)).2 = (fibreTimeout k f d).2
    ∧ Sh c (fibreTimeout k f d).1 (fibreTimeout k' f (d + c)).1
    ∧ (fibreTimeout k' f (d + c)).1.now = (fibreTimeout k f d).1.now + c := by
  unfold fibreTimeout
  rw [hnow, notAfter_shift]
  split
  · exact ⟨rfl, h, hnow⟩
  · dsimp only
    rw [h.runq]
    have hdue : ∀ g, g = f ∨ g ∈ k.timerq → upd k'.due f (d + c) g = upd k.due f d g + c := by
      intro g hg
      unfold upd
      by_cases e : g = f
      · rw [if_pos e, if_pos e]
      · rw [if_neg e, if_neg e]
        rcases hg with hg | hg
        · exact absurd hg e
        · exact h.due g hg
    split
    · exact ⟨rfl, ⟨rfl, h.timerq, h.atomq, h.current, h.state, h.priv, fun g hg => hdue g (Or.inr hg)⟩, rfl⟩
    · refine ⟨rfl, ⟨rfl, ?_, h.atomq, h.current, h.state, h.priv, ?_⟩, rfl⟩
      · show insertSorted (upd k'.due f (d + c)) f k'.timerq = insertSorted (upd k.due f d) f k.timerq
        rw [h.timerq]
        apply insertSorted_congr
        intro x hx
        exact dueGe_shift _ _ f x c (hdue f (Or.inl rfl)) (hdue x (Or.inr hx))
      · intro g hg
        exact hdue g (mem_insertSorted hg)

theorem sh_getNextWakeup {c : BitVec 32} {k k' : K} (h : Sh c k k') (hnow : k'.now = k.now + c) :
    getNextWakeup k' = getNextWakeup k + c := by
  unfold getNextWakeup
  rw [h.atomq, h.runq, h.timerq, hnow]
  split
  · rfl
  · cases ht : k.timerq with
    | nil => dsimp only; bv_omega
    | cons f r => dsimp only; exact h.due f (by rw [ht]; exact List.mem_cons_self)

/-- shifting a script -/
def shiftScript (c : BitVec 32) (s : List (Call (BitVec 32))) : List (Call (BitVec 32)) := s.map (Call.map (· + c))

theorem sh_runScript {c : BitVec 32} (f : Fid) : ∀ (s : List (Call (BitVec 32))) (k k' : K), Sh c k k' →
    k'.now = k.now + c →
    (runScript f k' (shiftScript c s)).2 = (runScript f k s).2
    ∧ Sh c (runScript f k s).1 (runScript f k' (shiftScript c s)).1
    ∧ (runScript f k' (shiftScript c s)).1.now = (runScript f k s).1.now + c
  | [], k, k', h, hn => ⟨rfl, h, hn⟩
  | .run g :: r, k, k', h, hn => by
    have h1 := sh_fibreRun h g
    have ih := sh_runScript f r _ _ h1.1 (by rw [h1.2.1, h1.2.2]; exact hn)
    simp only [shiftScript, List.map_cons, Call.map, runScript]
    exact ⟨by rw [show (runScript f (fibreRun k' g) (List.map (Call.map (· + c)) r)).2 = _ from ih.1], ih.2.1, ih.2.2⟩
  | .runAtomic g :: r, k, k', h, hn => by
    have h1 := sh_fibreRunAtomic h g
    have ih := sh_runScript f r _ _ h1.2.1 (by rw [h1.2.2.1, h1.2.2.2]; exact hn)
    simp only [shiftScript, List.map_cons, Call.map, runScript]
    exact ⟨by rw [show (runScript f (fibreRunAtomic k' g).1 (List.map (Call.map (· + c)) r)).2 = _ from ih.1, h1.1], ih.2.1, ih.2.2⟩
  | .kill g :: r, k, k', h, hn => by
    have h1 := sh_fibreKill h g
    have ih := sh_runScript f r _ _ h1.2.1 (by rw [h1.2.2.1, h1.2.2.2]; exact hn)
    simp only [shiftScript, List.map_cons, Call.map, runScript]
    exact ⟨by rw [show (runScript f (fibreKill k' g).1 (List.map (Call.map (· + c)) r)).2 = _ from ih.1, h1.1], ih.2.1, ih.2.2⟩
  | .timeout d :: r, k, k', h, hn => by
    have h1 := sh_fibreTimeout h hn f d
    have ih := sh_runScript f r _ _ h1.2.1 h1.2.2
    simp only [shiftScript, List.map_cons, Call.map, runScript]
    exact ⟨by rw [show (runScript f (fibreTimeout k' f (d + c)).1 (List.map (Call.map (· + c)) r)).2 = _ from ih.1, h1.1], ih.2.1, ih.2.2⟩
  | .setPriv l :: r, k, k', h, hn => by
    have h1 : Sh c { k with priv := upd k.priv f l } { k' with priv := upd k'.priv f l } :=
      ⟨h.runq, h.timerq, h.atomq, h.current, h.state, by show upd k'.priv f l = upd k.priv f l; rw [h.priv], h.due⟩
    have ih := sh_runScript f r _ _ h1 hn
    simp only [shiftScript, List.map_cons, Call.map, runScript]
    exact ⟨by rw [show (runScript f { k' with priv := upd k'.priv f l } (List.map (Call.map (· + c)) r)).2 = _ from ih.1], ih.2.1, ih.2.2⟩

/-- the outputs of the shifted run: wake-up times move by `c`, nothing else changes -/
def shiftPass (c : BitVec 32) (p : PassOut) : PassOut := { p with wake := p.wake + c }

def shiftOut (c : BitVec 32) : Out → Out
  | .pass p => .pass (shiftPass c p)
  | o => o

theorem sh_schedulerNext {c : BitVec 32} {k k' : K} (h : Sh c k k') (t : BitVec 32) (s : List (Call (BitVec 32))) (ret : Ret) :
    (schedulerNext k' (t + c) (shiftScript c s) ret).2 = shiftPass c (schedulerNext k t s ret).2
    ∧ Sh c (schedulerNext k t s ret).1 (schedulerNext k' (t + c) (shiftScript c s) ret).1 := by
  have h0 : Sh c { k with now := t } { k' with now := t + c } :=
    ⟨h.runq, h.timerq, h.atomq, h.current, h.state, h.priv, h.due⟩
  have hp := sh_prelude h0 rfl
  cases hc : (prelude { k with now := t }).current with
  | none =>
    have hc' : (prelude { k' with now := t + c }).current = none := hp.1.current.trans hc
    rw [schedulerNext_none _ ret hc, schedulerNext_none _ ret hc']
    refine ⟨?_, hp.1⟩
    unfold shiftPass
    dsimp only
    rw [sh_getNextWakeup hp.1 hp.2]
  | some d =>
    have hc' : (prelude { k' with now := t + c }).current = some d := hp.1.current.trans hc
    rw [schedulerNext_some _ ret hc, schedulerNext_some _ ret hc']
    have hs := sh_runScript d s _ _ hp.1 hp.2
    have hk2 : Sh c { (runScript d (prelude { k with now := t }) s).1 with state := ret }
        { (runScript d (prelude { k' with now := t + c }) (shiftScript c s)).1 with state := ret } :=
      ⟨hs.2.1.runq, hs.2.1.timerq, hs.2.1.atomq, hs.2.1.current, rfl, hs.2.1.priv, hs.2.1.due⟩
    refine ⟨?_, hk2⟩
    unfold shiftPass
    dsimp only
    congr 1
    · rw [hs.1, hp.1.priv]
    · exact hs.2.1.current
    · split
      · exact hs.2.2
      · exact sh_getNextWakeup hk2 hs.2.2

theorem sh_step {c : BitVec 32} {k k' : K} (h : Sh c k k') (op : Op (BitVec 32)) :
    (Model.Fibre.step k' (op.map (· + c))).2 = shiftOut c (Model.Fibre.step k op).2
    ∧ Sh c (Model.Fibre.step k op).1 (Model.Fibre.step k' (op.map (· + c))).1 := by
  cases op with
  | run f => exact ⟨rfl, (sh_fibreRun h f).1⟩
  | runAtomic f =>
    have := sh_fibreRunAtomic h f
    exact ⟨by show Out.bool _ = Out.bool _; rw [this.1], this.2.1⟩
  | kill f =>
    have := sh_fibreKill h f
    exact ⟨by show Out.bool _ = Out.bool _; rw [this.1], this.2.1⟩
  | next t s r =>
    have := sh_schedulerNext h t s r
    exact ⟨by show Out.pass _ = Out.pass _; rw [show (schedulerNext k' (t + c) (List.map (Call.map (· + c)) s) r).2 = _ from this.1], this.2⟩

theorem sh_runFrom {c : BitVec 32} : ∀ (h : List (Op (BitVec 32))) (k k' : K), Sh c k k' →
    (Model.Fibre.runFrom k' (h.map (Op.map (· + c)))).2 = (Model.Fibre.runFrom k h).2.map (shiftOut c)
  | [], _, _, _ => rfl
  | op :: h, k, k', hs => by
    have h1 := sh_step hs op
    have ih := sh_runFrom h _ _ h1.2
    simp only [List.map_cons, Model.Fibre.runFrom]
    rw [h1.1, ih]

end Librfn.Sched.L

import Librfn.Lemmas.IsrInv
/-! C06: the executable runner of `Model/FibreIsr.lean` (calls with interrupt scripts, nested handlers, thread senders,
the quiescent run) only ever composes the steps that generate `Reach`: every theorem about reachable states holds
at every gap of every scripted execution — induction over main-context steps and interrupt scripts. -/
namespace Librfn.Isr.L
open Librfn.Model.FibreIsr
open Librfn.Sched (Fid Ret)

/-! ## the executable runner only passes through reachable states -/

/-- a gap function that stays inside the reachable states -/
def GapOk (gap : Point → S → S) : Prop := ∀ p s, Reach s → Reach (gap p s)

theorem gapOk_noGap : GapOk noGap := fun _ _ h => h

theorem reach_runSender {gap : Point → S → S} (hg : GapOk gap) (i : Nat) (hi : i < 3) (c : ICall) :
    ∀ (fuel k : Nat) (s : S), Reach s → Reach (runSender gap i c fuel k s)
  | 0, _, s, h => Reach.tok _ (Reach.hung h)
  | fuel + 1, k, s, h => by
    unfold runSender
    simp only
    split
    · exact Reach.tok _ (Reach.senderPlain i hi h)
    · exact reach_runSender hg i hi c fuel (k + 1) _
        (hg _ _ (Reach.senderAtomic i hi (hg _ _ (Reach.senderPlain i hi h))))

theorem reach_callSender {gap : Point → S → S} (hg : GapOk gap) (i : Nat) (hi : i < 3) (c : ICall) {s : S} (h : Reach s) :
    Reach (callSender gap i c s) := by
  unfold callSender
  split
  · rename_i hidle
    exact reach_runSender hg i hi c _ _ _ (Reach.enterSender i c hi h hidle)
  · exact Reach.tok _ (Reach.hung h)

theorem reach_runMain {gap : Point → S → S} (hg : GapOk gap) (c : MCall) :
    ∀ (fuel k : Nat) (s : S), Reach s → Reach (runMain gap c fuel k s)
  | 0, _, s, h => Reach.tok _ (Reach.hung h)
  | fuel + 1, k, s, h => by
    unfold runMain
    simp only
    split
    · exact Reach.tok _ (Reach.nops k (Reach.mainPlain h))
    · exact reach_runMain hg c fuel (k + 1) _ (hg _ _ (Reach.mainAtomic (hg _ _ (Reach.mainPlain h))))

theorem reach_callMain {gap : Point → S → S} (hg : GapOk gap) (c : MCall) {s : S} (h : Reach s) : Reach (callMain gap c s) := by
  unfold callMain
  split
  · rename_i hidle
    exact reach_runMain hg c _ _ _ (Reach.enterMain c h hidle)
  · exact Reach.tok _ (Reach.hung h)

theorem reach_foldl {α : Type} (f : S → α → S) (hf : ∀ s a, Reach s → Reach (f s a)) :
    ∀ (l : List α) (s : S), Reach s → Reach (l.foldl f s)
  | [], _, h => h
  | a :: l, s, h => reach_foldl f hf l (f s a) (hf s a h)

theorem gapOk_nested (nested : List (Point × ICall)) : GapOk (nestedGap nested) :=
  fun _ s h => reach_foldl _ (fun _ e hs => reach_callSender gapOk_noGap 1 (by omega) e.2 hs) _ s h

theorem reach_runIsr {s : S} (h : Reach s) (e : Isr) : Reach (runIsr s e) :=
  reach_callSender (gapOk_nested e.nested) 0 (by omega) e.call h

theorem gapOk_isr (script : Script) : GapOk (isrGap script) :=
  fun _ s h => reach_foldl _ (fun _ e hs => reach_runIsr hs e.2) _ s h

theorem reach_runMItem {s : S} (h : Reach s) (m : MItem) : Reach (runMItem s m) :=
  reach_callMain (gapOk_isr m.script) m.call (Reach.setBody m.body m.bret h)

theorem gapOk_thread (script : List (Point × MItem)) : GapOk (threadGap script) :=
  fun _ s h => reach_foldl _ (fun _ e hs => reach_runMItem hs e.2) _ s h

theorem reach_quiesceLoop : ∀ (n : Nat) (s : S), Reach s → Reach (quiesceLoop n s)
  | 0, _, h => h
  | n + 1, s, h => by
    unfold quiesceLoop
    simp only
    split
    · exact reach_quiesceLoop n _ (reach_callMain gapOk_noGap _ h)
    · exact reach_callMain gapOk_noGap _ h

theorem reach_runItem {s : S} (h : Reach s) (it : Item) : Reach (runItem s it) := by
  unfold runItem
  cases it with
  | main m => exact reach_runMItem (Reach.newItem h) m
  | isr e => exact reach_runIsr (Reach.newItem h) e
  | thread c script =>
    exact Reach.observe _ (Or.inr rfl) (reach_callSender (gapOk_thread script) 2 (by omega) c
      (Reach.tok _ (Reach.observe _ (Or.inl rfl) (Reach.newItem h))))
  | quiesce => exact reach_quiesceLoop 64 _ (Reach.setBody [] .waiting (Reach.noYields (Reach.newItem h)))

/-- **every state the executable model passes through, in particular the state after any history, is reachable** -/
theorem reach_runHistory (d : Nat) (kinds : List Kind) (budgets : List Nat) (h1 : 1 ≤ d) (h32 : d ≤ 32) (h : List Item) :
    Reach (runHistory (initWith d kinds budgets) h) :=
  reach_foldl runItem (fun _ it hs => reach_runItem hs it) h _ (Reach.init d kinds budgets h1 h32)

end Librfn.Isr.L

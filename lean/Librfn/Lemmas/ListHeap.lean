import Librfn.Model.ListHeap
/-! Helper lemmas for C09: list segments in the `next` heap and a few facts about core `List`
functions (no Mathlib). -/
namespace Librfn.Lemmas.ListHeap
open Librfn.Model.ListHeap

/-- following `nx` from the link value `s` spells `xs` and arrives at the link value `e` -/
def Seg (nx : Node → Option Node) : Option Node → List Node → Option Node → Prop
  | s, [], e => s = e
  | s, x :: r, e => s = some x ∧ Seg nx (nx x) r e

theorem seg_congr {nx nx' : Node → Option Node} : ∀ (xs : List Node) (s e : Option Node),
    (∀ x ∈ xs, nx' x = nx x) → Seg nx s xs e → Seg nx' s xs e
  | [], _, _, _, c => c
  | x :: r, _, e, hag, ⟨c1, c2⟩ =>
    ⟨c1, by rw [hag x (by simp)]; exact seg_congr r _ e (fun y hy => hag y (by simp [hy])) c2⟩

theorem seg_append {nx : Node → Option Node} : ∀ (a b : List Node) (s e : Option Node),
    Seg nx s (a ++ b) e ↔ ∃ m, Seg nx s a m ∧ Seg nx m b e
  | [], b, s, e => by
    constructor
    · intro h; exact ⟨s, rfl, h⟩
    · rintro ⟨m, hm, h⟩; cases hm; exact h
  | x :: r, b, s, e => by
    simp only [List.cons_append, Seg]
    rw [seg_append r b (nx x) e]
    constructor
    · rintro ⟨h1, m, h2, h3⟩; exact ⟨m, ⟨h1, h2⟩, h3⟩
    · rintro ⟨m, ⟨h1, h2⟩, h3⟩; exact ⟨h1, m, h2, h3⟩

theorem seg_snoc {nx : Node → Option Node} (a : List Node) (p : Node) (s e : Option Node) :
    Seg nx s (a ++ [p]) e ↔ Seg nx s a (some p) ∧ nx p = e := by
  rw [seg_append]
  constructor
  · rintro ⟨m, h1, h2, h3⟩; subst h2; exact ⟨h1, h3⟩
  · rintro ⟨h1, h2⟩; exact ⟨some p, h1, rfl, h2⟩

theorem seg_head {nx : Node → Option Node} : ∀ (xs : List Node) (s : Option Node), Seg nx s xs none → s = xs.head?
  | [], _, h => h
  | _ :: _, _, h => h.1

theorem nil_or_snoc (xs : List Node) : xs = [] ∨ ∃ a p, xs = a ++ [p] := by
  rcases List.eq_nil_or_concat xs with h | ⟨a, p, h⟩
  · exact Or.inl h
  · exact Or.inr ⟨a, p, by rw [h, List.concat_eq_append]⟩

/-- the link an iterator standing just after the prefix `pre` of list `l` holds -/
def linkAfter (l : Lid) (pre : List Node) : Link :=
  match pre.getLast? with
  | none => .headOf l
  | some p => .nextOf p

@[simp] theorem linkAfter_nil (l : Lid) : linkAfter l [] = .headOf l := rfl
@[simp] theorem linkAfter_snoc (l : Lid) (a : List Node) (p : Node) : linkAfter l (a ++ [p]) = .nextOf p := by
  simp [linkAfter]

theorem not_mem_of_nodup_snoc {a : List Node} {p x : Node} (h : (a ++ [p]).Nodup) (hx : x ∈ a) : x ≠ p := by
  intro e
  rw [List.nodup_append] at h
  exact h.2.2 x hx p (by simp) e

/-- reading through the iterator's link gives the first node after the prefix -/
theorem load_linkAfter (h : Heap) (l : Lid) (pre post : List Node)
    (hs : Seg h.next (h.head l) (pre ++ post) none) : load h (linkAfter l pre) = post.head? := by
  rcases nil_or_snoc pre with rfl | ⟨a, p, rfl⟩
  · simpa [load] using seg_head _ _ hs
  · rw [linkAfter_snoc]
    obtain ⟨m, h1, h2⟩ := (seg_append _ _ _ _).1 hs
    rw [seg_snoc] at h1
    simp only [load]
    rw [h1.2]; exact seg_head _ _ h2

/-- the prefix still leads to whatever the iterator's link now holds, if nothing else of it was written -/
theorem seg_pre (h h' : Heap) (l : Lid) (pre : List Node) (m v : Option Node)
    (hs : Seg h.next (h.head l) pre m) (hnd : pre.Nodup)
    (hnext : ∀ x ∈ pre, pre.getLast? ≠ some x → h'.next x = h.next x)
    (hhead : pre ≠ [] → h'.head l = h.head l)
    (hv : load h' (linkAfter l pre) = v) : Seg h'.next (h'.head l) pre v := by
  rcases nil_or_snoc pre with rfl | ⟨a, p, rfl⟩
  · simpa [load, Seg] using hv
  · rw [seg_snoc] at hs ⊢
    rw [linkAfter_snoc] at hv
    refine ⟨?_, hv⟩
    rw [hhead (by simp)]
    refine seg_congr a _ _ (fun x hx => hnext x (by simp [hx]) ?_) hs.1
    have := not_mem_of_nodup_snoc hnd hx
    simp [List.getLast?_append]
    exact fun e => this e.symm

/-! ### `takeWhile` / `dropWhile` facts that core does not ship -/
theorem mem_takeWhile_imp {p : Node → Bool} : ∀ {xs : List Node} {x : Node}, x ∈ xs.takeWhile p → p x = true
  | c :: r, x, hx => by
    rw [List.takeWhile_cons] at hx
    by_cases e : p c = true
    · rw [if_pos e] at hx
      rcases List.mem_cons.1 hx with rfl | hx
      · exact e
      · exact mem_takeWhile_imp hx
    · rw [if_neg e] at hx; simp at hx

theorem takeWhile_eq_self {p : Node → Bool} : ∀ {xs : List Node}, (∀ x ∈ xs, p x = true) → xs.takeWhile p = xs
  | [], _ => rfl
  | c :: r, h => by
    rw [List.takeWhile_cons, if_pos (h c (by simp)), takeWhile_eq_self (fun x hx => h x (by simp [hx]))]

theorem dropWhile_eq_nil {p : Node → Bool} : ∀ {xs : List Node}, (∀ x ∈ xs, p x = true) → xs.dropWhile p = []
  | [], _ => rfl
  | c :: r, h => by
    rw [List.dropWhile_cons, if_pos (h c (by simp)), dropWhile_eq_nil (fun x hx => h x (by simp [hx]))]

/-- pigeonhole: a duplicate-free list of numbers below `N` has at most `N` elements -/
theorem length_le_of_nodup_lt : ∀ (N : Nat) (xs : List Nat), xs.Nodup → (∀ x ∈ xs, x < N) → xs.length ≤ N
  | 0, xs, _, hb => by
    cases xs with
    | nil => simp
    | cons x r => exact absurd (hb x (by simp)) (by omega)
  | N + 1, xs, hnd, hb => by
    by_cases hm : N ∈ xs
    · have ih := length_le_of_nodup_lt N (xs.erase N) (hnd.sublist (List.erase_sublist))
        (fun x hx => by
          have h1 := (List.Nodup.mem_erase_iff hnd).1 hx
          have := hb x h1.2
          omega)
      rw [List.length_erase_of_mem hm] at ih
      omega
    · have ih := length_le_of_nodup_lt N xs hnd (fun x hx => by
        have := hb x hx
        have : x ≠ N := fun e => hm (e ▸ hx)
        omega)
      omega

/-- walking a well-formed chain with enough fuel returns it -/
theorem walk_seg (h : Heap) : ∀ (xs : List Node) (f : Nat) (s : Option Node),
    Seg h.next s xs none → xs.length ≤ f → walk h f s = some xs
  | [], f, s, hs, _ => by
    have : s = none := hs
    subst this
    cases f <;> rfl
  | x :: r, f, s, hs, hf => by
    obtain ⟨g, rfl⟩ : ∃ g, f = g + 1 := ⟨f - 1, by simp at hf; omega⟩
    have h1 : s = some x := hs.1
    subst h1
    simp only [walk]
    rw [walk_seg h r g _ hs.2 (by simp at hf; omega)]
    rfl

/-! ### the cells after a write -/
@[simp] theorem setNext_next (h : Heap) (n : Node) (v : Option Node) (i : Node) :
    (setNext h n v).next i = if i = n then v else h.next i := rfl
@[simp] theorem setNext_head (h : Heap) (n : Node) (v : Option Node) : (setNext h n v).head = h.head := rfl
@[simp] theorem setNext_tail (h : Heap) (n : Node) (v : Option Node) : (setNext h n v).tail = h.tail := rfl
@[simp] theorem setHead_head (h : Heap) (l : Lid) (v : Option Node) (i : Lid) :
    (setHead h l v).head i = if i = l then v else h.head i := rfl
@[simp] theorem setHead_next (h : Heap) (l : Lid) (v : Option Node) : (setHead h l v).next = h.next := rfl
@[simp] theorem setHead_tail (h : Heap) (l : Lid) (v : Option Node) : (setHead h l v).tail = h.tail := rfl
@[simp] theorem setTail_tail (h : Heap) (l : Lid) (t : Tail) (i : Lid) :
    (setTail h l t).tail i = if i = l then t else h.tail i := rfl
@[simp] theorem setTail_next (h : Heap) (l : Lid) (t : Tail) : (setTail h l t).next = h.next := rfl
@[simp] theorem setTail_head (h : Heap) (l : Lid) (t : Tail) : (setTail h l t).head = h.head := rfl

theorem store_next (h : Heap) (k : Link) (v : Option Node) (i : Node) :
    (store h k v).next i = if k = .nextOf i then v else h.next i := by
  cases k with
  | headOf l => simp [store]
  | nextOf n =>
    simp only [store, setNext_next, Link.nextOf.injEq]
    by_cases e : i = n
    · simp [e]
    · rw [if_neg e, if_neg (fun e' => e e'.symm)]

theorem store_head (h : Heap) (k : Link) (v : Option Node) (i : Lid) :
    (store h k v).head i = if k = .headOf i then v else h.head i := by
  cases k with
  | nextOf n => simp [store]
  | headOf l =>
    simp only [store, setHead_head, Link.headOf.injEq]
    by_cases e : i = l
    · simp [e]
    · rw [if_neg e, if_neg (fun e' => e e'.symm)]

@[simp] theorem store_tail (h : Heap) (k : Link) (v : Option Node) : (store h k v).tail = h.tail := by
  cases k <;> rfl

theorem setTail_self (h : Heap) (l : Lid) : setTail h l (h.tail l) = h := by
  cases h with
  | mk nx hd tl =>
    simp only [setTail, Heap.mk.injEq, true_and]
    funext i
    by_cases e : i = l
    · simp [e]
    · simp [e]

theorem linkAfter_eq_nextOf (l : Lid) (pre : List Node) (x : Node) :
    linkAfter l pre = .nextOf x ↔ pre.getLast? = some x := by
  unfold linkAfter
  cases pre.getLast? <;> simp

theorem linkAfter_eq_headOf (l : Lid) (pre : List Node) (l' : Lid) :
    linkAfter l pre = .headOf l' ↔ pre = [] ∧ l = l' := by
  rcases nil_or_snoc pre with rfl | ⟨a, p, rfl⟩
  · simp
  · simp

theorem load_nextOf (h : Heap) (n : Node) : load h (.nextOf n) = h.next n := rfl
theorem load_headOf (h : Heap) (l : Lid) : load h (.headOf l) = h.head l := rfl

/-- `load` in terms of the cells, for a position link -/
theorem load_linkAfter_cases (h : Heap) (l : Lid) (pre : List Node) :
    load h (linkAfter l pre) = match pre.getLast? with | none => h.head l | some p => h.next p := by
  unfold linkAfter
  cases pre.getLast? <;> rfl

end Librfn.Lemmas.ListHeap

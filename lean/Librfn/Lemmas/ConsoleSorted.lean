import Librfn.Lemmas.ConsoleTable
/-! `console_register` keeps the table sorted by `strcmp`, whatever is registered (duplicates
included), and the sorted table answers `find_command` like a search in order of registration. -/
namespace Librfn.Lemmas.ConsoleSorted
open Librfn.Model.Console Librfn.Gen.Layout Librfn.Lemmas.ConsoleTable

/-! ### `strcmp(a, b) > 0` is a strict total order on NUL-free strings -/

/-- `strGt` with the bytes spelled as `Nat` (so that `omega` sees the comparisons) -/
def sgt : List Nat → List Nat → Bool
  | [], _ => false
  | _ :: _, [] => true
  | a :: as, b :: bs => if a > b then true else if a < b then false else sgt as bs

theorem strGt_eq : ∀ a b : List Nat, strGt a b = sgt a b
  | [], _ => rfl
  | _ :: _, [] => rfl
  | x :: as, y :: bs => by
    unfold strGt sgt
    rw [strGt_eq as bs]

theorem sgt_irrefl : ∀ a : List Nat, sgt a a = false
  | [] => rfl
  | x :: as => by
    unfold sgt
    rw [if_neg (Nat.lt_irrefl x), if_neg (Nat.lt_irrefl x)]
    exact sgt_irrefl as

theorem sgt_asymm : ∀ a b : List Nat, sgt a b = true → sgt b a = false
  | [], _, h => by simp [sgt] at h
  | _ :: _, [], _ => rfl
  | x :: as, y :: bs, h => by
    unfold sgt at h ⊢
    by_cases h1 : x > y
    · rw [if_neg (by omega), if_pos h1]
    · rw [if_neg h1] at h
      by_cases h2 : x < y
      · rw [if_pos h2] at h; cases h
      · rw [if_neg h2] at h
        rw [if_neg (by omega), if_neg (by omega)]
        exact sgt_asymm as bs h

theorem sgt_of_gt_of_le : ∀ b a c : List Nat, sgt b a = true → sgt b c = false → sgt c a = true
  | [], _, _, h, _ => by simp [sgt] at h
  | x :: bs, [], c, _, h2 => by
    cases c with
    | nil => simp [sgt] at h2
    | cons z cs => rfl
  | x :: bs, y :: as, [], _, h2 => by simp [sgt] at h2
  | x :: bs, y :: as, z :: cs, h1, h2 => by
    unfold sgt at h1 h2 ⊢
    by_cases hxz : x > z
    · rw [if_pos hxz] at h2; cases h2
    · rw [if_neg hxz] at h2
      by_cases hxy : x > y
      · rw [if_pos (by omega)]
      · rw [if_neg hxy] at h1
        by_cases hyx : x < y
        · rw [if_pos hyx] at h1; cases h1
        · rw [if_neg hyx] at h1
          by_cases hzx : x < z
          · rw [if_pos (by omega)]
          · rw [if_neg hzx] at h2
            rw [if_neg (by omega), if_neg (by omega)]
            exact sgt_of_gt_of_le bs as cs h1 h2

theorem strGt_irrefl (a : List Byte) : strGt a a = false := by rw [strGt_eq]; exact sgt_irrefl a

theorem strGt_asymm (a b : List Byte) (h : strGt a b = true) : strGt b a = false := by
  rw [strGt_eq] at h ⊢; exact sgt_asymm a b h

/-- `a < b` and `b ≤ c` give `a < c` -/
theorem strGt_of_gt_of_le (b a c : List Byte) (h1 : strGt b a = true) (h2 : strGt b c = false) : strGt c a = true := by
  rw [strGt_eq] at h1 h2 ⊢; exact sgt_of_gt_of_le b a c h1 h2

/-! ### sorted tables -/

/-- `strcmp(a->name, b->name) > 0` for table entries (named ones) -/
def gtN (a b : Cmd) : Bool :=
  match a.name, b.name with
  | some x, some y => strGt x y
  | _, _ => false

/-- the named entries are in non-decreasing `strcmp` order -/
def SortedNames (named : List Cmd) : Prop := named.Pairwise fun a b => gtN a b = false

theorem insIdx_before (nm : List Byte) : ∀ named : List Cmd, (∀ c ∈ named, c.name ≠ none) →
    ∀ c ∈ named.take (insIdx nm named), ∀ n, c.name = some n → strGt n nm = false
  | [], _, c, hc, _, _ => by simp at hc
  | d :: rest, hn, c, hc, n, hcn => by
    have hd := hn d (List.mem_cons_self ..)
    cases hdn : d.name with
    | none => exact absurd hdn hd
    | some dn =>
      unfold insIdx at hc
      simp only [hdn] at hc
      by_cases hg : strGt dn nm = true
      · rw [if_pos hg] at hc; simp at hc
      · rw [if_neg hg, List.take_succ_cons] at hc
        rcases List.mem_cons.mp hc with rfl | hc
        · rw [hdn] at hcn; injection hcn with e; rw [← e]; simpa using hg
        · exact insIdx_before nm rest (fun x hx => hn x (List.mem_cons_of_mem _ hx)) c hc n hcn

theorem insIdx_at (nm : List Byte) : ∀ named : List Cmd, (∀ c ∈ named, c.name ≠ none) →
    ∀ d t, named.drop (insIdx nm named) = d :: t → ∃ dn, d.name = some dn ∧ strGt dn nm = true
  | [], _, d, t, h => by simp at h
  | e :: rest, hn, d, t, h => by
    have he := hn e (List.mem_cons_self ..)
    cases hen : e.name with
    | none => exact absurd hen he
    | some en =>
      unfold insIdx at h
      simp only [hen] at h
      by_cases hg : strGt en nm = true
      · rw [if_pos hg, List.drop_zero] at h
        injection h with h1 _
        subst h1
        exact ⟨en, hen, hg⟩
      · rw [if_neg hg, List.drop_succ_cons] at h
        exact insIdx_at nm rest (fun x hx => hn x (List.mem_cons_of_mem _ hx)) d t h

/-- in a sorted table everything from the insertion point on is strictly greater than the new name -/
theorem insIdx_after (nm : List Byte) (named : List Cmd) (hn : ∀ c ∈ named, c.name ≠ none) (hs : SortedNames named) :
    ∀ c ∈ named.drop (insIdx nm named), ∃ n, c.name = some n ∧ strGt n nm = true := by
  intro c hc
  cases hd : named.drop (insIdx nm named) with
  | nil => rw [hd] at hc; cases hc
  | cons d t =>
    obtain ⟨dn, hdn, hdg⟩ := insIdx_at nm named hn d t hd
    rw [hd] at hc
    rcases List.mem_cons.mp hc with rfl | hct
    · exact ⟨dn, hdn, hdg⟩
    · have hsd : (d :: t).Pairwise fun a b => gtN a b = false := by
        rw [← hd]
        have : named = named.take (insIdx nm named) ++ named.drop (insIdx nm named) := (List.take_append_drop _ _).symm
        unfold SortedNames at hs
        rw [this, List.pairwise_append] at hs
        exact hs.2.1
      have hle := (List.pairwise_cons.mp hsd).1 c hct
      have hcn := hn c (List.mem_of_mem_drop (by rw [hd]; exact hc))
      cases hcname : c.name with
      | none => exact absurd hcname hcn
      | some cn =>
        refine ⟨cn, rfl, ?_⟩
        unfold gtN at hle
        simp only [hdn, hcname] at hle
        exact strGt_of_gt_of_le dn nm cn hdg hle

theorem findSpec_append (a : List Byte) (snt : Cmd) : ∀ l₁ l₂ : List Cmd,
    findSpec a snt (l₁ ++ l₂) = findSpec a (findSpec a snt l₂) l₁
  | [], _ => rfl
  | c :: r, l₂ => by
    simp only [List.cons_append, findSpec]
    split
    · rfl
    · exact findSpec_append a snt r l₂

theorem findSpec_none (a : List Byte) (snt : Cmd) : ∀ l : List Cmd, (∀ c ∈ l, c.name ≠ some a) → findSpec a snt l = snt
  | [], _ => rfl
  | c :: r, h => by
    unfold findSpec
    rw [if_neg (h c (List.mem_cons_self ..))]
    exact findSpec_none a snt r (fun x hx => h x (List.mem_cons_of_mem _ hx))

/-- **one registration into a sorted table**: still sorted, a permutation of old + new, and
    `find_command` answers as if the new command had been appended after all the old ones -/
theorem insert_sorted (named : List Cmd) (cmd : Cmd) (nm : List Byte) (snt : Cmd)
    (hn : ∀ c ∈ named, c.name ≠ none) (hs : SortedNames named) (hname : cmd.name = some nm) :
    SortedNames (named.take (insIdx nm named) ++ cmd :: named.drop (insIdx nm named)) ∧
    (named.take (insIdx nm named) ++ cmd :: named.drop (insIdx nm named)).Perm (named ++ [cmd]) ∧
    ∀ a, findSpec a snt (named.take (insIdx nm named) ++ cmd :: named.drop (insIdx nm named)) = findSpec a snt (named ++ [cmd]) := by
  have hbefore := insIdx_before nm named hn
  have hafter := insIdx_after nm named hn hs
  have hsplit : named = named.take (insIdx nm named) ++ named.drop (insIdx nm named) := (List.take_append_drop _ _).symm
  have hs' := hs
  unfold SortedNames at hs'
  rw [hsplit, List.pairwise_append] at hs'
  obtain ⟨s1, s2, s3⟩ := hs'
  refine ⟨?_, ?_, ?_⟩
  · unfold SortedNames
    rw [List.pairwise_append]
    refine ⟨s1, List.pairwise_cons.mpr ⟨?_, s2⟩, ?_⟩
    · intro c hc
      obtain ⟨n, hcn, hg⟩ := hafter c hc
      unfold gtN
      simp only [hname, hcn]
      exact strGt_asymm n nm hg
    · intro a ha b hb
      rcases List.mem_cons.mp hb with rfl | hb
      · have han := hn a (List.mem_of_mem_take ha)
        cases haname : a.name with
        | none => exact absurd haname han
        | some an =>
          unfold gtN
          simp only [haname, hname]
          exact hbefore a ha an haname
      · exact s3 a ha b hb
  · have h1 : (named.take (insIdx nm named) ++ cmd :: named.drop (insIdx nm named)).Perm
        (cmd :: (named.take (insIdx nm named) ++ named.drop (insIdx nm named))) := List.perm_middle
    rw [← hsplit] at h1
    exact h1.trans (List.perm_append_singleton cmd named).symm
  · intro a
    have hdrop_ne : a = nm → ∀ c ∈ named.drop (insIdx nm named), c.name ≠ some a := by
      intro e c hc hca
      obtain ⟨n, hcn, hg⟩ := hafter c hc
      rw [hcn] at hca
      injection hca with e2
      rw [e2, e, strGt_irrefl] at hg
      cases hg
    conv => rhs; rw [hsplit]
    rw [findSpec_append, List.append_assoc, findSpec_append a snt (named.take (insIdx nm named))]
    congr 1
    by_cases e : a = nm
    · have h1 : findSpec a snt (cmd :: named.drop (insIdx nm named)) = cmd := by
        unfold findSpec; rw [if_pos (by rw [hname, e])]
      rw [h1, findSpec_append, findSpec_none a _ _ (hdrop_ne e)]
      unfold findSpec
      rw [if_pos (by rw [hname, e])]
    · have hc : cmd.name ≠ some a := by rw [hname]; intro h; injection h with h; exact e h.symm
      have h1 : findSpec a snt (cmd :: named.drop (insIdx nm named)) = findSpec a snt (named.drop (insIdx nm named)) := by
        conv => lhs; unfold findSpec
        rw [if_neg hc]
      rw [h1, findSpec_append]
      have h2 : findSpec a snt [cmd] = snt := by
        unfold findSpec; rw [if_neg hc]; rfl
      rw [h2]

/-- the boot-time table is sorted: "echo" < "help" -/
theorem init_sorted : SortedNames [cmdEcho, cmdHelp] := by
  unfold SortedNames
  refine List.pairwise_cons.mpr ⟨?_, List.pairwise_cons.mpr ⟨(fun _ h => by cases h), List.Pairwise.nil⟩⟩
  intro b hb
  simp only [List.mem_singleton] at hb
  subst hb
  decide

end Librfn.Lemmas.ConsoleSorted

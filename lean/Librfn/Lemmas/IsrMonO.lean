import Librfn.Lemmas.IsrMonE
/-! C06 refinement, oversleeping and the handler's wake-up: in run-to-completion executions the monitor never has reason
for an `oversleeps` verdict, and events whose send returned true keep the handler owed a dispatch (or running). -/
namespace Librfn.Isr.L
open Librfn.Model.MessageqConc Librfn.Model.FibreIsr Librfn.C04
open Librfn.Sched (Fid Ret)
open Librfn.Spec.IsrSpec
open Librfn.Model.Fibre (upd makeRunnable handleTimerq getNextTask fibreTimeout)

/-! ## the observations senders make -/

def SenderObs : Obs → Prop
  | .accepted _ | .rejected _ | .evClaimed _ | .evSent _ _ => True
  | _ => False

theorem specSame_senderObs (a : A) (o : Obs) (h : SenderObs o) : SpecSame a (a.step o) := by
  cases o with
  | accepted f => exact specSame_accepted a f
  | rejected f => exact specSame_rejected a f
  | evClaimed st => exact specSame_evClaimed a st
  | evSent st ok => exact specSame_evSent a st ok
  | _ => exact False.elim h

theorem SpecSame.trans {a b c : A} (h1 : SpecSame a b) (h2 : SpecSame b c) : SpecSame a c :=
  ⟨h2.atBegin.trans h1.atBegin, h2.snap.trans h1.snap, h2.yieldedNow.trans h1.yieldedNow, h2.threads.trans h1.threads,
   h2.disturbed.trans h1.disturbed, h2.nf.trans h1.nf, h2.handler.trans h1.handler, h2.verdict.trans h1.verdict⟩

theorem specSame_emits {a a' : A} (h : EmitsP SenderObs a a') : SpecSame a a' := by
  obtain ⟨l, hn, e⟩ := h
  subst e
  induction l generalizing a with
  | nil => exact ⟨rfl, rfl, rfl, rfl, rfl, rfl, rfl, rfl⟩
  | cons o l ih =>
    exact (specSame_senderObs a o (hn o List.mem_cons_self)).trans (ih (fun x hx => hn x (List.mem_cons_of_mem _ hx)))

theorem sobs_senderAtomic (i : Nat) (s : S) : EmitsP SenderObs s.a (senderAtomic i s).a := by
  unfold senderAtomic
  split
  · split
    · exact emitsP_one s.a (.evClaimed _) trivial
    · exact emitsP_refl _
    · exact emitsP_refl _
  · exact emitsP_refl _
  · exact emitsP_refl _
  · split <;> exact emitsP_refl _
  · exact emitsP_refl _
  · exact emitsP_one s.a (.accepted _) trivial
  · exact emitsP_refl _

theorem sobs_senderPlain (i : Nat) (s : S) : EmitsP SenderObs s.a (senderPlain i s).a := by
  unfold senderPlain
  split
  · exact emitsP_refl _
  · exact emitsP_refl _
  · exact emitsP_refl _
  · exact emitsP_refl _
  · exact emitsP_refl _
  · exact emitsP_refl _
  · rename_i f ev _
    cases ev with
    | none => exact emitsP_one s.a (.rejected f) trivial
    | some st => exact EmitsP.trans (emitsP_one s.a (.rejected f) trivial) (emitsP_one _ (.evSent st false) trivial)
  · rename_i f ev _
    cases ev with
    | none => exact emitsP_refl _
    | some st => exact emitsP_one s.a (.evSent st true) trivial
  · exact emitsP_refl _

/-! ## oversleeping: what the monitor knows when `fibre_scheduler_next` returns -/

def PassCont : Cont → Prop
  | .pass1 | .pass2 _ | .brun _ | .bkill _ => True
  | _ => False

/-- control locations inside `fibre_scheduler_next` after its entry -/
def PassPc : MPc → Prop
  | .fast | .fastDone _ | .taintF | .taintFd | .hRecv | .hRecvd | .hRel | .hReld | .wake | .woke _ => True
  | .recv c | .recvd c | .rel c | .reld c => PassCont c
  | _ => False

structure MonO (s : S) : Prop where
  /-- inside a pass the monitor's `yieldedNow` is false (it is set and consumed within the plain step in which a fibre yields) -/
  yn : PassPc s.mpc → s.a.yieldedNow = false
  /-- after the final check: if a request was outstanding at the check, the value about to be returned is `kernel.now` -/
  snapw : ∀ e, s.mpc = .woke e → s.a.snap ≠ [] → wakeValue s.k e = s.k.now

theorem monO_sender {s s' : S} (h : MonO s) (hm : s'.mpc = s.mpc) (hk : s'.k = s.k) (ha : SpecSame s.a s'.a) : MonO s' :=
  ⟨by rw [hm, ha.yieldedNow]; exact h.yn, by rw [hm, hk, ha.snap]; exact h.snapw⟩

theorem PostPc.notWoke {pc : MPc} (h : PostPc pc) (e : Bool) : pc ≠ .woke e := by
  intro e'; subst e'; exact h

theorem monO_post {s' : S} (hp : PostPc s'.mpc) (hyn : PassPc s'.mpc → s'.a.yieldedNow = false) : MonO s' :=
  ⟨hyn, fun e he => absurd he (hp.notWoke e)⟩

theorem yn_returned (s : S) (r : Ret) : PassPc (returned s r).mpc → (returned s r).a.yieldedNow = false := by
  unfold returned
  split
  · exact fun h => False.elim h
  · exact fun _ => rfl

theorem yn_bodyStep (s : S) (h : s.a.yieldedNow = false) : PassPc (bodyStep s).mpc → (bodyStep s).a.yieldedNow = false := by
  unfold bodyStep
  split
  · exact yn_returned _ _
  · exact fun _ => h
  · exact fun _ => h

theorem yieldedNow_killed (a : A) (f : Fid) : (a.step (.killed f)).yieldedNow = a.yieldedNow := by
  simp only [A.step]; split <;> rfl

theorem yn_bodyOf (s : S) (c : Fid) (h : s.a.yieldedNow = false) : PassPc (bodyOf s c).mpc → (bodyOf s c).a.yieldedNow = false := by
  unfold bodyOf
  split
  · exact fun _ => h
  · split <;> exact yn_returned _ _
  · split <;> exact yn_returned _ _
  · exact yn_returned _ _
  · exact yn_bodyStep _ h

theorem yn_dispatch (s : S) (h : s.a.yieldedNow = false) : PassPc (dispatch s).mpc → (dispatch s).a.yieldedNow = false := by
  unfold dispatch
  split
  · exact yn_bodyOf _ _ h
  · exact fun _ => h

theorem yn_afterUpdate (s : S) (h : s.a.yieldedNow = false) : PassPc (afterUpdate s).mpc → (afterUpdate s).a.yieldedNow = false :=
  yn_dispatch _ h

theorem yn_afterDrain (s : S) (c : Cont) (h : PassCont c → s.a.yieldedNow = false) :
    PassPc (afterDrain s c).mpc → (afterDrain s c).a.yieldedNow = false := by
  cases c with
  | run f => exact fun h => False.elim h
  | kill f => exact fun h => False.elim h
  | pass1 =>
    have h' := h trivial
    simp only [afterDrain]
    split
    · exact yn_afterUpdate s h'
    · split
      · exact fun _ => h'
      · exact fun _ => h'
      · exact yn_afterUpdate _ h'
      · exact yn_afterUpdate s h'
  | pass2 c => exact yn_afterUpdate _ (h trivial)
  | brun g => exact yn_bodyStep (brunPre s g) (h trivial)
  | bkill g => exact yn_bodyStep (bkillPre s g) ((yieldedNow_killed s.a g).trans (h trivial))

theorem monO_mainAtomic {s : S} (hr : Reach s) (hq : Quiet s) (h : MonO s) : MonO (mainAtomic s) := by
  unfold mainAtomic
  split
  · rename_i hpc; exact ⟨fun _ => h.yn (by rw [hpc]; trivial), fun e he => by cases he⟩
  · rename_i c hpc; exact ⟨fun hp => h.yn (by rw [hpc]; exact hp), fun e he => by cases he⟩
  · rename_i c hpc; exact ⟨fun hp => h.yn (by rw [hpc]; exact hp), fun e he => by cases he⟩
  · rename_i hpc; exact ⟨fun _ => h.yn (by rw [hpc]; trivial), fun e he => by cases he⟩
  · rename_i hpc; exact ⟨fun _ => h.yn (by rw [hpc]; trivial), fun e he => by cases he⟩
  · rename_i hpc; exact ⟨fun _ => h.yn (by rw [hpc]; trivial), fun e he => by cases he⟩
  · -- the final check
    rename_i hpc
    refine ⟨fun _ => h.yn (by rw [hpc]; trivial), fun e he hs => ?_⟩
    have he' : MPc.woke (mqEmpty s.aq) = MPc.woke e := he
    injection he' with he'
    subst he'
    have hs' : s.a.owedFids ≠ [] := hs
    cases hl : s.a.owedFids with
    | nil => exact absurd hl hs'
    | cons f r =>
      have hf : f ∈ s.a.owedFids := by rw [hl]; exact List.mem_cons_self
      have h1 := reach_inv1 hr
      show wakeValue s.k (mqEmpty s.aq) = s.k.now
      rcases reach_inv3 hr f hf with h' | h' | ⟨c, _, _, hc, _, _⟩
      · rw [not_empty_of_inAq h1 (reach_owned hr).1 hq h']; simp [wakeValue]
      · have : s.k.runq ≠ [] := fun e => by rw [e] at h'; cases h'
        simp [wakeValue, this]
      · rw [hpc] at hc; cases hc
  · exact h

theorem monO_mainPlain {s : S} (h : MonO s) : MonO (mainPlain s) := by
  unfold mainPlain
  split
  · rename_i c _
    cases c with
    | next t =>
      simp only [startCall]; unfold startNext
      split
      · exact ⟨fun _ => rfl, fun e he => by cases he⟩
      · exact ⟨fun _ => rfl, fun e he => by cases he⟩
    | run f => exact ⟨fun hp => False.elim hp, fun e he => by cases he⟩
    | kill f => exact ⟨fun hp => False.elim hp, fun e he => by cases he⟩
  · rename_i e hpc
    have hy := h.yn (by rw [hpc]; trivial)
    split
    · exact monO_post (frame_dispatch ⟨rfl, rfl, rfl, rfl⟩).post (yn_dispatch s hy)
    · exact ⟨fun _ => hy, fun e he => by cases he⟩
  · rename_i c hpc
    split
    · exact ⟨fun hp => h.yn (by rw [hpc]; exact hp), fun e he => by cases he⟩
    · exact monO_post (frame_afterDrain ⟨rfl, rfl, rfl, rfl⟩ c).post (yn_afterDrain s c (fun hc => h.yn (by rw [hpc]; exact hc)))
  · rename_i c hpc
    exact ⟨fun hp => h.yn (by rw [hpc]; exact hp), fun e he => by cases he⟩
  · rename_i hpc
    have hy := h.yn (by rw [hpc]; trivial)
    refine monO_post (frame_afterUpdate (resetPriv_same s)).post (yn_afterUpdate _ ?_)
    unfold resetPriv; split <;> exact hy
  · rename_i hpc
    have hy := h.yn (by rw [hpc]; trivial)
    split
    · refine ⟨fun _ => ?_, fun e he => by cases he⟩
      show (s.a.step (.evProcessed _)).yieldedNow = false
      rw [(specSame_evProcessed s.a _).2.2.1]; exact hy
    · exact monO_post (frame_returned ⟨rfl, rfl, rfl, rfl⟩ _).post (yn_returned s _)
  · rename_i hpc
    exact ⟨fun _ => h.yn (by rw [hpc]; trivial), fun e he => by cases he⟩
  · exact monO_post trivial (fun hp => False.elim hp)
  · exact h

theorem reachR_monO {n : Nat} {s : S} (hr : ReachR n s) : MonO s := by
  induction hr with
  | init d kinds budgets h1 h32 _ => exact ⟨fun hp => False.elim hp, fun e he => by cases he⟩
  | mainPlain _ _ ih => exact monO_mainPlain ih
  | mainAtomic hr hq ih => exact monO_mainAtomic (reachR_reach hr) hq ih
  | enterMain c _ _ hidle _ ih => exact ⟨fun hp => False.elim hp, fun e he => by cases he⟩
  | senderPlain i hi _ ih => exact monO_sender ih (senderPlain_mpc i _) (senderPlain_k i _) (specSame_emits (sobs_senderPlain i _))
  | senderAtomic i hi _ ih => exact monO_sender ih (senderAtomic_mpc i _) (senderAtomic_k i _) (specSame_emits (sobs_senderAtomic i _))
  | enterSender i c hi _ hidle _ ih => exact ⟨ih.yn, ih.snapw⟩
  | tok t _ ih => exact ⟨ih.yn, ih.snapw⟩
  | nops k _ ih => exact ⟨ih.yn, ih.snapw⟩
  | newItem _ ih => exact ⟨ih.yn, ih.snapw⟩
  | noYields _ ih => exact ⟨ih.yn, ih.snapw⟩
  | setBody b r hb _ ih => exact ⟨ih.yn, ih.snapw⟩

/-! ## events whose send returned true keep the handler owed a dispatch -/

structure MonW (s : S) : Prop where
  mm : s.a.mustGet ≠ [] → HANDLER ∈ s.a.owedFids ∨ HRunning s
  so : ∀ i st f, i < 3 → s.ipc i = .raSent f (some st) → HANDLER ∈ s.a.owedFids

theorem mustGet_accepted (a : A) (f : Fid) : (a.step (.accepted f)).mustGet = a.mustGet := by
  simp only [A.step]; split <;> rfl

theorem owedFids_mono_sender {a a' : A} (h : EmitsP SenderObs a a') : ∀ f ∈ a.owedFids, f ∈ a'.owedFids := by
  obtain ⟨l, hn, e⟩ := h
  subst e
  induction l generalizing a with
  | nil => exact fun _ h => h
  | cons o l ih =>
    intro f hf
    apply ih (fun x hx => hn x (List.mem_cons_of_mem _ hx))
    have ho := hn o List.mem_cons_self
    cases o with
    | accepted g => exact (mem_owed_accepted a g f).mpr (Or.inl hf)
    | rejected g => exact hf
    | evClaimed st => exact hf
    | evSent st ok => rw [owedFids_neutral a (.evSent st ok) trivial]; exact hf
    | _ => exact False.elim ho

theorem hrunning_congr {s s' : S} (hm : s'.mpc = s.mpc) (hr : s'.eq.recv = s.eq.recv) : HRunning s' ↔ HRunning s := by
  unfold HRunning; rw [hm, hr]

/-- a step of sender `i` that does not return from a successful event send -/
theorem monW_sender {s s' : S} (h : MonW s) (i : Nat) (hm : s'.mpc = s.mpc) (hr : s'.eq.recv = s.eq.recv)
    (ho : ∀ f ∈ s.a.owedFids, f ∈ s'.a.owedFids) (hmg : s'.a.mustGet = s.a.mustGet)
    (hipc : ∀ j, j ≠ i → s'.ipc j = s.ipc j)
    (hown : ∀ st f, s'.ipc i = .raSent f (some st) → HANDLER ∈ s'.a.owedFids) : MonW s' := by
  refine ⟨fun hne => ?_, fun j st f hj3 hj => ?_⟩
  · rcases h.mm (hmg ▸ hne) with h' | h'
    · exact Or.inl (ho _ h')
    · exact Or.inr ((hrunning_congr hm hr).mpr h')
  · by_cases hji : j = i
    · subst hji; exact hown st f hj
    · exact ho _ (h.so j st f hj3 (hipc j hji ▸ hj))

theorem monW_senderAtomic {s : S} (h1 : Inv1 s) (h : MonW s) (i : Nat) : MonW (senderAtomic i s) := by
  have ht := h1.target i
  have notSent : ∀ (pc : IPc), (∀ st f, pc ≠ .raSent f (some st)) → ∀ st f, upd s.ipc i pc i = .raSent f (some st) → HANDLER ∈ s.a.owedFids := by
    intro pc hp st f e; rw [upd_same] at e; exact absurd e (hp st f)
  unfold senderAtomic
  split
  · rename_i st hpc
    split
    · refine monW_sender h i rfl (sender_recv _ _ _ _) (fun f hf => ?_) rfl (fun j hj => upd_other _ _ _ _ hj) ?_
      · show f ∈ (s.a.step (.evClaimed st)).owedFids; exact hf
      · intro st' f e; rw [show (tok _ _ : S).ipc = upd s.ipc i (.evClaimed st) from rfl, upd_same] at e; cases e
    · exact monW_sender h i rfl (sender_recv _ _ _ _) (fun _ hf => hf) rfl (fun j hj => upd_other _ _ _ _ hj) (notSent _ (by simp))
    · refine monW_sender h i rfl (sender_recv _ _ _ _) (fun _ hf => hf) rfl (fun j _ => rfl) ?_
      intro st' f e
      have e' : s.ipc i = .raSent f (some st') := e
      rw [hpc] at e'; cases e'
  · exact monW_sender h i rfl rfl (fun _ hf => hf) rfl (fun j hj => upd_other _ _ _ _ hj) (notSent _ (by simp))
  · exact monW_sender h i rfl (sender_recv _ _ _ _) (fun _ hf => hf) rfl (fun j hj => upd_other _ _ _ _ hj) (notSent _ (by simp))
  · rename_i f ev hpc
    split
    · exact monW_sender h i rfl rfl (fun _ hf => hf) rfl (fun j hj => upd_other _ _ _ _ hj) (notSent _ (by simp))
    · exact monW_sender h i rfl rfl (fun _ hf => hf) rfl (fun j hj => upd_other _ _ _ _ hj) (notSent _ (by simp))
    · refine monW_sender h i rfl rfl (fun _ hf => hf) rfl (fun j _ => rfl) ?_
      intro st' f' e
      have e' : s.ipc i = .raSent f' (some st') := e
      rw [hpc] at e'; cases e'
  · exact monW_sender h i rfl rfl (fun _ hf => hf) rfl (fun j hj => upd_other _ _ _ _ hj) (notSent _ (by simp))
  · -- raSend: the request is accepted
    rename_i f ev hpc
    rw [hpc] at ht
    refine monW_sender h i rfl rfl (fun g hg => (mem_owed_accepted s.a f g).mpr (Or.inl hg)) (mustGet_accepted s.a f)
      (fun j hj => upd_other _ _ _ _ hj) ?_
    intro st' f' e
    rw [show (tok _ _ : S).ipc = upd s.ipc i (.raSent f ev) from rfl, upd_same] at e
    injection e with e1 e2
    subst e1; subst e2
    have : f = HANDLER := ht
    subst this
    exact (mem_owed_accepted s.a HANDLER HANDLER).mpr (Or.inr rfl)
  · exact h

theorem monW_senderPlain {s : S} (h : MonW s) (i : Nat) (hi3 : i < 3) : MonW (senderPlain i s) := by
  have notSent : ∀ (pc : IPc), (∀ st f, pc ≠ .raSent f (some st)) → ∀ st f, upd s.ipc i pc i = .raSent f (some st) → HANDLER ∈ s.a.owedFids := by
    intro pc hp st f e; rw [upd_same] at e; exact absurd e (hp st f)
  unfold senderPlain
  split
  · exact monW_sender h i rfl (sender_recv _ _ _ _) (fun _ hf => hf) rfl (fun j hj => upd_other _ _ _ _ hj) (notSent _ (by simp))
  · exact monW_sender h i rfl rfl (fun _ hf => hf) rfl (fun j hj => upd_other _ _ _ _ hj) (notSent _ (by simp))
  · exact monW_sender h i rfl rfl (fun _ hf => hf) rfl (fun j hj => upd_other _ _ _ _ hj) (notSent _ (by simp))
  · exact monW_sender h i rfl rfl (fun _ hf => hf) rfl (fun j hj => upd_other _ _ _ _ hj) (notSent _ (by simp))
  · exact monW_sender h i rfl rfl (fun _ hf => hf) rfl (fun j hj => upd_other _ _ _ _ hj) (notSent _ (by simp))
  · exact monW_sender h i rfl rfl (fun _ hf => hf) rfl (fun j hj => upd_other _ _ _ _ hj) (notSent _ (by simp))
  · rename_i f ev hpc
    cases ev with
    | none =>
      refine monW_sender h i rfl rfl (fun _ hf => hf) rfl (fun j hj => upd_other _ _ _ _ hj) ?_
      intro st f' e; have e' : upd s.ipc i IPc.idle i = _ := e; rw [upd_same] at e'; cases e'
    | some st =>
      refine monW_sender h i rfl rfl (fun g hg => ?_) ?_ (fun j hj => upd_other _ _ _ _ hj) ?_
      · show g ∈ ((s.a.step (.rejected f)).step (.evSent st false)).owedFids
        rw [step_evSent_false]; exact hg
      · show ((s.a.step (.rejected f)).step (.evSent st false)).mustGet = _
        rw [step_evSent_false]; rfl
      · intro st' f' e; have e' : upd s.ipc i IPc.idle i = _ := e; rw [upd_same] at e'; cases e'
  · -- raSent: fibre_eventq_send returns true
    rename_i f ev hpc
    cases ev with
    | none =>
      refine monW_sender h i rfl rfl (fun _ hf => hf) rfl (fun j hj => upd_other _ _ _ _ hj) ?_
      intro st f' e; have e' : upd s.ipc i IPc.idle i = _ := e; rw [upd_same] at e'; cases e'
    | some st =>
      have hH := h.so i st f hi3 hpc
      have hof : (s.a.step (.evSent st true)).owedFids = s.a.owedFids := owedFids_neutral s.a (.evSent st true) trivial
      refine ⟨fun _ => Or.inl ?_, fun j st' f' _ hj => ?_⟩
      · show HANDLER ∈ (s.a.step (.evSent st true)).owedFids
        rw [hof]; exact hH
      · show HANDLER ∈ (s.a.step (.evSent st true)).owedFids
        rw [hof]; exact hH
  · exact h

theorem quiet_all_sent_eq {s : S} (h1 : Inv1 s) (ho : Owned s.eq) (hq : Quiet s) : ∀ k, k < s.eq.claimed → s.eq.sent k = true := by
  intro k hk
  cases hs : s.eq.sent k with
  | true => rfl
  | false =>
    obtain ⟨i, sl, hh⟩ := ho k hk hs
    have hi : i < 3 := by
      have : i < s.eq.senders.length := by rcases hh with hh | hh <;> exact lt_of_some hh
      rw [h1.eqLen] at this; exact this
    have hsi := h1.senders i hi
    rw [hq i hi] at hsi
    have : s.eq.senders[i]? = some .idle := hsi.1
    rw [this] at hh
    rcases hh with hh | hh <;> cases hh

/-- with no sender inside a call, a receive on the event queue that returns NULL means that nothing is claimed and
    unreceived: the monitor's FIFO, hence `mustGet`, is empty -/
theorem mustGet_nil_of_null {s : S} (hr : Reach s) (hq : Quiet s) (hidle : s.eq.recv = .idle)
    (hnull : (step s.eq (.recv false)).recv = .idle) : s.a.mustGet = [] := by
  have h1 := reach_inv1 hr
  have hstep : step s.eq (.recv false) = stepReceive s.eq := by simp [step, hidle, stepRecv]
  have hns : ¬ (s.eq.received < s.eq.claimed ∧ s.eq.sent s.eq.received = true) :=
    fun hc => (receive_succeeds_iff s.eq h1.eqInv).mpr hc (hstep ▸ hnull)
  have ho2 := h1.eqInv.order2
  have heq : s.eq.received = s.eq.claimed := by
    by_cases hlt : s.eq.received < s.eq.claimed
    · exact absurd ⟨hlt, quiet_all_sent_eq h1 (reach_owned hr).2 hq _ hlt⟩ hns
    · omega
  have hlen := (reach_monE hr).len
  rw [processed_idle hidle, heq] at hlen
  have hnil : s.a.evq = [] := List.eq_nil_of_length_eq_zero (by omega)
  cases hm : s.a.mustGet with
  | nil => rfl
  | cons x r =>
    have := (reach_monE hr).mg x (by rw [hm]; exact List.mem_cons_self)
    rw [hnil] at this; cases this

/-- the scheduler's plain code as far as `mustGet` and the handler's obligation are concerned -/
structure WFrame (s s' : S) : Prop where
  mg : ∀ st ∈ s'.a.mustGet, st ∈ s.a.mustGet
  hd : HANDLER ∈ s.a.owedFids → HANDLER ∈ s'.a.owedFids ∨ s'.mpc = .hRecv ∨ s'.a.mustGet = []
  ipc : s'.ipc = s.ipc

structure WRel (s0 s : S) : Prop where
  mg : ∀ st ∈ s.a.mustGet, st ∈ s0.a.mustGet
  hd : HANDLER ∈ s0.a.owedFids → HANDLER ∈ s.a.owedFids
  ipc : s.ipc = s0.ipc
  kind : s.kind HANDLER = .handler
  hdl : s.a.handler = HANDLER

theorem wframe_of_rel {s0 s : S} (h : WRel s0 s) : WFrame s0 s := ⟨h.mg, fun hh => Or.inl (h.hd hh), h.ipc⟩

theorem wrel_finishPass {s0 s : S} (h : WRel s0 s) (v : BitVec 32) : WRel s0 (finishPass s v) := by
  have hr := specRest_passEnd s.a (decide (v = s.k.now))
  refine ⟨fun st hs => h.mg st ?_, fun hh => ?_, h.ipc, h.kind, ?_⟩
  · have : st ∈ (s.a.step (.passEnd (decide (v = s.k.now)))).mustGet := hs
    rw [hr.mustGet] at this; exact this
  · show HANDLER ∈ (s.a.step (.passEnd (decide (v = s.k.now)))).owedFids
    rw [owedFids_neutral s.a (.passEnd _) trivial]; exact h.hd hh
  · show (s.a.step (.passEnd (decide (v = s.k.now)))).handler = _
    rw [hr.handler]; exact h.hdl

theorem wrel_returned {s0 s : S} (h : WRel s0 s) (r : Ret) : WRel s0 (returned s r) := by
  unfold returned
  split
  · exact wrel_finishPass (by exact ⟨h.mg, h.hd, h.ipc, h.kind, h.hdl⟩) _
  · exact ⟨h.mg, h.hd, h.ipc, h.kind, h.hdl⟩

theorem wrel_bodyStep {s0 s : S} (h : WRel s0 s) : WRel s0 (bodyStep s) := by
  unfold bodyStep
  split
  · exact wrel_returned h _
  · exact ⟨h.mg, h.hd, h.ipc, h.kind, h.hdl⟩
  · exact ⟨h.mg, h.hd, h.ipc, h.kind, h.hdl⟩

theorem handler_killed (a : A) (f : Fid) : (a.step (.killed f)).handler = a.handler := by
  simp only [A.step]; split <;> rfl

theorem wrel_bodyOf {s0 s : S} (h : WRel s0 s) (c : Fid) : WRel s0 (bodyOf s c) := by
  unfold bodyOf
  split
  · exact ⟨h.mg, h.hd, h.ipc, h.kind, h.hdl⟩
  · split
    · exact wrel_returned (by exact ⟨h.mg, h.hd, h.ipc, h.kind, h.hdl⟩) _
    · exact wrel_returned h _
  · split
    · exact wrel_returned (by exact ⟨h.mg, h.hd, h.ipc, h.kind, h.hdl⟩) _
    · exact wrel_returned (by exact ⟨h.mg, h.hd, h.ipc, h.kind, h.hdl⟩) _
  · exact wrel_returned h _
  · exact wrel_bodyStep h

theorem wframe_body {s0 s : S} (h : WRel s0 s) (c : Fid) : WFrame s0 (body s c) := by
  unfold body
  have hb := wrel_bodyOf (s0 := tok (.disp c) (emit (.dispatched c) { s with dispatchedNow := true }))
    (s := tok (.disp c) (emit (.dispatched c) { s with dispatchedNow := true }))
    ⟨fun _ hs => hs, fun hh => hh, rfl, h.kind, h.hdl⟩ c
  refine ⟨fun st hs => h.mg st (hb.mg st hs), fun hh => ?_, hb.ipc.trans h.ipc⟩
  by_cases hc : c = HANDLER
  · subst hc
    exact Or.inr (Or.inl (bodyOf_handler (by simp only [tok_kind, emit_kind]; exact h.kind)))
  · left
    apply hb.hd
    show HANDLER ∈ (s.a.step (.dispatched c)).owedFids
    exact (mem_owed_dispatched s.a c HANDLER).mpr ⟨h.hd hh, Ne.symm hc⟩

theorem wframe_dispatch {s0 s : S} (h : WRel s0 s) : WFrame s0 (dispatch s) := by
  unfold dispatch
  split
  · exact wframe_body h _
  · exact wframe_of_rel ⟨h.mg, h.hd, h.ipc, h.kind, h.hdl⟩

theorem wframe_afterUpdate {s0 s : S} (h : WRel s0 s) : WFrame s0 (afterUpdate s) :=
  wframe_dispatch (by exact ⟨h.mg, h.hd, h.ipc, h.kind, h.hdl⟩)

theorem wframe_afterDrain {s0 s : S} (h : WRel s0 s) (c : Cont) : WFrame s0 (afterDrain s c) := by
  cases c with
  | run f => exact wframe_of_rel ⟨h.mg, h.hd, h.ipc, h.kind, h.hdl⟩
  | kill f =>
    by_cases hf : f = HANDLER
    · subst hf
      have e : (s.a.step (.killed HANDLER)).mustGet = [] := by simp only [A.step, h.hdl, if_true]
      refine ⟨fun st hs => ?_, fun _ => Or.inr (Or.inr e), h.ipc⟩
      have hs' : st ∈ (s.a.step (.killed HANDLER)).mustGet := hs
      rw [e] at hs'; cases hs'
    · refine ⟨fun st hs => h.mg st ?_, fun hh => Or.inl ?_, h.ipc⟩
      · have hs' : st ∈ (s.a.step (.killed f)).mustGet := hs
        simp only [A.step, h.hdl, hf, if_false] at hs'
        exact hs'
      · exact (mem_owed_killed s.a f HANDLER).mpr ⟨h.hd hh, Ne.symm hf⟩
  | pass1 =>
    simp only [afterDrain]
    split
    · exact wframe_afterUpdate h
    · split
      · exact wframe_of_rel ⟨h.mg, h.hd, h.ipc, h.kind, h.hdl⟩
      · exact wframe_of_rel ⟨h.mg, h.hd, h.ipc, h.kind, h.hdl⟩
      · exact wframe_afterUpdate (by exact ⟨h.mg, h.hd, h.ipc, h.kind, h.hdl⟩)
      · exact wframe_afterUpdate h
  | pass2 c => exact wframe_afterUpdate (by exact ⟨h.mg, h.hd, h.ipc, h.kind, h.hdl⟩)
  | brun g => exact wframe_of_rel (wrel_bodyStep (by exact ⟨h.mg, h.hd, h.ipc, h.kind, h.hdl⟩))
  | bkill f =>
    show WFrame s0 (bodyStep (bkillPre s f))
    have hk : (bkillPre s f).kind HANDLER = .handler := h.kind
    have hh : (bkillPre s f).a.handler = HANDLER := (handler_killed s.a f).trans h.hdl
    have hi : (bkillPre s f).ipc = s0.ipc := h.ipc
    have ha : (bkillPre s f).a = s.a.step (.killed f) := rfl
    by_cases hf : f = HANDLER
    · subst hf
      have e : (s.a.step (.killed HANDLER)).mustGet = [] := by simp only [A.step, h.hdl, if_true]
      have hb := wrel_bodyStep (s0 := bkillPre s HANDLER) (s := bkillPre s HANDLER) ⟨fun _ hs => hs, fun hh => hh, rfl, hk, hh⟩
      have hnil : ∀ st, st ∉ (bodyStep (bkillPre s HANDLER)).a.mustGet := by
        intro st hs
        have hs' := hb.mg st hs
        rw [ha, e] at hs'; cases hs'
      exact ⟨fun st hs => absurd hs (hnil st), fun _ => Or.inr (Or.inr (List.eq_nil_iff_forall_not_mem.mpr hnil)), hb.ipc.trans hi⟩
    · refine wframe_of_rel (wrel_bodyStep ⟨fun st hs => h.mg st ?_, fun hh' => ?_, hi, hk, hh⟩)
      · rw [ha] at hs
        simp only [A.step, h.hdl, hf, if_false] at hs
        exact hs
      · rw [ha]; exact (mem_owed_killed s.a f HANDLER).mpr ⟨h.hd hh', Ne.symm hf⟩

theorem WRel.refl (s : S) (hk : s.kind HANDLER = .handler) (hh : s.a.handler = HANDLER) : WRel s s :=
  ⟨fun _ h => h, fun h => h, rfl, hk, hh⟩

/-- the plain code of the scheduler, started with the handler not running and every sender between calls -/
theorem monW_wframe {s s' : S} (h : MonW s) (hf : WFrame s s') (hq : Quiet s) (hnr : ¬ HRunning s) :
    MonW s' := by
  refine ⟨fun hne => ?_, fun i st f h3 hi => ?_⟩
  · have hne0 : s.a.mustGet ≠ [] := by
      intro e
      cases hm : s'.a.mustGet with
      | nil => exact hne hm
      | cons x r => have := hf.mg x (by rw [hm]; exact List.mem_cons_self); rw [e] at this; cases this
    rcases h.mm hne0 with h' | h'
    · rcases hf.hd h' with a | a | a
      · exact Or.inl a
      · exact Or.inr (Or.inl a)
      · exact absurd a hne
    · exact absurd h' hnr
  · rw [hf.ipc, hq i h3] at hi; cases hi

theorem monW_quietSo {s' : S} (hq : Quiet s') : ∀ i st f, i < 3 → s'.ipc i = .raSent f (some st) → HANDLER ∈ s'.a.owedFids := by
  intro i st f h3 hi; rw [hq i h3] at hi; cases hi

theorem monW_mainAtomic {s : S} (hr : Reach s) (hq : Quiet s) (h : MonW s) : MonW (mainAtomic s) := by
  have h1 := reach_inv1 hr
  have hm := h1.mainEq
  have hq' : Quiet (mainAtomic s) := fun i hi => by rw [mainAtomic_ipc]; exact hq i hi
  -- steps at which the handler is not running and the event queue is untouched
  have gen : ∀ (s' : S), s'.a.mustGet = s.a.mustGet → s'.a.owedFids = s.a.owedFids → Quiet s' → ¬ HRunning s → MonW s' := by
    intro s' e1 e2 hq2 hnr
    refine ⟨fun hne => ?_, monW_quietSo hq2⟩
    rcases h.mm (e1 ▸ hne) with h' | h'
    · exact Or.inl (e2 ▸ h')
    · exact absurd h' hnr
  unfold mainAtomic at hq' ⊢
  split
  · rename_i hpc
    rw [hpc] at hq'
    exact gen _ rfl (owedFids_neutral s.a .looked trivial) hq'
      (not_running_of_mpc (by rw [hpc]; simp) (by rw [hpc]; simp) (by rw [hpc]; simp) (by rw [hpc]; simp))
  · rename_i c hpc
    rw [hpc] at hq'
    exact gen _ rfl rfl hq' (not_running_of_mpc (by rw [hpc]; simp) (by rw [hpc]; simp) (by rw [hpc]; simp) (by rw [hpc]; simp))
  · rename_i c hpc
    rw [hpc] at hq'
    exact gen _ rfl rfl hq' (not_running_of_mpc (by rw [hpc]; simp) (by rw [hpc]; simp) (by rw [hpc]; simp) (by rw [hpc]; simp))
  · rename_i hpc
    rw [hpc] at hq'
    exact gen _ rfl rfl hq' (not_running_of_mpc (by rw [hpc]; simp) (by rw [hpc]; simp) (by rw [hpc]; simp) (by rw [hpc]; simp))
  · -- hRecv
    rename_i hpc
    rw [hpc] at hq' hm
    refine ⟨fun hne => ?_, monW_quietSo hq'⟩
    rcases receive_cases s.eq hm with ⟨e1, _⟩ | ⟨e1, _⟩
    · exact absurd (mustGet_nil_of_null hr hq hm e1) hne
    · exact Or.inr (Or.inr (Or.inl ⟨rfl, _, _, e1⟩))
  · rename_i hpc
    rw [hpc] at hq'
    exact ⟨fun _ => Or.inr (Or.inr (Or.inr (Or.inr rfl))), monW_quietSo hq'⟩
  · rename_i hpc
    rw [hpc] at hq'
    exact gen _ rfl (owedFids_neutral s.a .looked trivial) hq'
      (not_running_of_mpc (by rw [hpc]; simp) (by rw [hpc]; simp) (by rw [hpc]; simp) (by rw [hpc]; simp))
  · exact h

theorem monW_mainPlain {s : S} (hr : Reach s) (hb : MonB s.a) (hq : Quiet s) (h : MonW s) : MonW (mainPlain s) := by
  have h1 := reach_inv1 hr
  have hme := h1.mainEq
  have hrel : WRel s s := WRel.refl s h1.handlerKind hb.hdl
  have hq' : Quiet (mainPlain s) := fun i hi => by rw [mainPlain_ipc]; exact hq i hi
  have gen : ∀ (s' : S), s'.a.mustGet = s.a.mustGet → s'.a.owedFids = s.a.owedFids → Quiet s' → ¬ HRunning s → MonW s' := by
    intro s' e1 e2 hq2 hnr
    refine ⟨fun hne => ?_, monW_quietSo hq2⟩
    rcases h.mm (e1 ▸ hne) with h' | h'
    · exact Or.inl (e2 ▸ h')
    · exact absurd h' hnr
  unfold mainPlain at hq' ⊢
  split
  · rename_i c hpc
    rw [hpc] at hq'
    have hnr : ¬ HRunning s := not_running_of_mpc (by rw [hpc]; simp) (by rw [hpc]; simp) (by rw [hpc]; simp) (by rw [hpc]; simp)
    cases c with
    | next t =>
      simp only [startCall] at hq' ⊢
      unfold startNext at hq' ⊢
      split
      · rename_i hc; rw [if_pos hc] at hq'; exact gen _ rfl rfl hq' hnr
      · rename_i hc; rw [if_neg hc] at hq'; exact gen _ rfl rfl hq' hnr
    | run f => exact gen _ rfl rfl hq' hnr
    | kill f => exact gen _ rfl rfl hq' hnr
  · rename_i e hpc
    have hnr : ¬ HRunning s := not_running_of_mpc (by rw [hpc]; simp) (by rw [hpc]; simp) (by rw [hpc]; simp) (by rw [hpc]; simp)
    split
    · exact monW_wframe h (wframe_dispatch hrel) hq hnr
    · rename_i he; rw [hpc] at hq'; simp only [he] at hq'; exact gen _ rfl rfl hq' hnr
  · rename_i c hpc
    have hnr : ¬ HRunning s := not_running_of_mpc (by rw [hpc]; simp) (by rw [hpc]; simp) (by rw [hpc]; simp) (by rw [hpc]; simp)
    split
    · rename_i sl k hrv; rw [hpc] at hq'; simp only [hrv] at hq'; exact gen _ rfl rfl hq' hnr
    · exact monW_wframe h (wframe_afterDrain hrel c) hq hnr
  · rename_i c hpc
    rw [hpc] at hq'
    exact gen _ rfl rfl hq' (not_running_of_mpc (by rw [hpc]; simp) (by rw [hpc]; simp) (by rw [hpc]; simp) (by rw [hpc]; simp))
  · rename_i hpc
    have hnr : ¬ HRunning s := not_running_of_mpc (by rw [hpc]; simp) (by rw [hpc]; simp) (by rw [hpc]; simp) (by rw [hpc]; simp)
    refine monW_wframe h (wframe_afterUpdate ?_) hq hnr
    unfold resetPriv; split
    · exact ⟨fun _ h => h, fun h => h, rfl, h1.handlerKind, hb.hdl⟩
    · exact hrel
  · -- hRecvd
    rename_i hpc
    rw [hpc] at hme
    split
    · rename_i sl k hrv
      rw [hpc] at hq'; simp only [hrv] at hq'
      exact ⟨fun _ => Or.inr (Or.inr (Or.inr (Or.inl rfl))), monW_quietSo hq'⟩
    · rename_i hnh
      rcases hme with hme | ⟨sl, k, hrv⟩
      · refine monW_wframe h (wframe_of_rel (wrel_returned hrel _)) hq ?_
        rintro (h' | ⟨_, sl, k, hrv⟩ | h' | h')
        · rw [hpc] at h'; cases h'
        · rw [hme] at hrv; cases hrv
        · rw [hpc] at h'; cases h'
        · rw [hpc] at h'; cases h'
      · exact absurd hrv (hnh sl k)
  · rename_i hpc
    rw [hpc] at hq'
    exact ⟨fun _ => Or.inr (Or.inl rfl), monW_quietSo hq'⟩
  · rename_i e hpc
    exact monW_wframe h (wframe_of_rel (wrel_finishPass hrel _)) hq
      (not_running_of_mpc (by rw [hpc]; simp) (by rw [hpc]; simp) (by rw [hpc]; simp) (by rw [hpc]; simp))
  · exact h

theorem reachR_monW {n : Nat} {s : S} (hr : ReachR n s) : MonW s := by
  induction hr with
  | init d kinds budgets h1 h32 _ => exact ⟨fun h => absurd rfl h, fun i st f _ hi => by cases hi⟩
  | mainPlain hr hq ih => exact monW_mainPlain (reachR_reach hr) (reachR_monB hr) hq ih
  | mainAtomic hr hq ih => exact monW_mainAtomic (reachR_reach hr) hq ih
  | enterMain c _ hq hidle _ ih =>
    refine ⟨fun hne => ?_, ih.so⟩
    rcases ih.mm hne with h' | h'
    · exact Or.inl h'
    · exact absurd h' (not_running_of_mpc (by rw [hidle]; simp) (by rw [hidle]; simp) (by rw [hidle]; simp) (by rw [hidle]; simp))
  | senderPlain i hi _ ih => exact monW_senderPlain ih i (by omega)
  | senderAtomic i hi hr ih => exact monW_senderAtomic (reach_inv1 (reachR_reach hr)) ih i
  | enterSender i c hi _ hidle _ ih =>
    refine monW_sender ih i rfl rfl (fun _ hf => hf) rfl (fun j hj => upd_other _ _ _ _ hj) ?_
    intro st f e
    have e' : upd _ i (startPc c) i = _ := e
    rw [upd_same] at e'
    cases c <;> cases e'
  | tok t _ ih => exact ⟨ih.mm, ih.so⟩
  | nops k _ ih => exact ⟨ih.mm, ih.so⟩
  | newItem _ ih => exact ⟨ih.mm, ih.so⟩
  | noYields _ ih => exact ⟨ih.mm, ih.so⟩
  | setBody b r hb _ ih => exact ⟨ih.mm, ih.so⟩

end Librfn.Isr.L

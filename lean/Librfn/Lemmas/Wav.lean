import Librfn.Model.Wav
import Librfn.Lemmas.Pack
/-! Helper lemmas about the decoder of the WAV model: cursor arithmetic of the three stages, independence of the
result from memory outside the buffer, and independence from the declared size once the parse ends inside it. -/
namespace Librfn.Lemmas.Wav
open Librfn.Model.Pack Librfn.Model.Wav Librfn.Lemmas.Pack

/-- the declared size replaced, cursor and base kept -/
def resize (p : Pk) (sz : Nat) : Pk := { p with size := sz }

@[simp] theorem advance_cur (p : Pk) (n : Nat) : (advance p n).cur = p.cur + n := rfl
@[simp] theorem advance_base (p : Pk) (n : Nat) : (advance p n).base = p.base := rfl
@[simp] theorem advance_size (p : Pk) (n : Nat) : (advance p n).size = p.size := rfl
@[simp] theorem resize_cur (p : Pk) (n : Nat) : (resize p n).cur = p.cur := rfl
@[simp] theorem resize_base (p : Pk) (n : Nat) : (resize p n).base = p.base := rfl
@[simp] theorem resize_size (p : Pk) (n : Nat) : (resize p n).size = n := rfl
theorem resize_advance (p : Pk) (n k : Nat) : advance (resize p k) n = resize (advance p n) k := rfl

@[simp] theorem unpackBytes_pk (m : Mem) (p : Pk) (n : Nat) : (unpackBytes m p n).2 = advance p n := rfl
@[simp] theorem unpackU16le_pk (m : Mem) (p : Pk) : (unpackU16le m p).2 = advance p 2 := rfl
@[simp] theorem unpackU32le_pk (m : Mem) (p : Pk) : (unpackU32le m p).2 = advance p 4 := rfl
@[simp] theorem unpackSkip_pk (p : Pk) (n : Nat) : unpackSkip p n = advance p n := rfl

/-! ### primitives do not depend on the declared size when the item fits both sizes -/

theorem fits_resize (p : Pk) (n k : Nat) (h1 : p.cur + n ≤ p.size) (h2 : p.cur + n ≤ k) :
    fits (resize p k) n = fits p n := by
  simp [fits, resize, h1, h2]

theorem unpackBytes_resize (m : Mem) (p : Pk) (n k : Nat) (h1 : p.cur + n ≤ p.size) (h2 : p.cur + n ≤ k) :
    unpackBytes m (resize p k) n = ((unpackBytes m p n).1, resize (advance p n) k) := by
  simp only [unpackBytes, fits_resize p n k h1 h2, resize_base, resize_cur, resize_advance]

theorem unpackU16le_resize (m : Mem) (p : Pk) (k : Nat) (h1 : p.cur + 2 ≤ p.size) (h2 : p.cur + 2 ≤ k) :
    unpackU16le m (resize p k) = ((unpackU16le m p).1, resize (advance p 2) k) := by
  simp only [unpackU16le, fits_resize p 2 k h1 h2, resize_base, resize_cur, resize_advance]

theorem unpackU32le_resize (m : Mem) (p : Pk) (k : Nat) (h1 : p.cur + 4 ≤ p.size) (h2 : p.cur + 4 ≤ k) :
    unpackU32le m (resize p k) = ((unpackU32le m p).1, resize (advance p 4) k) := by
  simp only [unpackU32le, fits_resize p 4 k h1 h2, resize_base, resize_cur, resize_advance]

/-! ### primitives read only the buffer -/

/-- two memories that agree on `[b, b+sz)` -/
def Agree (b sz : Nat) (m m' : Mem) : Prop := ∀ i, b ≤ i → i < b + sz → m i = m' i

theorem unpackBytes_agree (m m' : Mem) (p : Pk) (n : Nat) (h : Agree p.base p.size m m') :
    unpackBytes m p n = unpackBytes m' p n := by
  simp only [unpackBytes]
  by_cases hf : fits p n = true
  · simp only [hf, if_true]
    simp only [fits, decide_eq_true_eq] at hf
    rw [readBytes_congr m m' _ _ (fun i h1 h2 => h i (by omega) (by omega))]
  · simp [hf]

theorem unpackU16le_agree (m m' : Mem) (p : Pk) (h : Agree p.base p.size m m') :
    unpackU16le m p = unpackU16le m' p := by
  simp only [unpackU16le]
  by_cases hf : fits p 2 = true
  · simp only [hf, if_true]
    simp only [fits, decide_eq_true_eq] at hf
    rw [h (p.base + p.cur) (by omega) (by omega), h (p.base + p.cur + 1) (by omega) (by omega)]
  · simp [hf]

theorem unpackU32le_agree (m m' : Mem) (p : Pk) (h : Agree p.base p.size m m') :
    unpackU32le m p = unpackU32le m' p := by
  simp only [unpackU32le]
  by_cases hf : fits p 4 = true
  · simp only [hf, if_true]
    simp only [fits, decide_eq_true_eq] at hf
    rw [h (p.base + p.cur) (by omega) (by omega), h (p.base + p.cur + 1) (by omega) (by omega),
      h (p.base + p.cur + 2) (by omega) (by omega), h (p.base + p.cur + 3) (by omega) (by omega)]
  · simp [hf]

/-! ### the same, for a packer written as a literal triple -/

theorem agree_bytes {b sz : Nat} {m m' : Mem} (h : Agree b sz m m') (c n : Nat) :
    unpackBytes m ⟨b, sz, c⟩ n = unpackBytes m' ⟨b, sz, c⟩ n := unpackBytes_agree m m' ⟨b, sz, c⟩ n h
theorem agree_u16 {b sz : Nat} {m m' : Mem} (h : Agree b sz m m') (c : Nat) :
    unpackU16le m ⟨b, sz, c⟩ = unpackU16le m' ⟨b, sz, c⟩ := unpackU16le_agree m m' ⟨b, sz, c⟩ h
theorem agree_u32 {b sz : Nat} {m m' : Mem} (h : Agree b sz m m') (c : Nat) :
    unpackU32le m ⟨b, sz, c⟩ = unpackU32le m' ⟨b, sz, c⟩ := unpackU32le_agree m m' ⟨b, sz, c⟩ h

theorem sz_bytes (m : Mem) (b sz k c n : Nat) (h1 : c + n ≤ sz) (h2 : c + n ≤ k) :
    unpackBytes m ⟨b, k, c⟩ n = ((unpackBytes m ⟨b, sz, c⟩ n).1, ⟨b, k, c + n⟩) := by
  simp [unpackBytes, fits, advance, h1, h2]
theorem sz_u16 (m : Mem) (b sz k c : Nat) (h1 : c + 2 ≤ sz) (h2 : c + 2 ≤ k) :
    unpackU16le m ⟨b, k, c⟩ = ((unpackU16le m ⟨b, sz, c⟩).1, ⟨b, k, c + 2⟩) := by
  simp [unpackU16le, fits, advance, h1, h2]
theorem sz_u32 (m : Mem) (b sz k c : Nat) (h1 : c + 4 ≤ sz) (h2 : c + 4 ≤ k) :
    unpackU32le m ⟨b, k, c⟩ = ((unpackU32le m ⟨b, sz, c⟩).1, ⟨b, k, c + 4⟩) := by
  simp [unpackU32le, fits, advance, h1, h2]

/-! ### the three stages of the decoder -/

theorem decHead_pk (m : Mem) (b sz : Nat) : (decHead m b sz).2 = ⟨b, sz, 36⟩ := rfl

/-- number of bytes the extension stage asks for -/
def extLen (m : Mem) (s : Wh × Pk) : Nat :=
  if 18#32 ≤ s.1.fmtChunkSize then
    (if (unpackU16le m s.2).1 = 22#16 then 24 else 2 + (s.1.fmtChunkSize - 18#32).toNat)
  else 0

theorem decExt_pk (m : Mem) (s : Wh × Pk) : (decExt m s).2 = advance s.2 (extLen m s) := by
  unfold decExt extLen
  by_cases h : 18#32 ≤ s.1.fmtChunkSize
  · by_cases h2 : (unpackU16le m s.2).1 = 22#16
    · simp [h, h2, advance, Nat.add_assoc]
    · simp [h, h2, advance, Nat.add_assoc]
  · simp [h, advance]

theorem decExt_fmt (m : Mem) (s : Wh × Pk) : (decExt m s).1.fmtChunkSize = s.1.fmtChunkSize := by
  unfold decExt
  by_cases h : 18#32 ≤ s.1.fmtChunkSize
  · by_cases h2 : (unpackU16le m s.2).1 = 22#16 <;> simp [h, h2]
  · simp [h]

/-- number of bytes the last stage asks for -/
def tailLen (m : Mem) (s : Wh × Pk) : Nat := if (unpackBytes m s.2 4).1 = fact then 20 else 8

theorem decTail_pk (m : Mem) (s : Wh × Pk) : (decTail m s).2 = advance s.2 (tailLen m s) := by
  unfold decTail tailLen
  by_cases h : (unpackBytes m s.2 4).1 = fact <;> simp [h, advance, Nat.add_assoc]

theorem decHead_agree {b sz : Nat} {m m' : Mem} (h : Agree b sz m m') : decHead m b sz = decHead m' b sz := by
  simp only [decHead, Librfn.Model.Pack.init, unpackBytes_pk, unpackU16le_pk, unpackU32le_pk, advance]
  simp only [agree_bytes h, agree_u16 h, agree_u32 h]

theorem decExt_agree {b sz : Nat} {m m' : Mem} (h : Agree b sz m m') (wh : Wh) (c : Nat) :
    decExt m (wh, ⟨b, sz, c⟩) = decExt m' (wh, ⟨b, sz, c⟩) := by
  simp only [decExt, unpackBytes_pk, unpackU16le_pk, unpackU32le_pk, advance]
  simp only [agree_bytes h, agree_u16 h, agree_u32 h]

theorem decTail_agree {b sz : Nat} {m m' : Mem} (h : Agree b sz m m') (wh : Wh) (c : Nat) :
    decTail m (wh, ⟨b, sz, c⟩) = decTail m' (wh, ⟨b, sz, c⟩) := by
  simp only [decTail, unpackBytes_pk, unpackU16le_pk, unpackU32le_pk, advance]
  simp only [agree_bytes h, agree_u16 h, agree_u32 h]

/-- a stage result with its packer written as a triple -/
theorem pair_eta (s : Wh × Pk) : s = (s.1, ⟨s.2.base, s.2.size, s.2.cur⟩) := rfl

/-- the decoder reads only `[b, b+sz)` -/
theorem decode_agree {b sz : Nat} {m m' : Mem} (h : Agree b sz m m') : decode m b sz = decode m' b sz := by
  have e1 := decHead_agree h
  have e2 : decExt m (decHead m b sz) = decExt m' (decHead m' b sz) := by
    rw [e1, pair_eta (decHead m' b sz)]; exact decExt_agree h _ _
  have e3 : decTail m (decExt m (decHead m b sz)) = decTail m' (decExt m' (decHead m' b sz)) := by
    rw [e2, pair_eta (decExt m' (decHead m' b sz))]
    have hb : (decExt m' (decHead m' b sz)).2.base = b := by rw [decExt_pk]; rfl
    have hs : (decExt m' (decHead m' b sz)).2.size = sz := by rw [decExt_pk]; rfl
    rw [hb, hs]; exact decTail_agree h _ _
  simp only [decode]
  rw [e3, e1]

/-! ### independence from the declared size -/

theorem szv_bytes (m : Mem) (b sz k c n : Nat) (h1 : c + n ≤ sz) (h2 : c + n ≤ k) :
    (unpackBytes m ⟨b, k, c⟩ n).1 = (unpackBytes m ⟨b, sz, c⟩ n).1 := by rw [sz_bytes m b sz k c n h1 h2]
theorem szv_u16 (m : Mem) (b sz k c : Nat) (h1 : c + 2 ≤ sz) (h2 : c + 2 ≤ k) :
    (unpackU16le m ⟨b, k, c⟩).1 = (unpackU16le m ⟨b, sz, c⟩).1 := by rw [sz_u16 m b sz k c h1 h2]
theorem szv_u32 (m : Mem) (b sz k c : Nat) (h1 : c + 4 ≤ sz) (h2 : c + 4 ≤ k) :
    (unpackU32le m ⟨b, k, c⟩).1 = (unpackU32le m ⟨b, sz, c⟩).1 := by rw [sz_u32 m b sz k c h1 h2]

theorem decHead_sz (m : Mem) (b sz k : Nat) (h1 : 36 ≤ sz) (h2 : 36 ≤ k) :
    decHead m b k = ((decHead m b sz).1, ⟨b, k, 36⟩) := by
  simp only [decHead, Librfn.Model.Pack.init, unpackBytes_pk, unpackU16le_pk, unpackU32le_pk, advance, Nat.reduceAdd,
    Nat.zero_add]
  simp only [szv_bytes m b sz k 0 4 (by omega) (by omega), szv_u32 m b sz k 4 (by omega) (by omega),
    szv_bytes m b sz k 8 4 (by omega) (by omega), szv_bytes m b sz k 12 4 (by omega) (by omega),
    szv_u32 m b sz k 16 (by omega) (by omega), szv_u16 m b sz k 20 (by omega) (by omega),
    szv_u16 m b sz k 22 (by omega) (by omega), szv_u32 m b sz k 24 (by omega) (by omega),
    szv_u32 m b sz k 28 (by omega) (by omega), szv_u16 m b sz k 32 (by omega) (by omega),
    szv_u16 m b sz k 34 (by omega) (by omega)]

theorem decExt_sz (m : Mem) (wh : Wh) (b sz k c : Nat)
    (h1 : c + extLen m (wh, ⟨b, sz, c⟩) ≤ sz) (h2 : c + extLen m (wh, ⟨b, sz, c⟩) ≤ k) :
    decExt m (wh, ⟨b, k, c⟩) = ((decExt m (wh, ⟨b, sz, c⟩)).1, ⟨b, k, c + extLen m (wh, ⟨b, sz, c⟩)⟩) := by
  by_cases hf : 18#32 ≤ wh.fmtChunkSize
  · by_cases hcb : (unpackU16le m ⟨b, sz, c⟩).1 = 22#16
    · have hl : extLen m (wh, ⟨b, sz, c⟩) = 24 := by simp [extLen, hf, hcb]
      rw [hl] at h1 h2 ⊢
      have e0 := szv_u16 m b sz k c (by omega) (by omega)
      have e1 := szv_u16 m b sz k (c + 2) (by omega) (by omega)
      have e2 := szv_u32 m b sz k (c + 2 + 2) (by omega) (by omega)
      have e3 := szv_bytes m b sz k (c + 2 + 2 + 4) 16 (by omega) (by omega)
      simp only [decExt, hf, if_true, unpackBytes_pk, unpackU16le_pk, unpackU32le_pk, advance, e0, e1, e2, e3, hcb]
    · have hl : extLen m (wh, ⟨b, sz, c⟩) = 2 + (wh.fmtChunkSize - 18#32).toNat := by simp [extLen, hf, hcb]
      rw [hl] at h1 h2 ⊢
      have e0 := szv_u16 m b sz k c (by omega) (by omega)
      simp only [decExt, hf, if_true, unpackU16le_pk, unpackSkip_pk, advance, e0, hcb, if_false]
      simp [Nat.add_assoc]
  · simp [decExt, extLen, hf]

theorem decTail_sz (m : Mem) (wh : Wh) (b sz k c : Nat)
    (h1 : c + tailLen m (wh, ⟨b, sz, c⟩) ≤ sz) (h2 : c + tailLen m (wh, ⟨b, sz, c⟩) ≤ k) :
    decTail m (wh, ⟨b, k, c⟩) = ((decTail m (wh, ⟨b, sz, c⟩)).1, ⟨b, k, c + tailLen m (wh, ⟨b, sz, c⟩)⟩) := by
  by_cases hf : (unpackBytes m ⟨b, sz, c⟩ 4).1 = fact
  · have hl : tailLen m (wh, ⟨b, sz, c⟩) = 20 := by simp [tailLen, hf]
    rw [hl] at h1 h2 ⊢
    have e0 := szv_bytes m b sz k c 4 (by omega) (by omega)
    have e1 := szv_u32 m b sz k (c + 4) (by omega) (by omega)
    have e2 := szv_u32 m b sz k (c + 4 + 4) (by omega) (by omega)
    have e3 := szv_bytes m b sz k (c + 4 + 4 + 4) 4 (by omega) (by omega)
    have e4 := szv_u32 m b sz k (c + 4 + 4 + 4 + 4) (by omega) (by omega)
    simp only [decTail, unpackBytes_pk, unpackU32le_pk, advance, e0, e1, e2, e3, e4, hf, if_true]
  · have hl : tailLen m (wh, ⟨b, sz, c⟩) = 8 := by simp [tailLen, hf]
    rw [hl] at h1 h2 ⊢
    have e0 := szv_bytes m b sz k c 4 (by omega) (by omega)
    have e1 := szv_u32 m b sz k (c + 4) (by omega) (by omega)
    simp only [decTail, unpackBytes_pk, unpackU32le_pk, advance, e0, e1, hf, if_false]

/-- the cursor at the end of an (uncut) parse -/
def endCur (m : Mem) (b sz : Nat) : Nat := (decPk m b sz).cur

theorem endCur_eq (m : Mem) (b sz : Nat) :
    endCur m b sz = 36 + extLen m (decHead m b sz) + tailLen m (decExt m (decHead m b sz)) := by
  simp only [endCur, decPk, decTail_pk, decExt_pk, decHead_pk, advance]

theorem decPk_eq (m : Mem) (b sz : Nat) : decPk m b sz = ⟨b, sz, endCur m b sz⟩ := by
  simp only [endCur, decPk, decTail_pk, decExt_pk, decHead_pk, advance]

theorem endCur_ge (m : Mem) (b sz : Nat) : 44 ≤ endCur m b sz := by
  rw [endCur_eq]; unfold tailLen; split <;> omega

/-- **size independence**: if the parse under declared size `sz` ends at `E ≤ sz`, then under every declared size
    `k ≥ E` the three stages produce the same structure and end at the same cursor. -/
theorem stages_sz (m : Mem) (b sz k : Nat) (h1 : endCur m b sz ≤ sz) (h2 : endCur m b sz ≤ k) :
    decHead m b k = ((decHead m b sz).1, ⟨b, k, 36⟩) ∧
    decTail m (decExt m (decHead m b k)) = ((decTail m (decExt m (decHead m b sz))).1, ⟨b, k, endCur m b sz⟩) := by
  have hE := endCur_eq m b sz
  have hh := decHead_sz m b sz k (by omega) (by omega)
  refine ⟨hh, ?_⟩
  have hd : decHead m b sz = ((decHead m b sz).1, ⟨b, sz, 36⟩) := rfl
  rw [hd] at hE
  have he := decExt_sz m (decHead m b sz).1 b sz k 36 (by omega) (by omega)
  have hx : decExt m ((decHead m b sz).1, ⟨b, sz, 36⟩) =
      ((decExt m ((decHead m b sz).1, ⟨b, sz, 36⟩)).1, ⟨b, sz, 36 + extLen m ((decHead m b sz).1, ⟨b, sz, 36⟩)⟩) := by
    have := decExt_pk m ((decHead m b sz).1, ⟨b, sz, 36⟩)
    rw [Prod.ext_iff]; exact ⟨rfl, this⟩
  rw [hx] at hE
  have ht := decTail_sz m (decExt m ((decHead m b sz).1, ⟨b, sz, 36⟩)).1 b sz k
    (36 + extLen m ((decHead m b sz).1, ⟨b, sz, 36⟩)) (by omega) (by omega)
  rw [hh, he, ht, hE]
  rw [hd, hx]

end Librfn.Lemmas.Wav

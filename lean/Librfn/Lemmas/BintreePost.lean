import Librfn.Lemmas.Bintree
/-! The tagged post-order walk of `post_order_iterator` (DESIGN §6 C11): with exactly the first `j` nodes of
the post-order sequence visited, the walk from the root finds node `j` and its true parent — for every
shape and every `j`, by structural induction. -/
namespace Librfn.Lemmas.Bintree
open Librfn.Model.Bintree Librfn.Spec Librfn.Spec.Tree

/-- `h` holds the links of `t`, and exactly the first `j` nodes of `postorder t` are visited (tag clear);
    all other nodes of `t` still carry the "not yet visited" tag -/
def ReprV (h : Heap) : Tree → Nat → Prop
  | .nil, _ => True
  | .node l x r, j =>
      h x = some ⟨root l, decide (j < size l + 1 + size r), root r⟩ ∧
      ReprV h l (min j (size l)) ∧ ReprV h r (min (j - size l) (size r))

theorem length_postorder : ∀ t : Tree, (postorder t).length = size t
  | .nil => rfl
  | .node l x r => by simp [postorder, size, length_postorder l, length_postorder r]; omega

theorem length_postorderP : ∀ (prev : Ptr) (t : Tree), (postorderP prev t).length = size t
  | _, .nil => rfl
  | prev, .node l x r => by
    simp [postorderP, size, length_postorderP (some x) l, length_postorderP (some x) r]; omega

theorem map_fst_postorderP : ∀ (prev : Ptr) (t : Tree), (postorderP prev t).map Prod.fst = postorder t
  | _, .nil => rfl
  | prev, .node l x r => by
    simp [postorderP, postorder, map_fst_postorderP (some x) l, map_fst_postorderP (some x) r]

theorem reprV_congr {h h' : Heap} : ∀ (t : Tree) (j : Nat),
    (∀ i, i ∈ inorder t → h' i = h i) → ReprV h t j → ReprV h' t j
  | .nil, _, _, _ => trivial
  | .node l x r, j, hag, ⟨h1, h2, h3⟩ => by
    refine ⟨by rw [hag x mem_root]; exact h1, ?_, ?_⟩
    · exact reprV_congr l _ (fun i hi => hag i (mem_left hi)) h2
    · exact reprV_congr r _ (fun i hi => hag i (mem_right hi)) h3

/-- after the tagging pass nothing is visited -/
theorem reprV_of_reprK {τ : Nat → Bool} {h : Heap} : ∀ (t : Tree),
    (∀ i, i ∈ inorder t → τ i = true) → ReprK τ h t none → ReprV h t 0
  | .nil, _, _ => trivial
  | .node l x r, hτ, ⟨h1, h2, h3⟩ => by
    refine ⟨?_, ?_, ?_⟩
    · rw [h1, hτ x mem_root]
      have : decide (0 < size l + 1 + size r) = true := decide_eq_true (by omega)
      rw [this]; cases r <;> rfl
    · rw [Nat.zero_min]; exact reprV_of_reprK l (fun i hi => hτ i (mem_left hi)) h2
    · rw [Nat.zero_sub, Nat.zero_min]; exact reprV_of_reprK r (fun i hi => hτ i (mem_right hi)) h3

/-- once every node has been visited the heap holds the plain, untagged tree -/
theorem reprK_of_reprV {h : Heap} : ∀ (t : Tree) (j : Nat), size t ≤ j → ReprV h t j →
    ReprK (fun _ => false) h t none
  | .nil, _, _, _ => trivial
  | .node l x r, j, hj, ⟨h1, h2, h3⟩ => by
    simp only [size] at hj
    refine ⟨?_, ?_, ?_⟩
    · rw [h1]
      have : decide (j < size l + 1 + size r) = false := decide_eq_false (by omega)
      rw [this]; cases r <;> rfl
    · exact reprK_of_reprV l _ (by omega) h2
    · exact reprK_of_reprV r _ (by omega) h3

/-- the tag of a sub-tree's root says whether the sub-tree still has unvisited nodes -/
theorem unvisited_root {h : Heap} : ∀ (t : Tree) (j : Nat), ReprV h t j →
    unvisited h (root t) = .ok (decide (j < size t))
  | .nil, _, _ => by simp [unvisited, root, size]
  | .node l x r, j, ⟨h1, _, _⟩ => by
    simp only [unvisited, root, h1, size]
    congr

theorem getElem?_append_left' {α : Type} (a b : List α) (j : Nat) (hj : j < a.length) : (a ++ b)[j]? = a[j]? :=
  List.getElem?_append_left hj

/-- **the post-order walk.**  With exactly the first `j < size t` nodes visited, the loop started at the
    root of `t` with `prev` returns the `j`-th node of the post-order sequence together with its true
    parent (`prev` for the root itself), and clears that node's tag — nothing else changes. -/
theorem postOrderLoop_spec : ∀ (t : Tree) (j : Nat) (h : Heap) (prev : Ptr) (fuel : Nat),
    size t ≤ fuel → j < size t → ReprV h t j →
    ∃ y p, (postorderP prev t)[j]? = some (y, p) ∧
      postOrderLoop fuel h (root t) prev = .ok (some (y, p), setTag h y false)
  | .nil, j, _, _, _, _, hj, _ => by simp [size] at hj
  | .node l x r, j, h, prev, fuel, hf, hj, ⟨h1, h2, h3⟩ => by
    simp only [size] at hf hj
    obtain ⟨f, rfl⟩ : ∃ f, fuel = f + 1 := ⟨fuel - 1, by omega⟩
    have htag : decide (j < size l + 1 + size r) = true := decide_eq_true (by omega)
    have hul := unvisited_root l _ h2
    have hur := unvisited_root r _ h3
    have hpo : postorderP prev (.node l x r) = postorderP (some x) l ++ (postorderP (some x) r ++ [(x, prev)]) := by
      simp [postorderP, List.append_assoc]
    rw [root, postOrderLoop]
    simp only [h1, htag, hul, hur]
    by_cases hjl : j < size l
    · -- the next node is in the left sub-tree
      have hmin : min j (size l) = j := by omega
      rw [hmin] at h2
      obtain ⟨y, p, hy, hloop⟩ := postOrderLoop_spec l j h (some x) f (by omega) hjl h2
      refine ⟨y, p, ?_, ?_⟩
      · rw [hpo, List.getElem?_append_left (by rw [length_postorderP]; exact hjl)]; exact hy
      · have : decide (min j (size l) < size l) = true := decide_eq_true (by omega)
        simp only [this]
        exact hloop
    · have hnl : decide (min j (size l) < size l) = false := decide_eq_false (by omega)
      simp only [hnl]
      by_cases hjr : j - size l < size r
      · -- the next node is in the right sub-tree
        have hmin : min (j - size l) (size r) = j - size l := by omega
        rw [hmin] at h3
        obtain ⟨y, p, hy, hloop⟩ := postOrderLoop_spec r (j - size l) h (some x) f (by omega) hjr h3
        refine ⟨y, p, ?_, ?_⟩
        · rw [hpo, List.getElem?_append_right (by rw [length_postorderP]; omega), length_postorderP,
            List.getElem?_append_left (by rw [length_postorderP]; exact hjr)]
          exact hy
        · have : decide (min (j - size l) (size r) < size r) = true := decide_eq_true (by omega)
          simp only [this]
          exact hloop
      · -- everything below is visited: x itself is returned
        have hnr : decide (min (j - size l) (size r) < size r) = false := decide_eq_false (by omega)
        simp only [hnr]
        refine ⟨x, prev, ?_, rfl⟩
        rw [hpo, List.getElem?_append_right (by rw [length_postorderP]; omega), length_postorderP,
          List.getElem?_append_right (by rw [length_postorderP]; omega), length_postorderP]
        have : j - size l - size r = 0 := by omega
        rw [this]; rfl

/-- the `j`-th post-order node lies in the tree -/
theorem postorder_getElem_mem {t : Tree} {j y : Nat} (hy : (postorder t)[j]? = some y) : y ∈ inorder t :=
  (mem_postorder t y).mp (List.mem_of_getElem? hy)

/-- clearing the tag of the `j`-th post-order node advances the visited prefix by one -/
theorem reprV_untag : ∀ (t : Tree) (j : Nat) (h : Heap) (y : Nat), Distinct t → j < size t →
    (postorder t)[j]? = some y → ReprV h t j → ReprV (setTag h y false) t (j + 1)
  | .nil, j, _, _, _, hj, _, _ => by simp [size] at hj
  | .node l x r, j, h, y, nd, hj, hy, ⟨h1, h2, h3⟩ => by
    have d := distinct_node nd
    simp only [size] at hj
    have hpo : postorder (.node l x r) = postorder l ++ (postorder r ++ [x]) := by
      simp [postorder, List.append_assoc]
    rw [hpo] at hy
    by_cases hjl : j < size l
    · -- y is in the left sub-tree
      rw [List.getElem?_append_left (by rw [length_postorder]; exact hjl)] at hy
      have hyl : y ∈ inorder l := postorder_getElem_mem hy
      have hyx : x ≠ y := fun e => d.x_not_left (e ▸ hyl)
      have hmin : min j (size l) = j := by omega
      rw [hmin] at h2
      have ih := reprV_untag l j h y d.left hjl hy h2
      refine ⟨?_, ?_, ?_⟩
      · simp only [setTag, upd, hyx, if_false]
        rw [h1]
        have e1 : decide (j < size l + 1 + size r) = true := decide_eq_true (by omega)
        have e2 : decide (j + 1 < size l + 1 + size r) = true := decide_eq_true (by omega)
        rw [e1, e2]
      · have : min (j + 1) (size l) = j + 1 := by omega
        rw [this]; exact ih
      · have e1 : min (j + 1 - size l) (size r) = 0 := by omega
        have e2 : min (j - size l) (size r) = 0 := by omega
        rw [e1]; rw [e2] at h3
        apply reprV_congr r 0 _ h3
        intro i hi
        have : i ≠ y := fun e => d.disjoint y hyl (e ▸ hi)
        simp [setTag, upd, this]
    · rw [List.getElem?_append_right (by rw [length_postorder]; omega), length_postorder] at hy
      have hminl : min j (size l) = size l := by omega
      have hminl' : min (j + 1) (size l) = size l := by omega
      rw [hminl] at h2
      by_cases hjr : j - size l < size r
      · -- y is in the right sub-tree
        rw [List.getElem?_append_left (by rw [length_postorder]; exact hjr)] at hy
        have hyr : y ∈ inorder r := postorder_getElem_mem hy
        have hyx : x ≠ y := fun e => d.x_not_right (e ▸ hyr)
        have hmin : min (j - size l) (size r) = j - size l := by omega
        rw [hmin] at h3
        have ih := reprV_untag r (j - size l) h y d.right hjr hy h3
        refine ⟨?_, ?_, ?_⟩
        · simp only [setTag, upd, hyx, if_false]
          rw [h1]
          have e1 : decide (j < size l + 1 + size r) = true := decide_eq_true (by omega)
          have e2 : decide (j + 1 < size l + 1 + size r) = true := decide_eq_true (by omega)
          rw [e1, e2]
        · rw [hminl']
          apply reprV_congr l _ _ h2
          intro i hi
          have : i ≠ y := fun e => d.disjoint i hi (e ▸ hyr)
          simp [setTag, upd, this]
        · have : min (j + 1 - size l) (size r) = j - size l + 1 := by omega
          rw [this]; exact ih
      · -- y is x
        rw [List.getElem?_append_right (by rw [length_postorder]; omega), length_postorder] at hy
        have hj0 : j - size l - size r = 0 := by omega
        rw [hj0] at hy
        simp only [List.getElem?_cons_zero, Option.some.injEq] at hy
        subst hy
        have hmin : min (j - size l) (size r) = size r := by omega
        have hmin' : min (j + 1 - size l) (size r) = size r := by omega
        rw [hmin] at h3
        refine ⟨?_, ?_, ?_⟩
        · simp only [setTag, upd, if_true]
          rw [h1]
          have e2 : decide (j + 1 < size l + 1 + size r) = false := decide_eq_false (by omega)
          rw [e2]; rfl
        · rw [hminl']
          apply reprV_congr l _ _ h2
          intro i hi
          have : i ≠ x := fun e => d.x_not_left (e ▸ hi)
          simp [setTag, upd, this]
        · rw [hmin']
          apply reprV_congr r _ _ h3
          intro i hi
          have : i ≠ x := fun e => d.x_not_right (e ▸ hi)
          simp [setTag, upd, this]

/-- the root comes last, and only last, in the post-order sequence -/
theorem postorder_root_iff (l : Tree) (x : Nat) (r : Tree) (nd : Distinct (.node l x r)) (j y : Nat)
    (hy : (postorder (.node l x r))[j]? = some y) : y = x ↔ j + 1 = size (.node l x r) := by
  have d := distinct_node nd
  have hpo : postorder (.node l x r) = (postorder l ++ postorder r) ++ [x] := rfl
  have hlen : (postorder l ++ postorder r).length = size l + size r := by
    simp [length_postorder]
  simp only [size]
  rw [hpo] at hy
  by_cases hj : j < size l + size r
  · rw [List.getElem?_append_left (by rw [hlen]; exact hj)] at hy
    have hm : y ∈ postorder l ++ postorder r := List.mem_of_getElem? hy
    have : y ≠ x := by
      intro e; subst e
      rcases List.mem_append.mp hm with hm | hm
      · exact d.x_not_left ((mem_postorder l y).mp hm)
      · exact d.x_not_right ((mem_postorder r y).mp hm)
    constructor
    · intro e; exact absurd e this
    · intro e; omega
  · rw [List.getElem?_append_right (by rw [hlen]; omega), hlen] at hy
    have hlt : j - (size l + size r) < 1 := by
      have := (List.getElem?_eq_some_iff.mp hy).1
      simpa using this
    have h0 : j - (size l + size r) = 0 := by omega
    rw [h0] at hy
    simp only [List.getElem?_cons_zero, Option.some.injEq] at hy
    constructor
    · intro _; omega
    · intro _; exact hy.symm

theorem drop_of_getElem? {α : Type} (l : List α) (j : Nat) (a : α) (h : l[j]? = some a) :
    l.drop j = a :: l.drop (j + 1) := by
  obtain ⟨hj, rfl⟩ := List.getElem?_eq_some_iff.mp h
  exact List.drop_eq_getElem_cons hj

/-- **the caller's loop around `post_order_iterator`.**  From a heap with the first `j` post-order nodes
    visited, calling the iterator until it returns NULL hands out the remaining nodes in post-order, each
    with its true parent, ends with every tag cleared, and touches nothing outside the tree. -/
theorem post_drain (isList : Nat → Bool) (g : Nat) (t : Tree) (nd : Distinct t) (hg : size t + 1 ≤ g) :
    ∀ (d j : Nat) (h : Heap) (it : Iter) (calls : Nat), j + d = size t → d < calls →
    it.next = .postOrder → it.curr = (if j < size t then root t else none) → ReprV h t j →
    ∃ hf it', (match postOrderIterator g h it with
        | .error e => (.error e : Except Err (List (Nat × Ptr) × Heap × Iter))
        | .ok (r, h1, it1) => drain isList g calls h1 it1 r) = .ok ((postorderP none t).drop j, hf, it') ∧
      ReprV hf t (size t) ∧ (∀ i, i ∉ inorder t → hf i = h i)
  | 0, j, h, it, calls, hj, hc, hn, hcurr, hrep => by
    have hjs : j = size t := by omega
    subst hjs
    obtain ⟨g', rfl⟩ : ∃ g', g = g' + 1 := ⟨g - 1, by omega⟩
    obtain ⟨c', rfl⟩ : ∃ c', calls = c' + 1 := ⟨calls - 1, by omega⟩
    simp only [Nat.lt_irrefl, if_false] at hcurr
    refine ⟨h, it, ?_, hrep, fun _ _ => rfl⟩
    have hdrop : (postorderP none t).drop (size t) = [] := by
      apply List.drop_eq_nil_of_le; rw [length_postorderP]; exact Nat.le_refl _
    simp [postOrderIterator, hcurr, postOrderLoop, drain, hdrop]
  | d + 1, j, h, it, calls, hj, hc, hn, hcurr, hrep => by
    have hjs : j < size t := by omega
    obtain ⟨c', rfl⟩ : ∃ c', calls = c' + 1 := ⟨calls - 1, by omega⟩
    obtain ⟨itn, itc, itp⟩ := it
    simp only at hn hcurr; subst hn
    simp only [hjs, if_true] at hcurr; subst hcurr
    obtain ⟨y, p, hyp, hloop⟩ := postOrderLoop_spec t j h none g (by omega) hjs hrep
    have hy : (postorder t)[j]? = some y := by
      rw [← map_fst_postorderP none t, List.getElem?_map, hyp]; rfl
    have hrep' := reprV_untag t j h y nd hjs hy hrep
    -- is the node the root, i.e. the last one?
    have hroot : (if root t = some y then none else root t) = (if j + 1 < size t then root t else none) := by
      cases t with
      | nil => simp [size] at hjs
      | node l x r =>
        have := postorder_root_iff l x r nd j y hy
        simp only [root, Option.some.injEq]
        by_cases e : x = y
        · subst e
          have := this.mp rfl
          simp; omega
        · have h2 : ¬ (j + 1 = size (.node l x r)) := fun c => e (this.mpr c).symm
          have : j + 1 < size (.node l x r) := by omega
          simp [e, this]
    obtain ⟨hf, it', hd, hfin, hframe⟩ := post_drain isList g t nd hg d (j + 1) (setTag h y false)
      ⟨.postOrder, if root t = some y then none else root t, p⟩ c' (by omega) (by omega) rfl hroot hrep'
    refine ⟨hf, it', ?_, hfin, ?_⟩
    · simp only [postOrderIterator, hloop]
      simp only [drain, next]
      cases hnext : postOrderIterator g (setTag h y false) ⟨.postOrder, if root t = some y then none else root t, p⟩ with
      | error e => rw [hnext] at hd; simp at hd
      | ok res =>
        obtain ⟨r2, h2, it2⟩ := res
        rw [hnext] at hd
        simp only at hd ⊢
        rw [hd, drop_of_getElem? _ j _ hyp]
    · intro i hi
      rw [hframe i hi]
      have : i ≠ y := fun e => hi (e ▸ postorder_getElem_mem hy)
      simp [setTag, upd, this]

end Librfn.Lemmas.Bintree

import Librfn.Lemmas.PTInv3
namespace Librfn.Model.PT
open Stmt Librfn.Spec.PT

theorem Post.rebase {s p0 p0' r} (h : Post s p0 r) (hp : p0 ∈ labels s) : Post s p0' r := by
  have key : ∀ q, (q = p0 ∨ q ∈ labels s) → (q = p0' ∨ q ∈ labels s) := by
    intro q hq; rcases hq with hq | hq
    · exact Or.inr (hq ▸ hp)
    · exact Or.inr hq
  cases r with
  | abort => exact h
  | normal => exact key _ h
  | ret => exact ⟨key _ h.1, h.2⟩

theorem inv_exitOn {fuel c} : InvAt fuel (exitOn c) := by
  intro _ e res n st r hE _ h
  rw [exec_exitOn] at h
  have := inv_ifte (c := c) inv_exit inv_skip (by simp [WF, labels]) e res n st r
    (fun l hl => absurd (hE l hl).1 (by simp [labels])) (fun l hl => absurd (hE l hl).1 (by simp [labels])) h
  exact this.lift ⟨fun l hl => by simp [labels] at hl, fun l c h => by simp [MayBlock] at h,
    fun c h => by simpa [MayReturn] using h, fun _ _ _ => trivial⟩
theorem inv_failOn {fuel c} : InvAt fuel (failOn c) := by
  intro _ e res n st r hE _ h
  rw [exec_failOn] at h
  have := inv_ifte (c := c) inv_fail inv_skip (by simp [WF, labels]) e res n st r
    (fun l hl => absurd (hE l hl).1 (by simp [labels])) (fun l hl => absurd (hE l hl).1 (by simp [labels])) h
  exact this.lift ⟨fun l hl => by simp [labels] at hl, fun l c h => by simp [MayBlock] at h,
    fun c h => by simpa [MayReturn] using h, fun _ _ _ => trivial⟩

theorem inv_while {fuel c b} (hb : InvAt fuel b)
    (ih : ∀ f, f < fuel → InvAt f b ∧ InvAt f (.while c b)) : InvAt fuel (.while c b) := by
  intro hwf
  have wb : WF b := hwf
  have Lw : Lifts b (.while c b) := ⟨fun l hl => hl, fun l c h => by rw [MayBlock]; exact h,
    fun c h => by rw [MayReturn]; exact h, fun p _ h => by rw [Live]; exact h⟩
  have hnone : ∀ res n st r, exec fuel (.while c b) none res n st = some r → Post (.while c b) st.me.pt r := by
    intro res n st r h
    cases fuel with
    | zero => rw [exec_while_zero] at h; cases h
    | succ f =>
      obtain ⟨ihb, ihw⟩ := ih f (Nat.lt_succ_self f)
      rw [exec_while_succ] at h
      by_cases hc : (evalCond c st).1 = true
      · rw [if_pos hc] at h
        rw [← evalCond_me c st]
        exact post_andThen Lw (fun ra hra => ihb wb none res n _ ra Entry.none (fun l hl => by cases hl) hra)
          (fun st1 r1 n1 t r' _ hr' => ihw hwf none r1 n1 st1 r' Entry.none (fun l hl => by cases hl) hr') h
      · rw [if_neg hc] at h
        simp only [Option.some.injEq] at h; subst h; exact Or.inl (by rw [evalCond_me])
  intro e res n st r hE hLive h
  cases e with
  | none => exact hnone _ _ _ _ h
  | some l =>
    rw [exec_while_some] at h
    exact post_andThen Lw (fun ra hra => hb wb (some l) res n st ra (fun l' h' => by cases h'; exact hE l rfl)
        (fun l' h' => by have := hLive l rfl; rw [Live] at this; exact this) hra)
      (fun st1 r1 n1 t r' _ hr' => hnone _ _ _ _ hr') h

end Librfn.Model.PT

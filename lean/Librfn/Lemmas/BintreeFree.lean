import Librfn.Lemmas.BintreePost
/-! `bintree_free`: the post-order walk on a shrinking tree.  After each deallocation the parent's link is
patched, so the heap holds the tree without its first post-order node, all remaining nodes still tagged. -/
namespace Librfn.Lemmas.Bintree
open Librfn.Model.Bintree Librfn.Spec Librfn.Spec.Tree

/-- `t` without its first post-order node (a leaf) -/
def dropFirst : Tree → Tree
  | .nil => .nil
  | .node .nil _ .nil => .nil
  | .node .nil x (.node a y b) => .node .nil x (dropFirst (.node a y b))
  | .node (.node a y b) x r => .node (dropFirst (.node a y b)) x r

/-- every node of `t` carries the "not yet visited" tag (the state of the walk inside `bintree_free`) -/
def AllTagged (h : Heap) (t : Tree) : Prop := ReprK (fun _ => true) h t none

/-- the heap after all nodes of `xs` have been deallocated -/
def killAll (h : Heap) (xs : List Nat) : Heap := fun i => if i ∈ xs then none else h i

theorem size_pos_of_ne_nil : ∀ t : Tree, t ≠ .nil → 1 ≤ size t
  | .nil, h => absurd rfl h
  | .node l x r, _ => by simp only [size]; omega

theorem eq_nil_of_size_zero : ∀ t : Tree, size t = 0 → t = .nil
  | .nil, _ => rfl
  | .node l x r, h => by simp only [size] at h; omega

theorem dropFirst_node_left (l : Tree) (x : Nat) (r : Tree) (hl : l ≠ .nil) :
    dropFirst (.node l x r) = .node (dropFirst l) x r := by
  cases l with
  | nil => exact absurd rfl hl
  | node a y b => rfl

theorem dropFirst_node_right (x : Nat) (r : Tree) (hr : r ≠ .nil) :
    dropFirst (.node .nil x r) = .node .nil x (dropFirst r) := by
  cases r with
  | nil => exact absurd rfl hr
  | node a y b => rfl

theorem root_dropFirst : ∀ t : Tree, 2 ≤ size t → root (dropFirst t) = root t
  | .nil, h => by simp [size] at h
  | .node .nil x .nil, h => by simp [size] at h
  | .node .nil x (.node a y b), _ => rfl
  | .node (.node a y b) x r, _ => rfl

theorem size_dropFirst : ∀ t : Tree, size (dropFirst t) = size t - 1
  | .nil => rfl
  | .node .nil x .nil => rfl
  | .node .nil x (.node a y b) => by
    have := size_dropFirst (.node a y b)
    simp only [dropFirst, size] at this ⊢; omega
  | .node (.node a y b) x r => by
    have := size_dropFirst (.node a y b)
    simp only [dropFirst, size] at this ⊢; omega

theorem postorder_dropFirst : ∀ t : Tree, postorder (dropFirst t) = (postorder t).tail
  | .nil => rfl
  | .node .nil x .nil => rfl
  | .node .nil x (.node a y b) => by
    have ih := postorder_dropFirst (.node a y b)
    have hne : postorder (.node a y b) ≠ [] := by
      intro e; have := congrArg List.length e; rw [length_postorder] at this; simp [size] at this
    simp only [dropFirst, postorder, List.nil_append] at ih ⊢
    rw [ih]
    cases hp : (postorder a ++ postorder b ++ [y]) with
    | nil => simp at hp
    | cons c cs => simp
  | .node (.node a y b) x r => by
    have ih := postorder_dropFirst (.node a y b)
    simp only [dropFirst, postorder] at ih ⊢
    rw [ih]
    cases hp : (postorder a ++ postorder b ++ [y]) with
    | nil => simp at hp
    | cons c cs => simp

theorem mem_dropFirst : ∀ (t : Tree) (i : Nat), i ∈ inorder (dropFirst t) → i ∈ inorder t
  | .nil, _, h => h
  | .node .nil x .nil, _, h => by simp [dropFirst, inorder] at h
  | .node .nil x (.node a y b), i, h => by
    simp only [dropFirst] at h
    simp only [inorder, List.nil_append, List.mem_cons] at h
    rcases h with rfl | h
    · exact mem_root
    · exact mem_right (mem_dropFirst (.node a y b) i h)
  | .node (.node a y b) x r, i, h => by
    simp only [dropFirst] at h
    simp only [inorder, List.mem_append, List.mem_cons] at h
    rcases h with h | rfl | h
    · exact mem_left (mem_dropFirst (.node a y b) i (by simpa [inorder] using h))
    · exact mem_root
    · exact mem_right h

theorem distinct_of_parts {l : Tree} {x : Nat} {r : Tree} (hl : Distinct l) (hr : Distinct r)
    (hxl : x ∉ inorder l) (hxr : x ∉ inorder r) (hd : ∀ i, i ∈ inorder l → i ∉ inorder r) :
    Distinct (.node l x r) := by
  unfold Distinct at *
  simp only [inorder]
  apply List.nodup_append.mpr
  refine ⟨hl, List.nodup_cons.mpr ⟨hxr, hr⟩, ?_⟩
  intro a ha b hb e
  subst e
  rcases List.mem_cons.mp hb with rfl | hb
  · exact hxl ha
  · exact hd a ha hb

theorem distinct_dropFirst : ∀ t : Tree, Distinct t → Distinct (dropFirst t)
  | .nil, h => h
  | .node .nil x .nil, _ => by simp [dropFirst, Distinct, inorder]
  | .node .nil x (.node a y b), nd => by
    have d := distinct_node nd
    simp only [dropFirst]
    exact distinct_of_parts d.left (distinct_dropFirst _ d.right) d.x_not_left
      (fun hm => d.x_not_right (mem_dropFirst _ _ hm)) (fun i hi => by simp [inorder] at hi)
  | .node (.node a y b) x r, nd => by
    have d := distinct_node nd
    simp only [dropFirst]
    exact distinct_of_parts (distinct_dropFirst _ d.left) d.right
      (fun hm => d.x_not_left (mem_dropFirst _ _ hm)) d.x_not_right
      (fun i hi => d.disjoint i (mem_dropFirst _ _ hi))

/-- the first post-order entry of a single node is that node, with the parent handed in -/
theorem first_of_single (t : Tree) (prev : Ptr) (y : Nat) (p : Ptr) (hs : size t = 1)
    (hy : (postorderP prev t)[0]? = some (y, p)) : root t = some y ∧ p = prev ∧ dropFirst t = .nil := by
  cases t with
  | nil => simp [size] at hs
  | node l x r =>
    simp only [size] at hs
    have hl := eq_nil_of_size_zero l (by omega)
    have hr := eq_nil_of_size_zero r (by omega)
    subst hl; subst hr
    simp only [postorderP, List.nil_append, List.getElem?_cons_zero, Option.some.injEq, Prod.mk.injEq] at hy
    exact ⟨by rw [root, hy.1], hy.2.symm, rfl⟩

theorem first_mem (t : Tree) (prev : Ptr) (y : Nat) (p : Ptr) (hy : (postorderP prev t)[0]? = some (y, p)) :
    y ∈ inorder t := by
  apply postorder_getElem_mem (j := 0)
  rw [← map_fst_postorderP prev t, List.getElem?_map, hy]; rfl

theorem allTagged_node {h : Heap} {l : Tree} {x : Nat} {r : Tree} :
    AllTagged h (.node l x r) ↔ h x = some ⟨root l, true, root r⟩ ∧ AllTagged h l ∧ AllTagged h r := by
  unfold AllTagged
  simp only [ReprK, rootK_none']
where rootK_none' : rootK r none = root r := by cases r <;> rfl

theorem rootK_none (t : Tree) : rootK t none = root t := by cases t <;> rfl

theorem allTagged_congr {h h' : Heap} (t : Tree) (hag : ∀ i, i ∈ inorder t → h' i = h i) (ht : AllTagged h t) :
    AllTagged h' t :=
  reprK_congr t none (fun i hi => ⟨hag i hi, rfl⟩) ht

theorem reprV_of_allTagged {h : Heap} (t : Tree) (ht : AllTagged h t) : ReprV h t 0 :=
  reprV_of_reprK t (fun _ _ => rfl) ht

/-- **the step of `bintree_free`**: with every node of `t` tagged and `y` its first post-order node (a
    leaf) with parent `p`, deallocating `y` and patching `p`'s link leaves a heap that holds `t` without
    `y`, every remaining node still tagged; nothing outside `t` changes.  The parent is live (it comes
    later in post-order), and its link to `y` is gone **before** the parent is reached. -/
theorem free_step : ∀ (t : Tree) (prev : Ptr) (h0 : Heap) (y : Nat) (p : Ptr),
    AllTagged h0 t → Distinct t → 2 ≤ size t → (postorderP prev t)[0]? = some (y, p) →
    ∃ h2, patchParent (kill h0 y) p y = .ok h2 ∧ AllTagged h2 (dropFirst t) ∧
      (∀ i, i ∉ inorder t → h2 i = h0 i) ∧ h2 y = none
  | .nil, _, _, _, _, _, _, hs, _ => by simp [size] at hs
  | .node l x r, prev, h0, y, p, ht, nd, hs, hy => by
    have d := distinct_node nd
    obtain ⟨hx, htl, htr⟩ := allTagged_node.mp ht
    have hpo : postorderP prev (.node l x r) = postorderP (some x) l ++ (postorderP (some x) r ++ [(x, prev)]) := by
      simp [postorderP, List.append_assoc]
    rw [hpo] at hy
    by_cases hl : l = .nil
    · -- no left sub-tree: the first node is in the right sub-tree
      subst hl
      simp only [postorderP, List.nil_append] at hy
      have hr : r ≠ .nil := by
        intro e; subst e; simp [size] at hs
      have hrs := size_pos_of_ne_nil r hr
      rw [List.getElem?_append_left (by rw [length_postorderP]; exact hrs)] at hy
      have hyr : y ∈ inorder r := first_mem r _ y p hy
      have hxy : x ≠ y := fun e => d.x_not_right (e ▸ hyr)
      rw [dropFirst_node_right x r hr]
      by_cases hr1 : size r = 1
      · -- the right child is the leaf y: `parent->right == n`, so `parent->right = NULL`
        obtain ⟨hroot, hp, hdrop⟩ := first_of_single r (some x) y p hr1 hy
        subst hp
        have hkx : kill h0 y x = some ⟨none, true, some y⟩ := by
          simp only [kill, hxy, if_false]; rw [hx, hroot]; rfl
        refine ⟨setRight (kill h0 y) x none, by simp [patchParent, hkx], ?_, ?_, ?_⟩
        · rw [hdrop]
          apply allTagged_node.mpr
          refine ⟨by simp [setRight, upd, hkx, root], trivial, trivial⟩
        · intro i hi
          have h1 : i ≠ x := fun e => hi (e ▸ mem_root)
          have h2 : i ≠ y := fun e => hi (e ▸ mem_right hyr)
          simp [setRight, upd, kill, h1, h2]
        · simp [setRight, upd, kill, Ne.symm hxy]
      · obtain ⟨h2, hpatch, htag, hframe, hdead⟩ := free_step r (some x) h0 y p htr d.right (by omega) hy
        refine ⟨h2, hpatch, ?_, ?_, hdead⟩
        · apply allTagged_node.mpr
          refine ⟨?_, trivial, htag⟩
          rw [hframe x d.x_not_right, hx, root_dropFirst r (by omega)]
        · intro i hi
          exact hframe i (fun hm => hi (mem_right hm))
    · -- the first node is in the left sub-tree
      have hls := size_pos_of_ne_nil l hl
      rw [List.getElem?_append_left (by rw [length_postorderP]; exact hls)] at hy
      have hyl : y ∈ inorder l := first_mem l _ y p hy
      have hxy : x ≠ y := fun e => d.x_not_left (e ▸ hyl)
      rw [dropFirst_node_left l x r hl]
      by_cases hl1 : size l = 1
      · -- the left child is the leaf y: `parent->right != n`, so `parent->left = 1` (NULL, still unvisited)
        obtain ⟨hroot, hp, hdrop⟩ := first_of_single l (some x) y p hl1 hy
        subst hp
        have hkx : kill h0 y x = some ⟨some y, true, root r⟩ := by
          simp only [kill, hxy, if_false]; rw [hx, hroot]
        have hry : root r ≠ some y := by
          intro e
          cases r with
          | nil => simp [root] at e
          | node a z b =>
            simp only [root, Option.some.injEq] at e
            exact d.disjoint y hyl (e ▸ mem_root)
        refine ⟨setLeftRaw (kill h0 y) x none true, by simp [patchParent, hkx, hry], ?_, ?_, ?_⟩
        · rw [hdrop]
          apply allTagged_node.mpr
          refine ⟨by simp [setLeftRaw, upd, hkx, root], trivial, ?_⟩
          apply allTagged_congr r _ htr
          intro i hi
          have h1 : i ≠ x := fun e => d.x_not_right (e ▸ hi)
          have h2 : i ≠ y := fun e => d.disjoint y hyl (e ▸ hi)
          simp [setLeftRaw, upd, kill, h1, h2]
        · intro i hi
          have h1 : i ≠ x := fun e => hi (e ▸ mem_root)
          have h2 : i ≠ y := fun e => hi (e ▸ mem_left hyl)
          simp [setLeftRaw, upd, kill, h1, h2]
        · simp [setLeftRaw, upd, kill, Ne.symm hxy]
      · obtain ⟨h2, hpatch, htag, hframe, hdead⟩ := free_step l (some x) h0 y p htl d.left (by omega) hy
        refine ⟨h2, hpatch, ?_, ?_, hdead⟩
        · apply allTagged_node.mpr
          refine ⟨?_, htag, ?_⟩
          · rw [hframe x d.x_not_left, hx, root_dropFirst l (by omega)]
          · apply allTagged_congr r _ htr
            intro i hi
            exact hframe i (fun hm => d.disjoint i hm hi)
        · intro i hi
          exact hframe i (fun hm => hi (mem_left hm))

theorem postorder_eq_cons (t : Tree) (prev : Ptr) (y : Nat) (p : Ptr)
    (hy : (postorderP prev t)[0]? = some (y, p)) : postorder t = y :: postorder (dropFirst t) := by
  have h0 : (postorder t)[0]? = some y := by
    rw [← map_fst_postorderP prev t, List.getElem?_map, hy]; rfl
  rw [postorder_dropFirst]
  cases hp : postorder t with
  | nil => rw [hp] at h0; simp at h0
  | cons c cs => rw [hp] at h0; simp at h0; simp [h0]

theorem single_lists (t : Tree) (y : Nat) (hs : size t = 1) (hr : root t = some y) :
    inorder t = [y] ∧ postorder t = [y] := by
  cases t with
  | nil => simp [size] at hs
  | node l x r =>
    simp only [size] at hs
    have hl := eq_nil_of_size_zero l (by omega)
    have hr' := eq_nil_of_size_zero r (by omega)
    subst hl; subst hr'
    simp only [root, Option.some.injEq] at hr; subst hr
    exact ⟨rfl, rfl⟩

theorem kill_setTag (h : Heap) (y : Nat) (b : Bool) : kill (setTag h y b) y = kill h y := by
  funext i; by_cases e : i = y <;> simp [kill, setTag, upd, e]

/-- **the loop of `bintree_free`**, entered with the first post-order node `y` of the (fully tagged) tree
    `t` just returned by the iterator: it passes exactly `postorder t` to the deallocator, never touches a
    deallocated node (the result is not an error), and leaves every node of `t` dead and the rest of the
    heap untouched. -/
theorem freeLoop_spec (isList : Nat → Bool) (g : Nat) : ∀ (n : Nat) (t : Tree) (h0 : Heap) (y : Nat) (p : Ptr)
    (it : Iter) (f : Nat) (log : List Nat),
    size t = n + 1 → AllTagged h0 t → Distinct t → size t + 1 ≤ g → size t + 1 ≤ f →
    (postorderP none t)[0]? = some (y, p) →
    it.next = .postOrder → it.parent = p → it.curr = (if size t = 1 then none else root t) →
    freeLoop isList g f (setTag h0 y false) it (some y) log = .ok (killAll h0 (inorder t), log ++ postorder t)
  | n, t, h0, y, p, it, f, log, hn, ht, nd, hg, hf, hy, hnext, hpar, hcurr => by
    obtain ⟨f', rfl⟩ : ∃ f', f = f' + 1 := ⟨f - 1, by omega⟩
    obtain ⟨itn, itc, itp⟩ := it
    simp only at hnext hpar hcurr; subst hnext; subst hpar
    have hyt : y ∈ inorder t := first_mem t none y itp hy
    obtain ⟨ny, hny, _⟩ := reprK_alive t none ht y hyt
    have halive : setTag h0 y false y = some { ny with tag := false } := by simp [setTag, upd, hny]
    rw [freeLoop]
    simp only [halive, kill_setTag]
    by_cases h1 : size t = 1
    · -- the last node: the root, whose parent is NULL; the iterator is already finished
      obtain ⟨hroot, hp, _⟩ := first_of_single t none y itp h1 hy
      obtain ⟨hin, hpost⟩ := single_lists t y h1 hroot
      subst hp
      simp only [h1, if_true] at hcurr; subst hcurr
      obtain ⟨g', rfl⟩ : ∃ g', g = g' + 1 := ⟨g - 1, by omega⟩
      obtain ⟨f'', rfl⟩ : ∃ f'', f' = f'' + 1 := ⟨f' - 1, by omega⟩
      have hk : killAll h0 (inorder t) = kill h0 y := by
        funext i; simp [killAll, kill, hin]
      simp [patchParent, next, postOrderIterator, postOrderLoop, freeLoop, hk, hpost]
    · have h2s : 2 ≤ size t := by omega
      simp only [h1, if_false] at hcurr; subst hcurr
      obtain ⟨h2, hpatch, htag, hframe, hdead⟩ := free_step t none h0 y itp ht nd h2s hy
      rw [hpatch]
      simp only [next, postOrderIterator]
      have hsz' : size (dropFirst t) = n := by rw [size_dropFirst]; omega
      have hnpos : 0 < size (dropFirst t) := by omega
      obtain ⟨y', p', hy', hloop⟩ := postOrderLoop_spec (dropFirst t) 0 h2 none g (by omega) hnpos
        (reprV_of_allTagged _ htag)
      rw [← root_dropFirst t h2s, hloop]
      simp only
      obtain ⟨n', rfl⟩ : ∃ n', n = n' + 1 := ⟨n - 1, by omega⟩
      have nd' := distinct_dropFirst t nd
      have hy0' : (postorder (dropFirst t))[0]? = some y' := by
        rw [← map_fst_postorderP none (dropFirst t), List.getElem?_map, hy']; rfl
      have hcurr' : (if root (dropFirst t) = some y' then none else root (dropFirst t)) =
          (if size (dropFirst t) = 1 then none else root (dropFirst t)) := by
        cases hdt : dropFirst t with
        | nil => rw [hdt] at hnpos; simp [size] at hnpos
        | node l x r =>
          rw [hdt] at nd' hy0'
          have := postorder_root_iff l x r nd' 0 y' hy0'
          simp only [root, Option.some.injEq]
          by_cases e : x = y'
          · subst e
            have h3 := this.mp rfl
            simp only [Nat.zero_add] at h3
            simp [← h3]
          · have h3 : ¬ (size (.node l x r) = 1) := fun c => e (this.mpr (by omega)).symm
            simp [e, h3]
      have ih := freeLoop_spec isList g n' (dropFirst t) h2 y' p'
        ⟨.postOrder, if root (dropFirst t) = some y' then none else root (dropFirst t), p'⟩ f' (log ++ [y])
        hsz' htag nd' (by omega) (by omega) hy' rfl rfl hcurr'
      rw [ih, postorder_eq_cons t none y itp hy]
      have hk : killAll h2 (inorder (dropFirst t)) = killAll h0 (inorder t) := by
        funext i
        have hmem : i ∈ inorder t ↔ i = y ∨ i ∈ inorder (dropFirst t) := by
          rw [← mem_postorder t, postorder_eq_cons t none y itp hy, List.mem_cons, mem_postorder]
        by_cases hi : i ∈ inorder (dropFirst t)
        · simp [killAll, hi, hmem.mpr (Or.inr hi)]
        · by_cases hiy : i = y
          · subst hiy; simp [killAll, hi, hyt, hdead]
          · have : i ∉ inorder t := fun hm => by
              rcases hmem.mp hm with h | h
              · exact hiy h
              · exact hi h
            simp [killAll, hi, this, hframe i this]
      simp [hk]

/-- after the tagging pass every node is tagged -/
theorem allTagged_tagAll {h : Heap} (t : Tree) (hr : ReprK (fun _ => false) h t none) :
    AllTagged (tagAll true h (inorder t)) t := by
  apply reprK_congr t none _ (reprK_tagAll true (inorder t) t none hr)
  intro i hi
  exact ⟨rfl, by simp [hi]⟩

theorem killAll_tagAll (h : Heap) (xs : List Nat) : killAll (tagAll true h xs) xs = killAll h xs := by
  funext i
  by_cases hi : i ∈ xs <;> simp [killAll, tagAll, hi]

/-- `bintree_free` on an intact tree -/
theorem free_spec (isList : Nat → Bool) (g : Nat) (t : Tree) (h : Heap) (it0 : Iter)
    (hr : ReprK (fun _ => false) h t none) (nd : Distinct t) (hg : 2 * size t + 2 ≤ g)
    (htag : ∃ it2, (match iterateInOrder g h it0 (root t) with
        | .error e => (.error e : Except Err (Heap × Iter))
        | .ok (r, h1, it1) => tagLoop isList g g h1 it1 r) = .ok (tagAll true h (inorder t), it2)) :
    free isList g h it0 (root t) = .ok (killAll h (inorder t), postorder t) := by
  obtain ⟨it2, htl⟩ := htag
  simp only [free, iteratePostOrder]
  cases hio : iterateInOrder g h it0 (root t) with
  | error e => rw [hio] at htl; simp at htl
  | ok res =>
    obtain ⟨r, h1, it1⟩ := res
    rw [hio] at htl
    simp only at htl ⊢
    rw [htl]
    simp only
    have hall := allTagged_tagAll t hr
    cases ht : t with
    | nil =>
      obtain ⟨g', rfl⟩ : ∃ g', g = g' + 1 := ⟨g - 1, by omega⟩
      have hk : killAll h [] = h := by funext i; simp [killAll]
      simp [root, postOrderIterator, postOrderLoop, freeLoop, inorder, postorder, tagAll_nil, hk]
    | node l x r =>
      rw [← ht]
      have hpos : 0 < size t := by rw [ht]; simp only [size]; omega
      obtain ⟨y, p', hy, hloop⟩ := postOrderLoop_spec t 0 _ none g (by omega) hpos (reprV_of_allTagged _ hall)
      simp only [postOrderIterator, hloop]
      have hy0 : (postorder t)[0]? = some y := by
        rw [← map_fst_postorderP none t, List.getElem?_map, hy]; rfl
      have hcurr : (if root t = some y then none else root t) = (if size t = 1 then none else root t) := by
        subst ht
        have := postorder_root_iff l x r nd 0 y hy0
        simp only [root, Option.some.injEq]
        by_cases e : x = y
        · subst e
          have h3 := this.mp rfl
          simp only [Nat.zero_add] at h3
          simp [← h3]
        · have h3 : ¬ (size (.node l x r) = 1) := fun c => e (this.mpr (by omega)).symm
          simp [e, h3]
      have := freeLoop_spec isList g (size t - 1) t _ y p'
        ⟨.postOrder, if root t = some y then none else root t, p'⟩ g [] (by omega) hall nd (by omega) (by omega)
        hy rfl rfl hcurr
      simp only [List.nil_append, killAll_tagAll] at this
      exact this

end Librfn.Lemmas.Bintree

import Librfn.Props.C12
import Librfn.Lemmas.Wav
/-! The encoder of the WAV model as a run of packers (so that C12's `back_to_back` describes the bytes it
writes), and byte-order lemmas in the form the decoder proofs need. -/
namespace Librfn.Lemmas.WavCodec
open Librfn.Model.Pack Librfn.Model.Wav Librfn.Lemmas.Pack Librfn.Lemmas.Wav
open Librfn.C12 (POp total back_to_back run_pk)

/-! ### byte order, both directions -/

theorem dec32_enc (v : BitVec 32) :
    dec32 (b8 (v &&& 0xff#32)) (b8 (v >>> 8 &&& 0xff#32)) (b8 (v >>> 16 &&& 0xff#32)) (b8 (v >>> 24 &&& 0xff#32)) = v := by
  obtain ⟨a, b, c, d, e, h⟩ := Librfn.C12.dec32_encU32le v
  simp only [encU32le, List.cons.injEq, and_true] at e
  obtain ⟨rfl, rfl, rfl, rfl⟩ := e
  exact h

theorem dec16_enc (v : BitVec 16) :
    dec16 (b8 (v.setWidth 32 &&& 0xff#32)) (b8 ((v.setWidth 32).sshiftRight 8 &&& 0xff#32)) = v := by
  obtain ⟨a, b, e, h⟩ := Librfn.C12.dec16_encU16le v
  simp only [encU16le, List.cons.injEq, and_true] at e
  obtain ⟨rfl, rfl⟩ := e
  exact h

/-- bytes → value → bytes: re-encoding a decoded 32-bit field reproduces the four bytes -/
theorem enc_dec32 (a b c d : UInt8) : encU32le (dec32 a b c d) = [a, b, c, d] := by
  simp only [encU32le, dec32, b8, List.cons.injEq, and_true]
  refine ⟨?_, ?_, ?_, ?_⟩ <;> apply UInt8.toBitVec_inj.mp <;> simp only [UInt8.toBitVec_ofBitVec] <;>
    generalize a.toBitVec = x <;> generalize b.toBitVec = y <;> generalize c.toBitVec = z <;> generalize d.toBitVec = w <;>
    bv_decide (config := { timeout := 300 })

theorem enc_dec16 (a b : UInt8) : encU16le (dec16 a b) = [a, b] := by
  simp only [encU16le, dec16, b8, List.cons.injEq, and_true]
  refine ⟨?_, ?_⟩ <;> apply UInt8.toBitVec_inj.mp <;> simp only [UInt8.toBitVec_ofBitVec] <;>
    generalize a.toBitVec = x <;> generalize b.toBitVec = y <;> bv_decide (config := { timeout := 300 })

/-! ### the encoder is a run of packers -/

def headOps (wh : Wh) : List POp :=
  [.bytes wh.chunkId, .u32le wh.chunkSize, .bytes wh.format, .bytes wh.fmtChunkId, .u32le wh.fmtChunkSize,
   .u16le wh.audioFormat, .u16le wh.numChannels, .u32le wh.sampleRate, .u32le wh.byteRate, .u16le wh.blockAlign,
   .u16le wh.bitsPerSample]

def extOps (wh : Wh) : List POp :=
  if 18#32 ≤ wh.fmtChunkSize then
    (if wh.cbSize = 22#16 then [.u16le wh.cbSize, .u16le wh.validBitsPerSample, .u32le wh.channelMask, .bytes wh.subFormat]
     else [.u16le wh.cbSize, .null (wh.fmtChunkSize - 18#32).toNat])
  else []

def tailOps (wh : Wh) : List POp :=
  (if wh.factChunkId = fact then [.bytes wh.factChunkId, .u32le wh.factChunkSize, .u32le wh.sampleLength] else []) ++
  [.bytes wh.dataChunkId, .u32le wh.dataChunkSize]

/-- the packers `rf_wavheader_encode` performs, in order -/
def encOps (wh : Wh) : List POp := headOps wh ++ extOps wh ++ tailOps wh

/-- the bytes a complete encoding consists of -/
def encBytes (wh : Wh) : List UInt8 := (encOps wh).flatMap POp.stored

/-- memory and packer after a run -/
def runMP (m : Mem) (p : Pk) (ps : List POp) : Mem × Pk := ((run m p (ps.map POp.toOp)).1, (run m p (ps.map POp.toOp)).2.1)

theorem runMP_nil (m : Mem) (p : Pk) : runMP m p [] = (m, p) := rfl

theorem runMP_cons (m : Mem) (p : Pk) (q : POp) (ps : List POp) :
    runMP m p (q :: ps) = runMP (step m p q.toOp).1 (step m p q.toOp).2.1 ps := rfl

theorem runMP_append (m : Mem) (p : Pk) (xs ys : List POp) :
    runMP m p (xs ++ ys) = runMP (runMP m p xs).1 (runMP m p xs).2 ys := by
  induction xs generalizing m p with
  | nil => rfl
  | cons q xs ih => simp only [List.cons_append, runMP_cons, ih]

theorem encHead_run (wh : Wh) (m : Mem) (p : Pk) : encHead wh m p = runMP m p (headOps wh) := rfl

theorem encExt_run (wh : Wh) (s : Mem × Pk) : encExt wh s = runMP s.1 s.2 (extOps wh) := by
  unfold encExt extOps
  by_cases h : 18#32 ≤ wh.fmtChunkSize
  · by_cases h2 : wh.cbSize = 22#16
    · simp only [h, h2, if_true]; rfl
    · simp only [h, h2, if_true, if_false]; rfl
  · simp only [h, if_false]; rfl

theorem encTail_run (wh : Wh) (s : Mem × Pk) : encTail wh s = runMP s.1 s.2 (tailOps wh) := by
  unfold encTail tailOps
  by_cases h : wh.factChunkId = fact
  · simp only [h, if_true]; rfl
  · simp only [h, if_false]; rfl

theorem encode_run (wh : Wh) (m : Mem) (b sz : Nat) :
    encode wh m b sz = ((runMP m (Librfn.Model.Pack.init b sz) (encOps wh)).1,
      wrap32 ((sz : Int) - remaining (runMP m (Librfn.Model.Pack.init b sz) (encOps wh)).2)) := by
  unfold encode encOps
  simp only [encHead_run, encExt_run, encTail_run, runMP_append]

theorem total_encOps (wh : Wh) : total ((encOps wh).map POp.toOp) = (encBytes wh).length :=
  Librfn.C12.total_toOp (encOps wh)

/-- **what encode does**, for every structure: if the encoding fits the buffer (and an `int`), the buffer then
    starts with exactly `encBytes wh`, bytes outside the buffer are untouched, and the returned length is the
    number of those bytes -/
theorem encode_spec (wh : Wh) (m : Mem) (b sz : Nat) (hfit : (encBytes wh).length ≤ sz) (hsz : sz < 2147483648) :
    readBytes (encode wh m b sz).1 b (encBytes wh).length = encBytes wh ∧
    (encode wh m b sz).2 = (encBytes wh).length ∧
    (∀ i, i < b ∨ b + sz ≤ i → (encode wh m b sz).1 i = m i) := by
  rw [encode_run]
  simp only [runMP]
  have ht := total_encOps wh
  refine ⟨?_, ?_, ?_⟩
  · have := back_to_back m (Librfn.Model.Pack.init b sz) (encOps wh) (by rw [ht]; simp only [Librfn.Model.Pack.init]; omega)
    rw [ht] at this
    simpa [Librfn.Model.Pack.init, encBytes] using this
  · rw [run_pk, ht]
    have := ret_eq_cur (advance (Librfn.Model.Pack.init b sz) (encBytes wh).length)
      (by simp only [advance, Librfn.Model.Pack.init]; omega)
    simpa [advance, Librfn.Model.Pack.init] using this
  · intro i hi
    exact Librfn.C12.writes_confined m (Librfn.Model.Pack.init b sz) _ i (by simpa [Librfn.Model.Pack.init] using hi)

/-! ### what the decoder's stages hold when their reads fit: re-encoding gives back the bytes -/

theorem fit_bytes (m : Mem) (b sz c n : Nat) (h : c + n ≤ sz) :
    unpackBytes m ⟨b, sz, c⟩ n = (readBytes m (b + c) n, ⟨b, sz, c + n⟩) := by
  simp [unpackBytes, fits, advance, h]
theorem fit_u16 (m : Mem) (b sz c : Nat) (h : c + 2 ≤ sz) :
    unpackU16le m ⟨b, sz, c⟩ = (dec16 (m (b + c)) (m (b + c + 1)), ⟨b, sz, c + 2⟩) := by
  simp [unpackU16le, fits, advance, h]
theorem fit_u32 (m : Mem) (b sz c : Nat) (h : c + 4 ≤ sz) :
    unpackU32le m ⟨b, sz, c⟩ = (dec32 (m (b + c)) (m (b + c + 1)) (m (b + c + 2)) (m (b + c + 3)), ⟨b, sz, c + 4⟩) := by
  simp [unpackU32le, fits, advance, h]

def bytesOf (ps : List POp) : List UInt8 := ps.flatMap POp.stored

theorem encBytes_split (wh : Wh) : encBytes wh = bytesOf (headOps wh) ++ bytesOf (extOps wh) ++ bytesOf (tailOps wh) := by
  simp [encBytes, encOps, bytesOf]

/-- the 36 fixed bytes: re-encoding the eleven fields the first stage read reproduces them -/
theorem head_bytes (m : Mem) (b sz : Nat) (h : 36 ≤ sz) : bytesOf (headOps (decHead m b sz).1) = readBytes m b 36 := by
  simp only [decHead, Librfn.Model.Pack.init, unpackBytes_pk, unpackU16le_pk, unpackU32le_pk, advance, Nat.reduceAdd,
    Nat.zero_add]
  simp only [fit_bytes m b sz 0 4 (by omega), fit_u32 m b sz 4 (by omega), fit_bytes m b sz 8 4 (by omega),
    fit_bytes m b sz 12 4 (by omega), fit_u32 m b sz 16 (by omega), fit_u16 m b sz 20 (by omega),
    fit_u16 m b sz 22 (by omega), fit_u32 m b sz 24 (by omega), fit_u32 m b sz 28 (by omega),
    fit_u16 m b sz 32 (by omega), fit_u16 m b sz 34 (by omega)]
  simp [bytesOf, headOps, POp.stored, enc_dec32, enc_dec16, readBytes, Nat.add_assoc]

theorem decExt_headOps (m : Mem) (s : Wh × Pk) : headOps (decExt m s).1 = headOps s.1 := by
  unfold decExt
  by_cases h : 18#32 ≤ s.1.fmtChunkSize
  · by_cases h2 : (unpackU16le m s.2).1 = 22#16 <;> simp [h, h2, headOps]
  · simp [h]

theorem decTail_headOps (m : Mem) (s : Wh × Pk) : headOps (decTail m s).1 = headOps s.1 := by
  unfold decTail
  by_cases h : (unpackBytes m s.2 4).1 = fact <;> simp [h, headOps]

theorem decTail_extOps (m : Mem) (s : Wh × Pk) : extOps (decTail m s).1 = extOps s.1 := by
  unfold decTail
  by_cases h : (unpackBytes m s.2 4).1 = fact <;> simp [h, extOps]

/-- the extension bytes as the encoder re-creates them: the same bytes, except that an extension the decoder skipped
    is written as zeros -/
def extNorm (m : Mem) (b c : Nat) (fmt : BitVec 32) : List UInt8 :=
  if 18#32 ≤ fmt then
    (if dec16 (m (b + c)) (m (b + c + 1)) = 22#16 then readBytes m (b + c) 24
     else readBytes m (b + c) 2 ++ List.replicate (fmt - 18#32).toNat 0)
  else []

theorem ext_bytes (m : Mem) (wh : Wh) (b sz c : Nat) (h : c + extLen m (wh, ⟨b, sz, c⟩) ≤ sz) :
    bytesOf (extOps (decExt m (wh, ⟨b, sz, c⟩)).1) = extNorm m b c wh.fmtChunkSize ∧
    (extNorm m b c wh.fmtChunkSize).length = extLen m (wh, ⟨b, sz, c⟩) := by
  by_cases hf : 18#32 ≤ wh.fmtChunkSize
  · by_cases hcb : (unpackU16le m ⟨b, sz, c⟩).1 = 22#16
    · have hl : extLen m (wh, ⟨b, sz, c⟩) = 24 := by simp [extLen, hf, hcb]
      rw [hl] at h ⊢
      have f0 := fit_u16 m b sz c (by omega)
      rw [f0] at hcb
      simp only at hcb
      simp only [decExt, hf, if_true, unpackBytes_pk, unpackU16le_pk, unpackU32le_pk, advance, f0, hcb,
        fit_u16 m b sz (c + 2) (by omega), fit_u32 m b sz (c + 2 + 2) (by omega), fit_bytes m b sz (c + 2 + 2 + 4) 16 (by omega)]
      have hE : encU16le (dec16 (m (b + c)) (m (b + c + 1))) = [m (b + c), m (b + c + 1)] := enc_dec16 _ _
      rw [hcb] at hE
      simp only [Nat.add_assoc] at hE hcb
      simp [extNorm, hf, hcb, hE, bytesOf, extOps, POp.stored, enc_dec32, enc_dec16, readBytes, Nat.add_assoc]
    · have hl : extLen m (wh, ⟨b, sz, c⟩) = 2 + (wh.fmtChunkSize - 18#32).toNat := by simp [extLen, hf, hcb]
      rw [hl] at h ⊢
      have f0 := fit_u16 m b sz c (by omega)
      rw [f0] at hcb
      simp only at hcb
      simp only [decExt, hf, if_true, unpackU16le_pk, unpackSkip_pk, advance, f0, hcb, if_false]
      simp only [Nat.add_assoc] at hcb
      simp [extNorm, hf, hcb, bytesOf, extOps, POp.stored, enc_dec16, readBytes, Nat.add_assoc]
      omega
  · simp [decExt, extLen, extNorm, hf, bytesOf, extOps]

theorem tail_bytes (m : Mem) (wh : Wh) (b sz c : Nat) (hz : wh.factChunkId ≠ fact)
    (h : c + tailLen m (wh, ⟨b, sz, c⟩) ≤ sz) :
    bytesOf (tailOps (decTail m (wh, ⟨b, sz, c⟩)).1) = readBytes m (b + c) (tailLen m (wh, ⟨b, sz, c⟩)) := by
  by_cases hf : (unpackBytes m ⟨b, sz, c⟩ 4).1 = fact
  · have hl : tailLen m (wh, ⟨b, sz, c⟩) = 20 := by simp [tailLen, hf]
    rw [hl] at h ⊢
    have f0 := fit_bytes m b sz c 4 (by omega)
    rw [f0] at hf
    simp only at hf
    simp only [decTail, unpackBytes_pk, unpackU32le_pk, advance, f0, hf, if_true,
      fit_u32 m b sz (c + 4) (by omega), fit_u32 m b sz (c + 4 + 4) (by omega), fit_bytes m b sz (c + 4 + 4 + 4) 4 (by omega),
      fit_u32 m b sz (c + 4 + 4 + 4 + 4) (by omega)]
    have e20 : readBytes m (b + c) 20 = readBytes m (b + c) 4 ++ readBytes m (b + c + 4) 16 := readBytes_append m (b + c) 4 16
    rw [e20, hf]
    simp [bytesOf, tailOps, POp.stored, enc_dec32, readBytes, Nat.add_assoc]
  · have hl : tailLen m (wh, ⟨b, sz, c⟩) = 8 := by simp [tailLen, hf]
    rw [hl] at h ⊢
    have f0 := fit_bytes m b sz c 4 (by omega)
    rw [f0] at hf
    simp only at hf
    simp only [decTail, unpackBytes_pk, unpackU32le_pk, advance, f0, hf, if_false, fit_u32 m b sz (c + 4) (by omega)]
    simp [bytesOf, tailOps, POp.stored, enc_dec32, readBytes, Nat.add_assoc, hz]

end Librfn.Lemmas.WavCodec

import Librfn.Props.C12
import Librfn.Lemmas.Wav
/-! The encoder of the WAV model as a run of packers (so that C12's `back_to_back` describes the bytes it
writes), and byte-order lemmas in the form the decoder proofs need. -/
namespace Librfn.Lemmas.WavCodec
open Librfn.Model.Pack Librfn.Model.Wav Librfn.Lemmas.Pack Librfn.Lemmas.Wav
open Librfn.C12 (POp total back_to_back run_pk)

/-! ### byte order, both directions -/

theorem dec32_enc (v : BitVec 32) :
    dec32 (b8 (v &&& 0xff#32)) (b8 (v >>> 8 &&& 0xff#32)) (b8 (v >>> 16 &&& 0xff#32)) (b8 (v >>> 24 &&& 0xff#32)) = v := by
  obtain ⟨a, b, c, d, e, h⟩ := Librfn.C12.dec32_encU32le v
  simp only [encU32le, List.cons.injEq, and_true] at e
  obtain ⟨rfl, rfl, rfl, rfl⟩ := e
  exact h

theorem dec16_enc (v : BitVec 16) :
    dec16 (b8 (v.setWidth 32 &&& 0xff#32)) (b8 ((v.setWidth 32).sshiftRight 8 &&& 0xff#32)) = v := by
  obtain ⟨a, b, e, h⟩ := Librfn.C12.dec16_encU16le v
  simp only [encU16le, List.cons.injEq, and_true] at e
  obtain ⟨rfl, rfl⟩ := e
  exact h

/-- bytes → value → bytes: re-encoding a decoded 32-bit field reproduces the four bytes -/
theorem enc_dec32 (a b c d : UInt8) : encU32le (dec32 a b c d) = [a, b, c, d] := by
  simp only [encU32le, dec32, b8, List.cons.injEq, and_true]
  refine ⟨?_, ?_, ?_, ?_⟩ <;> apply UInt8.toBitVec_inj.mp <;> simp only [UInt8.toBitVec_ofBitVec] <;>
    generalize a.toBitVec = x <;> generalize b.toBitVec = y <;> generalize c.toBitVec = z <;> generalize d.toBitVec = w <;>
    bv_decide

theorem enc_dec16 (a b : UInt8) : encU16le (dec16 a b) = [a, b] := by
  simp only [encU16le, dec16, b8, List.cons.injEq, and_true]
  refine ⟨?_, ?_⟩ <;> apply UInt8.toBitVec_inj.mp <;> simp only [UInt8.toBitVec_ofBitVec] <;>
    generalize a.toBitVec = x <;> generalize b.toBitVec = y <;> bv_decide

/-! ### the encoder is a run of packers -/

def headOps (wh : Wh) : List POp :=
  [.bytes wh.chunkId, .u32le wh.chunkSize, .bytes wh.format, .bytes wh.fmtChunkId, .u32le wh.fmtChunkSize,
   .u16le wh.audioFormat, .u16le wh.numChannels, .u32le wh.sampleRate, .u32le wh.byteRate, .u16le wh.blockAlign,
   .u16le wh.bitsPerSample]

def extOps (wh : Wh) : List POp :=
  if 18#32 ≤ wh.fmtChunkSize then
    (if wh.cbSize = 22#16 then [.u16le wh.cbSize, .u16le wh.validBitsPerSample, .u32le wh.channelMask, .bytes wh.subFormat]
     else [.u16le wh.cbSize, .null (wh.fmtChunkSize - 18#32).toNat])
  else []

def tailOps (wh : Wh) : List POp :=
  (if wh.factChunkId = fact then [.bytes wh.factChunkId, .u32le wh.factChunkSize, .u32le wh.sampleLength] else []) ++
  [.bytes wh.dataChunkId, .u32le wh.dataChunkSize]

/-- the packers `rf_wavheader_encode` performs, in order -/
def encOps (wh : Wh) : List POp := headOps wh ++ extOps wh ++ tailOps wh

/-- the bytes a complete encoding consists of -/
def encBytes (wh : Wh) : List UInt8 := (encOps wh).flatMap POp.stored

/-- memory and packer after a run -/
def runMP (m : Mem) (p : Pk) (ps : List POp) : Mem × Pk := ((run m p (ps.map POp.toOp)).1, (run m p (ps.map POp.toOp)).2.1)

theorem runMP_nil (m : Mem) (p : Pk) : runMP m p [] = (m, p) := rfl

theorem runMP_cons (m : Mem) (p : Pk) (q : POp) (ps : List POp) :
    runMP m p (q :: ps) = runMP (step m p q.toOp).1 (step m p q.toOp).2.1 ps := rfl

theorem runMP_append (m : Mem) (p : Pk) (xs ys : List POp) :
    runMP m p (xs ++ ys) = runMP (runMP m p xs).1 (runMP m p xs).2 ys := by
  induction xs generalizing m p with
  | nil => rfl
  | cons q xs ih => simp only [List.cons_append, runMP_cons, ih]

theorem encHead_run (wh : Wh) (m : Mem) (p : Pk) : encHead wh m p = runMP m p (headOps wh) := rfl

theorem encExt_run (wh : Wh) (s : Mem × Pk) : encExt wh s = runMP s.1 s.2 (extOps wh) := by
  unfold encExt extOps
  by_cases h : 18#32 ≤ wh.fmtChunkSize
  · by_cases h2 : wh.cbSize = 22#16
    · simp only [h, h2, if_true]; rfl
    · simp only [h, h2, if_true, if_false]; rfl
  · simp only [h, if_false]; rfl

theorem encTail_run (wh : Wh) (s : Mem × Pk) : encTail wh s = runMP s.1 s.2 (tailOps wh) := by
  unfold encTail tailOps
  by_cases h : wh.factChunkId = fact
  · simp only [h, if_true]; rfl
  · simp only [h, if_false]; rfl

theorem encode_run (wh : Wh) (m : Mem) (b sz : Nat) :
    encode wh m b sz = ((runMP m (Librfn.Model.Pack.init b sz) (encOps wh)).1,
      wrap32 ((sz : Int) - remaining (runMP m (Librfn.Model.Pack.init b sz) (encOps wh)).2)) := by
  unfold encode encOps
  simp only [encHead_run, encExt_run, encTail_run, runMP_append]

theorem total_encOps (wh : Wh) : total ((encOps wh).map POp.toOp) = (encBytes wh).length :=
  Librfn.C12.total_toOp (encOps wh)

/-- **what encode does**, for every structure: if the encoding fits the buffer (and an `int`), the buffer then
    starts with exactly `encBytes wh`, bytes outside the buffer are untouched, and the returned length is the
    number of those bytes -/
theorem encode_spec (wh : Wh) (m : Mem) (b sz : Nat) (hfit : (encBytes wh).length ≤ sz) (hsz : sz < 2147483648) :
    readBytes (encode wh m b sz).1 b (encBytes wh).length = encBytes wh ∧
    (encode wh m b sz).2 = (encBytes wh).length ∧
    (∀ i, i < b ∨ b + sz ≤ i → (encode wh m b sz).1 i = m i) := by
  rw [encode_run]
  simp only [runMP]
  have ht := total_encOps wh
  refine ⟨?_, ?_, ?_⟩
  · have := back_to_back m (Librfn.Model.Pack.init b sz) (encOps wh) (by rw [ht]; simp only [Librfn.Model.Pack.init]; omega)
    rw [ht] at this
    simpa [Librfn.Model.Pack.init, encBytes] using this
  · rw [run_pk, ht]
    have := ret_eq_cur (advance (Librfn.Model.Pack.init b sz) (encBytes wh).length)
      (by simp only [advance, Librfn.Model.Pack.init]; omega)
    simpa [advance, Librfn.Model.Pack.init] using this
  · intro i hi
    exact Librfn.C12.writes_confined m (Librfn.Model.Pack.init b sz) _ i (by simpa [Librfn.Model.Pack.init] using hi)

end Librfn.Lemmas.WavCodec

import Librfn.Lemmas.IsrOwed
/-! C06 `events_exactly_once_in_order`: the stamps the canonical handler reads are the recorded payloads of tickets
0, 1, 2, … of its event queue (C04's ghost state), in this order, each once. -/
namespace Librfn.Isr.L
open Librfn.Model.MessageqConc Librfn.Model.FibreIsr Librfn.C04
open Librfn.Sched (Fid Ret)
open Librfn.Spec.IsrSpec

/-- number of events the handler has processed: the tickets it has received, minus the one it holds but has not read yet -/
def processed (q : St) : Nat :=
  match q.recv with
  | .hold _ _ => q.received - 1
  | _ => q.received

/-- **events_exactly_once_in_order** as a state invariant: the stamps the handler has read are, in this order, the
    recorded payloads of tickets 0, 1, 2, … of the event queue — each ticket once, in claim order, intact -/
def Inv4 (s : S) : Prop := s.evlog = (List.range (processed s.eq)).map s.eq.written

theorem processed_le (q : St) : processed q ≤ q.received := by
  unfold processed; split <;> omega

theorem inv4_sender {s s' : S} (h1 : Inv1 s) (h4 : Inv4 s) (i : Nat) (sp : Bool) (v : Nat)
    (heq : s'.eq = step s.eq (.sender i sp v)) (hl : s'.evlog = s.evlog) : Inv4 s' := by
  unfold Inv4 at *
  have hp : processed s'.eq = processed s.eq := by
    unfold processed; rw [heq, sender_recv, sender_received]
  rw [hl, hp, h4]
  apply List.map_congr_left
  intro k hk
  rw [List.mem_range] at hk
  rw [heq]
  exact (written_sent_stable s.eq h1.eqInv i sp v k
    (h1.eqInv.recvdSent k (Nat.lt_of_lt_of_le hk (processed_le _)))).symm

theorem inv4_same {s s' : S} (h4 : Inv4 s) (heq : s'.eq = s.eq) (hl : s'.evlog = s.evlog) : Inv4 s' := by
  unfold Inv4 at *; rw [heq, hl]; exact h4

theorem senderAtomic_evlog (i : Nat) (s : S) : (senderAtomic i s).evlog = s.evlog := by
  unfold senderAtomic; split <;> (try split) <;> rfl
theorem senderPlain_evlog (i : Nat) (s : S) : (senderPlain i s).evlog = s.evlog := by
  unfold senderPlain; split <;> (try split) <;> rfl

theorem senderAtomic_eq (i : Nat) (s : S) :
    (senderAtomic i s).eq = s.eq ∨ ∃ v, (senderAtomic i s).eq = step s.eq (.sender i false v) := by
  unfold senderAtomic
  split
  · rename_i st _; split <;> exact Or.inr ⟨st, rfl⟩
  · exact Or.inl rfl
  · rename_i st _; exact Or.inr ⟨st, rfl⟩
  · split <;> exact Or.inl rfl
  · exact Or.inl rfl
  · exact Or.inl rfl
  · exact Or.inl rfl

theorem senderPlain_eq (i : Nat) (s : S) :
    (senderPlain i s).eq = s.eq ∨ ∃ v, (senderPlain i s).eq = step s.eq (.sender i false v) := by
  unfold senderPlain
  split
  · rename_i st _; exact Or.inr ⟨st, rfl⟩
  · exact Or.inl rfl
  · exact Or.inl rfl
  · exact Or.inl rfl
  · exact Or.inl rfl
  · exact Or.inl rfl
  · rename_i f ev _; cases ev <;> exact Or.inl rfl
  · rename_i f ev _; cases ev <;> exact Or.inl rfl
  · exact Or.inl rfl

theorem inv4_mainAtomic {s : S} (h1 : Inv1 s) (h4 : Inv4 s) : Inv4 (mainAtomic s) := by
  have hm := h1.mainEq
  unfold mainAtomic
  split
  · exact inv4_same h4 rfl rfl
  · exact inv4_same h4 rfl rfl
  · exact inv4_same h4 rfl rfl
  · exact inv4_same h4 rfl rfl
  · -- hRecv
    rename_i hpc
    rw [hpc] at hm
    unfold Inv4 at *
    have hw : (step s.eq (.recv false)).written = s.eq.written := recv_written _ _
    have hp : processed (step s.eq (.recv false)) = processed s.eq := by
      have h0 : processed s.eq = s.eq.received := by unfold processed; rw [hm]
      rcases receive_cases s.eq hm with ⟨e1, e2⟩ | ⟨e1, e2⟩
      · rw [h0]; unfold processed; rw [e1, e2]
      · rw [h0]; unfold processed; rw [e1, e2]; simp
    show s.evlog = List.map (step s.eq _).written (List.range (processed (step s.eq _)))
    rw [hw, hp]; exact h4
  · -- hRel
    rename_i hpc
    rw [hpc] at hm
    obtain ⟨sl, k, v, hr⟩ := hm
    unfold Inv4 at *
    have hw : (step s.eq (.recv false)).written = s.eq.written := recv_written _ _
    have hp : processed (step s.eq (.recv false)) = processed s.eq := by
      unfold processed
      rw [recv_from_read s.eq sl k v hr false, hr, recv_received_busy s.eq false (by rw [hr]; simp) (by rw [hr]; simp)]
    show s.evlog = List.map (step s.eq _).written (List.range (processed (step s.eq _)))
    rw [hw, hp]; exact h4
  · exact inv4_same h4 rfl rfl
  · exact h4


theorem evlog_finishPass (s : S) (v : BitVec 32) : (finishPass s v).evlog = s.evlog := rfl
theorem evlog_returned (s : S) (r : Ret) : (returned s r).evlog = s.evlog := by
  unfold returned; split <;> rfl
theorem evlog_bodyStep (s : S) : (bodyStep s).evlog = s.evlog := by
  unfold bodyStep; split
  · rw [evlog_returned]
  · rfl
  · rfl
theorem evlog_bodyOf (s : S) (c : Fid) : (bodyOf s c).evlog = s.evlog := by
  unfold bodyOf
  split
  · rfl
  · split <;> rw [evlog_returned]
  · split <;> rw [evlog_returned] <;> rfl
  · rw [evlog_returned]
  · rw [evlog_bodyStep]
theorem evlog_dispatch (s : S) : (dispatch s).evlog = s.evlog := by
  unfold dispatch; split
  · unfold body; rw [evlog_bodyOf]; rfl
  · rfl
theorem evlog_afterUpdate (s : S) : (afterUpdate s).evlog = s.evlog := by
  unfold afterUpdate; rw [evlog_dispatch]
theorem evlog_afterDrain (s : S) (c : Cont) : (afterDrain s c).evlog = s.evlog := by
  cases c with
  | run f => rfl
  | kill f => rfl
  | pass1 =>
    simp only [afterDrain]
    split
    · exact evlog_afterUpdate s
    · split
      · rfl
      · rfl
      · rw [evlog_afterUpdate]
      · exact evlog_afterUpdate s
  | pass2 c => simp only [afterDrain]; rw [evlog_afterUpdate]
  | brun g => simp only [afterDrain]; rw [evlog_bodyStep]; rfl
  | bkill g => simp only [afterDrain]; rw [evlog_bodyStep]; rfl

theorem inv4_mainPlain {s : S} (h1 : Inv1 s) (h4 : Inv4 s) : Inv4 (mainPlain s) := by
  have hm := h1.mainEq
  unfold mainPlain
  split
  · rename_i c hpc
    cases c with
    | next t => simp only [startCall]; unfold startNext; split <;> exact inv4_same h4 rfl rfl
    | run f => exact inv4_same h4 rfl rfl
    | kill f => exact inv4_same h4 rfl rfl
  · split
    · exact inv4_same h4 (frame_dispatch ⟨rfl, rfl, rfl, rfl⟩).eq (evlog_dispatch s)
    · exact inv4_same h4 rfl rfl
  · rename_i c hpc
    split
    · exact inv4_same h4 rfl rfl
    · exact inv4_same h4 (frame_afterDrain ⟨rfl, rfl, rfl, rfl⟩ c).eq (evlog_afterDrain s c)
  · exact inv4_same h4 rfl rfl
  · refine inv4_same h4 ?_ ?_
    · unfold resetPriv; split
      · exact (frame_afterUpdate (s0 := s) (by exact ⟨rfl, rfl, rfl, rfl⟩)).eq
      · exact (frame_afterUpdate (s0 := s) ⟨rfl, rfl, rfl, rfl⟩).eq
    · rw [evlog_afterUpdate]; unfold resetPriv; split <;> rfl
  · -- hRecvd
    rename_i hpc
    split
    · -- process(e): the stamp read is the recorded payload of the ticket held
      rename_i sl k hr
      unfold Inv4 at *
      have hrv := h1.eqInv.recv
      rw [hr] at hrv
      have hk : k + 1 = s.eq.received := hrv.1
      have hp0 : processed s.eq = k := by unfold processed; rw [hr]; simp only; omega
      have hp1 : processed (step s.eq (.recv false)) = k + 1 := by
        unfold processed
        rw [recv_from_hold s.eq sl k hr false, recv_received_busy s.eq false (by rw [hr]; simp) (by rw [hr]; simp)]
        exact hk.symm
      show s.evlog ++ [s.eq.payload sl.toNat] = List.map (step s.eq _).written (List.range (processed (step s.eq _)))
      rw [recv_written, hp1, List.range_succ, List.map_append, ← hp0, ← h4, hp0, hold_payload h1.eqInv hr]
      rfl
    · exact inv4_same h4 (frame_returned ⟨rfl, rfl, rfl, rfl⟩ _).eq (evlog_returned s _)
  · exact inv4_same h4 rfl rfl
  · exact inv4_same h4 rfl rfl
  · exact h4

/-- **`Inv4` holds in every reachable state** -/
theorem reach_inv4 {s : S} (hr : Reach s) : Inv4 s := by
  induction hr with
  | init d kinds budgets h1 h32 => rfl
  | mainPlain hr ih => exact inv4_mainPlain (reach_inv1 hr) ih
  | mainAtomic hr ih => exact inv4_mainAtomic (reach_inv1 hr) ih
  | senderPlain i hi hr ih =>
    rcases senderPlain_eq i _ with e | ⟨v, e⟩
    · exact inv4_same ih e (senderPlain_evlog i _)
    · exact inv4_sender (reach_inv1 hr) ih i false v e (senderPlain_evlog i _)
  | senderAtomic i hi hr ih =>
    rcases senderAtomic_eq i _ with e | ⟨v, e⟩
    · exact inv4_same ih e (senderAtomic_evlog i _)
    · exact inv4_sender (reach_inv1 hr) ih i false v e (senderAtomic_evlog i _)
  | enterMain c _ hidle ih => exact inv4_same ih rfl rfl
  | enterSender i c hi _ hidle ih => exact inv4_same ih rfl rfl
  | tok t _ ih => exact inv4_same ih rfl rfl
  | hung _ ih => exact inv4_same ih rfl rfl
  | nops k _ ih => exact inv4_same ih rfl rfl
  | newItem _ ih => exact inv4_same ih rfl rfl
  | noYields _ ih => exact inv4_same ih rfl rfl
  | setBody b r _ ih => exact inv4_same ih rfl rfl
  | observe o _ _ ih => exact inv4_same ih rfl rfl

end Librfn.Isr.L

import Librfn.Model.FibreIsr
import Librfn.Props.C04
/-! Frame lemmas for C06: what one step of C04's message-queue model (`MessageqConc.step`) can and cannot change,
and what each step function of `Model/FibreIsr.lean` does to each component of the state. -/
namespace Librfn.Isr.L
open Librfn.Model.MessageqConc Librfn.Model.FibreIsr
open Librfn.Sched (Fid Ret)

/-! ## one step of a sender -/

section sender
variable (q : St) (i : Nat) (sp : Bool) (v : Nat)

theorem sender_cases :
    (q.senders[i]? = none ∧ step q (.sender i sp v) = { q with log := [] }) ∨
    (∃ pc, q.senders[i]? = some pc ∧ step q (.sender i sp v) = stepSender q i sp v pc) := by
  cases h : q.senders[i]? with
  | none => left; exact ⟨rfl, by simp only [step, h]⟩
  | some pc => right; exact ⟨pc, rfl, by simp only [step, h]⟩

theorem sender_received : (step q (.sender i sp v)).received = q.received := by
  rcases sender_cases q i sp v with ⟨_, e⟩ | ⟨pc, _, e⟩ <;> rw [e]
  cases pc <;> simp only [stepSender] <;> repeat (first | rfl | split)

theorem sender_released : (step q (.sender i sp v)).released = q.released := by
  rcases sender_cases q i sp v with ⟨_, e⟩ | ⟨pc, _, e⟩ <;> rw [e]
  cases pc <;> simp only [stepSender] <;> repeat (first | rfl | split)

theorem sender_recv : (step q (.sender i sp v)).recv = q.recv := by
  rcases sender_cases q i sp v with ⟨_, e⟩ | ⟨pc, _, e⟩ <;> rw [e]
  cases pc <;> simp only [stepSender] <;> repeat (first | rfl | split)

theorem sender_receivep : (step q (.sender i sp v)).receivep = q.receivep := by
  rcases sender_cases q i sp v with ⟨_, e⟩ | ⟨pc, _, e⟩ <;> rw [e]
  cases pc <;> simp only [stepSender] <;> repeat (first | rfl | split)

theorem sender_qlen : (step q (.sender i sp v)).qlen = q.qlen := by
  rcases sender_cases q i sp v with ⟨_, e⟩ | ⟨pc, _, e⟩ <;> rw [e]
  cases pc <;> simp only [stepSender] <;> repeat (first | rfl | split)

theorem sender_claimed_le : q.claimed ≤ (step q (.sender i sp v)).claimed := by
  rcases sender_cases q i sp v with ⟨_, e⟩ | ⟨pc, _, e⟩ <;> rw [e]
  · exact Nat.le_refl _
  · cases pc <;> simp only [stepSender] <;> repeat (first | exact Nat.le_refl _ | exact Nat.le_succ _ | split)

theorem sender_sent_mono (k : Nat) (h : q.sent k = true) : (step q (.sender i sp v)).sent k = true := by
  rcases sender_cases q i sp v with ⟨_, e⟩ | ⟨pc, _, e⟩ <;> rw [e]
  · exact h
  · cases pc <;> simp only [stepSender] <;> repeat (first | exact h | rfl | split)

/-- a ticket becomes sent only by the `fetch_or` of the sender that holds it -/
theorem sender_sent_new (k : Nat) (h : (step q (.sender i sp v)).sent k = true) :
    q.sent k = true ∨ ∃ sl, q.senders[i]? = some (.wrote sl k) := by
  rcases sender_cases q i sp v with ⟨_, e⟩ | ⟨pc, hpc, e⟩ <;> rw [e] at h
  · exact Or.inl h
  · cases pc with
    | wrote sl k' =>
      simp only [stepSender] at h
      by_cases hk : k = k'
      · subst hk; exact Or.inr ⟨sl, hpc⟩
      · simp only [hk, if_false] at h; exact Or.inl h
    | idle => simp only [stepSender] at h; split at h <;> exact Or.inl h
    | loadedFree w => simp only [stepSender] at h; split at h <;> (try split at h) <;> exact Or.inl h
    | gotPerm => simp only [stepSender] at h; exact Or.inl h
    | loaded w => simp only [stepSender] at h; split at h <;> exact Or.inl h
    | hasSlot sl k' => simp only [stepSender] at h; exact Or.inl h

/-- the recorded payload of a ticket changes only by the plain write of the sender that holds it -/
theorem sender_written (k : Nat) :
    (step q (.sender i sp v)).written k = q.written k ∨ ∃ sl, q.senders[i]? = some (.hasSlot sl k) := by
  rcases sender_cases q i sp v with ⟨_, e⟩ | ⟨pc, hpc, e⟩ <;> rw [e]
  · exact Or.inl rfl
  · cases pc with
    | hasSlot sl k' =>
      simp only [stepSender]
      by_cases hk : k = k'
      · subst hk; exact Or.inr ⟨sl, hpc⟩
      · simp only [hk, if_false]; exact Or.inl trivial
    | idle => simp only [stepSender]; split <;> exact Or.inl rfl
    | loadedFree w => simp only [stepSender]; split <;> (try split) <;> exact Or.inl rfl
    | gotPerm => simp only [stepSender]; exact Or.inl trivial
    | loaded w => simp only [stepSender]; split <;> exact Or.inl rfl
    | wrote sl k' => simp only [stepSender]; exact Or.inl trivial

theorem sender_senders_length : (step q (.sender i sp v)).senders.length = q.senders.length := by
  rcases sender_cases q i sp v with ⟨_, e⟩ | ⟨pc, _, e⟩ <;> rw [e]
  cases pc <;> simp only [stepSender] <;> repeat (first | rfl | exact List.length_set | split)

theorem sender_other (j : Nat) (hj : j ≠ i) : (step q (.sender i sp v)).senders[j]? = q.senders[j]? := by
  rcases sender_cases q i sp v with ⟨_, e⟩ | ⟨pc, _, e⟩ <;> rw [e]
  cases pc <;> simp only [stepSender] <;> repeat (first | rfl | exact List.getElem?_set_ne (Ne.symm hj) | split)

end sender

/-! ## one step of the receiver -/

section recv
variable (q : St) (poll : Bool)

theorem recv_senders : (step q (.recv poll)).senders = q.senders := by
  simp only [step]
  cases q.recv <;> simp only [stepRecv, stepReceive] <;> repeat (first | rfl | split)

theorem recv_claimed : (step q (.recv poll)).claimed = q.claimed := by
  simp only [step]
  cases q.recv <;> simp only [stepRecv, stepReceive] <;> repeat (first | rfl | split)

theorem recv_sent : (step q (.recv poll)).sent = q.sent := by
  simp only [step]
  cases q.recv <;> simp only [stepRecv, stepReceive] <;> repeat (first | rfl | split)

theorem recv_written : (step q (.recv poll)).written = q.written := by
  simp only [step]
  cases q.recv <;> simp only [stepRecv, stepReceive] <;> repeat (first | rfl | split)

theorem recv_payload : (step q (.recv poll)).payload = q.payload := by
  simp only [step]
  cases q.recv <;> simp only [stepRecv, stepReceive] <;> repeat (first | rfl | split)

theorem recv_qlen : (step q (.recv poll)).qlen = q.qlen := by
  simp only [step]
  cases q.recv <;> simp only [stepRecv, stepReceive] <;> repeat (first | rfl | split)

end recv


/-! ## where a sender is after one of its steps -/

section trans
variable (q : St) (i : Nat) (sp : Bool) (v : Nat)

theorem lt_of_some {l : List SPc} {i : Nat} {pc : SPc} (h : l[i]? = some pc) : i < l.length :=
  (List.getElem?_eq_some_iff.mp h).1

theorem step_of (pc : SPc) (h : q.senders[i]? = some pc) : step q (.sender i sp v) = stepSender q i sp v pc := by
  simp only [step, h]

theorem step_idle (h : q.senders[i]? = some .idle) :
    (∃ w, (step q (.sender i sp v)).senders[i]? = some (.loadedFree w)) ∨ (step q (.sender i sp v)).senders[i]? = some .idle := by
  have hl := lt_of_some h
  rw [step_of q i sp v _ h]
  simp only [stepSender]
  split
  · right; simp only [List.getElem?_set_self hl]
  · left; exact ⟨q.numFree, by simp only [List.getElem?_set_self hl]⟩

theorem step_loadedFree (w : BitVec 8) (h : q.senders[i]? = some (.loadedFree w)) :
    (step q (.sender i sp v)).senders[i]? = some .gotPerm ∨ (step q (.sender i sp v)).senders[i]? = some .idle
    ∨ ∃ w', (step q (.sender i sp v)).senders[i]? = some (.loadedFree w') := by
  have hl := lt_of_some h
  rw [step_of q i sp v _ h]
  simp only [stepSender]
  split
  · left; simp only [List.getElem?_set_self hl]
  · split
    · right; left; simp only [List.getElem?_set_self hl]
    · right; right; exact ⟨q.numFree, by simp only [List.getElem?_set_self hl]⟩

theorem step_gotPerm (h : q.senders[i]? = some .gotPerm) :
    (step q (.sender i sp v)).senders[i]? = some (.loaded q.sendp) := by
  have hl := lt_of_some h
  rw [step_of q i sp v _ h]
  simp only [stepSender, List.getElem?_set_self hl]

theorem step_loaded (w : BitVec 8) (h : q.senders[i]? = some (.loaded w)) :
    (step q (.sender i sp v)).senders[i]? = some (.hasSlot w q.claimed) ∨
    (step q (.sender i sp v)).senders[i]? = some (.loaded q.sendp) := by
  have hl := lt_of_some h
  rw [step_of q i sp v _ h]
  simp only [stepSender]
  split <;> simp [List.getElem?_set_self hl]

theorem step_hasSlot (sl : BitVec 8) (k : Nat) (h : q.senders[i]? = some (.hasSlot sl k)) :
    (step q (.sender i sp v)).senders[i]? = some (.wrote sl k) ∧ (step q (.sender i sp v)).written k = v
    ∧ (step q (.sender i sp v)).sent = q.sent ∧ (step q (.sender i sp v)).claimed = q.claimed := by
  have hl := lt_of_some h
  rw [step_of q i sp v _ h]
  simp only [stepSender, List.getElem?_set_self hl, if_true, and_self]

theorem step_wrote (sl : BitVec 8) (k : Nat) (h : q.senders[i]? = some (.wrote sl k)) :
    (step q (.sender i sp v)).senders[i]? = some .idle ∧ (step q (.sender i sp v)).sent k = true
    ∧ (step q (.sender i sp v)).written = q.written ∧ (step q (.sender i sp v)).claimed = q.claimed := by
  have hl := lt_of_some h
  rw [step_of q i sp v _ h]
  simp only [stepSender, List.getElem?_set_self hl, if_true, and_self]

end trans

end Librfn.Isr.L

import Librfn.Lemmas.PT
/-! Fuel monotonicity of `exec`: more fuel never changes a result. -/
namespace Librfn.Model.PT
open Stmt

theorem andThen_eq_some {x : Option Out} {k : St → Code → Nat → Option Out} {r : Out} :
    Out.andThen x k = some r ↔
      (∃ st r1 n1 t r', x = some (.normal st r1 n1 t) ∧ k st r1 n1 = some r' ∧ r = r'.prepend t) ∨
      (x = some r ∧ ∀ st r1 n1 t, r ≠ .normal st r1 n1 t) := by
  cases x with
  | none => simp [Out.andThen]
  | some o =>
    cases o with
    | normal st r1 n1 t =>
      simp only [Out.andThen, Option.map_eq_some_iff]
      constructor
      · rintro ⟨r', h1, h2⟩; exact Or.inl ⟨st, r1, n1, t, r', rfl, h1, h2.symm⟩
      · rintro (⟨st', r1', n1', t', r', h0, h1, h2⟩ | ⟨h0, h1⟩)
        · cases h0; exact ⟨r', h1, h2.symm⟩
        · cases h0; exact absurd rfl (h1 _ _ _ _)
    | ret c st n t =>
      simp only [Out.andThen]
      constructor
      · intro h; cases h; exact Or.inr ⟨rfl, by intros; simp⟩
      · rintro (⟨_, _, _, _, _, h0, _⟩ | ⟨h0, _⟩)
        · cases h0
        · exact h0
    | abort t =>
      simp only [Out.andThen]
      constructor
      · intro h; cases h; exact Or.inr ⟨rfl, by intros; simp⟩
      · rintro (⟨_, _, _, _, _, h0, _⟩ | ⟨h0, _⟩)
        · cases h0
        · exact h0

/-- more fuel never changes a result -/
def MonoAt (fuel : Nat) (s : Stmt) : Prop :=
  ∀ e res n st r, exec fuel s e res n st = some r → exec (fuel + 1) s e res n st = some r

theorem andThen_mono {x x' : Option Out} {k k' : St → Code → Nat → Option Out} {r : Out}
    (hx : ∀ r, x = some r → x' = some r) (hk : ∀ st r1 n1 r, k st r1 n1 = some r → k' st r1 n1 = some r)
    (h : Out.andThen x k = some r) : Out.andThen x' k' = some r := by
  rcases andThen_eq_some.1 h with ⟨st, r1, n1, t, r', h0, h1, h2⟩ | ⟨h0, h1⟩
  · exact andThen_eq_some.2 (Or.inl ⟨st, r1, n1, t, r', hx _ h0, hk _ _ _ _ h1, h2⟩)
  · exact andThen_eq_some.2 (Or.inr ⟨hx _ h0, h1⟩)

theorem mono_leaf {fuel s} (h : ∀ f e res n st, exec f s e res n st = exec 0 s e res n st) : MonoAt fuel s := by
  intro e res n st r hr; rw [h] at hr ⊢; exact hr

theorem mono_skip {fuel} : MonoAt fuel skip := mono_leaf (by intros; simp [exec])
theorem mono_eff {fuel x} : MonoAt fuel (eff x) := mono_leaf (by intros; simp [exec])
theorem mono_exit {fuel} : MonoAt fuel exit := mono_leaf (by intros; simp [exec])
theorem mono_fail {fuel} : MonoAt fuel fail := mono_leaf (by intros; simp [exec])
theorem mono_yield {fuel l} : MonoAt fuel (yield l) := mono_leaf (by intros; simp [exec])
theorem mono_wait {fuel l} : MonoAt fuel (wait l) := mono_leaf (by intros; simp [exec])
theorem mono_waitUntil {fuel l c} : MonoAt fuel (waitUntil l c) := mono_leaf (by intros; simp [exec])

theorem mono_seq {fuel a b} (ha : MonoAt fuel a) (hb : MonoAt fuel b) : MonoAt fuel (seq a b) := by
  intro e res n st r hr
  cases e with
  | none =>
    rw [exec_seq_none] at hr ⊢
    exact andThen_mono (ha _ _ _ _) (fun _ _ _ _ => hb _ _ _ _ _) hr
  | some l =>
    by_cases h : l ∈ labels a
    · rw [exec_seq_left _ _ _ _ _ _ _ h] at hr ⊢
      exact andThen_mono (ha _ _ _ _) (fun _ _ _ _ => hb _ _ _ _ _) hr
    · rw [exec_seq_right _ _ _ _ _ _ _ h] at hr ⊢; exact hb _ _ _ _ _ hr

theorem mono_ifte {fuel c a b} (ha : MonoAt fuel a) (hb : MonoAt fuel b) : MonoAt fuel (ifte c a b) := by
  intro e res n st r hr
  cases e with
  | none =>
    rw [exec_ifte_none] at hr ⊢
    by_cases hc : (evalCond c st).1 = true
    · rw [if_pos hc] at hr ⊢; exact ha _ _ _ _ _ hr
    · rw [if_neg hc] at hr ⊢; exact hb _ _ _ _ _ hr
  | some l =>
    by_cases h : l ∈ labels a
    · rw [exec_ifte_left _ _ _ _ _ _ _ _ h] at hr ⊢; exact ha _ _ _ _ _ hr
    · rw [exec_ifte_right _ _ _ _ _ _ _ _ h] at hr ⊢; exact hb _ _ _ _ _ hr

theorem mono_ico {fuel a b} (ha : MonoAt fuel a) (hb : MonoAt fuel b) : MonoAt fuel (ifChildOk a b) := by
  intro e res n st r hr
  cases e with
  | none =>
    rw [exec_ico_none] at hr ⊢
    by_cases hc : res ≠ .failed
    · rw [if_pos hc] at hr ⊢; exact ha _ _ _ _ _ hr
    · rw [if_neg hc] at hr ⊢; exact hb _ _ _ _ _ hr
  | some l =>
    by_cases h : l ∈ labels a
    · rw [exec_ico_left _ _ _ _ _ _ _ h] at hr ⊢; exact ha _ _ _ _ _ hr
    · rw [exec_ico_right _ _ _ _ _ _ _ h] at hr ⊢; exact hb _ _ _ _ _ hr

theorem mono_exitOn {fuel c} : MonoAt fuel (exitOn c) := by
  intro e res n st r hr; rw [exec_exitOn] at hr ⊢; exact mono_ifte mono_exit mono_skip _ _ _ _ _ hr
theorem mono_failOn {fuel c} : MonoAt fuel (failOn c) := by
  intro e res n st r hr; rw [exec_failOn] at hr ⊢; exact mono_ifte mono_fail mono_skip _ _ _ _ _ hr

theorem post_mono {F : Option Out → Option Out} (hF : F none = none) {x x' : Option Out} {r : Out}
    (hx : ∀ r, x = some r → x' = some r) (h : F x = some r) : F x' = some r := by
  cases x with
  | none => rw [hF] at h; cases h
  | some o => rw [hx o rfl]; exact h

theorem mono_join {fuel l ch} (hc : MonoAt fuel ch) : MonoAt fuel (join l ch) := by
  intro e res n st r hr
  rw [exec_join_eq] at hr ⊢
  cases hent : entryOf ch (st.me.kid l).pt with
  | none => rw [hent] at hr; exact hr
  | some e' =>
    rw [hent] at hr
    exact post_mono (F := joinPost st l) rfl (hc _ _ _ _) hr

theorem mono_spawn {fuel l ch} (hc : MonoAt fuel ch) : MonoAt fuel (spawn l ch) := by
  intro e res n st r hr
  by_cases h : e = some l
  · subst h; rw [exec_spawn_at] at hr ⊢; exact mono_join hc _ _ _ _ _ hr
  · rw [exec_spawn_fresh _ _ _ _ _ _ _ h] at hr ⊢; exact mono_join hc _ _ _ _ _ hr

theorem mono_sac {fuel l ch} (hc : MonoAt fuel ch) : MonoAt fuel (spawnAndCheck l ch) := by
  intro e res n st r hr; rw [exec_sac] at hr ⊢
  exact mono_seq (mono_spawn hc) (mono_ico mono_skip mono_fail) _ _ _ _ _ hr

theorem mono_while {fuel c b} (hb : MonoAt fuel b)
    (ih : ∀ f, f < fuel → MonoAt f b ∧ MonoAt f (.while c b)) : MonoAt fuel (.while c b) := by
  have hnone : ∀ res n st r, exec fuel (.while c b) none res n st = some r → exec (fuel + 1) (.while c b) none res n st = some r := by
    intro res n st r hr
    cases fuel with
    | zero => rw [exec_while_zero] at hr; cases hr
    | succ f =>
      rw [exec_while_succ] at hr ⊢
      by_cases hc : (evalCond c st).1 = true
      · rw [if_pos hc] at hr ⊢
        exact andThen_mono ((ih f (Nat.lt_succ_self f)).1 _ _ _ _) (fun _ _ _ _ => (ih f (Nat.lt_succ_self f)).2 _ _ _ _ _) hr
      · rw [if_neg hc] at hr ⊢; exact hr
  intro e res n st r hr
  cases e with
  | none => exact hnone _ _ _ _ hr
  | some l =>
    rw [exec_while_some] at hr ⊢
    exact andThen_mono (hb _ _ _ _) (fun _ _ _ _ => hnone _ _ _ _) hr

theorem mono_spin {fuel k ch} (ih : ∀ f, f < fuel → MonoAt f ch ∧ MonoAt f (spin k ch)) : MonoAt fuel (spin k ch) := by
  intro e res n st r hr
  cases fuel with
  | zero => rw [exec_spin_zero] at hr; cases hr
  | succ f =>
    rw [exec_spin_succ] at hr ⊢
    cases hent : entryOf ch (st.me.kid k).pt with
    | none => rw [hent] at hr; exact hr
    | some e' =>
      rw [hent] at hr
      dsimp only at hr ⊢
      have ⟨h1, h2⟩ := ih f (Nat.lt_succ_self f)
      cases hx : exec f ch e' Code.yielded 0 (st.enter k) with
      | none => rw [hx] at hr; cases hr
      | some o =>
        rw [hx] at hr; rw [h1 _ _ _ _ _ hx]
        cases o with
        | normal => exact hr
        | abort => exact hr
        | ret c st2 n2 t =>
          simp only [spinPost] at hr ⊢
          by_cases hb : c.blocking = true
          · rw [if_pos hb] at hr ⊢
            rcases Option.map_eq_some_iff.1 hr with ⟨r', hr', rfl⟩
            rw [h2 _ _ _ _ _ hr']; rfl
          · rw [if_neg hb] at hr ⊢; exact hr

theorem mono_call {fuel k ch} (hs : MonoAt fuel (spin k ch)) : MonoAt fuel (call k ch) := by
  intro e res n st r hr; rw [exec_call] at hr ⊢; exact hs _ _ _ _ _ hr

theorem exec_mono_at : ∀ fuel s, MonoAt fuel s := by
  intro fuel
  induction fuel using Nat.strongRecOn with
  | _ fuel ihf =>
    intro s
    induction s with
    | skip => exact mono_skip
    | eff => exact mono_eff
    | exit => exact mono_exit
    | fail => exact mono_fail
    | yield => exact mono_yield
    | wait => exact mono_wait
    | waitUntil => exact mono_waitUntil
    | exitOn => exact mono_exitOn
    | failOn => exact mono_failOn
    | seq a b iha ihb => exact mono_seq iha ihb
    | ifte c a b iha ihb => exact mono_ifte iha ihb
    | ifChildOk a b iha ihb => exact mono_ico iha ihb
    | «while» c b ihb => exact mono_while ihb (fun f hf => ⟨ihf f hf _, ihf f hf _⟩)
    | spawn l ch ih => exact mono_spawn ih
    | join l ch ih => exact mono_join ih
    | spawnAndCheck l ch ih => exact mono_sac ih
    | spin k ch ih => exact mono_spin (fun f hf => ⟨ihf f hf _, ihf f hf _⟩)
    | call k ch ih => exact mono_call (mono_spin (fun f hf => ⟨ihf f hf _, ihf f hf _⟩))

/-- more fuel never changes a result -/
theorem exec_mono {f f' : Nat} (h : f ≤ f') {s e res n st r} (hr : exec f s e res n st = some r) :
    exec f' s e res n st = some r := by
  induction h with
  | refl => exact hr
  | step _ ih => exact exec_mono_at _ _ _ _ _ _ _ ih

end Librfn.Model.PT

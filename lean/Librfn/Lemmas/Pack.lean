import Librfn.Model.Pack
/-! Helper lemmas about the pack model (memory reads/writes, `wrap32`, cursor arithmetic).  Shared by the
C12, C13 and C14 theorems. -/
namespace Librfn.Lemmas.Pack
open Librfn.Model.Pack

/-! ### writeBytes / readBytes -/

theorem writeBytes_outside (m : Mem) (a : Nat) (bs : List UInt8) (i : Nat) (h : i < a ∨ a + bs.length ≤ i) :
    writeBytes m a bs i = m i := by
  induction bs generalizing m a with
  | nil => rfl
  | cons b bs ih =>
    simp only [writeBytes, List.length_cons] at *
    rw [ih _ _ (by omega)]
    have : i ≠ a := by omega
    simp [this]

theorem readBytes_length (m : Mem) (a n : Nat) : (readBytes m a n).length = n := by
  induction n generalizing a with
  | zero => rfl
  | succ n ih => simp [readBytes, ih]

theorem readBytes_congr (m m' : Mem) (a n : Nat) (h : ∀ i, a ≤ i → i < a + n → m i = m' i) :
    readBytes m a n = readBytes m' a n := by
  induction n generalizing a with
  | zero => rfl
  | succ n ih =>
    simp only [readBytes]
    rw [h a (Nat.le_refl _) (by omega), ih (a + 1) (fun i h1 h2 => h i (by omega) (by omega))]

theorem readBytes_writeBytes (m : Mem) (a : Nat) (bs : List UInt8) :
    readBytes (writeBytes m a bs) a bs.length = bs := by
  induction bs generalizing m a with
  | nil => rfl
  | cons b bs ih =>
    simp only [writeBytes, readBytes, List.length_cons]
    rw [ih]
    rw [writeBytes_outside _ _ _ _ (Or.inl (Nat.lt_succ_self a))]
    simp

theorem readBytes_append (m : Mem) (a n k : Nat) :
    readBytes m a (n + k) = readBytes m a n ++ readBytes m (a + n) k := by
  induction n generalizing a with
  | zero => simp [readBytes]
  | succ n ih =>
    have : n + 1 + k = (n + k) + 1 := by omega
    rw [this]
    simp only [readBytes, List.cons_append]
    rw [ih (a + 1)]
    have : a + 1 + n = a + (n + 1) := by omega
    rw [this]

theorem readBytes_getElem? (m : Mem) (a n i : Nat) (h : i < n) : (readBytes m a n)[i]? = some (m (a + i)) := by
  induction n generalizing a i with
  | zero => omega
  | succ n ih =>
    cases i with
    | zero => simp [readBytes]
    | succ i =>
      simp only [readBytes, List.getElem?_cons_succ]
      rw [ih (a + 1) i (by omega)]
      have : a + 1 + i = a + (i + 1) := by omega
      rw [this]

theorem writeBytes_congr (m m' : Mem) (a : Nat) (bs : List UInt8) (i : Nat) (h : m i = m' i) :
    writeBytes m a bs i = writeBytes m' a bs i := by
  induction bs generalizing m m' a with
  | nil => exact h
  | cons b bs ih =>
    simp only [writeBytes]
    apply ih
    by_cases e : i = a <;> simp [e, h]

theorem readBytes_memOfList (b : Nat) (bs : List UInt8) : readBytes (memOfList b bs) b bs.length = bs := by
  apply List.ext_getElem?
  intro i
  by_cases h : i < bs.length
  · rw [readBytes_getElem? _ _ _ _ h]
    simp only [memOfList]
    have h1 : b ≤ b + i := by omega
    have h2 : b + i - b = i := by omega
    simp only [h1, if_true, h2]
    rw [List.getD_eq_getElem?_getD, List.getElem?_eq_getElem h]
    rfl
  · have h1 : (readBytes (memOfList b bs) b bs.length).length ≤ i := by rw [readBytes_length]; omega
    rw [List.getElem?_eq_none h1, List.getElem?_eq_none (by omega)]

/-! ### wrap32 -/

theorem wrap32_id (x : Int) (h1 : -2147483648 ≤ x) (h2 : x < 2147483648) : wrap32 x = x := by
  unfold wrap32; omega

theorem wrap32_mod (x : Int) : wrap32 x % 4294967296 = x % 4294967296 := by
  unfold wrap32; omega

/-- `sz - rf_pack_remaining()` evaluated in `unsigned` and converted to `int` is the cursor itself whenever the
    cursor fits an `int` (the two truncations cancel) -/
theorem ret_eq_cur (p : Pk) (h : p.cur < 2147483648) : wrap32 ((p.size : Int) - remaining p) = p.cur := by
  unfold remaining wrap32; omega

end Librfn.Lemmas.Pack

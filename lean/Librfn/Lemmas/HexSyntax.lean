import Librfn.Lemmas.Hex
import Librfn.Spec.Hex
/-! What one call of the model's `hex_get_byte` does on the pieces of the accepted syntax
(`Spec.Hex`: blanks, an item, the end of a line, an address prefix). -/
namespace Librfn.Lemmas.Hex
open Librfn.Model.Hex
open Librfn.Spec.Hex (isHex hexVal isBlank Item Line itemsText)

/-! ### characters of the syntax -/

theorem blank_facts : ∀ c : UInt8, isBlank c = true → isSpace c = true ∧ c ≠ 10 ∧ c ≠ 58 ∧ c ≠ 0 :=
  forall_u8 (fun c => isBlank c = true → isSpace c = true ∧ c ≠ 10 ∧ c ≠ 58 ∧ c ≠ 0) (by decide +kernel)

theorem hex_facts : ∀ c : UInt8, isHex c = true →
    isXDigit c = true ∧ isSpace c = false ∧ c ≠ 58 ∧ c ≠ 0 ∧ c ≠ 120 ∧ c ≠ 10 ∧ nibble c = (hexVal c : Int) ∧ hexVal c < 16 :=
  forall_u8 (fun c => isHex c = true →
    isXDigit c = true ∧ isSpace c = false ∧ c ≠ 58 ∧ c ≠ 0 ∧ c ≠ 120 ∧ c ≠ 10 ∧ nibble c = (hexVal c : Int) ∧ hexVal c < 16)
    (by decide +kernel)

theorem byteVal_hex (a b : UInt8) (ha : isHex a = true) (hb : isHex b = true) :
    byteVal a b = ((16 * hexVal a + hexVal b : Nat) : Int) := by
  obtain ⟨xa, _, _, _, _, _, na, la⟩ := hex_facts a ha
  obtain ⟨xb, _, _, _, _, _, nb, lb⟩ := hex_facts b hb
  unfold byteVal
  rw [na, nb]
  have h1 : (16 * (hexVal a : Int)).toNat = 16 * hexVal a := by omega
  have h2 : ((hexVal b : Int)).toNat = hexVal b := by omega
  rw [h1, h2, or_lt_256 _ la _ lb]

/-! ### one pass on the pieces of the syntax -/

theorem body_nil : body [] = .ret .done := by decide +kernel

theorem body_blank (c : UInt8) (t : Str) (h : isBlank c = true) : body (c :: t) = .jump false t := by
  obtain ⟨hs, h10, _, h0⟩ := blank_facts c h
  unfold body
  rw [rd_zero]
  dsimp only [List.headD_cons]
  rw [if_pos hs, adv_one_cons c t h0]
  simp [h10]

theorem body_newline (t : Str) : body (10 :: t) = .jump true t := by
  unfold body
  rw [rd_zero]
  dsimp only [List.headD_cons]
  rw [if_pos (by decide), adv_one_cons 10 t (by decide)]
  simp

theorem pair_hex (a b : UInt8) (r : Str) (ha : isHex a = true) (hb : isHex b = true) :
    pair (a :: b :: r) = .ok (some (byteVal a b, r)) := by
  obtain ⟨xa, _, _, a0, _, _, _, _⟩ := hex_facts a ha
  obtain ⟨xb, _, _, b0, _, _, _, _⟩ := hex_facts b hb
  unfold pair
  rw [rd_zero]
  dsimp only [List.headD_cons]
  rw [if_pos xa, rd_one_cons a _ a0]
  dsimp only [List.headD_cons]
  rw [if_pos xb, adv_two_cons a b r a0 b0]

/-- two hex digits are not a `0x` prefix -/
theorem skip0x_hex (a b : UInt8) (r : Str) (ha : isHex a = true) (hb : isHex b = true) :
    skip0x (a :: b :: r) = .ok (a :: b :: r) := by
  obtain ⟨_, _, _, a0, _, _, _, _⟩ := hex_facts a ha
  obtain ⟨_, _, _, _, b120, _, _, _⟩ := hex_facts b hb
  unfold skip0x
  rw [rd_zero]
  dsimp only [List.headD_cons]
  by_cases h : a = 48
  · rw [if_pos h, rd_one_cons a _ a0]
    dsimp only [List.headD_cons]
    rw [if_neg b120]
  · rw [if_neg h]

theorem skip0x_prefix (r : Str) : skip0x (48 :: 120 :: r) = .ok r := by
  unfold skip0x
  rw [rd_zero]
  dsimp only [List.headD_cons]
  rw [if_pos rfl, rd_one_cons 48 _ (by decide)]
  dsimp only [List.headD_cons]
  rw [if_pos rfl, adv_two_cons 48 120 r (by decide) (by decide)]

/-- a pair without blanks in front, with or without `0x`: one call returns its value and leaves `*p` behind it -/
theorem body_pair (pfx : Bool) (a b : UInt8) (r : Str) (ha : isHex a = true) (hb : isHex b = true) :
    body ((if pfx then [48, 120] else []) ++ a :: b :: r) = .ret (.byte (byteVal a b) r) := by
  obtain ⟨_, as, _, _, _, _, _, _⟩ := hex_facts a ha
  cases pfx with
  | true =>
    show body (48 :: 120 :: a :: b :: r) = _
    unfold body
    rw [rd_zero]
    dsimp only [List.headD_cons]
    rw [if_neg (by decide), skip0x_prefix]
    dsimp only
    rw [pair_hex a b r ha hb]
  | false =>
    show body (a :: b :: r) = _
    unfold body
    rw [rd_zero]
    dsimp only [List.headD_cons]
    rw [if_neg (by rw [as]; decide), skip0x_hex a b r ha hb]
    dsimp only
    rw [pair_hex a b r ha hb]

/-! ### one call on the pieces of the syntax -/

theorem parse1_false (s : Str) :
    parse1 false s = match body s with
      | .ret o => o
      | .jump nl' s' => parse1 nl' s' := by
  rw [parse1_eq]; rfl

theorem parse1_nil : parse1 false [] = .done := by
  rw [parse1_false, body_nil]

theorem parse1_blanks (bl r : Str) (h : ∀ c ∈ bl, isBlank c = true) : parse1 false (bl ++ r) = parse1 false r := by
  induction bl with
  | nil => rfl
  | cons c t ih =>
    rw [List.cons_append, parse1_false, body_blank c _ (h c List.mem_cons_self)]
    exact ih (fun x hx => h x (List.mem_cons_of_mem _ hx))

theorem parse1_newline (r : Str) : parse1 false (10 :: r) = parse1 true r := by
  rw [parse1_false, body_newline]

theorem parse1_item (it : Item) (r : Str) (h : it.WF) : parse1 false (it.render ++ r) = .byte it.value r := by
  obtain ⟨hb, hhi, hlo⟩ := h
  unfold Item.render
  rw [List.append_assoc, List.append_assoc, parse1_blanks _ _ hb, parse1_false]
  show (match body ((if it.pfx = true then [48, 120] else []) ++ it.hi :: it.lo :: r) with
      | .ret o => o
      | .jump nl' s' => parse1 nl' s') = _
  rw [body_pair it.pfx it.hi it.lo r hhi hlo]
  dsimp only
  rw [byteVal_hex _ _ hhi hlo]
  rfl

/-- through the label `next_line`: the colon search moves `s`, then the call proceeds as from the loop -/
theorem parse1_true (s s' : Str) (h : skipColon s = .ok s') : parse1 true s = parse1 false s' := by
  rw [parse1_eq, parse1_false]
  unfold step
  rw [if_pos rfl, h]
  rfl

theorem skipColon_addr (a r : Str) (h : ∀ c ∈ a, c ≠ 58 ∧ c ≠ 0) : skipColon (a ++ 58 :: r) = .ok r := by
  unfold skipColon
  rw [strchr_append 58 a _ h, strchr_cons_self]
  exact adv_one_cons 58 r (by decide)

theorem skipColon_none (s : Str) (h : ∀ c ∈ s, c ≠ 58) : skipColon s = .ok s := by
  unfold skipColon
  rw [strchr_none_of_not_mem 58 (by decide) s h]

end Librfn.Lemmas.Hex

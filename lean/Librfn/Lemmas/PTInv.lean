import Librfn.Lemmas.PTSplit6
/-! Invariant of the control state (`pt_t` values are 0 or a planted label, at every depth) and
classification of return codes, for every budget. -/
namespace Librfn.Model.PT
open Stmt Librfn.Spec.PT

/-- being blocked at `p.pt` inside `s` is consistent: if that label is a spawn, the child's own
control state is at its start or (recursively) consistently blocked at one of its labels -/
def Live : Stmt → PtSt → Prop
  | seq a b, p => if p.pt ∈ labels a then Live a p else Live b p
  | ifte _ a b, p => if p.pt ∈ labels a then Live a p else Live b p
  | ifChildOk a b, p => if p.pt ∈ labels a then Live a p else Live b p
  | .while _ b, p => Live b p
  | spawn l ch, p => p.pt = l → ((p.kid l).pt = 0 ∨ ((p.kid l).pt ∈ labels ch ∧ Live ch (p.kid l)))
  | spawnAndCheck l ch, p => p.pt = l → ((p.kid l).pt = 0 ∨ ((p.kid l).pt ∈ labels ch ∧ Live ch (p.kid l)))
  | join l ch, p => p.pt = l → ((p.kid l).pt = 0 ∨ ((p.kid l).pt ∈ labels ch ∧ Live ch (p.kid l)))
  | _, _ => True

/-- the `pt_t` of a protothread function is 0 or one of its labels, consistently at every depth -/
def Good (body : Stmt) (p : PtSt) : Prop := p.pt = 0 ∨ (p.pt ∈ labels body ∧ Live body p)

/-- what holds of every outcome; `p0` = the value of `*pt` before -/
def Post (s : Stmt) (p0 : Nat) : Out → Prop
  | .abort _ => False
  | .normal st _ _ _ => st.me.pt = p0 ∨ st.me.pt ∈ labels s
  | .ret c st _ _ =>
      (st.me.pt = p0 ∨ st.me.pt ∈ labels s) ∧
      (if c.blocking then st.me.pt ∈ labels s ∧ MayBlock s st.me.pt c ∧ Live s st.me else MayReturn s c)

def InvAt (fuel : Nat) (s : Stmt) : Prop :=
  WF s → ∀ e res n st r, Entry s e st → (∀ l, e = some l → Live s st.me) →
    exec fuel s e res n st = some r → Post s st.me.pt r

theorem Post.prepend {s p0 r} (t : List Ev) (h : Post s p0 r) : Post s p0 (r.prepend t) := by
  cases r <;> exact h

/-- how facts about a sub-statement become facts about the statement containing it -/
structure Lifts (sub s : Stmt) : Prop where
  lab : ∀ l, l ∈ labels sub → l ∈ labels s
  blk : ∀ l c, MayBlock sub l c → MayBlock s l c
  ret : ∀ c, MayReturn sub c → MayReturn s c
  live : ∀ p, p.pt ∈ labels sub → Live sub p → Live s p

theorem Post.lift {sub s p0 r} (L : Lifts sub s) (h : Post sub p0 r) : Post s p0 r := by
  cases r with
  | abort => exact h
  | normal st res n t => exact h.imp id (L.lab _)
  | ret c st n t =>
    refine ⟨h.1.imp id (L.lab _), ?_⟩
    have h2 := h.2
    by_cases hb : c.blocking = true
    · rw [if_pos hb] at h2 ⊢; exact ⟨L.lab _ h2.1, L.blk _ _ h2.2.1, L.live _ h2.1 h2.2.2⟩
    · rw [if_neg hb] at h2 ⊢; exact L.ret _ h2

/-- sub-statement, then a continuation that already satisfies the postcondition of `s` -/
theorem post_andThen {sub s p0} {x : Option Out} {k : St → Code → Nat → Option Out} {r : Out}
    (L : Lifts sub s) (hx : ∀ ra, x = some ra → Post sub p0 ra)
    (hk : ∀ st1 r1 n1 t r', x = some (.normal st1 r1 n1 t) → k st1 r1 n1 = some r' → Post s st1.me.pt r')
    (h : Out.andThen x k = some r) : Post s p0 r := by
  rcases andThen_eq_some.1 h with ⟨st1, r1, n1, t, r', h0, h1, h2⟩ | ⟨h0, h1⟩
  · have ha := (hx _ h0).lift L
    have hb := hk _ _ _ _ _ h0 h1
    subst h2
    -- `*pt` after the continuation is the one after `sub`, or a label of `s`
    have key : ∀ q, (q = st1.me.pt ∨ q ∈ labels s) → (q = p0 ∨ q ∈ labels s) := by
      intro q hq
      rcases hq with hq | hq
      · rw [hq]; exact ha
      · exact Or.inr hq
    cases r' with
    | abort => exact hb
    | normal st2 r2 n2 t2 => exact key _ hb
    | ret c st2 n2 t2 => exact ⟨key _ hb.1, hb.2⟩
  · exact (hx _ h0).lift L

end Librfn.Model.PT

import Librfn.Lemmas.PTSplit3
namespace Librfn.Model.PT
open Stmt Librfn.Spec.PT

theorem split_while {fuel c b} (hb : SplitAt fuel b)
    (ih : ∀ f, f < fuel → SplitAt f b ∧ SplitAt f (.while c b)) : SplitAt fuel (.while c b) := by
  intro hwf
  have wb : WF b := hwf
  have hnone : ∀ res n st r, exec fuel (.while c b) none res (n + 1) st = some r →
      ∃ r0, exec fuel (.while c b) none res 0 st = some r0 ∧ Resumes fuel (.while c b) n r0 r := by
    intro res n st r h
    cases fuel with
    | zero => rw [exec_while_zero] at h; cases h
    | succ f =>
      obtain ⟨ihb, ihw⟩ := ih f (Nat.lt_succ_self f)
      rw [exec_while_succ] at h ⊢
      by_cases hc : (evalCond c st).1 = true
      · rw [if_pos hc] at h ⊢
        cases hx : exec f b none res (n + 1) (evalCond c st).2 with
        | none => rw [hx] at h; cases h
        | some ra =>
          rw [hx] at h
          obtain ⟨ra0, h0, hR⟩ := ihb wb none res n _ ra Entry.none hx
          rw [h0]
          refine split_andThen (fsub := f) (sub := b) ?_ ?_ hR h
          · intro l hl
            refine ⟨hl, fun res n st r' hr => ?_⟩
            rw [exec_while_some]
            exact andThen_mono (fun r hr => exec_mono (Nat.le_succ f) hr) (fun _ _ _ _ hr => exec_mono (Nat.le_succ f) hr) hr
          · intro st1 r1 r' hr
            obtain ⟨rb0, hb0, hRb⟩ := ihw hwf none r1 n st1 r' Entry.none hr
            exact ⟨rb0, hb0, hRb.lift (fun l hl => ⟨hl, fun _ _ _ _ hr => exec_mono (Nat.le_succ f) hr⟩)⟩
      · rw [if_neg hc] at h ⊢
        simp only [Option.some.injEq] at h; subst h; exact ⟨_, rfl, rfl, rfl⟩
  intro e res n st r hE h
  cases e with
  | none => exact hnone _ _ _ _ h
  | some l =>
    rw [exec_while_some] at h ⊢
    cases hx : exec fuel b (some l) res (n + 1) st with
    | none => rw [hx] at h; cases h
    | some ra =>
      rw [hx] at h
      obtain ⟨ra0, h0, hR⟩ := hb wb (some l) res n st ra (fun l' h' => by cases h'; exact hE l rfl) hx
      rw [h0]
      refine split_andThen (fsub := fuel) (sub := b) ?_ ?_ hR h
      · intro l hl
        exact ⟨hl, fun res n st r' hr => by rw [exec_while_some]; exact hr⟩
      · intro st1 r1 r' hr; exact hnone _ _ _ _ hr

end Librfn.Model.PT

import Librfn.Lemmas.IsrFrame
/-! C06: the reachable states of the interleaving model `Model/FibreIsr.lean` and the control invariant `Inv1`
(C04's `mq_inv` for both queues + the relation between every context's control location and its program counter
inside the two queues). -/
namespace Librfn.Isr.L
open Librfn.Model.MessageqConc Librfn.Model.FibreIsr Librfn.C04
open Librfn.Sched (Fid Ret)
open Librfn.Model.Fibre (upd)

/-! ## reachable states: any interleaving of the steps of the main context and of the three senders -/

inductive Reach : S → Prop
  | init (d : Nat) (kinds : List Kind) (budgets : List Nat) (h1 : 1 ≤ d) (h32 : d ≤ 32) : Reach (initWith d kinds budgets)
  | mainPlain {s : S} : Reach s → Reach (mainPlain s)
  | mainAtomic {s : S} : Reach s → Reach (mainAtomic s)
  | senderPlain {s : S} (i : Nat) : i < 3 → Reach s → Reach (senderPlain i s)
  | senderAtomic {s : S} (i : Nat) : i < 3 → Reach s → Reach (senderAtomic i s)
  /-- a context enters a call only when it is between calls -/
  | enterMain {s : S} (c : MCall) : Reach s → s.mpc = .idle → Reach (enterMain c s)
  | enterSender {s : S} (i : Nat) (c : ICall) : i < 3 → Reach s → s.ipc i = .idle → Reach (enterSender i c s)
  -- bookkeeping of the executable runner (output, counters, the quiescent run's "no more yields")
  | tok {s : S} (t : Tok) : Reach s → Reach (tok t s)
  | hung {s : S} : Reach s → Reach { s with hung := true }
  | nops {s : S} (k : Nat) : Reach s → Reach { s with nops := k }
  | newItem {s : S} : Reach s → Reach { s with trace := [], fired := 0 }
  | noYields {s : S} : Reach s → Reach { s with budget := fun _ => 0 }
  | setBody {s : S} (b : List BCall) (r : Ret) : Reach s → Reach { s with bscript := b, bret := r }
  | observe {s : S} (o : Librfn.Spec.IsrSpec.Obs) : (o = .threadBegin ∨ o = .threadEnd) → Reach s → Reach (emit o s)

/-! ## the control invariant -/

def SenderIdle (q : St) (i : Nat) : Prop := q.senders[i]? = some .idle

/-- inside `messageq_claim`, before it has returned -/
def InClaim : SPc → Prop
  | .idle | .loadedFree _ | .gotPerm | .loaded _ => True
  | _ => False

/-- a sender's control location against its program counters in the event queue and in the atomic run queue -/
def SenderPcOk (s : S) (i : Nat) : IPc → Prop
  | .evClaim _ => (∃ pc, s.eq.senders[i]? = some pc ∧ InClaim pc) ∧ SenderIdle s.aq i
  | .evClaimed _ => (∃ sl k, s.eq.senders[i]? = some (.hasSlot sl k)) ∧ SenderIdle s.aq i
  | .evSend st => (∃ sl k, s.eq.senders[i]? = some (.wrote sl k) ∧ s.eq.written k = st) ∧ SenderIdle s.aq i
  | .raClaim _ _ => SenderIdle s.eq i ∧ ∃ pc, s.aq.senders[i]? = some pc ∧ InClaim pc
  | .raClaimed _ _ => SenderIdle s.eq i ∧ ∃ sl k, s.aq.senders[i]? = some (.hasSlot sl k)
  | .raSend f _ => SenderIdle s.eq i ∧ ∃ sl k, s.aq.senders[i]? = some (.wrote sl k) ∧ s.aq.written k = f
  | _ => SenderIdle s.eq i ∧ SenderIdle s.aq i

/-- the main context's control location against the receiver pc of the atomic run queue -/
def AqRecvOk : MPc → RPc → Prop
  | .recvd _, r => r = .idle ∨ ∃ sl k, r = .hold sl k
  | .rel _, r => ∃ sl k v, r = .read sl k v
  | _, r => r = .idle

/-- … and of the event queue -/
def EqRecvOk : MPc → RPc → Prop
  | .hRecvd, r => r = .idle ∨ ∃ sl k, r = .hold sl k
  | .hRel, r => ∃ sl k v, r = .read sl k v
  | _, r => r = .idle

/-- the wake-up that `fibre_eventq_send` posts is for the handler fibre -/
def EvTargetOk : IPc → Prop
  | .raClaim f (some _) | .raClaimed f (some _) | .raNull f (some _) | .raTaint f (some _) | .raTainted f (some _)
  | .raSend f (some _) | .raSent f (some _) => f = HANDLER
  | _ => True

structure Inv1 (s : S) : Prop where
  aqInv : MqInv s.aq
  eqInv : MqInv s.eq
  aqLen : s.aq.senders.length = 3
  eqLen : s.eq.senders.length = 3
  mainAq : AqRecvOk s.mpc s.aq.recv
  mainEq : EqRecvOk s.mpc s.eq.recv
  senders : ∀ i, i < 3 → SenderPcOk s i (s.ipc i)
  target : ∀ i, EvTargetOk (s.ipc i)
  handlerKind : s.kind HANDLER = .handler

/-! ## frame lemmas for `Inv1` -/

@[simp] theorem tok_k (t : Tok) (s : S) : (tok t s).k = s.k := rfl
@[simp] theorem tok_aq (t : Tok) (s : S) : (tok t s).aq = s.aq := rfl
@[simp] theorem tok_eq (t : Tok) (s : S) : (tok t s).eq = s.eq := rfl
@[simp] theorem tok_mpc (t : Tok) (s : S) : (tok t s).mpc = s.mpc := rfl
@[simp] theorem tok_ipc (t : Tok) (s : S) : (tok t s).ipc = s.ipc := rfl
@[simp] theorem tok_kind (t : Tok) (s : S) : (tok t s).kind = s.kind := rfl
@[simp] theorem tok_a (t : Tok) (s : S) : (tok t s).a = s.a := rfl
@[simp] theorem emit_k (o) (s : S) : (emit o s).k = s.k := rfl
@[simp] theorem emit_aq (o) (s : S) : (emit o s).aq = s.aq := rfl
@[simp] theorem emit_eq (o) (s : S) : (emit o s).eq = s.eq := rfl
@[simp] theorem emit_mpc (o) (s : S) : (emit o s).mpc = s.mpc := rfl
@[simp] theorem emit_ipc (o) (s : S) : (emit o s).ipc = s.ipc := rfl
@[simp] theorem emit_kind (o) (s : S) : (emit o s).kind = s.kind := rfl

theorem upd_same {α : Type} (m : Nat → α) (i : Nat) (v : α) : upd m i v i = v := by simp [upd]
theorem upd_other {α : Type} (m : Nat → α) (i j : Nat) (v : α) (h : j ≠ i) : upd m i v j = m j := by simp [upd, h]

theorem senderPcOk_congr {s s' : S} {j : Nat} {pc : IPc}
    (he : s'.eq.senders[j]? = s.eq.senders[j]?) (ha : s'.aq.senders[j]? = s.aq.senders[j]?)
    (hwe : ∀ sl k, s.eq.senders[j]? = some (.wrote sl k) → s'.eq.written k = s.eq.written k)
    (hwa : ∀ sl k, s.aq.senders[j]? = some (.wrote sl k) → s'.aq.written k = s.aq.written k)
    (h : SenderPcOk s j pc) : SenderPcOk s' j pc := by
  cases pc <;> simp only [SenderPcOk, SenderIdle, he, ha] at h ⊢ <;> try exact h
  · obtain ⟨⟨sl, k, h1, h2⟩, h3⟩ := h
    exact ⟨⟨sl, k, h1, by rw [hwe sl k h1]; exact h2⟩, h3⟩
  · obtain ⟨h3, sl, k, h1, h2⟩ := h
    exact ⟨h3, sl, k, h1, by rw [hwa sl k h1]; exact h2⟩

theorem written_stable (q : St) (h : MqInv q) (i j : Nat) (hij : j ≠ i) (sl : BitVec 8) (k : Nat)
    (hj : q.senders[j]? = some (.wrote sl k)) (sp : Bool) (v : Nat) :
    (step q (.sender i sp v)).written k = q.written k := by
  rcases sender_written q i sp v k with e | ⟨sl', hi⟩
  · exact e
  · have h1 : Held q i sl' k := h.senders i _ hi
    have h2 : Held q j sl k := (h.senders j _ hj).1
    exact absurd (h2.2.2.2.2.symm.trans h1.2.2.2.2) hij

/-- sender `i` steps in the event queue: everything `Inv1` says about the other contexts is unaffected -/
theorem inv1_eqStep {s : S} (h : Inv1 s) (i : Nat) (v : Nat) (pc' : IPc) (s' : S)
    (heq : s'.eq = mqStep s.eq (.sender i false v)) (haq : s'.aq = s.aq) (hmpc : s'.mpc = s.mpc)
    (hipc : s'.ipc = upd s.ipc i pc') (hkind : s'.kind = s.kind)
    (hown : i < 3 → SenderPcOk s' i pc') (htar : EvTargetOk pc') : Inv1 s' := by
  refine ⟨haq ▸ h.aqInv, heq ▸ mq_inv_step _ _ h.eqInv, haq ▸ h.aqLen, ?_, ?_, ?_, ?_, ?_, hkind ▸ h.handlerKind⟩
  · rw [heq]; show (step _ _).senders.length = 3; rw [sender_senders_length]; exact h.eqLen
  · rw [hmpc, haq]; exact h.mainAq
  · rw [hmpc, heq]; show EqRecvOk _ (step _ _).recv; rw [sender_recv]; exact h.mainEq
  · intro j hj
    rw [hipc]
    by_cases hji : j = i
    · subst hji; rw [upd_same]; exact hown hj
    · rw [upd_other _ _ _ _ hji]
      apply senderPcOk_congr (s := s) _ _ _ _ (h.senders j hj)
      · rw [heq]; exact sender_other _ _ _ _ _ hji
      · rw [haq]
      · intro sl k hk; rw [heq]; exact written_stable _ h.eqInv i j hji sl k hk _ _
      · intro sl k _; rw [haq]
  · intro j
    rw [hipc]
    by_cases hji : j = i
    · subst hji; rw [upd_same]; exact htar
    · rw [upd_other _ _ _ _ hji]; exact h.target j

/-- sender `i` steps in the atomic run queue -/
theorem inv1_aqStep {s : S} (h : Inv1 s) (i : Nat) (v : Nat) (pc' : IPc) (s' : S)
    (haq : s'.aq = mqStep s.aq (.sender i false v)) (heq : s'.eq = s.eq) (hmpc : s'.mpc = s.mpc)
    (hipc : s'.ipc = upd s.ipc i pc') (hkind : s'.kind = s.kind)
    (hown : i < 3 → SenderPcOk s' i pc') (htar : EvTargetOk pc') : Inv1 s' := by
  refine ⟨haq ▸ mq_inv_step _ _ h.aqInv, heq ▸ h.eqInv, ?_, heq ▸ h.eqLen, ?_, ?_, ?_, ?_, hkind ▸ h.handlerKind⟩
  · rw [haq]; show (step _ _).senders.length = 3; rw [sender_senders_length]; exact h.aqLen
  · rw [hmpc, haq]; show AqRecvOk _ (step _ _).recv; rw [sender_recv]; exact h.mainAq
  · rw [hmpc, heq]; exact h.mainEq
  · intro j hj
    rw [hipc]
    by_cases hji : j = i
    · subst hji; rw [upd_same]; exact hown hj
    · rw [upd_other _ _ _ _ hji]
      apply senderPcOk_congr (s := s) _ _ _ _ (h.senders j hj)
      · rw [heq]
      · rw [haq]; exact sender_other _ _ _ _ _ hji
      · intro sl k _; rw [heq]
      · intro sl k hk; rw [haq]; exact written_stable _ h.aqInv i j hji sl k hk _ _
  · intro j
    rw [hipc]
    by_cases hji : j = i
    · subst hji; rw [upd_same]; exact htar
    · rw [upd_other _ _ _ _ hji]; exact h.target j

/-- sender `i` moves to another control location without touching a queue -/
theorem inv1_ipcOnly {s : S} (h : Inv1 s) (i : Nat) (pc' : IPc) (s' : S)
    (haq : s'.aq = s.aq) (heq : s'.eq = s.eq) (hmpc : s'.mpc = s.mpc)
    (hipc : s'.ipc = upd s.ipc i pc') (hkind : s'.kind = s.kind)
    (hown : i < 3 → SenderPcOk s i pc') (htar : EvTargetOk pc') : Inv1 s' := by
  refine ⟨haq ▸ h.aqInv, heq ▸ h.eqInv, haq ▸ h.aqLen, heq ▸ h.eqLen, ?_, ?_, ?_, ?_, hkind ▸ h.handlerKind⟩
  · rw [hmpc, haq]; exact h.mainAq
  · rw [hmpc, heq]; exact h.mainEq
  · intro j hj
    rw [hipc]
    have hc : ∀ pc, SenderPcOk s j pc → SenderPcOk s' j pc := fun pc hp =>
      senderPcOk_congr (by rw [heq]) (by rw [haq]) (fun _ _ _ => by rw [heq]) (fun _ _ _ => by rw [haq]) hp
    by_cases hji : j = i
    · subst hji; rw [upd_same]; exact hc _ (hown hj)
    · rw [upd_other _ _ _ _ hji]; exact hc _ (h.senders j hj)
  · intro j
    rw [hipc]
    by_cases hji : j = i
    · subst hji; rw [upd_same]; exact htar
    · rw [upd_other _ _ _ _ hji]; exact h.target j

/-- nothing `Inv1` reads has changed -/
theorem inv1_same {s : S} (h : Inv1 s) (s' : S)
    (haq : s'.aq = s.aq) (heq : s'.eq = s.eq) (hmpc : s'.mpc = s.mpc) (hipc : s'.ipc = s.ipc) (hkind : s'.kind = s.kind) :
    Inv1 s' := by
  refine ⟨haq ▸ h.aqInv, heq ▸ h.eqInv, haq ▸ h.aqLen, heq ▸ h.eqLen, ?_, ?_, ?_, ?_, hkind ▸ h.handlerKind⟩
  · rw [hmpc, haq]; exact h.mainAq
  · rw [hmpc, heq]; exact h.mainEq
  · intro j hj
    rw [hipc]
    exact senderPcOk_congr (by rw [heq]) (by rw [haq]) (fun _ _ _ => by rw [heq]) (fun _ _ _ => by rw [haq]) (h.senders j hj)
  · intro j; rw [hipc]; exact h.target j

/-- the main context moves to another control location, the queues' receiver pcs permitting -/
theorem inv1_mpcOnly {s : S} (h : Inv1 s) (s' : S)
    (haq : s'.aq = s.aq) (heq : s'.eq = s.eq) (hipc : s'.ipc = s.ipc) (hkind : s'.kind = s.kind)
    (h1 : AqRecvOk s'.mpc s.aq.recv) (h2 : EqRecvOk s'.mpc s.eq.recv) : Inv1 s' := by
  refine ⟨haq ▸ h.aqInv, heq ▸ h.eqInv, haq ▸ h.aqLen, heq ▸ h.eqLen, ?_, ?_, ?_, ?_, hkind ▸ h.handlerKind⟩
  · rw [haq]; exact h1
  · rw [heq]; exact h2
  · intro j hj
    rw [hipc]
    exact senderPcOk_congr (by rw [heq]) (by rw [haq]) (fun _ _ _ => by rw [heq]) (fun _ _ _ => by rw [haq]) (h.senders j hj)
  · intro j; rw [hipc]; exact h.target j

/-- the main context steps as the receiver of the atomic run queue -/
theorem inv1_mainAq {s : S} (h : Inv1 s) (s' : S)
    (haq : s'.aq = mqStep s.aq (.recv false)) (heq : s'.eq = s.eq) (hipc : s'.ipc = s.ipc) (hkind : s'.kind = s.kind)
    (h1 : AqRecvOk s'.mpc s'.aq.recv) (h2 : EqRecvOk s'.mpc s.eq.recv) : Inv1 s' := by
  refine ⟨haq ▸ mq_inv_step _ _ h.aqInv, heq ▸ h.eqInv, ?_, heq ▸ h.eqLen, h1, ?_, ?_, ?_, hkind ▸ h.handlerKind⟩
  · rw [haq]; show (step _ _).senders.length = 3; rw [recv_senders]; exact h.aqLen
  · rw [heq]; exact h2
  · intro j hj
    rw [hipc]
    apply senderPcOk_congr (s := s) _ _ _ _ (h.senders j hj)
    · rw [heq]
    · rw [haq]; show (step _ _).senders[j]? = _; rw [recv_senders]
    · intro _ _ _; rw [heq]
    · intro _ k _; rw [haq]; show (step _ _).written k = _; rw [recv_written]
  · intro j; rw [hipc]; exact h.target j

/-- the main context steps as the receiver of the event queue -/
theorem inv1_mainEq {s : S} (h : Inv1 s) (s' : S)
    (heq : s'.eq = mqStep s.eq (.recv false)) (haq : s'.aq = s.aq) (hipc : s'.ipc = s.ipc) (hkind : s'.kind = s.kind)
    (h1 : AqRecvOk s'.mpc s.aq.recv) (h2 : EqRecvOk s'.mpc s'.eq.recv) : Inv1 s' := by
  refine ⟨haq ▸ h.aqInv, heq ▸ mq_inv_step _ _ h.eqInv, haq ▸ h.aqLen, ?_, ?_, h2, ?_, ?_, hkind ▸ h.handlerKind⟩
  · rw [heq]; show (step _ _).senders.length = 3; rw [recv_senders]; exact h.eqLen
  · rw [haq]; exact h1
  · intro j hj
    rw [hipc]
    apply senderPcOk_congr (s := s) _ _ _ _ (h.senders j hj)
    · rw [heq]; show (step _ _).senders[j]? = _; rw [recv_senders]
    · rw [haq]
    · intro _ k _; rw [heq]; show (step _ _).written k = _; rw [recv_written]
    · intro _ _ _; rw [haq]
  · intro j; rw [hipc]; exact h.target j

/-! ## every step preserves `Inv1` -/

theorem upd_id {α : Type} (m : Nat → α) (i : Nat) : upd m i (m i) = m := by
  funext j; simp only [upd]; split <;> simp_all

/-- where a sender that is inside `messageq_claim` finds itself after its next atomic operation -/
theorem claim_step (q : St) (i : Nat) (v : Nat) (pc : SPc) (h : q.senders[i]? = some pc) (hc : InClaim pc) :
    (∃ sl k, (step q (.sender i false v)).senders[i]? = some (.hasSlot sl k)) ∨
    (step q (.sender i false v)).senders[i]? = some .idle ∨
    (∃ pc', (step q (.sender i false v)).senders[i]? = some pc' ∧ InClaim pc' ∧ pc' ≠ .idle) := by
  cases pc with
  | idle =>
    rcases step_idle q i false v h with ⟨w, e⟩ | e
    · exact Or.inr (Or.inr ⟨_, e, trivial, by simp⟩)
    · exact Or.inr (Or.inl e)
  | loadedFree w =>
    rcases step_loadedFree q i false v w h with e | e | ⟨w', e⟩
    · exact Or.inr (Or.inr ⟨_, e, trivial, by simp⟩)
    · exact Or.inr (Or.inl e)
    · exact Or.inr (Or.inr ⟨_, e, trivial, by simp⟩)
  | gotPerm => exact Or.inr (Or.inr ⟨_, step_gotPerm q i false v h, trivial, by simp⟩)
  | loaded w =>
    rcases step_loaded q i false v w h with e | e
    · exact Or.inl ⟨_, _, e⟩
    · exact Or.inr (Or.inr ⟨_, e, trivial, by simp⟩)
  | hasSlot sl k => exact False.elim hc
  | wrote sl k => exact False.elim hc

theorem inv1_senderAtomic {s : S} (h : Inv1 s) (i : Nat) (hi : i < 3) : Inv1 (senderAtomic i s) := by
  have hs := h.senders i hi
  have ht := h.target i
  unfold senderAtomic
  split
  · -- evClaim
    rename_i st hpc
    rw [hpc] at hs
    obtain ⟨⟨pc, hq, hc⟩, ha⟩ := hs
    rcases claim_step s.eq i st pc hq hc with ⟨sl, k, e⟩ | e | ⟨pc', e, hc', hne⟩
    · simp only [mqStep, e]
      exact inv1_eqStep h i st (.evClaimed st) _ rfl rfl rfl rfl rfl (fun _ => ⟨⟨sl, k, e⟩, ha⟩) trivial
    · simp only [mqStep, e]
      exact inv1_eqStep h i st (.evNull st) _ rfl rfl rfl rfl rfl (fun _ => ⟨e, ha⟩) trivial
    · cases pc' <;> first
        | exact absurd rfl hne
        | exact False.elim hc'
        | (simp only [mqStep, e]
           exact inv1_eqStep h i st (.evClaim st) _ rfl rfl rfl (by rw [← hpc, upd_id]) rfl (fun _ => ⟨⟨_, e, hc'⟩, ha⟩) trivial)
  · -- evTaint
    rename_i st hpc
    rw [hpc] at hs
    exact inv1_ipcOnly h i (.evTainted st) _ rfl rfl rfl rfl rfl (fun _ => hs) trivial
  · -- evSend
    rename_i st hpc
    rw [hpc] at hs
    obtain ⟨⟨sl, k, hq, _⟩, ha⟩ := hs
    exact inv1_eqStep h i st (.evSent st) _ rfl rfl rfl rfl rfl (fun _ => ⟨(step_wrote s.eq i false st sl k hq).1, ha⟩) trivial
  · -- raClaim
    rename_i f ev hpc
    rw [hpc] at hs ht
    obtain ⟨he, pc, hq, hc⟩ := hs
    have ht1 : EvTargetOk (.raClaimed f ev) := by cases ev <;> exact ht
    have ht2 : EvTargetOk (.raNull f ev) := by cases ev <;> exact ht
    rcases claim_step s.aq i f pc hq hc with ⟨sl, k, e⟩ | e | ⟨pc', e, hc', hne⟩
    · simp only [mqStep, e]
      exact inv1_aqStep h i f (.raClaimed f ev) _ rfl rfl rfl rfl rfl (fun _ => ⟨he, ⟨sl, k, e⟩⟩) ht1
    · simp only [mqStep, e]
      exact inv1_aqStep h i f (.raNull f ev) _ rfl rfl rfl rfl rfl (fun _ => ⟨he, e⟩) ht2
    · cases pc' <;> first
        | exact absurd rfl hne
        | exact False.elim hc'
        | (simp only [mqStep, e]
           exact inv1_aqStep h i f (.raClaim f ev) _ rfl rfl rfl (by rw [← hpc, upd_id]) rfl (fun _ => ⟨he, ⟨_, e, hc'⟩⟩) ht)
  · -- raTaint
    rename_i f ev hpc
    rw [hpc] at hs ht
    exact inv1_ipcOnly h i (.raTainted f ev) _ rfl rfl rfl rfl rfl (fun _ => hs) (by cases ev <;> exact ht)
  · -- raSend
    rename_i f ev hpc
    rw [hpc] at hs ht
    obtain ⟨he, sl, k, hq, _⟩ := hs
    exact inv1_aqStep h i f (.raSent f ev) _ rfl rfl rfl rfl rfl
      (fun _ => ⟨he, (step_wrote s.aq i false f sl k hq).1⟩) (by cases ev <;> exact ht)
  · exact h
theorem inv1_senderPlain {s : S} (h : Inv1 s) (i : Nat) (hi : i < 3) : Inv1 (senderPlain i s) := by
  have hs := h.senders i hi
  have ht := h.target i
  unfold senderPlain
  split
  · -- evClaimed: *p = stamp
    rename_i st hpc
    rw [hpc] at hs
    obtain ⟨⟨sl, k, hq⟩, ha⟩ := hs
    have hw := step_hasSlot s.eq i false st sl k hq
    exact inv1_eqStep h i st (.evSend st) _ rfl rfl rfl rfl rfl (fun _ => ⟨⟨sl, k, hw.1, hw.2.1⟩, ha⟩) trivial
  · rename_i st hpc
    rw [hpc] at hs
    exact inv1_ipcOnly h i (.evTaint st) _ rfl rfl rfl rfl rfl (fun _ => hs) trivial
  · rename_i st hpc
    rw [hpc] at hs
    exact inv1_ipcOnly h i .idle _ rfl rfl rfl rfl rfl (fun _ => hs) trivial
  · -- evSent: enter fibre_run_atomic(&evtq->fibre)
    rename_i st hpc
    rw [hpc] at hs
    exact inv1_ipcOnly h i (.raClaim HANDLER (some st)) _ rfl rfl rfl rfl rfl (fun _ => ⟨hs.1, .idle, hs.2, trivial⟩) rfl
  · -- raClaimed: *queued_fibre = f
    rename_i f ev hpc
    rw [hpc] at hs ht
    obtain ⟨he, sl, k, hq⟩ := hs
    have hw := step_hasSlot s.aq i false f sl k hq
    exact inv1_aqStep h i f (.raSend f ev) _ rfl rfl rfl rfl rfl (fun _ => ⟨he, sl, k, hw.1, hw.2.1⟩) (by cases ev <;> exact ht)
  · rename_i f ev hpc
    rw [hpc] at hs ht
    exact inv1_ipcOnly h i (.raTaint f ev) _ rfl rfl rfl rfl rfl (fun _ => hs) (by cases ev <;> exact ht)
  · rename_i f ev hpc
    rw [hpc] at hs
    cases ev <;> exact inv1_ipcOnly h i .idle _ rfl rfl rfl rfl rfl (fun _ => hs) trivial
  · rename_i f ev hpc
    rw [hpc] at hs
    cases ev <;> exact inv1_ipcOnly h i .idle _ rfl rfl rfl rfl rfl (fun _ => hs) trivial
  · exact h

/-! ### the receiver's pc after one of its steps -/

theorem recv_from_idle (q : St) (h : q.recv = .idle) :
    (step q (.recv false)).recv = .idle ∨ ∃ sl k, (step q (.recv false)).recv = .hold sl k := by
  simp only [step, h, stepRecv, Bool.false_eq_true, if_false, stepReceive]
  split
  · exact Or.inl rfl
  · exact Or.inr ⟨_, _, rfl⟩

theorem recv_from_hold (q : St) (sl : BitVec 8) (k : Nat) (h : q.recv = .hold sl k) (p : Bool) :
    (step q (.recv p)).recv = .read sl k (q.payload sl.toNat) := by
  simp only [step, h, stepRecv]

theorem recv_from_read (q : St) (sl : BitVec 8) (k v : Nat) (h : q.recv = .read sl k v) (p : Bool) :
    (step q (.recv p)).recv = .idle := by
  simp only [step, h, stepRecv]

/-- control locations at which the main context holds no slot of either queue -/
def Calm : MPc → Prop
  | .recvd _ | .rel _ | .hRecvd | .hRel => False
  | _ => True

theorem aqRecvOk_calm {pc : MPc} (h : Calm pc) (r : RPc) : AqRecvOk pc r ↔ r = .idle := by
  cases pc <;> first | exact False.elim h | exact Iff.rfl

theorem eqRecvOk_calm {pc : MPc} (h : Calm pc) (r : RPc) : EqRecvOk pc r ↔ r = .idle := by
  cases pc <;> first | exact False.elim h | exact Iff.rfl

/-- the parts of the state that the scheduler's plain code (list manipulation, calling the entry point) leaves alone -/
structure Same (s s' : S) : Prop where
  aq : s'.aq = s.aq
  eq : s'.eq = s.eq
  ipc : s'.ipc = s.ipc
  kind : s'.kind = s.kind

/-- where the scheduler's plain code can leave the main context: between calls, or immediately before an atomic operation -/
def PostPc : MPc → Prop
  | .idle | .wake | .hRecv | .recv _ | .taintF => True
  | _ => False

theorem PostPc.calm {pc : MPc} (h : PostPc pc) : Calm pc := by
  cases pc <;> first | exact False.elim h | trivial

structure SchedFrame (s s' : S) : Prop extends Same s s' where
  post : PostPc s'.mpc

theorem SchedFrame.calm {s s' : S} (h : SchedFrame s s') : Calm s'.mpc := h.post.calm

theorem frame_finishPass {s0 s : S} (h : Same s0 s) (v : BitVec 32) : SchedFrame s0 (finishPass s v) :=
  ⟨⟨h.aq, h.eq, h.ipc, h.kind⟩, trivial⟩

theorem frame_returned {s0 s : S} (h : Same s0 s) (r : Ret) : SchedFrame s0 (returned s r) := by
  unfold returned
  split
  · exact frame_finishPass (by exact ⟨h.aq, h.eq, h.ipc, h.kind⟩) _
  · exact ⟨⟨h.aq, h.eq, h.ipc, h.kind⟩, trivial⟩

theorem frame_bodyStep {s0 s : S} (h : Same s0 s) : SchedFrame s0 (bodyStep s) := by
  unfold bodyStep
  split
  · exact frame_returned h _
  · exact ⟨⟨h.aq, h.eq, h.ipc, h.kind⟩, trivial⟩
  · exact ⟨⟨h.aq, h.eq, h.ipc, h.kind⟩, trivial⟩

theorem frame_bodyOf {s0 s : S} (h : Same s0 s) (c : Fid) : SchedFrame s0 (bodyOf s c) := by
  unfold bodyOf
  split
  · exact ⟨⟨h.aq, h.eq, h.ipc, h.kind⟩, trivial⟩
  · split
    · exact frame_returned (by exact ⟨h.aq, h.eq, h.ipc, h.kind⟩) _
    · exact frame_returned h _
  · split
    · exact frame_returned (by exact ⟨h.aq, h.eq, h.ipc, h.kind⟩) _
    · exact frame_returned (by exact ⟨h.aq, h.eq, h.ipc, h.kind⟩) _
  · exact frame_returned h _
  · exact frame_bodyStep h

theorem frame_body {s0 s : S} (h : Same s0 s) (c : Fid) : SchedFrame s0 (body s c) :=
  frame_bodyOf (by exact ⟨h.aq, h.eq, h.ipc, h.kind⟩) c

theorem frame_dispatch {s0 s : S} (h : Same s0 s) : SchedFrame s0 (dispatch s) := by
  unfold dispatch
  split
  · exact frame_body h _
  · exact ⟨⟨h.aq, h.eq, h.ipc, h.kind⟩, trivial⟩

theorem frame_afterUpdate {s0 s : S} (h : Same s0 s) : SchedFrame s0 (afterUpdate s) :=
  frame_dispatch (by exact ⟨h.aq, h.eq, h.ipc, h.kind⟩)

theorem frame_afterDrain {s0 s : S} (h : Same s0 s) (c : Cont) : SchedFrame s0 (afterDrain s c) := by
  cases c with
  | run f => exact ⟨⟨h.aq, h.eq, h.ipc, h.kind⟩, trivial⟩
  | kill f => exact ⟨⟨h.aq, h.eq, h.ipc, h.kind⟩, trivial⟩
  | pass1 =>
    simp only [afterDrain]
    split
    · exact frame_afterUpdate h
    · split
      · exact ⟨⟨h.aq, h.eq, h.ipc, h.kind⟩, trivial⟩
      · exact ⟨⟨h.aq, h.eq, h.ipc, h.kind⟩, trivial⟩
      · exact frame_afterUpdate (by exact ⟨h.aq, h.eq, h.ipc, h.kind⟩)
      · exact frame_afterUpdate h
  | pass2 c => exact frame_afterUpdate (by exact ⟨h.aq, h.eq, h.ipc, h.kind⟩)
  | brun g => exact frame_bodyStep (by exact ⟨h.aq, h.eq, h.ipc, h.kind⟩)
  | bkill g => exact frame_bodyStep (by exact ⟨h.aq, h.eq, h.ipc, h.kind⟩)

/-- the scheduler's plain code preserves `Inv1` when the main context holds no slot -/
theorem inv1_sched {s s' : S} (h : Inv1 s) (hf : SchedFrame s s') (ha : s.aq.recv = .idle) (he : s.eq.recv = .idle) : Inv1 s' :=
  inv1_mpcOnly h s' hf.aq hf.eq hf.ipc hf.kind ((aqRecvOk_calm hf.calm _).mpr ha) ((eqRecvOk_calm hf.calm _).mpr he)

theorem inv1_mainAtomic {s : S} (h : Inv1 s) : Inv1 (mainAtomic s) := by
  have ha := h.mainAq
  have he := h.mainEq
  unfold mainAtomic
  split
  · rename_i hpc; rw [hpc] at ha he
    exact inv1_mpcOnly h _ rfl rfl rfl rfl ha he
  · rename_i c hpc; rw [hpc] at ha he
    exact inv1_mainAq h _ rfl rfl rfl rfl (recv_from_idle _ ha) he
  · rename_i c hpc; rw [hpc] at ha he
    obtain ⟨sl, k, v, hr⟩ := ha
    exact inv1_mainAq h _ rfl rfl rfl rfl (recv_from_read _ sl k v hr _) he
  · rename_i hpc; rw [hpc] at ha he
    exact inv1_mpcOnly h _ rfl rfl rfl rfl ha he
  · rename_i hpc; rw [hpc] at ha he
    exact inv1_mainEq h _ rfl rfl rfl rfl ha (recv_from_idle _ he)
  · rename_i hpc; rw [hpc] at ha he
    obtain ⟨sl, k, v, hr⟩ := he
    exact inv1_mainEq h _ rfl rfl rfl rfl ha (recv_from_read _ sl k v hr _)
  · rename_i hpc; rw [hpc] at ha he
    exact inv1_mpcOnly h _ rfl rfl rfl rfl ha he
  · exact h

theorem inv1_mainPlain {s : S} (h : Inv1 s) : Inv1 (mainPlain s) := by
  have ha := h.mainAq
  have he := h.mainEq
  unfold mainPlain
  split
  · -- start c
    rename_i c hpc; rw [hpc] at ha he
    cases c with
    | next t =>
      simp only [startCall]
      unfold startNext
      split
      · exact inv1_mpcOnly h _ rfl rfl rfl rfl ha he
      · exact inv1_mpcOnly h _ rfl rfl rfl rfl ha he
    | run f => exact inv1_mpcOnly h _ rfl rfl rfl rfl ha he
    | kill f => exact inv1_mpcOnly h _ rfl rfl rfl rfl ha he
  · -- fastDone
    rename_i e hpc; rw [hpc] at ha he
    split
    · exact inv1_sched h (frame_dispatch ⟨rfl, rfl, rfl, rfl⟩) ha he
    · exact inv1_mpcOnly h _ rfl rfl rfl rfl ha he
  · -- recvd c
    rename_i c hpc; rw [hpc] at ha he
    split
    · rename_i sl k hr
      exact inv1_mainAq h _ rfl rfl rfl rfl ⟨sl, k, _, recv_from_hold _ sl k hr _⟩ he
    · rename_i hnh
      rcases ha with ha | ⟨sl, k, hr⟩
      · exact inv1_sched h (frame_afterDrain ⟨rfl, rfl, rfl, rfl⟩ c) ha he
      · exact absurd hr (hnh sl k)
  · rename_i c hpc; rw [hpc] at ha he
    exact inv1_mpcOnly h _ rfl rfl rfl rfl ha he
  · -- taintFd
    rename_i hpc; rw [hpc] at ha he
    refine inv1_sched h (frame_afterUpdate ?_) ha he
    unfold resetPriv
    split
    · exact ⟨rfl, rfl, rfl, rfl⟩
    · exact ⟨rfl, rfl, rfl, rfl⟩
  · -- hRecvd
    rename_i hpc; rw [hpc] at ha he
    split
    · rename_i sl k hr
      exact inv1_mainEq h _ rfl rfl rfl rfl ha ⟨sl, k, _, recv_from_hold _ sl k hr _⟩
    · rename_i hnh
      rcases he with he | ⟨sl, k, hr⟩
      · exact inv1_sched h (frame_returned ⟨rfl, rfl, rfl, rfl⟩ _) ha he
      · exact absurd hr (hnh sl k)
  · rename_i hpc; rw [hpc] at ha he
    exact inv1_mpcOnly h _ rfl rfl rfl rfl ha he
  · rename_i e hpc; rw [hpc] at ha he
    exact inv1_sched h (frame_finishPass ⟨rfl, rfl, rfl, rfl⟩ _) ha he
  · exact h

theorem inv1_enterMain {s : S} (h : Inv1 s) (c : MCall) (hidle : s.mpc = .idle) : Inv1 (enterMain c s) := by
  have ha := h.mainAq
  have he := h.mainEq
  rw [hidle] at ha he
  exact inv1_mpcOnly h _ rfl rfl rfl rfl ha he

theorem inv1_enterSender {s : S} (h : Inv1 s) (i : Nat) (c : ICall) (hi : i < 3) (hidle : s.ipc i = .idle) :
    Inv1 (enterSender i c s) := by
  have hs := h.senders i hi
  rw [hidle] at hs
  cases c with
  | runAtomic f => exact inv1_ipcOnly h i (.raClaim f none) _ rfl rfl rfl rfl rfl (fun _ => ⟨hs.1, .idle, hs.2, trivial⟩) trivial
  | eventSend st => exact inv1_ipcOnly h i (.evClaim st) _ rfl rfl rfl rfl rfl (fun _ => ⟨⟨.idle, hs.1, trivial⟩, hs.2⟩) trivial

theorem inv1_init (d : Nat) (kinds : List Kind) (budgets : List Nat) (h1 : 1 ≤ d) (h32 : d ≤ 32) :
    Inv1 (initWith d kinds budgets) := by
  refine ⟨mq_inv_init 8 8 3 (by omega) (by omega) (by omega) (by omega),
          mq_inv_init d 4 3 h1 h32 (by omega) (by omega), rfl, rfl, rfl, rfl, ?_, fun _ => trivial, rfl⟩
  intro i hi
  have : i = 0 ∨ i = 1 ∨ i = 2 := by omega
  rcases this with e | e | e <;> subst e <;> exact ⟨rfl, rfl⟩

/-- **`Inv1` holds in every reachable state** -/
theorem reach_inv1 {s : S} (hr : Reach s) : Inv1 s := by
  induction hr with
  | init d kinds budgets h1 h32 => exact inv1_init d kinds budgets h1 h32
  | mainPlain _ ih => exact inv1_mainPlain ih
  | mainAtomic _ ih => exact inv1_mainAtomic ih
  | senderPlain i hi _ ih => exact inv1_senderPlain ih i hi
  | senderAtomic i hi _ ih => exact inv1_senderAtomic ih i hi
  | enterMain c _ hidle ih => exact inv1_enterMain ih c hidle
  | enterSender i c hi _ hidle ih => exact inv1_enterSender ih i c hi hidle
  | tok t _ ih => exact inv1_same ih _ rfl rfl rfl rfl rfl
  | hung _ ih => exact inv1_same ih _ rfl rfl rfl rfl rfl
  | nops k _ ih => exact inv1_same ih _ rfl rfl rfl rfl rfl
  | newItem _ ih => exact inv1_same ih _ rfl rfl rfl rfl rfl
  | noYields _ ih => exact inv1_same ih _ rfl rfl rfl rfl rfl
  | setBody b r _ ih => exact inv1_same ih _ rfl rfl rfl rfl rfl
  | observe o _ _ ih => exact inv1_same ih _ rfl rfl rfl rfl rfl

end Librfn.Isr.L

import Librfn.Lemmas.SchedList
import Librfn.Lemmas.SchedTime
/-! The simulation relation between the concrete model of `fibre.c` and the abstract scheduler
specification, and its preservation by every function of the model (C01–C03). -/
namespace Librfn.Sched.L
open Librfn.Sched Librfn.Model.Fibre Librfn.Spec.Sched

/-! ## small list facts -/

theorem takeWhile_congr_mem {α : Type} {p q : α → Bool} : ∀ {l : List α}, (∀ x ∈ l, p x = q x) → l.takeWhile p = l.takeWhile q
  | [], _ => rfl
  | x :: xs, h => by
    have hx := h x (by simp)
    have ih := takeWhile_congr_mem (l := xs) (fun y hy => h y (by simp [hy]))
    simp only [List.takeWhile_cons, hx, ih]

theorem dropWhile_congr_mem {α : Type} {p q : α → Bool} : ∀ {l : List α}, (∀ x ∈ l, p x = q x) → l.dropWhile p = l.dropWhile q
  | [], _ => rfl
  | x :: xs, h => by
    have hx := h x (by simp)
    have ih := dropWhile_congr_mem (l := xs) (fun y hy => h y (by simp [hy]))
    simp only [List.dropWhile_cons, hx, ih]

theorem inj_of_nodup_map {α β : Type} (f : α → β) : ∀ {l : List α}, (l.map f).Nodup → ∀ x ∈ l, ∀ y ∈ l, f x = f y → x = y
  | [], _, _, hx, _, _, _ => by simp at hx
  | a :: as, hn, x, hx, y, hy, hxy => by
    rw [List.map_cons, List.nodup_cons] at hn
    rcases List.mem_cons.mp hx with rfl | hx' <;> rcases List.mem_cons.mp hy with rfl | hy'
    · rfl
    · exact absurd (hxy ▸ List.mem_map_of_mem hy') hn.1
    · exact absurd (hxy ▸ List.mem_map_of_mem hx') hn.1
    · exact inj_of_nodup_map f hn.2 x hx' y hy' hxy

theorem mem_fids {sl : Sl} {f : Fid} : f ∈ fids sl ↔ ∃ x ∈ sl, x.1 = f := by
  unfold fids; rw [List.mem_map]

theorem fids_filter_sublist (sl : Sl) (p : Fid × Int → Bool) : (fids (sl.filter p)).Sublist (fids sl) :=
  (List.filter_sublist).map _

theorem mem_fids_filter {sl : Sl} {p : Fid × Int → Bool} {f : Fid} (h : f ∈ fids (sl.filter p)) : f ∈ fids sl :=
  (fids_filter_sublist sl p).subset h

theorem erase_eq_filter_ne {l : List Fid} (hn : l.Nodup) (f : Fid) : l.erase f = l.filter (fun g => decide (g ≠ f)) := by
  rw [List.Nodup.erase_eq_filter hn]
  apply List.filter_congr
  intro x _
  by_cases e : x = f <;> simp [e]

/-- removing `f` from the timer queue = sorting the sleepers without `f` -/
theorem erase_fids_sort (sl : Sl) (f : Fid) (hn : (fids sl).Nodup) :
    (fids (sortByDue sl)).erase f = fids (sortByDue (sl.filter (fun x => decide (x.1 ≠ f)))) := by
  rw [erase_eq_filter_ne (nodup_fids_sortByDue.mpr hn)]
  unfold fids
  rw [List.filter_map, ← sortByDue_filter]
  rfl

/-! ## frame facts: what the queue operations leave alone -/

/-- everything except the three queues is unchanged -/
structure Frame (k k' : K) : Prop where
  current : k'.current = k.current
  state : k'.state = k.state
  now : k'.now = k.now
  priv : k'.priv = k.priv
  due : k'.due = k.due

theorem Frame.refl (k : K) : Frame k k := ⟨rfl, rfl, rfl, rfl, rfl⟩

theorem Frame.trans {k1 k2 k3 : K} (h12 : Frame k1 k2) (h23 : Frame k2 k3) : Frame k1 k3 :=
  ⟨h23.current.trans h12.current, h23.state.trans h12.state, h23.now.trans h12.now, h23.priv.trans h12.priv,
   h23.due.trans h12.due⟩

theorem frame_makeRunnable (k : K) (f : Fid) : Frame k (makeRunnable k f) ∧ (makeRunnable k f).atomq = k.atomq := by
  unfold makeRunnable
  split
  · exact ⟨Frame.refl k, rfl⟩
  · exact ⟨⟨rfl, rfl, rfl, rfl, rfl⟩, rfl⟩

theorem frame_foldl_makeRunnable (l : List Fid) (k : K) :
    Frame k (l.foldl makeRunnable k) ∧ (l.foldl makeRunnable k).atomq = k.atomq := by
  induction l generalizing k with
  | nil => exact ⟨Frame.refl k, rfl⟩
  | cons f fs ih =>
    have h1 := frame_makeRunnable k f
    have h2 := ih (makeRunnable k f)
    exact ⟨h1.1.trans h2.1, h2.2.trans h1.2⟩

theorem frame_handleAtomic (k : K) : Frame k (handleAtomic k) ∧ (handleAtomic k).atomq = [] := by
  unfold handleAtomic
  have h := frame_foldl_makeRunnable k.atomq { k with atomq := [] }
  exact ⟨⟨h.1.current, h.1.state, h.1.now, h.1.priv, h.1.due⟩, h.2⟩

theorem handleAtomic_of_empty (k : K) (h : k.atomq = []) : handleAtomic k = k := by
  unfold handleAtomic
  rw [h]
  cases k
  simp_all

theorem frame_fibreRun (k : K) (f : Fid) : Frame k (fibreRun k f) ∧ (fibreRun k f).atomq = [] := by
  unfold fibreRun
  have h1 := frame_handleAtomic k
  have h2 := frame_makeRunnable (handleAtomic k) f
  exact ⟨h1.1.trans h2.1, h2.2.trans h1.2⟩

/-! ## the queue part of the simulation relation -/

/-- `base` = time of the latest scheduling pass (none before the first) -/
structure SimQ (k : K) (a : A) (base : Option Int) : Prop where
  rq : k.runq = a.rq
  pend : k.atomq = a.pend
  /-- the timer queue is the sleepers sorted by (due time, registration) -/
  tq : k.timerq = fids (sortByDue a.sleepers)
  /-- the code holds every sleeper's due time mod 2^32 -/
  due : ∀ x ∈ a.sleepers, k.due x.1 = w32 x.2
  rqNodup : a.rq.Nodup
  slNodup : (fids a.sleepers).Nodup
  disj : ∀ f ∈ a.rq, f ∉ fids a.sleepers
  /-- every pending due time is after the latest pass time and less than 2^31 ticks after it -/
  window : ∀ x ∈ a.sleepers, ∃ T, base = some T ∧ T < x.2 ∧ x.2 < T + 2147483648

theorem SimQ.congr {k k' : K} {a a' : A} {b : Option Int} (h : SimQ k a b)
    (h1 : k'.runq = k.runq) (h2 : k'.timerq = k.timerq) (h3 : k'.atomq = k.atomq) (h4 : k'.due = k.due)
    (h5 : a'.rq = a.rq) (h6 : a'.pend = a.pend) (h7 : a'.sleepers = a.sleepers) : SimQ k' a' b := by
  refine ⟨?_, ?_, ?_, ?_, ?_, ?_, ?_, ?_⟩
  · rw [h1, h5]; exact h.rq
  · rw [h3, h6]; exact h.pend
  · rw [h2, h7]; exact h.tq
  · rw [h4, h7]; exact h.due
  · rw [h5]; exact h.rqNodup
  · rw [h7]; exact h.slNodup
  · rw [h5, h7]; exact h.disj
  · rw [h7]; exact h.window

theorem simQ_init : SimQ Model.Fibre.init Spec.Sched.init none := by
  refine ⟨rfl, rfl, rfl, ?_, List.nodup_nil, List.nodup_nil, ?_, ?_⟩
  · intro x hx; simp [Spec.Sched.init] at hx
  · intro x hx; simp [Spec.Sched.init] at hx
  · intro x hx; simp [Spec.Sched.init] at hx

/-- `make_runnable` refines "join the run queue at the tail unless queued; cancel the sleep" -/
theorem simQ_enqueue {k : K} {a : A} {b : Option Int} (h : SimQ k a b) (f : Fid) :
    SimQ (makeRunnable k f) (a.enqueue f) b := by
  unfold makeRunnable A.enqueue
  by_cases hf : f ∈ k.runq
  · have hf' : f ∈ a.rq := h.rq ▸ hf
    have hsl : a.sleepers.filter (fun x => decide (x.1 ≠ f)) = a.sleepers := by
      rw [List.filter_eq_self]
      intro x hx
      have := h.disj f hf'
      simp only [decide_eq_true_eq]
      intro e
      exact this (mem_fids.mpr ⟨x, hx, e⟩)
    rw [if_pos hf]
    simp only [hf', if_true, hsl]
    exact h
  · have hf' : f ∉ a.rq := h.rq ▸ hf
    rw [if_neg hf]
    simp only [hf', if_false]
    refine ⟨?_, h.pend, ?_, ?_, ?_, ?_, ?_, ?_⟩
    · show k.runq ++ [f] = a.rq ++ [f]
      rw [h.rq]
    · show k.timerq.erase f = _
      rw [h.tq, erase_fids_sort _ _ h.slNodup]
    · intro x hx
      exact h.due x (List.mem_filter.mp hx).1
    · show (a.rq ++ [f]).Nodup
      rw [List.nodup_append]
      refine ⟨h.rqNodup, by simp, ?_⟩
      intro x hx y hy
      simp only [List.mem_singleton] at hy
      subst hy
      intro e; subst e; exact hf' hx
    · exact h.slNodup.sublist (fids_filter_sublist _ _)
    · intro g hg
      show g ∉ fids (a.sleepers.filter _)
      rcases List.mem_append.mp hg with hg | hg
      · intro hm; exact h.disj g hg (mem_fids_filter hm)
      · simp only [List.mem_singleton] at hg
        subst hg
        intro hm
        obtain ⟨x, hx, e⟩ := mem_fids.mp hm
        have := (List.mem_filter.mp hx).2
        simp only [decide_eq_true_eq] at this
        exact this e
    · intro x hx
      exact h.window x (List.mem_filter.mp hx).1

theorem simQ_foldl {b : Option Int} (l : List Fid) : ∀ (k : K) (a : A), SimQ k a b →
    SimQ (l.foldl makeRunnable k) (l.foldl A.enqueue a) b := by
  induction l with
  | nil => intro k a h; exact h
  | cons f fs ih => intro k a h; exact ih _ _ (simQ_enqueue h f)

/-- `handle_atomic_runq` refines "accepted requests join in their order of arrival" -/
theorem simQ_drain {k : K} {a : A} {b : Option Int} (h : SimQ k a b) : SimQ (handleAtomic k) a.drain b := by
  unfold handleAtomic A.drain
  rw [h.pend]
  apply simQ_foldl
  exact ⟨h.rq, rfl, h.tq, h.due, h.rqNodup, h.slNodup, h.disj, h.window⟩

theorem simQ_run {k : K} {a : A} {b : Option Int} (h : SimQ k a b) (f : Fid) : SimQ (fibreRun k f) (a.run f) b :=
  simQ_enqueue (simQ_drain h) f

/-- `fibre_run_atomic` refines "accepted unless 8 are outstanding" -/
theorem simQ_runAtomic {k : K} {a : A} {b : Option Int} (h : SimQ k a b) (f : Fid) :
    (fibreRunAtomic k f).2 = (a.runAtomic f).2 ∧ SimQ (fibreRunAtomic k f).1 (a.runAtomic f).1 b
    ∧ Frame k (fibreRunAtomic k f).1 := by
  unfold fibreRunAtomic A.runAtomic
  rw [h.pend]
  by_cases hl : a.pend.length < 8
  · simp only [hl, if_true]
    refine ⟨trivial, ?_, ⟨rfl, rfl, rfl, rfl, rfl⟩⟩
    exact ⟨h.rq, rfl, h.tq, h.due, h.rqNodup, h.slNodup, h.disj, h.window⟩
  · simp only [hl, if_false]
    exact ⟨trivial, h, Frame.refl k⟩

theorem frame_fibreKill (k : K) (f : Fid) : Frame k (fibreKill k f).1 := by
  unfold fibreKill
  have h := (frame_handleAtomic k).1
  exact ⟨h.current, h.state, h.now, h.priv, h.due⟩

/-- `fibre_kill` refines "withdraw exactly the pending run requests and timeout; report whether there were any" -/
theorem simQ_kill {k : K} {a : A} {b : Option Int} (h : SimQ k a b) (f : Fid) :
    (fibreKill k f).2 = (a.kill f).2 ∧ SimQ (fibreKill k f).1 (a.kill f).1 b := by
  have h1 := simQ_drain h
  unfold fibreKill A.kill
  refine ⟨?_, ?_⟩
  · show (decide (f ∈ (handleAtomic k).runq) || decide (f ∈ (handleAtomic k).timerq))
        = (decide (f ∈ a.drain.rq) || a.drain.sleepers.any (fun x => decide (x.1 = f)))
    rw [h1.rq, h1.tq]
    congr 1
    rw [Bool.eq_iff_iff]
    simp only [decide_eq_true_eq, List.any_eq_true]
    rw [mem_fids_sortByDue, mem_fids]
  · refine ⟨?_, h1.pend, ?_, ?_, ?_, ?_, ?_, ?_⟩
    · show (handleAtomic k).runq.erase f = a.drain.rq.filter _
      rw [h1.rq, erase_eq_filter_ne h1.rqNodup]
    · show (handleAtomic k).timerq.erase f = _
      rw [h1.tq, erase_fids_sort _ _ h1.slNodup]
    · intro x hx
      exact h1.due x (List.mem_filter.mp hx).1
    · exact h1.rqNodup.sublist List.filter_sublist
    · exact h1.slNodup.sublist (fids_filter_sublist _ _)
    · intro g hg hm
      exact h1.disj g (List.mem_filter.mp hg).1 (mem_fids_filter hm)
    · intro x hx
      exact h1.window x (List.mem_filter.mp hx).1

/-! ## the timer queue -/

theorem timerqLoop_eq (due : Fid → BitVec 32) (now : BitVec 32) : ∀ (tq rq : List Fid),
    timerqLoop due now tq rq
      = (tq.dropWhile (fun f => notAfter (due f) now), rq ++ tq.takeWhile (fun f => notAfter (due f) now))
  | [], rq => by simp [timerqLoop]
  | f :: r, rq => by
    unfold timerqLoop
    by_cases h : notAfter (due f) now = true
    · rw [if_pos h, timerqLoop_eq due now r (rq ++ [f])]
      simp [List.dropWhile_cons, List.takeWhile_cons, h]
    · rw [if_neg h]
      simp [List.dropWhile_cons, List.takeWhile_cons, h]

/-- `handle_timerq` at pass time `T` refines "the sleepers with D ≤ T join the run queue in (D, registration)
    order"; afterwards every pending due time lies in (T, T + 2^31) -/
theorem simQ_handleTimerq {k : K} {a : A} {b : Option Int} {T : Int} (h : SimQ k a b) (hnow : k.now = w32 T)
    (hw : ∀ x ∈ a.sleepers, -2147483648 ≤ x.2 - T ∧ x.2 - T < 2147483648) :
    SimQ (handleTimerq k) (a.expire T) (some T) := by
  unfold A.expire
  have hpred : ∀ x ∈ sortByDue a.sleepers,
      ((fun f => notAfter (k.due f) k.now) ∘ Prod.fst) x = (fun x : Fid × Int => decide (x.2 ≤ T)) x := by
    intro x hx
    have hx' := mem_sortByDue.mp hx
    show notAfter (k.due x.1) k.now = decide (x.2 ≤ T)
    rw [h.due x hx', hnow, notAfter_w32 _ _ (hw x hx')]
  have hnot : (fun x : Fid × Int => !decide (x.2 ≤ T)) = (fun x : Fid × Int => decide (¬ x.2 ≤ T)) := by
    funext x; rw [decide_not]
  unfold handleTimerq
  rw [timerqLoop_eq]
  refine ⟨?_, h.pend, ?_, ?_, ?_, ?_, ?_, ?_⟩
  · show k.runq ++ k.timerq.takeWhile _ = a.rq ++ _
    rw [h.rq, h.tq]
    unfold fids
    rw [List.takeWhile_map, takeWhile_congr_mem hpred, takeWhile_le_sorted (sorted_sortByDue _), sortByDue_filter]
  · show k.timerq.dropWhile _ = _
    rw [h.tq]
    unfold fids
    rw [List.dropWhile_map, dropWhile_congr_mem hpred, dropWhile_le_sorted (sorted_sortByDue _), sortByDue_filter, hnot]
  · intro x hx
    exact h.due x (List.mem_filter.mp hx).1
  · show (a.rq ++ fids (sortByDue (a.sleepers.filter _))).Nodup
    rw [List.nodup_append]
    refine ⟨h.rqNodup, nodup_fids_sortByDue.mpr (h.slNodup.sublist (fids_filter_sublist _ _)), ?_⟩
    intro x hx y hy e
    subst e
    exact h.disj x hx (mem_fids_filter (mem_fids_sortByDue.mp hy))
  · exact h.slNodup.sublist (fids_filter_sublist _ _)
  · intro g hg hm
    show False
    rcases List.mem_append.mp hg with hg | hg
    · exact h.disj g hg (mem_fids_filter hm)
    · have hg' : g ∈ fids (a.sleepers.filter (fun x => decide (x.2 ≤ T))) := mem_fids_sortByDue.mp hg
      obtain ⟨x, hx, ex⟩ := mem_fids.mp hg'
      obtain ⟨y, hy, ey⟩ := mem_fids.mp hm
      have hxy := inj_of_nodup_map Prod.fst h.slNodup x (List.mem_filter.mp hx).1 y (List.mem_filter.mp hy).1 (ex.trans ey.symm)
      have h1 := (List.mem_filter.mp hx).2
      have h2 := (List.mem_filter.mp hy).2
      subst hxy
      simp only [decide_eq_true_eq] at h1 h2
      exact h2 h1
  · intro x hx
    have h2 := (List.mem_filter.mp hx).2
    simp only [decide_eq_true_eq] at h2
    have := hw x (List.mem_filter.mp hx).1
    obtain ⟨T0, _, _, hlt⟩ := h.window x (List.mem_filter.mp hx).1
    exact ⟨T, rfl, by omega, by omega⟩

theorem frame_handleTimerq (k : K) : Frame k (handleTimerq k) ∧ (handleTimerq k).atomq = k.atomq :=
  ⟨⟨rfl, rfl, rfl, rfl, rfl⟩, rfl⟩

/-- `get_next_task` refines "pop the head of the run queue" -/
theorem simQ_pop {k : K} {a : A} {b : Option Int} (h : SimQ k a b) {d : Fid} {rest : List Fid} (hrq : a.rq = d :: rest)
    (a' : A) (h5 : a'.rq = rest) (h6 : a'.pend = a.pend) (h7 : a'.sleepers = a.sleepers) :
    SimQ (getNextTask k) a' b ∧ (getNextTask k).current = some d := by
  have hk : k.runq = d :: rest := h.rq.trans hrq
  unfold getNextTask
  rw [hk]
  refine ⟨⟨?_, ?_, ?_, ?_, ?_, ?_, ?_, ?_⟩, rfl⟩
  · exact h5.symm
  · rw [h6]; exact h.pend
  · rw [h7]; exact h.tq
  · rw [h7]; exact h.due
  · rw [h5]; have := h.rqNodup; rw [hrq, List.nodup_cons] at this; exact this.2
  · rw [h7]; exact h.slNodup
  · rw [h5, h7]; intro f hf; exact h.disj f (by rw [hrq]; exact List.mem_cons_of_mem _ hf)
  · rw [h7]; exact h.window

theorem getNextTask_nil {k : K} (h : k.runq = []) : getNextTask k = { k with current := none } := by
  unfold getNextTask; rw [h]

theorem frame_getNextTask (k : K) : (getNextTask k).state = k.state ∧ (getNextTask k).now = k.now
    ∧ (getNextTask k).priv = k.priv ∧ (getNextTask k).due = k.due ∧ (getNextTask k).atomq = k.atomq
    ∧ (getNextTask k).timerq = k.timerq := by
  unfold getNextTask; split <;> exact ⟨rfl, rfl, rfl, rfl, rfl, rfl⟩

/-! ## fibre_timeout -/

theorem insertScan_fids (due : Fid → BitVec 32) (c : Fid) (D : Int) (hc : due c = w32 D) : ∀ (s : Sl),
    (∀ x ∈ s, due x.1 = w32 x.2 ∧ -2147483648 ≤ D - x.2 ∧ D - x.2 < 2147483648) →
    insertScan due c (fids s) = fids (insByDue (c, D) s)
  | [], _ => rfl
  | y :: ys, h => by
    have hy := h y (by simp)
    have ih := insertScan_fids due c D hc ys (fun x hx => h x (by simp [hx]))
    show insertScan due c (y.1 :: fids ys) = _
    unfold insertScan insByDue
    rw [dueGe_w32 due c y.1 D y.2 hc hy.1 hy.2]
    by_cases hle : y.2 ≤ D
    · simp only [hle, decide_true, if_true]; rw [ih]; rfl
    · simp only [hle, decide_false, Bool.false_eq_true, if_false]; rfl

theorem insertSorted_fids (due : Fid → BitVec 32) (c : Fid) (D : Int) (hc : due c = w32 D) (s : Sl) (hs : Sorted s)
    (h : ∀ x ∈ s, due x.1 = w32 x.2 ∧ -2147483648 ≤ D - x.2 ∧ D - x.2 < 2147483648) :
    insertSorted due c (fids s) = fids (insByDue (c, D) s) := by
  unfold insertSorted
  have hlast : (fids s).getLast? = s.getLast?.map Prod.fst := by unfold fids; rw [List.getLast?_map]
  rw [hlast]
  cases hl : s.getLast? with
  | none =>
    have : s = [] := List.getLast?_eq_none_iff.mp hl
    subst this; rfl
  | some t =>
    have ht : t ∈ s := List.mem_of_getLast? hl
    have htw := h t ht
    simp only [Option.map_some]
    rw [dueGe_w32 due c t.1 D t.2 hc htw.1 htw.2]
    by_cases hle : t.2 ≤ D
    · simp only [hle, decide_true, if_true]
      have hall : ∀ z ∈ s, z.2 ≤ D := by
        intro z hz
        obtain ⟨pre, hpre⟩ : ∃ pre, s = pre ++ [t] := by
          have := List.getLast?_eq_some_iff.mp hl
          exact this
        rw [hpre] at hz hs
        rcases List.mem_append.mp hz with hz | hz
        · unfold Sorted at hs
          rw [List.pairwise_append] at hs
          have := hs.2.2 z hz t (by simp); omega
        · simp only [List.mem_singleton] at hz; subst hz; exact hle
      rw [insByDue_back (x := (c, D)) hall]
      unfold fids; simp
    · simp only [hle, decide_false, Bool.false_eq_true, if_false]
      exact insertScan_fids due c D hc s h

theorem frame_fibreTimeout (k : K) (c : Fid) (d : BitVec 32) :
    (fibreTimeout k c d).1.current = k.current ∧ (fibreTimeout k c d).1.state = k.state
    ∧ (fibreTimeout k c d).1.now = k.now ∧ (fibreTimeout k c d).1.priv = k.priv := by
  unfold fibreTimeout
  split
  · exact ⟨rfl, rfl, rfl, rfl⟩
  · dsimp only
    split <;> exact ⟨rfl, rfl, rfl, rfl⟩

/-- `fibre_timeout(D)` by the running fibre `c` refines the specification's timeout; `c` must not already be
    asleep when the timeout is not satisfied (at most one unsatisfied timeout per dispatch) -/
theorem simQ_timeout {k : K} {a : A} {T D : Int} {c : Fid} (h : SimQ k a (some T)) (hnow : k.now = w32 T)
    (hwin : T - 2147483648 < D ∧ D < T + 2147483648) (hc : T < D → c ∉ fids a.sleepers) :
    (fibreTimeout k c (w32 D)).2 = (a.timeout c T D).2
    ∧ SimQ (fibreTimeout k c (w32 D)).1 (a.timeout c T D).1 (some T) := by
  unfold fibreTimeout A.timeout
  rw [hnow, notAfter_w32 D T (by omega)]
  by_cases hle : D ≤ T
  · simp only [hle, decide_true, if_true]
    exact ⟨trivial, h⟩
  · simp only [hle, decide_false, Bool.false_eq_true, if_false]
    have hcs := hc (by omega)
    have hdue : ∀ x ∈ a.sleepers, upd k.due c (w32 D) x.1 = w32 x.2 := by
      intro x hx
      have : x.1 ≠ c := fun e => hcs (mem_fids.mpr ⟨x, hx, e⟩)
      unfold upd; rw [if_neg this]; exact h.due x hx
    by_cases hrq : c ∈ k.runq
    · have hrq' : c ∈ a.rq := h.rq ▸ hrq
      simp only [hrq, hrq', if_true]
      exact ⟨trivial, ⟨h.rq, h.pend, h.tq, hdue, h.rqNodup, h.slNodup, h.disj, h.window⟩⟩
    · have hrq' : c ∉ a.rq := h.rq ▸ hrq
      simp only [hrq, hrq', if_false]
      refine ⟨trivial, ⟨h.rq, h.pend, ?_, ?_, h.rqNodup, ?_, ?_, ?_⟩⟩
      · show insertSorted (upd k.due c (w32 D)) c k.timerq = fids (sortByDue (a.sleepers ++ [(c, D)]))
        rw [sortByDue_snoc, h.tq]
        apply insertSorted_fids _ _ _ (by unfold upd; simp) _ (sorted_sortByDue _)
        intro x hx
        have hx' := mem_sortByDue.mp hx
        obtain ⟨T0, hT0, h1, h2⟩ := h.window x hx'
        have : T0 = T := by injection hT0 with e; exact e.symm
        subst this
        exact ⟨hdue x hx', by omega, by omega⟩
      · intro x hx
        show upd k.due c (w32 D) x.1 = w32 x.2
        rcases List.mem_append.mp hx with hx | hx
        · exact hdue x hx
        · simp only [List.mem_singleton] at hx; subst hx; unfold upd; simp
      · show (fids (a.sleepers ++ [(c, D)])).Nodup
        unfold fids
        rw [List.map_append, List.nodup_append]
        refine ⟨h.slNodup, by simp, ?_⟩
        intro x hx y hy e
        simp only [List.map_cons, List.map_nil, List.mem_singleton] at hy
        subst hy; subst e
        exact hcs hx
      · intro g hg hm
        unfold fids at hm
        rw [List.map_append, List.mem_append] at hm
        rcases hm with hm | hm
        · exact h.disj g hg hm
        · simp only [List.map_cons, List.map_nil, List.mem_singleton] at hm
          subst hm; exact hrq' hg
      · intro x hx
        rcases List.mem_append.mp hx with hx | hx
        · exact h.window x hx
        · simp only [List.mem_singleton] at hx; subst hx
          exact ⟨T, rfl, by omega, by omega⟩

/-! ## the returned wake-up time -/

/-- `get_next_wakeup` refines C03's formula (the `yielded` shortcut is handled by the caller) -/
theorem wake_refines {k : K} {a : A} {T : Int} (h : SimQ k a (some T)) (hnow : k.now = w32 T) :
    getNextWakeup k = w32 (a.wake T false) := by
  unfold getNextWakeup A.wake
  rw [h.rq, h.pend, hnow]
  by_cases h1 : a.rq ≠ [] ∨ a.pend ≠ []
  · have h1' : a.pend ≠ [] ∨ a.rq ≠ [] := h1.symm
    simp only [h1', if_true]
    have : ((false = true) ∨ a.rq ≠ [] ∨ a.pend ≠ []) := Or.inr h1
    rw [if_pos this]
  · have h1' : ¬ (a.pend ≠ [] ∨ a.rq ≠ []) := fun e => h1 e.symm
    have : ¬ ((false = true) ∨ a.rq ≠ [] ∨ a.pend ≠ []) := by
      intro e; rcases e with e | e
      · cases e
      · exact h1 e
    rw [if_neg h1', if_neg this, h.tq, minDue_eq_head]
    cases hs : sortByDue a.sleepers with
    | nil =>
      simp only [fids, List.map_nil, List.head?_nil, Option.map_none]
      rw [w32_add, w32_unbounded]
    | cons x xs =>
      simp only [fids, List.map_cons, List.head?_cons, Option.map_some]
      exact h.due x (mem_sortByDue.mp (hs ▸ List.mem_cons_self))

/-! ## what the specification's queue operations leave alone -/

/-- yielder, self and priv are untouched and no sleeper is added -/
structure AFrame (a a' : A) : Prop where
  yielder : a'.yielder = a.yielder
  self : a'.self = a.self
  priv : a'.priv = a.priv
  sub : ∀ x ∈ a'.sleepers, x ∈ a.sleepers

theorem AFrame.refl (a : A) : AFrame a a := ⟨rfl, rfl, rfl, fun _ h => h⟩

theorem AFrame.trans {a1 a2 a3 : A} (h12 : AFrame a1 a2) (h23 : AFrame a2 a3) : AFrame a1 a3 :=
  ⟨h23.yielder.trans h12.yielder, h23.self.trans h12.self, h23.priv.trans h12.priv, fun x hx => h12.sub x (h23.sub x hx)⟩

theorem aframe_enqueue (a : A) (f : Fid) : AFrame a (a.enqueue f) ∧ (a.enqueue f).pend = a.pend :=
  ⟨⟨rfl, rfl, rfl, fun _ hx => (List.mem_filter.mp hx).1⟩, rfl⟩

theorem aframe_foldl_enqueue (l : List Fid) (a : A) :
    AFrame a (l.foldl A.enqueue a) ∧ (l.foldl A.enqueue a).pend = a.pend := by
  induction l generalizing a with
  | nil => exact ⟨AFrame.refl a, rfl⟩
  | cons f fs ih =>
    have h1 := aframe_enqueue a f
    have h2 := ih (a.enqueue f)
    exact ⟨h1.1.trans h2.1, h2.2.trans h1.2⟩

theorem aframe_drain (a : A) : AFrame a a.drain ∧ a.drain.pend = [] := by
  unfold A.drain
  have h := aframe_foldl_enqueue a.pend { a with pend := [] }
  exact ⟨⟨h.1.yielder, h.1.self, h.1.priv, h.1.sub⟩, h.2⟩

theorem aframe_run (a : A) (f : Fid) : AFrame a (a.run f) :=
  (aframe_drain a).1.trans (aframe_enqueue _ f).1

theorem aframe_kill (a : A) (f : Fid) : AFrame a (a.kill f).1 := by
  have h := (aframe_drain a).1
  unfold A.kill
  exact ⟨h.yielder, h.self, h.priv, fun x hx => h.sub x (List.mem_filter.mp hx).1⟩

theorem aframe_runAtomic (a : A) (f : Fid) : AFrame a (a.runAtomic f).1 := by
  unfold A.runAtomic
  split
  · exact ⟨rfl, rfl, rfl, fun _ h => h⟩
  · exact AFrame.refl a

theorem mem_fids_of_sub {a a' : A} (h : ∀ x ∈ a'.sleepers, x ∈ a.sleepers) {c : Fid} (hc : c ∈ fids a'.sleepers) :
    c ∈ fids a.sleepers := by
  obtain ⟨x, hx, e⟩ := mem_fids.mp hc
  exact mem_fids.mpr ⟨x, h x hx, e⟩

/-! ## the dispatched fibre's script -/

/-- the relation while a fibre is running in a pass at time `T` -/
structure Mid (k : K) (a : A) (T : Int) : Prop where
  q : SimQ k a (some T)
  now : k.now = w32 T
  priv : ∀ f, a.priv f = k.priv f

/-- **every call the running fibre makes returns what the specification says** (booleans of
    fibre_run_atomic / fibre_kill / fibre_timeout), for every script within the scope -/
theorem sim_script (c : Fid) (T : Int) : ∀ (s : List (Call Int)) (k : K) (a : A), Mid k a T →
    dueInWindow T s = true → unsatisfied T s ≤ 1 → (c ∈ fids a.sleepers → unsatisfied T s = 0) →
    (runScript c k (s.map (Call.map w32))).2 = (A.script c T a s).2
    ∧ Mid (runScript c k (s.map (Call.map w32))).1 (A.script c T a s).1 T
    ∧ (runScript c k (s.map (Call.map w32))).1.current = k.current
    ∧ (A.script c T a s).1.yielder = a.yielder ∧ (A.script c T a s).1.self = a.self
  | [], k, a, h, _, _, _ => ⟨rfl, h, rfl, rfl, rfl⟩
  | .run g :: r, k, a, h, hw, hu, hc => by
    have hf := (frame_fibreRun k g).1
    have haf := aframe_run a g
    have hm : Mid (fibreRun k g) (a.run g) T :=
      ⟨simQ_run h.q g, hf.now.trans h.now, fun f => by rw [haf.priv, hf.priv]; exact h.priv f⟩
    have ih := sim_script c T r (fibreRun k g) (a.run g) hm hw hu (fun hcs => hc (mem_fids_of_sub haf.sub hcs))
    simp only [List.map_cons, Call.map, runScript, A.script]
    exact ⟨by rw [ih.1], ih.2.1, ih.2.2.1.trans hf.current, ih.2.2.2.1.trans haf.yielder, ih.2.2.2.2.trans haf.self⟩
  | .runAtomic g :: r, k, a, h, hw, hu, hc => by
    have hs := simQ_runAtomic h.q g
    have hf := hs.2.2
    have haf := aframe_runAtomic a g
    have hm : Mid (fibreRunAtomic k g).1 (a.runAtomic g).1 T :=
      ⟨hs.2.1, hf.now.trans h.now, fun f => by rw [haf.priv, hf.priv]; exact h.priv f⟩
    have ih := sim_script c T r _ _ hm hw hu (fun hcs => hc (mem_fids_of_sub haf.sub hcs))
    simp only [List.map_cons, Call.map, runScript, A.script]
    exact ⟨by rw [ih.1, hs.1], ih.2.1, ih.2.2.1.trans hf.current, ih.2.2.2.1.trans haf.yielder, ih.2.2.2.2.trans haf.self⟩
  | .kill g :: r, k, a, h, hw, hu, hc => by
    have hs := simQ_kill h.q g
    have hf := frame_fibreKill k g
    have haf := aframe_kill a g
    have hm : Mid (fibreKill k g).1 (a.kill g).1 T :=
      ⟨hs.2, hf.now.trans h.now, fun f => by rw [haf.priv, hf.priv]; exact h.priv f⟩
    have ih := sim_script c T r _ _ hm hw hu (fun hcs => hc (mem_fids_of_sub haf.sub hcs))
    simp only [List.map_cons, Call.map, runScript, A.script]
    exact ⟨by rw [ih.1, hs.1], ih.2.1, ih.2.2.1.trans hf.current, ih.2.2.2.1.trans haf.yielder, ih.2.2.2.2.trans haf.self⟩
  | .timeout D :: r, k, a, h, hw, hu, hc => by
    simp only [dueInWindow, Bool.and_eq_true, decide_eq_true_eq] at hw
    simp only [unsatisfied] at hu hc
    have hcD : T < D → c ∉ fids a.sleepers := by
      intro hlt hcs
      have := hc hcs
      rw [if_neg (by omega)] at this
      omega
    have hs := simQ_timeout h.q h.now hw.1 hcD
    have hf := frame_fibreTimeout k c (w32 D)
    have hyield : (a.timeout c T D).1.yielder = a.yielder ∧ (a.timeout c T D).1.self = a.self
        ∧ (a.timeout c T D).1.priv = a.priv := by
      unfold A.timeout
      split
      · exact ⟨rfl, rfl, rfl⟩
      · dsimp only; split <;> exact ⟨rfl, rfl, rfl⟩
    have hm : Mid (fibreTimeout k c (w32 D)).1 (a.timeout c T D).1 T :=
      ⟨hs.2, hf.2.2.1.trans h.now, fun f => by rw [hyield.2.2, hf.2.2.2]; exact h.priv f⟩
    have hu' : unsatisfied T r ≤ 1 := by omega
    have hc' : c ∈ fids (a.timeout c T D).1.sleepers → unsatisfied T r = 0 := by
      by_cases hle : D ≤ T
      · intro hcs
        have : (a.timeout c T D).1 = a := by unfold A.timeout; rw [if_pos hle]
        rw [this] at hcs
        have := hc hcs
        omega
      · intro _
        rw [if_neg hle] at hu
        omega
    have ih := sim_script c T r _ _ hm hw.2 hu' hc'
    simp only [List.map_cons, Call.map, runScript, A.script]
    exact ⟨by rw [ih.1, hs.1], ih.2.1, ih.2.2.1.trans hf.1, ih.2.2.2.1.trans hyield.1, ih.2.2.2.2.trans hyield.2.1⟩
  | .setPriv l :: r, k, a, h, hw, hu, hc => by
    have hm : Mid { k with priv := upd k.priv c l } { a with priv := fun g => if g = c then l else a.priv g } T :=
      ⟨h.q.congr rfl rfl rfl rfl rfl rfl rfl, h.now, fun f => by
        show (if f = c then l else a.priv f) = upd k.priv c l f
        unfold upd; rw [h.priv f]⟩
    have ih := sim_script c T r _ _ hm hw hu hc
    simp only [List.map_cons, Call.map, runScript, A.script]
    exact ⟨by rw [ih.1], ih.2.1, ih.2.2.1, ih.2.2.2.1, ih.2.2.2.2⟩

/-! ## the full relation between two calls of the history -/

structure Sim (k : K) (a : A) (last : Option Int) : Prop where
  q : SimQ k a last
  /-- "the fibre that yielded in the previous pass" is `kernel.current` when `kernel.state` is YIELDED -/
  yld : a.yielder = if k.state = .yielded then k.current else none
  self : a.self = k.current
  /-- the code resets `priv` of an exited / failed fibre lazily, at the start of the next pass -/
  priv : ∀ f, a.priv f = if k.current = some f ∧ (k.state = .exited ∨ k.state = .failed) then 0 else k.priv f

theorem sim_init : Sim Model.Fibre.init Spec.Sched.init none :=
  ⟨simQ_init, rfl, rfl, fun _ => rfl⟩

/-- `update_current_state` (after the drain) refines "the previous yielder joins the queue"; afterwards
    the lazily reset `priv` is up to date -/
theorem sim_updateCurrent {k : K} {a : A} {b : Option Int} (h : Sim k a b) (hat : k.atomq = []) :
    SimQ (match k.current with | some c => updateCurrent k c | none => k) a.requeueYielder b
    ∧ (∀ f, a.requeueYielder.priv f = (match k.current with | some c => updateCurrent k c | none => k).priv f)
    ∧ a.requeueYielder.yielder = none
    ∧ (match k.current with | some c => updateCurrent k c | none => k).now = k.now
    ∧ (match k.current with | some c => updateCurrent k c | none => k).atomq = []
    ∧ (∀ x ∈ a.requeueYielder.sleepers, x ∈ a.sleepers) := by
  cases hc : k.current with
  | none =>
    have hy : a.yielder = none := by rw [h.yld, hc]; split <;> rfl
    have hr : a.requeueYielder = a := by unfold A.requeueYielder; rw [hy]
    rw [hr]
    refine ⟨h.q, ?_, hy, rfl, hat, fun _ hx => hx⟩
    intro f
    rw [h.priv f, hc]
    simp
  | some c =>
    dsimp only
    unfold updateCurrent
    cases hst : k.state with
    | yielded =>
      have hy : a.yielder = some c := by rw [h.yld, hc, hst]; rfl
      have hr : a.requeueYielder = { a.enqueue c with yielder := none } := by unfold A.requeueYielder; rw [hy]
      rw [hr]
      dsimp only
      have hfr : fibreRun k c = makeRunnable k c := by unfold fibreRun; rw [handleAtomic_of_empty k hat]
      rw [hfr]
      have hfm := frame_makeRunnable k c
      refine ⟨(simQ_enqueue h.q c).congr rfl rfl rfl rfl rfl rfl rfl, ?_, rfl, hfm.1.now, hfm.2.trans hat,
              fun x hx => (List.mem_filter.mp hx).1⟩
      intro f
      show a.priv f = (makeRunnable k c).priv f
      rw [hfm.1.priv, h.priv f, hst]
      simp
    | waiting =>
      have hy : a.yielder = none := by rw [h.yld, hst]; rfl
      have hr : a.requeueYielder = a := by unfold A.requeueYielder; rw [hy]
      rw [hr]
      dsimp only
      refine ⟨h.q, ?_, hy, rfl, hat, fun _ hx => hx⟩
      intro f; rw [h.priv f, hst]; simp
    | exited =>
      have hy : a.yielder = none := by rw [h.yld, hst]; rfl
      have hr : a.requeueYielder = a := by unfold A.requeueYielder; rw [hy]
      rw [hr]
      dsimp only
      refine ⟨h.q.congr rfl rfl rfl rfl rfl rfl rfl, ?_, hy, rfl, hat, fun _ hx => hx⟩
      intro f
      show a.priv f = upd k.priv c 0 f
      rw [h.priv f, hc, hst]
      unfold upd
      by_cases e : f = c
      · subst e; simp
      · have : ¬ (some c = some f) := fun e' => e (Option.some.inj e').symm
        simp [e, this]
    | failed =>
      have hy : a.yielder = none := by rw [h.yld, hst]; rfl
      have hr : a.requeueYielder = a := by unfold A.requeueYielder; rw [hy]
      rw [hr]
      dsimp only
      refine ⟨h.q.congr rfl rfl rfl rfl rfl rfl rfl, ?_, hy, rfl, hat, fun _ hx => hx⟩
      intro f
      show a.priv f = upd k.priv c 0 f
      rw [h.priv f, hc, hst]
      unfold upd
      by_cases e : f = c
      · subst e; simp
      · have : ¬ (some c = some f) := fun e' => e (Option.some.inj e').symm
        simp [e, this]

/-! ## the part of a pass before the dispatch -/

/-- the state between the queue updates and `get_next_task` -/
def beforePop (k : K) : K :=
  handleTimerq (match (handleAtomic k).current with
    | some c => updateCurrent (handleAtomic k) c
    | none => handleAtomic k)

theorem prelude_eq (k : K) : prelude k =
    if k.state ≠ .yielded ∨ k.runq ≠ [] ∨ k.timerq ≠ [] ∨ k.atomq ≠ [] then getNextTask (beforePop k) else k := rfl

theorem Sim.setNow {k : K} {a : A} {b : Option Int} (h : Sim k a b) (t : BitVec 32) : Sim { k with now := t } a b :=
  ⟨h.q.congr rfl rfl rfl rfl rfl rfl rfl, h.yld, h.self, h.priv⟩

/-- slow path: drain, requeue/reset current, expire timers — refines the specification's intake -/
theorem sim_beforePop {k : K} {a : A} {last : Option Int} {T : Int} (h : Sim k a last) (hnow : k.now = w32 T)
    (hmono : ∀ T0, last = some T0 → T0 ≤ T) (hw : ∀ x ∈ a.sleepers, T - x.2 < 2147483648) :
    SimQ (beforePop k) (a.intake T) (some T)
    ∧ (beforePop k).now = w32 T
    ∧ (∀ f, (a.intake T).priv f = (beforePop k).priv f)
    ∧ (a.intake T).yielder = none
    ∧ (beforePop k).atomq = [] := by
  have hq1 := simQ_drain h.q
  have hf1 := frame_handleAtomic k
  have haf1 := aframe_drain a
  have hs1 : Sim (handleAtomic k) a.drain last :=
    ⟨hq1, by rw [haf1.1.yielder, hf1.1.state, hf1.1.current]; exact h.yld,
     by rw [haf1.1.self, hf1.1.current]; exact h.self,
     fun f => by rw [haf1.1.priv, hf1.1.state, hf1.1.current, hf1.1.priv]; exact h.priv f⟩
  have h2 := sim_updateCurrent hs1 hf1.2
  have hnow2 := h2.2.2.2.1.trans (hf1.1.now.trans hnow)
  have hw2 : ∀ x ∈ a.drain.requeueYielder.sleepers, -2147483648 ≤ x.2 - T ∧ x.2 - T < 2147483648 := by
    intro x hx
    have hxa : x ∈ a.sleepers := haf1.1.sub x (h2.2.2.2.2.2 x hx)
    obtain ⟨T0, hT0, h1, h3⟩ := h.q.window x hxa
    have := hmono T0 hT0
    have := hw x hxa
    omega
  have h3 := simQ_handleTimerq h2.1 hnow2 hw2
  have hf3 := frame_handleTimerq (match (handleAtomic k).current with
    | some c => updateCurrent (handleAtomic k) c
    | none => handleAtomic k)
  unfold beforePop A.intake
  refine ⟨h3, hf3.1.now.trans hnow2, ?_, h2.2.2.1, hf3.2.trans h2.2.2.2.2.1⟩
  intro f
  rw [hf3.1.priv]
  exact h2.2.1 f

theorem sortByDue_fids_nil {sl : Sl} (h : fids (sortByDue sl) = []) : sl = [] := by
  unfold fids at h
  exact sortByDue_eq_nil.mp (List.map_eq_nil_iff.mp h)

/-- **the part of `fibre_scheduler_next` before the dispatch, fast path included, refines the intake** -/
theorem sim_prelude {k : K} {a : A} {last : Option Int} {T : Int} (h : Sim k a last) (hnow : k.now = w32 T)
    (hmono : ∀ T0, last = some T0 → T0 ≤ T) (hw : ∀ x ∈ a.sleepers, T - x.2 < 2147483648) :
    (prelude k).now = w32 T
    ∧ (∀ f, (a.intake T).priv f = (prelude k).priv f)
    ∧ (a.intake T).yielder = none
    ∧ ((a.intake T).rq = [] → (prelude k).current = none ∧ SimQ (prelude k) (a.intake T) (some T))
    ∧ (∀ d rest, (a.intake T).rq = d :: rest → (prelude k).current = some d
        ∧ d ∉ fids (a.intake T).sleepers
        ∧ ∀ a' : A, a'.rq = rest → a'.pend = (a.intake T).pend → a'.sleepers = (a.intake T).sleepers →
            SimQ (prelude k) a' (some T)) := by
  rw [prelude_eq]
  by_cases hcond : k.state ≠ .yielded ∨ k.runq ≠ [] ∨ k.timerq ≠ [] ∨ k.atomq ≠ []
  · rw [if_pos hcond]
    have hb := sim_beforePop h hnow hmono hw
    have hfg := frame_getNextTask (beforePop k)
    refine ⟨hfg.2.1.trans hb.2.1, fun f => by rw [hfg.2.2.1]; exact hb.2.2.1 f, hb.2.2.2.1, ?_, ?_⟩
    · intro hnil
      have hk : (beforePop k).runq = [] := hb.1.rq.trans hnil
      rw [getNextTask_nil hk]
      exact ⟨rfl, hb.1.congr rfl rfl rfl rfl rfl rfl rfl⟩
    · intro d rest hrq
      refine ⟨(simQ_pop hb.1 hrq { a.intake T with rq := rest } rfl rfl rfl).2, ?_, ?_⟩
      · exact hb.1.disj d (by rw [hrq]; exact List.mem_cons_self)
      · intro a' h5 h6 h7
        exact (simQ_pop hb.1 hrq a' h5 h6 h7).1
  · rw [if_neg hcond]
    -- single-yielder fast path: every queue is empty and the latest fibre yielded
    have hst : k.state = .yielded := by
      by_cases e : k.state = .yielded
      · exact e
      · exact absurd (Or.inl e) hcond
    have hrq : k.runq = [] := by
      by_cases e : k.runq = []
      · exact e
      · exact absurd (Or.inr (Or.inl e)) hcond
    have htq : k.timerq = [] := by
      by_cases e : k.timerq = []
      · exact e
      · exact absurd (Or.inr (Or.inr (Or.inl e))) hcond
    have haq : k.atomq = [] := by
      by_cases e : k.atomq = []
      · exact e
      · exact absurd (Or.inr (Or.inr (Or.inr e))) hcond
    have harq : a.rq = [] := h.q.rq.symm.trans hrq
    have hapend : a.pend = [] := h.q.pend.symm.trans haq
    have hasl : a.sleepers = [] := sortByDue_fids_nil (h.q.tq.symm.trans htq)
    have hdrain : a.drain = a := by
      unfold A.drain; rw [hapend]; cases a; simp_all
    have hpriv : ∀ f, a.priv f = k.priv f := by
      intro f; rw [h.priv f, hst]; simp
    have hy : a.yielder = k.current := by rw [h.yld, hst]; simp
    cases hc : k.current with
    | none =>
      have hy' : a.yielder = none := hy.trans hc
      have hin : a.intake T = a := by
        unfold A.intake A.requeueYielder A.expire
        rw [hdrain, hy']
        cases a; simp_all [sortByDue]
      rw [hin]
      refine ⟨hnow, hpriv, hy', ?_, ?_⟩
      · intro _
        refine ⟨rfl, ⟨h.q.rq, h.q.pend, h.q.tq, h.q.due, h.q.rqNodup, h.q.slNodup, h.q.disj, ?_⟩⟩
        intro x hx; rw [hasl] at hx; cases hx
      · intro d rest hrq'; rw [harq] at hrq'; cases hrq'
    | some y =>
      have hy' : a.yielder = some y := hy.trans hc
      have hin : a.intake T = { a with rq := [y], yielder := none } := by
        unfold A.intake A.requeueYielder A.expire
        rw [hdrain, hy']
        unfold A.enqueue
        cases a; simp_all [sortByDue]
      rw [hin]
      refine ⟨hnow, hpriv, rfl, ?_, ?_⟩
      · intro e; cases e
      · intro d rest hrq'
        have hd : d = y ∧ rest = [] := by
          have : [y] = d :: rest := hrq'
          injection this with e1 e2
          exact ⟨e1.symm, e2.symm⟩
        obtain ⟨hd1, hd2⟩ := hd
        subst hd1; subst hd2
        refine ⟨rfl, ?_, ?_⟩
        · show d ∉ fids a.sleepers
          rw [hasl]; simp [fids]
        · intro a' h5 h6 h7
          have h7' : a'.sleepers = [] := h7.trans hasl
          have h6' : a'.pend = [] := h6.trans hapend
          refine ⟨hrq.trans h5.symm, haq.trans h6'.symm, ?_, ?_, ?_, ?_, ?_, ?_⟩
          · rw [htq, h7']; rfl
          · intro x hx; rw [h7'] at hx; cases hx
          · rw [h5]; exact List.nodup_nil
          · rw [h7']; exact List.nodup_nil
          · intro f hf; rw [h5] at hf; cases hf
          · intro x hx; rw [h7'] at hx; cases hx

end Librfn.Sched.L

import Librfn.Lemmas.HBClock
/-! The plain-access part of the detector: per location it remembers the last write and the reads since; every
reported pair is a race, and every conflicting pair is ordered or preceded by a report (DJIT+ argument:
an access older than the remembered ones is ordered through the intervening write unless a race was reported
there). -/
namespace Librfn.C07.HBLemmas
open Librfn.Model.HB Librfn.Spec.HBRel

/-! ## projections of `step` on the access history -/

def badW (s : St) (i : Nat) (e : Ev) : List (Nat × Nat) :=
  match lookup s.lastW e.loc with
  | some w => if ordered w e.tid (tick s e) then [] else [(w.idx, i)]
  | none => []

def badR (s : St) (i : Nat) (e : Ev) : List (Nat × Nat) :=
  (readsOf s e.loc).filterMap fun r => if ordered r e.tid (tick s e) then none else some (r.idx, i)

def newRaces (s : St) (i : Nat) (e : Ev) : List (Nat × Nat) :=
  if e.kind = .pread then badW s i e
  else if e.kind = .pwrite then badW s i e ++ (badR s i e).reverse
  else []

def newAcc (s : St) (i : Nat) (e : Ev) : Acc := ⟨i, e.tid, vget (tick s e) e.tid⟩

theorem step_races (s : St) (i : Nat) (e : Ev) : (step s i e).races = s.races ++ newRaces s i e := by
  cases hk : e.kind <;> cases hl : lookup s.lastW e.loc <;>
    simp [step, hk, hl, newRaces, badW, badR, tick, readsOf, clockOf, List.append_assoc] <;> rfl

theorem step_lastW (s : St) (i : Nat) (e : Ev) (l : Nat) :
    lookup (step s i e).lastW l =
      if e.kind = .pwrite ∧ l = e.loc then some (newAcc s i e) else lookup s.lastW l := by
  cases hk : e.kind <;> simp [step, hk, lookup_update, newAcc, tick, clockOf]

theorem step_reads (s : St) (i : Nat) (e : Ev) (l : Nat) :
    readsOf (step s i e) l =
      if e.kind = .pwrite ∧ l = e.loc then []
      else if e.kind = .pread ∧ l = e.loc then newAcc s i e :: readsOf s l
      else readsOf s l := by
  cases hk : e.kind <;> simp [step, hk, lookup_update, newAcc, tick, clockOf, readsOf]
  · split <;> simp_all
  · split <;> simp_all

theorem mem_badW {s : St} {i : Nat} {e : Ev} {p : Nat × Nat} :
    p ∈ badW s i e ↔ ∃ w, lookup s.lastW e.loc = some w ∧ ordered w e.tid (tick s e) = false ∧ p = (w.idx, i) := by
  unfold badW
  cases h : lookup s.lastW e.loc with
  | none => simp
  | some w => cases ho : ordered w e.tid (tick s e) <;> simp [ho]

theorem mem_badR {s : St} {i : Nat} {e : Ev} {p : Nat × Nat} :
    p ∈ badR s i e ↔ ∃ r, r ∈ readsOf s e.loc ∧ ordered r e.tid (tick s e) = false ∧ p = (r.idx, i) := by
  unfold badR
  rw [List.mem_filterMap]
  constructor
  · rintro ⟨r, hr, h⟩
    cases ho : ordered r e.tid (tick s e) <;> simp [ho] at h
    exact ⟨r, hr, ho, h.symm⟩
  · rintro ⟨r, hr, ho, hp⟩
    exact ⟨r, hr, by simp [ho, hp]⟩

/-! ## invariant -/

/-- a remembered access is faithful to the trace -/
def GoodAcc (tr : List Ev) (n : Nat) (k : Kind) (l : Nat) (a : Acc) : Prop :=
  a.idx < n ∧ ∃ x, tr[a.idx]? = some x ∧ x.kind = k ∧ x.loc = l ∧ a.tid = x.tid ∧ a.clk = cnt tr (a.idx + 1) x.tid

/-- no plain write of `l` at indices in `(lo, n)` -/
def NoWriteAfter (tr : List Ev) (l lo n : Nat) : Prop :=
  ∀ k x, lo < k → k < n → tr[k]? = some x → ¬ (x.kind = .pwrite ∧ x.loc = l)

structure AccInv (tr : List Ev) (n : Nat) (s : St) : Prop where
  lastW_some : ∀ l a, lookup s.lastW l = some a → GoodAcc tr n .pwrite l a ∧ NoWriteAfter tr l a.idx n
  lastW_none : ∀ l, lookup s.lastW l = none → ∀ k x, k < n → tr[k]? = some x → ¬ (x.kind = .pwrite ∧ x.loc = l)
  reads_good : ∀ l a, a ∈ readsOf s l → GoodAcc tr n .pread l a
  reads_all : ∀ l k x, k < n → tr[k]? = some x → x.kind = .pread → x.loc = l → NoWriteAfter tr l k n →
    ∃ a, a ∈ readsOf s l ∧ a.idx = k
  sound : ∀ i j, j < n → Conflict tr i j → HB tr i j ∨ ∃ p, p ∈ s.races ∧ p.2 ≤ j
  complete : ∀ p, p ∈ s.races → p.2 < n ∧ Race tr p.1 p.2

theorem accInv_init (tr : List Ev) : AccInv tr 0 {} := by
  constructor
  · intro l a h; simp at h
  · intro l _ k x h; omega
  · intro l a h; simp [readsOf] at h
  · intro l k x h; omega
  · intro i j h; omega
  · intro p h; simp at h

theorem GoodAcc.mono {tr : List Ev} {n : Nat} {k : Kind} {l : Nat} {a : Acc} (h : GoodAcc tr n k l a) :
    GoodAcc tr (n + 1) k l a := ⟨by have := h.1; omega, h.2⟩

section step
variable {tr : List Ev} {n : Nat} {s : St} {e : Ev}

theorem newClock_plain (he : IsPlain e) : newClock s e = tick s e := by
  unfold newClock
  rw [if_neg]
  rintro ⟨h | h, _⟩ <;> rcases he with h' | h' <;> rw [h] at h' <;> cases h'

theorem goodAcc_new (inv : ClkInv tr n s) (he : tr[n]? = some e) : GoodAcc tr (n + 1) e.kind e.loc (newAcc s n e) := by
  refine ⟨by simp [newAcc], e, he, rfl, rfl, rfl, ?_⟩
  have := inv.self e.tid
  simp only [newAcc, vget_tick, if_pos]
  rw [cnt_succ_self he]; omega

/-- the detector's ordering test is happens-before -/
theorem ordered_iff (inv : ClkInv tr n s) (he : tr[n]? = some e) (hp : IsPlain e) {k : Kind} {l : Nat} {a : Acc}
    (ga : GoodAcc tr n k l a) : ordered a e.tid (tick s e) = true ↔ HB tr a.idx n := by
  obtain ⟨hlt, x, hx, _, _, htid, hclk⟩ := ga
  have key := newClock_iff inv he (i := a.idx) (a := x) (by omega) hx
  rw [newClock_plain hp] at key
  unfold ordered
  simp only [Bool.or_eq_true, beq_iff_eq, decide_eq_true_eq]
  constructor
  · rintro (h | h)
    · exact HB.po ⟨hlt, x, e, hx, he, by rw [← htid, h]⟩
    · rw [hclk, htid] at h
      rcases key.1 h with h' | h'
      · omega
      · exact h'
  · intro h
    right
    rw [hclk, htid]
    exact key.2 (Or.inr h)

theorem not_ordered_tid {a : Acc} {t : Nat} {c : VC} (h : ordered a t c = false) : a.tid ≠ t := by
  intro h'
  simp [ordered, h'] at h

theorem accInv_step (cinv : ClkInv tr n s) (inv : AccInv tr n s) (he : tr[n]? = some e) :
    AccInv tr (n + 1) (step s n e) := by
  -- the remembered write of `e.loc` is ordered before `n` or reported
  have claimW : IsPlain e → ∀ w, lookup s.lastW e.loc = some w →
      HB tr w.idx n ∨ (w.idx, n) ∈ newRaces s n e := by
    intro hp w hw
    have gw := (inv.lastW_some _ _ hw).1
    cases ho : ordered w e.tid (tick s e)
    · right
      have : (w.idx, n) ∈ badW s n e := mem_badW.2 ⟨w, hw, ho, rfl⟩
      unfold newRaces
      rcases hp with h | h
      · rw [if_pos h]; exact this
      · rw [if_neg (by rw [h]; intro h'; cases h'), if_pos h]; exact List.mem_append_left _ this
    · exact Or.inl ((ordered_iff cinv he hp gw).1 ho)
  -- an older plain access of the same location is ordered before the remembered write or a race was reported
  have claimT : ∀ l w, lookup s.lastW l = some w → ∀ i a, i < w.idx → tr[i]? = some a → IsPlain a → a.loc = l →
      HB tr i w.idx ∨ ∃ p, p ∈ s.races ∧ p.2 ≤ w.idx := by
    intro l w hw i a hi ha hpa hal
    obtain ⟨⟨hlt, x, hx, hxk, hxl, _, _⟩, _⟩ := inv.lastW_some _ _ hw
    by_cases ht : a.tid = x.tid
    · exact Or.inl (HB.po ⟨hi, a, x, ha, hx, ht⟩)
    · exact inv.sound i w.idx hlt ⟨hi, a, x, ha, hx, hpa, Or.inr hxk, by rw [hal, hxl], ht, Or.inr hxk⟩
  have hraces : ∀ p, p ∈ (step s n e).races ↔ p ∈ s.races ∨ p ∈ newRaces s n e := by
    intro p; rw [step_races, List.mem_append]
  constructor
  · -- lastW_some
    intro l a h
    rw [step_lastW] at h
    split at h
    · rename_i hc
      have := Option.some.inj h; subst this
      have g := goodAcc_new cinv he
      rw [hc.1, ← hc.2] at g
      exact ⟨g, fun k x h1 h2 => by simp [newAcc] at h1; omega⟩
    · rename_i hc
      obtain ⟨g, hno⟩ := inv.lastW_some l a h
      refine ⟨g.mono, ?_⟩
      intro k x h1 h2 hx
      by_cases hk : k = n
      · subst hk
        have := ev_unique hx he; subst this
        intro h'; exact hc ⟨h'.1, h'.2.symm⟩
      · exact hno k x h1 (by omega) hx
  · -- lastW_none
    intro l h k x hk hx
    rw [step_lastW] at h
    split at h
    · cases h
    · rename_i hc
      by_cases hkn : k = n
      · subst hkn
        have := ev_unique hx he; subst this
        intro h'; exact hc ⟨h'.1, h'.2.symm⟩
      · exact inv.lastW_none l h k x (by omega) hx
  · -- reads_good
    intro l a h
    rw [step_reads] at h
    split at h
    · cases h
    · split at h
      · rename_i hc
        rcases List.mem_cons.1 h with h | h
        · subst h
          have g := goodAcc_new cinv he
          rw [hc.1, ← hc.2] at g
          exact g
        · exact (inv.reads_good l a h).mono
      · exact (inv.reads_good l a h).mono
  · -- reads_all
    intro l k x hk hx hxk hxl hno
    rw [step_reads]
    by_cases hkn : k = n
    · subst hkn
      have := ev_unique hx he; subst this
      rw [if_neg (by rw [hxk]; rintro ⟨h, _⟩; cases h), if_pos ⟨hxk, hxl.symm⟩]
      exact ⟨newAcc s k x, List.mem_cons_self, rfl⟩
    · have hkn' : k < n := by omega
      have hnw : ¬ (e.kind = .pwrite ∧ l = e.loc) := by
        intro h; exact hno n e hkn' (by omega) he ⟨h.1, h.2.symm⟩
      rw [if_neg hnw]
      obtain ⟨a, ha, hidx⟩ := inv.reads_all l k x hkn' hx hxk hxl
        (fun m y h1 h2 hy => hno m y h1 (by omega) hy)
      split
      · exact ⟨a, List.mem_cons_of_mem _ ha, hidx⟩
      · exact ⟨a, ha, hidx⟩
  · -- sound
    intro i j hj hc
    by_cases hjn : j = n
    · subst hjn
      obtain ⟨hij, a, b, ha, hb, hpa, hpb, hloc, htid, hw⟩ := hc
      have := ev_unique hb he; subst this
      -- combine the two claims through the remembered write `w`
      have through : ∀ w, lookup s.lastW b.loc = some w → i ≤ w.idx →
          HB tr i j ∨ ∃ p, p ∈ (step s j b).races ∧ p.2 ≤ j := by
        intro w hw hiw
        have hwlt := (inv.lastW_some _ _ hw).1.1
        have h2 := claimW hpb w hw
        by_cases heq : i = w.idx
        · rcases h2 with h2 | h2
          · left; rw [heq]; exact h2
          · right; exact ⟨_, (hraces _).2 (Or.inr h2), Nat.le_refl _⟩
        · rcases claimT _ w hw i a (by omega) ha hpa hloc with h1 | ⟨p, hp, hle⟩
          · rcases h2 with h2 | h2
            · exact Or.inl (HB.trans h1 h2)
            · right; exact ⟨_, (hraces _).2 (Or.inr h2), Nat.le_refl _⟩
          · right; exact ⟨p, (hraces _).2 (Or.inl hp), by omega⟩
      by_cases hak : a.kind = .pwrite
      · -- the earlier access is a write: it is the remembered write or older
        cases hw' : lookup s.lastW b.loc with
        | none => exact absurd ⟨hak, hloc⟩ (inv.lastW_none _ hw' i a hij ha)
        | some w =>
          apply through w hw'
          false_or_by_contra
          exact (inv.lastW_some _ _ hw').2 i a (by omega) hij ha ⟨hak, hloc⟩
      · -- the earlier access is a read, so the current one is a write
        have hark : a.kind = .pread := by
          rcases hpa with h | h
          · exact h
          · exact absurd h hak
        have hbk : b.kind = .pwrite := by
          rcases hw with h | h
          · exact absurd h hak
          · exact h
        -- if no write of the location follows the read, the read is remembered
        have direct : NoWriteAfter tr b.loc i j → HB tr i j ∨ ∃ p, p ∈ (step s j b).races ∧ p.2 ≤ j := by
          intro hno
          obtain ⟨r, hr, hidx⟩ := inv.reads_all b.loc i a hij ha hark hloc hno
          have gr := inv.reads_good _ _ hr
          cases ho : ordered r b.tid (tick s b)
          · right
            refine ⟨(r.idx, j), (hraces _).2 (Or.inr ?_), Nat.le_refl _⟩
            unfold newRaces
            rw [if_neg (by rw [hbk]; intro h; cases h), if_pos hbk]
            exact List.mem_append_right _ (List.mem_reverse.2 (mem_badR.2 ⟨r, hr, ho, rfl⟩))
          · left; rw [← hidx]; exact (ordered_iff cinv he hpb gr).1 ho
        cases hw' : lookup s.lastW b.loc with
        | none =>
          exact direct (fun k x _ h2 hx => inv.lastW_none _ hw' k x h2 hx)
        | some w =>
          by_cases hiw : i ≤ w.idx
          · exact through w hw' hiw
          · apply direct
            intro k x h1 h2 hx
            exact (inv.lastW_some _ _ hw').2 k x (by omega) h2 hx
    · rcases inv.sound i j (by omega) hc with h | ⟨p, hp, hle⟩
      · exact Or.inl h
      · exact Or.inr ⟨p, (hraces _).2 (Or.inl hp), hle⟩
  · -- complete
    intro p hp
    rcases (hraces p).1 hp with hp | hp
    · have := inv.complete p hp
      exact ⟨by omega, this.2⟩
    · have fromW : p ∈ badW s n e → IsPlain e → p.2 < n + 1 ∧ Race tr p.1 p.2 := by
        intro h hpe
        obtain ⟨w, hw, ho, rfl⟩ := mem_badW.1 h
        have gw := (inv.lastW_some _ _ hw).1
        obtain ⟨hlt, x, hx, hxk, hxl, hxt, _⟩ := (inv.lastW_some _ _ hw).1
        refine ⟨by simp, ⟨hlt, x, e, hx, he, Or.inr hxk, hpe, hxl, ?_, Or.inl hxk⟩, ?_⟩
        · rw [← hxt]; exact not_ordered_tid ho
        · intro hhb
          rw [(ordered_iff cinv he hpe gw).2 hhb] at ho; cases ho
      unfold newRaces at hp
      split at hp
      · rename_i hk; exact fromW hp (Or.inl hk)
      · split at hp
        · rename_i hk
          rcases List.mem_append.1 hp with hp | hp
          · exact fromW hp (Or.inr hk)
          · obtain ⟨r, hr, ho, rfl⟩ := mem_badR.1 (List.mem_reverse.1 hp)
            have gr := inv.reads_good _ _ hr
            obtain ⟨hlt, x, hx, hxk, hxl, hxt, _⟩ := inv.reads_good _ _ hr
            refine ⟨by simp, ⟨hlt, x, e, hx, he, Or.inl hxk, Or.inr hk, hxl, ?_, Or.inr hk⟩, ?_⟩
            · rw [← hxt]; exact not_ordered_tid ho
            · intro hhb
              rw [(ordered_iff cinv he (Or.inr hk) gr).2 hhb] at ho; cases ho
        · cases hp

end step

theorem accInv_stateAt (tr : List Ev) : ∀ n, n ≤ tr.length → AccInv tr n (stateAt tr n) := by
  intro n
  induction n with
  | zero => intro _; exact accInv_init tr
  | succ n ih =>
    intro hn
    have hlt : n < tr.length := by omega
    have he : tr[n]? = some tr[n] := List.getElem?_eq_getElem hlt
    rw [stateAt_succ he]
    exact accInv_step (clkInv_stateAt tr n (by omega)) (ih (by omega)) he

end Librfn.C07.HBLemmas

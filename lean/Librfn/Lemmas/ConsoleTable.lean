import Librfn.Model.Console
/-! The command table of the console model: shape invariant, `find_command`, `console_register`. -/
namespace Librfn.Lemmas.ConsoleTable
open Librfn.Model.Console Librfn.Gen.Layout

theorem tableCap_eq : tableCap = 32 := by decide

/-- the array as the code keeps it: the named commands, the NULL-named sentinel, NULL pointers -/
def mkTable (named : List Cmd) (snt : Cmd) : Table :=
  named.map some ++ some snt :: List.replicate (tableCap - named.length - 1) none

structure TableOk (tab : Table) (named : List Cmd) (snt : Cmd) : Prop where
  shape : tab = mkTable named snt
  names : ∀ c ∈ named, c.name ≠ none
  sentinel : snt.name = none
  fits : named.length < tableCap

theorem mkTable_length (named : List Cmd) (snt : Cmd) (h : named.length < tableCap) :
    (mkTable named snt).length = tableCap := by
  simp [mkTable]; omega

/-- reading slot `q` (NULL outside the array as well: only used below the capacity) -/
theorem mkTable_getD (named : List Cmd) (snt : Cmd) (q : Nat) :
    (mkTable named snt).getD q none = if q = named.length then some snt else named[q]? := by
  unfold mkTable
  rw [List.getD_eq_getElem?_getD]
  by_cases h1 : q < named.length
  · rw [List.getElem?_append_left (by simpa using h1)]
    simp [h1, Nat.ne_of_lt h1]
  · rw [List.getElem?_append_right (by simpa using Nat.le_of_not_lt h1)]
    simp only [List.length_map]
    by_cases h2 : q = named.length
    · subst h2; simp
    · rw [if_neg h2]
      have : q - named.length = (q - named.length - 1) + 1 := by omega
      rw [this, List.getElem?_cons_succ]
      rw [List.getElem?_eq_none (by omega : named.length ≤ q)]
      cases hq : (List.replicate (tableCap - named.length - 1) (none : Option Cmd))[q - named.length - 1]? with
      | none => rfl
      | some v =>
        have := List.mem_of_getElem? hq
        simp only [List.mem_replicate] at this
        simp [this.2]

theorem ext_getD {l₁ l₂ : Table} (hl : l₁.length = l₂.length)
    (h : ∀ q, q < l₁.length → l₁.getD q none = l₂.getD q none) : l₁ = l₂ := by
  apply List.ext_getElem hl
  intro q h1 h2
  have := h q h1
  simpa [List.getD_eq_getElem?_getD, List.getElem?_eq_getElem h1, List.getElem?_eq_getElem h2] using this

/-! ### find_command -/

/-- the first named command called `a`, else the sentinel -/
def findSpec (a : List Byte) (snt : Cmd) : List Cmd → Cmd
  | [] => snt
  | c :: rest => if c.name = some a then c else findSpec a snt rest

theorem findLoop_mkTable (a : List Byte) (snt : Cmd) (hs : snt.name = none) (k : Nat) :
    ∀ named : List Cmd, (∀ c ∈ named, c.name ≠ none) →
      findLoop a (named.map some ++ some snt :: List.replicate k none) = some (findSpec a snt named)
  | [], _ => by simp [findLoop, findSpec, hs]
  | c :: rest, hn => by
    have hc := hn c (List.mem_cons_self ..)
    cases hcn : c.name with
    | none => exact absurd hcn hc
    | some n =>
      simp only [List.map_cons, List.cons_append, findLoop, hcn, findSpec]
      by_cases h : a = n
      · subst h; simp
      · rw [if_neg h]
        rw [if_neg (by intro e; injection e with e; exact h e.symm)]
        exact findLoop_mkTable a snt hs k rest (fun c hc => hn c (List.mem_cons_of_mem _ hc))

theorem findSpec_mem (a : List Byte) (snt : Cmd) : ∀ named : List Cmd,
    findSpec a snt named = snt ∧ (∀ c ∈ named, c.name ≠ some a) ∨
    (findSpec a snt named ∈ named ∧ (findSpec a snt named).name = some a)
  | [] => by simp [findSpec]
  | c :: rest => by
    unfold findSpec
    by_cases h : c.name = some a
    · rw [if_pos h]; right; exact ⟨List.mem_cons_self .., h⟩
    · rw [if_neg h]
      rcases findSpec_mem a snt rest with ⟨h1, h2⟩ | ⟨h1, h2⟩
      · left; refine ⟨h1, ?_⟩
        intro c' hc'
        rcases List.mem_cons.mp hc' with rfl | hc'
        · exact h
        · exact h2 c' hc'
      · right; exact ⟨List.mem_cons_of_mem _ h1, h2⟩

/-! ### console_register -/

/-- where the new name goes: before the first command whose name is greater -/
def insIdx (nm : List Byte) : List Cmd → Nat
  | [] => 0
  | c :: rest =>
    match c.name with
    | some n => if strGt n nm = true then 0 else insIdx nm rest + 1
    | none => 0

theorem insIdx_le (nm : List Byte) : ∀ named : List Cmd, insIdx nm named ≤ named.length
  | [] => Nat.le_refl _
  | c :: rest => by
    unfold insIdx
    cases c.name with
    | none => exact Nat.zero_le _
    | some n =>
      simp only
      split
      · exact Nat.zero_le _
      · simpa using insIdx_le nm rest

theorem regIndex_mkTable (nm : List Byte) (snt : Cmd) (hs : snt.name = none) (k : Nat) :
    ∀ (named : List Cmd) (i : Nat), (∀ c ∈ named, c.name ≠ none) →
      regIndex nm (named.map some ++ some snt :: List.replicate k none) i = some (i + insIdx nm named)
  | [], i, _ => by simp [regIndex, insIdx, hs]
  | c :: rest, i, hn => by
    have hc := hn c (List.mem_cons_self ..)
    cases hcn : c.name with
    | none => exact absurd hcn hc
    | some n =>
      simp only [List.map_cons, List.cons_append, regIndex, hcn, insIdx]
      by_cases h : strGt n nm = true
      · simp [h]
      · rw [if_neg h, if_neg h]
        rw [regIndex_mkTable nm snt hs k rest (i + 1) (fun c hc => hn c (List.mem_cons_of_mem _ hc))]
        congr 1; omega

theorem shiftLoop_length (i : Nat) : ∀ (j : Nat) (t : Table), (shiftLoop i j t).length = t.length
  | 0, t => rfl
  | j + 1, t => by
    unfold shiftLoop
    split
    · rw [shiftLoop_length i j]; simp
    · rfl

theorem getD_set_tab (t : Table) (i q : Nat) (v : Option Cmd) :
    (t.set i v).getD q none = if i = q ∧ i < t.length then v else t.getD q none := by
  simp only [List.getD_eq_getElem?_getD, List.getElem?_set]
  by_cases h : i = q
  · subst h
    by_cases h2 : i < t.length
    · simp [h2]
    · simp [h2]
  · simp [h]

/-- the copy loop moves slots `i .. j-1` one place up -/
theorem shiftLoop_getD (i : Nat) : ∀ (j : Nat) (t : Table) (q : Nat), j < t.length →
    (shiftLoop i j t).getD q none = if i < q ∧ q ≤ j then t.getD (q - 1) none else t.getD q none
  | 0, t, q, _ => by
    simp only [shiftLoop]
    rw [if_neg (by omega)]
  | j + 1, t, q, hj => by
    unfold shiftLoop
    by_cases hji : j + 1 > i
    · rw [if_pos hji]
      rw [shiftLoop_getD i j _ q (by simp; omega)]
      by_cases c1 : i < q ∧ q ≤ j
      · rw [if_pos c1, if_pos (by omega)]
        rw [getD_set_tab, if_neg (by omega)]
      · rw [if_neg c1]
        rw [getD_set_tab]
        by_cases c2 : q = j + 1
        · subst c2
          rw [if_pos ⟨rfl, hj⟩, if_pos (by omega)]
          simp
        · rw [if_neg (by omega), if_neg (by omega)]
    · rw [if_neg hji, if_neg (by omega)]

theorem insert_getElem? (named : List Cmd) (cmd : Cmd) (i q : Nat) (hi : i ≤ named.length) :
    (named.take i ++ cmd :: named.drop i)[q]? =
      if q < i then named[q]? else if q = i then some cmd else named[q - 1]? := by
  have hl : (named.take i).length = i := by simp [List.length_take]; omega
  by_cases h1 : q < i
  · rw [if_pos h1, List.getElem?_append_left (by omega), List.getElem?_take_of_lt h1]
  · rw [if_neg h1, List.getElem?_append_right (by omega), hl]
    by_cases h2 : q = i
    · subst h2; simp
    · rw [if_neg h2]
      have : q - i = (q - i - 1) + 1 := by omega
      rw [this, List.getElem?_cons_succ, List.getElem?_drop]
      congr 1; omega

/-- **registration with room left**: the command is inserted at its sorted position, everything
    else keeps its order, the sentinel still ends the table -/
theorem register_room (tab : Table) (named : List Cmd) (snt cmd : Cmd) (nm : List Byte)
    (h : TableOk tab named snt) (hroom : named.length + 1 < tableCap) (hname : cmd.name = some nm) :
    register tab cmd = some (mkTable (named.take (insIdx nm named) ++ cmd :: named.drop (insIdx nm named)) snt, 0) ∧
    TableOk (mkTable (named.take (insIdx nm named) ++ cmd :: named.drop (insIdx nm named)) snt)
      (named.take (insIdx nm named) ++ cmd :: named.drop (insIdx nm named)) snt := by
  have hi := insIdx_le nm named
  have hlen' : (named.take (insIdx nm named) ++ cmd :: named.drop (insIdx nm named)).length = named.length + 1 := by
    simp [List.length_take, List.length_drop]; omega
  have hcap := tableCap_eq
  refine ⟨?_, ?_⟩
  · have hshape := h.shape
    subst hshape
    have hlast : (mkTable named snt).getD (tableCap - 1) none = none := by
      rw [mkTable_getD, if_neg (by omega), List.getElem?_eq_none (by omega)]
    have hidx : regIndex nm (mkTable named snt) 0 = some (insIdx nm named) := by
      have := regIndex_mkTable nm snt h.sentinel (tableCap - named.length - 1) named 0 h.names
      simpa [mkTable] using this
    unfold register
    rw [hlast]
    simp only [hname, hidx]
    rw [if_pos (by omega)]
    congr 2
    have hl0 := mkTable_length named snt h.fits
    apply ext_getD
    · rw [List.length_set, shiftLoop_length, hl0, mkTable_length _ _ (by omega)]
    · intro q hq
      rw [List.length_set, shiftLoop_length, hl0] at hq
      rw [getD_set_tab, shiftLoop_length, hl0]
      rw [mkTable_getD, hlen', insert_getElem? named cmd _ q hi]
      by_cases c0 : insIdx nm named = q
      · subst c0
        rw [if_pos ⟨rfl, by omega⟩, if_neg (by omega), if_neg (by omega), if_pos rfl]
      · rw [if_neg (by omega)]
        rw [shiftLoop_getD _ _ _ _ (by omega)]
        by_cases c1 : insIdx nm named < q
        · rw [if_pos ⟨c1, by omega⟩, mkTable_getD]
          by_cases c2 : q = named.length + 1
          · subst c2; simp
          · rw [if_neg c2, if_neg (by omega), if_neg (by omega), if_neg (by omega)]
        · rw [if_neg (by omega), mkTable_getD, if_neg (by omega), if_neg (by omega), if_pos (by omega)]
  · refine { shape := rfl, names := ?_, sentinel := h.sentinel, fits := by omega }
    intro c hc
    rcases List.mem_append.mp hc with hc | hc
    · exact h.names c (List.mem_of_mem_take hc)
    · rcases List.mem_cons.mp hc with rfl | hc
      · rw [hname]; exact Option.some_ne_none _
      · exact h.names c (List.mem_of_mem_drop hc)

/-- **registration on a full table** fails with −1 and changes nothing -/
theorem register_full (tab : Table) (named : List Cmd) (snt cmd : Cmd)
    (h : TableOk tab named snt) (hfull : named.length + 1 = tableCap) :
    register tab cmd = some (tab, -1) := by
  have hshape := h.shape
  subst hshape
  have hlast : (mkTable named snt).getD (tableCap - 1) none = some snt := by
    rw [mkTable_getD, if_pos (by omega)]
  unfold register
  rw [hlast]

/-- the boot-time table -/
theorem initTable_ok : TableOk initTable [cmdEcho, cmdHelp] cmdUnknown :=
  { shape := by decide, names := by decide, sentinel := rfl, fits := by decide }

end Librfn.Lemmas.ConsoleTable

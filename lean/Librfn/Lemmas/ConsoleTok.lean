import Librfn.Model.Console
/-! Structural facts about the `do_tokenize` loop of the console model (used by C15). -/
namespace Librfn.Lemmas.ConsoleTok
open Librfn.Model.Console Librfn.Gen.Layout

theorem argvLen_eq : argvLen = 4 := by decide

/-! ### strlen -/

theorem strlen_spec : ∀ (m : List Byte) (len : Nat), strlen? m = some len →
    len < m.length ∧ m.getD len 0 = 0 ∧ ∀ j, j < len → m.getD j 0 ≠ 0
  | [], len, h => by simp [strlen?] at h
  | b :: rest, len, h => by
    unfold strlen? at h
    by_cases hb : b = 0
    · simp only [hb, if_true] at h
      have : len = 0 := by injection h with h; exact h.symm
      subst this
      simp [hb]
    · simp only [hb, if_false] at h
      cases hr : strlen? rest with
      | none => simp [hr] at h
      | some k =>
        simp only [hr, Option.map_some] at h
        have hk : len = k + 1 := by injection h with h; exact h.symm
        subst hk
        obtain ⟨h1, h2, h3⟩ := strlen_spec rest k hr
        refine ⟨by simp; omega, by simpa using h2, ?_⟩
        intro j hj
        cases j with
        | zero => simpa using hb
        | succ j => simpa using h3 j (by omega)

/-- a NUL inside the memory guarantees a length -/
theorem strlen_exists : ∀ (m : List Byte) (k : Nat), k < m.length → m.getD k 0 = 0 →
    ∃ len, strlen? m = some len ∧ len ≤ k
  | [], k, h, _ => by simp at h
  | b :: rest, k, hk, hz => by
    unfold strlen?
    by_cases hb : b = 0
    · exact ⟨0, by simp [hb], by omega⟩
    · cases k with
      | zero => simp at hz; exact absurd hz hb
      | succ k =>
        obtain ⟨len, h1, h2⟩ := strlen_exists rest k (by simpa using hk) (by simpa using hz)
        exact ⟨len + 1, by simp [hb, h1], by omega⟩

/-! ### the loop -/

/-- what every iteration preserves; `orig` is the memory before `do_tokenize`, `len` its `strlen` -/
structure TokInv (orig : List Byte) (len : Nat) (t : Tok) : Prop where
  hlen : t.mem.length = orig.length
  hargc1 : 1 ≤ t.argc
  hargc4 : t.argc ≤ 4
  hargvlen : t.argv.length = 4
  hwr : ∀ o ∈ t.wr, 1 ≤ o ∧ o < len
  hframe : ∀ j, len ≤ j → t.mem.getD j 0 = orig.getD j 0
  hzero : ∀ j, t.mem.getD j 0 ≠ orig.getD j 0 → t.mem.getD j 0 = 0
  hargv : ∀ k, k < t.argc → ∃ o, t.argv.getD k none = some o ∧ o ≤ len ∧ (0 < k → 0 < o ∧ o < len)

theorem getD_set (m : List Byte) (i j v : Nat) :
    (m.set i v).getD j 0 = if i = j ∧ i < m.length then v else m.getD j 0 := by
  simp only [List.getD_eq_getElem?_getD, List.getElem?_set]
  by_cases h : i = j
  · subst h
    by_cases h2 : i < m.length
    · simp [h2]
    · simp [h2]
  · simp [h]

theorem tokStep_inv (orig : List Byte) (len i : Nat) (t : Tok) (hi : TokInv orig len t)
    (h1 : 1 ≤ i) (h2 : i < len) (h3 : t.argc < 4) :
    TokInv orig len (tokStep t i).1 ∧ ((tokStep t i).2 = false → (tokStep t i).1.argc < 4) := by
  have hw : TokInv orig len { t with mem := t.mem.set i 0, wr := i :: t.wr } := by
    refine { hi with hlen := by simp [hi.hlen], hwr := ?_, hframe := ?_, hzero := ?_ }
    · intro o ho
      simp only [List.mem_cons] at ho
      rcases ho with rfl | ho
      · exact ⟨h1, h2⟩
      · exact hi.hwr o ho
    · intro j hj
      show (t.mem.set i 0).getD j 0 = _
      rw [getD_set]
      rw [if_neg (by omega)]
      exact hi.hframe j hj
    · intro j hj
      have hj' : (t.mem.set i 0).getD j 0 ≠ orig.getD j 0 := hj
      show (t.mem.set i 0).getD j 0 = 0
      rw [getD_set] at hj' ⊢
      by_cases hc : i = j ∧ i < t.mem.length
      · rw [if_pos hc]
      · rw [if_neg hc] at hj' ⊢
        exact hi.hzero j hj'
  have hq : ∀ q, TokInv orig len { t with quote := q, mem := t.mem.set i 0, wr := i :: t.wr } := by
    intro q
    exact { hw with }
  unfold tokStep
  by_cases c1 : isspace (t.mem.getD i 0) = true ∧ t.quote = 0
  · rw [if_pos c1]; exact ⟨hw, fun _ => h3⟩
  · rw [if_neg c1]
    by_cases c2 : t.mem.getD i 0 = t.quote
    · rw [if_pos c2]; exact ⟨hq 0, fun _ => h3⟩
    · rw [if_neg c2]
      by_cases c3 : t.mem.getD (i - 1) 0 = 0
      · rw [if_pos c3]
        by_cases c4 : t.quote = 0 ∧ (t.mem.getD i 0 = 39 ∨ t.mem.getD i 0 = 34)
        · rw [if_pos c4]; exact ⟨hq _, fun _ => h3⟩
        · rw [if_neg c4]
          refine ⟨?_, ?_⟩
          · refine { hi with hargc1 := ?_, hargc4 := ?_, hargvlen := ?_, hargv := ?_ }
            · show 1 ≤ t.argc + 1; omega
            · show t.argc + 1 ≤ 4; omega
            · show (t.argv.set t.argc (some i)).length = 4; simp [hi.hargvlen]
            · intro k hk
              have hk' : k < t.argc + 1 := hk
              show ∃ o, (t.argv.set t.argc (some i)).getD k none = some o ∧ _
              by_cases hkk : k = t.argc
              · subst hkk
                refine ⟨i, ?_, by omega, fun _ => ⟨by omega, h2⟩⟩
                simp [List.getD_eq_getElem?_getD, hi.hargvlen, h3]
              · obtain ⟨o, ho1, ho2⟩ := hi.hargv k (by omega)
                refine ⟨o, ?_, ho2⟩
                rw [← ho1]
                simp only [List.getD_eq_getElem?_getD, List.getElem?_set]
                rw [if_neg (by omega)]
          · intro hb
            have hb' : decide (t.argc + 1 ≥ argvLen) = false := hb
            show t.argc + 1 < 4
            rw [argvLen_eq] at hb'
            have : ¬ (t.argc + 1 ≥ 4) := by simpa using hb'
            omega
      · rw [if_neg c3]; exact ⟨hi, fun _ => h3⟩

theorem tokLoop_inv (orig : List Byte) (len : Nat) : ∀ (n i : Nat) (t : Tok), TokInv orig len t →
    1 ≤ i → i + n ≤ len → t.argc < 4 → TokInv orig len (tokLoop n i t)
  | 0, _, t, hi, _, _, _ => by simpa [tokLoop] using hi
  | n + 1, i, t, hi, h1, h2, h3 => by
    obtain ⟨hs, hb⟩ := tokStep_inv orig len i t hi h1 (by omega) h3
    unfold tokLoop
    by_cases hbr : (tokStep t i).2 = true
    · rw [if_pos hbr]; exact hs
    · rw [if_neg hbr]
      exact tokLoop_inv orig len n (i + 1) _ hs (by omega) (by omega) (hb (by simpa using hbr))

/-- the state `do_tokenize` starts its loop in -/
theorem tokInit_inv (mem : List Byte) (argv : List (Option Nat)) (len : Nat) (ha : argv.length = 4) :
    TokInv mem len { mem := mem, quote := 0, argc := 1, argv := argv.set 0 (some 0), wr := [] } :=
  { hlen := rfl, hargc1 := Nat.le_refl _, hargc4 := (by show 1 ≤ 4; omega), hargvlen := by simp [ha],
    hwr := (by intro o ho; cases ho), hframe := fun _ _ => rfl, hzero := fun j h => absurd rfl h,
    hargv := by
      intro k hk
      have hk' : k < 1 := hk
      have : k = 0 := by omega
      subst this
      refine ⟨0, ?_, Nat.zero_le _, fun h => absurd h (Nat.lt_irrefl _)⟩
      simp [List.getD_eq_getElem?_getD, ha] }

theorem tokenizeMem_inv (mem : List Byte) (argv : List (Option Nat)) (len : Nat) (ha : argv.length = 4) :
    TokInv mem len (tokenizeMem mem argv len) := by
  unfold tokenizeMem
  by_cases h : len = 0
  · subst h; simpa [tokLoop] using tokInit_inv mem argv 0 ha
  · exact tokLoop_inv mem len (len - 1) 1 _ (tokInit_inv mem argv len ha) (Nat.le_refl _) (by omega) (by show 1 < 4; omega)

/-! ### padArgv -/

theorem padArgv_length (argv : List (Option Nat)) (argc len : Nat) : (padArgv argv argc len).length = 4 := by
  simp [padArgv, argvLen_eq]

theorem padArgv_getD (argv : List (Option Nat)) (argc len k : Nat) (hk : k < 4) :
    (padArgv argv argc len).getD k none = if k < argc then argv.getD k none else some len := by
  simp [padArgv, argvLen_eq, List.getD_eq_getElem?_getD, hk]

/-! ### the fourth token takes the rest of the line -/

theorem tokStep_rest (orig : List Byte) (i : Nat) (t : Tok)
    (hfut : ∀ j, i ≤ j → t.mem.getD j 0 = orig.getD j 0) (h3 : t.argc < 4) (hl : t.argv.length = 4) :
    (∀ j, i + 1 ≤ j → (tokStep t i).1.mem.getD j 0 = orig.getD j 0) ∧ (tokStep t i).1.argv.length = 4 ∧
    ((tokStep t i).2 = false → (tokStep t i).1.argc < 4) ∧
    ((tokStep t i).2 = true → (tokStep t i).1.argc = 4 ∧ (tokStep t i).1.argv.getD 3 none = some i ∧
        ∀ j, i ≤ j → (tokStep t i).1.mem.getD j 0 = orig.getD j 0) := by
  have hw : ∀ j, i + 1 ≤ j → (t.mem.set i 0).getD j 0 = orig.getD j 0 := by
    intro j hj
    rw [getD_set, if_neg (by omega)]
    exact hfut j (by omega)
  have hk : ∀ j, i + 1 ≤ j → t.mem.getD j 0 = orig.getD j 0 := fun j hj => hfut j (by omega)
  unfold tokStep
  by_cases c1 : isspace (t.mem.getD i 0) = true ∧ t.quote = 0
  · rw [if_pos c1]; exact ⟨hw, hl, fun _ => h3, fun h => by cases h⟩
  · rw [if_neg c1]
    by_cases c2 : t.mem.getD i 0 = t.quote
    · rw [if_pos c2]; exact ⟨hw, hl, fun _ => h3, fun h => by cases h⟩
    · rw [if_neg c2]
      by_cases c3 : t.mem.getD (i - 1) 0 = 0
      · rw [if_pos c3]
        by_cases c4 : t.quote = 0 ∧ (t.mem.getD i 0 = 39 ∨ t.mem.getD i 0 = 34)
        · rw [if_pos c4]; exact ⟨hw, hl, fun _ => h3, fun h => by cases h⟩
        · rw [if_neg c4]
          refine ⟨hk, by simp [hl], ?_, ?_⟩
          · intro hb
            have hb' : decide (t.argc + 1 ≥ argvLen) = false := hb
            rw [argvLen_eq] at hb'
            have : ¬ (t.argc + 1 ≥ 4) := by simpa using hb'
            show t.argc + 1 < 4
            omega
          · intro hb
            have hb' : decide (t.argc + 1 ≥ argvLen) = true := hb
            rw [argvLen_eq] at hb'
            have h4 : t.argc + 1 ≥ 4 := by simpa using hb'
            have he : t.argc = 3 := by omega
            refine ⟨by show t.argc + 1 = 4; omega, ?_, hfut⟩
            show (t.argv.set t.argc (some i)).getD 3 none = some i
            rw [he]
            simp [List.getD_eq_getElem?_getD, hl]
      · rw [if_neg c3]; exact ⟨hk, hl, fun _ => h3, fun h => by cases h⟩

theorem tokLoop_rest (orig : List Byte) : ∀ (n i : Nat) (t : Tok),
    (∀ j, i ≤ j → t.mem.getD j 0 = orig.getD j 0) → t.argc < 4 → t.argv.length = 4 →
    (tokLoop n i t).argc = 4 →
    ∃ o, i ≤ o ∧ (tokLoop n i t).argv.getD 3 none = some o ∧ ∀ j, o ≤ j → (tokLoop n i t).mem.getD j 0 = orig.getD j 0
  | 0, _, t, _, h3, _, h4 => by simp only [tokLoop] at h4; omega
  | n + 1, i, t, hfut, h3, hl, h4 => by
    obtain ⟨s1, s2, s3, s4⟩ := tokStep_rest orig i t hfut h3 hl
    rw [tokLoop] at h4 ⊢
    by_cases hbr : (tokStep t i).2 = true
    · rw [if_pos hbr]
      obtain ⟨_, b2, b3⟩ := s4 hbr
      exact ⟨i, Nat.le_refl _, b2, b3⟩
    · rw [if_neg hbr] at h4 ⊢
      obtain ⟨o, o1, o2, o3⟩ := tokLoop_rest orig n (i + 1) _ s1 (s3 (by simpa using hbr)) s2 h4
      exact ⟨o, by omega, o2, o3⟩

end Librfn.Lemmas.ConsoleTok

import Librfn.Lemmas.IsrMonK
/-! C06 refinement: the monitor's verdict on the model's own observations stays `ok` (run-to-completion executions whose
calls name existing fibres), and after a quiescent run that ends idle nothing is owed and no event is outstanding. -/
namespace Librfn.Isr.L
open Librfn.Model.MessageqConc Librfn.Model.FibreIsr Librfn.C04
open Librfn.Sched (Fid Ret)
open Librfn.Spec.IsrSpec
open Librfn.Model.Fibre (K upd makeRunnable handleTimerq getNextTask fibreTimeout timerqLoop)

/-! ## the verdict -/

/-- observations that cannot change the verdict -/
def VerdictNeutral : Obs → Prop
  | .evProcessed _ | .passEnd _ => False
  | _ => True

theorem verdict_neutral (a : A) (o : Obs) (h : VerdictNeutral o) : (a.step o).verdict = a.verdict := by
  cases o with
  | evProcessed st => exact False.elim h
  | passEnd b => exact False.elim h
  | accepted f => exact (specSame_accepted a f).verdict
  | rejected f => rfl
  | dispatched f => rfl
  | killed f => simp only [A.step]; split <;> rfl
  | evClaimed st => rfl
  | evSent st ok => exact (specSame_evSent a st ok).verdict
  | passBegin => rfl
  | looked => rfl
  | bodyReturned y => rfl
  | threadBegin => rfl
  | threadEnd => rfl

/-- the end of a pass: no `oversleeps` (the value returned is on time whenever the monitor knows of a reason) and no
    `starved` (no aged entry has reached `nf`) -/
theorem verdict_passEnd (a : A) (b : Bool) (hd : a.disturbed = false)
    (hos : (a.yieldedNow || (a.snap.any (fun f => decide (f ∈ a.owedFids)) && !a.disturbed)) = true → b = true)
    (hag : ∀ x ∈ a.aged, x.2 < a.nf) : (a.step (.passEnd b)).verdict = a.verdict := by
  have hc : ((a.yieldedNow || (a.snap.any (fun f => decide (f ∈ a.owedFids)) && !a.disturbed)) && !b) = false := by
    cases hcond : (a.yieldedNow || (a.snap.any (fun f => decide (f ∈ a.owedFids)) && !a.disturbed)) with
    | false => rfl
    | true => rw [hos hcond]; rfl
  simp only [A.step, hc, Bool.false_eq_true, if_false]
  unfold A.ageOwed
  rw [hd]
  simp only [Bool.false_eq_true, if_false]
  have hnone : a.aged.find? (fun x => decide (x.2 ≥ a.nf)) = none := by
    rw [List.find?_eq_none]
    intro x hx
    have := hag x hx
    simp only [ge_iff_le, decide_eq_true_eq]; omega
  rw [hnone]

theorem ver_finishPass {t : S} (h : KPost t) (hd : t.a.disturbed = false) (hpos : 1 ≤ t.a.nf) (v : BitVec 32)
    (hos : (t.a.yieldedNow || (t.a.snap.any (fun f => decide (f ∈ t.a.owedFids)) && !t.a.disturbed)) = true → v = t.k.now) :
    (finishPass t v).a.verdict = t.a.verdict :=
  verdict_passEnd t.a _ hd (fun hc => by rw [hos hc]; exact decide_eq_true rfl) (aged_lt_nf h hpos)

theorem ver_returned {t : S} (h : KPost t) (hd : t.a.disturbed = false) (hpos : 1 ≤ t.a.nf) (r : Ret) :
    (returned t r).a.verdict = t.a.verdict := by
  unfold returned
  split
  · refine (ver_finishPass (t := emit (.bodyReturned true) (tok (.bret r) { t with k := { t.k with state := r } })) ?_ hd hpos _ (fun _ => rfl)).trans ?_
    · exact kpost_congr h rfl rfl rfl rfl
    · rfl
  · rfl

theorem ver_bodyOf {t : S} (h : KPost t) (hd : t.a.disturbed = false) (hpos : 1 ≤ t.a.nf) (c : Fid) :
    (bodyOf t c).a.verdict = t.a.verdict := by
  unfold bodyOf
  split
  · rfl
  · split
    · refine ver_returned ?_ ?_ ?_ _
      · exact kpost_congr h rfl rfl rfl rfl
      · exact hd
      · exact hpos
    · exact ver_returned h hd hpos _
  · split
    · refine ver_returned ?_ ?_ ?_ _
      · refine kpost_congr h ?_ rfl rfl rfl
        simp only [tok_k]; rw [runq_fibreTimeout, runq_fibreTimeout]
      · exact hd
      · exact hpos
    · refine ver_returned ?_ ?_ ?_ _
      · refine kpost_congr h ?_ rfl rfl rfl
        simp only [tok_k]; rw [runq_fibreTimeout]
      · exact hd
      · exact hpos
  · exact ver_returned h hd hpos _

theorem ver_body {t : S} (h : KPost t) (hd : t.a.disturbed = false) (hpos : 1 ≤ t.a.nf) (c : Fid) :
    (body t c).a.verdict = t.a.verdict :=
  ver_bodyOf (kpost_discharge h c) hd hpos c

theorem ver_dispatch {t : S} (h : KPost t) (hd : t.a.disturbed = false) (hpos : 1 ≤ t.a.nf) :
    (dispatch t).a.verdict = t.a.verdict := by
  unfold dispatch
  split
  · exact ver_body h hd hpos _
  · rfl

/-- the state after `get_next_task` popped `c` and the monitor discharged it satisfies the bounds of the new phase -/
theorem kpost_pop {t : S} (hk1 : ∀ f a, (f, a) ∈ t.a.owed → 0 < a → Bound t f a 1)
    (hin : ∀ f ∈ t.a.atBegin, f ∈ t.k.runq) (hq : QOk t.k)
    (hsc : ∀ f, (f ∈ t.k.runq ∨ f ∈ t.k.timerq) → f < t.a.nf) (c : Fid) (r : List Fid)
    (hrq : (handleTimerq t.k).runq = c :: r) :
    KPost (tok (.disp c) (emit (.dispatched c)
      { ({ t with k := { handleTimerq t.k with current := some c, runq := r } } : S) with dispatchedNow := true })) := by
  obtain ⟨l, e, hl, _⟩ := handleTimerq_prefix t.k
  have hq' := qok_handleTimerq hq
  have hlen : (handleTimerq t.k).runq.length ≤ t.a.nf := by
    apply length_le_of_bounded hq'.rn
    intro x hx
    rw [e] at hx
    rcases List.mem_append.mp hx with h | h
    · exact hsc x (Or.inl h)
    · exact hsc x (Or.inr (hl x h))
  refine ⟨fun f a hfa hp => ?_, fun f a hfa hb => ?_⟩
  all_goals
    have hfa' : (f, a) ∈ t.a.owed.filter (fun x => x.1 ≠ c) := hfa
    have hfo := (List.mem_filter.mp hfa').1
    have hfc : f ≠ c := by simpa using (List.mem_filter.mp hfa').2
  · have hb := hk1 f a hfo hp
    have hmem : f ∈ c :: r := by rw [← hrq, e]; exact List.mem_append_left _ hb.1
    have hfr : f ∈ r := by rcases List.mem_cons.mp hmem with e' | e'; exact absurd e' hfc; exact e'
    have hidx : (c :: r).idxOf f = t.k.runq.idxOf f := by rw [← hrq, e]; exact idxOf_append_mem hb.1
    rw [idxOf_cons_ne' hfc] at hidx
    refine ⟨hfr, ?_⟩
    show r.idxOf f + a + 1 ≤ t.a.nf
    have := hb.2; omega
  · have hb' : f ∈ t.a.atBegin.filter (· ≠ c) := hb
    have hft := hin f (List.mem_filter.mp hb').1
    have hmem : f ∈ c :: r := by rw [← hrq, e]; exact List.mem_append_left _ hft
    have hfr : f ∈ r := by rcases List.mem_cons.mp hmem with e' | e'; exact absurd e' hfc; exact e'
    have hidx : (c :: r).idxOf f = t.k.runq.idxOf f := by rw [← hrq, e]; exact idxOf_append_mem hft
    rw [idxOf_cons_ne' hfc] at hidx
    refine ⟨hfr, ?_⟩
    show r.idxOf f + a + 2 ≤ t.a.nf
    by_cases hp : 0 < a
    · have := (hk1 f a hfo hp).2; omega
    · have h1 : (c :: r).idxOf f < (c :: r).length := List.idxOf_lt_length_of_mem hmem
      rw [idxOf_cons_ne' hfc] at h1
      rw [hrq] at hlen
      omega

theorem ver_afterUpdate {t : S} (hk1 : ∀ f a, (f, a) ∈ t.a.owed → 0 < a → Bound t f a 1)
    (hin : ∀ f ∈ t.a.atBegin, f ∈ t.k.runq) (hq : QOk t.k)
    (hsc : ∀ f, (f ∈ t.k.runq ∨ f ∈ t.k.timerq) → f < t.a.nf) (hd : t.a.disturbed = false) (hpos : 1 ≤ t.a.nf) :
    (afterUpdate t).a.verdict = t.a.verdict := by
  unfold afterUpdate dispatch
  cases hrq : (handleTimerq t.k).runq with
  | nil =>
    have eg : getNextTask (handleTimerq t.k) = { handleTimerq t.k with current := none } := by
      unfold getNextTask; split
      · rfl
      · rename_i e'; rw [hrq] at e'; cases e'
    rw [eg]
  | cons c r =>
    have eg : getNextTask (handleTimerq t.k) = { handleTimerq t.k with current := some c, runq := r } := by
      unfold getNextTask; split
      · rename_i e'; rw [hrq] at e'; cases e'
      · rename_i f' r' e'; rw [hrq] at e'; cases e'; rfl
    rw [eg]
    show (body { t with k := { handleTimerq t.k with current := some c, runq := r } } c).a.verdict = _
    unfold body
    exact ver_bodyOf (kpost_pop hk1 hin hq hsc c r hrq) hd hpos c

theorem ver_afterDrain {n : Nat} {t : S} (h : MonK t) (hb : MonB t.a) (hq : QOk t.k) (hsc : Scope n t) (hn : t.a.nf = n)
    (hdd : DrainDone t) (c : Cont) (hcf : ∀ f, contFid c = some f → f < n) : (afterDrain t c).a.verdict = t.a.verdict := by
  have scq : ∀ f, (f ∈ t.k.runq ∨ f ∈ t.k.timerq) → f < t.a.nf := by rw [hn]; exact hsc.q
  cases c with
  | run f => rfl
  | kill f => exact verdict_neutral t.a (.killed f) trivial
  | pass1 =>
    simp only [afterDrain]
    split
    · exact ver_afterUpdate h.k1 (h.k5 hdd) hq scq hb.dist hb.nfpos
    · split
      · rfl
      · rfl
      · exact ver_afterUpdate (t := { t with k := { t.k with priv := _ } }) h.k1 (h.k5 hdd) (qok_lists hq rfl rfl) scq hb.dist hb.nfpos
      · exact ver_afterUpdate h.k1 (h.k5 hdd) hq scq hb.dist hb.nfpos
  | pass2 c =>
    have hc : c < n := hcf c rfl
    have hks : KScope n (makeRunnable t.k c) := kscope_makeRunnable ⟨hsc.q, hsc.cur⟩ c hc
    exact ver_afterUpdate (t := { t with k := makeRunnable t.k c })
      (fun g a hga hp => bound_makeRunnable (h.k1 g a hga hp))
      (fun g hg => (mem_runq_makeRunnable c g).mpr (Or.inl (h.k5 hdd g hg)))
      (qok_makeRunnable hq c) (by rw [hn]; exact hks.q) hb.dist hb.nfpos

theorem ver_mainAtomic (s : S) : (mainAtomic s).a.verdict = s.a.verdict := by
  unfold mainAtomic
  split
  · exact verdict_neutral s.a .looked trivial
  · rfl
  · rfl
  · rfl
  · rfl
  · rfl
  · exact verdict_neutral s.a .looked trivial
  · rfl

theorem ver_mainPlain {n : Nat} {s : S} (hr : Reach s) (hb : MonB s.a) (hsc : Scope n s) (hn : s.a.nf = n) (hk : MonK s)
    (ho : MonO s) : (mainPlain s).a.verdict = s.a.verdict := by
  have h1 := reach_inv1 hr
  have hq2 := (reach_inv2 hr).q
  have hma := h1.mainAq
  unfold mainPlain
  split
  · rename_i c hpc
    cases c with
    | next t =>
      simp only [startCall]; unfold startNext
      split <;> exact verdict_neutral s.a .passBegin trivial
    | run f => rfl
    | kill f => rfl
  · rename_i e hpc
    split
    · rename_i he
      subst he
      have hnil := hk.k3 hpc
      exact ver_dispatch ⟨hk.k1, fun f a _ hb' => by rw [hnil] at hb'; cases hb'⟩ hb.dist hb.nfpos
    · rfl
  · rename_i c hpc
    rw [hpc] at hma
    split
    · rfl
    · rename_i hnh
      rcases hma with hma | ⟨sl, k, hrv⟩
      · exact ver_afterDrain hk hb hq2 hsc hn (Or.inl ⟨c, hpc, hma⟩) c (fun f hf => hsc.mpc f (by rw [hpc]; exact hf))
      · exact absurd hrv (hnh sl k)
  · rfl
  · rename_i hpc
    have hdd : DrainDone s := Or.inr (Or.inr hpc)
    have e1 : (resetPriv s).k.runq = s.k.runq := by unfold resetPriv; split <;> rfl
    have e2 : (resetPriv s).k.timerq = s.k.timerq := by unfold resetPriv; split <;> rfl
    have e3 : (resetPriv s).a = s.a := by unfold resetPriv; split <;> rfl
    rw [← e3]
    refine ver_afterUpdate (t := resetPriv s) ?_ ?_ (qok_lists hq2 e1 e2) ?_ (by rw [e3]; exact hb.dist) (by rw [e3]; exact hb.nfpos)
    · intro f a hfa hp
      rw [e3] at hfa
      exact bound_congr e1 (by rw [e3]) (hk.k1 f a hfa hp)
    · intro f hf; rw [e3] at hf; rw [e1]; exact hk.k5 hdd f hf
    · intro f hf; rw [e1, e2] at hf; rw [e3, hn]; exact hsc.q f hf
  · rename_i hpc
    have hpp : PastPop s.mpc := by rw [hpc]; trivial
    split
    · rename_i sl k hrv
      exact verdict_evProcessed hr sl k hrv
    · exact ver_returned ⟨hk.k1, hk.k2 hpp⟩ hb.dist hb.nfpos _
  · rfl
  · -- the pass returns the value computed after the final check
    rename_i e hpc
    refine ver_finishPass ⟨hk.k1, hk.k2 (by rw [hpc]; trivial)⟩ hb.dist hb.nfpos _ (fun hc => ?_)
    have hy := ho.yn (by rw [hpc]; trivial)
    rw [hy, hb.dist] at hc
    simp only [Bool.false_or, Bool.not_false, Bool.and_true] at hc
    apply ho.snapw e hpc
    intro hnil
    rw [hnil] at hc
    cases hc
  · rfl

/-- **the monitor's verdict on the model's own observations is `ok`** in every state of a run-to-completion execution
    whose calls name existing fibres -/
theorem reachR_verdict {n : Nat} {s : S} (hr : ReachR n s) : s.a.verdict = .ok := by
  induction hr with
  | init d kinds budgets h1 h32 hn => rfl
  | mainPlain hr _ ih =>
    rw [ver_mainPlain (reachR_reach hr) (reachR_monB hr) (reachR_scope hr) (reachR_nf hr) (reachR_monK hr) (reachR_monO hr)]; exact ih
  | mainAtomic _ _ ih => rw [ver_mainAtomic]; exact ih
  | enterMain c _ _ hidle _ ih => exact ih
  | senderPlain i hi _ ih => rw [(specSame_emits (sobs_senderPlain i _)).verdict]; exact ih
  | senderAtomic i hi _ ih => rw [(specSame_emits (sobs_senderAtomic i _)).verdict]; exact ih
  | enterSender i c hi _ hidle _ ih => exact ih
  | tok t _ ih => exact ih
  | nops k _ ih => exact ih
  | newItem _ ih => exact ih
  | noYields _ ih => exact ih

end Librfn.Isr.L

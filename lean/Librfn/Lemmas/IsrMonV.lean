import Librfn.Lemmas.IsrMonK
/-! C06 refinement: the monitor's verdict on the model's own observations stays `ok` (run-to-completion executions whose
calls name existing fibres), and after a quiescent run that ends idle nothing is owed and no event is outstanding. -/
namespace Librfn.Isr.L
open Librfn.Model.MessageqConc Librfn.Model.FibreIsr Librfn.C04
open Librfn.Sched (Fid Ret)
open Librfn.Spec.IsrSpec
open Librfn.Model.Fibre (K upd makeRunnable handleTimerq getNextTask fibreTimeout timerqLoop)

/-! ## the verdict -/

/-- observations that cannot change the verdict -/
def VerdictNeutral : Obs → Prop
  | .evProcessed _ | .passEnd _ => False
  | _ => True

theorem verdict_neutral (a : A) (o : Obs) (h : VerdictNeutral o) : (a.step o).verdict = a.verdict := by
  cases o with
  | evProcessed st => exact False.elim h
  | passEnd b => exact False.elim h
  | accepted f => exact (specSame_accepted a f).verdict
  | rejected f => rfl
  | dispatched f => rfl
  | killed f => simp only [A.step]; split <;> rfl
  | evClaimed st => rfl
  | evSent st ok => exact (specSame_evSent a st ok).verdict
  | passBegin => rfl
  | looked => rfl
  | bodyReturned y => rfl
  | threadBegin => rfl
  | threadEnd => rfl

/-- the end of a pass: no `oversleeps` (the value returned is on time whenever the monitor knows of a reason) and no
    `starved` (no aged entry has reached `nf`) -/
theorem verdict_passEnd (a : A) (b : Bool) (hd : a.disturbed = false)
    (hos : (a.yieldedNow || (a.snap.any (fun f => decide (f ∈ a.owedFids)) && !a.disturbed)) = true → b = true)
    (hag : ∀ x ∈ a.aged, x.2 < a.nf) : (a.step (.passEnd b)).verdict = a.verdict := by
  have hc : ((a.yieldedNow || (a.snap.any (fun f => decide (f ∈ a.owedFids)) && !a.disturbed)) && !b) = false := by
    cases hcond : (a.yieldedNow || (a.snap.any (fun f => decide (f ∈ a.owedFids)) && !a.disturbed)) with
    | false => rfl
    | true => rw [hos hcond]; rfl
  simp only [A.step, hc, Bool.false_eq_true, if_false]
  unfold A.ageOwed
  rw [hd]
  simp only [Bool.false_eq_true, if_false]
  have hnone : a.aged.find? (fun x => decide (x.2 ≥ a.nf)) = none := by
    rw [List.find?_eq_none]
    intro x hx
    have := hag x hx
    simp only [ge_iff_le, decide_eq_true_eq]; omega
  rw [hnone]

theorem ver_finishPass {t : S} (h : KPost t) (hd : t.a.disturbed = false) (hpos : 1 ≤ t.a.nf) (v : BitVec 32)
    (hos : (t.a.yieldedNow || (t.a.snap.any (fun f => decide (f ∈ t.a.owedFids)) && !t.a.disturbed)) = true → v = t.k.now) :
    (finishPass t v).a.verdict = t.a.verdict :=
  verdict_passEnd t.a _ hd (fun hc => by rw [hos hc]; exact decide_eq_true rfl) (aged_lt_nf h hpos)

theorem ver_returned {t : S} (h : KPost t) (hd : t.a.disturbed = false) (hpos : 1 ≤ t.a.nf) (r : Ret) :
    (returned t r).a.verdict = t.a.verdict := by
  unfold returned
  split
  · refine (ver_finishPass (t := emit (.bodyReturned true) (tok (.bret r) { t with k := { t.k with state := r } })) ?_ hd hpos _ (fun _ => rfl)).trans ?_
    · exact kpost_congr h rfl rfl rfl rfl
    · rfl
  · rfl

theorem ver_bodyStep {t : S} (h : KPost t) (hd : t.a.disturbed = false) (hpos : 1 ≤ t.a.nf) :
    (bodyStep t).a.verdict = t.a.verdict := by
  unfold bodyStep
  split
  · exact ver_returned h hd hpos _
  · rfl
  · rfl

theorem ver_bodyOf {t : S} (h : KPost t) (hd : t.a.disturbed = false) (hpos : 1 ≤ t.a.nf) (c : Fid) :
    (bodyOf t c).a.verdict = t.a.verdict := by
  unfold bodyOf
  split
  · rfl
  · split
    · refine ver_returned ?_ ?_ ?_ _
      · exact kpost_congr h rfl rfl rfl rfl
      · exact hd
      · exact hpos
    · exact ver_returned h hd hpos _
  · split
    · refine ver_returned ?_ ?_ ?_ _
      · refine kpost_congr h ?_ rfl rfl rfl
        simp only [tok_k]; rw [runq_fibreTimeout, runq_fibreTimeout]
      · exact hd
      · exact hpos
    · refine ver_returned ?_ ?_ ?_ _
      · refine kpost_congr h ?_ rfl rfl rfl
        simp only [tok_k]; rw [runq_fibreTimeout]
      · exact hd
      · exact hpos
  · exact ver_returned h hd hpos _
  · exact ver_bodyStep h hd hpos

theorem ver_body {t : S} (h : KPost t) (hd : t.a.disturbed = false) (hpos : 1 ≤ t.a.nf) (c : Fid) :
    (body t c).a.verdict = t.a.verdict :=
  ver_bodyOf (kpost_discharge h c) hd hpos c

theorem ver_dispatch {t : S} (h : KPost t) (hd : t.a.disturbed = false) (hpos : 1 ≤ t.a.nf) :
    (dispatch t).a.verdict = t.a.verdict := by
  unfold dispatch
  split
  · exact ver_body h hd hpos _
  · rfl

/-- the state after `get_next_task` popped `c` and the monitor discharged it satisfies the bounds of the new phase -/
theorem kpost_pop {t : S} (hk1 : ∀ f a, (f, a) ∈ t.a.owed → 0 < a → Bound t f a 1)
    (hin : ∀ f ∈ t.a.atBegin, f ∈ t.k.runq) (hq : QOk t.k)
    (hsc : ∀ f, (f ∈ t.k.runq ∨ f ∈ t.k.timerq) → f < t.a.nf) (c : Fid) (r : List Fid)
    (hrq : (handleTimerq t.k).runq = c :: r) :
    KPost (tok (.disp c) (emit (.dispatched c)
      { ({ t with k := { handleTimerq t.k with current := some c, runq := r } } : S) with dispatchedNow := true })) := by
  obtain ⟨l, e, hl, _⟩ := handleTimerq_prefix t.k
  have hq' := qok_handleTimerq hq
  have hlen : (handleTimerq t.k).runq.length ≤ t.a.nf := by
    apply length_le_of_bounded hq'.rn
    intro x hx
    rw [e] at hx
    rcases List.mem_append.mp hx with h | h
    · exact hsc x (Or.inl h)
    · exact hsc x (Or.inr (hl x h))
  refine ⟨fun f a hfa hp => ?_, fun f a hfa hb => ?_⟩
  all_goals
    have hfa' : (f, a) ∈ t.a.owed.filter (fun x => x.1 ≠ c) := hfa
    have hfo := (List.mem_filter.mp hfa').1
    have hfc : f ≠ c := by simpa using (List.mem_filter.mp hfa').2
  · have hb := hk1 f a hfo hp
    have hmem : f ∈ c :: r := by rw [← hrq, e]; exact List.mem_append_left _ hb.1
    have hfr : f ∈ r := by rcases List.mem_cons.mp hmem with e' | e'; exact absurd e' hfc; exact e'
    have hidx : (c :: r).idxOf f = t.k.runq.idxOf f := by rw [← hrq, e]; exact idxOf_append_mem hb.1
    rw [idxOf_cons_ne' hfc] at hidx
    refine ⟨hfr, ?_⟩
    show r.idxOf f + a + 1 ≤ t.a.nf
    have := hb.2; omega
  · have hb' : f ∈ t.a.atBegin.filter (· ≠ c) := hb
    have hft := hin f (List.mem_filter.mp hb').1
    have hmem : f ∈ c :: r := by rw [← hrq, e]; exact List.mem_append_left _ hft
    have hfr : f ∈ r := by rcases List.mem_cons.mp hmem with e' | e'; exact absurd e' hfc; exact e'
    have hidx : (c :: r).idxOf f = t.k.runq.idxOf f := by rw [← hrq, e]; exact idxOf_append_mem hft
    rw [idxOf_cons_ne' hfc] at hidx
    refine ⟨hfr, ?_⟩
    show r.idxOf f + a + 2 ≤ t.a.nf
    by_cases hp : 0 < a
    · have := (hk1 f a hfo hp).2; omega
    · have h1 : (c :: r).idxOf f < (c :: r).length := List.idxOf_lt_length_of_mem hmem
      rw [idxOf_cons_ne' hfc] at h1
      rw [hrq] at hlen
      omega

theorem ver_afterUpdate {t : S} (hk1 : ∀ f a, (f, a) ∈ t.a.owed → 0 < a → Bound t f a 1)
    (hin : ∀ f ∈ t.a.atBegin, f ∈ t.k.runq) (hq : QOk t.k)
    (hsc : ∀ f, (f ∈ t.k.runq ∨ f ∈ t.k.timerq) → f < t.a.nf) (hd : t.a.disturbed = false) (hpos : 1 ≤ t.a.nf) :
    (afterUpdate t).a.verdict = t.a.verdict := by
  unfold afterUpdate dispatch
  cases hrq : (handleTimerq t.k).runq with
  | nil =>
    have eg : getNextTask (handleTimerq t.k) = { handleTimerq t.k with current := none } := by
      unfold getNextTask; split
      · rfl
      · rename_i e'; rw [hrq] at e'; cases e'
    rw [eg]
  | cons c r =>
    have eg : getNextTask (handleTimerq t.k) = { handleTimerq t.k with current := some c, runq := r } := by
      unfold getNextTask; split
      · rename_i e'; rw [hrq] at e'; cases e'
      · rename_i f' r' e'; rw [hrq] at e'; cases e'; rfl
    rw [eg]
    show (body { t with k := { handleTimerq t.k with current := some c, runq := r } } c).a.verdict = _
    unfold body
    exact ver_bodyOf (kpost_pop hk1 hin hq hsc c r hrq) hd hpos c

theorem ver_afterDrain {n : Nat} {t : S} (h : MonK t) (hb : MonB t.a) (hq : QOk t.k) (hsc : Scope n t) (hn : t.a.nf = n)
    (hdd : DrainDone t) (c : Cont) (hpb : t.mpc = .recvd c) (hcf : ∀ f, contFid c = some f → f < n) :
    (afterDrain t c).a.verdict = t.a.verdict := by
  have scq : ∀ f, (f ∈ t.k.runq ∨ f ∈ t.k.timerq) → f < t.a.nf := by rw [hn]; exact hsc.q
  cases c with
  | run f => rfl
  | kill f => exact verdict_neutral t.a (.killed f) trivial
  | pass1 =>
    simp only [afterDrain]
    split
    · exact ver_afterUpdate h.k1 (h.k5 hdd) hq scq hb.dist hb.nfpos
    · split
      · rfl
      · rfl
      · exact ver_afterUpdate (t := { t with k := { t.k with priv := _ } }) h.k1 (h.k5 hdd) (qok_lists hq rfl rfl) scq hb.dist hb.nfpos
      · exact ver_afterUpdate h.k1 (h.k5 hdd) hq scq hb.dist hb.nfpos
  | pass2 c =>
    have hc : c < n := hcf c rfl
    have hks : KScope n (makeRunnable t.k c) := kscope_makeRunnable ⟨hsc.q, hsc.cur⟩ c hc
    exact ver_afterUpdate (t := { t with k := makeRunnable t.k c })
      (fun g a hga hp => bound_makeRunnable (h.k1 g a hga hp))
      (fun g hg => (mem_runq_makeRunnable c g).mpr (Or.inl (h.k5 hdd g hg)))
      (qok_makeRunnable hq c) (by rw [hn]; exact hks.q) hb.dist hb.nfpos
  | brun g => exact ver_bodyStep (kpost_brunPre h (hpb ▸ trivial) g) hb.dist hb.nfpos
  | bkill g =>
    have hv : (bkillPre t g).a.verdict = t.a.verdict := verdict_neutral t.a (.killed g) trivial
    rw [← hv]
    refine ver_bodyStep (kpost_bkillPre h (hpb ▸ trivial) g) ?_ ?_
    · show (t.a.step (.killed g)).disturbed = false
      rw [disturbed_killed]; exact hb.dist
    · show 1 ≤ (t.a.step (.killed g)).nf
      rw [nf_step]; exact hb.nfpos

theorem ver_mainAtomic (s : S) : (mainAtomic s).a.verdict = s.a.verdict := by
  unfold mainAtomic
  split
  · exact verdict_neutral s.a .looked trivial
  · rfl
  · rfl
  · rfl
  · rfl
  · rfl
  · exact verdict_neutral s.a .looked trivial
  · rfl

theorem ver_mainPlain {n : Nat} {s : S} (hr : Reach s) (hb : MonB s.a) (hsc : Scope n s) (hn : s.a.nf = n) (hk : MonK s)
    (ho : MonO s) : (mainPlain s).a.verdict = s.a.verdict := by
  have h1 := reach_inv1 hr
  have hq2 := (reach_inv2 hr).q
  have hma := h1.mainAq
  unfold mainPlain
  split
  · rename_i c hpc
    cases c with
    | next t =>
      simp only [startCall]; unfold startNext
      split <;> exact verdict_neutral s.a .passBegin trivial
    | run f => rfl
    | kill f => rfl
  · rename_i e hpc
    split
    · rename_i he
      subst he
      have hnil := hk.k3 hpc
      exact ver_dispatch ⟨hk.k1, fun f a _ hb' => by rw [hnil] at hb'; cases hb'⟩ hb.dist hb.nfpos
    · rfl
  · rename_i c hpc
    rw [hpc] at hma
    split
    · rfl
    · rename_i hnh
      rcases hma with hma | ⟨sl, k, hrv⟩
      · exact ver_afterDrain hk hb hq2 hsc hn (Or.inl ⟨c, hpc, hma⟩) c hpc (fun f hf => hsc.mpc f (by rw [hpc]; exact hf))
      · exact absurd hrv (hnh sl k)
  · rfl
  · rename_i hpc
    have hdd : DrainDone s := Or.inr (Or.inr hpc)
    have e1 : (resetPriv s).k.runq = s.k.runq := by unfold resetPriv; split <;> rfl
    have e2 : (resetPriv s).k.timerq = s.k.timerq := by unfold resetPriv; split <;> rfl
    have e3 : (resetPriv s).a = s.a := by unfold resetPriv; split <;> rfl
    rw [← e3]
    refine ver_afterUpdate (t := resetPriv s) ?_ ?_ (qok_lists hq2 e1 e2) ?_ (by rw [e3]; exact hb.dist) (by rw [e3]; exact hb.nfpos)
    · intro f a hfa hp
      rw [e3] at hfa
      exact bound_congr e1 (by rw [e3]) (hk.k1 f a hfa hp)
    · intro f hf; rw [e3] at hf; rw [e1]; exact hk.k5 hdd f hf
    · intro f hf; rw [e1, e2] at hf; rw [e3, hn]; exact hsc.q f hf
  · rename_i hpc
    have hpp : PastPop s.mpc := by rw [hpc]; trivial
    split
    · rename_i sl k hrv
      exact verdict_evProcessed hr sl k hrv
    · exact ver_returned ⟨hk.k1, hk.k2 hpp⟩ hb.dist hb.nfpos _
  · rfl
  · -- the pass returns the value computed after the final check
    rename_i e hpc
    refine ver_finishPass ⟨hk.k1, hk.k2 (by rw [hpc]; trivial)⟩ hb.dist hb.nfpos _ (fun hc => ?_)
    have hy := ho.yn (by rw [hpc]; trivial)
    rw [hy, hb.dist] at hc
    simp only [Bool.false_or, Bool.not_false, Bool.and_true] at hc
    apply ho.snapw e hpc
    intro hnil
    rw [hnil] at hc
    cases hc
  · rfl

/-- **the monitor's verdict on the model's own observations is `ok`** in every state of a run-to-completion execution
    whose calls name existing fibres -/
theorem reachR_verdict {n : Nat} {s : S} (hr : ReachR n s) : s.a.verdict = .ok := by
  induction hr with
  | init d kinds budgets h1 h32 hn => rfl
  | mainPlain hr _ ih =>
    rw [ver_mainPlain (reachR_reach hr) (reachR_monB hr) (reachR_scope hr) (reachR_nf hr) (reachR_monK hr) (reachR_monO hr)]; exact ih
  | mainAtomic _ _ ih => rw [ver_mainAtomic]; exact ih
  | enterMain c _ _ hidle _ ih => exact ih
  | senderPlain i hi _ ih => rw [(specSame_emits (sobs_senderPlain i _)).verdict]; exact ih
  | senderAtomic i hi _ ih => rw [(specSame_emits (sobs_senderAtomic i _)).verdict]; exact ih
  | enterSender i c hi _ hidle _ ih => exact ih
  | tok t _ ih => exact ih
  | nops k _ ih => exact ih
  | newItem _ ih => exact ih
  | noYields _ ih => exact ih
  | setBody b r hb _ ih => exact ih

/-! ## the quiescent run: an uninterrupted pass that dispatches nothing leaves nothing owed -/

theorem dn_finishPass (s : S) (v : BitVec 32) : (finishPass s v).dispatchedNow = s.dispatchedNow := rfl
theorem dn_returned (s : S) (r : Ret) : (returned s r).dispatchedNow = s.dispatchedNow := by
  unfold returned; split <;> rfl
theorem dn_bodyStep (s : S) : (bodyStep s).dispatchedNow = s.dispatchedNow := by
  unfold bodyStep; split
  · rw [dn_returned]
  · rfl
  · rfl
theorem dn_bodyOf (s : S) (c : Fid) : (bodyOf s c).dispatchedNow = s.dispatchedNow := by
  unfold bodyOf
  split
  · rfl
  · split <;> rw [dn_returned]
  · split <;> rw [dn_returned] <;> rfl
  · rw [dn_returned]
  · rw [dn_bodyStep]
theorem dn_body (s : S) (c : Fid) : (body s c).dispatchedNow = true := by
  unfold body; rw [dn_bodyOf]; rfl

/-- a dispatch that dispatched nothing: there was no current fibre -/
theorem dispatch_idle (s : S) (h : (dispatch s).dispatchedNow = false) :
    s.k.current = none ∧ dispatch s = { s with mpc := .wake } := by
  cases hc : s.k.current with
  | some c =>
    have : dispatch s = body s c := by unfold dispatch; rw [hc]
    rw [this, dn_body] at h; cases h
  | none =>
    refine ⟨rfl, ?_⟩
    unfold dispatch; rw [hc]

theorem afterUpdate_idle (t : S) (h : (afterUpdate t).dispatchedNow = false) :
    (handleTimerq t.k).runq = [] ∧ (afterUpdate t).a = t.a ∧ (afterUpdate t).mpc = .wake := by
  unfold afterUpdate at h ⊢
  obtain ⟨hc, e⟩ := dispatch_idle _ h
  rw [e]
  refine ⟨?_, rfl, rfl⟩
  have hc' : (getNextTask (handleTimerq t.k)).current = none := hc
  unfold getNextTask at hc'
  split at hc'
  · assumption
  · cases hc'

/-- inside the dispatch of a fibre: the handler's receive loop, or a call made by a scripted body -/
def InBody : MPc → Prop
  | .hRecv | .hRecvd | .hRel | .hReld => True
  | .recv c | .recvd c | .rel c | .reld c => BodyCont c
  | _ => False

/-- inside an uninterrupted pass that has not (yet) dispatched anything -/
structure QI (s : S) : Prop where
  pc : PassPc s.mpc ∨ s.mpc = .idle ∨ ∃ t, s.mpc = .start (.next t)
  fd : s.dispatchedNow = false → s.mpc = .fastDone true → s.a.owedFids = []
  dd : s.dispatchedNow = false → DrainDone s → ∀ f ∈ s.a.owedFids, f ∈ s.k.runq
  done : s.dispatchedNow = false → (s.mpc = .wake ∨ (∃ e, s.mpc = .woke e) ∨ s.mpc = .idle) → s.a.owedFids = []
  hb : InBody s.mpc → s.dispatchedNow = true

theorem dn_mainAtomic (s : S) : (mainAtomic s).dispatchedNow = s.dispatchedNow := by
  unfold mainAtomic; split <;> rfl

theorem qi_mainAtomic {s : S} (hr : Reach s) (hq : Quiet s) (h : QI s) (hni : s.mpc ≠ .idle) : QI (mainAtomic s) := by
  have h1 := reach_inv1 hr
  have hma := h1.mainAq
  unfold mainAtomic
  split
  · -- fast-path check
    rename_i hpc
    refine ⟨Or.inl trivial, fun _ hf => ?_, fun _ hd => ?_, fun _ hd => ?_, (fun hh => False.elim hh)⟩
    · have hf' : MPc.fastDone (mqEmpty s.aq) = MPc.fastDone true := hf
      injection hf' with he
      have hfast := (reach_inv2 hr).fast (by rw [hpc]; trivial)
      show s.a.owedFids = []
      cases hl : s.a.owedFids with
      | nil => rfl
      | cons f r =>
        exfalso
        have hf : f ∈ s.a.owedFids := by rw [hl]; exact List.mem_cons_self
        rcases reach_inv3 hr f hf with h' | h' | ⟨c, _, _, hc, _, _⟩
        · have := not_empty_of_inAq h1 (reach_owned hr).1 hq h'
          rw [this] at he; cases he
        · rw [hfast.1] at h'; cases h'
        · rw [hpc] at hc; cases hc
    · rcases hd with ⟨c, hc, _⟩ | hc | hc <;> cases hc
    · rcases hd with hc | ⟨e, hc⟩ | hc <;> cases hc
  · rename_i c hpc
    rw [hpc] at hma
    have hpass : PassCont c := by
      rcases h.pc with hp | hp | ⟨t, hp⟩
      · rw [hpc] at hp; exact hp
      · exact absurd hp hni
      · rw [hpc] at hp; cases hp
    refine ⟨Or.inl hpass, (fun _ hf => by cases hf), fun _ hd f hf => ?_, fun _ hd => ?_, (fun hh => h.hb (by rw [hpc]; exact hh))⟩
    · rcases hd with ⟨c', _, hidle⟩ | hc | hc
      · have hidle' : (step s.aq (.recv false)).recv = .idle := hidle
        exact owed_in_runq hr (noHeld_of_mpc (by rw [hpc]; intro c; simp)) (drain_complete h1 (reach_owned hr).1 hq hma hidle') f hf
      · cases hc
      · cases hc
    · rcases hd with hc | ⟨e, hc⟩ | hc <;> cases hc
  · rename_i c hpc
    have hpass : PassCont c := by
      rcases h.pc with hp | hp | ⟨t, hp⟩
      · rw [hpc] at hp; exact hp
      · exact absurd hp hni
      · rw [hpc] at hp; cases hp
    refine ⟨Or.inl hpass, (fun _ hf => by cases hf), fun _ hd => ?_, fun _ hd => ?_, (fun hh => h.hb (by rw [hpc]; exact hh))⟩
    · rcases hd with ⟨c', hc, _⟩ | hc | hc <;> cases hc
    · rcases hd with hc | ⟨e, hc⟩ | hc <;> cases hc
  · rename_i hpc
    refine ⟨Or.inl trivial, (fun _ hf => by cases hf), fun hdn _ => h.dd hdn (Or.inr (Or.inl hpc)), fun _ hd => ?_, (fun hh => False.elim hh)⟩
    rcases hd with hc | ⟨e, hc⟩ | hc <;> cases hc
  · rename_i hpc
    refine ⟨Or.inl trivial, (fun _ hf => by cases hf), fun _ hd => ?_, fun _ hd => ?_, fun _ => h.hb (by rw [hpc]; trivial)⟩
    · rcases hd with ⟨c', hc, _⟩ | hc | hc <;> cases hc
    · rcases hd with hc | ⟨e, hc⟩ | hc <;> cases hc
  · rename_i hpc
    refine ⟨Or.inl trivial, (fun _ hf => by cases hf), fun _ hd => ?_, fun _ hd => ?_, fun _ => h.hb (by rw [hpc]; trivial)⟩
    · rcases hd with ⟨c', hc, _⟩ | hc | hc <;> cases hc
    · rcases hd with hc | ⟨e, hc⟩ | hc <;> cases hc
  · rename_i hpc
    refine ⟨Or.inl trivial, (fun _ hf => by cases hf), fun _ hd => ?_, fun hdn _ => ?_, (fun hh => False.elim hh)⟩
    · rcases hd with ⟨c', hc, _⟩ | hc | hc <;> cases hc
    · show (s.a.step .looked).owedFids = []
      rw [owedFids_neutral s.a .looked trivial]
      exact h.done hdn (Or.inl hpc)
  · exact h

theorem AfterBody.pass {pc : MPc} (h : AfterBody pc) : PassPc pc ∨ pc = .idle ∨ ∃ t, pc = .start (.next t) := by
  cases pc <;> first | exact False.elim h | exact Or.inl trivial | exact Or.inr (Or.inl rfl)

theorem BodyCont.pass {c : Cont} (h : BodyCont c) : PassCont c := by
  cases c <;> first | exact False.elim h | trivial

theorem BodyPost.pass {s' : S} (h : BodyPost s') : PassPc s'.mpc ∨ s'.mpc = .idle ∨ ∃ t, s'.mpc = .start (.next t) := by
  rcases h with h | ⟨c, hc, hm, _⟩
  · exact h.pass
  · left; rw [hm]; exact hc.pass

theorem dn_dispatch_true (s : S) (h : s.dispatchedNow = true) : (dispatch s).dispatchedNow = true := by
  unfold dispatch; split
  · exact dn_body _ _
  · exact h

/-- a state in which something has been dispatched satisfies `QI` as soon as its control location is one of a pass -/
theorem qi_dispatched {s' : S} (hpc : PassPc s'.mpc ∨ s'.mpc = .idle ∨ ∃ t, s'.mpc = .start (.next t)) (hd : s'.dispatchedNow = true) : QI s' :=
  ⟨hpc, (fun h => by rw [hd] at h; cases h), (fun h => by rw [hd] at h; cases h), (fun h => by rw [hd] at h; cases h), fun _ => hd⟩

/-- `handle_timerq` … dispatch, in an uninterrupted pass that has dispatched nothing so far and in which every owed
    fibre is on the run queue -/
theorem qi_afterUpdate {t : S} (hq : QOk t.k) (hin : t.dispatchedNow = false → ∀ f ∈ t.a.owedFids, f ∈ t.k.runq) : QI (afterUpdate t) := by
  cases hdn : (afterUpdate t).dispatchedNow with
  | true => exact qi_dispatched (bodyPost_afterUpdate t).pass hdn
  | false =>
    obtain ⟨hnil, ha, hm⟩ := afterUpdate_idle t hdn
    have hdt : t.dispatchedNow = false := by
      have : (afterUpdate t).dispatchedNow = t.dispatchedNow := by
        unfold afterUpdate
        rw [(dispatch_idle _ hdn).2]
      rw [← this]; exact hdn
    have hnone : (afterUpdate t).a.owedFids = [] := by
      rw [ha]
      cases hl : t.a.owedFids with
      | nil => rfl
      | cons f r =>
        have := mem_runq_handleTimerq hq (hin hdt f (by rw [hl]; exact List.mem_cons_self))
        rw [hnil] at this; cases this
    refine ⟨Or.inl (by rw [hm]; trivial), (fun _ hf => by rw [hm] at hf; cases hf), fun _ hd => ?_, fun _ _ => hnone,
            (fun hh => by rw [hm] at hh; rcases hh with e | e | e | e <;> cases e)⟩
    unfold DrainDone at hd
    rw [hm] at hd
    rcases hd with ⟨c, hc, _⟩ | hc | hc <;> cases hc

theorem qi_mainPlain {s : S} (hr : Reach s) (h : QI s) (hni : s.mpc ≠ .idle) : QI (mainPlain s) := by
  have h1 := reach_inv1 hr
  have hq2 := (reach_inv2 hr).q
  have hma := h1.mainAq
  unfold mainPlain
  split
  · -- start c: the pass is entered
    rename_i c hpc
    have hc : ∃ t, c = .next t := by
      rcases h.pc with hp | hp | ⟨t, hp⟩
      · rw [hpc] at hp; exact False.elim hp
      · exact absurd hp hni
      · rw [hpc] at hp; injection hp with hp; exact ⟨t, hp⟩
    obtain ⟨t, rfl⟩ := hc
    simp only [startCall]; unfold startNext
    split
    · refine ⟨Or.inl trivial, (fun _ hf => by cases hf), fun _ hd => ?_, fun _ hd => ?_, (fun hh => False.elim hh)⟩
      · rcases hd with ⟨c', hc, _⟩ | hc | hc <;> cases hc
      · rcases hd with hc | ⟨e, hc⟩ | hc <;> cases hc
    · refine ⟨Or.inl trivial, (fun _ hf => by cases hf), fun _ hd => ?_, fun _ hd => ?_, (fun hh => False.elim hh)⟩
      · rcases hd with ⟨c', hc, _⟩ | hc | hc <;> cases hc
      · rcases hd with hc | ⟨e, hc⟩ | hc <;> cases hc
  · -- fastDone
    rename_i e hpc
    split
    · rename_i he
      subst he
      cases hdn : (dispatch s).dispatchedNow with
      | true => exact qi_dispatched (bodyPost_dispatch s).pass hdn
      | false =>
        obtain ⟨_, e⟩ := dispatch_idle s hdn
        rw [e]
        have hds : s.dispatchedNow = false := by rw [e] at hdn; exact hdn
        refine ⟨Or.inl trivial, (fun _ hf => by cases hf), fun _ hd => ?_, fun _ _ => h.fd hds hpc, (fun hh => False.elim hh)⟩
        rcases hd with ⟨c', hc, _⟩ | hc | hc <;> cases hc
    · refine ⟨Or.inl trivial, (fun _ hf => by cases hf), fun _ hd => ?_, fun _ hd => ?_, (fun hh => False.elim hh)⟩
      · rcases hd with ⟨c', hc, _⟩ | hc | hc <;> cases hc
      · rcases hd with hc | ⟨e, hc⟩ | hc <;> cases hc
  · -- recvd c
    rename_i c hpc
    rw [hpc] at hma
    have hpass : PassCont c := by
      rcases h.pc with hp | hp | ⟨t, hp⟩
      · rw [hpc] at hp; exact hp
      · exact absurd hp hni
      · rw [hpc] at hp; cases hp
    have hdd : s.aq.recv = .idle → DrainDone s := fun hi => Or.inl ⟨c, hpc, hi⟩
    split
    · refine ⟨Or.inl hpass, (fun _ hf => by cases hf), fun _ hd => ?_, fun _ hd => ?_, (fun hh => h.hb (by rw [hpc]; exact hh))⟩
      · rcases hd with ⟨c', hc, _⟩ | hc | hc <;> cases hc
      · rcases hd with hc | ⟨e, hc⟩ | hc <;> cases hc
    · rename_i hnh
      rcases hma with hma | ⟨sl, k, hrv⟩
      · have hin : s.dispatchedNow = false → ∀ f ∈ s.a.owedFids, f ∈ s.k.runq := fun hd => h.dd hd (hdd hma)
        cases c with
        | run f => exact False.elim hpass
        | kill f => exact False.elim hpass
        | pass1 =>
          simp only [afterDrain]
          split
          · exact qi_afterUpdate hq2 hin
          · split
            · refine ⟨Or.inl trivial, (fun _ hf => by cases hf), fun _ hd => ?_, fun _ hd => ?_, (fun hh => False.elim hh)⟩
              · rcases hd with ⟨c', hc, _⟩ | hc | hc <;> cases hc
              · rcases hd with hc | ⟨e, hc⟩ | hc <;> cases hc
            · refine ⟨Or.inl trivial, (fun _ hf => by cases hf), fun hd _ => hin hd, fun _ hd => ?_, (fun hh => False.elim hh)⟩
              rcases hd with hc | ⟨e, hc⟩ | hc <;> cases hc
            · exact qi_afterUpdate (t := { s with k := { s.k with priv := _ } }) (qok_lists hq2 rfl rfl) hin
            · exact qi_afterUpdate hq2 hin
        | pass2 c' =>
          exact qi_afterUpdate (t := { s with k := makeRunnable s.k c' }) (qok_makeRunnable hq2 c')
            (fun hd f hf => (mem_runq_makeRunnable c' f).mpr (Or.inl (hin hd f hf)))
        | brun g =>
          exact qi_dispatched (bodyPost_bodyStep (brunPre s g)).pass
            ((dn_bodyStep (brunPre s g)).trans (h.hb (by rw [hpc]; trivial)))
        | bkill g =>
          exact qi_dispatched (bodyPost_bodyStep (bkillPre s g)).pass
            ((dn_bodyStep (bkillPre s g)).trans (h.hb (by rw [hpc]; trivial)))
      · exact absurd hrv (hnh sl k)
  · rename_i c hpc
    have hpass : PassCont c := by
      rcases h.pc with hp | hp | ⟨t, hp⟩
      · rw [hpc] at hp; exact hp
      · exact absurd hp hni
      · rw [hpc] at hp; cases hp
    refine ⟨Or.inl hpass, (fun _ hf => by cases hf), fun _ hd => ?_, fun _ hd => ?_, (fun hh => h.hb (by rw [hpc]; exact hh))⟩
    · rcases hd with ⟨c', hc, _⟩ | hc | hc <;> cases hc
    · rcases hd with hc | ⟨e, hc⟩ | hc <;> cases hc
  · -- taintFd
    rename_i hpc
    have e1 : (resetPriv s).k.runq = s.k.runq := by unfold resetPriv; split <;> rfl
    have e2 : (resetPriv s).k.timerq = s.k.timerq := by unfold resetPriv; split <;> rfl
    have e3 : (resetPriv s).a = s.a := by unfold resetPriv; split <;> rfl
    have e4 : (resetPriv s).dispatchedNow = s.dispatchedNow := by unfold resetPriv; split <;> rfl
    refine qi_afterUpdate (t := resetPriv s) (qok_lists hq2 e1 e2) (fun hd f hf => ?_)
    rw [e3] at hf; rw [e1]; rw [e4] at hd
    exact h.dd hd (Or.inr (Or.inr hpc)) f hf
  · -- hRecvd: only reached after a dispatch
    rename_i hpc
    have hd := h.hb (by rw [hpc]; trivial)
    split
    · exact qi_dispatched (Or.inl trivial) hd
    · exact qi_dispatched (bodyPost_returned s _).pass (by rw [dn_returned]; exact hd)
  · rename_i hpc
    exact qi_dispatched (Or.inl trivial) (h.hb (by rw [hpc]; trivial))
  · -- woke e: the pass returns
    rename_i e hpc
    refine ⟨Or.inr (Or.inl rfl), (fun _ hf => by cases hf), fun _ hd => ?_, fun hdn _ => ?_, (fun hh => False.elim hh)⟩
    · rcases hd with ⟨c', hc, _⟩ | hc | hc <;> cases hc
    · show (s.a.step (.passEnd _)).owedFids = []
      rw [owedFids_neutral s.a (.passEnd _) trivial]
      exact h.done hdn (Or.inr (Or.inl ⟨e, hpc⟩))
  · exact h

theorem mainAtomic_not_idle (s : S) (h : s.mpc ≠ .idle) : (mainAtomic s).mpc ≠ .idle := by
  unfold mainAtomic
  split <;> first | (intro e; cases e) | exact h

/-- what an uninterrupted pass ends with -/
def PassEnd (n : Nat) (s' : S) : Prop :=
  s'.hung = true ∨ (ReachR n s' ∧ Quiet s' ∧ s'.mpc = .idle ∧ (s'.dispatchedNow = false → s'.a.owedFids = []))

theorem qi_runMain {n : Nat} (c : MCall) :
    ∀ (fuel k : Nat) (s : S), ReachR n s → Quiet s → QI s → s.mpc ≠ .idle → PassEnd n (runMain noGap c fuel k s)
  | 0, _, _, _, _, _, _ => Or.inl rfl
  | fuel + 1, k, s, hr, hq, hqi, hni => by
    unfold runMain
    simp only [noGap]
    have hr1 : ReachR n (mainPlain s) := ReachR.mainPlain hr hq
    have hq1 : Quiet (mainPlain s) := fun i hi => by rw [mainPlain_ipc]; exact hq i hi
    have hqi1 : QI (mainPlain s) := qi_mainPlain (reachR_reach hr) hqi hni
    split
    · rename_i hidle
      refine Or.inr ⟨ReachR.tok _ (ReachR.nops k hr1), hq1, hidle, fun hdn => ?_⟩
      exact hqi1.done hdn (Or.inr (Or.inr hidle))
    · rename_i hnidle
      have hni1 : (mainPlain s).mpc ≠ .idle := fun e => hnidle e
      exact qi_runMain c fuel (k + 1) _ (ReachR.mainAtomic hr1 hq1)
        (fun i hi => by rw [mainAtomic_ipc]; exact hq1 i hi)
        (qi_mainAtomic (reachR_reach hr1) hq1 hqi1 hni1) (mainAtomic_not_idle _ hni1)

theorem hung_runMain_noGap (c : MCall) : ∀ (fuel k : Nat) (s : S), s.hung = true → (runMain noGap c fuel k s).hung = true
  | 0, _, _, _ => rfl
  | fuel + 1, k, s, h => by
    unfold runMain
    simp only [noGap]
    split
    · show (mainPlain s).hung = true; rw [mainPlain_hung]; exact h
    · exact hung_runMain_noGap c fuel (k + 1) _ (by rw [mainAtomic_hung, mainPlain_hung]; exact h)

theorem qi_callMain {n : Nat} {s : S} (h : Good n [] s) (t : BitVec 32) : PassEnd n (callMain noGap (.next t) s) := by
  unfold callMain
  split
  · rename_i hidle
    rcases h with hh | ⟨hr, hq⟩
    · -- already cut: every step keeps it cut
      exact Or.inl (hung_runMain_noGap _ _ _ _ hh)
    · have hq' : Quiet s := fun i hi => hq i hi List.not_mem_nil
      refine qi_runMain (.next t) _ _ _ (ReachR.enterMain _ hr hq' hidle trivial) hq' ?_ (by intro e; cases e)
      refine ⟨Or.inr (Or.inr ⟨t, rfl⟩), (fun _ hf => by cases hf), fun _ hd => ?_, fun _ hd => ?_,
              (fun hh => False.elim hh)⟩
      · rcases hd with ⟨c', hc, _⟩ | hc | hc <;> cases hc
      · rcases hd with hc | ⟨e, hc⟩ | hc <;> cases hc
  · exact Or.inl rfl

theorem good_of_passEnd {n : Nat} {s : S} (h : PassEnd n s) : Good n [] s := by
  rcases h with h | ⟨hr, hq, _, _⟩
  · exact Or.inl h
  · exact Or.inr ⟨hr, fun j hj _ => hq j hj⟩

theorem qi_quiesceLoop {n : Nat} : ∀ (m : Nat) (s : S), Good n [] s → PassEnd n (quiesceLoop (m + 1) s)
  | 0, s, h => by
    unfold quiesceLoop
    simp only
    split
    · unfold quiesceLoop; exact qi_callMain h _
    · exact qi_callMain h _
  | m + 1, s, h => by
    unfold quiesceLoop
    simp only
    split
    · exact qi_quiesceLoop m _ (good_of_passEnd (qi_callMain h _))
    · exact qi_callMain h _

/-- **after a quiescent run that ended with an idle pass nothing is owed and no event whose send returned true is
    outstanding** -/
theorem settled_of_passEnd {n : Nat} {s : S} (h : PassEnd n s) (hh : s.hung = false) (hidle : s.dispatchedNow = false) :
    s.a.owed = [] ∧ s.a.mustGet = [] ∧ s.a.verdict = .ok := by
  rcases h with e | ⟨hr, hq, hm, hown⟩
  · rw [hh] at e; cases e
  · have hof := hown hidle
    have hnil : s.a.owed = [] := by
      cases ho : s.a.owed with
      | nil => rfl
      | cons x r =>
        have : x.1 ∈ s.a.owedFids := by unfold A.owedFids; rw [ho]; exact List.mem_cons_self
        rw [hof] at this; cases this
    refine ⟨hnil, ?_, reachR_verdict hr⟩
    cases hmg : s.a.mustGet with
    | nil => rfl
    | cons x r =>
      exfalso
      rcases (reachR_monW hr).mm (by rw [hmg]; simp) with h' | h'
      · rw [hof] at h'; cases h'
      · exact not_running_of_mpc (by rw [hm]; simp) (by rw [hm]; simp) (by rw [hm]; simp) (by rw [hm]; simp) h'

instance (n : Nat) (c : MCall) : Decidable (MCallOk n c) := by cases c <;> unfold MCallOk <;> infer_instance
instance (n : Nat) (c : ICall) : Decidable (ICallOk n c) := by cases c <;> unfold ICallOk <;> infer_instance
instance (n : Nat) (e : Isr) : Decidable (IsrOk n e) := by unfold IsrOk; infer_instance
instance (n : Nat) (sc : Script) : Decidable (ScriptOk n sc) := by unfold ScriptOk; infer_instance
instance (n : Nat) (c : BCall) : Decidable (BCallOk n c) := by cases c <;> unfold BCallOk <;> infer_instance
instance (n : Nat) (it : Item) : Decidable (ItemOk n it) := by cases it <;> unfold ItemOk <;> infer_instance

end Librfn.Isr.L

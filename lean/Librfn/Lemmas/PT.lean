import Librfn.Model.PT
/-! Unfolding lemmas for `exec` (one per constructor and entry mode). -/
namespace Librfn.Model.PT
open Stmt

/-- sequencing of outcomes: continue with `k` after a normal outcome -/
def Out.andThen (r : Option Out) (k : St → Code → Nat → Option Out) : Option Out :=
  match r with
  | some (.normal st1 r1 n1 t) => (k st1 r1 n1).map (Out.prepend t)
  | r => r

theorem exec_exitOn (fuel c e res n st) : exec fuel (exitOn c) e res n st = exec fuel (ifte c exit skip) e res n st := by rw [exec]
theorem exec_failOn (fuel c e res n st) : exec fuel (failOn c) e res n st = exec fuel (ifte c fail skip) e res n st := by rw [exec]
theorem exec_sac (fuel l ch e res n st) :
    exec fuel (spawnAndCheck l ch) e res n st = exec fuel (seq (spawn l ch) (ifChildOk skip fail)) e res n st := by rw [exec]
theorem exec_call (fuel k ch e res n st) : exec fuel (call k ch) e res n st = exec fuel (spin k ch) none res n (st.initKid k) := by rw [exec]
theorem exec_spawn_at (fuel l ch res n st) : exec fuel (spawn l ch) (some l) res n st = exec fuel (join l ch) none res n st := by
  conv => lhs; rw [exec]
  simp
theorem exec_spawn_fresh (fuel l ch e res n st) (h : e ≠ some l) :
    exec fuel (spawn l ch) e res n st = exec fuel (join l ch) none res n ((st.initKid l).setPt l) := by
  conv => lhs; rw [exec]
  simp [h]
theorem exec_join (fuel l ch e e2 res n st) : exec fuel (join l ch) e res n st = exec fuel (join l ch) e2 res n st := by
  rw [exec, exec]

theorem exec_seq_none (fuel a b res n st) :
    exec fuel (seq a b) none res n st = Out.andThen (exec fuel a none res n st) (fun st1 r1 n1 => exec fuel b none r1 n1 st1) := by
  rw [exec]; rfl
theorem exec_seq_left (fuel a b l res n st) (h : l ∈ labels a) :
    exec fuel (seq a b) (some l) res n st = Out.andThen (exec fuel a (some l) res n st) (fun st1 r1 n1 => exec fuel b none r1 n1 st1) := by
  rw [exec]; simp only [h, if_true]; rfl
theorem exec_seq_right (fuel a b l res n st) (h : l ∉ labels a) :
    exec fuel (seq a b) (some l) res n st = exec fuel b (some l) res n st := by
  rw [exec]; simp only [h, if_false]
theorem exec_ifte_left (fuel c a b l res n st) (h : l ∈ labels a) :
    exec fuel (ifte c a b) (some l) res n st = exec fuel a (some l) res n st := by
  rw [exec]; simp only [h, if_true]
theorem exec_ifte_right (fuel c a b l res n st) (h : l ∉ labels a) :
    exec fuel (ifte c a b) (some l) res n st = exec fuel b (some l) res n st := by
  rw [exec]; simp only [h, if_false]
theorem exec_ifte_none (fuel c a b res n st) :
    exec fuel (ifte c a b) none res n st =
      if (evalCond c st).1 then exec fuel a none res n (evalCond c st).2 else exec fuel b none res n (evalCond c st).2 := by
  rw [exec]; rcases evalCond c st with ⟨b, s⟩; cases b <;> rfl
theorem exec_ico_left (fuel a b l res n st) (h : l ∈ labels a) :
    exec fuel (ifChildOk a b) (some l) res n st = exec fuel a (some l) res n st := by
  rw [exec]; simp only [h, if_true]
theorem exec_ico_right (fuel a b l res n st) (h : l ∉ labels a) :
    exec fuel (ifChildOk a b) (some l) res n st = exec fuel b (some l) res n st := by
  rw [exec]; simp only [h, if_false]
theorem exec_ico_none (fuel a b res n st) :
    exec fuel (ifChildOk a b) none res n st = if res ≠ .failed then exec fuel a none res n st else exec fuel b none res n st := by
  rw [exec]
theorem exec_while_some (fuel c body l res n st) :
    exec fuel (.while c body) (some l) res n st =
      Out.andThen (exec fuel body (some l) res n st) (fun st1 r1 n1 => exec fuel (.while c body) none r1 n1 st1) := by
  rw [exec]; rfl
theorem exec_while_zero (c body res n st) : exec 0 (.while c body) none res n st = none := by rw [exec]
theorem exec_while_succ (f c body res n st) :
    exec (f + 1) (.while c body) none res n st =
      if (evalCond c st).1 then
        Out.andThen (exec f body none res n (evalCond c st).2) (fun st2 r2 n2 => exec f (.while c body) none r2 n2 st2)
      else some (.normal (evalCond c st).2 res n []) := by
  rw [exec]; rcases evalCond c st with ⟨b, s⟩; cases b <;> rfl

/-- what PT_SPAWN does with the child's result -/
def joinPost (st : St) (l : Label) : Option Out → Option Out
  | some (.normal st2 _ n2 t) => some (.normal (st.wrap l st2) .exited n2 t)
  | some (.ret c st2 n2 t) =>
      if c.blocking then some (.ret c (st.wrap l st2) n2 t) else some (.normal (st.wrap l st2) c n2 t)
  | r => r

theorem exec_join_eq (fuel l ch e res n st) :
    exec fuel (join l ch) e res n st =
      match entryOf ch (st.me.kid l).pt with
      | none => some (.abort [])
      | some e' => joinPost st l (exec fuel ch e' .yielded n (st.enter l)) := by
  rw [exec]; cases entryOf ch (st.me.kid l).pt <;> rfl

/-- what PT_CALL's loop does with the child's result; `again` = the next spin -/
def spinPost (st : St) (k : Label) (res : Code) (n : Nat) (again : St → Option Out) : Option Out → Option Out
  | some (.normal st2 _ _ t) => some (.normal (st.wrap k st2) res n t)
  | some (.ret c st2 _ t) =>
      if c.blocking then (again (st.wrap k st2)).map (Out.prepend t) else some (.normal (st.wrap k st2) res n t)
  | r => r

theorem exec_spin_zero (k ch e res n st) : exec 0 (spin k ch) e res n st = none := by rw [exec]
theorem exec_spin_succ (f k ch e res n st) :
    exec (f + 1) (spin k ch) e res n st =
      match entryOf ch (st.me.kid k).pt with
      | none => some (.abort [])
      | some e' => spinPost st k res n (fun st' => exec f (spin k ch) none res n st') (exec f ch e' .yielded 0 (st.enter k)) := by
  rw [exec]; cases entryOf ch (st.me.kid k).pt <;> rfl

end Librfn.Model.PT

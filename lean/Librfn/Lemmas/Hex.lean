import Librfn.Model.Hex
/-! Helper lemmas about the model of hex.c: facts about single characters (by enumeration of the 256
bytes in the kernel), the checked accessors, `strchr`, and one pass of the parser (`step`). -/
namespace Librfn.Lemmas.Hex
open Librfn.Model.Hex

/-! ### characters -/

theorem forall_u8 (P : UInt8 → Prop) (h : ∀ n : Nat, n < 256 → P (UInt8.ofNat n)) : ∀ c, P c := by
  intro c
  have := h c.toNat c.toNat_lt
  rwa [UInt8.ofNat_toNat] at this

theorem space_ne_zero : ∀ c : UInt8, isSpace c = true → c ≠ 0 :=
  forall_u8 (fun c => isSpace c = true → c ≠ 0) (by decide +kernel)

theorem xdigit_ne_zero : ∀ c : UInt8, isXDigit c = true → c ≠ 0 :=
  forall_u8 (fun c => isXDigit c = true → c ≠ 0) (by decide +kernel)

theorem nibble_xdigit : ∀ c : UInt8, isXDigit c = true → ∃ n : Nat, n < 16 ∧ nibble c = (n : Int) :=
  forall_u8 (fun c => isXDigit c = true → ∃ n : Nat, n < 16 ∧ nibble c = (n : Int)) (by
    intro n hn
    -- the witness is `(nibble c).toNat`; the statement with it is decidable
    suffices h : isXDigit (UInt8.ofNat n) = true →
        (nibble (UInt8.ofNat n)).toNat < 16 ∧ nibble (UInt8.ofNat n) = ((nibble (UInt8.ofNat n)).toNat : Int) from
      fun hx => ⟨_, h hx⟩
    revert n
    decide +kernel)

theorem or_lt_256 : ∀ a : Nat, a < 16 → ∀ b : Nat, b < 16 → (16 * a ||| b) = 16 * a + b := by decide +kernel

theorem byteVal_xdigit (a b : UInt8) (ha : isXDigit a = true) (hb : isXDigit b = true) :
    ∃ x y : Nat, x < 16 ∧ y < 16 ∧ nibble a = x ∧ nibble b = y ∧ byteVal a b = ((16 * x + y : Nat) : Int) := by
  obtain ⟨x, hx, ex⟩ := nibble_xdigit a ha
  obtain ⟨y, hy, ey⟩ := nibble_xdigit b hb
  refine ⟨x, y, hx, hy, ex, ey, ?_⟩
  unfold byteVal
  rw [ex, ey]
  have h1 : (16 * (x : Int)).toNat = 16 * x := by omega
  have h2 : ((y : Int)).toNat = y := by omega
  rw [h1, h2, or_lt_256 x hx y hy]

theorem byteVal_range (a b : UInt8) (ha : isXDigit a = true) (hb : isXDigit b = true) :
    0 ≤ byteVal a b ∧ byteVal a b ≤ 255 := by
  obtain ⟨x, y, hx, hy, _, _, e⟩ := byteVal_xdigit a b ha hb
  rw [e]; omega

/-! ### accessors -/

theorem rd_zero (s : Str) : rd s 0 = .ok (s.headD 0) := by
  cases s <;> rfl

theorem rd_one_cons (c : UInt8) (t : Str) (h : c ≠ 0) : rd (c :: t) 1 = .ok (t.headD 0) := by
  simp [rd, h, rd_zero]

theorem adv_one_cons (c : UInt8) (t : Str) (h : c ≠ 0) : adv (c :: t) 1 = .ok t := by
  simp [adv, h]

theorem adv_two_cons (a b : UInt8) (t : Str) (ha : a ≠ 0) (hb : b ≠ 0) : adv (a :: b :: t) 2 = .ok t := by
  simp [adv, ha, hb]

/-! ### strchr -/

/-- a hit: the text is `pre ++ ch :: t` with neither `ch` nor NUL in `pre` -/
theorem strchr_some (ch : UInt8) (hch : ch ≠ 0) : ∀ (s q : Str), strchr ch s = some q →
    ∃ pre t, s = pre ++ ch :: t ∧ q = ch :: t ∧ (∀ c ∈ pre, c ≠ ch ∧ c ≠ 0) := by
  intro s
  induction s with
  | nil => intro q h; simp [strchr, hch] at h
  | cons c t ih =>
    intro q h
    unfold strchr at h
    by_cases h1 : c = ch
    · rw [if_pos h1] at h
      refine ⟨[], t, by simp [h1], ?_, by simp⟩
      rw [← Option.some.inj h, h1]
    · rw [if_neg h1] at h
      by_cases h2 : c = 0
      · rw [if_pos h2] at h; cases h
      · rw [if_neg h2] at h
        obtain ⟨pre, t', e1, e2, e3⟩ := ih q h
        refine ⟨c :: pre, t', by rw [e1]; rfl, e2, ?_⟩
        intro x hx
        cases hx with
        | head => exact ⟨h1, h2⟩
        | tail _ hx => exact e3 x hx

/-- searching past a prefix that holds neither the character nor NUL -/
theorem strchr_append (ch : UInt8) (pre s : Str) (h : ∀ c ∈ pre, c ≠ ch ∧ c ≠ 0) :
    strchr ch (pre ++ s) = strchr ch s := by
  induction pre with
  | nil => rfl
  | cons c t ih =>
    have hc := h c (List.mem_cons_self)
    simp only [List.cons_append, strchr, if_neg hc.1, if_neg hc.2]
    exact ih (fun x hx => h x (List.mem_cons_of_mem _ hx))

theorem strchr_none_of_not_mem (ch : UInt8) (hch : ch ≠ 0) (s : Str) (h : ∀ c ∈ s, c ≠ ch) : strchr ch s = none := by
  induction s with
  | nil => simp [strchr, hch]
  | cons c t ih =>
    unfold strchr
    rw [if_neg (h c List.mem_cons_self)]
    by_cases h2 : c = 0
    · rw [if_pos h2]
    · rw [if_neg h2]; exact ih (fun x hx => h x (List.mem_cons_of_mem _ hx))

theorem strchr_cons_self (ch : UInt8) (t : Str) : strchr ch (ch :: t) = some (ch :: t) := by
  simp [strchr]

/-! ### one pass of the parser -/

theorem skipColon_ok (s0 : Str) : ∃ s, skipColon s0 = .ok s ∧ s <:+ s0 := by
  unfold skipColon
  cases h : strchr 58 s0 with
  | none => exact ⟨s0, rfl, List.suffix_refl _⟩
  | some q =>
    obtain ⟨pre, t, e1, e2, _⟩ := strchr_some 58 (by decide) s0 q h
    refine ⟨t, ?_, ?_⟩
    · simp only [e2]; exact adv_one_cons 58 t (by decide)
    · rw [e1]; exact ⟨pre ++ [58], by simp⟩

theorem skip0x_ok (s : Str) : ∃ s1, skip0x s = .ok s1 ∧ s1 <:+ s := by
  unfold skip0x
  rw [rd_zero]
  by_cases h0 : s.headD 0 = 48
  · simp only [h0, if_true]
    cases s with
    | nil => simp at h0
    | cons c t =>
      have hc : c = 48 := by simpa using h0
      subst hc
      rw [rd_one_cons 48 t (by decide)]
      by_cases h1 : t.headD 0 = 120
      · cases t with
        | nil => simp at h1
        | cons d u =>
          have hd : d = 120 := by simpa using h1
          subst hd
          simp only [List.headD_cons, if_true]
          exact ⟨u, adv_two_cons 48 120 u (by decide) (by decide), ⟨[48, 120], rfl⟩⟩
      · simp only [h1, if_false]
        exact ⟨_, rfl, List.suffix_refl _⟩
  · simp only [h0, if_false]
    exact ⟨s, rfl, List.suffix_refl _⟩

/-- the pair test either declines without fault or consumes exactly two hex digits -/
theorem pair_cases (s : Str) : pair s = .ok none ∨
    ∃ a b p, s = a :: b :: p ∧ isXDigit a = true ∧ isXDigit b = true ∧ pair s = .ok (some (byteVal a b, p)) := by
  unfold pair
  rw [rd_zero]
  by_cases ha : isXDigit (s.headD 0) = true
  · cases s with
    | nil => exact absurd ha (by decide)
    | cons a t =>
      simp only [List.headD_cons] at ha
      have ha0 := xdigit_ne_zero a ha
      simp only [List.headD_cons, ha, if_true]
      rw [rd_one_cons a t ha0]
      by_cases hb : isXDigit (t.headD 0) = true
      · cases t with
        | nil => exact absurd hb (by decide)
        | cons b p =>
          simp only [List.headD_cons] at hb
          simp only [List.headD_cons, hb, if_true]
          rw [adv_two_cons a b p ha0 (xdigit_ne_zero b hb)]
          exact Or.inr ⟨a, b, p, rfl, ha, hb, rfl⟩
      · simp only [hb]; exact Or.inl rfl
  · simp only [ha]; exact Or.inl rfl

/-- what a `return` of one pass can be -/
def GoodOut (s : Str) (o : Out) : Prop :=
  o = .done ∨ ∃ v p, o = .byte v p ∧ 0 ≤ v ∧ v ≤ 255 ∧ p.length + 2 ≤ s.length ∧ p <:+ s

theorem body_spec (s : Str) :
    (∃ o, body s = .ret o ∧ GoodOut s o) ∨ (∃ nl s', body s = .jump nl s' ∧ s'.length < s.length ∧ s' <:+ s) := by
  unfold body
  rw [rd_zero]
  dsimp only
  by_cases hsp : isSpace (s.headD 0) = true
  · cases s with
    | nil => exact absurd hsp (by decide)
    | cons c t =>
      simp only [List.headD_cons] at hsp
      simp only [List.headD_cons, hsp, if_true]
      rw [adv_one_cons c t (space_ne_zero c hsp)]
      exact Or.inr ⟨_, t, rfl, by simp, ⟨[c], rfl⟩⟩
  · rw [if_neg hsp]
    obtain ⟨s1, e1, suf1⟩ := skip0x_ok s
    rw [e1]
    dsimp only
    rcases pair_cases s1 with hp | ⟨a, b, p, es, ha, hb, hp⟩
    · rw [hp]
      cases hq : strchr 10 s1 with
      | none => exact Or.inl ⟨.done, rfl, Or.inl rfl⟩
      | some q =>
        obtain ⟨pre, t, e2, e3, _⟩ := strchr_some 10 (by decide) s1 q hq
        simp only [e3]
        rw [adv_one_cons 10 t (by decide)]
        refine Or.inr ⟨true, t, rfl, ?_, ?_⟩
        · have := suf1.length_le
          rw [e2] at this
          simp only [List.length_append, List.length_cons] at this
          omega
        · exact List.IsSuffix.trans ⟨pre ++ [10], by rw [e2]; simp⟩ suf1
    · rw [hp]
      refine Or.inl ⟨_, rfl, Or.inr ⟨_, p, rfl, (byteVal_range a b ha hb).1, (byteVal_range a b ha hb).2, ?_, ?_⟩⟩
      · have := suf1.length_le
        rw [es] at this
        simp only [List.length_cons] at this
        omega
      · exact List.IsSuffix.trans ⟨[a, b], by rw [es]; rfl⟩ suf1

theorem goodOut_mono {s s' : Str} {o : Out} (h : GoodOut s' o) (suf : s' <:+ s) : GoodOut s o := by
  rcases h with h | ⟨v, p, e, h0, h1, hl, hs⟩
  · exact Or.inl h
  · exact Or.inr ⟨v, p, e, h0, h1, Nat.le_trans hl suf.length_le, hs.trans suf⟩

theorem step_spec (nl : Bool) (s : Str) :
    (∃ o, step nl s = .ret o ∧ GoodOut s o) ∨ (∃ nl' s', step nl s = .jump nl' s' ∧ s'.length < s.length ∧ s' <:+ s) := by
  unfold step
  have key : ∃ s1, (if nl = true then skipColon s else R.ok s) = .ok s1 ∧ s1 <:+ s := by
    cases nl with
    | false => exact ⟨s, rfl, List.suffix_refl _⟩
    | true => exact skipColon_ok s
  obtain ⟨s1, e, suf⟩ := key
  rw [e]
  rcases body_spec s1 with ⟨o, h1, h2⟩ | ⟨nl', s', h1, h2, h3⟩
  · exact Or.inl ⟨o, h1, goodOut_mono h2 suf⟩
  · exact Or.inr ⟨nl', s', h1, Nat.lt_of_lt_of_le h2 suf.length_le, h3.trans suf⟩

/-! ### the recursion budget -/

theorem scan_fuel : ∀ (f1 f2 : Nat) (nl : Bool) (s : Str), s.length < f1 → s.length < f2 → scan f1 nl s = scan f2 nl s := by
  intro f1
  induction f1 with
  | zero => intro f2 nl s h; exact absurd h (Nat.not_lt_zero _)
  | succ f1 ih =>
    intro f2 nl s h1 h2
    cases f2 with
    | zero => exact absurd h2 (Nat.not_lt_zero _)
    | succ f2 =>
      unfold scan
      rcases step_spec nl s with ⟨o, e, _⟩ | ⟨nl', s', e, hl, _⟩
      · rw [e]
      · rw [e]; exact ih f2 nl' s' (by omega) (by omega)

/-- one call from position `s` (`nl`: through the label `next_line`) with the budget `getByte` uses -/
def parse1 (nl : Bool) (s : Str) : Out := scan (s.length + 1) nl s

/-- budget-free unfolding of the recursion -/
theorem parse1_eq (nl : Bool) (s : Str) :
    parse1 nl s = match step nl s with
      | .ret o => o
      | .jump nl' s' => parse1 nl' s' := by
  unfold parse1
  rw [scan]
  rcases step_spec nl s with ⟨o, e, _⟩ | ⟨nl', s', e, hl, _⟩
  · rw [e]
  · rw [e]; exact scan_fuel _ _ nl' s' (by omega) (by omega)

theorem parse1_good : ∀ (n : Nat) (nl : Bool) (s : Str), s.length ≤ n → GoodOut s (parse1 nl s) := by
  intro n
  induction n with
  | zero =>
    intro nl s h
    rw [parse1_eq]
    rcases step_spec nl s with ⟨o, e, g⟩ | ⟨nl', s', e, hl, _⟩
    · rw [e]; exact g
    · omega
  | succ n ih =>
    intro nl s h
    rw [parse1_eq]
    rcases step_spec nl s with ⟨o, e, g⟩ | ⟨nl', s', e, hl, suf⟩
    · rw [e]; exact g
    · rw [e]; exact goodOut_mono (ih nl' s' (by omega)) suf

end Librfn.Lemmas.Hex

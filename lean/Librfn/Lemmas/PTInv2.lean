import Librfn.Lemmas.PTInv
namespace Librfn.Model.PT
open Stmt Librfn.Spec.PT

theorem inv_skip {fuel} : InvAt fuel skip := by
  intro _ e res n st r _ _ h
  simp only [exec, Option.some.injEq] at h; subst h; exact Or.inl rfl
theorem inv_eff {fuel x} : InvAt fuel (eff x) := by
  intro _ e res n st r _ _ h
  simp only [exec, Option.some.injEq] at h; subst h; exact Or.inl rfl
theorem inv_exit {fuel} : InvAt fuel exit := by
  intro _ e res n st r _ _ h
  simp only [exec, Option.some.injEq] at h; subst h
  exact ⟨Or.inl rfl, by simp [Code.blocking, MayReturn]⟩
theorem inv_fail {fuel} : InvAt fuel fail := by
  intro _ e res n st r _ _ h
  simp only [exec, Option.some.injEq] at h; subst h
  exact ⟨Or.inl rfl, by simp [Code.blocking, MayReturn]⟩

theorem inv_block {fuel s c l} (hc : c.blocking = true) (hl : labels s = [l]) (hmb : MayBlock s l c)
    (hlive : ∀ p, Live s p)
    (hs : ∀ e res n st, exec fuel s e res n st = some (block c l e res n st)) : InvAt fuel s := by
  intro _ e res n st r _ _ h
  rw [hs] at h; simp only [Option.some.injEq] at h; subst h
  by_cases he : e = some l
  · simp only [block, he, if_true]; exact Or.inl rfl
  · simp only [block, he, if_false]
    have hp : (st.setPt l).me.pt = l := by simp [St.setPt, PtSt.setPt, PtSt.pt]
    cases n with
    | zero =>
      refine ⟨Or.inr (by simp [hl, hp]), ?_⟩
      rw [if_pos hc, hp]; exact ⟨by simp [hl], hmb, hlive _⟩
    | succ n => exact Or.inr (by show (st.setPt l).me.pt ∈ labels s; simp [hl, hp])

theorem inv_yield {fuel l} : InvAt fuel (yield l) :=
  inv_block (c := .yielded) rfl rfl ⟨rfl, rfl⟩ (fun _ => trivial) (by intros; simp [exec])
theorem inv_wait {fuel l} : InvAt fuel (wait l) :=
  inv_block (c := .waiting) rfl rfl ⟨rfl, rfl⟩ (fun _ => trivial) (by intros; simp [exec])

theorem waitLoop_post (l : Label) (c : Cond) (p0 : Nat) : ∀ n res st1, st1.me.pt = l →
    Post (waitUntil l c) p0 (waitLoop c res n st1) := by
  intro n
  induction n with
  | zero =>
    intro res st1 hpt
    rw [waitLoop_zero]
    have hme : (evalCond c st1).2.me.pt = l := by rw [evalCond_me]; exact hpt
    by_cases hc : (evalCond c st1).1 = true
    · rw [if_pos hc]; exact Or.inr (by simp [labels, hme])
    · rw [if_neg hc]
      refine ⟨Or.inr (by simp [labels, hme]), ?_⟩
      simp [Code.blocking, labels, hme, MayBlock, Live]
  | succ n ih =>
    intro res st1 hpt
    rw [waitLoop_succ]
    have hme : (evalCond c st1).2.me.pt = l := by rw [evalCond_me]; exact hpt
    by_cases hc : (evalCond c st1).1 = true
    · rw [if_pos hc]; exact Or.inr (by simp [labels, hme])
    · rw [if_neg hc]; exact (ih .yielded (evalCond c st1).2.bump hme).prepend _

theorem inv_waitUntil {fuel l c} : InvAt fuel (waitUntil l c) := by
  intro _ e res n st r hE _ h
  simp only [exec, Option.some.injEq] at h; subst h
  apply waitLoop_post
  by_cases he : e = some l
  · simp only [he, if_true]; exact (hE l he).2
  · simp only [he, if_false]; simp [St.setPt, PtSt.setPt, PtSt.pt]

theorem lifts_left {a b s : Stmt} (hlab : labels s = labels a ++ labels b)
    (hblk : ∀ l c, MayBlock s l c ↔ (MayBlock a l c ∨ MayBlock b l c))
    (hret : ∀ c, MayReturn s c ↔ (MayReturn a c ∨ MayReturn b c))
    (hlive : ∀ p, Live s p ↔ (if p.pt ∈ labels a then Live a p else Live b p)) : Lifts a s :=
  ⟨fun l hl => by simp [hlab, hl], fun l c h => (hblk l c).2 (Or.inl h), fun c h => (hret c).2 (Or.inl h),
   fun p hp h => by rw [hlive, if_pos hp]; exact h⟩

theorem lifts_right {a b s : Stmt} (hlab : labels s = labels a ++ labels b)
    (hblk : ∀ l c, MayBlock s l c ↔ (MayBlock a l c ∨ MayBlock b l c))
    (hret : ∀ c, MayReturn s c ↔ (MayReturn a c ∨ MayReturn b c))
    (hlive : ∀ p, Live s p ↔ (if p.pt ∈ labels a then Live a p else Live b p))
    (hdis : ∀ l, l ∈ labels a → l ∉ labels b) : Lifts b s :=
  ⟨fun l hl => by simp [hlab, hl], fun l c h => (hblk l c).2 (Or.inr h), fun c h => (hret c).2 (Or.inr h),
   fun p hp h => by rw [hlive, if_neg (fun ha => hdis _ ha hp)]; exact h⟩

end Librfn.Model.PT

import Librfn.Lemmas.IsrDrain
import Librfn.Lemmas.IsrExec
/-! C06: interrupt handlers run to completion — in every execution in which the main context is only ever interrupted
(however deeply nested), no sender is inside a call at any step of the main context.  That is the hypothesis `Quiet` of
`drained_by_pass` / `wakeup_with_isr`; for senders on other threads it can fail (C04 covers their interleavings). -/
namespace Librfn.Isr.L
open Librfn.Model.MessageqConc Librfn.Model.FibreIsr Librfn.C04
open Librfn.Sched (Fid Ret)
open Librfn.Spec.IsrSpec
open Librfn.Model.Fibre (upd makeRunnable handleTimerq getNextTask fibreTimeout)

/-! ## interrupt handlers run to completion: at every step of the main context no sender is inside a call -/

/-- apart from the senders listed in `I`, no sender is inside a call (or the run was cut for lack of fuel) -/
def IdleOutside (I : List Nat) (s : S) : Prop := s.hung = true ∨ ∀ j, j < 3 → j ∉ I → s.ipc j = .idle

theorem senderAtomic_hung (i : Nat) (s : S) : (senderAtomic i s).hung = s.hung := by
  unfold senderAtomic; split <;> (try split) <;> rfl
theorem senderPlain_hung (i : Nat) (s : S) : (senderPlain i s).hung = s.hung := by
  unfold senderPlain; split <;> (try split) <;> rfl

theorem senderAtomic_ipc_other (i j : Nat) (s : S) (h : j ≠ i) : (senderAtomic i s).ipc j = s.ipc j := by
  unfold senderAtomic
  split <;> (try split) <;> first | rfl | exact upd_other _ _ _ _ h
theorem senderPlain_ipc_other (i j : Nat) (s : S) (h : j ≠ i) : (senderPlain i s).ipc j = s.ipc j := by
  unfold senderPlain
  split <;> (try split) <;> first | rfl | exact upd_other _ _ _ _ h

theorem idleOutside_senderAtomic {I : List Nat} {s : S} (i : Nat) (hi : i ∈ I) (h : IdleOutside I s) :
    IdleOutside I (senderAtomic i s) := by
  rcases h with h | h
  · exact Or.inl (by rw [senderAtomic_hung]; exact h)
  · exact Or.inr fun j hj hjI => by
      rw [senderAtomic_ipc_other i j s (fun e => hjI (e ▸ hi))]; exact h j hj hjI

theorem idleOutside_senderPlain {I : List Nat} {s : S} (i : Nat) (hi : i ∈ I) (h : IdleOutside I s) :
    IdleOutside I (senderPlain i s) := by
  rcases h with h | h
  · exact Or.inl (by rw [senderPlain_hung]; exact h)
  · exact Or.inr fun j hj hjI => by
      rw [senderPlain_ipc_other i j s (fun e => hjI (e ▸ hi))]; exact h j hj hjI

/-- a sender's call returns with the sender between calls again -/
theorem idleOutside_runSender {gap : Point → S → S} {I : List Nat} (i : Nat) (c : ICall)
    (hg : ∀ p s, IdleOutside (i :: I) s → IdleOutside (i :: I) (gap p s)) :
    ∀ (fuel k : Nat) (s : S), IdleOutside (i :: I) s → IdleOutside I (runSender gap i c fuel k s)
  | 0, _, _, _ => Or.inl rfl
  | fuel + 1, k, s, h => by
    unfold runSender
    simp only
    have h1 := idleOutside_senderPlain i List.mem_cons_self h
    split
    · rename_i hidle
      rcases h1 with h1 | h1
      · exact Or.inl h1
      · refine Or.inr fun j hj hjI => ?_
        by_cases hji : j = i
        · subst hji; exact hidle
        · exact h1 j hj (fun hm => by rcases List.mem_cons.mp hm with e | e; exact hji e; exact hjI e)
    · exact idleOutside_runSender i c hg fuel (k + 1) _
        (hg _ _ (idleOutside_senderAtomic i List.mem_cons_self (hg _ _ h1)))

theorem idleOutside_callSender {gap : Point → S → S} {I : List Nat} (i : Nat) (c : ICall)
    (hg : ∀ p s, IdleOutside (i :: I) s → IdleOutside (i :: I) (gap p s)) {s : S} (h : IdleOutside I s) :
    IdleOutside I (callSender gap i c s) := by
  unfold callSender
  split
  · refine idleOutside_runSender i c hg _ _ _ ?_
    rcases h with h | h
    · exact Or.inl h
    · refine Or.inr fun j hj hjI => ?_
      have hji : j ≠ i := fun e => hjI (e ▸ List.mem_cons_self)
      show upd s.ipc i _ j = _
      rw [upd_other _ _ _ _ hji]
      exact h j hj (fun hm => hjI (List.mem_cons_of_mem _ hm))
  · exact Or.inl rfl

theorem idleOutside_foldl {α : Type} {I : List Nat} (f : S → α → S) (hf : ∀ s a, IdleOutside I s → IdleOutside I (f s a)) :
    ∀ (l : List α) (s : S), IdleOutside I s → IdleOutside I (l.foldl f s)
  | [], _, h => h
  | a :: l, s, h => idleOutside_foldl f hf l (f s a) (hf s a h)

theorem idleOutside_nestedGap (nested : List (Point × ICall)) (p : Point) {s : S} (h : IdleOutside [0] s) :
    IdleOutside [0] (nestedGap nested p s) :=
  idleOutside_foldl _ (fun _ e hs => idleOutside_callSender 1 e.2 (fun _ _ h => h) hs) _ s h

/-- **an interrupt (with its nested handlers) returns with every sender between calls** -/
theorem idleOutside_runIsr {s : S} (h : IdleOutside [] s) (e : Isr) : IdleOutside [] (runIsr s e) :=
  idleOutside_callSender 0 e.call (fun p _ h => idleOutside_nestedGap e.nested p h) h

theorem idleOutside_isrGap (script : Script) (p : Point) {s : S} (h : IdleOutside [] s) : IdleOutside [] (isrGap script p s) :=
  idleOutside_foldl _ (fun _ e hs => idleOutside_runIsr hs e.2) _ s h

theorem hung_finishPass (s : S) (v : BitVec 32) : (finishPass s v).hung = s.hung := rfl
theorem hung_returned (s : S) (r : Ret) : (returned s r).hung = s.hung := by
  unfold returned; split <;> rfl
theorem hung_bodyStep (s : S) : (bodyStep s).hung = s.hung := by
  unfold bodyStep; split
  · rw [hung_returned]
  · rfl
  · rfl
theorem hung_bodyOf (s : S) (c : Fid) : (bodyOf s c).hung = s.hung := by
  unfold bodyOf
  split
  · rfl
  · split <;> rw [hung_returned]
  · split <;> rw [hung_returned] <;> rfl
  · rw [hung_returned]
  · rw [hung_bodyStep]
theorem hung_dispatch (s : S) : (dispatch s).hung = s.hung := by
  unfold dispatch; split
  · unfold body; rw [hung_bodyOf]; rfl
  · rfl
theorem hung_afterUpdate (s : S) : (afterUpdate s).hung = s.hung := by
  unfold afterUpdate; rw [hung_dispatch]
theorem hung_afterDrain (s : S) (c : Cont) : (afterDrain s c).hung = s.hung := by
  cases c with
  | run f => rfl
  | kill f => rfl
  | pass1 =>
    simp only [afterDrain]
    split
    · exact hung_afterUpdate s
    · split
      · rfl
      · rfl
      · rw [hung_afterUpdate]
      · exact hung_afterUpdate s
  | pass2 c => simp only [afterDrain]; rw [hung_afterUpdate]
  | brun g => simp only [afterDrain]; rw [hung_bodyStep]; rfl
  | bkill g => simp only [afterDrain]; rw [hung_bodyStep]; rfl

theorem mainPlain_hung (s : S) : (mainPlain s).hung = s.hung := by
  unfold mainPlain
  split
  · rename_i c _
    cases c with
    | next t => simp only [startCall]; unfold startNext; split <;> rfl
    | run f => rfl
    | kill f => rfl
  · split
    · exact hung_dispatch s
    · rfl
  · split
    · rfl
    · exact hung_afterDrain s _
  · rfl
  · rw [hung_afterUpdate]; unfold resetPriv; split <;> rfl
  · split
    · rfl
    · exact hung_returned s _
  · rfl
  · rfl
  · rfl

theorem mainPlain_ipc (s : S) : (mainPlain s).ipc = s.ipc := by
  unfold mainPlain
  split
  · exact (startCall_same s _).ipc
  · split
    · exact (frame_dispatch ⟨rfl, rfl, rfl, rfl⟩).ipc
    · rfl
  · split
    · rfl
    · exact (frame_afterDrain ⟨rfl, rfl, rfl, rfl⟩ _).ipc
  · rfl
  · exact (frame_afterUpdate (resetPriv_same s)).ipc
  · split
    · rfl
    · exact (frame_returned ⟨rfl, rfl, rfl, rfl⟩ _).ipc
  · rfl
  · rfl
  · rfl

theorem mainAtomic_ipc (s : S) : (mainAtomic s).ipc = s.ipc := by
  unfold mainAtomic; split <;> rfl
theorem mainAtomic_hung (s : S) : (mainAtomic s).hung = s.hung := by
  unfold mainAtomic; split <;> rfl

theorem idleOutside_same {I : List Nat} {s s' : S} (h : IdleOutside I s) (hi : s'.ipc = s.ipc) (hh : s'.hung = s.hung) :
    IdleOutside I s' := by
  unfold IdleOutside at *; rw [hi, hh]; exact h

/-- states reachable when the main context is only ever *interrupted*: main-context steps and complete interrupts -/
inductive ReachIsr : S → Prop
  | init (d : Nat) (kinds : List Kind) (budgets : List Nat) (h1 : 1 ≤ d) (h32 : d ≤ 32) : ReachIsr (initWith d kinds budgets)
  | mainPlain {s : S} : ReachIsr s → ReachIsr (mainPlain s)
  | mainAtomic {s : S} : ReachIsr s → ReachIsr (mainAtomic s)
  | enterMain {s : S} (c : MCall) : ReachIsr s → s.mpc = .idle → ReachIsr (enterMain c s)
  /-- an interrupt, with the handlers nested inside it, run to completion -/
  | isr {s : S} (e : Isr) : ReachIsr s → ReachIsr (runIsr s e)
  | tok {s : S} (t : Tok) : ReachIsr s → ReachIsr (tok t s)
  | hung {s : S} : ReachIsr s → ReachIsr { s with hung := true }
  | nops {s : S} (k : Nat) : ReachIsr s → ReachIsr { s with nops := k }
  | newItem {s : S} : ReachIsr s → ReachIsr { s with trace := [], fired := 0 }
  | noYields {s : S} : ReachIsr s → ReachIsr { s with budget := fun _ => 0 }
  | setBody {s : S} (b : List BCall) (r : Ret) : ReachIsr s → ReachIsr { s with bscript := b, bret := r }

theorem reachIsr_reach {s : S} (h : ReachIsr s) : Reach s := by
  induction h with
  | init d kinds budgets h1 h32 => exact Reach.init d kinds budgets h1 h32
  | mainPlain _ ih => exact Reach.mainPlain ih
  | mainAtomic _ ih => exact Reach.mainAtomic ih
  | enterMain c _ hidle ih => exact Reach.enterMain c ih hidle
  | isr e _ ih => exact reach_runIsr ih e
  | tok t _ ih => exact Reach.tok t ih
  | hung _ ih => exact Reach.hung ih
  | nops k _ ih => exact Reach.nops k ih
  | newItem _ ih => exact Reach.newItem ih
  | noYields _ ih => exact Reach.noYields ih
  | setBody b r _ ih => exact Reach.setBody b r ih

/-- **at every step of an interrupted main context, no sender is inside a call** (unless the run was cut) -/
theorem reachIsr_quiet {s : S} (h : ReachIsr s) : IdleOutside [] s := by
  induction h with
  | init d kinds budgets h1 h32 => exact Or.inr fun _ _ _ => rfl
  | mainPlain _ ih => exact idleOutside_same ih (mainPlain_ipc _) (mainPlain_hung _)
  | mainAtomic _ ih => exact idleOutside_same ih (mainAtomic_ipc _) (mainAtomic_hung _)
  | enterMain c _ hidle ih => exact idleOutside_same ih rfl rfl
  | isr e _ ih => exact idleOutside_runIsr ih e
  | tok t _ ih => exact idleOutside_same ih rfl rfl
  | hung _ ih => exact Or.inl rfl
  | nops k _ ih => exact idleOutside_same ih rfl rfl
  | newItem _ ih => exact idleOutside_same ih rfl rfl
  | noYields _ ih => exact idleOutside_same ih rfl rfl
  | setBody b r _ ih => exact idleOutside_same ih rfl rfl

theorem quiet_of_reachIsr {s : S} (h : ReachIsr s) (hh : s.hung = false) : Quiet s := by
  rcases reachIsr_quiet h with e | e
  · rw [hh] at e; cases e
  · exact fun i hi => e i hi List.not_mem_nil

/-! ### the executable runner on histories without thread senders stays inside `ReachIsr` -/

theorem reachIsr_foldl {α : Type} (f : S → α → S) (hf : ∀ s a, ReachIsr s → ReachIsr (f s a)) :
    ∀ (l : List α) (s : S), ReachIsr s → ReachIsr (l.foldl f s)
  | [], _, h => h
  | a :: l, s, h => reachIsr_foldl f hf l (f s a) (hf s a h)

theorem reachIsr_isrGap (script : Script) (p : Point) {s : S} (h : ReachIsr s) : ReachIsr (isrGap script p s) :=
  reachIsr_foldl _ (fun _ e hs => ReachIsr.isr e.2 hs) _ s h

theorem reachIsr_runMain {gap : Point → S → S} (hg : ∀ p s, ReachIsr s → ReachIsr (gap p s)) (c : MCall) :
    ∀ (fuel k : Nat) (s : S), ReachIsr s → ReachIsr (runMain gap c fuel k s)
  | 0, _, s, h => ReachIsr.tok _ (ReachIsr.hung h)
  | fuel + 1, k, s, h => by
    unfold runMain
    simp only
    split
    · exact ReachIsr.tok _ (ReachIsr.nops k (ReachIsr.mainPlain h))
    · exact reachIsr_runMain hg c fuel (k + 1) _ (hg _ _ (ReachIsr.mainAtomic (hg _ _ (ReachIsr.mainPlain h))))

theorem reachIsr_callMain {gap : Point → S → S} (hg : ∀ p s, ReachIsr s → ReachIsr (gap p s)) (c : MCall) {s : S}
    (h : ReachIsr s) : ReachIsr (callMain gap c s) := by
  unfold callMain
  split
  · rename_i hidle
    exact reachIsr_runMain hg c _ _ _ (ReachIsr.enterMain c h hidle)
  · exact ReachIsr.tok _ (ReachIsr.hung h)

theorem reachIsr_quiesceLoop : ∀ (n : Nat) (s : S), ReachIsr s → ReachIsr (quiesceLoop n s)
  | 0, _, h => h
  | n + 1, s, h => by
    unfold quiesceLoop
    simp only
    split
    · exact reachIsr_quiesceLoop n _ (reachIsr_callMain (fun _ _ h => h) _ h)
    · exact reachIsr_callMain (fun _ _ h => h) _ h

/-- an item that is not a thread sender -/
def InterruptOnly : Item → Prop
  | .thread _ _ => False
  | _ => True

theorem reachIsr_runItem {s : S} (h : ReachIsr s) (it : Item) (hi : InterruptOnly it) : ReachIsr (runItem s it) := by
  unfold runItem
  cases it with
  | main m => exact reachIsr_callMain (fun p _ h => reachIsr_isrGap m.script p h) m.call (ReachIsr.setBody _ _ (ReachIsr.newItem h))
  | isr e => exact ReachIsr.isr e (ReachIsr.newItem h)
  | thread c script => exact False.elim hi
  | quiesce => exact reachIsr_quiesceLoop 64 _ (ReachIsr.setBody _ _ (ReachIsr.noYields (ReachIsr.newItem h)))

theorem reachIsr_runHistory (d : Nat) (kinds : List Kind) (budgets : List Nat) (h1 : 1 ≤ d) (h32 : d ≤ 32) :
    ∀ (h : List Item), (∀ it ∈ h, InterruptOnly it) → ReachIsr (runHistory (initWith d kinds budgets) h) := by
  intro h hall
  unfold runHistory
  have : ∀ (l : List Item) (s : S), ReachIsr s → (∀ it ∈ l, InterruptOnly it) → ReachIsr (l.foldl runItem s) := by
    intro l
    induction l with
    | nil => intro s hs _; exact hs
    | cons it l ih =>
      intro s hs hl
      exact ih _ (reachIsr_runItem hs it (hl it List.mem_cons_self)) (fun x hx => hl x (List.mem_cons_of_mem _ hx))
  exact this h _ (ReachIsr.init d kinds budgets h1 h32) hall

end Librfn.Isr.L

import Librfn.Lemmas.SchedSim
/-! One call of the history preserves the simulation relation and produces the specified output;
induction over histories (C01–C03). -/
namespace Librfn.Sched.L
open Librfn.Sched Librfn.Model.Fibre Librfn.Spec.Sched

theorem wake_congr {a a' : A} (T : Int) (y : Bool) (h1 : a'.rq = a.rq) (h2 : a'.pend = a.pend) (h3 : a'.sleepers = a.sleepers) :
    a'.wake T y = a.wake T y := by
  unfold A.wake; rw [h1, h2, h3]

theorem wake_yielded (a : A) (T : Int) : a.wake T true = T := by
  unfold A.wake; simp

theorem next_nil {a : A} {T : Int} (s : List (Call Int)) (ret : Ret) (h : (a.intake T).rq = []) :
    a.next T s ret = ({ a.intake T with self := none },
      { disp := none, self := none, wake := w32 (({ a.intake T with self := none } : A).wake T false) }) := by
  unfold A.next
  simp only [h]

theorem next_cons {a : A} {T : Int} (s : List (Call Int)) (ret : Ret) {d : Fid} {rest : List Fid}
    (h : (a.intake T).rq = d :: rest) :
    a.next T s ret =
      (((A.script d T { a.intake T with rq := rest, self := some d } s).1.returned d ret),
       { disp := some (d, (a.intake T).priv d, (A.script d T { a.intake T with rq := rest, self := some d } s).2),
         self := some d,
         wake := w32 (((A.script d T { a.intake T with rq := rest, self := some d } s).1.returned d ret).wake T
              (decide (ret = .yielded))) }) := by
  unfold A.next
  simp only [h]

theorem returned_q (a : A) (d : Fid) (ret : Ret) :
    (a.returned d ret).rq = a.rq ∧ (a.returned d ret).pend = a.pend ∧ (a.returned d ret).sleepers = a.sleepers
    ∧ (a.returned d ret).self = a.self := by
  cases ret <;> exact ⟨rfl, rfl, rfl, rfl⟩

theorem schedulerNext_none {k : K} {t : BitVec 32} (s : List (Call (BitVec 32))) (ret : Ret)
    (h : (prelude { k with now := t }).current = none) :
    schedulerNext k t s ret = (prelude { k with now := t },
      { disp := none, self := none, wake := getNextWakeup (prelude { k with now := t }) }) := by
  unfold schedulerNext fibreSelf
  simp only [h]

theorem schedulerNext_some {k : K} {t : BitVec 32} (s : List (Call (BitVec 32))) (ret : Ret) {c : Fid}
    (h : (prelude { k with now := t }).current = some c) :
    schedulerNext k t s ret =
      ({ (runScript c (prelude { k with now := t }) s).1 with state := ret },
       { disp := some (c, (prelude { k with now := t }).priv c, (runScript c (prelude { k with now := t }) s).2),
         self := (runScript c (prelude { k with now := t }) s).1.current,
         wake := if ret = .yielded then (runScript c (prelude { k with now := t }) s).1.now
                 else getNextWakeup { (runScript c (prelude { k with now := t }) s).1 with state := ret } }) := by
  unfold schedulerNext fibreSelf
  simp only [h]

/-- **one `fibre_scheduler_next(T)`**: same dispatched fibre (or idle), same `priv` at entry, same results of the
    fibre's calls, same `fibre_self`, same returned wake-up time — and the relation holds again afterwards -/
theorem sim_next {k : K} {a : A} {last : Option Int} (h : Sim k a last) (T : Int) (s : List (Call Int)) (ret : Ret)
    (hmono : ∀ T0, last = some T0 → T0 ≤ T) (hw : ∀ x ∈ a.sleepers, T - x.2 < 2147483648)
    (hwin : dueInWindow T s = true) (hun : unsatisfied T s ≤ 1) :
    (schedulerNext k (w32 T) (s.map (Call.map w32)) ret).2 = (a.next T s ret).2
    ∧ Sim (schedulerNext k (w32 T) (s.map (Call.map w32)) ret).1 (a.next T s ret).1 (some T) := by
  have hp := sim_prelude (h.setNow (w32 T)) rfl hmono hw
  obtain ⟨hnow, hpriv, hyld, hnil, hcons⟩ := hp
  cases hrq : (a.intake T).rq with
  | nil =>
    obtain ⟨hcur, hq⟩ := hnil hrq
    rw [next_nil s ret hrq, schedulerNext_none _ ret hcur]
    dsimp only
    have hwk := wake_refines hq hnow
    refine ⟨?_, ?_⟩
    · rw [hwk, wake_congr (a := a.intake T) (a' := { a.intake T with self := none }) T false rfl rfl rfl]
    · refine ⟨hq.congr rfl rfl rfl rfl rfl rfl rfl, ?_, ?_, ?_⟩
      · show (a.intake T).yielder = _
        rw [hyld, hcur]; split <;> rfl
      · exact hcur.symm
      · intro f
        show (a.intake T).priv f = _
        rw [hpriv f, hcur]; simp
  | cons d rest =>
    obtain ⟨hcur, hdsl, hq⟩ := hcons d rest hrq
    rw [next_cons s ret hrq, schedulerNext_some _ ret hcur]
    dsimp only
    have hm : Mid (prelude { k with now := w32 T }) { a.intake T with rq := rest, self := some d } T :=
      ⟨hq _ rfl rfl rfl, hnow, hpriv⟩
    have hs := sim_script d T s _ _ hm hwin hun (fun hc => absurd hc hdsl)
    obtain ⟨hres, hmid, hcur2, hy2, hself2⟩ := hs
    have hcur3 : (runScript d (prelude { k with now := w32 T }) (s.map (Call.map w32))).1.current = some d :=
      hcur2.trans hcur
    refine ⟨?_, ?_⟩
    · -- outputs
      rw [hcur3, hres]
      have hp0 : (prelude { k with now := w32 T }).priv d = (a.intake T).priv d := (hpriv d).symm
      rw [hp0]
      congr 1
      have hrq4 := returned_q (A.script d T { a.intake T with rq := rest, self := some d } s).1 d ret
      by_cases hy : ret = .yielded
      · rw [if_pos hy, decide_eq_true hy, wake_yielded]
        exact hmid.now
      · rw [if_neg hy, decide_eq_false hy]
        exact wake_refines (hmid.q.congr rfl rfl rfl rfl hrq4.1 hrq4.2.1 hrq4.2.2.1) hmid.now
    · -- the relation afterwards
      have hrq4 := returned_q (A.script d T { a.intake T with rq := rest, self := some d } s).1 d ret
      refine ⟨hmid.q.congr rfl rfl rfl rfl hrq4.1 hrq4.2.1 hrq4.2.2.1, ?_, ?_, ?_⟩
      · show ((A.script d T _ s).1.returned d ret).yielder = if ret = .yielded then _ else none
        cases ret with
        | yielded => show some d = _; rw [if_pos rfl]; exact hcur3.symm
        | waiting => show (A.script d T _ s).1.yielder = _; rw [hy2, if_neg (by simp)]; exact hyld
        | exited => show (A.script d T _ s).1.yielder = _; rw [hy2, if_neg (by simp)]; exact hyld
        | failed => show (A.script d T _ s).1.yielder = _; rw [hy2, if_neg (by simp)]; exact hyld
      · rw [hrq4.2.2.2, hself2]; exact hcur3.symm
      · intro f
        show ((A.script d T _ s).1.returned d ret).priv f
          = if (runScript d (prelude { k with now := w32 T }) (s.map (Call.map w32))).1.current = some f
                ∧ (ret = .exited ∨ ret = .failed) then 0
            else (runScript d (prelude { k with now := w32 T }) (s.map (Call.map w32))).1.priv f
        rw [hcur3]
        cases ret with
        | yielded => show (A.script d T _ s).1.priv f = _; rw [hmid.priv f]; simp
        | waiting => show (A.script d T _ s).1.priv f = _; rw [hmid.priv f]; simp
        | exited =>
          show (if f = d then 0 else (A.script d T _ s).1.priv f) = _
          rw [hmid.priv f]
          by_cases e : f = d
          · subst e; simp
          · have : ¬ (some d = some f) := fun e' => e (Option.some.inj e').symm
            simp [e, this]
        | failed =>
          show (if f = d then 0 else (A.script d T _ s).1.priv f) = _
          rw [hmid.priv f]
          by_cases e : f = d
          · subst e; simp
          · have : ¬ (some d = some f) := fun e' => e (Option.some.inj e').symm
            simp [e, this]

/-- the scope clauses for a pass, unpacked -/
theorem opOk_next {a : A} {last : Option Int} {T : Int} {s : List (Call Int)} {ret : Ret}
    (hok : opOk a last (.next T s ret) = true) :
    (∀ T0, last = some T0 → T0 ≤ T) ∧ (∀ x ∈ a.sleepers, T - x.2 < 2147483648)
    ∧ dueInWindow T s = true ∧ unsatisfied T s ≤ 1 := by
  simp only [opOk, Bool.and_eq_true, decide_eq_true_eq, List.all_eq_true] at hok
  obtain ⟨⟨⟨hmono, hw⟩, hun⟩, hwin⟩ := hok
  refine ⟨?_, hw, hwin, hun⟩
  intro T0 e; subst e; simpa using hmono

/-- **one call of the history** -/
theorem sim_step {k : K} {a : A} {last : Option Int} (h : Sim k a last) (op : Op Int) (hok : opOk a last op = true) :
    (Model.Fibre.step k (op.map w32)).2 = (Spec.Sched.step a op).2
    ∧ Sim (Model.Fibre.step k (op.map w32)).1 (Spec.Sched.step a op).1 (lastOf last op) := by
  cases op with
  | run f =>
    have hf := (frame_fibreRun k f).1
    have haf := aframe_run a f
    refine ⟨rfl, ⟨simQ_run h.q f, ?_, ?_, ?_⟩⟩
    · show (a.run f).yielder = _
      rw [haf.yielder]; show _ = if (fibreRun k f).state = _ then (fibreRun k f).current else none
      rw [hf.state, hf.current]; exact h.yld
    · show (a.run f).self = (fibreRun k f).current
      rw [haf.self, hf.current]; exact h.self
    · intro g
      show (a.run f).priv g = if (fibreRun k f).current = some g ∧ ((fibreRun k f).state = _ ∨ (fibreRun k f).state = _) then _ else (fibreRun k f).priv g
      rw [haf.priv, hf.state, hf.current, hf.priv]; exact h.priv g
  | runAtomic f =>
    have hs := simQ_runAtomic h.q f
    have hf := hs.2.2
    have haf := aframe_runAtomic a f
    refine ⟨by show Out.bool _ = Out.bool _; rw [hs.1], ⟨hs.2.1, ?_, ?_, ?_⟩⟩
    · show (a.runAtomic f).1.yielder = if (fibreRunAtomic k f).1.state = _ then (fibreRunAtomic k f).1.current else none
      rw [haf.yielder, hf.state, hf.current]; exact h.yld
    · show (a.runAtomic f).1.self = (fibreRunAtomic k f).1.current
      rw [haf.self, hf.current]; exact h.self
    · intro g
      show (a.runAtomic f).1.priv g = if (fibreRunAtomic k f).1.current = some g ∧ ((fibreRunAtomic k f).1.state = _ ∨ (fibreRunAtomic k f).1.state = _) then _ else (fibreRunAtomic k f).1.priv g
      rw [haf.priv, hf.state, hf.current, hf.priv]; exact h.priv g
  | kill f =>
    have hs := simQ_kill h.q f
    have hf := frame_fibreKill k f
    have haf := aframe_kill a f
    refine ⟨by show Out.bool _ = Out.bool _; rw [hs.1], ⟨hs.2, ?_, ?_, ?_⟩⟩
    · show (a.kill f).1.yielder = if (fibreKill k f).1.state = _ then (fibreKill k f).1.current else none
      rw [haf.yielder, hf.state, hf.current]; exact h.yld
    · show (a.kill f).1.self = (fibreKill k f).1.current
      rw [haf.self, hf.current]; exact h.self
    · intro g
      show (a.kill f).1.priv g = if (fibreKill k f).1.current = some g ∧ ((fibreKill k f).1.state = _ ∨ (fibreKill k f).1.state = _) then _ else (fibreKill k f).1.priv g
      rw [haf.priv, hf.state, hf.current, hf.priv]; exact h.priv g
  | next T s ret =>
    simp only [opOk, Bool.and_eq_true, decide_eq_true_eq, List.all_eq_true] at hok
    obtain ⟨⟨⟨hmono, hw⟩, hun⟩, hwin⟩ := hok
    have hmono' : ∀ T0, last = some T0 → T0 ≤ T := by
      intro T0 e; subst e; simpa using hmono
    have hn := sim_next h T s ret hmono' hw hwin hun
    exact ⟨by show Out.pass _ = Out.pass _; rw [hn.1], hn.2⟩

/-- **refinement from any related pair of states** -/
theorem refines_from : ∀ (h : List (Op Int)) (k : K) (a : A) (last : Option Int), Sim k a last →
    inScopeFrom a last h = true →
    (Model.Fibre.runFrom k (wrap h)).2 = (Spec.Sched.runFrom a h).2
    ∧ Sim (Model.Fibre.runFrom k (wrap h)).1 (Spec.Sched.runFrom a h).1 (h.foldl lastOf last)
  | [], _, _, _, hs, _ => ⟨rfl, hs⟩
  | op :: h, k, a, last, hs, hin => by
    simp only [inScopeFrom, Bool.and_eq_true] at hin
    have h1 := sim_step hs op hin.1
    have ih := refines_from h _ _ _ h1.2 hin.2
    simp only [wrap, List.map_cons, Model.Fibre.runFrom, Spec.Sched.runFrom, List.foldl_cons]
    exact ⟨by rw [h1.1]; congr 1; exact ih.1, ih.2⟩

end Librfn.Sched.L

import Librfn.Model.Console
import Librfn.Lemmas.ConsoleTok
/-! `do_tokenize`'s index loop as a left fold over the characters of the line (`scan`), so that facts
about lines built by concatenation follow from `List.foldl_append`. -/
namespace Librfn.Lemmas.ConsoleScan
open Librfn.Model.Console Librfn.Gen.Layout Librfn.Lemmas.ConsoleTok

/-- the loop state with the already visited (and modified) prefix of the buffer -/
structure Sc where
  out : List Byte
  prev : Byte            -- the last byte of `out` (`buf[i-1]` as the loop sees it)
  quote : Byte
  argc : Nat
  argv : List (Option Nat)
  brk : Bool
  deriving Repr

/-- one iteration of the loop body -/
def scanBody (s : Sc) (b : Byte) : Sc :=
  if isspace b = true ∧ s.quote = 0 then { s with out := s.out ++ [0], prev := 0 }
  else if b = s.quote then { s with out := s.out ++ [0], prev := 0, quote := 0 }
  else if s.prev = 0 then
    if s.quote = 0 ∧ (b = 39 ∨ b = 34) then { s with out := s.out ++ [0], prev := 0, quote := b }
    else { s with out := s.out ++ [b], prev := b, argv := s.argv.set s.argc (some s.out.length),
                  argc := s.argc + 1, brk := decide (s.argc + 1 ≥ argvLen) }
  else { s with out := s.out ++ [b], prev := b }

/-- after the `break` the characters are only copied -/
def scanStep (s : Sc) (b : Byte) : Sc :=
  if s.brk = true then { s with out := s.out ++ [b], prev := b } else scanBody s b

def scan (s : Sc) (l : List Byte) : Sc := l.foldl scanStep s

theorem scan_append (s : Sc) (a b : List Byte) : scan s (a ++ b) = scan (scan s a) b := by
  unfold scan; rw [List.foldl_append]

theorem scan_nil (s : Sc) : scan s [] = s := rfl
theorem scan_cons (s : Sc) (b : Byte) (l : List Byte) : scan s (b :: l) = scan (scanStep s b) l := rfl

/-- after the `break` the rest of the line is left as it is -/
theorem scan_brk : ∀ (l : List Byte) (s : Sc), s.brk = true →
    (scan s l).out = s.out ++ l ∧ (scan s l).quote = s.quote ∧ (scan s l).argc = s.argc ∧
    (scan s l).argv = s.argv ∧ (scan s l).brk = true
  | [], s, h => ⟨by simp [scan], rfl, rfl, rfl, h⟩
  | b :: l, s, h => by
    rw [scan_cons]
    have h1 : scanStep s b = { s with out := s.out ++ [b], prev := b } := by unfold scanStep; rw [if_pos h]
    rw [h1]
    obtain ⟨a1, a2, a3, a4, a5⟩ := scan_brk l { s with out := s.out ++ [b], prev := b } h
    exact ⟨by rw [a1]; simp, a2, a3, a4, a5⟩

theorem getD_append_len (out : List Byte) (b : Byte) (rest : List Byte) :
    (out ++ b :: rest).getD out.length 0 = b := by
  simp [List.getD_eq_getElem?_getD]

theorem set_append_len (out : List Byte) (b v : Byte) (rest : List Byte) :
    (out ++ b :: rest).set out.length v = out ++ v :: rest := by
  rw [List.set_append_right _ _ (Nat.le_refl _)]
  simp

/-- the loop state and the fold state describe the same situation at index `i`, with `rest` still to
    be visited -/
structure Corr (t : Tok) (sc : Sc) (rest : List Byte) (i : Nat) : Prop where
  mem : t.mem = sc.out ++ rest
  len : sc.out.length = i
  prev : 1 ≤ i → sc.prev = t.mem.getD (i - 1) 0
  quote : sc.quote = t.quote
  argc : sc.argc = t.argc
  argv : sc.argv = t.argv

theorem corr_next (t' : Tok) (x : Byte) (rest : List Byte) (i : Nat) (q : Byte) (c : Nat)
    (v : List (Option Nat)) (br : Bool) (out : List Byte) (hl : out.length = i)
    (hm : t'.mem = (out ++ [x]) ++ rest) (hq : q = t'.quote) (hc : c = t'.argc) (hv : v = t'.argv) :
    Corr t' { out := out ++ [x], prev := x, quote := q, argc := c, argv := v, brk := br } rest (i + 1) :=
  { mem := hm, len := by simp [hl],
    prev := fun _ => by
      show x = t'.mem.getD (i + 1 - 1) 0
      rw [hm, Nat.add_sub_cancel, ← hl]
      simp [List.getD_eq_getElem?_getD],
    quote := hq, argc := hc, argv := hv }

/-- one iteration of the index loop is one step of the fold -/
theorem step_corr (t : Tok) (sc : Sc) (b : Byte) (rest : List Byte) (i : Nat)
    (h : Corr t sc (b :: rest) i) (hi : 1 ≤ i) (hb : sc.brk = false) :
    Corr (tokStep t i).1 (scanStep sc b) rest (i + 1) ∧ (scanStep sc b).brk = (tokStep t i).2 := by
  have hrd : t.mem.getD i 0 = b := by rw [h.mem, ← h.len]; exact getD_append_len _ _ _
  have hset : t.mem.set i 0 = (sc.out ++ [0]) ++ rest := by
    rw [h.mem, ← h.len, set_append_len]; simp
  have hkeep : t.mem = (sc.out ++ [b]) ++ rest := by rw [h.mem]; simp
  have hp := h.prev hi
  have hss : scanStep sc b = scanBody sc b := by unfold scanStep; rw [if_neg (by rw [hb]; decide)]
  rw [hss]
  unfold tokStep scanBody
  rw [hrd, ← h.quote, ← hp]
  by_cases c1 : isspace b = true ∧ sc.quote = 0
  · rw [if_pos c1, if_pos c1]
    exact ⟨corr_next _ 0 rest i _ _ _ _ sc.out h.len hset rfl h.argc h.argv, hb⟩
  · rw [if_neg c1, if_neg c1]
    by_cases c2 : b = sc.quote
    · rw [if_pos c2, if_pos c2]
      exact ⟨corr_next _ 0 rest i _ _ _ _ sc.out h.len hset rfl h.argc h.argv, hb⟩
    · rw [if_neg c2, if_neg c2]
      by_cases c3 : sc.prev = 0
      · rw [if_pos c3, if_pos c3]
        by_cases c4 : sc.quote = 0 ∧ (b = 39 ∨ b = 34)
        · rw [if_pos c4, if_pos c4]
          exact ⟨corr_next _ 0 rest i _ _ _ _ sc.out h.len hset rfl h.argc h.argv, hb⟩
        · rw [if_neg c4, if_neg c4]
          refine ⟨corr_next _ b rest i _ _ _ _ sc.out h.len hkeep rfl ?_ ?_, ?_⟩
          · show sc.argc + 1 = t.argc + 1; rw [h.argc]
          · show sc.argv.set sc.argc (some sc.out.length) = t.argv.set t.argc (some i); rw [h.argv, h.argc, h.len]
          · show decide (sc.argc + 1 ≥ argvLen) = decide (t.argc + 1 ≥ argvLen); rw [h.argc]
      · rw [if_neg c3, if_neg c3]
        exact ⟨corr_next _ b rest i _ _ _ _ sc.out h.len hkeep h.quote h.argc h.argv, hb⟩

/-- **the index loop is the fold** -/
theorem tokLoop_scan : ∀ (seg : List Byte) (t : Tok) (sc : Sc) (post : List Byte) (i : Nat),
    Corr t sc (seg ++ post) i → 1 ≤ i → sc.brk = false →
    (tokLoop seg.length i t).mem = (scan sc seg).out ++ post ∧ (tokLoop seg.length i t).quote = (scan sc seg).quote ∧
    (tokLoop seg.length i t).argc = (scan sc seg).argc ∧ (tokLoop seg.length i t).argv = (scan sc seg).argv
  | [], t, sc, post, i, h, _, _ => by
    simp only [List.length_nil, tokLoop, scan_nil]
    exact ⟨by rw [h.mem]; simp, h.quote.symm, h.argc.symm, h.argv.symm⟩
  | b :: seg, t, sc, post, i, h, hi, hb => by
    obtain ⟨hc, hbrk⟩ := step_corr t sc b (seg ++ post) i (by simpa using h) hi hb
    simp only [List.length_cons]
    rw [tokLoop, scan_cons]
    by_cases hbr : (tokStep t i).2 = true
    · rw [if_pos hbr]
      obtain ⟨a1, a2, a3, a4, _⟩ := scan_brk seg _ (hbrk.trans hbr)
      rw [a1, a2, a3, a4]
      exact ⟨by rw [hc.mem]; simp, hc.quote.symm, hc.argc.symm, hc.argv.symm⟩
    · rw [if_neg hbr]
      exact tokLoop_scan seg _ _ post (i + 1) hc (by omega) (by rw [hbrk]; simpa using hbr)

/-- the state the fold starts in, after the first character `c0` of the line -/
def sc0 (c0 : Byte) (argv : List (Option Nat)) : Sc :=
  { out := [c0], prev := c0, quote := 0, argc := 1, argv := argv.set 0 (some 0), brk := false }

/-- **`do_tokenize` on a non-empty line** `c0 :: rest` (followed by its terminator and anything) -/
theorem tokenizeMem_scan (c0 : Byte) (rest tail : List Byte) (argv : List (Option Nat)) :
    let t := tokenizeMem (c0 :: rest ++ 0 :: tail) argv (rest.length + 1)
    let sc := scan (sc0 c0 argv) rest
    t.mem = sc.out ++ 0 :: tail ∧ t.argc = sc.argc ∧ t.argv = sc.argv := by
  have h := tokLoop_scan rest { mem := c0 :: rest ++ 0 :: tail, quote := 0, argc := 1, argv := argv.set 0 (some 0), wr := [] }
    (sc0 c0 argv) (0 :: tail) 1
    { mem := (by simp [sc0]), len := rfl, prev := (fun _ => by simp [sc0]), quote := rfl, argc := rfl, argv := rfl }
    (Nat.le_refl _) rfl
  simp only [tokenizeMem, Nat.add_sub_cancel]
  exact ⟨h.1, h.2.2.1, h.2.2.2⟩

end Librfn.Lemmas.ConsoleScan

import Librfn.Model.Console
import Librfn.Spec.Console
import Librfn.Lemmas.ConsoleTok
/-! Refinement of the editing loop of the console model to the edit stack of the specification. -/
namespace Librfn.Lemmas.ConsoleEdit
open Librfn.Model.Console Librfn.Gen.Layout Librfn.Lemmas.ConsoleTok
open Librfn.Spec.Console (editStep edit Lines feed feedAll completes)

theorem scratchSize_gt : 79 < scratchSize := by decide

/-- the line buffer holds exactly `cur` (then NULs to the end of the union), the cursor is at its end -/
structure AtPrompt (s : St) (cur : List Byte) : Prop where
  memlen : s.mem.length = scratchSize
  bufp : s.bufp = cur.length
  short : cur.length ≤ 79
  mem : ∀ j, s.mem.getD j 0 = cur.getD j 0
  nonul : ∀ b ∈ cur, b ≠ 0

theorem replicate_getD (k j : Nat) : (List.replicate k (0 : Nat)).getD j 0 = 0 := by
  rw [List.getD_eq_getElem?_getD]
  cases h : (List.replicate k 0)[j]? with
  | none => rfl
  | some v => have := List.mem_of_getElem? h; simp only [List.mem_replicate] at this; simp [this.2]

theorem atPrompt_doPrompt (s : St) : AtPrompt (doPrompt s) [] :=
  { memlen := by simp [doPrompt, St.print], bufp := rfl, short := Nat.zero_le _,
    mem := fun j => by
      show (List.replicate scratchSize 0).getD j 0 = _
      rw [replicate_getD]; simp,
    nonul := fun b hb => by cases hb }

theorem dropLast_getD (cur : List Byte) (j : Nat) :
    cur.dropLast.getD j 0 = if j < cur.length - 1 then cur.getD j 0 else 0 := by
  rw [List.dropLast_eq_take, List.getD_eq_getElem?_getD, List.getD_eq_getElem?_getD]
  by_cases h : j < cur.length - 1
  · rw [if_pos h, List.getElem?_take_of_lt h]
  · rw [if_neg h, List.getElem?_eq_none (by simp [List.length_take]; omega)]
    rfl

theorem append_getD (cur : List Byte) (ch : Byte) (j : Nat) :
    (cur ++ [ch]).getD j 0 = if j = cur.length then ch else cur.getD j 0 := by
  rw [List.getD_eq_getElem?_getD, List.getD_eq_getElem?_getD]
  by_cases h1 : j < cur.length
  · rw [List.getElem?_append_left h1, if_neg (by omega)]
  · rw [List.getElem?_append_right (by omega)]
    by_cases h2 : j = cur.length
    · subst h2; simp
    · rw [if_neg h2, List.getElem?_eq_none (by simp; omega), List.getElem?_eq_none (by omega)]

theorem poke_in (s : St) (off : Nat) (v : Byte) (h : off < s.mem.length) :
    s.poke off v = { s with mem := s.mem.set off v, wlog := off :: s.wlog } := by
  simp [St.poke, h]

/-- **one keystroke**: the editing branches of `console_run` are the edit stack -/
theorem editChar_sim (s : St) (cur : List Byte) (ch : Byte) (h : AtPrompt s cur) (hlt : cur.length < 79)
    (hnl : ch ≠ 10) (hnz : ch ≠ 0) :
    AtPrompt (editChar s ch) (editStep cur ch) ∧ (editChar s ch).lines = s.lines ∧
    (editChar s ch).eaten = s.eaten ∧ (editChar s ch).fpt = s.fpt ∧ (editChar s ch).ring = s.ring := by
  have hss := scratchSize_gt
  unfold editChar editStep Librfn.Spec.Console.BS Librfn.Spec.Console.CTRLC
  by_cases c1 : ch = 8
  · rw [if_pos c1, if_pos c1]
    by_cases c2 : s.bufp > 0
    · rw [if_pos c2]
      have hin : s.bufp - 1 < s.mem.length := by rw [h.memlen]; have := h.bufp; omega
      rw [poke_in _ _ _ (show s.bufp - 1 < ({ s with bufp := s.bufp - 1 } : St).mem.length from hin)]
      refine ⟨{ memlen := by simp [St.print, h.memlen], bufp := ?_, short := ?_, mem := ?_, nonul := ?_ }, rfl, rfl, rfl, rfl⟩
      · show s.bufp - 1 = cur.dropLast.length
        rw [List.length_dropLast, h.bufp]
      · rw [List.length_dropLast]; omega
      · intro j
        show (s.mem.set (s.bufp - 1) 0).getD j 0 = _
        rw [getD_set, dropLast_getD, h.mem j, h.bufp]
        by_cases e : cur.length - 1 = j
        · subst e
          rw [if_pos ⟨rfl, by rw [← h.bufp]; exact hin⟩, if_neg (by omega)]
        · rw [if_neg (fun hc => e hc.1)]
          by_cases e2 : j < cur.length - 1
          · rw [if_pos e2]
          · rw [if_neg e2, List.getD_eq_getElem?_getD, List.getElem?_eq_none (by omega)]; rfl
      · intro b hb
        rw [List.dropLast_eq_take] at hb
        exact h.nonul b (List.mem_of_mem_take hb)
    · rw [if_neg c2]
      have hz : cur = [] := by
        have := h.bufp
        cases cur with
        | nil => rfl
        | cons a t => simp at this; omega
      subst hz
      exact ⟨{ h with }, rfl, rfl, rfl, rfl⟩
  · rw [if_neg c1, if_neg c1]
    by_cases c2 : ch = 3
    · rw [if_pos c2, if_pos c2]
      exact ⟨atPrompt_doPrompt _, rfl, rfl, rfl, rfl⟩
    · rw [if_neg c2, if_neg c2, if_pos hnl]
      have hin : s.bufp < s.mem.length := by rw [h.memlen, h.bufp]; omega
      rw [poke_in _ _ _ hin]
      refine ⟨{ memlen := by simp [h.memlen], bufp := ?_, short := ?_, mem := ?_, nonul := ?_ }, rfl, rfl, rfl, rfl⟩
      · show s.bufp + 1 = (cur ++ [ch]).length
        rw [List.length_append, h.bufp]; rfl
      · rw [List.length_append]; simp only [List.length_singleton]; omega
      · intro j
        show (s.mem.set s.bufp ch).getD j 0 = _
        rw [getD_set, append_getD, h.mem j, h.bufp]
        by_cases e : cur.length = j
        · subst e
          rw [if_pos ⟨rfl, by rw [← h.bufp]; exact hin⟩, if_pos rfl]
        · rw [if_neg (fun hc => e hc.1), if_neg (fun hc => e hc.symm)]
      · intro b hb
        rcases List.mem_append.mp hb with hb | hb
        · exact h.nonul b hb
        · simp only [List.mem_singleton] at hb; rw [hb]; exact hnz

/-- at the prompt, `strlen` of the buffer is the length of the edited line and the buffer starts
    with that line -/
theorem atPrompt_strlen (s : St) (cur : List Byte) (h : AtPrompt s cur) :
    strlen? s.mem = some cur.length ∧ s.mem.take cur.length = cur := by
  have hss := scratchSize_gt
  have hz : s.mem.getD cur.length 0 = 0 := by
    rw [h.mem, List.getD_eq_getElem?_getD, List.getElem?_eq_none (Nat.le_refl _)]; rfl
  obtain ⟨len, hlen, hle⟩ := strlen_exists s.mem cur.length (by rw [h.memlen]; have := h.short; omega) hz
  obtain ⟨_, h0, _⟩ := strlen_spec s.mem len hlen
  have hge : cur.length ≤ len := by
    apply Nat.le_of_not_lt
    intro hlt
    rw [h.mem, List.getD_eq_getElem?_getD, List.getElem?_eq_getElem hlt] at h0
    exact h.nonul _ (List.getElem_mem hlt) (by simpa using h0)
  have : len = cur.length := by omega
  subst this
  refine ⟨hlen, ?_⟩
  apply List.ext_getElem
  · rw [List.length_take, h.memlen]; have := h.short; omega
  · intro j h1 h2
    rw [List.getElem_take]
    have := h.mem j
    rw [List.getD_eq_getElem?_getD, List.getD_eq_getElem?_getD, List.getElem?_eq_getElem h2,
      List.getElem?_eq_getElem (by rw [h.memlen]; have := h.short; omega)] at this
    simpa using this

/-! ### the console as a whole refines "feed the characters to the edit stack" -/

/-- the abstract state: what the specification makes of the characters taken out of the ring -/
def L (s : St) : Lines := feedAll ⟨[], []⟩ s.eaten

structure Abs (s : St) : Prop where
  lines : s.lines = (L s).done
  idle : s.fpt ≠ 2 → AtPrompt s (L s).cur
  busy : s.fpt = 2 → (L s).cur = []
  ringnz : ∀ b ∈ s.ring, b ≠ 0
  boot : s.fpt = 0 → s.eaten = []

theorem runBody_frame (tab : Table) (s : St) (b : Body) :
    (runBody tab s b).1.lines = s.lines ∧ (runBody tab s b).1.eaten = s.eaten ∧
    (runBody tab s b).1.ring = s.ring ∧ (runBody tab s b).1.fpt = s.fpt := by
  cases b with
  | echo => exact ⟨rfl, rfl, rfl, rfl⟩
  | unknown =>
    rw [runBody]
    cases s.argv.getD 0 none with
    | none => exact ⟨rfl, rfl, rfl, rfl⟩
    | some o =>
      simp only []
      split <;> exact ⟨rfl, rfl, rfl, rfl⟩
  | help =>
    rw [runBody]
    split
    · exact ⟨rfl, rfl, rfl, rfl⟩
    · split
      · split
        · exact ⟨rfl, rfl, rfl, rfl⟩
        · cases tab.getD 0 none with
          | none => exact ⟨rfl, rfl, rfl, rfl⟩
          | some c0 =>
            simp only []
            cases c0.name <;> exact ⟨rfl, rfl, rfl, rfl⟩
      · split
        · cases tab.getD (s.hidx + 1) none with
          | none => exact ⟨rfl, rfl, rfl, rfl⟩
          | some c1 =>
            simp only []
            cases c1.name <;> exact ⟨rfl, rfl, rfl, rfl⟩
        · exact ⟨rfl, rfl, rfl, rfl⟩
  | script id k fails dirty =>
    rw [runBody]
    split
    · split <;> exact ⟨rfl, rfl, rfl, rfl⟩
    · split <;> exact ⟨rfl, rfl, rfl, rfl⟩

theorem runCmd_frame (tab : Table) (s : St) :
    (runCmd tab s).1.lines = s.lines ∧ (runCmd tab s).1.eaten = s.eaten ∧
    (runCmd tab s).1.ring = s.ring ∧ (runCmd tab s).1.fpt = s.fpt := by
  unfold runCmd
  cases s.cmd with
  | none => exact ⟨rfl, rfl, rfl, rfl⟩
  | some c => exact runBody_frame tab s c.body

theorem findCommand_frame (tab : Table) (s : St) :
    (findCommand tab s).lines = s.lines ∧ (findCommand tab s).eaten = s.eaten ∧ (findCommand tab s).ring = s.ring := by
  unfold findCommand
  cases s.argv.getD 0 none with
  | none => exact ⟨rfl, rfl, rfl⟩
  | some a0 =>
    simp only []
    cases findLoop (cstr s.mem a0) tab <;> exact ⟨rfl, rfl, rfl⟩

theorem doTokenize_frame (s : St) (cur : List Byte) (h : AtPrompt s cur) :
    (doTokenize s).lines = s.lines ++ [cur] ∧ (doTokenize s).eaten = s.eaten ∧ (doTokenize s).ring = s.ring := by
  obtain ⟨h1, h2⟩ := atPrompt_strlen s cur h
  unfold doTokenize
  rw [h1]
  refine ⟨?_, rfl, rfl⟩
  show s.lines ++ [s.mem.take cur.length] = _
  rw [h2]

theorem finishCmd_frame (s : St) (r : PtState) :
    AtPrompt (finishCmd s r) [] ∧ (finishCmd s r).lines = s.lines ∧ (finishCmd s r).eaten = s.eaten := by
  unfold finishCmd
  split
  · exact ⟨atPrompt_doPrompt _, rfl, rfl⟩
  · exact ⟨atPrompt_doPrompt _, rfl, rfl⟩

theorem L_snoc (s : St) (ch : Byte) (e : List Byte) (he : e = s.eaten ++ [ch]) :
    feedAll ⟨[], []⟩ e = feed (L s) ch := by
  subst he
  unfold L feedAll
  rw [List.foldl_append]
  rfl

/-- Abs for a state at the `PT_WAIT_UNTIL` given its pieces -/
theorem abs_wait (s : St) (ring : List Byte) (l : Lines) (hl : L s = l) (hlines : s.lines = l.done)
    (hat : AtPrompt s l.cur) (hr : ∀ b ∈ ring, b ≠ 0) : Abs { s with fpt := 1, ring := ring } :=
  { lines := (by show s.lines = (L s).done; rw [hl]; exact hlines),
    idle := (fun _ => by
      show AtPrompt _ (L s).cur
      rw [hl]
      exact ⟨hat.memlen, hat.bufp, hat.short, hat.mem, hat.nonul⟩),
    busy := (fun e => absurd (show (1 : Nat) = 2 from e) (by decide)),
    ringnz := hr,
    boot := (fun e => absurd (show (1 : Nat) = 0 from e) (by decide)) }

theorem loopW_abs (tab : Table) : ∀ (ring : List Byte) (s : St),
    Abs { s with fpt := 1, ring := ring } → Abs (loopW tab ring s).1
  | [], s, h => h
  | ch :: rest, s, h => by
    have hat : AtPrompt s (L s).cur := by
      have := h.idle (by show (1 : Nat) ≠ 2; decide)
      exact ⟨this.memlen, this.bufp, this.short, this.mem, this.nonul⟩
    have hlines : s.lines = (L s).done := h.lines
    have hrest : ∀ b ∈ rest, b ≠ 0 := fun b hb => h.ringnz b (List.mem_cons_of_mem _ hb)
    have hch : ch ≠ 0 := h.ringnz ch (List.mem_cons_self ..)
    have hat1 : AtPrompt { s with ring := rest, fpt := 1, eaten := s.eaten ++ [ch] } (L s).cur :=
      ⟨hat.memlen, hat.bufp, hat.short, hat.mem, hat.nonul⟩
    rw [loopW]
    by_cases hc : ch = 10 ∨ s.bufp ≥ 79
    · rw [if_pos hc]
      have hcomp : completes (L s).cur ch := by
        unfold completes Librfn.Spec.Console.NL
        rw [← hat.bufp]; exact hc
      have hfeed : feed (L s) ch = ⟨(L s).done ++ [(L s).cur], []⟩ := by unfold feed; rw [if_pos hcomp]
      obtain ⟨t1, t2, t3⟩ := doTokenize_frame _ _ hat1
      obtain ⟨f1, f2, f3⟩ := findCommand_frame tab (doTokenize { s with ring := rest, fpt := 1, eaten := s.eaten ++ [ch] })
      obtain ⟨r1, r2, r3, r4⟩ := runCmd_frame tab
        { findCommand tab (doTokenize { s with ring := rest, fpt := 1, eaten := s.eaten ++ [ch] }) with pt := 0, fpt := 2 }
      simp only []
      have hL : ∀ x : St, x.eaten = s.eaten ++ [ch] → L x = ⟨(L s).done ++ [(L s).cur], []⟩ := by
        intro x hx
        show feedAll ⟨[], []⟩ x.eaten = _
        rw [L_snoc s ch _ hx, hfeed]
      by_cases hy : (runCmd tab { findCommand tab (doTokenize { s with ring := rest, fpt := 1, eaten := s.eaten ++ [ch] }) with pt := 0, fpt := 2 }).2 = .yielded ∨
          (runCmd tab { findCommand tab (doTokenize { s with ring := rest, fpt := 1, eaten := s.eaten ++ [ch] }) with pt := 0, fpt := 2 }).2 = .waiting
      · rw [if_pos hy]
        have he : (runCmd tab { findCommand tab (doTokenize { s with ring := rest, fpt := 1, eaten := s.eaten ++ [ch] }) with pt := 0, fpt := 2 }).1.eaten = s.eaten ++ [ch] := by
          rw [r2]; show (findCommand tab _).eaten = _; rw [f2, t2]
        refine { lines := ?_, idle := ?_, busy := ?_, ringnz := ?_, boot := ?_ }
        · rw [hL _ he, r1]; show (findCommand tab _).lines = _; rw [f1, t1, hlines]
        · intro hne; exact absurd r4 hne
        · intro _; rw [hL _ he]
        · rw [r3]; show ∀ b ∈ (findCommand tab _).ring, b ≠ 0; rw [f3, t3]; exact hrest
        · intro e; rw [r4] at e; exact absurd (show (2 : Nat) = 0 from e) (by decide)
      · rw [if_neg hy]
        apply loopW_abs tab rest
        obtain ⟨p1, p2, p3⟩ := finishCmd_frame
          (runCmd tab { findCommand tab (doTokenize { s with ring := rest, fpt := 1, eaten := s.eaten ++ [ch] }) with pt := 0, fpt := 2 }).1
          (runCmd tab { findCommand tab (doTokenize { s with ring := rest, fpt := 1, eaten := s.eaten ++ [ch] }) with pt := 0, fpt := 2 }).2
        have he : (finishCmd (runCmd tab { findCommand tab (doTokenize { s with ring := rest, fpt := 1, eaten := s.eaten ++ [ch] }) with pt := 0, fpt := 2 }).1
          (runCmd tab { findCommand tab (doTokenize { s with ring := rest, fpt := 1, eaten := s.eaten ++ [ch] }) with pt := 0, fpt := 2 }).2).eaten = s.eaten ++ [ch] := by
          rw [p3, r2]; show (findCommand tab _).eaten = _; rw [f2, t2]
        refine abs_wait _ rest _ (hL _ he) ?_ p1 hrest
        rw [p2, r1]; show (findCommand tab _).lines = _; rw [f1, t1, hlines]
    · rw [if_neg hc]
      have hlt : (L s).cur.length < 79 := by rw [← hat.bufp]; omega
      have hncomp : ¬ completes (L s).cur ch := by
        unfold completes Librfn.Spec.Console.NL
        rw [← hat.bufp]; exact hc
      have hfeed : feed (L s) ch = ⟨(L s).done, editStep (L s).cur ch⟩ := by unfold feed; rw [if_neg hncomp]
      obtain ⟨e1, e2, e3, e4, e5⟩ := editChar_sim _ _ ch hat1 hlt (fun e => hc (Or.inl e)) hch
      apply loopW_abs tab rest
      have he : (editChar { s with ring := rest, fpt := 1, eaten := s.eaten ++ [ch] } ch).eaten = s.eaten ++ [ch] := e3
      have hLx : L (editChar { s with ring := rest, fpt := 1, eaten := s.eaten ++ [ch] } ch) = ⟨(L s).done, editStep (L s).cur ch⟩ := by
        show feedAll ⟨[], []⟩ _ = _
        rw [L_snoc s ch _ he, hfeed]
      exact abs_wait _ rest _ hLx (by rw [e2]; exact hlines) e1 hrest

theorem consoleRun_abs (tab : Table) (s : St) (h : Abs s) : Abs (consoleRun tab s).1 := by
  unfold consoleRun
  by_cases f0 : s.fpt = 0
  · rw [if_pos f0]
    apply loopW_abs
    have he := h.boot f0
    have hL : L s = ⟨[], []⟩ := by unfold L; rw [he]; rfl
    by_cases ha : s.argc = 0
    · rw [if_pos ha]
      refine abs_wait _ _ ⟨[], []⟩ ?_ ?_ (atPrompt_doPrompt s) h.ringnz
      · show feedAll ⟨[], []⟩ s.eaten = _; rw [he]; rfl
      · show s.lines = []; rw [h.lines, hL]
    · rw [if_neg ha]
      have hat := h.idle (by rw [f0]; decide)
      rw [hL] at hat
      refine abs_wait _ _ ⟨[], []⟩ hL ?_ ⟨hat.memlen, rfl, hat.short, hat.mem, hat.nonul⟩ h.ringnz
      show s.lines = []; rw [h.lines, hL]
  · rw [if_neg f0]
    by_cases f1 : s.fpt = 1
    · rw [if_pos f1]
      apply loopW_abs
      exact abs_wait s s.ring (L s) rfl h.lines (h.idle (by rw [f1]; decide)) h.ringnz
    · rw [if_neg f1]
      by_cases f2 : s.fpt = 2
      · rw [if_pos f2]
        obtain ⟨r1, r2, r3, r4⟩ := runCmd_frame tab s
        simp only []
        have hL : L (runCmd tab s).1 = L s := by unfold L; rw [r2]
        by_cases hy : (runCmd tab s).2 = .yielded ∨ (runCmd tab s).2 = .waiting
        · rw [if_pos hy]
          refine { lines := ?_, idle := ?_, busy := ?_, ringnz := ?_, boot := ?_ }
          · rw [hL, r1]; exact h.lines
          · intro hne; rw [r4] at hne; exact absurd f2 hne
          · intro _; rw [hL]; exact h.busy f2
          · rw [r3]; exact h.ringnz
          · intro e; rw [r4, f2] at e; exact absurd e (by decide)
        · rw [if_neg hy]
          apply loopW_abs
          obtain ⟨p1, p2, p3⟩ := finishCmd_frame (runCmd tab s).1 (runCmd tab s).2
          have hcur := h.busy f2
          have hLf : L (finishCmd (runCmd tab s).1 (runCmd tab s).2) = ⟨(L s).done, []⟩ := by
            unfold L; rw [p3, r2]
            show L s = _
            exact (by rw [hcur] : (⟨(L s).done, (L s).cur⟩ : Lines) = ⟨(L s).done, []⟩)
          refine abs_wait _ _ _ hLf ?_ p1 (by rw [r3]; exact h.ringnz)
          rw [p2, r1]; exact h.lines
      · rw [if_neg f2]
        exact { lines := h.lines,
                idle := (fun _ => ⟨(h.idle f2).memlen, (h.idle f2).bufp, (h.idle f2).short, (h.idle f2).mem, (h.idle f2).nonul⟩),
                busy := (fun e => absurd e f2),
                ringnz := h.ringnz, boot := h.boot }

/-! ### delivery operations and histories -/

theorem abs_frame (s s' : St) (h : Abs s) (hl : s'.lines = s.lines) (he : s'.eaten = s.eaten) (hf : s'.fpt = s.fpt)
    (hm : s'.mem = s.mem) (hb : s'.bufp = s.bufp) (hr : ∀ b ∈ s'.ring, b ≠ 0) : Abs s' := by
  have hL : L s' = L s := by unfold L; rw [he]
  exact { lines := (by rw [hL, hl]; exact h.lines),
          idle := (fun hne => by
            have a := h.idle (by rw [← hf]; exact hne)
            rw [hL]
            exact ⟨by rw [hm]; exact a.memlen, by rw [hb]; exact a.bufp, a.short, by rw [hm]; exact a.mem, a.nonul⟩),
          busy := (fun e => by rw [hL]; exact h.busy (by rw [← hf]; exact e)),
          ringnz := hr,
          boot := (fun e => by rw [he]; exact h.boot (by rw [← hf]; exact e)) }

theorem ringPut_nz (ring : List Byte) (d : Byte) (h : ∀ b ∈ ring, b ≠ 0) (hd : d ≠ 0) : ∀ b ∈ (ringPut ring d).1, b ≠ 0 := by
  unfold ringPut
  split
  · exact h
  · intro b hb
    rcases List.mem_append.mp hb with hb | hb
    · exact h b hb
    · simp only [List.mem_singleton] at hb; rw [hb]; exact hd

theorem runWhileYielded_abs (tab : Table) : ∀ (fuel : Nat) (s : St), Abs s → Abs (runWhileYielded tab fuel s)
  | 0, s, h => by rw [runWhileYielded]; exact abs_frame s _ h rfl rfl rfl rfl rfl h.ringnz
  | fuel + 1, s, h => by
    rw [runWhileYielded]
    split
    · exact runWhileYielded_abs tab fuel _ (consoleRun_abs tab s h)
    · exact consoleRun_abs tab s h

theorem process_abs (tab : Table) (s : St) (d : Byte) (h : Abs s) (hd : d ≠ 0) : Abs (process tab s d) := by
  unfold process
  exact runWhileYielded_abs tab _ _ (abs_frame s _ h rfl rfl rfl rfl rfl (ringPut_nz _ _ h.ringnz hd))

theorem putchar_abs (s : St) (d : Byte) (h : Abs s) (hd : d ≠ 0) : Abs (putchar s d) := by
  unfold putchar
  exact abs_frame s _ h rfl rfl rfl rfl rfl (ringPut_nz _ _ h.ringnz hd)

theorem schedLoop_abs (tab : Table) : ∀ (fuel : Nat) (s : St), Abs s → Abs (schedLoop tab fuel s)
  | 0, s, h => by
    rw [schedLoop]
    split
    · exact abs_frame s _ h rfl rfl rfl rfl rfl h.ringnz
    · exact h
  | fuel + 1, s, h => by
    rw [schedLoop]
    split
    · have h1 : Abs { s with runnable := false } := abs_frame s _ h rfl rfl rfl rfl rfl h.ringnz
      have h2 := consoleRun_abs tab _ h1
      apply schedLoop_abs tab fuel
      split
      · exact abs_frame _ _ h2 rfl rfl rfl rfl rfl h2.ringnz
      · exact h2
    · exact h

theorem evalLoop_abs (str : List Byte) : ∀ (fuel : Nat) (s : St), Abs s → Abs (evalLoop str fuel s).1
  | 0, s, h => h
  | fuel + 1, s, h => by
    rw [evalLoop]
    split
    · exact h
    · rename_i d _
      split
      · exact h
      · rename_i hd
        split
        · exact evalLoop_abs str fuel _ (abs_frame s _ h rfl rfl rfl rfl rfl (ringPut_nz _ _ h.ringnz hd))
        · exact h

theorem evalResume_abs (str : List Byte) (pt : Nat) (s : St) (h : Abs s) : Abs (evalResume str pt s).1 := by
  unfold evalResume
  have h0 : Abs (if pt = 0 then { s with evali := 0 } else s) := by
    split
    · exact abs_frame s _ h rfl rfl rfl rfl rfl h.ringnz
    · exact h
  have h1 := evalLoop_abs str (str.length + 1) _ h0
  exact abs_frame _ _ h1 rfl rfl rfl rfl rfl h1.ringnz

theorem evalDrive_abs (tab : Table) (str : List Byte) :
    ∀ (fuel pt k : Nat) (s : St), Abs s → Abs (evalDrive tab str fuel pt k s).1
  | 0, _, _, s, h => h
  | fuel + 1, pt, k, s, h => by
    rw [evalDrive]
    have h1 : Abs (sched tab (evalResume str pt s).1) := schedLoop_abs tab _ _ (evalResume_abs str pt s h)
    split
    · exact h1
    · exact evalDrive_abs tab str fuel _ _ _ h1

/-- the bytes handed to `console_process` / `console_putchar` are not NUL (a C string given to
    `console_eval` cannot contain one) -/
def OpNZ : Op → Prop
  | .process d => d ≠ 0
  | .putchar d => d ≠ 0
  | _ => True

theorem init_abs : Abs init :=
  { lines := rfl,
    idle := (fun _ => ⟨by simp [init], rfl, Nat.zero_le _, fun j => by
      show (List.replicate scratchSize 0).getD j 0 = _
      rw [replicate_getD]; rfl, fun b hb => by cases hb⟩),
    busy := (fun e => absurd e (by decide)), ringnz := (fun b hb => by cases hb), boot := (fun _ => rfl) }

theorem step_abs (w : World) (op : Op) (hop : OpNZ op) (h : Abs w.s) : Abs (step w op).s := by
  cases op with
  | register cmd =>
    show Abs (match register w.tab cmd with | some (t, _) => { w with tab := t } | none => w).s
    cases register w.tab cmd with
    | none => exact h
    | some p => exact h
  | process d => exact process_abs _ _ d h hop
  | putchar d => exact putchar_abs _ d h hop
  | sched => exact schedLoop_abs _ _ _ h
  | run => exact consoleRun_abs _ _ h
  | evalStep str pt => exact evalResume_abs str pt _ h
  | eval str => exact evalDrive_abs _ str _ _ _ _ h
  | silent => exact abs_frame w.s _ h rfl rfl rfl rfl rfl h.ringnz

theorem runOps_abs : ∀ (ops : List Op) (w : World), (∀ op ∈ ops, OpNZ op) → Abs w.s → Abs (runOps w ops).s
  | [], _, _, h => h
  | op :: ops, w, hok, h =>
    runOps_abs ops (step w op) (fun o ho => hok o (List.mem_cons_of_mem _ ho)) (step_abs w op (hok op (List.mem_cons_self ..)) h)

/-! ### the specification side: a completed line is `edit` of its keystrokes -/

/-- no keystroke of `chars` completes the line being edited -/
def NoCompletion : List Byte → List Byte → Prop
  | _, [] => True
  | cur, c :: rest => ¬ completes cur c ∧ NoCompletion (editStep cur c) rest

theorem feedAll_noCompletion : ∀ (chars : List Byte) (done : List (List Byte)) (cur : List Byte),
    NoCompletion cur chars → feedAll ⟨done, cur⟩ chars = ⟨done, chars.foldl editStep cur⟩
  | [], _, _, _ => rfl
  | c :: rest, done, cur, h => by
    show feedAll (feed ⟨done, cur⟩ c) rest = _
    unfold feed
    rw [if_neg h.1]
    exact feedAll_noCompletion rest done _ h.2

end Librfn.Lemmas.ConsoleEdit

import Librfn.Lemmas.PTSplit5
namespace Librfn.Model.PT
open Stmt Librfn.Spec.PT

theorem split_spawn {fuel l ch} (hc : SplitAt fuel ch) : SplitAt fuel (spawn l ch) := by
  intro hwf e res n st r hE h
  have hlift : ∀ {r0 r}, Resumes fuel (join l ch) n r0 r → Resumes fuel (spawn l ch) n r0 r := fun hR =>
    hR.lift (fun l' hl' => by
      simp only [labels, List.mem_singleton] at hl'; subst hl'
      exact ⟨by simp [labels], fun res n st r' hr => by rw [exec_spawn_at, exec_join _ _ _ none (some l')]; exact hr⟩)
  by_cases he : e = some l
  · subst he; rw [exec_spawn_at] at h ⊢
    obtain ⟨r0, h0, hR⟩ := split_join hc hwf.2 none res n st r (hE l rfl).2 h
    exact ⟨r0, h0, hlift hR⟩
  · rw [exec_spawn_fresh _ _ _ _ _ _ _ he] at h ⊢
    obtain ⟨r0, h0, hR⟩ := split_join hc hwf.2 none res n _ r (by simp [St.setPt, PtSt.setPt, PtSt.pt]) h
    exact ⟨r0, h0, hlift hR⟩

theorem split_sac {fuel l ch} (hc : SplitAt fuel ch) : SplitAt fuel (spawnAndCheck l ch) := by
  intro hwf e res n st r hE h
  rw [exec_sac] at h ⊢
  have hw : WF (seq (spawn l ch) (ifChildOk skip fail)) := by
    refine ⟨hwf, ⟨trivial, trivial, by simp [labels]⟩, by simp [labels]⟩
  obtain ⟨r0, h0, hR⟩ := split_seq (split_spawn hc) (split_ico split_skip split_fail) hw e res n st r
    (fun l' hl' => by have := hE l' hl'; simpa [labels] using this) h
  exact ⟨r0, h0, hR.lift (fun l' hl' => ⟨by simpa [labels] using hl', fun res n st r' hr => by rw [exec_sac]; exact hr⟩)⟩

/-- PT_CALL's loop never returns to the caller: the budget is untouched -/
theorem spin_budget {k ch} : ∀ fuel e res n st r, exec fuel (spin k ch) e res (n + 1) st = some r →
    ∃ r0, exec fuel (spin k ch) e res 0 st = some r0 ∧
      ((∃ st' res' t, r0 = .normal st' res' 0 t ∧ r = .normal st' res' (n + 1) t) ∨ (∃ t, r0 = .abort t ∧ r = .abort t)) := by
  intro fuel
  induction fuel with
  | zero => intro e res n st r h; rw [exec_spin_zero] at h; cases h
  | succ f ih =>
    intro e res n st r h
    rw [exec_spin_succ] at h ⊢
    cases hent : entryOf ch (st.me.kid k).pt with
    | none => rw [hent] at h; simp only [Option.some.injEq] at h; subst h; exact ⟨_, rfl, Or.inr ⟨_, rfl, rfl⟩⟩
    | some e' =>
      rw [hent] at h; dsimp only at h ⊢
      cases hx : exec f ch e' .yielded 0 (st.enter k) with
      | none => rw [hx] at h; cases h
      | some o =>
        rw [hx] at h
        cases o with
        | normal st2 r2 n2 t =>
          simp only [spinPost, Option.some.injEq] at h ⊢; subst h; exact ⟨_, rfl, Or.inl ⟨_, _, _, rfl, rfl⟩⟩
        | abort t =>
          simp only [spinPost, Option.some.injEq] at h ⊢; subst h; exact ⟨_, rfl, Or.inr ⟨_, rfl, rfl⟩⟩
        | ret c st2 n2 t =>
          simp only [spinPost] at h ⊢
          by_cases hb : c.blocking = true
          · rw [if_pos hb] at h ⊢
            rcases Option.map_eq_some_iff.1 h with ⟨r', hr', rfl⟩
            obtain ⟨r0, h0, hcase⟩ := ih none res n _ r' hr'
            refine ⟨r0.prepend t, by rw [h0]; rfl, ?_⟩
            rcases hcase with ⟨st', res', t', rfl, rfl⟩ | ⟨t', rfl, rfl⟩
            · exact Or.inl ⟨_, _, _, rfl, rfl⟩
            · exact Or.inr ⟨_, rfl, rfl⟩
          · rw [if_neg hb] at h ⊢
            simp only [Option.some.injEq] at h; subst h; exact ⟨_, rfl, Or.inl ⟨_, _, _, rfl, rfl⟩⟩

theorem split_call {fuel k ch} : SplitAt fuel (call k ch) := by
  intro _ e res n st r _ h
  rw [exec_call] at h ⊢
  obtain ⟨r0, h0, hcase⟩ := spin_budget fuel none res n _ r h
  refine ⟨r0, h0, ?_⟩
  rcases hcase with ⟨st', res', t', rfl, rfl⟩ | ⟨t', rfl, rfl⟩
  · exact ⟨rfl, rfl⟩
  · rfl

theorem split_at : ∀ fuel s, SplitAt fuel s := by
  intro fuel
  induction fuel using Nat.strongRecOn with
  | _ fuel ihf =>
    intro s
    induction s with
    | skip => exact split_skip
    | eff => exact split_eff
    | exit => exact split_exit
    | fail => exact split_fail
    | yield => exact split_yield
    | wait => exact split_wait
    | waitUntil => exact split_waitUntil
    | exitOn => exact split_exitOn
    | failOn => exact split_failOn
    | seq a b iha ihb => exact split_seq iha ihb
    | ifte c a b iha ihb => exact split_ifte iha ihb
    | ifChildOk a b iha ihb => exact split_ico iha ihb
    | «while» c b ihb => exact split_while ihb (fun f hf => ⟨ihf f hf _, ihf f hf _⟩)
    | spawn l ch ih => exact split_spawn ih
    | spawnAndCheck l ch ih => exact split_sac ih
    | call k ch ih => exact split_call
    | join l ch ih => exact fun h => absurd h id
    | spin k ch ih => exact fun h => absurd h id

end Librfn.Model.PT

import Librfn.Spec.HBRel
import Librfn.Lemmas.HBVec
/-! The vector-clock invariant of the happens-before detector: after `n` events, component `u` of thread `t`'s
clock counts exactly the events of `u` that happen before (or are) an event of `t`; `rels l` does the same for
the release-or-stronger writes of the current release sequence(s) of `l`. -/
namespace Librfn.C07.HBLemmas
open Librfn.Model.HB Librfn.Spec.HBRel

/-! ## basic facts about `HB` -/

theorem getElem?_lt {tr : List Ev} {i : Nat} {e : Ev} (h : tr[i]? = some e) : i < tr.length := by
  false_or_by_contra
  rw [List.getElem?_eq_none (by omega)] at h; cases h

theorem ev_unique {tr : List Ev} {i : Nat} {a b : Ev} (h1 : tr[i]? = some a) (h2 : tr[i]? = some b) : a = b := by
  rw [h1] at h2; exact Option.some.inj h2

theorem po_lt {tr : List Ev} {i j : Nat} (h : po tr i j) : i < j := h.1

theorem swFlat_lt {tr : List Ev} {i j : Nat} (h : swFlat tr i j) : i < j := h.1

theorem HB_lt {tr : List Ev} {i j : Nat} (h : HB tr i j) : i < j := by
  induction h with
  | po h => exact h.1
  | sw h => exact ((sw_iff _ _ _).1 h).1
  | trans _ _ h1 h2 => omega

/-- happens-before-or-equal -/
def HBeq (tr : List Ev) (i j : Nat) : Prop := i = j ∨ HB tr i j

theorem HBeq_le {tr : List Ev} {i j : Nat} (h : HBeq tr i j) : i ≤ j := by
  rcases h with h | h
  · omega
  · have := HB_lt h; omega

theorem HBeq_trans_HB {tr : List Ev} {i j k : Nat} (h1 : HBeq tr i j) (h2 : HB tr j k) : HB tr i k := by
  rcases h1 with h | h
  · subst h; exact h2
  · exact HB.trans h h2

/-- the last edge of a happens-before chain -/
theorem HB_last {tr : List Ev} {i n : Nat} (h : HB tr i n) :
    ∃ m, HBeq tr i m ∧ (po tr m n ∨ swFlat tr m n) := by
  induction h with
  | po h => exact ⟨_, Or.inl rfl, Or.inl h⟩
  | sw h => exact ⟨_, Or.inl rfl, Or.inr ((sw_iff _ _ _).1 h)⟩
  | trans h1 _ _ ih2 =>
    obtain ⟨m, hm, hs⟩ := ih2
    refine ⟨m, Or.inr ?_, hs⟩
    rcases hm with hm | hm
    · subst hm; exact h1
    · exact HB.trans h1 hm

theorem HB_of_swFlat {tr : List Ev} {i j : Nat} (h : swFlat tr i j) : HB tr i j := HB.sw ((sw_iff _ _ _).2 h)

/-! ## local time of an event -/

/-- number of events of thread `u` among the first `n` -/
def cnt (tr : List Ev) (n u : Nat) : Nat := (tr.take n).countP (fun e => e.tid == u)

theorem cnt_succ {tr : List Ev} {n : Nat} {e : Ev} (h : tr[n]? = some e) (u : Nat) :
    cnt tr (n + 1) u = cnt tr n u + if e.tid = u then 1 else 0 := by
  unfold cnt
  rw [List.take_add_one, h, List.countP_append]
  by_cases hu : e.tid = u <;> simp [hu]

theorem cnt_succ_self {tr : List Ev} {n : Nat} {e : Ev} (h : tr[n]? = some e) :
    cnt tr (n + 1) e.tid = cnt tr n e.tid + 1 := by
  rw [cnt_succ h]; simp

theorem cnt_succ_ne {tr : List Ev} {n : Nat} {e : Ev} (h : tr[n]? = some e) {u : Nat} (hu : e.tid ≠ u) :
    cnt tr (n + 1) u = cnt tr n u := by
  rw [cnt_succ h]; simp [hu]

theorem cnt_le_succ {tr : List Ev} {n : Nat} {e : Ev} (h : tr[n]? = some e) (u : Nat) :
    cnt tr n u ≤ cnt tr (n + 1) u := by
  rw [cnt_succ h]; omega

/-! ## the detector's state after `n` events -/

def stateAt (tr : List Ev) (n : Nat) : St := runFrom {} 0 (tr.take n)

theorem runFrom_append_single (s : St) (i : Nat) (l : List Ev) (e : Ev) :
    runFrom s i (l ++ [e]) = step (runFrom s i l) (i + l.length) e := by
  induction l generalizing s i with
  | nil => simp [runFrom]
  | cons a l ih =>
    simp only [List.cons_append, runFrom, ih, List.length_cons]
    congr 1; omega

theorem stateAt_succ {tr : List Ev} {n : Nat} {e : Ev} (h : tr[n]? = some e) :
    stateAt tr (n + 1) = step (stateAt tr n) n e := by
  have hn := getElem?_lt h
  unfold stateAt
  rw [List.take_add_one, h]
  simp only [Option.toList_some]
  rw [runFrom_append_single]
  congr 1
  rw [List.length_take]; omega

theorem stateAt_length (tr : List Ev) : stateAt tr tr.length = runFrom {} 0 tr := by
  simp [stateAt]

/-! ## the clock invariant -/

/-- `i` happens before or is a release-or-stronger write of `l` whose release sequence is still open at `n` -/
def RelSrc (tr : List Ev) (l n i : Nat) : Prop :=
  ∃ k w, k < n ∧ tr[k]? = some w ∧ IsAW w ∧ w.ord.rel = true ∧ w.loc = l ∧ NoStoreBetween tr l k n ∧ HBeq tr i k

/-- `i` happens before or is an event of thread `t` among the first `n` -/
def KnownTo (tr : List Ev) (t n i : Nat) : Prop :=
  ∃ j f, j < n ∧ tr[j]? = some f ∧ f.tid = t ∧ HBeq tr i j

structure ClkInv (tr : List Ev) (n : Nat) (s : St) : Prop where
  clk : ∀ t i e, i < n → tr[i]? = some e →
    (cnt tr (i + 1) e.tid ≤ vget (clockOf s t) e.tid ↔ KnownTo tr t n i)
  bound : ∀ t u, vget (clockOf s t) u ≤ cnt tr n u
  self : ∀ t, vget (clockOf s t) t = cnt tr n t
  rel : ∀ l i e, i < n → tr[i]? = some e →
    (cnt tr (i + 1) e.tid ≤ vget (relOf s l) e.tid ↔ RelSrc tr l n i)
  relBound : ∀ l u, vget (relOf s l) u ≤ cnt tr n u

theorem clkInv_init (tr : List Ev) : ClkInv tr 0 {} := by
  constructor
  · intro t i e h; omega
  · intro t u; simp [clockOf]
  · intro t; simp [clockOf, cnt]
  · intro l i e h; omega
  · intro l u; simp [relOf]

theorem RelSrc_succ {tr : List Ev} {n : Nat} {e : Ev} (he : tr[n]? = some e) (l i : Nat) :
    RelSrc tr l (n + 1) i ↔
      (¬ (e.kind = .astore ∧ e.loc = l) ∧ RelSrc tr l n i) ∨
      (IsAW e ∧ e.ord.rel = true ∧ e.loc = l ∧ HBeq tr i n) := by
  constructor
  · rintro ⟨k, w, hk, hw, haw, hrel, hl, hns, hb⟩
    by_cases hkn : k = n
    · subst hkn
      have := ev_unique hw he; subst this
      exact Or.inr ⟨haw, hrel, hl, hb⟩
    · refine Or.inl ⟨hns n e (by omega) (by omega) he, k, w, by omega, hw, haw, hrel, hl, ?_, hb⟩
      intro m f h1 h2 hf
      exact hns m f h1 (by omega) hf
  · rintro (⟨hne, k, w, hk, hw, haw, hrel, hl, hns, hb⟩ | ⟨haw, hrel, hl, hb⟩)
    · refine ⟨k, w, by omega, hw, haw, hrel, hl, ?_, hb⟩
      intro m f h1 h2 hf
      by_cases hm : m = n
      · subst hm
        have := ev_unique hf he; subst this
        exact hne
      · exact hns m f h1 (by omega) hf
    · exact ⟨n, e, by omega, he, haw, hrel, hl, fun m f h1 h2 _ => by omega, hb⟩

theorem vget_tick (s : St) (e : Ev) (u : Nat) :
    vget (tick s e) u = if u = e.tid then vget (clockOf s e.tid) e.tid + 1 else vget (clockOf s e.tid) u := by
  simp [tick, vget_vset]

theorem vget_newClock (s : St) (e : Ev) (u : Nat) :
    vget (newClock s e) u =
      if IsAR e ∧ e.ord.acq = true then max (vget (tick s e) u) (vget (relOf s e.loc) u) else vget (tick s e) u := by
  unfold newClock IsAR
  split <;> simp [vget_vjoin]

section step
variable {tr : List Ev} {n : Nat} {s : St} {e : Ev}

/-- same thread, earlier or equal index: happens-before-or-equal -/
theorem KnownTo_self_iff (he : tr[n]? = some e) (i : Nat) :
    KnownTo tr e.tid (n + 1) i ↔ HBeq tr i n := by
  constructor
  · rintro ⟨j, f, hj, hf, hft, hb⟩
    by_cases hjn : j = n
    · subst hjn; exact hb
    · exact Or.inr (HBeq_trans_HB hb (HB.po ⟨by omega, f, e, hf, he, hft⟩))
  · intro hb
    exact ⟨n, e, by omega, he, rfl, hb⟩

/-- characterisation of the clock the thread of event `n` has after the event -/
theorem newClock_iff (inv : ClkInv tr n s) (he : tr[n]? = some e) {i : Nat} {a : Ev} (hi : i < n + 1)
    (ha : tr[i]? = some a) :
    cnt tr (i + 1) a.tid ≤ vget (newClock s e) a.tid ↔ HBeq tr i n := by
  have hself := inv.self e.tid
  by_cases hin : i = n
  · subst hin
    have := ev_unique ha he; subst this
    rw [cnt_succ_self he, vget_newClock, vget_tick]
    constructor
    · intro _; exact Or.inl rfl
    · intro _; split <;> simp <;> omega
  · have hi' : i < n := by omega
    have hclk := inv.clk e.tid i a hi' ha
    have hrel := inv.rel e.loc i a hi' ha
    rw [vget_newClock, vget_tick]
    constructor
    · intro h
      right
      by_cases hat : a.tid = e.tid
      · exact HB.po ⟨hi', a, e, ha, he, hat⟩
      · rw [if_neg hat] at h
        have hcases : cnt tr (i + 1) a.tid ≤ vget (clockOf s e.tid) a.tid ∨
            ((IsAR e ∧ e.ord.acq = true) ∧ cnt tr (i + 1) a.tid ≤ vget (relOf s e.loc) a.tid) := by
          split at h
          · rename_i hc
            rcases Nat.le_total (vget (clockOf s e.tid) a.tid) (vget (relOf s e.loc) a.tid) with h' | h'
            · rw [Nat.max_eq_right h'] at h; exact Or.inr ⟨hc, h⟩
            · rw [Nat.max_eq_left h'] at h; exact Or.inl h
          · exact Or.inl h
        rcases hcases with h1 | ⟨⟨har, hacq⟩, h1⟩
        · obtain ⟨j, f, hj, hf, hft, hb⟩ := hclk.1 h1
          exact HBeq_trans_HB hb (HB.po ⟨hj, f, e, hf, he, hft⟩)
        · obtain ⟨k, w, hk, hw, haw, hwrel, hl, hns, hb⟩ := hrel.1 h1
          exact HBeq_trans_HB hb (HB_of_swFlat ⟨hk, w, e, hw, he, haw, hwrel, har, hacq, hl, by rw [hl]; exact hns⟩)
    · intro h
      rcases h with h | h
      · omega
      · obtain ⟨m, hm, hstep⟩ := HB_last h
        rcases hstep with ⟨hmn, f, e', hf, he', hft⟩ | ⟨hmn, w, e', hw, he', haw, hwrel, har, hacq, hl, hns⟩
        · have := ev_unique he' he; subst this
          have h1 := hclk.2 ⟨m, f, hmn, hf, hft, hm⟩
          have : vget (clockOf s e'.tid) a.tid ≤
              (if a.tid = e'.tid then vget (clockOf s e'.tid) e'.tid + 1 else vget (clockOf s e'.tid) a.tid) := by
            split
            · rename_i hc; rw [hc]; omega
            · omega
          split <;> omega
        · have := ev_unique he' he; subst this
          have h1 := hrel.2 ⟨m, w, hmn, hw, haw, hwrel, hl, by rw [← hl]; exact hns, hm⟩
          rw [if_pos ⟨har, hacq⟩]
          omega

theorem newClock_bound (inv : ClkInv tr n s) (he : tr[n]? = some e) (u : Nat) :
    vget (newClock s e) u ≤ cnt tr (n + 1) u := by
  have hself := inv.self e.tid
  have hb := inv.bound e.tid u
  have hr := inv.relBound e.loc u
  rw [vget_newClock, vget_tick, cnt_succ he]
  by_cases hu : u = e.tid
  · subst hu; simp; split <;> omega
  · have : ¬ e.tid = u := fun h => hu h.symm
    simp [hu, this]; split <;> omega

theorem newClock_self (inv : ClkInv tr n s) (he : tr[n]? = some e) :
    vget (newClock s e) e.tid = cnt tr (n + 1) e.tid := by
  have hself := inv.self e.tid
  have hr := inv.relBound e.loc e.tid
  rw [vget_newClock, vget_tick, cnt_succ_self he]
  simp; split <;> omega

/-- the `rels` characterisation extended to the event being processed -/
theorem rel_iff' (inv : ClkInv tr n s) (he : tr[n]? = some e) (l : Nat) {i : Nat} {a : Ev} (hi : i < n + 1)
    (ha : tr[i]? = some a) :
    cnt tr (i + 1) a.tid ≤ vget (relOf s l) a.tid ↔ RelSrc tr l n i := by
  by_cases hin : i = n
  · subst hin
    have := ev_unique ha he; subst this
    have hr := inv.relBound l a.tid
    rw [cnt_succ_self he]
    constructor
    · intro h; omega
    · rintro ⟨k, w, hk, _, _, _, _, _, hb⟩
      have := HBeq_le hb; omega
  · exact inv.rel l i a (by omega) ha

theorem cnt_pos {i : Nat} {a : Ev} (ha : tr[i]? = some a) : 1 ≤ cnt tr (i + 1) a.tid := by
  rw [cnt_succ_self ha]; omega

theorem clkInv_step (inv : ClkInv tr n s) (he : tr[n]? = some e) : ClkInv tr (n + 1) (step s n e) := by
  have hclk : ∀ t i a, i < n + 1 → tr[i]? = some a →
      (cnt tr (i + 1) a.tid ≤ vget (clockOf (step s n e) t) a.tid ↔ KnownTo tr t (n + 1) i) := by
    intro t i a hi ha
    rw [clockOf_step]
    by_cases ht : t = e.tid
    · subst ht
      rw [if_pos rfl, newClock_iff inv he hi ha, KnownTo_self_iff he]
    · rw [if_neg ht]
      by_cases hin : i = n
      · subst hin
        have := ev_unique ha he; subst this
        have hb := inv.bound t a.tid
        rw [cnt_succ_self he]
        constructor
        · intro h; omega
        · rintro ⟨j, f, hj, hf, hft, hb⟩
          have := HBeq_le hb
          have hjn : j = i := by omega
          subst hjn
          have := ev_unique hf ha; subst this
          exact absurd hft.symm ht
      · rw [inv.clk t i a (by omega) ha]
        constructor
        · rintro ⟨j, f, hj, hf, hft, hb⟩
          exact ⟨j, f, by omega, hf, hft, hb⟩
        · rintro ⟨j, f, hj, hf, hft, hb⟩
          by_cases hjn : j = n
          · subst hjn
            have := ev_unique hf he; subst this
            exact absurd hft.symm ht
          · exact ⟨j, f, by omega, hf, hft, hb⟩
  have hbound : ∀ t u, vget (clockOf (step s n e) t) u ≤ cnt tr (n + 1) u := by
    intro t u
    rw [clockOf_step]
    split
    · exact newClock_bound inv he u
    · exact Nat.le_trans (inv.bound t u) (cnt_le_succ he u)
  have hself : ∀ t, vget (clockOf (step s n e) t) t = cnt tr (n + 1) t := by
    intro t
    rw [clockOf_step]
    split
    · rename_i h; subst h; exact newClock_self inv he
    · rename_i h
      rw [cnt_succ_ne he (fun h' => h h'.symm)]; exact inv.self t
  -- the released clocks
  have hrelB0 : ∀ l u, vget (relOf s l) u ≤ cnt tr (n + 1) u := fun l u =>
    Nat.le_trans (inv.relBound l u) (cnt_le_succ he u)
  have hncB := newClock_bound inv he
  have hrel : (∀ l i a, i < n + 1 → tr[i]? = some a →
      (cnt tr (i + 1) a.tid ≤ vget (relOf (step s n e) l) a.tid ↔ RelSrc tr l (n + 1) i)) ∧
      (∀ l u, vget (relOf (step s n e) l) u ≤ cnt tr (n + 1) u) := by
    cases hk : e.kind with
    | aload =>
      refine ⟨fun l i a hi ha => ?_, fun l u => by rw [relOf_step_aload _ _ _ _ hk]; exact hrelB0 l u⟩
      rw [relOf_step_aload _ _ _ _ hk, RelSrc_succ he, rel_iff' inv he l hi ha]
      simp [IsAW, hk]
    | pread =>
      refine ⟨fun l i a hi ha => ?_, fun l u => by rw [relOf_step_pread _ _ _ _ hk]; exact hrelB0 l u⟩
      rw [relOf_step_pread _ _ _ _ hk, RelSrc_succ he, rel_iff' inv he l hi ha]
      simp [IsAW, hk]
    | pwrite =>
      refine ⟨fun l i a hi ha => ?_, fun l u => by rw [relOf_step_pwrite _ _ _ _ hk]; exact hrelB0 l u⟩
      rw [relOf_step_pwrite _ _ _ _ hk, RelSrc_succ he, rel_iff' inv he l hi ha]
      simp [IsAW, hk]
    | astore =>
      constructor
      · intro l i a hi ha
        rw [relOf_step_astore _ _ _ _ hk, RelSrc_succ he, ← rel_iff' inv he l hi ha]
        by_cases hl : l = e.loc
        · subst hl
          rw [if_pos rfl]
          by_cases hr : e.ord.rel = true
          · rw [if_pos hr, newClock_iff inv he hi ha]
            simp [IsAW, hk, hr]
          · rw [if_neg hr]
            have := cnt_pos ha
            simp [hk, hr]; omega
        · rw [if_neg hl]
          have : ¬ e.loc = l := fun h => hl h.symm
          simp [this]
      · intro l u
        rw [relOf_step_astore _ _ _ _ hk]
        split
        · split
          · exact hncB u
          · simp
        · exact hrelB0 l u
    | armw =>
      constructor
      · intro l i a hi ha
        rw [relOf_step_armw _ _ _ _ hk, RelSrc_succ he, ← rel_iff' inv he l hi ha]
        by_cases hl : l = e.loc
        · subst hl
          rw [if_pos rfl]
          by_cases hr : e.ord.rel = true
          · rw [if_pos hr, vget_vjoin, ← newClock_iff inv he hi ha]
            simp [IsAW, hk, hr]; omega
          · rw [if_neg hr]
            simp [hk, hr]
        · rw [if_neg hl]
          have : ¬ e.loc = l := fun h => hl h.symm
          simp [this, hk]
      · intro l u
        rw [relOf_step_armw _ _ _ _ hk]
        split
        · split
          · rw [vget_vjoin]; have := hncB u; have := hrelB0 e.loc u; omega
          · exact hrelB0 _ u
        · exact hrelB0 l u
  exact ⟨hclk, hbound, hself, hrel.1, hrel.2⟩

end step

theorem clkInv_stateAt (tr : List Ev) : ∀ n, n ≤ tr.length → ClkInv tr n (stateAt tr n) := by
  intro n
  induction n with
  | zero => intro _; exact clkInv_init tr
  | succ n ih =>
    intro hn
    have hlt : n < tr.length := by omega
    have he : tr[n]? = some tr[n] := List.getElem?_eq_getElem hlt
    rw [stateAt_succ he]
    exact clkInv_step (ih (by omega)) he

/-- thread `u` has a `k`-th event among the first `n` whenever `1 ≤ k ≤ cnt tr n u` -/
theorem exists_kth (tr : List Ev) (u k : Nat) (hk : 1 ≤ k) : ∀ n, n ≤ tr.length → k ≤ cnt tr n u →
    ∃ i e, i < n ∧ tr[i]? = some e ∧ e.tid = u ∧ cnt tr (i + 1) u = k := by
  intro n
  induction n with
  | zero => intro _ h; simp [cnt] at h; omega
  | succ n ih =>
    intro hn h
    have hlt : n < tr.length := by omega
    have he : tr[n]? = some tr[n] := List.getElem?_eq_getElem hlt
    by_cases hle : k ≤ cnt tr n u
    · obtain ⟨i, e, hi, h1, h2, h3⟩ := ih (by omega) hle
      exact ⟨i, e, by omega, h1, h2, h3⟩
    · rw [cnt_succ he] at h
      by_cases ht : tr[n].tid = u
      · refine ⟨n, tr[n], by omega, he, ht, ?_⟩
        rw [cnt_succ he, if_pos ht]; rw [if_pos ht] at h; omega
      · rw [if_neg ht] at h; omega

end Librfn.C07.HBLemmas

import Librfn.Lemmas.PTSplit2
namespace Librfn.Model.PT
open Stmt Librfn.Spec.PT

theorem Entry.none {s st} : Entry s none st := by intro l h; cases h

/-- a branch / the tail of a sequence: its labels are entered through `s` unchanged -/
theorem split_sub {fuel sub s e res n st r} (hsplit : SplitAt fuel sub) (hwf : WF sub)
    (hE : Entry sub e st)
    (hsub : ∀ l, l ∈ labels sub → l ∈ labels s ∧ ∀ res n st, exec fuel s (some l) res n st = exec fuel sub (some l) res n st)
    (h : exec fuel sub e res (n + 1) st = some r) :
    ∃ r0, exec fuel sub e res 0 st = some r0 ∧ Resumes fuel s n r0 r := by
  obtain ⟨r0, h0, hR⟩ := hsplit hwf e res n st r hE h
  exact ⟨r0, h0, hR.lift (fun l hl => ⟨(hsub l hl).1, fun res n st r' hr => by rw [(hsub l hl).2]; exact hr⟩)⟩

theorem split_seq {fuel a b} (ha : SplitAt fuel a) (hb : SplitAt fuel b) : SplitAt fuel (seq a b) := by
  intro hwf e res n st r hE h
  obtain ⟨wa, wb, hdis⟩ := hwf
  have hsubA : ∀ l, l ∈ labels a → l ∈ labels (seq a b) ∧ ∀ res n st r',
      Out.andThen (exec fuel a (some l) res n st) (fun st1 r1 n1 => exec fuel b none r1 n1 st1) = some r' →
      exec fuel (seq a b) (some l) res n st = some r' := fun l hl =>
    ⟨by simp [labels, hl], fun res n st r' hr => by rw [exec_seq_left _ _ _ _ _ _ _ hl]; exact hr⟩
  have hsubB : ∀ l, l ∈ labels b → l ∈ labels (seq a b) ∧ ∀ res n st,
      exec fuel (seq a b) (some l) res n st = exec fuel b (some l) res n st := fun l hl =>
    ⟨by simp [labels, hl], fun res n st => exec_seq_right _ _ _ _ _ _ _ (fun hla => hdis l hla hl)⟩
  have hk : ∀ st1 r1 r', exec fuel b none r1 (n + 1) st1 = some r' →
      ∃ rb0, exec fuel b none r1 0 st1 = some rb0 ∧ Resumes fuel (seq a b) n rb0 r' := fun st1 r1 r' hr =>
    split_sub hb wb Entry.none hsubB hr
  have main : ∀ e', Entry a e' st → Out.andThen (exec fuel a e' res (n + 1) st) (fun st1 r1 n1 => exec fuel b none r1 n1 st1) = some r →
      ∃ r0, Out.andThen (exec fuel a e' res 0 st) (fun st1 r1 n1 => exec fuel b none r1 n1 st1) = some r0 ∧
        Resumes fuel (seq a b) n r0 r := by
    intro e' hE' h
    cases hx : exec fuel a e' res (n + 1) st with
    | none => rw [hx] at h; cases h
    | some ra =>
      rw [hx] at h
      obtain ⟨ra0, h0, hR⟩ := ha wa e' res n st ra hE' hx
      rw [h0]
      exact split_andThen hsubA hk hR h
  cases e with
  | none => rw [exec_seq_none] at h ⊢; exact main none Entry.none h
  | some l =>
    by_cases hl : l ∈ labels a
    · rw [exec_seq_left _ _ _ _ _ _ _ hl] at h ⊢
      exact main (some l) (fun l' h' => by cases h'; exact ⟨hl, (hE l rfl).2⟩) h
    · rw [exec_seq_right _ _ _ _ _ _ _ hl] at h ⊢
      have hlb : l ∈ labels b := by
        have := (hE l rfl).1; simp only [labels, List.mem_append] at this
        rcases this with h' | h'; exact absurd h' hl; exact h'
      exact split_sub hb wb (fun l' h' => by cases h'; exact ⟨hlb, (hE l rfl).2⟩) hsubB h

/-- two-branch statements (`if`, `if (PT_CHILD_OK())`) -/
theorem split_branch {fuel s a b}
    (hlab : labels s = labels a ++ labels b)
    (hL : ∀ l res n st, l ∈ labels a → exec fuel s (some l) res n st = exec fuel a (some l) res n st)
    (hRt : ∀ l res n st, l ∉ labels a → exec fuel s (some l) res n st = exec fuel b (some l) res n st)
    (hN : ∀ res st, ∃ st1, (∀ n, exec fuel s none res n st = exec fuel a none res n st1) ∨
                          (∀ n, exec fuel s none res n st = exec fuel b none res n st1))
    (wa : WF a) (wb : WF b) (hdis : ∀ l, l ∈ labels a → l ∉ labels b)
    (ha : SplitAt fuel a) (hb : SplitAt fuel b) :
    ∀ e res n st r, Entry s e st → exec fuel s e res (n + 1) st = some r →
      ∃ r0, exec fuel s e res 0 st = some r0 ∧ Resumes fuel s n r0 r := by
  intro e res n st r hE h
  have hsubA : ∀ l, l ∈ labels a → l ∈ labels s ∧ ∀ res n st,
      exec fuel s (some l) res n st = exec fuel a (some l) res n st := fun l hl =>
    ⟨by simp [hlab, hl], fun res n st => hL l res n st hl⟩
  have hsubB : ∀ l, l ∈ labels b → l ∈ labels s ∧ ∀ res n st,
      exec fuel s (some l) res n st = exec fuel b (some l) res n st := fun l hl =>
    ⟨by simp [hlab, hl], fun res n st => hRt l res n st (fun hla => hdis l hla hl)⟩
  cases e with
  | none =>
    obtain ⟨st1, hh | hh⟩ := hN res st
    · rw [hh] at h ⊢; exact split_sub ha wa Entry.none hsubA h
    · rw [hh] at h ⊢; exact split_sub hb wb Entry.none hsubB h
  | some l =>
    by_cases hl : l ∈ labels a
    · rw [hL _ _ _ _ hl] at h ⊢
      exact split_sub ha wa (fun l' h' => by cases h'; exact ⟨hl, (hE l rfl).2⟩) hsubA h
    · rw [hRt _ _ _ _ hl] at h ⊢
      have hlb : l ∈ labels b := by
        have := (hE l rfl).1; simp only [hlab, List.mem_append] at this
        rcases this with h' | h'; exact absurd h' hl; exact h'
      exact split_sub hb wb (fun l' h' => by cases h'; exact ⟨hlb, (hE l rfl).2⟩) hsubB h

theorem split_ifte {fuel c a b} (ha : SplitAt fuel a) (hb : SplitAt fuel b) : SplitAt fuel (ifte c a b) := by
  intro hwf
  refine split_branch rfl (fun l res n st hl => exec_ifte_left _ _ _ _ _ _ _ _ hl)
    (fun l res n st hl => exec_ifte_right _ _ _ _ _ _ _ _ hl) ?_ hwf.1 hwf.2.1 hwf.2.2 ha hb
  intro res st
  refine ⟨(evalCond c st).2, ?_⟩
  by_cases hc : (evalCond c st).1 = true
  · exact Or.inl (fun n => by rw [exec_ifte_none, if_pos hc])
  · exact Or.inr (fun n => by rw [exec_ifte_none, if_neg hc])

theorem split_ico {fuel a b} (ha : SplitAt fuel a) (hb : SplitAt fuel b) : SplitAt fuel (ifChildOk a b) := by
  intro hwf
  refine split_branch rfl (fun l res n st hl => exec_ico_left _ _ _ _ _ _ _ hl)
    (fun l res n st hl => exec_ico_right _ _ _ _ _ _ _ hl) ?_ hwf.1 hwf.2.1 hwf.2.2 ha hb
  intro res st
  refine ⟨st, ?_⟩
  by_cases hc : res ≠ .failed
  · exact Or.inl (fun n => by rw [exec_ico_none, if_pos hc])
  · exact Or.inr (fun n => by rw [exec_ico_none, if_neg hc])

theorem split_exitOn {fuel c} : SplitAt fuel (exitOn c) := by
  intro _ e res n st r hE h
  rw [exec_exitOn] at h ⊢
  obtain ⟨r0, h0, hR⟩ := split_ifte (c := c) split_exit split_skip (by simp [WF, labels]) e res n st r
    (fun l hl => absurd (hE l hl).1 (by simp [labels])) h
  exact ⟨r0, h0, hR.lift (fun l hl => by simp [labels] at hl)⟩
theorem split_failOn {fuel c} : SplitAt fuel (failOn c) := by
  intro _ e res n st r hE h
  rw [exec_failOn] at h ⊢
  obtain ⟨r0, h0, hR⟩ := split_ifte (c := c) split_fail split_skip (by simp [WF, labels]) e res n st r
    (fun l hl => absurd (hE l hl).1 (by simp [labels])) h
  exact ⟨r0, h0, hR.lift (fun l hl => by simp [labels] at hl)⟩

end Librfn.Model.PT

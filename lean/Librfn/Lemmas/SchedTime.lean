import Std.Tactic.BVDecide
import Librfn.Model.Fibre
/-! The half-window lemma (C02's crux): for true times less than 2^31 apart the signed reinterpretation of
the 32-bit difference of their truncations *is* the true difference.  Stated for the **generated**
`cyclecmp32` (tie T) and for the hand-modelled `duetime_cmp`. -/
namespace Librfn.Sched.L
open Librfn.Sched Librfn.Model.Fibre

theorem toInt_w32_sub (a b : Int) : (w32 a - w32 b).toInt = (a - b).bmod 4294967296 := by
  unfold w32
  rw [BitVec.toInt_sub, BitVec.toInt_ofInt, BitVec.toInt_ofInt]
  simp only [Nat.reducePow]
  rw [Int.bmod_sub_bmod, Int.sub_bmod_bmod]

theorem bmod_small (d : Int) (h : -2147483648 ≤ d ∧ d < 2147483648) : d.bmod 4294967296 = d := by
  rw [Int.bmod_def]
  have e : ((4294967296 : Nat) : Int) = 4294967296 := rfl
  rw [e]
  split <;> omega

/-- **half-window lemma** -/
theorem sub_toInt_window (a b : Int) (h : -2147483648 ≤ a - b ∧ a - b < 2147483648) :
    (w32 a - w32 b).toInt = a - b := by
  rw [toInt_w32_sub, bmod_small _ h]

/-- **tie T for `cyclecmp32`**: whatever `util.c` currently says (the definition is regenerated on every run), it
    computes the 32-bit difference.  On the pinned source this closes by `rfl`; after a rewrite of the C that
    is still the same function it closes by bit-blasting (`bv_decide`, which then adds its own axiom
    `cyclecmp32_tie._native.bv_decide.ax_*`, allow-listed by the scheduler checks for exactly this theorem);
    every other lemma uses the generated function only through this equation. -/
theorem cyclecmp32_tie (a b : BitVec 32) : Librfn.Gen.Util.cyclecmp32 a b = a - b := by
  unfold Librfn.Gen.Util.cyclecmp32
  first
    | rfl
    | (simp only; rfl)
    | bv_decide (config := { timeout := 300 })

/-- `cyclecmp32(D, T) <= 0` decides `D ≤ T` inside the window (about the generated `cyclecmp32`) -/
theorem notAfter_w32 (D T : Int) (h : -2147483648 ≤ D - T ∧ D - T < 2147483648) :
    notAfter (w32 D) (w32 T) = decide (D ≤ T) := by
  unfold notAfter
  rw [cyclecmp32_tie, sub_toInt_window D T h]
  by_cases hle : D ≤ T
  · rw [decide_eq_true hle]; exact decide_eq_true (by omega)
  · rw [decide_eq_false hle]; exact decide_eq_false (by omega)

/-- `duetime_cmp(f, x) >= 0` decides `D_x ≤ D_f` inside the window -/
theorem dueGe_w32 (due : Fid → BitVec 32) (f x : Fid) (Df Dx : Int) (hf : due f = w32 Df) (hx : due x = w32 Dx)
    (h : -2147483648 ≤ Df - Dx ∧ Df - Dx < 2147483648) : dueGe due f x = decide (Dx ≤ Df) := by
  unfold dueGe
  rw [hf, hx, sub_toInt_window Df Dx h]
  by_cases hle : Dx ≤ Df
  · rw [decide_eq_true hle]; exact decide_eq_true (by omega)
  · rw [decide_eq_false hle]; exact decide_eq_false (by omega)

theorem w32_add (T c : Int) : w32 (T + c) = w32 T + w32 c := by
  unfold w32; exact BitVec.ofInt_add T c

theorem w32_unbounded : w32 0x7fffffff = 0x7fffffff#32 := by decide

end Librfn.Sched.L

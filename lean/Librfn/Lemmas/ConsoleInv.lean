import Librfn.Model.Console
import Librfn.Lemmas.ConsoleTok
import Librfn.Lemmas.ConsoleTable
/-! The safety invariant of the console model and its preservation by every operation (used by C15). -/
namespace Librfn.Lemmas.ConsoleInv
open Librfn.Model.Console Librfn.Gen.Layout Librfn.Lemmas.ConsoleTok Librfn.Lemmas.ConsoleTable

theorem scratchSize_gt : 79 < scratchSize := by decide
theorem ringLen_eq : ringLen = 16 := by decide

/-- `n` is the number of named commands in the table -/
structure Inv (n : Nat) (s : St) : Prop where
  memlen : s.mem.length = scratchSize
  bufp : s.bufp ≤ 79
  clean : s.fpt ≠ 2 → ∀ j, s.bufp ≤ j → s.mem.getD j 0 = 0
  nofault : s.fault = false
  wlog : ∀ o ∈ s.wlog, o < 79
  ring : s.ring.length < ringLen
  argc : s.argc ≤ 4
  argvlen : s.argv.length = 4
  fpt : s.fpt ≤ 2
  cmd : s.fpt = 2 → ∃ c, s.cmd = some c
  argv0 : s.fpt = 2 → ∃ o, s.argv.getD 0 none = some o
  help : s.fpt = 2 → ∀ c, s.cmd = some c → c.body = .help → s.pt ≤ 3 ∧ (s.pt = 3 → s.hidx < n)
  boot : s.fpt = 0 → ∀ j, s.mem.getD j 0 = 0

theorem replicate_getD (k j : Nat) : (List.replicate k (0 : Nat)).getD j 0 = 0 := by
  rw [List.getD_eq_getElem?_getD]
  cases h : (List.replicate k 0)[j]? with
  | none => rfl
  | some v => have := List.mem_of_getElem? h; simp only [List.mem_replicate] at this; simp [this.2]

theorem init_inv (n : Nat) : Inv n init :=
  { memlen := (by simp [init]), bufp := (by simp [init]),
    clean := (fun _ j _ => replicate_getD _ j),
    nofault := rfl, wlog := (by intro o ho; cases ho), ring := (by show 0 < ringLen; decide),
    argc := (by show 0 ≤ 4; omega),
    argvlen := (by show (List.replicate argvLen none).length = 4; simp [argvLen_eq]), fpt := (by show 0 ≤ 2; omega),
    cmd := (fun h => absurd h (by decide)), argv0 := (fun h => absurd h (by decide)),
    help := (fun h => absurd h (by decide)), boot := (fun _ j => replicate_getD _ j) }

/-- the invariant does not look at the output, the captures or the ghost line log -/
theorem inv_print (n : Nat) (s : St) (t : String) (h : Inv n s) : Inv n (s.print t) := by
  exact { h with }

theorem inv_printBytes (n : Nat) (s : St) (t : List Byte) (h : Inv n s) : Inv n (s.printBytes t) := by
  exact { h with }

theorem doPrompt_inv (n : Nat) (s : St) (h : Inv n s) : Inv n (doPrompt s) := by
  unfold doPrompt
  apply inv_print
  exact { h with memlen := by simp, bufp := Nat.zero_le _, clean := fun _ j _ => replicate_getD _ j,
                 boot := fun _ j => replicate_getD _ j }

/-- `do_prompt` at the end of a command: `fpt` is still 2 but about to be set by the loop -/
theorem doPrompt_inv' (n : Nat) (s : St) (h : Inv n s) : Inv n { doPrompt s with fpt := 1 } := by
  unfold doPrompt St.print
  exact { h with memlen := by simp, bufp := Nat.zero_le _, clean := fun _ j _ => replicate_getD _ j,
                 fpt := (by show 1 ≤ 2; omega), cmd := (fun h => absurd (show (1 : Nat) = 2 from h) (by decide)),
                 argv0 := (fun h => absurd (show (1 : Nat) = 2 from h) (by decide)),
                 help := (fun h => absurd (show (1 : Nat) = 2 from h) (by decide)),
                 boot := (fun _ j => replicate_getD _ j) }

theorem poke_in (s : St) (off : Nat) (v : Byte) (h : off < s.mem.length) :
    s.poke off v = { s with mem := s.mem.set off v, wlog := off :: s.wlog } := by
  simp [St.poke, h]

theorem editChar_inv (n : Nat) (s : St) (ch : Byte) (h : Inv n s) (hf1 : s.fpt = 1) (hb : s.bufp < 79) :
    Inv n (editChar s ch) ∧ (editChar s ch).fpt = s.fpt ∧ (editChar s ch).ring = s.ring := by
  have hss := scratchSize_gt
  have hf : s.fpt ≠ 2 := by omega
  have hboot : ∀ m : List Byte, s.fpt = 0 → ∀ j, m.getD j 0 = 0 := fun _ h0 => absurd h0 (by omega)
  unfold editChar
  by_cases c1 : ch = 8
  · rw [if_pos c1]
    by_cases c2 : s.bufp > 0
    · rw [if_pos c2]
      have hin : s.bufp - 1 < s.mem.length := by rw [h.memlen]; omega
      rw [poke_in _ _ _ (show s.bufp - 1 < ({ s with bufp := s.bufp - 1 } : St).mem.length from hin)]
      refine ⟨inv_print n _ _ { h with memlen := (by simp [h.memlen]), bufp := (by show s.bufp - 1 ≤ 79; omega), clean := ?_, wlog := ?_, boot := hboot _ }, rfl, rfl⟩
      · intro _ j hj
        show (s.mem.set (s.bufp - 1) 0).getD j 0 = 0
        rw [getD_set]
        by_cases e : s.bufp - 1 = j ∧ s.bufp - 1 < s.mem.length
        · rw [if_pos e]
        · rw [if_neg e]
          have hj' : s.bufp - 1 ≤ j := hj
          exact h.clean hf j (by omega)
      · intro o ho
        have ho' : o ∈ (s.bufp - 1) :: s.wlog := ho
        rcases List.mem_cons.mp ho' with rfl | ho'
        · omega
        · exact h.wlog o ho'
    · rw [if_neg c2]; exact ⟨inv_print n s _ h, rfl, rfl⟩
  · rw [if_neg c1]
    by_cases c2 : ch = 3
    · rw [if_pos c2]
      refine ⟨doPrompt_inv n _ (inv_print n s _ h), rfl, rfl⟩
    · rw [if_neg c2]
      by_cases c3 : ch ≠ 10
      · rw [if_pos c3]
        have hin : s.bufp < s.mem.length := by rw [h.memlen]; omega
        rw [poke_in _ _ _ hin]
        refine ⟨{ h with memlen := (by simp [h.memlen]), bufp := (by show s.bufp + 1 ≤ 79; omega), clean := ?_, wlog := ?_, boot := hboot _ }, rfl, rfl⟩
        · intro _ j hj
          show (s.mem.set s.bufp ch).getD j 0 = 0
          have hj' : s.bufp + 1 ≤ j := hj
          rw [getD_set, if_neg (by omega)]
          exact h.clean hf j (by omega)
        · intro o ho
          have ho' : o ∈ s.bufp :: s.wlog := ho
          rcases List.mem_cons.mp ho' with rfl | ho'
          · exact hb
          · exact h.wlog o ho'
      · rw [if_neg c3]; exact ⟨h, rfl, rfl⟩

/-- what `do_tokenize` + `find_command` establish when the line is complete -/
theorem tokenize_find_inv (n : Nat) (tab : Table) (named : List Cmd) (snt : Cmd) (s : St)
    (ht : TableOk tab named snt) (h : Inv n s) (hf : s.fpt ≠ 2) :
    Inv n { findCommand tab (doTokenize s) with pt := 0, fpt := 2 } ∧
    { findCommand tab (doTokenize s) with pt := 0, fpt := 2 }.ring = s.ring := by
  have hss := scratchSize_gt
  have hz : s.mem.getD s.bufp 0 = 0 := h.clean hf _ (Nat.le_refl _)
  obtain ⟨len, hlen, hle⟩ := strlen_exists s.mem s.bufp (by rw [h.memlen]; have := h.bufp; omega) hz
  have hti := tokenizeMem_inv s.mem s.argv len h.argvlen
  have hb := h.bufp
  unfold doTokenize
  simp only [hlen]
  obtain ⟨o, ho, _⟩ := hti.hargv 0 hti.hargc1
  have hp0 : (padArgv (tokenizeMem s.mem s.argv len).argv (tokenizeMem s.mem s.argv len).argc len).getD 0 none = some o := by
    rw [padArgv_getD _ _ _ 0 (by decide), if_pos (show 0 < _ from hti.hargc1)]; exact ho
  unfold findCommand
  simp only [hp0]
  have hfl := findLoop_mkTable (cstr (tokenizeMem s.mem s.argv len).mem o) snt ht.sentinel
    (tableCap - named.length - 1) named ht.names
  have hshape : tab = named.map some ++ some snt :: List.replicate (tableCap - named.length - 1) none := ht.shape
  rw [hshape, hfl]
  refine ⟨{ memlen := ?_, bufp := h.bufp, clean := ?_, nofault := h.nofault, wlog := ?_, ring := h.ring,
            argc := hti.hargc4, argvlen := padArgv_length _ _ _, fpt := Nat.le_refl 2, cmd := fun _ => ⟨_, rfl⟩,
            argv0 := fun _ => ⟨o, hp0⟩, help := ?_, boot := (fun h0 => absurd (show (2 : Nat) = 0 from h0) (by decide)) }, rfl⟩
  · show (tokenizeMem s.mem s.argv len).mem.length = scratchSize
    rw [hti.hlen, h.memlen]
  · intro hc; exact absurd rfl hc
  · intro x hx
    have hx' : x ∈ (tokenizeMem s.mem s.argv len).wr ++ s.wlog := hx
    rcases List.mem_append.mp hx' with hx' | hx'
    · have := hti.hwr x hx'; omega
    · exact h.wlog x hx'
  · intro _ c _ _
    refine ⟨by show (0 : Nat) ≤ 3; omega, fun hpt => ?_⟩
    have hpt' : (0 : Nat) = 3 := hpt
    omega

/-- the part of the invariant that does not depend on where the protothreads are -/
structure Core (s : St) : Prop where
  memlen : s.mem.length = scratchSize
  bufp : s.bufp ≤ 79
  nofault : s.fault = false
  wlog : ∀ o ∈ s.wlog, o < 79
  ring : s.ring.length < ringLen
  argc : s.argc ≤ 4
  argvlen : s.argv.length = 4

theorem Inv.core {n : Nat} {s : St} (h : Inv n s) : Core s :=
  ⟨h.memlen, h.bufp, h.nofault, h.wlog, h.ring, h.argc, h.argvlen⟩

/-- after `do_prompt`, at the `PT_WAIT_UNTIL`, with `ring` left in the ring buffer -/
theorem core_prompt (n : Nat) (s : St) (ring : List Byte) (h : Core s) (hr : ring.length < ringLen) :
    Inv n { doPrompt s with fpt := 1, ring := ring } := by
  unfold doPrompt St.print
  exact { memlen := (by simp), bufp := Nat.zero_le _, clean := (fun _ j _ => replicate_getD _ j),
          nofault := h.nofault, wlog := h.wlog, ring := hr, argc := h.argc, argvlen := h.argvlen,
          fpt := (by show 1 ≤ 2; omega), cmd := (fun h => absurd (show (1 : Nat) = 2 from h) (by decide)),
          argv0 := (fun h => absurd (show (1 : Nat) = 2 from h) (by decide)),
          help := (fun h => absurd (show (1 : Nat) = 2 from h) (by decide)),
          boot := (fun _ j => replicate_getD _ j) }

/-- a step of a command: only `pt`, the help statics, the output, the captures and (same size) the
    scratch contents may change -/
theorem inv_cmdstep (n : Nat) (s s' : St) (h : Inv n s) (hf : s.fpt = 2)
    (hmem : s'.mem.length = scratchSize) (hbufp : s'.bufp = s.bufp) (hfault : s'.fault = s.fault)
    (hwlog : s'.wlog = s.wlog) (hring : s'.ring = s.ring) (hargc : s'.argc = s.argc) (hargv : s'.argv = s.argv)
    (hfpt : s'.fpt = s.fpt) (hcmd : s'.cmd = s.cmd)
    (hhelp : ∀ c, s.cmd = some c → c.body = .help → s'.pt ≤ 3 ∧ (s'.pt = 3 → s'.hidx < n)) : Inv n s' :=
  { memlen := hmem, bufp := hbufp ▸ h.bufp,
    clean := (fun hne => absurd (hfpt.trans hf) hne),
    nofault := hfault.trans h.nofault, wlog := hwlog ▸ h.wlog, ring := hring ▸ h.ring, argc := hargc ▸ h.argc,
    argvlen := hargv ▸ h.argvlen, fpt := hfpt ▸ h.fpt, cmd := (fun _ => hcmd ▸ h.cmd hf),
    argv0 := (fun _ => hargv ▸ h.argv0 hf), help := (fun _ c hc => hhelp c (hcmd ▸ hc)),
    boot := (fun h0 => absurd ((hfpt.symm.trans h0).symm.trans hf) (by decide)) }

theorem core_cmdstep (s s' : St) (h : Core s)
    (hmem : s'.mem.length = scratchSize) (hbufp : s'.bufp = s.bufp) (hfault : s'.fault = s.fault)
    (hwlog : s'.wlog = s.wlog) (hring : s'.ring = s.ring) (hargc : s'.argc = s.argc) (hargv : s'.argv = s.argv) :
    Core s' :=
  { memlen := hmem, bufp := hbufp ▸ h.bufp, nofault := hfault.trans h.nofault, wlog := hwlog ▸ h.wlog,
    ring := hring ▸ h.ring, argc := hargc ▸ h.argc, argvlen := hargv ▸ h.argvlen }

/-- what one invocation of a command guarantees (kept opaque so that `simp` leaves it alone) -/
def Post (n : Nat) (s : St) (r : St × PtState) : Prop :=
  Core r.1 ∧ r.1.fpt = 2 ∧ r.1.ring = s.ring ∧ ((r.2 = .yielded ∨ r.2 = .waiting) → Inv n r.1)

theorem post_inv {n : Nat} {s : St} {r : St × PtState} (h : Inv n r.1) (hf : r.1.fpt = 2) (hr : r.1.ring = s.ring) :
    Post n s r := ⟨h.core, hf, hr, fun _ => h⟩

theorem post_exit {n : Nat} {s : St} {r : St × PtState} (h : Core r.1) (hf : r.1.fpt = 2) (hr : r.1.ring = s.ring)
    (he : r.2 = .exited) : Post n s r :=
  ⟨h, hf, hr, fun hy => by rcases hy with hy | hy <;> rw [he] at hy <;> cases hy⟩

theorem runBody_inv (n : Nat) (tab : Table) (named : List Cmd) (snt : Cmd) (s : St) (c : Cmd)
    (ht : TableOk tab named snt) (hn : n = named.length) (h : Inv n s) (hf : s.fpt = 2) (hc : s.cmd = some c) :
    Post n s (runBody tab s c.body) := by
  obtain ⟨o, ho⟩ := h.argv0 hf
  have hshape := ht.shape
  subst hshape
  cases hb : c.body with
  | echo =>
    exact post_inv (inv_print n _ _ (inv_printBytes n _ _ h)) hf rfl
  | unknown =>
    rw [runBody, ho]
    by_cases hz : s.mem.getD o 0 ≠ 0
    · simp only [if_pos hz]; exact post_inv (inv_print n _ _ h) hf rfl
    · simp only [if_neg hz]; exact post_inv h hf rfl
  | help =>
    have hh := h.help hf c hc hb
    rw [runBody]
    by_cases p0 : s.pt = 0
    · rw [if_pos p0]
      refine post_inv (inv_cmdstep n s _ h hf h.memlen rfl rfl rfl rfl rfl rfl rfl rfl ?_) hf rfl
      intro _ _ _
      exact ⟨by show 1 ≤ 3; omega, fun e => absurd (show (1 : Nat) = 3 from e) (by decide)⟩
    · rw [if_neg p0]
      by_cases p12 : s.pt = 1 ∨ s.pt = 2
      · rw [if_pos p12]
        by_cases hl : s.hlock = true
        · rw [if_pos hl]
          refine post_inv (inv_cmdstep n s _ h hf h.memlen rfl rfl rfl rfl rfl rfl rfl rfl ?_) hf rfl
          intro _ _ _
          exact ⟨by show 2 ≤ 3; omega, fun e => absurd (show (2 : Nat) = 3 from e) (by decide)⟩
        · rw [if_neg hl]
          rw [mkTable_getD]
          by_cases hn0 : 0 = named.length
          · rw [if_pos hn0]
            simp only [ht.sentinel]
            refine post_inv (inv_cmdstep n s _ h hf h.memlen rfl rfl rfl rfl rfl rfl rfl rfl ?_) hf rfl
            intro _ _ _
            exact ⟨by show 2 ≤ 3; omega, fun e => absurd (show (2 : Nat) = 3 from e) (by decide)⟩
          · rw [if_neg hn0]
            have hlt : 0 < named.length := by omega
            rw [List.getElem?_eq_getElem hlt]
            have hnm := ht.names named[0] (List.getElem_mem hlt)
            cases hname : named[0].name with
            | none => exact absurd hname hnm
            | some nm =>
              simp only [hname]
              refine post_inv (inv_cmdstep n s _ h hf h.memlen rfl rfl rfl rfl rfl rfl rfl rfl ?_) hf rfl
              intro _ _ _
              exact ⟨Nat.le_refl 3, fun _ => by show 0 < n; omega⟩
      · rw [if_neg p12]
        have p3 : s.pt = 3 := by omega
        rw [if_pos p3]
        have hlt := hh.2 p3
        rw [mkTable_getD]
        by_cases he : s.hidx + 1 = named.length
        · rw [if_pos he]
          simp only [ht.sentinel]
          exact post_exit (core_cmdstep s _ h.core h.memlen rfl rfl rfl rfl rfl rfl) hf rfl rfl
        · rw [if_neg he]
          have hlt' : s.hidx + 1 < named.length := by omega
          rw [List.getElem?_eq_getElem hlt']
          have hnm := ht.names named[s.hidx + 1] (List.getElem_mem hlt')
          cases hname : named[s.hidx + 1].name with
          | none => exact absurd hname hnm
          | some nm =>
            simp only [hname]
            refine post_inv (inv_cmdstep n s _ h hf h.memlen rfl rfl rfl rfl rfl rfl rfl rfl ?_) hf rfl
            intro _ _ _
            exact ⟨hh.1, fun _ => by show s.hidx + 1 < n; omega⟩
  | script id k fails dirty =>
    have hx : ∀ c', s.cmd = some c' → c'.body = .help → False := by
      intro c' hc' hh
      rw [hc] at hc'
      injection hc' with hc'
      subst hc'
      rw [hb] at hh
      cases hh
    have hmem : (if dirty = true then List.replicate scratchSize 170 else s.mem).length = scratchSize := by
      split
      · simp
      · exact h.memlen
    rw [runBody]
    by_cases p0 : s.pt = 0
    · rw [if_pos p0]
      by_cases pk : s.pt < k
      · rw [if_pos pk]
        exact post_inv (inv_cmdstep n s _ h hf hmem rfl rfl rfl rfl rfl rfl rfl rfl (fun c' h1 h2 => (hx c' h1 h2).elim)) hf rfl
      · rw [if_neg pk]
        exact post_inv (inv_cmdstep n s _ h hf hmem rfl rfl rfl rfl rfl rfl rfl rfl (fun c' h1 h2 => (hx c' h1 h2).elim)) hf rfl
    · rw [if_neg p0]
      by_cases pk : s.pt < k
      · rw [if_pos pk]
        exact post_inv (inv_cmdstep n s _ h hf h.memlen rfl rfl rfl rfl rfl rfl rfl rfl (fun c' h1 h2 => (hx c' h1 h2).elim)) hf rfl
      · rw [if_neg pk]
        exact post_inv h hf rfl

theorem runCmd_inv (n : Nat) (tab : Table) (named : List Cmd) (snt : Cmd) (s : St)
    (ht : TableOk tab named snt) (hn : n = named.length) (h : Inv n s) (hf : s.fpt = 2) :
    Post n s (runCmd tab s) := by
  obtain ⟨c, hc⟩ := h.cmd hf
  have : runCmd tab s = runBody tab s c.body := by unfold runCmd; rw [hc]
  rw [this]
  exact runBody_inv n tab named snt s c ht hn h hf hc

theorem st_eta (x : St) (r : List Byte) (h1 : x.fpt = 1) (h2 : x.ring = r) :
    { x with fpt := 1, ring := r } = x := by
  cases x
  simp only at h1 h2
  subst h1; subst h2; rfl

theorem core_print (s : St) (t : String) (h : Core s) : Core (s.print t) := ⟨h.memlen, h.bufp, h.nofault, h.wlog, h.ring, h.argc, h.argvlen⟩

/-- after a command has returned `>= PT_EXITED` -/
theorem finishCmd_inv (n : Nat) (s : St) (r : PtState) (ring : List Byte) (h : Core s) (hr : ring.length < ringLen) :
    Inv n { finishCmd s r with fpt := 1, ring := ring } := by
  unfold finishCmd
  by_cases hf : r = .failed
  · rw [if_pos hf]; exact core_prompt n _ ring (core_print s _ h) hr
  · rw [if_neg hf]; exact core_prompt n _ ring h hr

theorem loopW_inv (n : Nat) (tab : Table) (named : List Cmd) (snt : Cmd)
    (ht : TableOk tab named snt) (hn : n = named.length) : ∀ (ring : List Byte) (s : St),
    Inv n { s with fpt := 1, ring := ring } → Inv n (loopW tab ring s).1
  | [], s, h => h
  | ch :: rest, s, h => by
    have hrest : rest.length < ringLen := by
      have := h.ring
      simp only [List.length_cons] at this
      omega
    have h1 : Inv n { s with ring := rest, fpt := 1, eaten := s.eaten ++ [ch] } := { h with ring := hrest }
    rw [loopW]
    by_cases hc : ch = 10 ∨ s.bufp ≥ 79
    · rw [if_pos hc]
      obtain ⟨hs1, hr1⟩ := tokenize_find_inv n tab named snt _ ht h1 (by show (1 : Nat) ≠ 2; decide)
      obtain ⟨hcore, hf2, hring, hlive⟩ := runCmd_inv n tab named snt _ ht hn hs1 rfl
      simp only []
      by_cases hy : (runCmd tab { findCommand tab (doTokenize { s with ring := rest, fpt := 1, eaten := s.eaten ++ [ch] }) with pt := 0, fpt := 2 }).2 = .yielded ∨
          (runCmd tab { findCommand tab (doTokenize { s with ring := rest, fpt := 1, eaten := s.eaten ++ [ch] }) with pt := 0, fpt := 2 }).2 = .waiting
      · rw [if_pos hy]; exact hlive hy
      · rw [if_neg hy]
        exact loopW_inv n tab named snt ht hn rest _ (finishCmd_inv n _ _ rest hcore hrest)
    · rw [if_neg hc]
      obtain ⟨he, hef, her⟩ := editChar_inv n _ ch h1 rfl (by show s.bufp < 79; omega)
      apply loopW_inv n tab named snt ht hn rest
      rw [st_eta _ rest hef her]
      exact he

/-- a silent console at boot (`argc != 0`): `bufp = buf`, the zero-initialised buffer is clean -/
theorem inv_boot_silent (n : Nat) (s : St) (h : Inv n s) (f0 : s.fpt = 0) :
    Inv n { ({ s with bufp := 0 } : St) with fpt := 1, ring := s.ring } :=
  { h with bufp := Nat.zero_le _, clean := (fun _ j _ => h.boot f0 j), fpt := (by show 1 ≤ 2; omega),
           cmd := (fun e => absurd (show (1 : Nat) = 2 from e) (by decide)),
           argv0 := (fun e => absurd (show (1 : Nat) = 2 from e) (by decide)),
           help := (fun e => absurd (show (1 : Nat) = 2 from e) (by decide)),
           boot := (fun e => absurd (show (1 : Nat) = 0 from e) (by decide)) }

theorem consoleRun_inv (n : Nat) (tab : Table) (named : List Cmd) (snt : Cmd) (s : St)
    (ht : TableOk tab named snt) (hn : n = named.length) (h : Inv n s) : Inv n (consoleRun tab s).1 := by
  unfold consoleRun
  by_cases f0 : s.fpt = 0
  · rw [if_pos f0]
    apply loopW_inv n tab named snt ht hn
    by_cases ha : s.argc = 0
    · rw [if_pos ha]; exact core_prompt n s s.ring h.core h.ring
    · rw [if_neg ha]
      exact { h with bufp := Nat.zero_le _, clean := (fun _ j _ => h.boot f0 j), fpt := (by show 1 ≤ 2; omega),
                     cmd := (fun e => absurd (show (1 : Nat) = 2 from e) (by decide)),
                     argv0 := (fun e => absurd (show (1 : Nat) = 2 from e) (by decide)),
                     help := (fun e => absurd (show (1 : Nat) = 2 from e) (by decide)),
                     boot := (fun e => absurd (show (1 : Nat) = 0 from e) (by decide)) }
  · rw [if_neg f0]
    by_cases f1 : s.fpt = 1
    · rw [if_pos f1]
      apply loopW_inv n tab named snt ht hn
      rw [st_eta s s.ring f1 rfl]
      exact h
    · rw [if_neg f1]
      have f2 : s.fpt = 2 := by have := h.fpt; omega
      rw [if_pos f2]
      obtain ⟨hcore, hf2, hring, hlive⟩ := runCmd_inv n tab named snt s ht hn h f2
      simp only []
      by_cases hy : (runCmd tab s).2 = .yielded ∨ (runCmd tab s).2 = .waiting
      · rw [if_pos hy]; exact hlive hy
      · rw [if_neg hy]
        exact loopW_inv n tab named snt ht hn _ _ (finishCmd_inv n _ _ _ hcore hcore.ring)

/-! ### the delivery operations -/

theorem ringPut_length (ring : List Byte) (d : Byte) (h : ring.length < ringLen) : (ringPut ring d).1.length < ringLen := by
  unfold ringPut
  by_cases c : ring.length + 1 ≥ ringLen
  · rw [if_pos c]; exact h
  · rw [if_neg c]; simp only [List.length_append, List.length_singleton]; omega

theorem inv_ring (n : Nat) (s : St) (r : List Byte) (h : Inv n s) (hr : r.length < ringLen) : Inv n { s with ring := r } :=
  { h with ring := hr }

theorem inv_mono (n n' : Nat) (s : St) (h : Inv n s) (hn : n ≤ n') : Inv n' s :=
  { h with help := fun hf c hc hb => ⟨(h.help hf c hc hb).1, fun h3 => Nat.lt_of_lt_of_le ((h.help hf c hc hb).2 h3) hn⟩ }

theorem runWhileYielded_inv (n : Nat) (tab : Table) (named : List Cmd) (snt : Cmd)
    (ht : TableOk tab named snt) (hn : n = named.length) : ∀ (fuel : Nat) (s : St), Inv n s → Inv n (runWhileYielded tab fuel s)
  | 0, s, h => by rw [runWhileYielded]; exact { h with }
  | fuel + 1, s, h => by
    rw [runWhileYielded]
    split
    · exact runWhileYielded_inv n tab named snt ht hn fuel _ (consoleRun_inv n tab named snt s ht hn h)
    · exact consoleRun_inv n tab named snt s ht hn h

theorem process_inv (n : Nat) (tab : Table) (named : List Cmd) (snt : Cmd) (s : St) (d : Byte)
    (ht : TableOk tab named snt) (hn : n = named.length) (h : Inv n s) : Inv n (process tab s d) := by
  unfold process
  exact runWhileYielded_inv n tab named snt ht hn _ _ (inv_ring n s _ h (ringPut_length _ _ h.ring))

theorem putchar_inv (n : Nat) (s : St) (d : Byte) (h : Inv n s) : Inv n (putchar s d) := by
  unfold putchar
  exact { h with ring := ringPut_length _ _ h.ring }

theorem schedLoop_inv (n : Nat) (tab : Table) (named : List Cmd) (snt : Cmd)
    (ht : TableOk tab named snt) (hn : n = named.length) : ∀ (fuel : Nat) (s : St), Inv n s → Inv n (schedLoop tab fuel s)
  | 0, s, h => by
    rw [schedLoop]
    split
    · exact { h with }
    · exact h
  | fuel + 1, s, h => by
    rw [schedLoop]
    split
    · simp only []
      have h1 : Inv n { s with runnable := false } := { h with }
      have h2 := consoleRun_inv n tab named snt _ ht hn h1
      apply schedLoop_inv n tab named snt ht hn fuel
      split
      · exact { h2 with }
      · exact h2
    · exact h

theorem sched_inv (n : Nat) (tab : Table) (named : List Cmd) (snt : Cmd) (s : St)
    (ht : TableOk tab named snt) (hn : n = named.length) (h : Inv n s) : Inv n (sched tab s) :=
  schedLoop_inv n tab named snt ht hn _ s h

theorem evalLoop_inv (n : Nat) (str : List Byte) : ∀ (fuel : Nat) (s : St), Inv n s → Inv n (evalLoop str fuel s).1
  | 0, s, h => h
  | fuel + 1, s, h => by
    rw [evalLoop]
    split
    · exact h
    · split
      · exact h
      · split
        · exact evalLoop_inv n str fuel _ { h with ring := ringPut_length _ _ h.ring }
        · exact h

theorem evalResume_inv (n : Nat) (str : List Byte) (pt : Nat) (s : St) (h : Inv n s) : Inv n (evalResume str pt s).1 := by
  unfold evalResume
  have h0 : Inv n (if pt = 0 then { s with evali := 0 } else s) := by
    split
    · exact { h with }
    · exact h
  have h1 := evalLoop_inv n str (str.length + 1) _ h0
  exact { h1 with }

theorem evalDrive_inv (n : Nat) (tab : Table) (named : List Cmd) (snt : Cmd) (str : List Byte)
    (ht : TableOk tab named snt) (hn : n = named.length) :
    ∀ (fuel pt k : Nat) (s : St), Inv n s → Inv n (evalDrive tab str fuel pt k s).1
  | 0, _, _, s, h => h
  | fuel + 1, pt, k, s, h => by
    rw [evalDrive]
    have h1 := sched_inv n tab named snt _ ht hn (evalResume_inv n str pt s h)
    split
    · exact h1
    · exact evalDrive_inv n tab named snt str ht hn fuel _ _ _ h1

theorem silent_inv (n : Nat) (s : St) (h : Inv n s) : Inv n (silent s) := by
  unfold silent
  exact { h with argc := (by show 1 ≤ 4; omega) }

/-! ### histories -/

/-- registered commands have a name (`strcmp` with NULL is undefined) -/
def OpOk : Op → Prop
  | .register cmd => cmd.name ≠ none
  | _ => True

/-- the table keeps its shape and the console its invariant, whatever happens in whatever order -/
theorem step_inv (w : World) (op : Op) (hop : OpOk op) (named : List Cmd) (snt : Cmd)
    (ht : TableOk w.tab named snt) (h : Inv named.length w.s) :
    ∃ named', TableOk (step w op).tab named' snt ∧ Inv named'.length (step w op).s := by
  cases op with
  | register cmd =>
    cases hname : cmd.name with
    | none => exact absurd hname hop
    | some nm =>
      by_cases hroom : named.length + 1 < tableCap
      · obtain ⟨hr, hok⟩ := register_room w.tab named snt cmd nm ht hroom hname
        refine ⟨named.take (insIdx nm named) ++ cmd :: named.drop (insIdx nm named), ?_, ?_⟩
        · simp only [step, hr]
          exact hok
        · simp only [step, hr]
          apply inv_mono named.length _ _ h
          simp [List.length_take, List.length_drop]
          have := insIdx_le nm named
          omega
      · have hfull : named.length + 1 = tableCap := by have := ht.fits; omega
        have hr := register_full w.tab named snt cmd ht hfull
        refine ⟨named, ?_, ?_⟩
        · simp only [step, hr]; exact ht
        · simp only [step, hr]; exact h
  | process d => exact ⟨named, ht, process_inv _ _ named snt _ d ht rfl h⟩
  | putchar d => exact ⟨named, ht, putchar_inv _ _ d h⟩
  | sched => exact ⟨named, ht, sched_inv _ _ named snt _ ht rfl h⟩
  | run => exact ⟨named, ht, consoleRun_inv _ _ named snt _ ht rfl h⟩
  | evalStep str pt => exact ⟨named, ht, evalResume_inv _ str pt _ h⟩
  | eval str => exact ⟨named, ht, evalDrive_inv _ _ named snt str ht rfl _ _ _ _ h⟩
  | silent => exact ⟨named, ht, silent_inv _ _ h⟩

theorem runOps_inv : ∀ (ops : List Op) (w : World), (∀ op ∈ ops, OpOk op) → ∀ (named : List Cmd) (snt : Cmd),
    TableOk w.tab named snt → Inv named.length w.s →
    ∃ named', TableOk (runOps w ops).tab named' snt ∧ Inv named'.length (runOps w ops).s
  | [], w, _, named, _, ht, h => ⟨named, ht, h⟩
  | op :: ops, w, hok, named, snt, ht, h => by
    obtain ⟨named', ht', h'⟩ := step_inv w op (hok op (List.mem_cons_self ..)) named snt ht h
    exact runOps_inv ops (step w op) (fun o ho => hok o (List.mem_cons_of_mem _ ho)) named' snt ht' h'

end Librfn.Lemmas.ConsoleInv

import Librfn.Lemmas.SchedRefine
/-! Supporting lemmas for the corollaries of C01–C03: the queue invariant of the concrete model, who can
be in the specification's run queue after the intake of a pass, stability of the sleepers' sort. -/
namespace Librfn.Sched.L
open Librfn.Sched Librfn.Model.Fibre Librfn.Spec.Sched

/-! ## the queue invariant of the concrete model -/

/-- cyclic order of two stored due times: `duetime_cmp(x, y) <= 0` -/
def dueLe (due : Fid → BitVec 32) (x y : Fid) : Prop := (due x - due y).toInt ≤ 0

/-- no fibre is queued twice, no fibre is on both queues, the timer queue is sorted (cyclically) -/
structure QInv (k : K) : Prop where
  runqNodup : k.runq.Nodup
  timerqNodup : k.timerq.Nodup
  disjoint : ∀ f ∈ k.runq, f ∉ k.timerq
  sorted : k.timerq.Pairwise (dueLe k.due)

theorem pairwise_map_of {α β : Type} {R : α → α → Prop} {S : β → β → Prop} (g : α → β) :
    ∀ {l : List α}, l.Pairwise R → (∀ x ∈ l, ∀ y ∈ l, R x y → S (g x) (g y)) → (l.map g).Pairwise S
  | [], _, _ => List.Pairwise.nil
  | a :: as, h, hrs => by
    rw [List.pairwise_cons] at h
    rw [List.map_cons, List.pairwise_cons]
    refine ⟨?_, pairwise_map_of g h.2 (fun x hx y hy => hrs x (List.mem_cons_of_mem _ hx) y (List.mem_cons_of_mem _ hy))⟩
    intro b hb
    obtain ⟨y, hy, e⟩ := List.mem_map.mp hb
    subst e
    exact hrs a List.mem_cons_self y (List.mem_cons_of_mem _ hy) (h.1 y hy)

/-- **the simulation relation implies the queue invariant** (in particular for every state reachable by an
    in-scope history) -/
theorem simQ_inv {k : K} {a : A} {b : Option Int} (h : SimQ k a b) : QInv k := by
  refine ⟨h.rq ▸ h.rqNodup, ?_, ?_, ?_⟩
  · rw [h.tq]; exact nodup_fids_sortByDue.mpr h.slNodup
  · intro f hf
    rw [h.tq, mem_fids_sortByDue]
    exact h.disj f (h.rq ▸ hf)
  · rw [h.tq]
    unfold fids
    apply pairwise_map_of Prod.fst (sorted_sortByDue a.sleepers)
    intro x hx y hy hxy
    have hx' := mem_sortByDue.mp hx
    have hy' := mem_sortByDue.mp hy
    obtain ⟨T1, e1, a1, b1⟩ := h.window x hx'
    obtain ⟨T2, e2, a2, b2⟩ := h.window y hy'
    have : T1 = T2 := by rw [e1] at e2; exact Option.some.inj e2
    subst this
    unfold dueLe
    rw [h.due x hx', h.due y hy', sub_toInt_window _ _ (by omega)]
    omega

/-! ## who is in the run queue after the intake of a pass -/

theorem mem_rq_enqueue {a : A} {f g : Fid} : g ∈ (a.enqueue f).rq ↔ g ∈ a.rq ∨ g = f := by
  unfold A.enqueue
  by_cases h : f ∈ a.rq
  · simp only [h, if_true]
    constructor
    · exact Or.inl
    · rintro (h1 | h1)
      · exact h1
      · subst h1; exact h
  · simp only [h, if_false, List.mem_append, List.mem_singleton]

theorem mem_rq_foldl_enqueue {l : List Fid} {a : A} {g : Fid} : g ∈ (l.foldl A.enqueue a).rq ↔ g ∈ a.rq ∨ g ∈ l := by
  induction l generalizing a with
  | nil => simp
  | cons f fs ih =>
    rw [List.foldl_cons, ih, mem_rq_enqueue, List.mem_cons]
    constructor
    · rintro ((h | h) | h)
      · exact Or.inl h
      · exact Or.inr (Or.inl h)
      · exact Or.inr (Or.inr h)
    · rintro (h | h | h)
      · exact Or.inl (Or.inl h)
      · exact Or.inl (Or.inr h)
      · exact Or.inr h

theorem mem_rq_drain {a : A} {g : Fid} : g ∈ a.drain.rq ↔ g ∈ a.rq ∨ g ∈ a.pend := by
  unfold A.drain; rw [mem_rq_foldl_enqueue]

theorem mem_rq_requeue {a : A} {g : Fid} : g ∈ a.requeueYielder.rq ↔ g ∈ a.rq ∨ a.yielder = some g := by
  unfold A.requeueYielder
  cases hy : a.yielder with
  | none => simp
  | some y =>
    show g ∈ (a.enqueue y).rq ↔ _
    rw [mem_rq_enqueue]
    constructor
    · rintro (h | h)
      · exact Or.inl h
      · subst h; exact Or.inr rfl
    · rintro (h | h)
      · exact Or.inl h
      · exact Or.inr (Option.some.inj h).symm

/-- **a fibre is in the run queue after the intake of a pass at time `T` exactly when it has a reason to run**:
    it was queued, an accepted atomic request names it, it yielded in the previous pass, or its timeout has
    expired (`D ≤ T`) and was not cancelled by one of the former -/
theorem mem_rq_intake {a : A} {T : Int} {g : Fid} :
    g ∈ (a.intake T).rq ↔
      (g ∈ a.rq ∨ g ∈ a.pend ∨ a.yielder = some g)
      ∨ ∃ x ∈ a.drain.requeueYielder.sleepers, x.1 = g ∧ x.2 ≤ T := by
  unfold A.intake A.expire
  show g ∈ _ ++ fids _ ↔ _
  rw [List.mem_append, mem_fids_sortByDue, mem_fids, mem_rq_requeue, mem_rq_drain, (aframe_drain a).1.yielder]
  constructor
  · rintro (((h | h) | h) | ⟨x, hx, e⟩)
    · exact Or.inl (Or.inl h)
    · exact Or.inl (Or.inr (Or.inl h))
    · exact Or.inl (Or.inr (Or.inr h))
    · have := List.mem_filter.mp hx
      exact Or.inr ⟨x, this.1, e, by simpa using this.2⟩
  · rintro ((h | h | h) | ⟨x, hx, e, hle⟩)
    · exact Or.inl (Or.inl (Or.inl h))
    · exact Or.inl (Or.inl (Or.inr h))
    · exact Or.inl (Or.inr h)
    · exact Or.inr ⟨x, List.mem_filter.mpr ⟨hx, by simpa using hle⟩, e⟩

/-- a sleeper survives drain + requeue unless it is made runnable by an atomic request or by having yielded -/
theorem mem_sleepers_enqueue {a : A} {f : Fid} {x : Fid × Int} : x ∈ (a.enqueue f).sleepers ↔ x ∈ a.sleepers ∧ x.1 ≠ f := by
  unfold A.enqueue
  show x ∈ a.sleepers.filter _ ↔ _
  rw [List.mem_filter]; simp

theorem mem_sleepers_foldl {l : List Fid} {a : A} {x : Fid × Int} :
    x ∈ (l.foldl A.enqueue a).sleepers ↔ x ∈ a.sleepers ∧ x.1 ∉ l := by
  induction l generalizing a with
  | nil => simp
  | cons f fs ih =>
    rw [List.foldl_cons, ih, mem_sleepers_enqueue, List.mem_cons]
    constructor
    · rintro ⟨⟨h1, h2⟩, h3⟩; exact ⟨h1, fun e => e.elim h2 h3⟩
    · rintro ⟨h1, h2⟩; exact ⟨⟨h1, fun e => h2 (Or.inl e)⟩, fun e => h2 (Or.inr e)⟩

theorem mem_sleepers_drain {a : A} {x : Fid × Int} : x ∈ a.drain.sleepers ↔ x ∈ a.sleepers ∧ x.1 ∉ a.pend := by
  unfold A.drain; rw [mem_sleepers_foldl]

theorem mem_sleepers_requeue {a : A} {x : Fid × Int} :
    x ∈ a.requeueYielder.sleepers ↔ x ∈ a.sleepers ∧ a.yielder ≠ some x.1 := by
  unfold A.requeueYielder
  cases hy : a.yielder with
  | none => simp
  | some y =>
    show x ∈ (a.enqueue y).sleepers ↔ _
    rw [mem_sleepers_enqueue]
    constructor
    · rintro ⟨h1, h2⟩; exact ⟨h1, fun e => h2 (Option.some.inj e).symm⟩
    · rintro ⟨h1, h2⟩; exact ⟨h1, fun e => h2 (by rw [e])⟩

theorem requeue_pend (a : A) : a.requeueYielder.pend = a.pend := by
  unfold A.requeueYielder; split <;> rfl

/-- after the intake of a pass no accepted atomic request is outstanding -/
theorem intake_pend (a : A) (T : Int) : (a.intake T).pend = [] := by
  show a.drain.requeueYielder.pend = []
  rw [requeue_pend]; exact (aframe_drain a).2

/-! ## the earliest due time -/

theorem minDue_none {l : Sl} (h : minDue l = none) : l = [] := by
  rw [minDue_eq_head] at h
  cases hs : sortByDue l with
  | nil => exact sortByDue_eq_nil.mp hs
  | cons x xs => rw [hs] at h; cases h

/-- `minDue` is a pending due time and no pending due time is earlier -/
theorem minDue_some {l : Sl} {D : Int} (h : minDue l = some D) : (∃ f, (f, D) ∈ l) ∧ ∀ x ∈ l, D ≤ x.2 := by
  rw [minDue_eq_head] at h
  cases hs : sortByDue l with
  | nil => rw [hs] at h; cases h
  | cons x xs =>
    rw [hs] at h
    simp only [List.head?_cons, Option.map_some, Option.some.injEq] at h
    have hx : x ∈ l := mem_sortByDue.mp (hs ▸ List.mem_cons_self)
    have hsorted := sorted_sortByDue l
    rw [hs] at hsorted
    unfold Sorted at hsorted
    rw [List.pairwise_cons] at hsorted
    refine ⟨⟨x.1, by rw [← h]; exact hx⟩, ?_⟩
    intro y hy
    have hy' : y ∈ x :: xs := hs ▸ mem_sortByDue.mpr hy
    rcases List.mem_cons.mp hy' with e | e
    · rw [e, ← h]; exact Int.le_refl _
    · rw [← h]; exact hsorted.1 y e

/-! ## stability of the sort -/

theorem foldl_ins_const {D : Int} : ∀ (l acc : Sl), (∀ x ∈ acc, x.2 = D) → (∀ x ∈ l, x.2 = D) →
    l.foldl (fun acc x => insByDue x acc) acc = acc ++ l
  | [], acc, _, _ => by simp
  | x :: xs, acc, ha, hl => by
    have hx : x.2 = D := hl x (by simp)
    have hb : insByDue x acc = acc ++ [x] := by
      apply insByDue_back
      intro z hz
      rw [ha z hz, hx]
      exact Int.le_refl _
    rw [List.foldl_cons, hb, foldl_ins_const xs (acc ++ [x])]
    · simp
    · intro z hz
      rcases List.mem_append.mp hz with hz | hz
      · exact ha z hz
      · simp only [List.mem_singleton] at hz; subst hz; exact hx
    · intro z hz; exact hl z (by simp [hz])

theorem sortByDue_const {l : Sl} {D : Int} (h : ∀ x ∈ l, x.2 = D) : sortByDue l = l := by
  unfold sortByDue
  rw [foldl_ins_const l [] (by intro x hx; cases hx) h]
  rfl

/-- **the sort is stable**: fibres with the same due time keep their registration order -/
theorem sortByDue_stable (l : Sl) (D : Int) :
    (sortByDue l).filter (fun x => decide (x.2 = D)) = l.filter (fun x => decide (x.2 = D)) := by
  rw [sortByDue_filter]
  apply sortByDue_const (D := D)
  intro x hx
  simpa using (List.mem_filter.mp hx).2

end Librfn.Sched.L

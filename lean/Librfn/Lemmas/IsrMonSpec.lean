import Librfn.Lemmas.IsrQuiet
/-! C06 refinement `model ⊨ IsrSpec`: lemmas about the monitor `Spec/IsrSpec.lean` (what each observation does to each of
its fields), and the reachability relation `ReachR` of run-to-completion executions at the granularity of single steps. -/
namespace Librfn.Isr.L
open Librfn.Model.MessageqConc Librfn.Model.FibreIsr Librfn.C04
open Librfn.Sched (Fid Ret)
open Librfn.Spec.IsrSpec
open Librfn.Model.Fibre (upd makeRunnable handleTimerq getNextTask fibreTimeout)

/-! ## the monitor's state under each observation -/

/-- the part of the monitor's state that the observations of senders and the "neutral" observations of the main context
    never touch, or touch in a way described field by field below -/
theorem flag_fields (a : A) (v : Verdict) :
    (a.flag v).owed = a.owed ∧ (a.flag v).atBegin = a.atBegin ∧ (a.flag v).snap = a.snap ∧ (a.flag v).yieldedNow = a.yieldedNow
    ∧ (a.flag v).threads = a.threads ∧ (a.flag v).disturbed = a.disturbed ∧ (a.flag v).nf = a.nf ∧ (a.flag v).evq = a.evq
    ∧ (a.flag v).fresh = a.fresh ∧ (a.flag v).mustGet = a.mustGet ∧ (a.flag v).got = a.got ∧ (a.flag v).handler = a.handler := by
  unfold A.flag; split <;> simp

theorem flag_verdict_ok (a : A) (v : Verdict) (h : (a.flag v).verdict = .ok) : a.verdict = .ok := by
  unfold A.flag at h
  split at h
  · assumption
  · exact h

/-- fields that no observation of a sender changes -/
structure SpecSame (a a' : A) : Prop where
  atBegin : a'.atBegin = a.atBegin
  snap : a'.snap = a.snap
  yieldedNow : a'.yieldedNow = a.yieldedNow
  threads : a'.threads = a.threads
  disturbed : a'.disturbed = a.disturbed
  nf : a'.nf = a.nf
  handler : a'.handler = a.handler
  verdict : a'.verdict = a.verdict

theorem specSame_accepted (a : A) (f : Fid) : SpecSame a (a.step (.accepted f)) := by
  simp only [A.step]; split <;> exact ⟨rfl, rfl, rfl, rfl, rfl, rfl, rfl, rfl⟩
theorem specSame_rejected (a : A) (f : Fid) : SpecSame a (a.step (.rejected f)) := ⟨rfl, rfl, rfl, rfl, rfl, rfl, rfl, rfl⟩
theorem specSame_evClaimed (a : A) (st : Nat) : SpecSame a (a.step (.evClaimed st)) := ⟨rfl, rfl, rfl, rfl, rfl, rfl, rfl, rfl⟩
theorem specSame_evSent (a : A) (st : Nat) (ok : Bool) : SpecSame a (a.step (.evSent st ok)) := by
  simp only [A.step]; split <;> exact ⟨rfl, rfl, rfl, rfl, rfl, rfl, rfl, rfl⟩

/-- the list of owed entries after an accepted request -/
theorem owed_accepted (a : A) (f : Fid) :
    (a.step (.accepted f)).owed = if f ∈ a.owedFids then a.owed else a.owed ++ [(f, 0)] := by
  simp only [A.step]; split <;> rfl

theorem owed_discharge (a : A) (f : Fid) : (a.discharge f).owed = a.owed.filter (fun x => x.1 ≠ f) := rfl

/-- everything but `owed` and `verdict` -/
structure SpecRest (a a' : A) : Prop where
  atBegin : a'.atBegin = a.atBegin
  snap : a'.snap = a.snap
  yieldedNow : a'.yieldedNow = a.yieldedNow
  threads : a'.threads = a.threads
  disturbed : a'.disturbed = a.disturbed
  nf : a'.nf = a.nf
  handler : a'.handler = a.handler
  evq : a'.evq = a.evq
  fresh : a'.fresh = a.fresh
  mustGet : a'.mustGet = a.mustGet
  got : a'.got = a.got

theorem specRest_refl (a : A) : SpecRest a a := ⟨rfl, rfl, rfl, rfl, rfl, rfl, rfl, rfl, rfl, rfl, rfl⟩

theorem specRest_flag (a : A) (v : Verdict) : SpecRest a (a.flag v) := by
  unfold A.flag; split
  · exact ⟨rfl, rfl, rfl, rfl, rfl, rfl, rfl, rfl, rfl, rfl, rfl⟩
  · exact specRest_refl _

theorem SpecRest.trans {a b c : A} (h1 : SpecRest a b) (h2 : SpecRest b c) : SpecRest a c :=
  ⟨h2.atBegin.trans h1.atBegin, h2.snap.trans h1.snap, h2.yieldedNow.trans h1.yieldedNow, h2.threads.trans h1.threads,
   h2.disturbed.trans h1.disturbed, h2.nf.trans h1.nf, h2.handler.trans h1.handler, h2.evq.trans h1.evq,
   h2.fresh.trans h1.fresh, h2.mustGet.trans h1.mustGet, h2.got.trans h1.got⟩

theorem specRest_ageOwed (a : A) : SpecRest a a.ageOwed := by
  unfold A.ageOwed
  split
  · exact specRest_refl _
  · split
    · exact SpecRest.trans (b := { a with owed := a.aged }) ⟨rfl, rfl, rfl, rfl, rfl, rfl, rfl, rfl, rfl, rfl, rfl⟩ (specRest_flag _ _)
    · exact ⟨rfl, rfl, rfl, rfl, rfl, rfl, rfl, rfl, rfl, rfl, rfl⟩

theorem specRest_passEnd (a : A) (onTime : Bool) : SpecRest a (a.step (.passEnd onTime)) := by
  simp only [A.step]
  refine SpecRest.trans ?_ (specRest_ageOwed _)
  split
  · exact specRest_flag _ _
  · exact specRest_refl _

/-! ## run-to-completion executions, step by step

`ReachR`: the main context takes a step only when no sender is inside a call (`Quiet`); the interrupt handler (sender 0) and
the handler nested in it (sender 1) step freely; there is no thread sender.  Every state of an execution of the runner on
a history without thread items that has not been cut for lack of fuel is of this kind (`good_runHistory`).  `n` is the
number of fibres: calls only name fibres `< n`. -/
def MCallOk (n : Nat) : MCall → Prop
  | .run f | .kill f => f < n
  | .next _ => True

def ICallOk (n : Nat) : ICall → Prop
  | .runAtomic f => f < n
  | .eventSend _ => True

/-- the calls a scripted fibre body makes only name fibres that exist -/
def BCallOk (n : Nat) : BCall → Prop
  | .run g | .kill g => g < n

/-- the interrupt and the handlers nested in it only name fibres that exist -/
def IsrOk (n : Nat) (e : Isr) : Prop := ICallOk n e.call ∧ ∀ x ∈ e.nested, ICallOk n x.2

inductive ReachR (n : Nat) : S → Prop
  | init (d : Nat) (kinds : List Kind) (budgets : List Nat) (h1 : 1 ≤ d) (h32 : d ≤ 32) (hn : n = kinds.length + 1) :
      ReachR n (initWith d kinds budgets)
  | mainPlain {s : S} : ReachR n s → Quiet s → ReachR n (mainPlain s)
  | mainAtomic {s : S} : ReachR n s → Quiet s → ReachR n (mainAtomic s)
  | enterMain {s : S} (c : MCall) : ReachR n s → Quiet s → s.mpc = .idle → MCallOk n c → ReachR n (enterMain c s)
  | senderPlain {s : S} (i : Nat) : i < 2 → ReachR n s → ReachR n (senderPlain i s)
  | senderAtomic {s : S} (i : Nat) : i < 2 → ReachR n s → ReachR n (senderAtomic i s)
  | enterSender {s : S} (i : Nat) (c : ICall) : i < 2 → ReachR n s → s.ipc i = .idle → ICallOk n c → ReachR n (enterSender i c s)
  | tok {s : S} (t : Tok) : ReachR n s → ReachR n (tok t s)
  | nops {s : S} (k : Nat) : ReachR n s → ReachR n { s with nops := k }
  | newItem {s : S} : ReachR n s → ReachR n { s with trace := [], fired := 0 }
  | noYields {s : S} : ReachR n s → ReachR n { s with budget := fun _ => 0 }
  /-- the script of calls (`fibre_run(g)` / `fibre_kill(g)`) that fibres of kind `scripted` make during their dispatch, and
      the code they return, are set -/
  | setBody {s : S} (b : List BCall) (r : Ret) : (∀ c ∈ b, BCallOk n c) → ReachR n s → ReachR n { s with bscript := b, bret := r }

theorem reachR_reach {n : Nat} {s : S} (h : ReachR n s) : Reach s := by
  induction h with
  | init d kinds budgets h1 h32 _ => exact Reach.init d kinds budgets h1 h32
  | mainPlain _ _ ih => exact Reach.mainPlain ih
  | mainAtomic _ _ ih => exact Reach.mainAtomic ih
  | enterMain c _ _ hidle _ ih => exact Reach.enterMain c ih hidle
  | senderPlain i hi _ ih => exact Reach.senderPlain i (by omega) ih
  | senderAtomic i hi _ ih => exact Reach.senderAtomic i (by omega) ih
  | enterSender i c hi _ hidle _ ih => exact Reach.enterSender i c (by omega) ih hidle
  | tok t _ ih => exact Reach.tok t ih
  | nops k _ ih => exact Reach.nops k ih
  | newItem _ ih => exact Reach.newItem ih
  | noYields _ ih => exact Reach.noYields ih
  | setBody b r _ _ ih => exact Reach.setBody b r ih

/-- cut for lack of fuel, or a run-to-completion state in which the senders outside `I` are between calls -/
def Good (n : Nat) (I : List Nat) (s : S) : Prop := s.hung = true ∨ (ReachR n s ∧ ∀ j, j < 3 → j ∉ I → s.ipc j = .idle)

theorem good_senderPlain {n : Nat} {I : List Nat} {s : S} (i : Nat) (hi : i < 2) (hI : i ∈ I) (h : Good n I s) : Good n I (senderPlain i s) := by
  rcases h with h | ⟨hr, hq⟩
  · exact Or.inl (by rw [senderPlain_hung]; exact h)
  · exact Or.inr ⟨ReachR.senderPlain i hi hr, fun j hj hjI => by
      rw [senderPlain_ipc_other i j s (fun e => hjI (e ▸ hI))]; exact hq j hj hjI⟩

theorem good_senderAtomic {n : Nat} {I : List Nat} {s : S} (i : Nat) (hi : i < 2) (hI : i ∈ I) (h : Good n I s) : Good n I (senderAtomic i s) := by
  rcases h with h | ⟨hr, hq⟩
  · exact Or.inl (by rw [senderAtomic_hung]; exact h)
  · exact Or.inr ⟨ReachR.senderAtomic i hi hr, fun j hj hjI => by
      rw [senderAtomic_ipc_other i j s (fun e => hjI (e ▸ hI))]; exact hq j hj hjI⟩

theorem good_runSender {n : Nat} {gap : Point → S → S} {I : List Nat} (i : Nat) (hi : i < 2) (c : ICall)
    (hg : ∀ p s, Good n (i :: I) s → Good n (i :: I) (gap p s)) :
    ∀ (fuel k : Nat) (s : S), Good n (i :: I) s → Good n I (runSender gap i c fuel k s)
  | 0, _, _, _ => Or.inl rfl
  | fuel + 1, k, s, h => by
    unfold runSender
    simp only
    have h1 := good_senderPlain i hi List.mem_cons_self h
    split
    · rename_i hidle
      rcases h1 with h1 | ⟨hr, hq⟩
      · exact Or.inl h1
      · refine Or.inr ⟨ReachR.tok _ hr, fun j hj hjI => ?_⟩
        by_cases hji : j = i
        · subst hji; exact hidle
        · exact hq j hj (fun hm => by rcases List.mem_cons.mp hm with e | e; exact hji e; exact hjI e)
    · exact good_runSender i hi c hg fuel (k + 1) _
        (hg _ _ (good_senderAtomic i hi List.mem_cons_self (hg _ _ h1)))

theorem good_callSender {n : Nat} {gap : Point → S → S} {I : List Nat} (i : Nat) (hi : i < 2) (c : ICall) (hc : ICallOk n c)
    (hg : ∀ p s, Good n (i :: I) s → Good n (i :: I) (gap p s)) {s : S} (h : Good n I s) : Good n I (callSender gap i c s) := by
  unfold callSender
  split
  · rename_i hidle
    refine good_runSender i hi c hg _ _ _ ?_
    rcases h with h | ⟨hr, hq⟩
    · exact Or.inl h
    · refine Or.inr ⟨ReachR.enterSender i c hi hr hidle hc, fun j hj hjI => ?_⟩
      have hji : j ≠ i := fun e => hjI (e ▸ List.mem_cons_self)
      show upd s.ipc i _ j = _
      rw [upd_other _ _ _ _ hji]
      exact hq j hj (fun hm => hjI (List.mem_cons_of_mem _ hm))
  · exact Or.inl rfl

theorem good_foldl {n : Nat} {α : Type} {I : List Nat} (f : S → α → S) (l : List α)
    (hf : ∀ s a, a ∈ l → Good n I s → Good n I (f s a)) : ∀ (s : S), Good n I s → Good n I (l.foldl f s) := by
  induction l with
  | nil => exact fun _ h => h
  | cons a l ih =>
    intro s h
    exact ih (fun s b hb hs => hf s b (List.mem_cons_of_mem _ hb) hs) _ (hf s a List.mem_cons_self h)

theorem good_runIsr {n : Nat} {s : S} (h : Good n [] s) (e : Isr) (he : IsrOk n e) : Good n [] (runIsr s e) :=
  good_callSender 0 (by omega) e.call he.1
    (fun _ _ h => good_foldl _ _ (fun _ x hx hs =>
      good_callSender 1 (by omega) x.2 (he.2 x (List.mem_filter.mp hx).1) (fun _ _ h => h) hs) _ h) h

theorem good_main {n : Nat} {s s' : S} (h : Good n [] s) (hh : s'.hung = s.hung) (hstep : ReachR n s → Quiet s → ReachR n s')
    (hi : s'.ipc = s.ipc) : Good n [] s' := by
  rcases h with h | ⟨hr, hq⟩
  · exact Or.inl (hh ▸ h)
  · exact Or.inr ⟨hstep hr (fun i hi' => hq i hi' List.not_mem_nil), fun j hj hjI => by rw [hi]; exact hq j hj hjI⟩

/-! ### the runner on histories without thread senders whose calls only name existing fibres -/

def ScriptOk (n : Nat) (script : Script) : Prop := ∀ x ∈ script, IsrOk n x.2

/-- no thread sender, and every fibre named exists (`n` = number of fibres) -/
def ItemOk (n : Nat) : Item → Prop
  | .main m => MCallOk n m.call ∧ ScriptOk n m.script ∧ ∀ c ∈ m.body, BCallOk n c
  | .isr e => IsrOk n e
  | .thread _ _ => False
  | .quiesce => True

theorem good_isrGap {n : Nat} (script : Script) (hs : ScriptOk n script) (p : Point) {s : S} (h : Good n [] s) :
    Good n [] (isrGap script p s) :=
  good_foldl _ _ (fun _ x hx hg => good_runIsr hg x.2 (hs x (List.mem_filter.mp hx).1)) _ h

theorem good_runMain {n : Nat} {gap : Point → S → S} (hg : ∀ p s, Good n [] s → Good n [] (gap p s)) (c : MCall) :
    ∀ (fuel k : Nat) (s : S), Good n [] s → Good n [] (runMain gap c fuel k s)
  | 0, _, _, _ => Or.inl rfl
  | fuel + 1, k, s, h => by
    unfold runMain
    simp only
    have h1 : Good n [] (mainPlain s) := good_main h (mainPlain_hung _) (fun hr hq => ReachR.mainPlain hr hq) (mainPlain_ipc _)
    split
    · exact good_main (s := { mainPlain s with nops := k }) (good_main h1 rfl (fun hr _ => ReachR.nops k hr) rfl) rfl
        (fun hr _ => ReachR.tok _ hr) rfl
    · exact good_runMain hg c fuel (k + 1) _
        (hg _ _ (good_main (hg _ _ h1) (mainAtomic_hung _) (fun hr hq => ReachR.mainAtomic hr hq) (mainAtomic_ipc _)))

theorem good_callMain {n : Nat} {gap : Point → S → S} (hg : ∀ p s, Good n [] s → Good n [] (gap p s)) (c : MCall)
    (hc : MCallOk n c) {s : S} (h : Good n [] s) : Good n [] (callMain gap c s) := by
  unfold callMain
  split
  · rename_i hidle
    exact good_runMain hg c _ _ _ (good_main h rfl (fun hr hq => ReachR.enterMain c hr hq hidle hc) rfl)
  · exact Or.inl rfl

theorem good_quiesceLoop {n : Nat} : ∀ (m : Nat) (s : S), Good n [] s → Good n [] (quiesceLoop m s)
  | 0, _, h => h
  | m + 1, s, h => by
    unfold quiesceLoop
    simp only
    split
    · exact good_quiesceLoop m _ (good_callMain (fun _ _ h => h) (.next s.k.now) trivial h)
    · exact good_callMain (fun _ _ h => h) (.next s.k.now) trivial h

theorem good_runItem {n : Nat} {s : S} (h : Good n [] s) (it : Item) (hi : ItemOk n it) : Good n [] (runItem s it) := by
  unfold runItem
  have h0 : Good n [] { s with trace := [], fired := 0 } := good_main h rfl (fun hr _ => ReachR.newItem hr) rfl
  cases it with
  | main m =>
    exact good_callMain (fun p _ h => good_isrGap m.script hi.2.1 p h) m.call hi.1
      (good_main (s := { s with trace := [], fired := 0 }) h0 rfl (fun hr _ => ReachR.setBody _ _ hi.2.2 hr) rfl)
  | isr e => exact good_runIsr h0 e hi
  | thread c script => exact False.elim hi
  | quiesce =>
    exact good_quiesceLoop 64 _ (good_main (s := { ({ s with trace := [], fired := 0 } : S) with budget := fun _ => 0 })
      (good_main (s := { s with trace := [], fired := 0 }) h0 rfl (fun hr _ => ReachR.noYields hr) rfl) rfl
      (fun hr _ => ReachR.setBody [] .waiting (fun _ h => absurd h List.not_mem_nil) hr) rfl)

/-- **every state the runner reaches on a history without thread senders (whose calls name existing fibres) is cut for
    lack of fuel, or a `ReachR` state with all senders between calls** -/
theorem good_runHistory (d : Nat) (kinds : List Kind) (budgets : List Nat) (h1 : 1 ≤ d) (h32 : d ≤ 32) (h : List Item)
    (hok : ∀ it ∈ h, ItemOk (kinds.length + 1) it) :
    Good (kinds.length + 1) [] (runHistory (initWith d kinds budgets) h) := by
  unfold runHistory
  have : ∀ (l : List Item) (s : S), Good (kinds.length + 1) [] s → (∀ it ∈ l, ItemOk (kinds.length + 1) it) →
      Good (kinds.length + 1) [] (l.foldl runItem s) := by
    intro l
    induction l with
    | nil => intro s hs _; exact hs
    | cons it l ih =>
      intro s hs hl
      exact ih _ (good_runItem hs it (hl it List.mem_cons_self)) (fun x hx => hl x (List.mem_cons_of_mem _ hx))
  exact this h _ (Or.inr ⟨ReachR.init d kinds budgets h1 h32 rfl, fun _ _ _ => rfl⟩) hok

/-! ## which observations each step makes -/

def NoThread : Obs → Prop
  | .threadBegin | .threadEnd => False
  | _ => True

/-- `a'` is `a` after a sequence of observations each of which satisfies `P` -/
def EmitsP (P : Obs → Prop) (a a' : A) : Prop := ∃ l : List Obs, (∀ o ∈ l, P o) ∧ a' = l.foldl A.step a

abbrev Emits := EmitsP NoThread

theorem emitsP_refl {P : Obs → Prop} (a : A) : EmitsP P a a := ⟨[], fun _ h => absurd h List.not_mem_nil, rfl⟩
theorem emitsP_one {P : Obs → Prop} (a : A) (o : Obs) (h : P o) : EmitsP P a (a.step o) :=
  ⟨[o], fun x hx => by rw [List.mem_singleton] at hx; subst hx; exact h, rfl⟩
theorem EmitsP.trans {P : Obs → Prop} {a b c : A} (h1 : EmitsP P a b) (h2 : EmitsP P b c) : EmitsP P a c := by
  obtain ⟨l1, n1, e1⟩ := h1
  obtain ⟨l2, n2, e2⟩ := h2
  refine ⟨l1 ++ l2, fun o ho => ?_, ?_⟩
  · rcases List.mem_append.mp ho with h | h
    · exact n1 o h
    · exact n2 o h
  · rw [List.foldl_append, ← e1, e2]
theorem EmitsP.mono {P Q : Obs → Prop} {a b : A} (h : EmitsP P a b) (hpq : ∀ o, P o → Q o) : EmitsP Q a b := by
  obtain ⟨l, n, e⟩ := h
  exact ⟨l, fun o ho => hpq o (n o ho), e⟩

/-- an invariant of the monitor preserved by every observation satisfying `P` survives an `EmitsP P` -/
theorem EmitsP.lift {P : Obs → Prop} {I : A → Prop} (hstep : ∀ a o, P o → I a → I (a.step o)) {a a' : A}
    (h : EmitsP P a a') (hi : I a) : I a' := by
  obtain ⟨l, hn, e⟩ := h
  subst e
  induction l generalizing a with
  | nil => exact hi
  | cons o l ih =>
    exact ih (hstep a o (hn o List.mem_cons_self) hi) (fun x hx => hn x (List.mem_cons_of_mem _ hx))

theorem emits_refl (a : A) : Emits a a := emitsP_refl a
theorem emits_one (a : A) (o : Obs) (h : NoThread o) : Emits a (a.step o) := emitsP_one a o h
theorem Emits.trans {a b c : A} (h1 : Emits a b) (h2 : Emits b c) : Emits a c := EmitsP.trans h1 h2

/-- the observations the scheduler's plain code makes: dispatch, return of the fibre, end of the pass, kill -/
def SchedObs : Obs → Prop
  | .dispatched _ | .bodyReturned _ | .passEnd _ | .killed _ => True
  | _ => False

theorem SchedObs.noThread {o : Obs} (h : SchedObs o) : NoThread o := by
  cases o <;> first | exact False.elim h | trivial

theorem sched_finishPass (s : S) (v : BitVec 32) : EmitsP SchedObs s.a (finishPass s v).a := emitsP_one s.a (.passEnd _) trivial

theorem sched_returned (s : S) (r : Ret) : EmitsP SchedObs s.a (returned s r).a := by
  unfold returned
  split
  · exact EmitsP.trans (emitsP_one s.a (.bodyReturned true) trivial) (sched_finishPass _ _)
  · exact emitsP_one s.a (.bodyReturned false) trivial

theorem sched_bodyStep (s : S) : EmitsP SchedObs s.a (bodyStep s).a := by
  unfold bodyStep
  split
  · exact sched_returned _ _
  · exact emitsP_refl _
  · exact emitsP_refl _

theorem sched_bodyOf (s : S) (c : Fid) : EmitsP SchedObs s.a (bodyOf s c).a := by
  unfold bodyOf
  split
  · exact emitsP_refl _
  · split <;> exact sched_returned _ _
  · split <;> exact sched_returned _ _
  · exact sched_returned _ _
  · exact sched_bodyStep _

theorem sched_body (s : S) (c : Fid) : EmitsP SchedObs s.a (body s c).a :=
  EmitsP.trans (emitsP_one s.a (.dispatched c) trivial) (sched_bodyOf _ c)

theorem sched_dispatch (s : S) : EmitsP SchedObs s.a (dispatch s).a := by
  unfold dispatch; split
  · exact sched_body _ _
  · exact emitsP_refl _

theorem sched_afterUpdate (s : S) : EmitsP SchedObs s.a (afterUpdate s).a := sched_dispatch _

theorem sched_afterDrain (s : S) (c : Cont) : EmitsP SchedObs s.a (afterDrain s c).a := by
  cases c with
  | run f => exact emitsP_refl _
  | kill f => exact emitsP_one s.a (.killed f) trivial
  | pass1 =>
    simp only [afterDrain]
    split
    · exact sched_afterUpdate s
    · split
      · exact emitsP_refl _
      · exact emitsP_refl _
      · exact sched_afterUpdate _
      · exact sched_afterUpdate s
  | pass2 c => exact sched_afterUpdate _
  | brun g => exact sched_bodyStep _
  | bkill g => exact EmitsP.trans (emitsP_one s.a (.killed g) trivial) (sched_bodyStep _)

theorem emits_finishPass (s : S) (v : BitVec 32) : Emits s.a (finishPass s v).a := (sched_finishPass s v).mono fun _ => SchedObs.noThread
theorem emits_returned (s : S) (r : Ret) : Emits s.a (returned s r).a := (sched_returned s r).mono fun _ => SchedObs.noThread
theorem emits_dispatch (s : S) : Emits s.a (dispatch s).a := (sched_dispatch s).mono fun _ => SchedObs.noThread
theorem emits_afterUpdate (s : S) : Emits s.a (afterUpdate s).a := (sched_afterUpdate s).mono fun _ => SchedObs.noThread
theorem emits_afterDrain (s : S) (c : Cont) : Emits s.a (afterDrain s c).a := (sched_afterDrain s c).mono fun _ => SchedObs.noThread

theorem emits_mainPlain (s : S) : Emits s.a (mainPlain s).a := by
  unfold mainPlain
  split
  · rename_i c _
    cases c with
    | next t => simp only [startCall]; unfold startNext; split <;> exact emits_one s.a .passBegin trivial
    | run f => exact emits_refl _
    | kill f => exact emits_refl _
  · split
    · exact emits_dispatch s
    · exact emits_refl _
  · split
    · exact emits_refl _
    · exact emits_afterDrain s _
  · exact emits_refl _
  · refine Emits.trans (b := (resetPriv s).a) ?_ (emits_afterUpdate _)
    unfold resetPriv; split <;> exact emits_refl _
  · split
    · exact emits_one s.a (.evProcessed _) trivial
    · exact emits_returned s _
  · exact emits_refl _
  · exact emits_finishPass s _
  · exact emits_refl _

theorem emits_mainAtomic (s : S) : Emits s.a (mainAtomic s).a := by
  unfold mainAtomic
  split
  · exact emits_one s.a .looked trivial
  · exact emits_refl _
  · exact emits_refl _
  · exact emits_refl _
  · exact emits_refl _
  · exact emits_refl _
  · exact emits_one s.a .looked trivial
  · exact emits_refl _

theorem emits_senderAtomic (i : Nat) (s : S) : Emits s.a (senderAtomic i s).a := by
  unfold senderAtomic
  split
  · split
    · exact emits_one s.a (.evClaimed _) trivial
    · exact emits_refl _
    · exact emits_refl _
  · exact emits_refl _
  · exact emits_refl _
  · split <;> exact emits_refl _
  · exact emits_refl _
  · exact emits_one s.a (.accepted _) trivial
  · exact emits_refl _

theorem emits_senderPlain (i : Nat) (s : S) : Emits s.a (senderPlain i s).a := by
  unfold senderPlain
  split
  · exact emits_refl _
  · exact emits_refl _
  · exact emits_refl _
  · exact emits_refl _
  · exact emits_refl _
  · exact emits_refl _
  · rename_i f ev _
    cases ev with
    | none => exact emits_one s.a (.rejected f) trivial
    | some st => exact Emits.trans (emits_one s.a (.rejected f) trivial) (emits_one _ (.evSent st false) trivial)
  · rename_i f ev _
    cases ev with
    | none => exact emits_refl _
    | some st => exact emits_one s.a (.evSent st true) trivial
  · exact emits_refl _

/-- every step of a run-to-completion execution makes only observations that are not about thread senders -/
theorem reachR_emits_inv (P : A → Prop) (hinit : ∀ nf, 1 ≤ nf → P { nf := nf })
    (hstep : ∀ a o, NoThread o → P a → P (a.step o)) {n : Nat} {s : S} (hr : ReachR n s) : P s.a := by
  have lift : ∀ a a', Emits a a' → P a → P a' := fun a a' he hp => EmitsP.lift hstep he hp
  induction hr with
  | init d kinds budgets h1 h32 _ => exact hinit _ (by omega)
  | mainPlain _ _ ih => exact lift _ _ (emits_mainPlain _) ih
  | mainAtomic _ _ ih => exact lift _ _ (emits_mainAtomic _) ih
  | enterMain c _ _ hidle _ ih => exact ih
  | senderPlain i hi _ ih => exact lift _ _ (emits_senderPlain i _) ih
  | senderAtomic i hi _ ih => exact lift _ _ (emits_senderAtomic i _) ih
  | enterSender i c hi _ hidle _ ih => exact ih
  | tok t _ ih => exact ih
  | nops k _ ih => exact ih
  | newItem _ ih => exact ih
  | noYields _ ih => exact ih
  | setBody b r hb _ ih => exact ih

/-- the monitor's own invariants in executions without thread senders -/
structure MonB (a : A) : Prop where
  thr : a.threads = 0
  dist : a.disturbed = false
  nfpos : 1 ≤ a.nf
  hdl : a.handler = HANDLER
  sub : ∀ f ∈ a.atBegin, f ∈ a.owedFids

theorem monB_of_rest {a a' : A} (h : MonB a) (hr : SpecRest a a') (ho : a'.owedFids = a.owedFids) : MonB a' :=
  ⟨hr.threads ▸ h.thr, hr.disturbed ▸ h.dist, hr.nf ▸ h.nfpos, hr.handler ▸ h.hdl, by rw [hr.atBegin, ho]; exact h.sub⟩

theorem owed_evProcessed (a : A) (st : Nat) : (a.step (.evProcessed st)).owed = a.owed := by
  simp only [A.step]
  split
  · exact flag_owed _ _
  · split
    · rfl
    · exact flag_owed _ _

theorem specSame_evProcessed (a : A) (st : Nat) :
    (a.step (.evProcessed st)).atBegin = a.atBegin ∧ (a.step (.evProcessed st)).snap = a.snap
    ∧ (a.step (.evProcessed st)).yieldedNow = a.yieldedNow ∧ (a.step (.evProcessed st)).threads = a.threads
    ∧ (a.step (.evProcessed st)).disturbed = a.disturbed ∧ (a.step (.evProcessed st)).nf = a.nf
    ∧ (a.step (.evProcessed st)).handler = a.handler := by
  simp only [A.step]
  split
  · have := specRest_flag a (.eventFromNowhere st)
    exact ⟨this.atBegin, this.snap, this.yieldedNow, this.threads, this.disturbed, this.nf, this.handler⟩
  · split
    · exact ⟨rfl, rfl, rfl, rfl, rfl, rfl, rfl⟩
    · rename_i x r _ _
      have := specRest_flag a (.eventOutOfOrder st x)
      exact ⟨this.atBegin, this.snap, this.yieldedNow, this.threads, this.disturbed, this.nf, this.handler⟩

theorem monB_discharge {a : A} (h : MonB a) (f : Fid) : MonB (a.discharge f) := by
  refine ⟨h.thr, h.dist, h.nfpos, h.hdl, fun g hg => ?_⟩
  have hg' : g ∈ a.atBegin.filter (· ≠ f) := hg
  rw [List.mem_filter] at hg'
  exact (mem_owed_discharge a f g).mpr ⟨h.sub g hg'.1, by simpa using hg'.2⟩

theorem monB_step {a : A} (o : Obs) (hn : NoThread o) (h : MonB a) : MonB (a.step o) := by
  cases o with
  | threadBegin => exact False.elim hn
  | threadEnd => exact False.elim hn
  | accepted f =>
    have hs := specSame_accepted a f
    exact ⟨hs.threads ▸ h.thr, hs.disturbed ▸ h.dist, hs.nf ▸ h.nfpos, hs.handler ▸ h.hdl,
      fun g hg => (mem_owed_accepted a f g).mpr (Or.inl (h.sub g (hs.atBegin ▸ hg)))⟩
  | rejected f => exact h
  | dispatched f => exact monB_discharge h f
  | killed f =>
    simp only [A.step]
    split
    · have := monB_discharge h f
      exact ⟨this.thr, this.dist, this.nfpos, this.hdl, this.sub⟩
    · exact monB_discharge h f
  | evClaimed st => exact ⟨h.thr, h.dist, h.nfpos, h.hdl, h.sub⟩
  | evSent st ok =>
    have hs := specSame_evSent a st ok
    refine ⟨hs.threads ▸ h.thr, hs.disturbed ▸ h.dist, hs.nf ▸ h.nfpos, hs.handler ▸ h.hdl, ?_⟩
    rw [hs.atBegin, owedFids_neutral a (.evSent st ok) trivial]; exact h.sub
  | evProcessed st =>
    have hs := specSame_evProcessed a st
    refine ⟨hs.2.2.2.1 ▸ h.thr, hs.2.2.2.2.1 ▸ h.dist, hs.2.2.2.2.2.1 ▸ h.nfpos, hs.2.2.2.2.2.2 ▸ h.hdl, ?_⟩
    rw [hs.1, owedFids_neutral a (.evProcessed st) trivial]; exact h.sub
  | passBegin => exact ⟨h.thr, by show decide (a.threads > 0) = false; rw [h.thr]; rfl, h.nfpos, h.hdl, fun _ hg => hg⟩
  | looked => exact ⟨h.thr, h.dist, h.nfpos, h.hdl, h.sub⟩
  | bodyReturned y => exact ⟨h.thr, h.dist, h.nfpos, h.hdl, h.sub⟩
  | passEnd onTime => exact monB_of_rest h (specRest_passEnd a onTime) (owedFids_neutral a (.passEnd onTime) trivial)

theorem reachR_monB {n : Nat} {s : S} (hr : ReachR n s) : MonB s.a :=
  reachR_emits_inv MonB (fun _ h => ⟨rfl, rfl, h, rfl, fun _ hf => absurd hf List.not_mem_nil⟩)
    (fun _ o hn h => monB_step o hn h) hr

end Librfn.Isr.L

import Librfn.Lemmas.IsrMonV
/-! C06 `dispatch_within_runq_passes`: FIFO dispatch — a fibre at position `i` of the run queue is dispatched by the
`(i+1)`-th of the next uninterrupted passes of `fibre_scheduler_next`. -/
namespace Librfn.Isr.L
open Librfn.Model.MessageqConc Librfn.Model.FibreIsr Librfn.C04
open Librfn.Sched (Fid Ret)
open Librfn.Spec.IsrSpec
open Librfn.Model.Fibre (K upd makeRunnable handleTimerq getNextTask fibreTimeout timerqLoop)

/-! ## FIFO dispatch: an uninterrupted pass dispatches the head of the run queue and appends at its tail -/

/-- the two drain loops of the pass itself (not those of calls a scripted fibre body makes) -/
def PreCont : Cont → Prop
  | .pass1 | .pass2 _ => True
  | _ => False

def PrePop : MPc → Prop
  | .start (.next _) | .fast | .fastDone _ | .taintF | .taintFd => True
  | .recv c | .recvd c | .rel c | .reld c => PreCont c
  | _ => False

def PostPop : MPc → Prop
  | .hRecv | .hRecvd | .hRel | .hReld | .wake | .woke _ | .idle => True
  | _ => False

/-- the pass that started with run queue `c :: r`: before the pop the queue is `c :: r` plus a tail, after it `c` has been
    dispatched and the queue is `r` plus a tail -/
structure PI (c : Fid) (r : List Fid) (s : S) : Prop where
  pc : PrePop s.mpc ∨ PostPop s.mpc
  pre : PrePop s.mpc → ∃ l, s.k.runq = c :: (r ++ l)
  post : PostPop s.mpc → Tok.disp c ∈ s.trace ∧ ∃ l, s.k.runq = r ++ l
  /-- the fibres dispatched call neither `fibre_run` nor `fibre_kill` -/
  bs : s.bscript = []

theorem mono_returned (s : S) (r : Ret) : ∀ x ∈ s.trace, x ∈ (returned s r).trace := by
  intro x hx
  unfold returned; split
  · exact List.mem_append_left _ hx
  · exact List.mem_append_left _ hx

theorem mono_bodyStep (s : S) : ∀ x ∈ s.trace, x ∈ (bodyStep s).trace := by
  intro x hx
  unfold bodyStep; split
  · exact mono_returned _ _ x hx
  · exact hx
  · exact hx

/-! with no scripted calls left, a dispatch ends the pass (or enters the handler) -/
theorem bs_returned (s : S) (r : Ret) : (returned s r).bscript = s.bscript := by
  unfold returned; split <;> rfl
theorem bs_bodyStep {s : S} (h : s.bscript = []) : (bodyStep s).bscript = [] := by
  unfold bodyStep; split
  · rw [bs_returned]; exact h
  · rename_i e; rw [h] at e; cases e
  · rename_i e; rw [h] at e; cases e
theorem bs_bodyOf {s : S} (h : s.bscript = []) (c : Fid) : (bodyOf s c).bscript = [] := by
  unfold bodyOf
  split
  · exact h
  · split <;> (rw [bs_returned]; exact h)
  · split <;> (rw [bs_returned]; exact h)
  · rw [bs_returned]; exact h
  · exact bs_bodyStep h
theorem bs_dispatch {s : S} (h : s.bscript = []) : (dispatch s).bscript = [] := by
  unfold dispatch; split
  · exact bs_bodyOf (by exact h) _
  · exact h
theorem bs_afterUpdate {s : S} (h : s.bscript = []) : (afterUpdate s).bscript = [] := bs_dispatch (by exact h)
theorem bs_afterDrain {s : S} (h : s.bscript = []) (c : Cont) : (afterDrain s c).bscript = [] := by
  cases c with
  | run f => exact h
  | kill f => exact h
  | pass1 =>
    simp only [afterDrain]
    split
    · exact bs_afterUpdate h
    · split
      · exact h
      · exact h
      · exact bs_afterUpdate (by exact h)
      · exact bs_afterUpdate h
  | pass2 c => exact bs_afterUpdate (by exact h)
  | brun g => exact bs_bodyStep (s := brunPre s g) h
  | bkill g => exact bs_bodyStep (s := bkillPre s g) h
theorem bs_mainAtomic (s : S) : (mainAtomic s).bscript = s.bscript := by
  unfold mainAtomic; split <;> rfl
theorem bs_mainPlain {s : S} (h : s.bscript = []) : (mainPlain s).bscript = [] := by
  unfold mainPlain
  split
  · rename_i c _
    cases c with
    | next t => simp only [startCall]; unfold startNext; split <;> exact h
    | run f => exact h
    | kill f => exact h
  · split
    · exact bs_dispatch h
    · exact h
  · split
    · exact h
    · exact bs_afterDrain h _
  · exact h
  · refine bs_afterUpdate ?_
    unfold resetPriv; split <;> exact h
  · split
    · exact h
    · rw [bs_returned]; exact h
  · exact h
  · exact h
  · exact h

theorem afterBody_returned (s : S) (r : Ret) : AfterBody (returned s r).mpc := by
  unfold returned; split <;> trivial
theorem afterBody_bodyStep {s : S} (h : s.bscript = []) : AfterBody (bodyStep s).mpc := by
  unfold bodyStep; split
  · exact afterBody_returned _ _
  · rename_i e; rw [h] at e; cases e
  · rename_i e; rw [h] at e; cases e
theorem afterBody_bodyOf {s : S} (h : s.bscript = []) (c : Fid) : AfterBody (bodyOf s c).mpc := by
  unfold bodyOf
  split
  · trivial
  · split <;> exact afterBody_returned _ _
  · split <;> exact afterBody_returned _ _
  · exact afterBody_returned _ _
  · exact afterBody_bodyStep h
theorem afterBody_dispatch {s : S} (h : s.bscript = []) : AfterBody (dispatch s).mpc := by
  unfold dispatch; split
  · exact afterBody_bodyOf (by exact h) _
  · trivial
theorem afterBody_afterUpdate {s : S} (h : s.bscript = []) : AfterBody (afterUpdate s).mpc := afterBody_dispatch (by exact h)

theorem mono_bodyOf (s : S) (c : Fid) : ∀ x ∈ s.trace, x ∈ (bodyOf s c).trace := by
  intro x hx
  unfold bodyOf
  split
  · exact hx
  · split
    · exact mono_returned _ _ x hx
    · exact mono_returned _ _ x hx
  · split
    · exact mono_returned _ _ x (List.mem_append_left _ (List.mem_append_left _ hx))
    · exact mono_returned _ _ x (List.mem_append_left _ hx)
  · exact mono_returned _ _ x hx
  · exact mono_bodyStep _ x hx

theorem runq_bodyOf (s : S) (c : Fid) : (bodyOf s c).k.runq = s.k.runq := by
  unfold bodyOf
  split
  · rfl
  · split <;> rw [returned_runq]
  · split
    · rw [returned_runq]; simp only [tok_k]; rw [runq_fibreTimeout, runq_fibreTimeout]
    · rw [returned_runq]; simp only [tok_k]; rw [runq_fibreTimeout]
  · rw [returned_runq]
  · rw [bodyStep_runq]

/-- the pop and the dispatch -/
theorem pi_afterUpdate {c : Fid} {r : List Fid} {t : S} (h : ∃ l, t.k.runq = c :: (r ++ l)) (hbs : t.bscript = []) :
    PostPop (afterUpdate t).mpc ∧ Tok.disp c ∈ (afterUpdate t).trace ∧ ∃ l, (afterUpdate t).k.runq = r ++ l := by
  obtain ⟨l, hl⟩ := h
  obtain ⟨l', e, _, _⟩ := handleTimerq_prefix t.k
  have hrq : (handleTimerq t.k).runq = c :: (r ++ (l ++ l')) := by rw [e, hl]; simp
  have eg : getNextTask (handleTimerq t.k) = { handleTimerq t.k with current := some c, runq := r ++ (l ++ l') } := by
    unfold getNextTask; split
    · rename_i e'; rw [hrq] at e'; cases e'
    · rename_i f' r' e'; rw [hrq] at e'; cases e'; rfl
  have hpost : PostPop (afterUpdate t).mpc := by
    have := afterBody_afterUpdate hbs
    cases hm : (afterUpdate t).mpc <;> rw [hm] at this <;> first | exact False.elim this | trivial
  refine ⟨hpost, ?_, ?_⟩
  · unfold afterUpdate dispatch
    rw [eg]
    show Tok.disp c ∈ (body _ c).trace
    unfold body
    exact mono_bodyOf _ c _ (by simp [tok])
  · unfold afterUpdate dispatch
    rw [eg]
    show ∃ l, (body _ c).k.runq = r ++ l
    unfold body
    rw [runq_bodyOf]
    exact ⟨l ++ l', rfl⟩

theorem pi_of_post {c : Fid} {r : List Fid} {s' : S} (hp : PostPop s'.mpc) (h1 : Tok.disp c ∈ s'.trace) (h2 : ∃ l, s'.k.runq = r ++ l)
    (hbs : s'.bscript = []) : PI c r s' :=
  ⟨Or.inr hp, fun hpre => by cases hm : s'.mpc <;> rw [hm] at hp hpre <;> first | exact False.elim hp | exact False.elim hpre,
   fun _ => ⟨h1, h2⟩, hbs⟩

theorem pi_of_pre {c : Fid} {r : List Fid} {s' : S} (hp : PrePop s'.mpc) (h : ∃ l, s'.k.runq = c :: (r ++ l))
    (hbs : s'.bscript = []) : PI c r s' :=
  ⟨Or.inl hp, fun _ => h, fun hpost => by cases hm : s'.mpc <;> rw [hm] at hp hpost <;> first | exact False.elim hp | exact False.elim hpost,
   hbs⟩

theorem pi_mainAtomic {c : Fid} {r : List Fid} {s : S} (h : PI c r s) : PI c r (mainAtomic s) := by
  unfold mainAtomic
  split
  · rename_i hpc; exact pi_of_pre trivial (h.pre (by rw [hpc]; trivial)) h.bs
  · rename_i c' hpc
    have hp : PrePop s.mpc := by
      rcases h.pc with hp | hp
      · exact hp
      · rw [hpc] at hp; exact False.elim hp
    exact pi_of_pre (by rw [hpc] at hp; exact hp) (h.pre hp) h.bs
  · rename_i c' hpc
    have hp : PrePop s.mpc := by
      rcases h.pc with hp | hp
      · exact hp
      · rw [hpc] at hp; exact False.elim hp
    exact pi_of_pre (by rw [hpc] at hp; exact hp) (h.pre hp) h.bs
  · rename_i hpc; exact pi_of_pre trivial (h.pre (by rw [hpc]; trivial)) h.bs
  · rename_i hpc; have := h.post (by rw [hpc]; trivial); exact pi_of_post trivial this.1 this.2 h.bs
  · rename_i hpc; have := h.post (by rw [hpc]; trivial); exact pi_of_post trivial this.1 this.2 h.bs
  · rename_i hpc
    have := h.post (by rw [hpc]; trivial)
    exact pi_of_post trivial (List.mem_append_left _ this.1) this.2 h.bs
  · exact h

theorem runq_makeRunnable_tail {k : K} {c : Fid} {r l : List Fid} (g : Fid) (h : k.runq = c :: (r ++ l)) :
    ∃ l', (makeRunnable k g).runq = c :: (r ++ l') := by
  unfold makeRunnable
  split
  · exact ⟨l, h⟩
  · exact ⟨l ++ [g], by simp [h]⟩

theorem pi_mainPlain {c : Fid} {r : List Fid} {s : S} (hr : Reach s) (h : PI c r s) : PI c r (mainPlain s) := by
  have h1 := reach_inv1 hr
  have hma := h1.mainAq
  unfold mainPlain
  split
  · rename_i c0 hpc
    have hp : PrePop s.mpc := by
      rcases h.pc with hp | hp
      · exact hp
      · rw [hpc] at hp; exact False.elim hp
    have hrq := h.pre hp
    rw [hpc] at hp
    cases c0 with
    | next t =>
      simp only [startCall]; unfold startNext
      split
      · exact pi_of_pre trivial hrq h.bs
      · exact pi_of_pre trivial hrq h.bs
    | run f => exact False.elim hp
    | kill f => exact False.elim hp
  · rename_i e hpc
    have hrq := h.pre (by rw [hpc]; trivial)
    split
    · -- the fast path is impossible with a non-empty run queue
      exfalso
      have := ((reach_inv2 hr).fast (by rw [hpc]; trivial)).1
      obtain ⟨l, e'⟩ := hrq
      rw [this] at e'; cases e'
    · exact pi_of_pre trivial hrq h.bs
  · rename_i c' hpc
    have hp : PrePop s.mpc := by
      rcases h.pc with hp | hp
      · exact hp
      · rw [hpc] at hp; exact False.elim hp
    have hrq := h.pre hp
    rw [hpc] at hp hma
    have hpass : PreCont c' := hp
    split
    · obtain ⟨l, e⟩ := hrq
      exact pi_of_pre hpass (runq_makeRunnable_tail _ e) h.bs
    · cases c' with
      | run f => exact False.elim hpass
      | kill f => exact False.elim hpass
      | pass1 =>
        simp only [afterDrain]
        split
        · have := pi_afterUpdate (t := s) hrq h.bs; exact pi_of_post this.1 this.2.1 this.2.2 (bs_afterUpdate h.bs)
        · split
          · exact pi_of_pre trivial hrq h.bs
          · exact pi_of_pre trivial hrq h.bs
          · rename_i cc _ _ _
            have := pi_afterUpdate (c := c) (r := r) (t := { s with k := { s.k with priv := upd s.k.priv cc 0 } }) hrq h.bs
            exact pi_of_post this.1 this.2.1 this.2.2 (bs_afterUpdate (by exact h.bs))
          · have := pi_afterUpdate (t := s) hrq h.bs; exact pi_of_post this.1 this.2.1 this.2.2 (bs_afterUpdate h.bs)
      | brun g => exact False.elim hpass
      | bkill g => exact False.elim hpass
      | pass2 c2 =>
        obtain ⟨l, e⟩ := hrq
        have := pi_afterUpdate (c := c) (r := r) (t := { s with k := makeRunnable s.k c2 }) (runq_makeRunnable_tail c2 e) h.bs
        exact pi_of_post this.1 this.2.1 this.2.2 (bs_afterUpdate (by exact h.bs))
  · rename_i c' hpc
    have hp : PrePop s.mpc := by
      rcases h.pc with hp | hp
      · exact hp
      · rw [hpc] at hp; exact False.elim hp
    exact pi_of_pre (by rw [hpc] at hp; exact hp) (h.pre hp) h.bs
  · rename_i hpc
    have hrq := h.pre (by rw [hpc]; trivial)
    have e1 : (resetPriv s).k.runq = s.k.runq := by unfold resetPriv; split <;> rfl
    have := pi_afterUpdate (c := c) (r := r) (t := resetPriv s) (by rw [e1]; exact hrq) (by unfold resetPriv; split <;> exact h.bs)
    exact pi_of_post this.1 this.2.1 this.2.2 (bs_afterUpdate (by unfold resetPriv; split <;> exact h.bs))
  · rename_i hpc
    have hpo := h.post (by rw [hpc]; trivial)
    split
    · exact pi_of_post trivial (List.mem_append_left _ hpo.1) hpo.2 h.bs
    · have hm : PostPop (returned s .waiting).mpc := by
        have := afterBody_returned s .waiting
        cases hmm : (returned s .waiting).mpc <;> rw [hmm] at this <;> first | exact False.elim this | trivial
      exact pi_of_post hm (mono_returned s _ _ hpo.1) (by rw [returned_runq]; exact hpo.2) (by rw [bs_returned]; exact h.bs)
  · rename_i hpc
    have hpo := h.post (by rw [hpc]; trivial)
    exact pi_of_post trivial hpo.1 hpo.2 h.bs
  · rename_i e hpc
    have hpo := h.post (by rw [hpc]; trivial)
    exact pi_of_post trivial hpo.1 hpo.2 h.bs
  · exact h

/-! ### the trace only grows -/

def TraceMono (s s' : S) : Prop := ∀ x ∈ s.trace, x ∈ s'.trace

theorem TraceMono.trans {a b c : S} (h1 : TraceMono a b) (h2 : TraceMono b c) : TraceMono a c := fun x hx => h2 x (h1 x hx)
theorem traceMono_of_eq {s s' : S} (h : s'.trace = s.trace) : TraceMono s s' := fun _ hx => h ▸ hx

theorem mono_dispatch (s : S) : TraceMono s (dispatch s) := by
  unfold dispatch
  split
  · intro x hx
    unfold body
    exact mono_bodyOf _ _ x (List.mem_append_left _ hx)
  · exact traceMono_of_eq rfl

theorem mono_afterUpdate (s : S) : TraceMono s (afterUpdate s) :=
  TraceMono.trans (b := { s with k := getNextTask (handleTimerq s.k) }) (traceMono_of_eq rfl) (mono_dispatch _)

theorem mono_afterDrain (s : S) (c : Cont) : TraceMono s (afterDrain s c) := by
  cases c with
  | run f => exact traceMono_of_eq rfl
  | kill f => exact traceMono_of_eq rfl
  | pass1 =>
    simp only [afterDrain]
    split
    · exact mono_afterUpdate s
    · split
      · exact traceMono_of_eq rfl
      · exact traceMono_of_eq rfl
      · rename_i cc _ _ _
        exact TraceMono.trans (b := { s with k := { s.k with priv := upd s.k.priv cc 0 } }) (traceMono_of_eq rfl) (mono_afterUpdate _)
      · exact mono_afterUpdate s
  | pass2 c => exact TraceMono.trans (b := { s with k := makeRunnable s.k c }) (traceMono_of_eq rfl) (mono_afterUpdate _)
  | brun g =>
    exact TraceMono.trans (b := brunPre s g) (fun x hx => List.mem_append_left _ hx) (mono_bodyStep _)
  | bkill g =>
    exact TraceMono.trans (b := bkillPre s g) (fun x hx => List.mem_append_left _ hx) (mono_bodyStep _)

theorem mono_mainAtomic (s : S) : TraceMono s (mainAtomic s) := by
  unfold mainAtomic
  split
  · exact fun x hx => List.mem_append_left _ hx
  · exact traceMono_of_eq rfl
  · exact traceMono_of_eq rfl
  · exact traceMono_of_eq rfl
  · exact traceMono_of_eq rfl
  · exact traceMono_of_eq rfl
  · exact fun x hx => List.mem_append_left _ hx
  · exact traceMono_of_eq rfl

theorem mono_mainPlain (s : S) : TraceMono s (mainPlain s) := by
  unfold mainPlain
  split
  · rename_i c _
    cases c with
    | next t => simp only [startCall]; unfold startNext; split <;> exact fun x hx => List.mem_append_left _ hx
    | run f => exact traceMono_of_eq rfl
    | kill f => exact traceMono_of_eq rfl
  · split
    · exact mono_dispatch s
    · exact traceMono_of_eq rfl
  · split
    · exact traceMono_of_eq rfl
    · exact mono_afterDrain s _
  · exact traceMono_of_eq rfl
  · refine TraceMono.trans (b := resetPriv s) ?_ (mono_afterUpdate _)
    unfold resetPriv; split <;> exact traceMono_of_eq rfl
  · split
    · exact fun x hx => List.mem_append_left _ hx
    · exact mono_returned s _
  · exact traceMono_of_eq rfl
  · exact traceMono_of_eq rfl
  · exact traceMono_of_eq rfl

/-- what an uninterrupted pass that started with run queue `c :: r` ends with -/
def PassDone (c : Fid) (r : List Fid) (s0 s' : S) : Prop :=
  s'.hung = true ∨ (Reach s' ∧ s'.mpc = .idle ∧ Tok.disp c ∈ s'.trace ∧ TraceMono s0 s' ∧ (∃ l, s'.k.runq = r ++ l) ∧ s'.bscript = [])

theorem pi_runMain {c : Fid} {r : List Fid} (cc : MCall) (s0 : S) :
    ∀ (fuel k : Nat) (s : S), Reach s → PI c r s → s.mpc ≠ .idle → TraceMono s0 s → PassDone c r s0 (runMain noGap cc fuel k s)
  | 0, _, _, _, _, _, _ => Or.inl rfl
  | fuel + 1, k, s, hr, hpi, hni, hm => by
    unfold runMain
    simp only [noGap]
    have hr1 : Reach (mainPlain s) := Reach.mainPlain hr
    have hpi1 : PI c r (mainPlain s) := pi_mainPlain hr hpi
    have hm1 : TraceMono s0 (mainPlain s) := hm.trans (mono_mainPlain s)
    split
    · rename_i hidle
      have hpo := hpi1.post (by rw [hidle]; trivial)
      refine Or.inr ⟨Reach.tok _ (Reach.nops k hr1), hidle, List.mem_append_left _ hpo.1,
        fun x hx => List.mem_append_left _ (hm1 x hx), hpo.2, hpi1.bs⟩
    · rename_i hnidle
      have hni1 : (mainPlain s).mpc ≠ .idle := fun e => hnidle e
      exact pi_runMain cc s0 fuel (k + 1) _ (Reach.mainAtomic hr1) (pi_mainAtomic hpi1) (mainAtomic_not_idle _ hni1)
        (hm1.trans (mono_mainAtomic _))

/-- **one uninterrupted pass dispatches the head of the run queue; the rest of the queue moves up, new entries join at
    the tail** -/
theorem pass_dispatches_head {s : S} (hr : Reach s) (c : Fid) (r : List Fid) (hrq : s.k.runq = c :: r) (hbs : s.bscript = [])
    (t : BitVec 32) :
    PassDone c r s (callMain noGap (.next t) s) := by
  unfold callMain
  split
  · rename_i hidle
    refine pi_runMain (.next t) s _ _ _ (Reach.enterMain _ hr hidle) ?_ (by intro e; cases e) (traceMono_of_eq rfl)
    exact pi_of_pre trivial ⟨[], by simp [enterMain, hrq]⟩ hbs
  · exact Or.inl rfl

/-- uninterrupted passes at the times `ts`, without any other stimulus -/
def passes (ts : List (BitVec 32)) (s : S) : S := ts.foldl (fun s t => callMain noGap (.next t) s) s

theorem hung_callMain_noGap (c : MCall) (s : S) (h : s.hung = true) : (callMain noGap c s).hung = true := by
  unfold callMain
  split
  · exact hung_runMain_noGap c _ _ _ h
  · rfl

theorem hung_passes : ∀ (ts : List (BitVec 32)) (s : S), s.hung = true → (passes ts s).hung = true
  | [], _, h => h
  | t :: ts, s, h => hung_passes ts _ (hung_callMain_noGap _ s h)

theorem reach_passes : ∀ (ts : List (BitVec 32)) (s : S), Reach s → Reach (passes ts s)
  | [], _, h => h
  | t :: ts, s, h => reach_passes ts _ (reach_callMain gapOk_noGap _ h)

theorem mono_runMain_noGap (c : MCall) : ∀ (fuel k : Nat) (s : S), TraceMono s (runMain noGap c fuel k s)
  | 0, _, _ => fun x hx => List.mem_append_left _ hx
  | fuel + 1, k, s => by
    unfold runMain
    simp only [noGap]
    split
    · exact fun x hx => List.mem_append_left _ (mono_mainPlain s x hx)
    · exact ((mono_mainPlain s).trans (mono_mainAtomic _)).trans (mono_runMain_noGap c fuel (k + 1) _)

theorem mono_callMain_noGap (c : MCall) (s : S) : TraceMono s (callMain noGap c s) := by
  unfold callMain
  split
  · exact TraceMono.trans (b := enterMain c s) (traceMono_of_eq rfl) (mono_runMain_noGap c _ _ _)
  · exact fun x hx => List.mem_append_left _ hx

theorem mono_passes : ∀ (ts : List (BitVec 32)) (s : S), TraceMono s (passes ts s)
  | [], _ => fun _ hx => hx
  | t :: ts, s => (mono_callMain_noGap _ s).trans (mono_passes ts _)

/-- **FIFO dispatch**: a fibre at position `i` of the run queue is dispatched by one of the next `i + 1` uninterrupted
    passes of `fibre_scheduler_next` (whatever their times), without any further stimulus — provided the runner is not cut
    for lack of fuel -/
theorem fifo_dispatch : ∀ (i : Nat) (s : S) (f : Fid) (ts : List (BitVec 32)), Reach s → s.k.runq[i]? = some f →
    s.bscript = [] → ts.length = i + 1 → (passes ts s).hung = false → Tok.disp f ∈ (passes ts s).trace
  | 0, s, f, ts, hr, hf, hbs, hlen, hh => by
    match ts, hlen with
    | [t], _ =>
      cases hrq : s.k.runq with
      | nil => rw [hrq] at hf; cases hf
      | cons c r =>
        rw [hrq] at hf
        simp only [List.getElem?_cons_zero, Option.some.injEq] at hf
        subst hf
        rcases pass_dispatches_head hr c r hrq hbs t with e | ⟨_, _, hd, _, _⟩
        · have : (passes [t] s).hung = true := e
          rw [hh] at this; cases this
        · exact hd
  | i + 1, s, f, ts, hr, hf, hbs, hlen, hh => by
    match ts, hlen with
    | t :: ts', hlen' =>
      cases hrq : s.k.runq with
      | nil => rw [hrq] at hf; cases hf
      | cons c r =>
        rw [hrq] at hf
        have hf' : r[i]? = some f := by simpa using hf
        rcases pass_dispatches_head hr c r hrq hbs t with e | ⟨hr1, _, _, _, ⟨l, hl⟩, hbs1⟩
        · have : (passes (t :: ts') s).hung = true := hung_passes ts' _ e
          rw [hh] at this; cases this
        · have hi : i < r.length := (List.getElem?_eq_some_iff.mp hf').1
          have hf1 : (callMain noGap (.next t) s).k.runq[i]? = some f := by
            rw [hl, List.getElem?_append_left hi]; exact hf'
          exact fifo_dispatch i _ f ts' hr1 hf1 hbs1 (by simpa using hlen') hh

end Librfn.Isr.L

import Librfn.Lemmas.Bintree
/-! The continuation formulation of Morris traversal for `in_order_iterator` and `pre_order_iterator`
(DESIGN §6 C11): by structural induction on the tree, for every shape. -/
namespace Librfn.Lemmas.Bintree
open Librfn.Model.Bintree Librfn.Spec Librfn.Spec.Tree

/-- put `xs` in front of the nodes a run yields -/
def prepend (xs : List Nat) : Except Err (List Nat × Heap) → Except Err (List Nat × Heap)
  | .error e => .error e
  | .ok (out, h) => .ok (xs ++ out, h)

theorem prepend_nil (r : Except Err (List Nat × Heap)) : prepend [] r = r := by
  cases r <;> simp [prepend]

theorem prepend_append (xs ys : List Nat) (r : Except Err (List Nat × Heap)) :
    prepend xs (prepend ys r) = prepend (xs ++ ys) r := by
  cases r <;> simp [prepend]

/-- The caller's loop `for (n = first call; n; n = bintree_next(it))` around `in_order_iterator`, seen
    from inside a call: the current call still has `f` iterations of its `while (curr)` loop, every later
    call gets the full `g`; at most `calls` calls are made.  With `tg` the caller sets the tag of each
    node it is handed (the tagging pass of `bintree_iterate_post_order`).  Yields the nodes returned and
    the final heap. -/
def inRun (tg : Bool) (g : Nat) : Nat → Nat → Heap → Ptr → Except Err (List Nat × Heap)
  | 0, _, _, _ => .error .fuel
  | calls + 1, f, h, c =>
    match inOrderLoop g f h c with
    | .error e => .error e
    | .ok (none, h1, _) => .ok ([], h1)
    | .ok (some x, h1, c1) => prepend [x] (inRun tg g calls g (tagIf tg h1 x) c1)

/-- **Morris in-order traversal, continuation form.**  From `curr = root t` in a heap where `t` is intact
    except that its rightmost node's `right` is `k` (NULL or an ancestor outside `t`), the run yields
    `inorder t`, arrives at `curr = k`, and leaves the heap as it found it (apart from the tags the caller
    sets): whatever happens from `k` on happens in the original heap. -/
theorem morris_in (tg : Bool) (g : Nat) (τ : Nat → Bool) : ∀ (t : Tree) (k : Ptr) (h : Heap) (m f : Nat),
    size t + 1 ≤ g → (t ≠ .nil → size t + 1 ≤ f) → Distinct t → (∀ a, k = some a → a ∉ inorder t) →
    ReprK τ h t k → (∀ i, i ∈ inorder t → τ i = false) →
    inRun tg g (size t + m) f h (rootK t k) =
      prepend (inorder t) (inRun tg g m (if t = .nil then f else g) (tagAll tg h (inorder t)) k)
  | .nil, k, h, m, f, _, _, _, _, _, _ => by
    simp [rootK, inorder, size, tagAll_nil, prepend_nil]
  | .node .nil x r, k, h, m, f, hg, hf, nd, hk, ⟨h1, _, h4⟩, hτ => by
    -- no left sub-tree: x is returned at once, the next call starts at the right sub-tree
    have d := distinct_node nd
    have hf' := hf (by simp)
    have hτx : τ x = false := hτ x (by simp [inorder])
    obtain ⟨f', rfl⟩ : ∃ f', f = f' + 1 := ⟨f - 1, by omega⟩
    have hcalls : size (.node .nil x r) + m = (size r + m) + 1 := by simp only [size]; omega
    have hstep : inOrderLoop g (f' + 1) h (some x) = .ok (some x, h, rootK r k) := by
      simp [inOrderLoop, h1, root, hτx]
    have hrep : ReprK τ (tagIf tg h x) r k := by
      apply reprK_congr r k _ h4
      intro i hi
      have : i ≠ x := by intro e; subst e; exact d.x_not_right hi
      rw [tagIf_eq, tagAll_other _ _ _ _ (by simpa using this)]
      exact ⟨rfl, rfl⟩
    have ih := morris_in tg g τ r k (tagIf tg h x) m g (by simp only [size] at hg; omega)
      (fun _ => by simp only [size] at hg; omega) d.right
      (fun a ha hm => hk a ha (by simp [inorder, hm])) hrep
      (fun i hi => hτ i (by simp [inorder, hi]))
    rw [hcalls, rootK]
    simp only [inRun, hstep]
    rw [ih, prepend_append, tagIf_eq, tagAll_append]
    simp [inorder]
  | .node (.node ll y lr) x r, k, h, m, f, hg, hf, nd, hk, ⟨h1, h3, h4⟩, hτ => by
    have d := distinct_node nd
    have hf' := hf (by simp)
    have hτx : τ x = false := hτ x (by simp [inorder])
    obtain ⟨f', rfl⟩ : ∃ f', f = f' + 1 := ⟨f - 1, by omega⟩
    have hszl : size (.node ll y lr) ≤ g := by simp only [size] at hg ⊢; omega
    -- first arrival at x: the predecessor search ends at the rightmost node of the left sub-tree, whose
    -- `right` is NULL; the thread is created and the walk continues at the left child in the same call
    obtain ⟨hfp, np, hnp, hnpr⟩ := findPred_spec ll y lr h x none g hszl d.x_not_left (Or.inl rfl) h3
    have hpx : rightmost (.node ll y lr) ≠ x := by
      intro e; apply d.x_not_left; rw [← e]; exact rightmost_mem ll y lr
    have hstep1 : inOrderLoop g (f' + 1) h (some x) =
        inOrderLoop g f' (setRight h (rightmost (.node ll y lr)) (some x)) (some y) := by
      rw [inOrderLoop]
      simp only [h1, root, hτx, hfp, hnp, hnpr]
    have hrep1 : ReprK τ (setRight h (rightmost (.node ll y lr)) (some x)) (.node ll y lr) (some x) :=
      reprK_setRight ll y lr h none (some x) d.left h3
    have ih1 := morris_in tg g τ (.node ll y lr) (some x) _ (1 + size r + m) f'
      (by simp only [size] at hg ⊢; omega) (fun _ => by simp only [size] at hf' ⊢; omega) d.left
      (fun a ha hm => by cases ha; exact d.x_not_left hm) hrep1
      (fun i hi => hτ i (mem_left hi))
    -- second arrival at x, in a fresh call: the search ends at the same node, whose `right` is now x;
    -- the thread is removed, x is returned, and the heap is the original one (plus the caller's tags)
    have hrep2 := reprK_tagAll tg (inorder (.node ll y lr)) (.node ll y lr) (some x) hrep1
    obtain ⟨hfp2, np2, hnp2, hnpr2⟩ := findPred_spec ll y lr _ x (some x) g hszl d.x_not_left (Or.inr rfl) hrep2
    have hx2 : tagAll tg (setRight h (rightmost (.node ll y lr)) (some x)) (inorder (.node ll y lr)) x =
        some ⟨some y, false, rootK r k⟩ := by
      rw [tagAll_other _ _ _ _ d.x_not_left]
      simp only [setRight, upd, Ne.symm hpx, if_false]
      simpa [root, hτx] using h1
    have hback : setRight (tagAll tg (setRight h (rightmost (.node ll y lr)) (some x)) (inorder (.node ll y lr)))
        (rightmost (.node ll y lr)) none = tagAll tg h (inorder (.node ll y lr)) := by
      funext i
      by_cases hi : i = rightmost (.node ll y lr)
      · subst hi
        cases np with
        | mk npl npt npr =>
          simp only at hnpr; subst hnpr
          by_cases c : tg = true ∧ rightmost (.node ll y lr) ∈ inorder (.node ll y lr)
          · simp [setRight, upd, tagAll, c, hnp]
          · simp [setRight, upd, tagAll, c, hnp]
      · by_cases c : tg = true ∧ i ∈ inorder (.node ll y lr)
        · simp [setRight, upd, tagAll, c, hi]
        · simp [setRight, upd, tagAll, c, hi]
    have hx3 : tagAll tg h (inorder (.node ll y lr)) x = some ⟨some y, false, rootK r k⟩ := by
      rw [← hback]; simp only [setRight, upd, Ne.symm hpx, if_false]; exact hx2
    have hstep2 : inOrderLoop g g (tagAll tg (setRight h (rightmost (.node ll y lr)) (some x)) (inorder (.node ll y lr))) (some x) =
        .ok (some x, tagAll tg h (inorder (.node ll y lr)), rootK r k) := by
      obtain ⟨g', rfl⟩ : ∃ g', g = g' + 1 := ⟨g - 1, by omega⟩
      rw [inOrderLoop]
      simp only [hx2, hfp2, hnp2, hnpr2, hback, hx3]
    -- the right sub-tree, in the heap with the left sub-tree and x tagged
    have hrep3 : ReprK τ (tagIf tg (tagAll tg h (inorder (.node ll y lr))) x) r k := by
      apply reprK_congr r k _ h4
      intro i hi
      have h1' : i ≠ x := by intro e; subst e; exact d.x_not_right hi
      have h2' : i ∉ inorder (.node ll y lr) := fun hm => d.disjoint i hm hi
      rw [tagIf_eq, tagAll_other _ _ _ _ (by simpa using h1'), tagAll_other _ _ _ _ h2']
      exact ⟨rfl, rfl⟩
    have ih2 := morris_in tg g τ r k _ m g (by simp only [size] at hg; omega)
      (fun _ => by simp only [size] at hg; omega) d.right
      (fun a ha hm => hk a ha (by simp [inorder, hm])) hrep3
      (fun i hi => hτ i (by simp [inorder, hi]))
    have hcalls : size (.node (.node ll y lr) x r) + m = size (.node ll y lr) + (1 + size r + m) := by
      simp only [size]; omega
    have hcalls2 : 1 + size r + m = (size r + m) + 1 := by omega
    rw [hcalls, rootK]
    -- unfold the current call by one (silent) iteration
    have hrun1 : inRun tg g (size (.node ll y lr) + (1 + size r + m)) (f' + 1) h (some x) =
        inRun tg g (size (.node ll y lr) + (1 + size r + m)) f'
          (setRight h (rightmost (.node ll y lr)) (some x)) (some y) := by
      obtain ⟨c', hc'⟩ : ∃ c', size (.node ll y lr) + (1 + size r + m) = c' + 1 := ⟨size (.node ll y lr) + (size r + m), by omega⟩
      rw [hc']
      simp only [inRun, hstep1]
    rw [hrun1]
    have ih1' := ih1
    simp only [rootK] at ih1'
    rw [ih1']
    simp only [reduceCtorEq, if_false]
    rw [hcalls2]
    simp only [inRun, hstep2]
    rw [ih2, prepend_append, prepend_append, tagIf_eq, tagAll_append, tagAll_append]
    simp [inorder]

/-! ### from the run seen from inside a call to the transcribed caller loops -/

/-- a node handed back by `in_order_iterator` is live in the heap handed back with it -/
theorem inOrderLoop_ret_alive (g : Nat) : ∀ (f : Nat) (h : Heap) (c : Ptr) (x : Nat) (h1 : Heap) (c1 : Ptr),
    inOrderLoop g f h c = .ok (some x, h1, c1) → ∃ n, h1 x = some n
  | 0, _, _, _, _, _, e => by simp [inOrderLoop] at e
  | f + 1, h, none, _, _, _, e => by simp [inOrderLoop] at e
  | f + 1, h, some c, x, h1, c1, e => by
    rw [inOrderLoop] at e
    split at e
    · simp at e
    · rename_i n hn
      split at e
      · simp only [Except.ok.injEq, Prod.mk.injEq, Option.some.injEq] at e
        obtain ⟨rfl, rfl, _⟩ := e
        exact ⟨n, hn⟩
      · simp at e
      · split at e
        · simp at e
        · split at e
          · simp at e
          · split at e
            · exact inOrderLoop_ret_alive g f _ _ _ _ _ e
            · split at e
              · simp at e
              · rename_i n1 hn1
                simp only [Except.ok.injEq, Prod.mk.injEq, Option.some.injEq] at e
                obtain ⟨rfl, rfl, _⟩ := e
                exact ⟨n1, hn1⟩

/-- the model's caller loop `drain` around an in-order iterator yields what `inRun` yields -/
theorem drain_of_inRun (isList : Nat → Bool) (g : Nat) : ∀ (n f : Nat) (h : Heap) (c : Ptr) (it : Iter)
    (out : List Nat) (h' : Heap), it.next = .inOrder → inRun false g n f h c = .ok (out, h') →
    ∃ out' it', (match inOrderLoop g f h c with
        | .error e => (.error e : Except Err (List (Nat × Ptr) × Heap × Iter))
        | .ok (r, h1, c1) => drain isList g n h1 { it with curr := c1 } r) = .ok (out', h', it') ∧
      out'.map Prod.fst = out
  | 0, _, _, _, _, _, _, _, e => by simp [inRun] at e
  | n + 1, f, h, c, it, out, h', hit, e => by
    obtain ⟨itn, itc, itp⟩ := it
    simp only at hit; subst hit
    rw [inRun] at e
    cases hloop : inOrderLoop g f h c with
    | error err => rw [hloop] at e; simp at e
    | ok res =>
      obtain ⟨r, h1, c1⟩ := res
      rw [hloop] at e
      cases r with
      | none =>
        simp only [Except.ok.injEq, Prod.mk.injEq] at e
        obtain ⟨rfl, rfl⟩ := e
        exact ⟨[], ⟨.inOrder, c1, itp⟩, by simp [drain], rfl⟩
      | some x =>
        simp only at e
        rw [show tagIf false h1 x = h1 from rfl] at e
        cases hrest : inRun false g n g h1 c1 with
        | error err => rw [hrest] at e; simp [prepend] at e
        | ok res2 =>
          obtain ⟨out2, h2⟩ := res2
          rw [hrest] at e
          simp only [prepend, Except.ok.injEq, Prod.mk.injEq] at e
          obtain ⟨rfl, rfl⟩ := e
          obtain ⟨out2', it', hd, hm⟩ := drain_of_inRun isList g n g h1 c1 ⟨.inOrder, c1, itp⟩ out2 h2 rfl hrest
          refine ⟨(x, itp) :: out2', it', ?_, by simp [hm]⟩
          simp only [drain, next, inOrderIterator]
          cases hl2 : inOrderLoop g g h1 c1 with
          | error err => rw [hl2] at hd; simp at hd
          | ok res3 =>
            obtain ⟨r3, h3, c3⟩ := res3
            rw [hl2] at hd
            simp only at hd ⊢
            rw [hd]

/-- the tagging loop of `bintree_iterate_post_order` ends in the heap `inRun true` ends in -/
theorem tagLoop_of_inRun (isList : Nat → Bool) (g : Nat) : ∀ (n f : Nat) (h : Heap) (c : Ptr) (it : Iter)
    (out : List Nat) (h' : Heap), it.next = .inOrder → inRun true g n f h c = .ok (out, h') →
    ∃ it', (match inOrderLoop g f h c with
        | .error e => (.error e : Except Err (Heap × Iter))
        | .ok (r, h1, c1) => tagLoop isList g n h1 { it with curr := c1 } r) = .ok (h', it') ∧
      it'.next = .inOrder ∧ it'.parent = it.parent
  | 0, _, _, _, _, _, _, _, e => by simp [inRun] at e
  | n + 1, f, h, c, it, out, h', hit, e => by
    obtain ⟨itn, itc, itp⟩ := it
    simp only at hit; subst hit
    rw [inRun] at e
    cases hloop : inOrderLoop g f h c with
    | error err => rw [hloop] at e; simp at e
    | ok res =>
      obtain ⟨r, h1, c1⟩ := res
      rw [hloop] at e
      cases r with
      | none =>
        simp only [Except.ok.injEq, Prod.mk.injEq] at e
        obtain ⟨rfl, rfl⟩ := e
        exact ⟨⟨.inOrder, c1, itp⟩, by simp [tagLoop], rfl, rfl⟩
      | some x =>
        simp only at e
        obtain ⟨nx, hnx⟩ := inOrderLoop_ret_alive g f h c x h1 c1 hloop
        rw [show tagIf true h1 x = setTag h1 x true from rfl] at e
        cases hrest : inRun true g n g (setTag h1 x true) c1 with
        | error err => rw [hrest] at e; simp [prepend] at e
        | ok res2 =>
          obtain ⟨out2, h2⟩ := res2
          rw [hrest] at e
          simp only [prepend, Except.ok.injEq, Prod.mk.injEq] at e
          obtain ⟨rfl, rfl⟩ := e
          obtain ⟨it', hd, hn', hp'⟩ := tagLoop_of_inRun isList g n g (setTag h1 x true) c1 ⟨.inOrder, c1, itp⟩ out2 h2 rfl hrest
          refine ⟨it', ?_, hn', hp'⟩
          simp only [tagLoop, hnx, next, inOrderIterator]
          cases hl2 : inOrderLoop g g (setTag h1 x true) c1 with
          | error err => rw [hl2] at hd; simp at hd
          | ok res3 =>
            obtain ⟨r3, h3, c3⟩ := res3
            rw [hl2] at hd
            simp only at hd ⊢
            rw [hd]

/-! ### pre-order -/

/-- the caller's loop around `pre_order_iterator`, seen from inside a call (cf. `inRun`) -/
def preRun (g : Nat) : Nat → Nat → Heap → Ptr → Except Err (List Nat × Heap)
  | 0, _, _, _ => .error .fuel
  | calls + 1, f, h, c =>
    match preOrderLoop g f h c with
    | .error e => .error e
    | .ok (none, h1, _) => .ok ([], h1)
    | .ok (some x, h1, c1) => prepend [x] (preRun g calls g h1 c1)

theorem preRun_succ (g calls f : Nat) (h : Heap) (c : Ptr) :
    preRun g (calls + 1) f h c =
      match preOrderLoop g f h c with
      | .error e => .error e
      | .ok (none, h1, _) => .ok ([], h1)
      | .ok (some x, h1, c1) => prepend [x] (preRun g calls g h1 c1) := by
  rw [preRun]

/-- **Morris pre-order traversal, continuation form.**  As `morris_in`, for `pre_order_iterator`: nodes are
    returned when their thread is created, and the silent iterations (thread removal) happen at the end of
    a sub-tree, inside the call that goes on to `k`; that call arrives at `k` with `f'` iterations left,
    at most `size t` fewer than a full `g`. -/
theorem morris_pre (g : Nat) (τ : Nat → Bool) : ∀ (t : Tree) (k : Ptr) (h : Heap) (m f : Nat),
    size t + 2 ≤ g → (t ≠ .nil → 1 ≤ f) → Distinct t → (∀ a, k = some a → a ∉ inorder t) →
    ReprK τ h t k → (∀ i, i ∈ inorder t → τ i = false) →
    ∃ f', (t = .nil → f' = f) ∧ (t ≠ .nil → g ≤ f' + size t) ∧
      preRun g (size t + (m + 1)) f h (rootK t k) = prepend (preorder t) (preRun g (m + 1) f' h k)
  | .nil, k, h, m, f, _, _, _, _, _, _ => by
    refine ⟨f, fun _ => rfl, fun c => absurd rfl c, ?_⟩
    simp [rootK, preorder, size, prepend_nil]
  | .node .nil x r, k, h, m, f, hg, hf, nd, hk, ⟨h1, _, h4⟩, hτ => by
    -- no left sub-tree: x is returned at once, the next call starts at the right sub-tree
    have d := distinct_node nd
    have hf' := hf (by simp)
    have hτx : τ x = false := hτ x mem_root
    obtain ⟨f0, rfl⟩ : ∃ f0, f = f0 + 1 := ⟨f - 1, by omega⟩
    have hcalls : size (.node .nil x r) + (m + 1) = (size r + (m + 1)) + 1 := by simp only [size]; omega
    have hstep : preOrderLoop g (f0 + 1) h (some x) = .ok (some x, h, rootK r k) := by
      simp [preOrderLoop, h1, root, hτx]
    obtain ⟨f', hf1, hf2, ih⟩ := morris_pre g τ r k h m g (by simp only [size] at hg; omega)
      (fun _ => by omega) d.right
      (fun a ha hm => hk a ha (mem_right hm)) h4
      (fun i hi => hτ i (mem_right hi))
    refine ⟨f', fun c => by simp at c, fun _ => ?_, ?_⟩
    · by_cases hr : r = .nil
      · subst hr; have := hf1 rfl; simp only [size]; omega
      · have := hf2 hr; simp only [size]; omega
    · rw [hcalls, rootK, preRun_succ, hstep]
      simp only
      rw [ih, prepend_append]
      simp [preorder]
  | .node (.node ll y lr) x r, k, h, m, f, hg, hf, nd, hk, ⟨h1, h3, h4⟩, hτ => by
    have d := distinct_node nd
    have hf' := hf (by simp)
    have hτx : τ x = false := hτ x mem_root
    obtain ⟨f0, rfl⟩ : ∃ f0, f = f0 + 1 := ⟨f - 1, by omega⟩
    have hszl : size (.node ll y lr) ≤ g := by simp only [size] at hg ⊢; omega
    -- first arrival at x: the thread is created and x is returned; the next call starts at the left child
    obtain ⟨hfp, np, hnp, hnpr⟩ := findPred_spec ll y lr h x none g hszl d.x_not_left (Or.inl rfl) h3
    have hpx : rightmost (.node ll y lr) ≠ x := by
      intro e; apply d.x_not_left; rw [← e]; exact rightmost_mem ll y lr
    have hstep1 : preOrderLoop g (f0 + 1) h (some x) =
        .ok (some x, setRight h (rightmost (.node ll y lr)) (some x), some y) := by
      rw [preOrderLoop]
      simp only [h1, root, hτx, hfp, hnp, hnpr]
      simp
    have hrep1 : ReprK τ (setRight h (rightmost (.node ll y lr)) (some x)) (.node ll y lr) (some x) :=
      reprK_setRight ll y lr h none (some x) d.left h3
    obtain ⟨f1, _, hf1, ih1⟩ := morris_pre g τ (.node ll y lr) (some x) _ (size r + m) g
      (by simp only [size] at hg ⊢; omega) (fun _ => by omega) d.left
      (fun a ha hm => by cases ha; exact d.x_not_left hm) hrep1
      (fun i hi => hτ i (mem_left hi))
    have hf1' := hf1 (by simp)
    -- second arrival at x, inside the call that finished the left sub-tree: the thread is removed
    -- silently and the walk goes on to the right sub-tree in the original heap
    obtain ⟨hfp2, np2, hnp2, hnpr2⟩ := findPred_spec ll y lr _ x (some x) g hszl d.x_not_left (Or.inr rfl) hrep1
    have hx2 : setRight h (rightmost (.node ll y lr)) (some x) x = some ⟨some y, false, rootK r k⟩ := by
      simp only [setRight, upd, Ne.symm hpx, if_false]
      simpa [root, hτx] using h1
    have hback : setRight (setRight h (rightmost (.node ll y lr)) (some x)) (rightmost (.node ll y lr)) none = h := by
      funext i
      by_cases hi : i = rightmost (.node ll y lr)
      · subst hi
        cases np with
        | mk npl npt npr =>
          simp only at hnpr; subst hnpr
          simp [setRight, upd, hnp]
      · simp [setRight, upd, hi]
    have hx3 : h x = some ⟨some y, false, rootK r k⟩ := by simpa [root, hτx] using h1
    obtain ⟨f2, rfl⟩ : ∃ f2, f1 = f2 + 1 := ⟨f1 - 1, by simp only [size] at hg hf1'; omega⟩
    have hstep2 : preOrderLoop g (f2 + 1) (setRight h (rightmost (.node ll y lr)) (some x)) (some x) =
        preOrderLoop g f2 h (rootK r k) := by
      rw [preOrderLoop]
      simp only [hx2, hfp2, hnp2, hnpr2, if_true, hback, hx3]
    obtain ⟨f', hf3, hf4, ih2⟩ := morris_pre g τ r k h m f2 (by simp only [size] at hg; omega)
      (fun _ => by simp only [size] at hg hf1'; omega) d.right
      (fun a ha hm => hk a ha (mem_right hm)) h4
      (fun i hi => hτ i (mem_right hi))
    refine ⟨f', fun c => by simp at c, fun _ => ?_, ?_⟩
    · by_cases hr : r = .nil
      · subst hr; have := hf3 rfl; simp only [size] at hf1' ⊢; omega
      · have := hf4 hr; simp only [size] at hf1' ⊢; omega
    · have hcalls : size (.node (.node ll y lr) x r) + (m + 1) = (size (.node ll y lr) + (size r + m + 1)) + 1 := by
        simp only [size]; omega
      rw [hcalls, rootK, preRun_succ, hstep1]
      simp only
      have ih1' := ih1
      simp only [rootK] at ih1'
      rw [ih1']
      have hrun2 : preRun g (size r + m + 1) (f2 + 1) (setRight h (rightmost (.node ll y lr)) (some x)) (some x) =
          preRun g (size r + m + 1) f2 h (rootK r k) := by
        rw [preRun_succ, preRun_succ, hstep2]
      rw [hrun2, show size r + m + 1 = size r + (m + 1) from by omega, ih2, prepend_append, prepend_append]
      simp [preorder]

/-- the model's caller loop `drain` around a pre-order iterator yields what `preRun` yields -/
theorem drain_of_preRun (isList : Nat → Bool) (g : Nat) : ∀ (n f : Nat) (h : Heap) (c : Ptr) (it : Iter)
    (out : List Nat) (h' : Heap), it.next = .preOrder → preRun g n f h c = .ok (out, h') →
    ∃ out' it', (match preOrderLoop g f h c with
        | .error e => (.error e : Except Err (List (Nat × Ptr) × Heap × Iter))
        | .ok (r, h1, c1) => drain isList g n h1 { it with curr := c1 } r) = .ok (out', h', it') ∧
      out'.map Prod.fst = out
  | 0, _, _, _, _, _, _, _, e => by simp [preRun] at e
  | n + 1, f, h, c, it, out, h', hit, e => by
    obtain ⟨itn, itc, itp⟩ := it
    simp only at hit; subst hit
    rw [preRun] at e
    cases hloop : preOrderLoop g f h c with
    | error err => rw [hloop] at e; simp at e
    | ok res =>
      obtain ⟨r, h1, c1⟩ := res
      rw [hloop] at e
      cases r with
      | none =>
        simp only [Except.ok.injEq, Prod.mk.injEq] at e
        obtain ⟨rfl, rfl⟩ := e
        exact ⟨[], ⟨.preOrder, c1, itp⟩, by simp [drain], rfl⟩
      | some x =>
        simp only at e
        cases hrest : preRun g n g h1 c1 with
        | error err => rw [hrest] at e; simp [prepend] at e
        | ok res2 =>
          obtain ⟨out2, h2⟩ := res2
          rw [hrest] at e
          simp only [prepend, Except.ok.injEq, Prod.mk.injEq] at e
          obtain ⟨rfl, rfl⟩ := e
          obtain ⟨out2', it', hd, hm⟩ := drain_of_preRun isList g n g h1 c1 ⟨.preOrder, c1, itp⟩ out2 h2 rfl hrest
          refine ⟨(x, itp) :: out2', it', ?_, by simp [hm]⟩
          simp only [drain, next, preOrderIterator]
          cases hl2 : preOrderLoop g g h1 c1 with
          | error err => rw [hl2] at hd; simp at hd
          | ok res3 =>
            obtain ⟨r3, h3, c3⟩ := res3
            rw [hl2] at hd
            simp only at hd ⊢
            rw [hd]

end Librfn.Lemmas.Bintree

import Librfn.Lemmas.IsrEvents
/-! C06 `no_lost_event_wakeup`: whenever the oldest unreceived event of the handler's queue is committed, a wake-up of
the handler is on its way — its sender is still between the event's send and the completion of its `fibre_run_atomic`,
or the handler is pending (atomic queue / run queue / held by the drain loop), or it is running before its final
emptiness check.  The message is published BEFORE the wake-up is posted. -/
namespace Librfn.Isr.L
open Librfn.Model.MessageqConc Librfn.Model.FibreIsr Librfn.C04
open Librfn.Sched (Fid Ret)
open Librfn.Spec.IsrSpec
open Librfn.Model.Fibre (upd makeRunnable handleTimerq getNextTask fibreTimeout)

/-! ### `Pending` under the main context's atomic operations (any fibre) -/

theorem pend2_of_noHeld {s : S} {f : Fid} (hn : NoHeld s) (hp : Pending s f) : InAq s.aq f ∨ f ∈ s.k.runq := by
  rcases hp with h | h | h
  · exact Or.inl h
  · exact Or.inr h
  · exact absurd h (hn f)

theorem pending_of_pend2 {s s' : S} {f : Fid} (haq : s'.aq = s.aq) (hr : f ∈ s.k.runq → f ∈ s'.k.runq)
    (hp : InAq s.aq f ∨ f ∈ s.k.runq) : Pending s' f := by
  rcases hp with h | h
  · exact Or.inl (haq ▸ h)
  · exact Or.inr (Or.inl (hr h))

theorem inAq_of_recv_busy {q : St} {f : Fid} (p : Bool) (h : q.recv ≠ .idle) (hp : ∀ b, q.recv ≠ .polled b) (hf : InAq q f) :
    InAq (step q (.recv p)) f := by
  obtain ⟨k, k1, k2, k3, k4⟩ := hf
  refine ⟨k, ?_, ?_, ?_, ?_⟩
  · rw [recv_received_busy q p h hp]; exact k1
  · rw [recv_claimed]; exact k2
  · rw [recv_sent]; exact k3
  · rw [recv_written]; exact k4

theorem pending_mainAtomic {s : S} (h1 : Inv1 s) {f : Fid} (hp : Pending s f) : Pending (mainAtomic s) f := by
  have hm := h1.mainAq
  unfold mainAtomic
  split
  · rename_i hpc
    exact pending_of_pend2 (s := s) rfl id (pend2_of_noHeld (noHeld_of_mpc (by rw [hpc]; intro c; simp)) hp)
  · rename_i c hpc
    rw [hpc] at hm
    rcases hp with ⟨k, k1, k2, k3, k4⟩ | h | ⟨c', _, _, hc', _, _⟩
    · rcases receive_cases s.aq hm with ⟨_, e2⟩ | ⟨e1, e2⟩
      · refine Or.inl ⟨k, ?_, ?_, ?_, ?_⟩
        · show (step s.aq _).received ≤ k; rw [e2]; exact k1
        · show k < (step s.aq _).claimed; rw [recv_claimed]; exact k2
        · show (step s.aq _).sent k = true; rw [recv_sent]; exact k3
        · show (step s.aq _).written k = f; rw [recv_written]; exact k4
      · by_cases hk : k = s.aq.received
        · subst hk
          refine Or.inr (Or.inr ⟨c, _, _, rfl, e1, ?_⟩)
          show (step s.aq _).written _ = f; rw [recv_written]; exact k4
        · refine Or.inl ⟨k, ?_, ?_, ?_, ?_⟩
          · show (step s.aq _).received ≤ k; rw [e2]; omega
          · show k < (step s.aq _).claimed; rw [recv_claimed]; exact k2
          · show (step s.aq _).sent k = true; rw [recv_sent]; exact k3
          · show (step s.aq _).written k = f; rw [recv_written]; exact k4
    · exact Or.inr (Or.inl h)
    · rw [hpc] at hc'; cases hc'
  · rename_i c hpc
    rw [hpc] at hm
    obtain ⟨sl, k0, v, hr⟩ := hm
    rcases hp with h | h | ⟨c', _, _, hc', _, _⟩
    · exact Or.inl (inAq_of_recv_busy false (by rw [hr]; simp) (by rw [hr]; simp) h)
    · exact Or.inr (Or.inl h)
    · rw [hpc] at hc'; cases hc'
  · rename_i hpc
    exact pending_of_pend2 (s := s) rfl id (pend2_of_noHeld (noHeld_of_mpc (by rw [hpc]; intro c; simp)) hp)
  · rename_i hpc
    exact pending_of_pend2 (s := s) rfl id (pend2_of_noHeld (noHeld_of_mpc (by rw [hpc]; intro c; simp)) hp)
  · rename_i hpc
    exact pending_of_pend2 (s := s) rfl id (pend2_of_noHeld (noHeld_of_mpc (by rw [hpc]; intro c; simp)) hp)
  · rename_i hpc
    exact pending_of_pend2 (s := s) rfl id (pend2_of_noHeld (noHeld_of_mpc (by rw [hpc]; intro c; simp)) hp)
  · exact hp

/-- `make_runnable(*f)` in the drain loop: the held entry's fibre joins the run queue -/
theorem pending_recvd_hold {s : S} (h1 : Inv1 s) (c : Cont) (sl : BitVec 8) (k : Nat) (hr : s.aq.recv = .hold sl k)
    {f : Fid} (hp : Pending s f) :
    Pending { s with aq := mqStep s.aq (.recv false), k := makeRunnable s.k (s.aq.payload sl.toNat), mpc := .rel c } f := by
  rcases hp with h | h | ⟨c', sl', k', _, hr', hw⟩
  · exact Or.inl (inAq_of_recv_busy false (by rw [hr]; simp) (by rw [hr]; simp) h)
  · exact Or.inr (Or.inl ((mem_runq_makeRunnable _ f).mpr (Or.inl h)))
  · rw [hr] at hr'
    injection hr' with e1 e2
    subst e1; subst e2
    refine Or.inr (Or.inl ((mem_runq_makeRunnable _ f).mpr (Or.inr ?_)))
    rw [hold_payload h1.aqInv hr]; exact hw.symm

/-- the oldest unreceived event exists and has been sent -/
def HeadCommitted (q : St) : Prop := q.received < q.claimed ∧ q.sent q.received = true

/-- between the `messageq_send` of an event and the return of the `fibre_run_atomic` that follows it -/
def WakeInFlight : IPc → Prop
  | .evSent _ | .raClaim _ (some _) | .raClaimed _ (some _) | .raNull _ (some _) | .raTaint _ (some _)
  | .raTainted _ (some _) | .raSend _ (some _) => True
  | _ => False

/-- the handler fibre is inside its body and has not yet seen its queue empty -/
def HRunning (s : S) : Prop :=
  s.mpc = .hRecv ∨ (s.mpc = .hRecvd ∧ ∃ sl k, s.eq.recv = .hold sl k) ∨ s.mpc = .hRel ∨ s.mpc = .hReld

def WakeComing (s : S) : Prop := (∃ i, i < 3 ∧ WakeInFlight (s.ipc i)) ∨ Pending s HANDLER ∨ HRunning s

/-- **no_lost_event_wakeup** as a state invariant (as long as no `fibre_eventq_send` has returned false and the
    handler has not been killed — the two ways in which the API itself gives up the wake-up) -/
def Inv5 (s : S) : Prop := s.evWakeFailed = false → s.handlerKilled = false → HeadCommitted s.eq → WakeComing s

/-- a step of sender `i` that neither completes nor abandons a wake-up in flight keeps the wake-up coming -/
theorem wakeComing_sender {s s' : S} (h1 : Inv1 s) (i : Nat) (hi : i < 3)
    (hk : s'.k = s.k) (hm : s'.mpc = s.mpc) (hr : s'.eq.recv = s.eq.recv)
    (haq : s'.aq = s.aq ∨ ∃ v, s'.aq = step s.aq (.sender i false v))
    (hipc : ∀ j, j ≠ i → s'.ipc j = s.ipc j)
    (hown : WakeInFlight (s.ipc i) → WakeInFlight (s'.ipc i) ∨ Pending s' HANDLER)
    (hw : WakeComing s) : WakeComing s' := by
  have hpend : Pending s HANDLER → Pending s' HANDLER := by
    intro hp
    rcases haq with e | ⟨v, e⟩
    · exact pending_same e hk hm hp
    · exact pending_sender_aq h1 i false v e hk hm hp
  rcases hw with ⟨j, hj, hf⟩ | hp | hrun
  · by_cases hji : j = i
    · subst hji
      rcases hown hf with h | h
      · exact Or.inl ⟨j, hj, h⟩
      · exact Or.inr (Or.inl h)
    · exact Or.inl ⟨j, hj, by rw [hipc j hji]; exact hf⟩
  · exact Or.inr (Or.inl (hpend hp))
  · refine Or.inr (Or.inr ?_)
    unfold HRunning at *
    rw [hm, hr]; exact hrun

/-- a sender's step inside `messageq_claim`, or its plain write, commits nothing -/
theorem headCommitted_back {q : St} (i : Nat) (sp : Bool) (v : Nat)
    (hnw : ∀ sl k, q.senders[i]? ≠ some (.wrote sl k)) (hinv : MqInv q)
    (h : HeadCommitted (step q (.sender i sp v))) : HeadCommitted q := by
  obtain ⟨_, h2⟩ := h
  rw [sender_received] at h2
  rcases sender_sent_new q i sp v _ h2 with e | ⟨sl, e⟩
  · exact ⟨hinv.sentlt _ e, e⟩
  · exact absurd e (hnw sl _)

theorem inClaim_not_wrote {pc : SPc} (h : InClaim pc) (sl : BitVec 8) (k : Nat) : pc ≠ .wrote sl k := by
  intro e; subst e; exact h

theorem inv5_senderAtomic {s : S} (h1 : Inv1 s) (h5 : Inv5 s) (i : Nat) (hi : i < 3) : Inv5 (senderAtomic i s) := by
  have hs := h1.senders i hi
  have ht := h1.target i
  unfold senderAtomic
  split
  · -- evClaim: inside messageq_claim of the event queue
    rename_i st hpc
    rw [hpc] at hs
    obtain ⟨⟨pc, hq, hc⟩, _⟩ := hs
    have hback : HeadCommitted (step s.eq (.sender i false st)) → HeadCommitted s.eq :=
      headCommitted_back i false st (fun sl k e => inClaim_not_wrote hc sl k (Option.some.inj (hq.symm.trans e))) h1.eqInv
    split
    · intro hf hk hh
      refine wakeComing_sender h1 i hi rfl rfl (sender_recv _ _ _ _) (Or.inl rfl) (fun j hj => upd_other _ _ _ _ hj) ?_ (h5 hf hk (hback hh))
      rw [hpc]; exact fun h => False.elim h
    · intro hf hk hh
      refine wakeComing_sender h1 i hi rfl rfl (sender_recv _ _ _ _) (Or.inl rfl) (fun j hj => upd_other _ _ _ _ hj) ?_ (h5 hf hk (hback hh))
      rw [hpc]; exact fun h => False.elim h
    · intro hf hk hh
      refine wakeComing_sender h1 i hi rfl rfl (sender_recv _ _ _ _) (Or.inl rfl) (fun j _ => rfl) ?_ (h5 hf hk (hback hh))
      rw [hpc]; exact fun h => False.elim h
  · -- evTaint
    rename_i st hpc
    intro hf hk hh
    refine wakeComing_sender h1 i hi rfl rfl rfl (Or.inl rfl) (fun j hj => upd_other _ _ _ _ hj) ?_ (h5 hf hk hh)
    rw [hpc]; exact fun h => False.elim h
  · -- evSend: the event is published; its wake-up is now in flight
    rename_i st hpc
    intro _ _ _
    exact Or.inl ⟨i, hi, by show WakeInFlight (upd s.ipc i (.evSent st) i); rw [upd_same]; trivial⟩
  · -- raClaim: inside messageq_claim of the atomic run queue
    rename_i f ev hpc
    split
    · intro hf hk hh
      refine wakeComing_sender h1 i hi rfl rfl rfl (Or.inr ⟨f, rfl⟩) (fun j hj => upd_other _ _ _ _ hj) ?_ (h5 hf hk hh)
      rw [hpc]; intro h
      left; show WakeInFlight (upd s.ipc i (.raClaimed f ev) i); rw [upd_same]; cases ev <;> exact h
    · intro hf hk hh
      refine wakeComing_sender h1 i hi rfl rfl rfl (Or.inr ⟨f, rfl⟩) (fun j hj => upd_other _ _ _ _ hj) ?_ (h5 hf hk hh)
      rw [hpc]; intro h
      left; show WakeInFlight (upd s.ipc i (.raNull f ev) i); rw [upd_same]; cases ev <;> exact h
    · intro hf hk hh
      refine wakeComing_sender h1 i hi rfl rfl rfl (Or.inr ⟨f, rfl⟩) (fun j _ => rfl) ?_ (h5 hf hk hh)
      exact fun h => Or.inl h
  · -- raTaint
    rename_i f ev hpc
    intro hf hk hh
    refine wakeComing_sender h1 i hi rfl rfl rfl (Or.inl rfl) (fun j hj => upd_other _ _ _ _ hj) ?_ (h5 hf hk hh)
    rw [hpc]; intro h
    left; show WakeInFlight (upd s.ipc i (.raTainted f ev) i); rw [upd_same]; cases ev <;> exact h
  · -- raSend: the request is published: if it is an event's wake-up, the handler is now pending
    rename_i f ev hpc
    rw [hpc] at hs ht
    obtain ⟨_, sl, k, hq, hw⟩ := hs
    intro hf hk hh
    refine wakeComing_sender h1 i hi rfl rfl rfl (Or.inr ⟨f, rfl⟩) (fun j hj => upd_other _ _ _ _ hj) ?_ (h5 hf hk hh)
    rw [hpc]; intro hfl
    right
    cases ev with
    | none => exact False.elim hfl
    | some st =>
      have hfh : f = HANDLER := ht
      subst hfh
      have hheld : Held s.aq i sl k := (h1.aqInv.senders i _ hq).1
      have hst := step_wrote s.aq i false HANDLER sl k hq
      refine Or.inl ⟨k, ?_, ?_, hst.2.1, ?_⟩
      · show (step s.aq _).received ≤ k; rw [sender_received]; exact hheld.1
      · show k < (step s.aq _).claimed; rw [hst.2.2.2]; exact hheld.2.1
      · show (step s.aq _).written k = HANDLER; rw [hst.2.2.1]; exact hw
  · exact h5

theorem inv5_senderPlain {s : S} (h1 : Inv1 s) (h5 : Inv5 s) (i : Nat) (hi : i < 3) : Inv5 (senderPlain i s) := by
  have hs := h1.senders i hi
  unfold senderPlain
  split
  · -- evClaimed: *p = stamp
    rename_i st hpc
    rw [hpc] at hs
    obtain ⟨⟨sl, k, hq⟩, _⟩ := hs
    have hback : HeadCommitted (step s.eq (.sender i false st)) → HeadCommitted s.eq :=
      headCommitted_back i false st (fun sl' k' e => by rw [hq] at e; cases e) h1.eqInv
    intro hf hk hh
    refine wakeComing_sender h1 i hi rfl rfl (sender_recv _ _ _ _) (Or.inl rfl) (fun j hj => upd_other _ _ _ _ hj) ?_ (h5 hf hk (hback hh))
    rw [hpc]; exact fun h => False.elim h
  · rename_i st hpc
    intro hf hk hh
    refine wakeComing_sender h1 i hi rfl rfl rfl (Or.inl rfl) (fun j hj => upd_other _ _ _ _ hj) ?_ (h5 hf hk hh)
    rw [hpc]; exact fun h => False.elim h
  · rename_i st hpc
    intro hf hk hh
    refine wakeComing_sender h1 i hi rfl rfl rfl (Or.inl rfl) (fun j hj => upd_other _ _ _ _ hj) ?_ (h5 hf hk hh)
    rw [hpc]; exact fun h => False.elim h
  · -- evSent: enter fibre_run_atomic(&evtq->fibre)
    rename_i st hpc
    intro hf hk hh
    refine wakeComing_sender h1 i hi rfl rfl rfl (Or.inl rfl) (fun j hj => upd_other _ _ _ _ hj) ?_ (h5 hf hk hh)
    intro _
    left; show WakeInFlight (upd s.ipc i (.raClaim HANDLER (some st)) i); rw [upd_same]; trivial
  · -- raClaimed: *queued_fibre = f
    rename_i f ev hpc
    intro hf hk hh
    refine wakeComing_sender h1 i hi rfl rfl rfl (Or.inr ⟨f, rfl⟩) (fun j hj => upd_other _ _ _ _ hj) ?_ (h5 hf hk hh)
    rw [hpc]; intro h
    left; show WakeInFlight (upd s.ipc i (.raSend f ev) i); rw [upd_same]; cases ev <;> exact h
  · rename_i f ev hpc
    intro hf hk hh
    refine wakeComing_sender h1 i hi rfl rfl rfl (Or.inl rfl) (fun j hj => upd_other _ _ _ _ hj) ?_ (h5 hf hk hh)
    rw [hpc]; intro h
    left; show WakeInFlight (upd s.ipc i (.raTaint f ev) i); rw [upd_same]; cases ev <;> exact h
  · -- raTainted: fibre_run_atomic returns false
    rename_i f ev hpc
    cases ev with
    | some st => intro hf _ _; cases hf
    | none =>
      intro hf hk hh
      refine wakeComing_sender h1 i hi rfl rfl rfl (Or.inl rfl) (fun j hj => upd_other _ _ _ _ hj) ?_ (h5 hf hk hh)
      rw [hpc]; exact fun h => False.elim h
  · rename_i f ev hpc
    cases ev with
    | some st =>
      intro hf hk hh
      refine wakeComing_sender h1 i hi rfl rfl rfl (Or.inl rfl) (fun j hj => upd_other _ _ _ _ hj) ?_ (h5 hf hk hh)
      rw [hpc]; exact fun h => False.elim h
    | none =>
      intro hf hk hh
      refine wakeComing_sender h1 i hi rfl rfl rfl (Or.inl rfl) (fun j hj => upd_other _ _ _ _ hj) ?_ (h5 hf hk hh)
      rw [hpc]; exact fun h => False.elim h
  · exact h5
/-- what the scheduler's plain code does as far as the handler's wake-up is concerned -/
structure HFrame (s s' : S) : Prop where
  aq : s'.aq = s.aq
  eq : s'.eq = s.eq
  ipc : s'.ipc = s.ipc
  wf : s'.evWakeFailed = s.evWakeFailed
  killed : s'.handlerKilled = false → s.handlerKilled = false
  handler : s.kind HANDLER = .handler → HANDLER ∈ s.k.runq →
    HANDLER ∈ s'.k.runq ∨ s'.mpc = .hRecv ∨ s'.handlerKilled = true

structure HSame (s0 s : S) : Prop where
  aq : s.aq = s0.aq
  eq : s.eq = s0.eq
  ipc : s.ipc = s0.ipc
  wf : s.evWakeFailed = s0.evWakeFailed
  killed : s.handlerKilled = s0.handlerKilled
  kind : s.kind = s0.kind
  runq : HANDLER ∈ s0.k.runq → HANDLER ∈ s.k.runq

theorem HSame.refl (s : S) : HSame s s := ⟨rfl, rfl, rfl, rfl, rfl, rfl, id⟩

theorem hframe_of_same {s0 s : S} (h : HSame s0 s) : HFrame s0 s :=
  ⟨h.aq, h.eq, h.ipc, h.wf, fun e => h.killed ▸ e, fun _ hr => Or.inl (h.runq hr)⟩

theorem hframe_finishPass {s0 s : S} (h : HSame s0 s) (v : BitVec 32) : HFrame s0 (finishPass s v) :=
  hframe_of_same ⟨h.aq, h.eq, h.ipc, h.wf, h.killed, h.kind, h.runq⟩

theorem hframe_returned {s0 s : S} (h : HSame s0 s) (r : Ret) : HFrame s0 (returned s r) := by
  unfold returned
  split
  · exact hframe_finishPass (by exact ⟨h.aq, h.eq, h.ipc, h.wf, h.killed, h.kind, h.runq⟩) _
  · exact hframe_of_same ⟨h.aq, h.eq, h.ipc, h.wf, h.killed, h.kind, h.runq⟩

theorem hsame_returned (s : S) (r : Ret) : HSame s (returned s r) := by
  unfold returned
  split
  · exact ⟨rfl, rfl, rfl, rfl, rfl, rfl, id⟩
  · exact ⟨rfl, rfl, rfl, rfl, rfl, rfl, id⟩

theorem hsame_bodyStep (s : S) : HSame s (bodyStep s) := by
  unfold bodyStep
  split
  · exact hsame_returned _ _
  · exact ⟨rfl, rfl, rfl, rfl, rfl, rfl, id⟩
  · exact ⟨rfl, rfl, rfl, rfl, rfl, rfl, id⟩

theorem HSame.trans {a b c : S} (h1 : HSame a b) (h2 : HSame b c) : HSame a c :=
  ⟨h2.aq.trans h1.aq, h2.eq.trans h1.eq, h2.ipc.trans h1.ipc, h2.wf.trans h1.wf, h2.killed.trans h1.killed,
   h2.kind.trans h1.kind, fun hr => h2.runq (h1.runq hr)⟩

theorem hframe_bodyOf {s0 s : S} (h : HSame s0 s) (c : Fid) : HFrame s0 (bodyOf s c) := by
  unfold bodyOf
  split
  · exact hframe_of_same ⟨h.aq, h.eq, h.ipc, h.wf, h.killed, h.kind, h.runq⟩
  · split
    · exact hframe_returned (by exact ⟨h.aq, h.eq, h.ipc, h.wf, h.killed, h.kind, h.runq⟩) _
    · exact hframe_returned h _
  · split
    · refine hframe_returned (by refine ⟨h.aq, h.eq, h.ipc, h.wf, h.killed, h.kind, fun hr => ?_⟩; simp only [tok_k]; rw [runq_fibreTimeout, runq_fibreTimeout]; exact h.runq hr) _
    · refine hframe_returned (by refine ⟨h.aq, h.eq, h.ipc, h.wf, h.killed, h.kind, fun hr => ?_⟩; simp only [tok_k]; rw [runq_fibreTimeout]; exact h.runq hr) _
  · exact hframe_returned h _
  · exact hframe_of_same (h.trans (hsame_bodyStep s))

theorem bodyOf_handler {s : S} {c : Fid} (h : s.kind c = .handler) : (bodyOf s c).mpc = .hRecv := by
  unfold bodyOf; rw [h]

theorem hframe_body {s0 s : S} (h : HSame s0 s) (c : Fid) : HFrame s0 (body s c) :=
  hframe_bodyOf (by exact ⟨h.aq, h.eq, h.ipc, h.wf, h.killed, h.kind, h.runq⟩) c

theorem hframe_dispatch {s0 s : S} (h : HSame s0 s) : HFrame s0 (dispatch s) := by
  unfold dispatch
  split
  · exact hframe_body h _
  · exact hframe_of_same ⟨h.aq, h.eq, h.ipc, h.wf, h.killed, h.kind, h.runq⟩

theorem hframe_afterUpdate {s0 s : S} (h : HSame s0 s) (hq : QOk s.k) : HFrame s0 (afterUpdate s) := by
  unfold afterUpdate dispatch
  have hmem : ∀ g, g ∈ s.k.runq → g ∈ (handleTimerq s.k).runq := fun g hg => mem_runq_handleTimerq hq hg
  cases hrq : (handleTimerq s.k).runq with
  | nil =>
    have e : getNextTask (handleTimerq s.k) = { handleTimerq s.k with current := none } := by
      unfold getNextTask; split
      · rfl
      · rename_i e'; rw [hrq] at e'; cases e'
    rw [e]
    refine ⟨h.aq, h.eq, h.ipc, h.wf, fun e => h.killed ▸ e, fun _ hr => ?_⟩
    have := hmem _ (h.runq hr); rw [hrq] at this; cases this
  | cons c r =>
    have e : getNextTask (handleTimerq s.k) = { handleTimerq s.k with current := some c, runq := r } := by
      unfold getNextTask; split
      · rename_i e'; rw [hrq] at e'; cases e'
      · rename_i f' r' e'; rw [hrq] at e'; cases e'; rfl
    rw [e]
    have hb := hframe_body (HSame.refl { s with k := { handleTimerq s.k with current := some c, runq := r } }) c
    refine ⟨hb.aq.trans h.aq, hb.eq.trans h.eq, hb.ipc.trans h.ipc, hb.wf.trans h.wf,
            fun e => h.killed ▸ hb.killed e, fun hkind hr => ?_⟩
    by_cases hc : c = HANDLER
    · -- the handler is dispatched
      subst hc
      right; left
      unfold body
      exact bodyOf_handler (by simp only [tok_kind, emit_kind]; rw [h.kind]; exact hkind)
    · have hm := hmem _ (h.runq hr)
      rw [hrq] at hm
      rcases List.mem_cons.mp hm with e' | e'
      · exact absurd e'.symm hc
      · exact hb.handler (by show s.kind HANDLER = _; rw [h.kind]; exact hkind) e'

theorem hframe_afterDrain {s0 s : S} (h : HSame s0 s) (hq : QOk s.k) (c : Cont) : HFrame s0 (afterDrain s c) := by
  cases c with
  | run f =>
    exact hframe_of_same ⟨h.aq, h.eq, h.ipc, h.wf, h.killed, h.kind, fun hr => (mem_runq_makeRunnable f _).mpr (Or.inl (h.runq hr))⟩
  | kill f =>
    refine ⟨h.aq, h.eq, h.ipc, h.wf, fun e => ?_, fun _ hr => ?_⟩
    · have : (s.handlerKilled || decide (f = HANDLER)) = false := e
      rw [Bool.or_eq_false_iff] at this
      rw [← h.killed]; exact this.1
    · by_cases hf : f = HANDLER
      · right; right
        show (s.handlerKilled || decide (f = HANDLER)) = true
        simp [hf]
      · left
        exact (List.mem_erase_of_ne (Ne.symm hf)).mpr (h.runq hr)
  | pass1 =>
    simp only [afterDrain]
    split
    · exact hframe_afterUpdate h hq
    · split
      · exact hframe_of_same ⟨h.aq, h.eq, h.ipc, h.wf, h.killed, h.kind, h.runq⟩
      · exact hframe_of_same ⟨h.aq, h.eq, h.ipc, h.wf, h.killed, h.kind, h.runq⟩
      · exact hframe_afterUpdate (by exact ⟨h.aq, h.eq, h.ipc, h.wf, h.killed, h.kind, h.runq⟩) (qok_lists hq rfl rfl)
      · exact hframe_afterUpdate h hq
  | pass2 c =>
    exact hframe_afterUpdate (by exact ⟨h.aq, h.eq, h.ipc, h.wf, h.killed, h.kind, fun hr => (mem_runq_makeRunnable c _).mpr (Or.inl (h.runq hr))⟩)
      (qok_makeRunnable hq c)
  | brun f =>
    refine hframe_of_same (HSame.trans (b := brunPre s f) ?_ (hsame_bodyStep _))
    exact ⟨h.aq, h.eq, h.ipc, h.wf, h.killed, h.kind, fun hr => (mem_runq_makeRunnable f _).mpr (Or.inl (h.runq hr))⟩
  | bkill f =>
    show HFrame s0 (bodyStep (bkillPre s f))
    have hb := hsame_bodyStep (bkillPre s f)
    have hk : (bkillPre s f).handlerKilled = (s.handlerKilled || decide (f = HANDLER)) := rfl
    have hrq : (bkillPre s f).k.runq = s.k.runq.erase f := rfl
    refine ⟨hb.aq.trans h.aq, hb.eq.trans h.eq, hb.ipc.trans h.ipc, hb.wf.trans h.wf, fun e => ?_, fun _ hr => ?_⟩
    · rw [hb.killed, hk, Bool.or_eq_false_iff] at e
      rw [← h.killed]; exact e.1
    · by_cases hf : f = HANDLER
      · right; right
        rw [hb.killed, hk]
        simp [hf]
      · left
        apply hb.runq
        rw [hrq]
        exact (List.mem_erase_of_ne (Ne.symm hf)).mpr (h.runq hr)

theorem not_running_of_mpc {s : S} (h1 : s.mpc ≠ .hRecv) (h2 : s.mpc ≠ .hRecvd) (h3 : s.mpc ≠ .hRel) (h4 : s.mpc ≠ .hReld) :
    ¬ HRunning s := by
  rintro (h | ⟨h, _⟩ | h | h)
  · exact h1 h
  · exact h2 h
  · exact h3 h
  · exact h4 h

/-- the plain code of the scheduler, started where the handler is not running and the drain loop holds nothing -/
theorem wakeComing_hframe {s s' : S} (hf : HFrame s s') (hkind : s.kind HANDLER = .handler) (hn : NoHeld s)
    (hnr : ¬ HRunning s) (hk' : s'.handlerKilled = false) (hw : WakeComing s) : WakeComing s' := by
  rcases hw with ⟨j, hj, hfl⟩ | hp | hr
  · exact Or.inl ⟨j, hj, by rw [hf.ipc]; exact hfl⟩
  · rcases pend2_of_noHeld hn hp with h | h
    · exact Or.inr (Or.inl (Or.inl (hf.aq ▸ h)))
    · rcases hf.handler hkind h with h' | h' | h'
      · exact Or.inr (Or.inl (Or.inr (Or.inl h')))
      · exact Or.inr (Or.inr (Or.inl h'))
      · rw [hk'] at h'; cases h'
  · exact absurd hr hnr

theorem inv5_hframe {s s' : S} (h1 : Inv1 s) (h5 : Inv5 s) (hf : HFrame s s') (hn : NoHeld s) (hnr : ¬ HRunning s) : Inv5 s' := by
  intro hwf hk hh
  exact wakeComing_hframe hf h1.handlerKind hn hnr hk (h5 (hf.wf ▸ hwf) (hf.killed hk) (hf.eq ▸ hh))

theorem headCommitted_recv_busy {q : St} (p : Bool) (h : q.recv ≠ .idle) (hp : ∀ b, q.recv ≠ .polled b) :
    HeadCommitted (step q (.recv p)) ↔ HeadCommitted q := by
  unfold HeadCommitted
  rw [recv_received_busy q p h hp, recv_claimed, recv_sent]

theorem inv5_mainAtomic {s : S} (h1 : Inv1 s) (h5 : Inv5 s) : Inv5 (mainAtomic s) := by
  have hm := h1.mainEq
  have hpend : ∀ {f}, Pending s f → Pending (mainAtomic s) f := fun hp => pending_mainAtomic h1 hp
  -- the cases in which the handler is not running: the wake-up in flight / the pending handler stay
  have gen : ∀ (s' : S), s' = mainAtomic s → s'.ipc = s.ipc → s'.eq = s.eq → s'.evWakeFailed = s.evWakeFailed →
      s'.handlerKilled = s.handlerKilled → ¬ HRunning s → Inv5 s' := by
    intro s' e hi he hw hk hnr hwf hkl hh
    rcases h5 (hw ▸ hwf) (hk ▸ hkl) (he ▸ hh) with ⟨j, hj, hfl⟩ | hp | hr
    · exact Or.inl ⟨j, hj, by rw [hi]; exact hfl⟩
    · exact Or.inr (Or.inl (e ▸ hpend hp))
    · exact absurd hr hnr
  unfold mainAtomic at gen ⊢
  split
  · rename_i hpc
    exact gen _ (by rw [hpc]) rfl rfl rfl rfl (not_running_of_mpc (by rw [hpc]; simp) (by rw [hpc]; simp) (by rw [hpc]; simp) (by rw [hpc]; simp))
  · rename_i c hpc
    exact gen _ (by rw [hpc]) rfl rfl rfl rfl (not_running_of_mpc (by rw [hpc]; simp) (by rw [hpc]; simp) (by rw [hpc]; simp) (by rw [hpc]; simp))
  · rename_i c hpc
    exact gen _ (by rw [hpc]) rfl rfl rfl rfl (not_running_of_mpc (by rw [hpc]; simp) (by rw [hpc]; simp) (by rw [hpc]; simp) (by rw [hpc]; simp))
  · rename_i hpc
    exact gen _ (by rw [hpc]) rfl rfl rfl rfl (not_running_of_mpc (by rw [hpc]; simp) (by rw [hpc]; simp) (by rw [hpc]; simp) (by rw [hpc]; simp))
  · -- hRecv: the handler's fetch_and
    rename_i hpc
    rw [hpc] at hm
    intro _ _ hh
    rcases receive_cases s.eq hm with ⟨e1, e2⟩ | ⟨e1, _⟩
    · -- NULL: by C04 the head was not committed
      exfalso
      have hfail : (stepReceive s.eq).recv = .idle := by
        have : step s.eq (.recv false) = stepReceive s.eq := by
          have hm' : s.eq.recv = .idle := hm
          simp [step, hm', stepRecv]
        rw [← this]; exact e1
      have hns : ¬ (s.eq.received < s.eq.claimed ∧ s.eq.sent s.eq.received = true) :=
        fun hc => (receive_succeeds_iff s.eq h1.eqInv).mpr hc hfail
      apply hns
      obtain ⟨a, b⟩ := hh
      have a' : (step s.eq (.recv false)).received < (step s.eq (.recv false)).claimed := a
      have b' : (step s.eq (.recv false)).sent (step s.eq (.recv false)).received = true := b
      rw [e2, recv_claimed] at a'
      rw [e2, recv_sent] at b'
      exact ⟨a', b'⟩
    · exact Or.inr (Or.inr (Or.inr (Or.inl ⟨rfl, _, _, e1⟩)))
  · -- hRel
    intro _ _ _
    exact Or.inr (Or.inr (Or.inr (Or.inr (Or.inr rfl))))
  · rename_i hpc
    exact gen _ (by rw [hpc]) rfl rfl rfl rfl (not_running_of_mpc (by rw [hpc]; simp) (by rw [hpc]; simp) (by rw [hpc]; simp) (by rw [hpc]; simp))
  · exact h5

theorem inv5_mainPlain {s : S} (h1 : Inv1 s) (h2 : Inv2 s) (h5 : Inv5 s) : Inv5 (mainPlain s) := by
  have hma := h1.mainAq
  have hme := h1.mainEq
  unfold mainPlain
  split
  · -- start c
    rename_i c hpc
    have hn : NoHeld s := noHeld_of_mpc (by rw [hpc]; intro c; simp)
    have hnr : ¬ HRunning s := not_running_of_mpc (by rw [hpc]; simp) (by rw [hpc]; simp) (by rw [hpc]; simp) (by rw [hpc]; simp)
    cases c with
    | next t =>
      simp only [startCall]
      unfold startNext
      split
      · exact inv5_hframe h1 h5 (hframe_of_same ⟨rfl, rfl, rfl, rfl, rfl, rfl, id⟩) hn hnr
      · exact inv5_hframe h1 h5 (hframe_of_same ⟨rfl, rfl, rfl, rfl, rfl, rfl, id⟩) hn hnr
    | run f => exact inv5_hframe h1 h5 (hframe_of_same ⟨rfl, rfl, rfl, rfl, rfl, rfl, id⟩) hn hnr
    | kill f => exact inv5_hframe h1 h5 (hframe_of_same ⟨rfl, rfl, rfl, rfl, rfl, rfl, id⟩) hn hnr
  · -- fastDone
    rename_i e hpc
    have hn : NoHeld s := noHeld_of_mpc (by rw [hpc]; intro c; simp)
    have hnr : ¬ HRunning s := not_running_of_mpc (by rw [hpc]; simp) (by rw [hpc]; simp) (by rw [hpc]; simp) (by rw [hpc]; simp)
    split
    · exact inv5_hframe h1 h5 (hframe_dispatch (HSame.refl s)) hn hnr
    · exact inv5_hframe h1 h5 (hframe_of_same ⟨rfl, rfl, rfl, rfl, rfl, rfl, id⟩) hn hnr
  · -- recvd c
    rename_i c hpc
    rw [hpc] at hma
    have hnr : ¬ HRunning s := not_running_of_mpc (by rw [hpc]; simp) (by rw [hpc]; simp) (by rw [hpc]; simp) (by rw [hpc]; simp)
    split
    · rename_i sl k hr
      intro hwf hk hh
      rcases h5 hwf hk hh with ⟨j, hj, hfl⟩ | hp | hrun
      · exact Or.inl ⟨j, hj, hfl⟩
      · exact Or.inr (Or.inl (pending_recvd_hold h1 c sl k hr hp))
      · exact absurd hrun hnr
    · rename_i hnh
      rcases hma with hma | ⟨sl, k, hr⟩
      · exact inv5_hframe h1 h5 (hframe_afterDrain (HSame.refl s) h2.q c) (noHeld_of_idle hma) hnr
      · exact absurd hr (hnh sl k)
  · rename_i c hpc
    exact inv5_hframe h1 h5 (hframe_of_same ⟨rfl, rfl, rfl, rfl, rfl, rfl, id⟩) (noHeld_of_mpc (by rw [hpc]; intro c; simp))
      (not_running_of_mpc (by rw [hpc]; simp) (by rw [hpc]; simp) (by rw [hpc]; simp) (by rw [hpc]; simp))
  · -- taintFd
    rename_i hpc
    refine inv5_hframe h1 h5 ?_ (noHeld_of_mpc (by rw [hpc]; intro c; simp))
      (not_running_of_mpc (by rw [hpc]; simp) (by rw [hpc]; simp) (by rw [hpc]; simp) (by rw [hpc]; simp))
    unfold resetPriv
    split
    · exact hframe_afterUpdate (by exact ⟨rfl, rfl, rfl, rfl, rfl, rfl, id⟩) (qok_lists h2.q rfl rfl)
    · exact hframe_afterUpdate (HSame.refl s) h2.q
  · -- hRecvd
    rename_i hpc
    rw [hpc] at hme
    split
    · intro _ _ _
      exact Or.inr (Or.inr (Or.inr (Or.inr (Or.inl rfl))))
    · rename_i hnh
      rcases hme with hme | ⟨sl, k, hr⟩
      · refine inv5_hframe h1 h5 (hframe_returned (HSame.refl s) _) (noHeld_of_mpc (by rw [hpc]; intro c; simp)) ?_
        rintro (h | ⟨_, sl, k, hr⟩ | h | h)
        · rw [hpc] at h; cases h
        · rw [hme] at hr; cases hr
        · rw [hpc] at h; cases h
        · rw [hpc] at h; cases h
      · exact absurd hr (hnh sl k)
  · -- hReld
    intro _ _ _
    exact Or.inr (Or.inr (Or.inl rfl))
  · rename_i e hpc
    exact inv5_hframe h1 h5 (hframe_finishPass (HSame.refl s) _) (noHeld_of_mpc (by rw [hpc]; intro c; simp))
      (not_running_of_mpc (by rw [hpc]; simp) (by rw [hpc]; simp) (by rw [hpc]; simp) (by rw [hpc]; simp))
  · exact h5

theorem inv5_same {s s' : S} (h5 : Inv5 s) (haq : s'.aq = s.aq) (heq : s'.eq = s.eq) (hk : s'.k = s.k) (hm : s'.mpc = s.mpc)
    (hi : s'.ipc = s.ipc) (hw : s'.evWakeFailed = s.evWakeFailed) (hkl : s'.handlerKilled = s.handlerKilled) : Inv5 s' := by
  intro a b c
  rcases h5 (hw ▸ a) (hkl ▸ b) (heq ▸ c) with ⟨j, hj, hfl⟩ | hp | hr
  · exact Or.inl ⟨j, hj, by rw [hi]; exact hfl⟩
  · exact Or.inr (Or.inl (pending_same haq hk hm hp))
  · refine Or.inr (Or.inr ?_)
    unfold HRunning at *
    rw [hm, heq]; exact hr

/-- **`Inv5` holds in every reachable state** -/
theorem reach_inv5 {s : S} (hr : Reach s) : Inv5 s := by
  induction hr with
  | init d kinds budgets h1 h32 =>
    intro _ _ hh
    exact absurd hh.1 (Nat.lt_irrefl 0)
  | mainPlain hr ih => exact inv5_mainPlain (reach_inv1 hr) (reach_inv2 hr) ih
  | mainAtomic hr ih => exact inv5_mainAtomic (reach_inv1 hr) ih
  | senderPlain i hi hr ih => exact inv5_senderPlain (reach_inv1 hr) ih i hi
  | senderAtomic i hi hr ih => exact inv5_senderAtomic (reach_inv1 hr) ih i hi
  | enterMain c hr hidle ih =>
    exact inv5_hframe (reach_inv1 hr) ih (hframe_of_same ⟨rfl, rfl, rfl, rfl, rfl, rfl, id⟩)
      (noHeld_of_mpc (by rw [hidle]; intro c; simp))
      (not_running_of_mpc (by rw [hidle]; simp) (by rw [hidle]; simp) (by rw [hidle]; simp) (by rw [hidle]; simp))
  | enterSender i c hi hr hidle ih =>
    intro a b hh
    refine wakeComing_sender (reach_inv1 hr) i hi rfl rfl rfl (Or.inl rfl) (fun j hj => upd_other _ _ _ _ hj) ?_ (ih a b hh)
    rw [hidle]; exact fun h => False.elim h
  | tok t _ ih => exact inv5_same ih rfl rfl rfl rfl rfl rfl rfl
  | hung _ ih => exact inv5_same ih rfl rfl rfl rfl rfl rfl rfl
  | nops k _ ih => exact inv5_same ih rfl rfl rfl rfl rfl rfl rfl
  | newItem _ ih => exact inv5_same ih rfl rfl rfl rfl rfl rfl rfl
  | noYields _ ih => exact inv5_same ih rfl rfl rfl rfl rfl rfl rfl
  | setBody b r _ ih => exact inv5_same ih rfl rfl rfl rfl rfl rfl rfl
  | observe o _ _ ih => exact inv5_same ih rfl rfl rfl rfl rfl rfl rfl
end Librfn.Isr.L

import Librfn.Model.Messageq
/-! Arithmetic facts about the message-queue model shared by C10 (sequential refinement) and C04 (interleavings):
cyclic indices, the flag word, the free counter as an 8-bit two's complement number, slot ↔ offset. -/
namespace Librfn.Lemmas.Messageq
open Librfn.Model.Messageq

/-! ### cyclic indices -/

theorem succ_mod (c q : Nat) (hq : 0 < q) : (c + 1) % q = if c % q + 1 = q then 0 else c % q + 1 := by
  have h1 : c % q < q := Nat.mod_lt _ hq
  have h2 : q * (c / q) + c % q = c := Nat.div_add_mod c q
  split
  · rename_i h
    have : c + 1 = q * (c / q + 1) := by rw [Nat.mul_add, Nat.mul_one]; omega
    rw [this]; exact Nat.mul_mod_right ..
  · rename_i h
    have : c + 1 = q * (c / q) + (c % q + 1) := by omega
    rw [this, Nat.mul_add_mod]; exact Nat.mod_eq_of_lt (by omega)

/-- two tickets inside one window of length `q` with the same slot are the same ticket -/
theorem window_inj (q a b : Nat) (hab : a ≤ b) (hlt : b < a + q) (h : a % q = b % q) : a = b := by
  have h0 : (b - a) % q = 0 := Nat.sub_mod_eq_zero_of_mod_eq h.symm
  have h1 : (b - a) % q = b - a := Nat.mod_eq_of_lt (by omega)
  omega

theorem window_inj' (q a b lo : Nat) (ha : lo ≤ a) (hb : lo ≤ b) (ha2 : a < lo + q) (hb2 : b < lo + q)
    (h : a % q = b % q) : a = b := by
  rcases Nat.le_total a b with hle | hle
  · exact window_inj q a b hle (by omega) h
  · exact (window_inj q b a hle (by omega) h.symm).symm

/-- `sendp >= queue_len-1 ? 0 : sendp+1` is the successor modulo `queue_len` -/
theorem nextSend_toNat (qlen p : BitVec 8) (c : Nat) (hq : 1 ≤ qlen.toNat) (hp : p.toNat = c % qlen.toNat) :
    (nextSend qlen p).toNat = (c + 1) % qlen.toNat := by
  have hlt : c % qlen.toNat < qlen.toNat := Nat.mod_lt _ hq
  have hq8 : qlen.toNat < 256 := qlen.isLt
  rw [succ_mod c _ hq]
  unfold nextSend
  by_cases h : c % qlen.toNat + 1 = qlen.toNat
  · rw [if_pos h, if_pos (by rw [hp]; omega)]; rfl
  · rw [if_neg h, if_neg (by rw [hp]; omega)]
    rw [BitVec.toNat_ofNat, hp]; exact Nat.mod_eq_of_lt (by omega)

/-- `receivep >= (unsigned)(queue_len-1) ? 0 : receivep+1` is the successor modulo `queue_len` -/
theorem nextRecv_toNat (qlen p : BitVec 8) (c : Nat) (hq : 1 ≤ qlen.toNat) (hp : p.toNat = c % qlen.toNat) :
    (nextRecv qlen p).toNat = (c + 1) % qlen.toNat := by
  have hlt : c % qlen.toNat < qlen.toNat := Nat.mod_lt _ hq
  have hq8 : qlen.toNat < 256 := qlen.isLt
  have hm : (qlen.toNat + 4294967296 - 1) % 4294967296 = qlen.toNat - 1 := by omega
  rw [succ_mod c _ hq]
  unfold nextRecv
  rw [hm]
  by_cases h : c % qlen.toNat + 1 = qlen.toNat
  · rw [if_pos h, if_pos (by rw [hp]; omega)]; rfl
  · rw [if_neg h, if_neg (by rw [hp]; omega)]
    rw [BitVec.toNat_ofNat, hp]; exact Nat.mod_eq_of_lt (by omega)

/-! ### the flag word -/

theorem getLsbD_bit (i j : Nat) : (bit i).getLsbD j = (decide (i = j) && decide (j < 32)) := by
  unfold bit
  rw [BitVec.getLsbD_shiftLeft]
  by_cases h1 : j < 32 <;> by_cases h2 : j < i <;> by_cases h3 : i = j <;>
    simp [h1, h2, h3, BitVec.getLsbD_one] <;> omega

theorem getLsbD_or_bit (x : BitVec 32) (i j : Nat) (hi : i < 32) :
    (x ||| bit i).getLsbD j = (x.getLsbD j || decide (i = j)) := by
  rw [BitVec.getLsbD_or, getLsbD_bit]
  by_cases h : i = j
  · subst h; simp [hi]
  · simp [h]

theorem getLsbD_clear_bit (x : BitVec 32) (i j : Nat) :
    (x &&& ~~~ bit i).getLsbD j = (x.getLsbD j && !decide (i = j)) := by
  rw [BitVec.getLsbD_and, BitVec.getLsbD_not, getLsbD_bit]
  by_cases h1 : j < 32
  · by_cases h : i = j <;> simp [h, h1]
  · have : x.getLsbD j = false := BitVec.getLsbD_of_ge x j (by omega)
    simp [this]

theorem and_bit_eq_zero (x : BitVec 32) (i : Nat) (hi : i < 32) : (x &&& bit i = 0) ↔ x.getLsbD i = false := by
  constructor
  · intro h
    have := congrArg (fun v => BitVec.getLsbD v i) h
    simp only [BitVec.getLsbD_and, getLsbD_bit] at this
    simpa [hi] using this
  · intro h
    apply BitVec.eq_of_getLsbD_eq
    intro j hj
    rw [BitVec.getLsbD_and, getLsbD_bit]
    by_cases e : i = j
    · subst e; simp [h]
    · simp [e]

/-! ### the free counter -/

/-- a small non-negative value of the 8-bit counter reads the same through `(signed char)` -/
theorem toInt_of_small (x : BitVec 8) (h : x.toNat < 128) : x.toInt = x.toNat := by
  rw [BitVec.toInt_eq_toNat_cond]; split <;> omega

theorem granted_signed (x : BitVec 8) : granted true x = decide (0 < x.toInt) := rfl
theorem granted_unsigned (x : BitVec 8) : granted false x = decide (0 < x.toNat) := rfl

/-- decrement and increment of the counter in terms of its signed reading, away from the ends of the range -/
theorem toInt_sub_one (x : BitVec 8) (h : -128 < x.toInt) : (x - 1).toInt = x.toInt - 1 := by
  rw [BitVec.toInt_eq_toNat_cond] at h ⊢
  rw [BitVec.toInt_eq_toNat_cond]
  have hx : x.toNat < 256 := x.isLt
  have h1 : (1 : BitVec 8).toNat = 1 := rfl
  rw [BitVec.toNat_sub, h1]
  split at h <;> split <;> omega

theorem toInt_add_one (x : BitVec 8) (h : x.toInt < 127) : (x + 1).toInt = x.toInt + 1 := by
  rw [BitVec.toInt_eq_toNat_cond] at h ⊢
  rw [BitVec.toInt_eq_toNat_cond]
  have hx : x.toNat < 256 := x.isLt
  have h1 : (1 : BitVec 8).toNat = 1 := rfl
  rw [BitVec.toNat_add, h1]
  split at h <;> split <;> omega

theorem toNat_sub_one (x : BitVec 8) (h : 1 ≤ x.toNat) : (x - 1).toNat = x.toNat - 1 := by
  have hx : x.toNat < 256 := x.isLt
  have h1 : (1 : BitVec 8).toNat = 1 := rfl
  rw [BitVec.toNat_sub, h1]; omega

theorem toNat_add_one (x : BitVec 8) (h : x.toNat < 255) : (x + 1).toNat = x.toNat + 1 := by
  have h1 : (1 : BitVec 8).toNat = 1 := rfl
  rw [BitVec.toNat_add, h1]; omega

theorem sub_one_add_one (x : BitVec 8) : x - 1 + 1 = x := BitVec.sub_add_cancel x 1

/-! ### slot ↔ offset -/

theorem slot_of_offset_nat (msgLen : BitVec 16) (i : Nat) (h1 : i < 256) (hm : 1 ≤ msgLen.toNat) :
    slotOfOffset msgLen (i * msgLen.toNat) = i := by
  unfold slotOfOffset
  have h2 : msgLen.toNat < 65536 := msgLen.isLt
  have h3 : i * msgLen.toNat < 256 * 65536 := Nat.mul_lt_mul'' h1 h2
  rw [Nat.mod_eq_of_lt (by omega)]
  exact Nat.mul_div_cancel _ (by omega)

theorem slot_of_offset (msgLen : BitVec 16) (sl : BitVec 8) (hm : 1 ≤ msgLen.toNat) :
    slotOfOffset msgLen (offsetOfSlot msgLen sl) = sl.toNat :=
  slot_of_offset_nat msgLen sl.toNat sl.isLt hm

end Librfn.Lemmas.Messageq

import Librfn.Model.Bintree
import Librfn.Spec.Tree
/-! Helper lemmas for C11: trees with distinct ids, the frame rule for `ReprK`, the predecessor
search, and the caller's loop around the Morris iterators seen from inside a call. -/
namespace Librfn.Lemmas.Bintree
open Librfn.Model.Bintree Librfn.Spec Librfn.Spec.Tree

/-! ### trees -/

theorem length_inorder : ∀ t : Tree, (inorder t).length = size t
  | .nil => rfl
  | .node l x r => by simp [inorder, size, length_inorder l, length_inorder r]; omega

theorem mem_left {l : Tree} {x : Nat} {r : Tree} {i : Nat} (h : i ∈ inorder l) : i ∈ inorder (.node l x r) := by
  simp [inorder, h]
theorem mem_right {l : Tree} {x : Nat} {r : Tree} {i : Nat} (h : i ∈ inorder r) : i ∈ inorder (.node l x r) := by
  simp [inorder, h]
theorem mem_root {l : Tree} {x : Nat} {r : Tree} : x ∈ inorder (.node l x r) := by
  simp [inorder]

theorem mem_preorder : ∀ (t : Tree) (i : Nat), i ∈ preorder t ↔ i ∈ inorder t
  | .nil, _ => by simp [preorder, inorder]
  | .node l x r, i => by
    simp only [preorder, inorder, List.mem_cons, List.mem_append, mem_preorder l, mem_preorder r]
    constructor
    · rintro (h | h | h) <;> simp [h]
    · rintro (h | h | h) <;> simp [h]

theorem mem_postorder : ∀ (t : Tree) (i : Nat), i ∈ postorder t ↔ i ∈ inorder t
  | .nil, _ => by simp [postorder, inorder]
  | .node l x r, i => by
    simp only [postorder, inorder, List.mem_cons, List.mem_append, mem_postorder l, mem_postorder r,
      List.not_mem_nil, or_false]
    constructor
    · rintro ((h | h) | h) <;> simp [h]
    · rintro (h | h | h) <;> simp [h]

theorem perm_preorder : ∀ t : Tree, (preorder t).Perm (inorder t)
  | .nil => .refl _
  | .node l x r => by
    simp only [preorder, inorder]
    have := (perm_preorder l).append (perm_preorder r)
    exact (List.Perm.cons x this).trans List.perm_middle.symm

theorem perm_postorder : ∀ t : Tree, (postorder t).Perm (inorder t)
  | .nil => .refl _
  | .node l x r => by
    simp only [postorder, inorder]
    have := (perm_postorder l).append (perm_postorder r)
    have h2 : (postorder l ++ postorder r ++ [x]).Perm (x :: (postorder l ++ postorder r)) := by
      simpa using (List.perm_append_comm (l₁ := postorder l ++ postorder r) (l₂ := [x]))
    exact h2.trans ((List.Perm.cons x this).trans List.perm_middle.symm)

theorem nodup_preorder (t : Tree) (d : Distinct t) : (preorder t).Nodup := (perm_preorder t).nodup_iff.mpr d
theorem nodup_postorder (t : Tree) (d : Distinct t) : (postorder t).Nodup := (perm_postorder t).nodup_iff.mpr d

/-- the parts of a tree with distinct ids -/
structure DistinctNode (l : Tree) (x : Nat) (r : Tree) : Prop where
  left : Distinct l
  right : Distinct r
  x_not_left : x ∉ inorder l
  x_not_right : x ∉ inorder r
  disjoint : ∀ i, i ∈ inorder l → i ∉ inorder r

theorem distinct_node {l : Tree} {x : Nat} {r : Tree} (d : Distinct (.node l x r)) : DistinctNode l x r := by
  unfold Distinct at d
  simp only [inorder] at d
  have h := List.nodup_append.mp d
  have hc := List.nodup_cons.mp h.2.1
  refine ⟨h.1, hc.2, ?_, hc.1, ?_⟩
  · intro hm; exact h.2.2 x hm x (by simp) rfl
  · intro i hi hr; exact h.2.2 i hi i (by simp [hr]) rfl

theorem rightmost_mem : ∀ (l : Tree) (x : Nat) (r : Tree), rightmost (.node l x r) ∈ inorder (.node l x r)
  | l, x, .nil => by simp [rightmost, inorder]
  | l, x, .node l' y r' => by
    have := rightmost_mem l' y r'
    simp only [rightmost, inorder] at this ⊢
    simp only [List.mem_append, List.mem_cons]
    right; right; simpa [List.mem_append] using this

/-! ### heaps -/

theorem upd_same (h : Heap) (p : Nat) (f : Node → Node) : upd h p f p = (h p).map f := by simp [upd]
theorem upd_other (h : Heap) (p i : Nat) (f : Node → Node) (hne : i ≠ p) : upd h p f i = h i := by simp [upd, hne]

/-- tag every node of `xs` (when `tg`): what the tagging pass of `bintree_iterate_post_order` does to
    the nodes it has been handed so far -/
def tagAll (tg : Bool) (h : Heap) (xs : List Nat) : Heap :=
  fun i => if tg = true ∧ i ∈ xs then (h i).map (fun n => { n with tag := true }) else h i

/-- what the caller does with a returned node: nothing, or `curr->left |= 1` -/
def tagIf (tg : Bool) (h : Heap) (x : Nat) : Heap := if tg then setTag h x true else h

theorem tagAll_false (h : Heap) (xs : List Nat) : tagAll false h xs = h := by
  funext i; simp [tagAll]

theorem tagAll_nil (tg : Bool) (h : Heap) : tagAll tg h [] = h := by
  funext i; simp [tagAll]

theorem tagAll_other (tg : Bool) (h : Heap) (xs : List Nat) (i : Nat) (hi : i ∉ xs) : tagAll tg h xs i = h i := by
  simp [tagAll, hi]

theorem tagIf_eq (tg : Bool) (h : Heap) (x : Nat) : tagIf tg h x = tagAll tg h [x] := by
  funext i
  cases tg <;> simp [tagIf, tagAll, setTag, upd]

theorem tagAll_append (tg : Bool) (h : Heap) (xs ys : List Nat) :
    tagAll tg (tagAll tg h xs) ys = tagAll tg h (xs ++ ys) := by
  funext i
  cases tg
  · simp [tagAll]
  · by_cases hx : i ∈ xs <;> by_cases hy : i ∈ ys <;> simp [tagAll, hx, hy]
    cases h i <;> simp

/-! ### the frame rule -/

theorem reprK_congr {τ τ' : Nat → Bool} {h h' : Heap} : ∀ (t : Tree) (k : Ptr),
    (∀ i, i ∈ inorder t → h' i = h i ∧ τ' i = τ i) → ReprK τ h t k → ReprK τ' h' t k
  | .nil, _, _, _ => trivial
  | .node l x r, k, hag, ⟨h1, h3, h4⟩ => by
    have hx := hag x (by simp [inorder])
    refine ⟨by rw [hx.1, hx.2]; exact h1, ?_, ?_⟩
    · exact reprK_congr l none (fun i hi => hag i (by simp [inorder, hi])) h3
    · exact reprK_congr r k (fun i hi => hag i (by simp [inorder, hi])) h4

/-- two heaps that hold the same tree agree on its nodes -/
theorem reprK_unique {τ : Nat → Bool} {h h' : Heap} : ∀ (t : Tree) (k : Ptr),
    ReprK τ h t k → ReprK τ h' t k → ∀ i, i ∈ inorder t → h' i = h i
  | .nil, _, _, _, i, hi => by simp [inorder] at hi
  | .node l x r, k, ⟨a1, a2, a3⟩, ⟨b1, b2, b3⟩, i, hi => by
    simp only [inorder, List.mem_append, List.mem_cons] at hi
    rcases hi with hi | rfl | hi
    · exact reprK_unique l none a2 b2 i hi
    · rw [a1, b1]
    · exact reprK_unique r k a3 b3 i hi

theorem reprK_alive {τ : Nat → Bool} {h : Heap} : ∀ (t : Tree) (k : Ptr),
    ReprK τ h t k → ∀ i, i ∈ inorder t → ∃ n, h i = some n ∧ n.tag = τ i
  | .nil, _, _, i, hi => by simp [inorder] at hi
  | .node l x r, k, ⟨a1, a2, a3⟩, i, hi => by
    simp only [inorder, List.mem_append, List.mem_cons] at hi
    rcases hi with hi | rfl | hi
    · exact reprK_alive l none a2 i hi
    · exact ⟨_, a1, rfl⟩
    · exact reprK_alive r k a3 i hi

/-- changing the `right` field of the rightmost node changes the continuation, nothing else -/
theorem reprK_setRight {τ : Nat → Bool} : ∀ (l : Tree) (x : Nat) (r : Tree) (h : Heap) (k k' : Ptr),
    Distinct (.node l x r) → ReprK τ h (.node l x r) k →
    ReprK τ (setRight h (rightmost (.node l x r)) k') (.node l x r) k'
  | l, x, .nil, h, k, k', nd, ⟨h1, h3, _⟩ => by
    have d := distinct_node nd
    simp only [rightmost]
    refine ⟨by simp [setRight, upd, h1, rootK], ?_, trivial⟩
    apply reprK_congr l none _ h3
    intro i hi
    have : i ≠ x := by intro e; subst e; exact d.x_not_left hi
    simp [setRight, upd, this]
  | l, x, .node l' y r', h, k, k', nd, ⟨h1, h3, h4⟩ => by
    have d := distinct_node nd
    have ih := reprK_setRight (τ := τ) l' y r' h k k' d.right h4
    have hm := rightmost_mem l' y r'
    have hne : x ≠ rightmost (.node l' y r') := by
      intro e; rw [← e] at hm; exact d.x_not_right hm
    simp only [rightmost]
    refine ⟨?_, ?_, ih⟩
    · simp only [setRight, upd, hne, if_false]; simpa [rootK] using h1
    · apply reprK_congr l none _ h3
      intro i hi
      have : i ≠ rightmost (.node l' y r') := by
        intro e; subst e; exact d.disjoint _ hi hm
      simp [setRight, upd, this]

theorem reprK_tagAll {τ : Nat → Bool} (tg : Bool) (xs : List Nat) {h : Heap} : ∀ (t : Tree) (k : Ptr),
    ReprK τ h t k → ReprK (fun i => if tg = true ∧ i ∈ xs then true else τ i) (tagAll tg h xs) t k
  | .nil, _, _ => trivial
  | .node l x r, k, ⟨h1, h3, h4⟩ => by
    refine ⟨?_, reprK_tagAll tg xs l none h3, reprK_tagAll tg xs r k h4⟩
    by_cases c : tg = true ∧ x ∈ xs
    · simp [tagAll, c, h1]
    · simp only [tagAll, c, if_false]; exact h1

/-! ### the predecessor search -/

/-- walking right from the root of a non-empty tree whose rightmost `right` is `k`, with `c` outside the
    tree: the search stops at the rightmost node, provided `k` is NULL or `c` -/
theorem findPred_spec {τ : Nat → Bool} : ∀ (l : Tree) (x : Nat) (r : Tree) (h : Heap) (c : Nat) (k : Ptr) (fuel : Nat),
    size (.node l x r) ≤ fuel → c ∉ inorder (.node l x r) → (k = none ∨ k = some c) →
    ReprK τ h (.node l x r) k →
    findPred fuel h c x = .ok (rightmost (.node l x r)) ∧
      ∃ n, h (rightmost (.node l x r)) = some n ∧ n.right = k
  | l, x, .nil, h, c, k, fuel, hf, _, hk, ⟨h2, _, _⟩ => by
    cases fuel with
    | zero => simp [size] at hf
    | succ f =>
      simp only [findPred, rightmost, h2, rootK]
      refine ⟨?_, _, rfl, rfl⟩
      rcases hk with rfl | rfl <;> simp
  | l, x, .node l' y r', h, c, k, fuel, hf, hc, hk, ⟨h2, _, h4⟩ => by
    cases fuel with
    | zero => simp [size] at hf
    | succ f =>
      have hyc : y ≠ c := by
        intro e; apply hc; subst e; simp [inorder]
      have ih := findPred_spec l' y r' h c k f (by simp only [size] at hf ⊢; omega)
        (fun hm => hc (by simp only [inorder] at hm ⊢; simp [hm])) hk h4
      simp only [findPred, h2, rootK, rightmost, hyc, if_false]
      exact ih

end Librfn.Lemmas.Bintree

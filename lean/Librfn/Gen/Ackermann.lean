import Lean
/-! `ackermann f` (hand-written support): `bv_decide` abstracts applications of a non-bit-vector function such as a memory
`mem : BitVec 64 → BitVec 8` (or `Mem.load64 mem`) as unrelated atoms, so it may report a counterexample in which `mem x ≠ mem y`
although `x = y`.  This tactic adds, for every pair of argument terms `x`, `y` at which `f` is applied in the goal or a
hypothesis, the congruence fact `x = y → f x = f y` (proved by `congrArg`) to the context — Ackermann's reduction, by hand. -/
open Lean Meta Elab Tactic

namespace Librfn.Gen

partial def collectArgs (f : Expr) (e : Expr) (acc : Array Expr) : Array Expr :=
  let acc := if e.isApp && e.appFn! == f && !e.appArg!.hasLooseBVars && !acc.contains e.appArg! then acc.push e.appArg! else acc
  match e with
  | .app a b => collectArgs f b (collectArgs f a acc)
  | .lam _ t b _ => collectArgs f b (collectArgs f t acc)
  | .forallE _ t b _ => collectArgs f b (collectArgs f t acc)
  | .letE _ t v b _ => collectArgs f b (collectArgs f v (collectArgs f t acc))
  | .mdata _ b => collectArgs f b acc
  | .proj _ _ b => collectArgs f b acc
  | _ => acc

elab "ackermann " t:term : tactic => withMainContext do
  let f ← instantiateMVars (← elabTerm t none)
  let goal ← getMainGoal
  let mut args : Array Expr := collectArgs f (← instantiateMVars (← goal.getType)) #[]
  for d in ← getLCtx do
    if d.isImplementationDetail then continue
    args := collectArgs f (← instantiateMVars d.type) args
  if args.size > 20 then
    return     -- too many atoms: the quadratic number of facts would not help
  let mut g := goal
  for i in [0:args.size] do
    for j in [i+1:args.size] do
      let x := args[i]!
      let y := args[j]!
      let eqxy ← mkEq x y
      let prf ← withLocalDeclD `e eqxy fun e => do
        mkLambdaFVars #[e] (← mkCongrArg f e)
      let ty ← inferType prf
      let g' ← g.assert (Name.mkSimple s!"ack_{i}_{j}") ty prf
      let (_, g'') ← g'.intro1P
      g := g''
  replaceMainGoal [g]

end Librfn.Gen

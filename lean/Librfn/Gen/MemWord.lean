import Librfn.Gen.Mem
import Std.Tactic.BVDecide
/-! Word-granular reading of the byte memory (hand-written support, not generated): a 64-bit load after a 64-bit store, for cells
that coincide or do not overlap.  With these two rewrite rules a generated definition that only moves pointers around becomes a term
over the opaque words `Mem.load64 mem x` of the initial memory, which `bv_decide` can compare with a reference. -/
namespace Librfn.Gen.Mem

/-- two 8-byte cells coincide or do not overlap -/
def sep (p q : BitVec 64) : Bool := p == q || (BitVec.ule 8#64 (p - q) && BitVec.ule 8#64 (q - p))

/-- a 64-bit load that partially overlaps the preceding 64-bit store (never happens for separately allocated objects); kept as a name
    so that rewriting stops there -/
def overlap64 (m : Mem) (a v p : BitVec 64) : BitVec 64 := load64 (store64 m a v) p

set_option maxRecDepth 8000 in
theorem load64_store64_sep (m : Mem) (a v p : BitVec 64) (h : sep p a = true) :
    load64 (store64 m a v) p = if p == a then v else load64 m p := by
  unfold sep at h
  unfold load64 load32 store64 store32 store16
  simp only [store_app]
  bv_decide (config := { timeout := 300 })

theorem load64_store64 (m : Mem) (a v p : BitVec 64) :
    load64 (store64 m a v) p = if sep p a then (if p == a then v else load64 m p) else overlap64 m a v p := by
  cases h : sep p a with
  | true => simp only [if_true]; exact load64_store64_sep m a v p h
  | false => rfl

theorem load64_ite (c : Prop) [Decidable c] (m1 m2 : Mem) (p : BitVec 64) :
    load64 (if c then m1 else m2) p = if c then load64 m1 p else load64 m2 p := by
  split <;> rfl

end Librfn.Gen.Mem

/-! Byte memory used by the definitions that `tools/c2lean2.py` generates (hand-written support file, not generated).

Addresses are 64-bit values (LP64); a memory is a total map from addresses to bytes.  Multi-byte accesses are
little-endian (x86-64 / the Cortex-M targets of the library).  `fill` is `memset`, `copy` is `memcpy` (source read
from the memory *before* the call; the regions are assumed not to overlap, as `memcpy` requires). -/
namespace Librfn.Gen

abbrev Mem := BitVec 64 → BitVec 8

/-- one executed call of an external function in the trace a generated definition reports (arguments and returned value widened to 64 bits) -/
structure ExtCall where
  name : String
  args : List (BitVec 64)
  ret : BitVec 64        -- what the call returned (an input of the generated definition); 0 for a `void` function
  deriving DecidableEq, Repr

namespace Mem

def store (m : Mem) (a : BitVec 64) (v : BitVec 8) : Mem := fun x => if x = a then v else m x

def load16 (m : Mem) (a : BitVec 64) : BitVec 16 := (m (a + 1)) ++ (m a)
def load32 (m : Mem) (a : BitVec 64) : BitVec 32 := (m (a + 3)) ++ (m (a + 2)) ++ (m (a + 1)) ++ (m a)
def load64 (m : Mem) (a : BitVec 64) : BitVec 64 := load32 m (a + 4) ++ load32 m a

def store16 (m : Mem) (a : BitVec 64) (v : BitVec 16) : Mem :=
  store (store m a (v.setWidth 8)) (a + 1) ((v >>> 8).setWidth 8)
def store32 (m : Mem) (a : BitVec 64) (v : BitVec 32) : Mem :=
  store16 (store16 m a (v.setWidth 16)) (a + 2) ((v >>> 16).setWidth 16)
def store64 (m : Mem) (a : BitVec 64) (v : BitVec 64) : Mem :=
  store32 (store32 m a (v.setWidth 32)) (a + 4) ((v >>> 32).setWidth 32)

/-- `memset(a, v, n)` -/
def fill (m : Mem) (a : BitVec 64) (v : BitVec 8) (n : Nat) : Mem := fun x => if (x - a).toNat < n then v else m x

/-- `memcpy(dst, src, n)` -/
def copy (m : Mem) (dst src : BitVec 64) (n : Nat) : Mem :=
  fun x => if (x - dst).toNat < n then m (src + (x - dst)) else m x

/-- pointwise reading of a conditional memory (used to hand memory obligations to `bv_decide` address by address) -/
theorem ite_app (c : Prop) [Decidable c] (m1 m2 : Mem) (a : BitVec 64) : (if c then m1 else m2) a = if c then m1 a else m2 a := by
  split <;> rfl
theorem store_app (m : Mem) (x a : BitVec 64) (v : BitVec 8) : store m x v a = if a = x then v else m a := rfl
theorem fill_app (m : Mem) (x a : BitVec 64) (v : BitVec 8) (n : Nat) : fill m x v n a = if (a - x).toNat < n then v else m a := rfl
theorem copy_app (m : Mem) (dst src a : BitVec 64) (n : Nat) :
    copy m dst src n a = if (a - dst).toNat < n then m (src + (a - dst)) else m a := rfl

/-- `memset` / `memcpy` with a bit-vector length, read at one address (the form `bv_decide` can work with) -/
theorem fill_app_bv (m : Mem) (x a : BitVec 64) (v : BitVec 8) (c : BitVec 64) :
    fill m x v c.toNat a = if (a - x).ult c then v else m a := by
  simp only [fill, BitVec.ult]
  by_cases h : (a - x).toNat < c.toNat <;> simp [h]
theorem copy_app_bv (m : Mem) (dst src a : BitVec 64) (c : BitVec 64) :
    copy m dst src c.toNat a = if (a - dst).ult c then m (src + (a - dst)) else m a := by
  simp only [copy, BitVec.ult]
  by_cases h : (a - dst).toNat < c.toNat <;> simp [h]

@[simp] theorem store_same (m : Mem) (a : BitVec 64) (v : BitVec 8) : store m a v a = v := by simp [store]
theorem store_other (m : Mem) (a x : BitVec 64) (v : BitVec 8) (h : x ≠ a) : store m a v x = m x := by simp [store, h]

end Mem
end Librfn.Gen

import Librfn.Gen.FibreSeq
import Librfn.Model.Fibre
import Std.Tactic.BVDecide
/-!
# C01 — tie T for `get_next_task` (which fibre a scheduling pass dispatches)

`get_next_task` of `fibre.c` is regenerated on every run (`Gen/FibreSeq.lean`; `list_extract` is the environment here — its own tie
is C09's `extract_tie`).

* `get_next_task_generated`: exactly one `list_extract(&kernel.runq)`; the fibre returned is NULL if that returned NULL, otherwise the
  `fibre_t` that contains the extracted node (`containerof(node, fibre_t, link)` = `node − 16`); no kernel scalar is modified;
* `get_next_task_tie`: when `list_extract` answers as the model's run queue says (NULL for the empty queue, else the link of its
  first fibre — the FIFO head), the fibre dispatched is the one the model's `getNextTask` makes current.
-/
namespace Librfn.C01.Tie
open Librfn.Gen Librfn.Gen.FibreSeq

theorem get_next_task_generated (cur : BitVec 64) (st now : BitVec 32) (runq aq timerq : BitVec 64) (taint : BitVec 32) (r : BitVec 64) :
    (get_next_task cur st now runq aq timerq taint r).ub = false ∧ (get_next_task cur st now runq aq timerq taint r).exh = false ∧
    (get_next_task cur st now runq aq timerq taint r).kernel_current = cur ∧ (get_next_task cur st now runq aq timerq taint r).kernel_state = st ∧
    (get_next_task cur st now runq aq timerq taint r).kernel_now = now ∧
    (get_next_task cur st now runq aq timerq taint r).list_extract_called_1 = true ∧
    (get_next_task cur st now runq aq timerq taint r).list_extract_arg_1_0 = runq ∧
    (get_next_task cur st now runq aq timerq taint r).ret = (if r = 0#64 then 0#64 else r - 16#64) := by
  unfold get_next_task
  bv_decide (config := { timeout := 60 })

/-- **tie T, `get_next_task`**: `link f` is the address of fibre `f`'s `link` member, `link f − 16` the fibre itself -/
theorem get_next_task_tie (k : Librfn.Model.Fibre.K) (link : Librfn.Sched.Fid → BitVec 64)
    (cur : BitVec 64) (st now : BitVec 32) (runq aq timerq : BitVec 64) (taint : BitVec 32) (r : BitVec 64)
    (hl : ∀ f, link f ≠ 0#64)
    (hr : r = match k.runq with | [] => 0#64 | f :: _ => link f) :      -- what `list_extract(&kernel.runq)` returns (C09 `extract_tie`)
    (get_next_task cur st now runq aq timerq taint r).ret =
      (match (Librfn.Model.Fibre.getNextTask k).current with | none => 0#64 | some f => link f - 16#64) := by
  rw [(get_next_task_generated cur st now runq aq timerq taint r).2.2.2.2.2.2.2, hr]
  unfold Librfn.Model.Fibre.getNextTask
  cases hq : k.runq with
  | nil => simp
  | cons f fs => simp [hl f]

/-! ### `make_runnable` (the list functions are the environment; their ties are C09's) -/

theorem make_runnable_generated (cur : BitVec 64) (st now : BitVec 32) (runq aq timerq : BitVec 64) (taint : BitVec 32) (f : BitVec 64)
    (r1 r2 : BitVec 8) :
    (make_runnable cur st now runq aq timerq taint f r1 r2).ub = false ∧ (make_runnable cur st now runq aq timerq taint f r1 r2).exh = false ∧
    (make_runnable cur st now runq aq timerq taint f r1 r2).kernel_current = cur ∧
    (make_runnable cur st now runq aq timerq taint f r1 r2).kernel_state = st ∧
    (make_runnable cur st now runq aq timerq taint f r1 r2).kernel_now = now ∧
    (make_runnable cur st now runq aq timerq taint f r1 r2).list_contains_called_1 = true ∧
    (make_runnable cur st now runq aq timerq taint f r1 r2).list_contains_arg_1_0 = runq ∧
    (make_runnable cur st now runq aq timerq taint f r1 r2).list_contains_arg_1_1 = f + 16#64 ∧
    (make_runnable cur st now runq aq timerq taint f r1 r2).list_contains_arg_1_2 = 0#64 ∧
    (make_runnable cur st now runq aq timerq taint f r1 r2).list_remove_called_1 = (r1 == 0#8) ∧
    (make_runnable cur st now runq aq timerq taint f r1 r2).list_remove_arg_1_0 = timerq ∧
    (make_runnable cur st now runq aq timerq taint f r1 r2).list_remove_arg_1_1 = f + 16#64 ∧
    (make_runnable cur st now runq aq timerq taint f r1 r2).list_insert_called_1 = (r1 == 0#8) ∧
    (make_runnable cur st now runq aq timerq taint f r1 r2).list_insert_arg_1_0 = runq ∧
    (make_runnable cur st now runq aq timerq taint f r1 r2).list_insert_arg_1_1 = f + 16#64 := by
  unfold make_runnable
  bv_decide (config := { timeout := 60 })

/-- the calls the model's `makeRunnable k f` stands for: a membership test of the run queue and, only when `f` is not already runnable,
    removal from the timer queue followed by insertion at the end of the run queue (`r2` is what `list_remove` answered) -/
def makeRunnableCalls (k : Librfn.Model.Fibre.K) (f : Librfn.Sched.Fid) (runq timerq node : BitVec 64) (r1 r2 : BitVec 8) : List ExtCall :=
  ⟨"list_contains", [runq, node, 0#64], r1.setWidth 64⟩ ::
    (if f ∈ k.runq then [] else [⟨"list_remove", [timerq, node], r2.setWidth 64⟩, ⟨"list_insert", [runq, node], 0#64⟩])

/-- **tie T, `make_runnable`**: when `list_contains` answers as the model's run queue says, the calls made are exactly those the
    model's `makeRunnable` stands for — in particular a fibre that is already runnable is not inserted a second time -/
theorem make_runnable_tie (k : Librfn.Model.Fibre.K) (fid : Librfn.Sched.Fid)
    (cur : BitVec 64) (st now : BitVec 32) (runq aq timerq : BitVec 64) (taint : BitVec 32) (f : BitVec 64) (r1 r2 : BitVec 8)
    (hr : r1 ≠ 0#8 ↔ fid ∈ k.runq) :
    make_runnable.trace (make_runnable cur st now runq aq timerq taint f r1 r2) r1 r2 =
      makeRunnableCalls k fid runq timerq (f + 16#64) r1 r2 := by
  obtain ⟨_, _, _, _, _, c1, c2, c3, c4, c5, c6, c7, c8, c9, c10⟩ := make_runnable_generated cur st now runq aq timerq taint f r1 r2
  unfold make_runnable.trace makeRunnableCalls
  rw [c1, c2, c3, c4, c5, c6, c7, c8, c9, c10]
  by_cases hm : fid ∈ k.runq
  · have : (r1 == 0#8) = false := by simpa using hr.2 hm
    simp [this, hm]
  · have : (r1 == 0#8) = true := by
      have h0 : ¬ (r1 ≠ 0#8) := fun x => hm (hr.1 x)
      simpa using h0
    simp [this, hm]

end Librfn.C01.Tie

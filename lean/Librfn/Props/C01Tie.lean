import Librfn.Gen.FibreSeq
import Librfn.Model.Fibre
import Std.Tactic.BVDecide
/-!
# C01 — tie T for `get_next_task` (which fibre a scheduling pass dispatches)

`get_next_task` of `fibre.c` is regenerated on every run (`Gen/FibreSeq.lean`; `list_extract` is the environment here — its own tie
is C09's `extract_tie`).

* `get_next_task_generated`: exactly one `list_extract(&kernel.runq)`; the fibre returned is NULL if that returned NULL, otherwise the
  `fibre_t` that contains the extracted node (`containerof(node, fibre_t, link)` = `node − 16`); no kernel scalar is modified;
* `get_next_task_tie`: when `list_extract` answers as the model's run queue says (NULL for the empty queue, else the link of its
  first fibre — the FIFO head), the fibre dispatched is the one the model's `getNextTask` makes current.
-/
namespace Librfn.C01.Tie
open Librfn.Gen Librfn.Gen.FibreSeq

theorem get_next_task_generated (cur : BitVec 64) (st now : BitVec 32) (runq aq timerq : BitVec 64) (taint : BitVec 32) (r : BitVec 64) :
    (get_next_task cur st now runq aq timerq taint r).ub = false ∧ (get_next_task cur st now runq aq timerq taint r).exh = false ∧
    (get_next_task cur st now runq aq timerq taint r).kernel_current = cur ∧ (get_next_task cur st now runq aq timerq taint r).kernel_state = st ∧
    (get_next_task cur st now runq aq timerq taint r).kernel_now = now ∧
    (get_next_task cur st now runq aq timerq taint r).list_extract_called_1 = true ∧
    (get_next_task cur st now runq aq timerq taint r).list_extract_arg_1_0 = runq ∧
    (get_next_task cur st now runq aq timerq taint r).ret = (if r = 0#64 then 0#64 else r - 16#64) := by
  unfold get_next_task
  bv_decide (config := { timeout := 60 })

/-- **tie T, `get_next_task`**: `link f` is the address of fibre `f`'s `link` member, `link f − 16` the fibre itself -/
theorem get_next_task_tie (k : Librfn.Model.Fibre.K) (link : Librfn.Sched.Fid → BitVec 64)
    (cur : BitVec 64) (st now : BitVec 32) (runq aq timerq : BitVec 64) (taint : BitVec 32) (r : BitVec 64)
    (hl : ∀ f, link f ≠ 0#64)
    (hr : r = match k.runq with | [] => 0#64 | f :: _ => link f) :      -- what `list_extract(&kernel.runq)` returns (C09 `extract_tie`)
    (get_next_task cur st now runq aq timerq taint r).ret =
      (match (Librfn.Model.Fibre.getNextTask k).current with | none => 0#64 | some f => link f - 16#64) := by
  rw [(get_next_task_generated cur st now runq aq timerq taint r).2.2.2.2.2.2.2, hr]
  unfold Librfn.Model.Fibre.getNextTask
  cases hq : k.runq with
  | nil => simp
  | cons f fs => simp [hl f]

end Librfn.C01.Tie

import Librfn.Model.ListHeap
import Librfn.Spec.ListSeq
namespace Librfn.C09
open Librfn.Model.ListHeap

theorem stub : (run 9 init [.insert 0 1, .push 0 2, .dump 0]).2 = [.unit, .unit, .nodes [2, 1]] := by decide

end Librfn.C09

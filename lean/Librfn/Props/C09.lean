import Librfn.Model.ListHeap
import Librfn.Spec.ListSeq
import Librfn.Lemmas.ListHeap
/-!
# C09 — the intrusive linked list behaves as a sequence under every order of operations

Model: `Librfn.Model.ListHeap` (explicit heap; every function of `list.c` transcribed statement by
statement; `tail` is a raw pointer value that the C leaves stale — or sets to the bogus "address of
the head field" — whenever the list becomes empty).
Spec: `Librfn.Spec.ListSeq` (a `List Node` per list; an iterator is the predecessor it hangs off).

`IsList h l xs` is the abstraction relation.  It says **nothing about `tail` while `xs = []`**, so
every theorem below holds whatever junk the tail holds, and since the model turns a dereference of
a non-node tail into the error `wild`, every `= .ok …` conclusion also says that *the stale tail is
not dereferenced*.  Kernel-only proofs (no `bv_decide`).
-/
namespace Librfn.C09
open Librfn.Model.ListHeap
open Librfn.Lemmas.ListHeap
open Librfn.Spec.ListSeq (AIter SState upto after TotalPreorder Sorted Free Pre InScope)

/-- the cells of list `l` spell the sequence `xs`: the chain from `head` visits `xs` and ends in NULL,
    no node occurs twice, and **only if `xs` is non-empty** `tail` is its last node -/
structure IsList (h : Heap) (l : Lid) (xs : List Node) : Prop where
  chain : Seg h.next (h.head l) xs none
  nodup : xs.Nodup
  tail : ∀ x, xs.getLast? = some x → h.tail l = .node x

/-- what a call on list `l` leaves alone: the two fields of every other list and the link of every
    node outside `touched` -/
structure Frame (h h' : Heap) (l : Lid) (touched : List Node) : Prop where
  head : ∀ l', l' ≠ l → h'.head l' = h.head l'
  tail : ∀ l', l' ≠ l → h'.tail l' = h.tail l'
  next : ∀ i, i ∉ touched → h'.next i = h.next i

/-- **frame**: a list disjoint from what was touched is untouched -/
theorem isList_frame {h h' : Heap} {l l' : Lid} {touched ys : List Node} (hl : IsList h l' ys)
    (hf : Frame h h' l touched) (hne : l' ≠ l) (hd : ∀ y ∈ ys, y ∉ touched) : IsList h' l' ys :=
  { chain := by
      rw [hf.head l' hne]
      exact seg_congr ys _ _ (fun y hy => hf.next y (hd y hy)) hl.chain
    nodup := hl.nodup
    tail := fun x hx => by rw [hf.tail l' hne]; exact hl.tail x hx }

theorem frame_refl (h : Heap) (l : Lid) (t : List Node) : Frame h h l t :=
  ⟨fun _ _ => rfl, fun _ _ => rfl, fun _ _ => rfl⟩

/-! ### two heap lemmas that carry every mutator -/

/-- linking a fresh node `n` in after the prefix `pre` -/
theorem isList_insert_at {h h' : Heap} {l : Lid} {pre post : List Node} {n : Node}
    (hl : IsList h l (pre ++ post)) (hn : n ∉ pre ++ post)
    (hlink : load h' (linkAfter l pre) = some n)
    (hnn : h'.next n = post.head?)
    (hnext : ∀ x ∈ pre ++ post, pre.getLast? ≠ some x → h'.next x = h.next x)
    (hhead : pre ≠ [] → h'.head l = h.head l)
    (htail : h'.tail l = if post = [] then .node n else h.tail l) :
    IsList h' l (pre ++ n :: post) := by
  have hnd := hl.nodup
  obtain ⟨m, hpre, hpost⟩ := (seg_append _ _ _ _).1 hl.chain
  have hnd' := List.nodup_append.1 hnd
  refine ⟨?_, ?_, ?_⟩
  · rw [seg_append]
    refine ⟨some n, ?_, rfl, ?_⟩
    · exact seg_pre h h' l pre m (some n) hpre hnd'.1
        (fun x hx hlast => hnext x (List.mem_append_left _ hx) hlast) hhead hlink
    · rw [hnn, ← seg_head _ _ hpost]
      refine seg_congr post _ _ (fun x hx => hnext x (List.mem_append_right _ hx) ?_) hpost
      intro e
      exact hnd'.2.2 x (List.mem_of_getLast? e) x hx rfl
  · rw [List.nodup_append] at hnd ⊢
    refine ⟨hnd.1, ?_, ?_⟩
    · rw [List.nodup_cons]
      exact ⟨fun hm => hn (List.mem_append_right _ hm), hnd.2.1⟩
    · intro a ha b hb
      rcases List.mem_cons.1 hb with rfl | hb
      · intro e; exact hn (List.mem_append_left _ (e ▸ ha))
      · exact hnd.2.2 a ha b hb
  · intro x hx
    rw [htail]
    by_cases hp : post = []
    · subst hp
      rw [if_pos rfl]
      simp [List.getLast?_append] at hx
      rw [hx]
    · rw [if_neg hp]
      apply hl.tail
      obtain ⟨c, r, rfl⟩ := List.exists_cons_of_ne_nil hp
      simpa [List.getLast?_append, List.getLast?_cons_cons] using hx

/-- unlinking the node `c` that follows the prefix `pre` -/
theorem isList_remove_at {h h' : Heap} {l : Lid} {pre post : List Node} {c : Node}
    (hl : IsList h l (pre ++ c :: post))
    (hlink : load h' (linkAfter l pre) = post.head?)
    (hnext : ∀ x ∈ pre ++ post, pre.getLast? ≠ some x → h'.next x = h.next x)
    (hhead : pre ≠ [] → h'.head l = h.head l)
    (htail : post ≠ [] → h'.tail l = h.tail l)
    (htail' : post = [] → ∀ p, pre.getLast? = some p → h'.tail l = .node p) :
    IsList h' l (pre ++ post) := by
  have hnd := hl.nodup
  obtain ⟨m, hpre, hc, hpost⟩ := (seg_append _ _ _ _).1 hl.chain
  have hnd' := List.nodup_append.1 hnd
  have hndc := List.nodup_cons.1 hnd'.2.1
  refine ⟨?_, ?_, ?_⟩
  · rw [seg_append]
    refine ⟨post.head?, ?_, ?_⟩
    · exact seg_pre h h' l pre m _ hpre hnd'.1
        (fun x hx hlast => hnext x (List.mem_append_left _ hx) hlast) hhead hlink
    · rw [← seg_head _ _ hpost]
      refine seg_congr post _ _ (fun x hx => hnext x (List.mem_append_right _ hx) ?_) hpost
      intro e
      exact hnd'.2.2 x (List.mem_of_getLast? e) x (List.mem_cons_of_mem _ hx) rfl
  · rw [List.nodup_append]
    exact ⟨hnd'.1, hndc.2, fun a ha b hb => hnd'.2.2 a ha b (List.mem_cons_of_mem _ hb)⟩
  · intro x hx
    by_cases hp : post = []
    · subst hp
      rw [List.append_nil] at hx
      exact htail' rfl x hx
    · rw [htail hp]
      apply hl.tail
      obtain ⟨d, r, rfl⟩ := List.exists_cons_of_ne_nil hp
      simpa [List.getLast?_append, List.getLast?_cons_cons] using hx

/-- what `IsList` tells about the raw cells at a position -/
theorem isList_load {h : Heap} {l : Lid} {pre post : List Node} (hl : IsList h l (pre ++ post)) :
    load h (linkAfter l pre) = post.head? := load_linkAfter h l pre post hl.chain

theorem isList_head {h : Heap} {l : Lid} {xs : List Node} (hl : IsList h l xs) : h.head l = xs.head? := by
  have := isList_load (pre := []) (post := xs) (by simpa using hl)
  simpa [load] using this

theorem isList_next {h : Heap} {l : Lid} {pre post : List Node} {c : Node} (hl : IsList h l (pre ++ c :: post)) :
    h.next c = post.head? := by
  have := isList_load (pre := pre ++ [c]) (post := post) (by simpa using hl)
  simpa [load] using this

theorem isList_tail {h : Heap} {l : Lid} {a : List Node} {t : Node} (hl : IsList h l (a ++ [t])) :
    h.tail l = .node t := hl.tail t (by simp)

/-! ### list_insert, list_push, list_extract, list_peek, list_empty -/

/-- **list_insert appends** — also to a list emptied by any earlier operation, whatever its tail holds —
    touching only the old last node; the stale tail is not dereferenced (the result is `ok`) -/
theorem insert_refines {h : Heap} {l : Lid} {xs : List Node} {n : Node}
    (hl : IsList h l xs) (hn : n ∉ xs) (hnn : h.next n = none) :
    ∃ h', insert h l n = .ok h' ∧ IsList h' l (xs ++ [n]) ∧ Frame h h' l xs := by
  have hh := isList_head hl
  rcases nil_or_snoc xs with rfl | ⟨a, t, rfl⟩
  · simp only [List.head?_nil] at hh
    refine ⟨setTail (setHead h l (some n)) l (.node n), by simp [Model.ListHeap.insert, hnn, hh], ?_, ?_⟩
    · exact isList_insert_at (pre := []) (post := []) hl hn (by simp [load]) (by simp [hnn])
        (by simp) (by simp) (by simp)
    · exact ⟨fun l' e => by simp [e], fun l' e => by simp [e], fun i _ => by simp⟩
  · obtain ⟨x, hx⟩ : ∃ x, h.head l = some x := by
      rw [hh]; cases a <;> simp
    have ht := isList_tail hl
    have hne : n ≠ t := fun e => hn (by simp [e])
    refine ⟨setTail (setNext h t (some n)) l (.node n), by simp [Model.ListHeap.insert, hnn, hx, ht], ?_, ?_⟩
    · have := isList_insert_at (h' := setTail (setNext h t (some n)) l (.node n)) (pre := a ++ [t]) (post := [])
        (by simpa using hl) (by simpa using hn) (by simp [load]) (by simp [hne, hnn])
        (fun x hx hlast => by
          have : x ≠ t := fun e => hlast (by simp [e])
          simp [this])
        (by simp) (by simp)
      simpa using this
    · exact ⟨fun l' e => by simp, fun l' e => by simp [e], fun i hi => by
        have : i ≠ t := fun e => hi (by simp [e])
        simp [this]⟩

/-- **list_push prepends**, again whatever the tail of an empty list holds; only the new node is written -/
theorem push_refines {h : Heap} {l : Lid} {xs : List Node} {n : Node}
    (hl : IsList h l xs) (hn : n ∉ xs) (hnn : h.next n = none) :
    ∃ h', push h l n = .ok h' ∧ IsList h' l (n :: xs) ∧ Frame h h' l [n] := by
  have hh := isList_head hl
  cases xs with
  | nil =>
    simp only [List.head?_nil] at hh
    refine ⟨setHead (setTail h l (.node n)) l (some n), by simp [push, hnn, hh], ?_, ?_⟩
    · exact isList_insert_at (pre := []) (post := []) hl hn (by simp [load]) (by simp [hnn])
        (by simp) (by simp) (by simp)
    · exact ⟨fun l' e => by simp [e], fun l' e => by simp [e], fun i _ => by simp⟩
  | cons x r =>
    simp only [List.head?_cons] at hh
    refine ⟨setHead (setNext h n (some x)) l (some n), by simp [push, hnn, hh], ?_, ?_⟩
    · exact isList_insert_at (pre := []) (post := x :: r) hl hn (by simp [load]) (by simp)
        (fun y hy _ => by
          have : y ≠ n := fun e => hn (by simpa [e] using hy)
          simp [this])
        (by simp) (by simp)
    · exact ⟨fun l' e => by simp [e], fun l' e => by simp, fun i hi => by
        have : i ≠ n := fun e => hi (by simp [e])
        simp [this]⟩

/-- **list_extract pops the head**: returns NULL on an empty list, else the first node, whose link is
    cleared (immediately reusable).  The tail is left stale when the list becomes empty. -/
theorem extract_refines {h : Heap} {l : Lid} {xs : List Node} (hl : IsList h l xs) :
    match xs with
    | [] => extract h l = (h, none)
    | x :: r => ∃ h', extract h l = (h', some x) ∧ IsList h' l r ∧ h'.next x = none ∧ Frame h h' l [x] := by
  have hh := isList_head hl
  cases xs with
  | nil => simp only [List.head?_nil] at hh; simp [extract, hh]
  | cons x r =>
    simp only [List.head?_cons] at hh
    have hnx : h.next x = r.head? := isList_next (pre := []) hl
    have hnd := List.nodup_cons.1 hl.nodup
    refine ⟨setNext (setHead h l (h.next x)) x none, by simp [extract, hh], ?_, by simp, ?_⟩
    · exact isList_remove_at (pre := []) (post := r) (c := x) hl (by simp [load, hnx])
        (fun y hy _ => by
          have : y ≠ x := fun e => hnd.1 (by simpa [e] using hy)
          simp [this])
        (by simp) (by simp) (by simp)
    · exact ⟨fun l' e => by simp [e], fun l' e => by simp, fun i hi => by
        have : i ≠ x := fun e => hi (by simp [e])
        simp [this]⟩

theorem peek_refines {h : Heap} {l : Lid} {xs : List Node} (hl : IsList h l xs) : peek h l = xs.head? :=
  isList_head hl

theorem empty_refines {h : Heap} {l : Lid} {xs : List Node} (hl : IsList h l xs) : empty h l = xs.isEmpty := by
  unfold empty; rw [isList_head hl]; cases xs <;> rfl

/-! ### iterators: `it = ⟨linkAfter l pre, l⟩` stands just after the prefix `pre` of list `l` -/

theorem iterate_refines {h : Heap} {l : Lid} {xs : List Node} (hl : IsList h l xs) :
    iterate h l = (⟨linkAfter l [], l⟩, xs.head?) := by
  simp [iterate, isList_head hl]

/-- **list_iterator_next** steps over the current node and returns the one after it; past the end it
    stays where it is and returns NULL -/
theorem iteratorNext_refines {h : Heap} {l : Lid} {pre post : List Node} (hl : IsList h l (pre ++ post)) :
    iteratorNext h ⟨linkAfter l pre, l⟩ =
      match post with
      | [] => (⟨linkAfter l pre, l⟩, none)
      | c :: r => (⟨linkAfter l (pre ++ [c]), l⟩, r.head?) := by
  have hld := isList_load hl
  cases post with
  | nil => simp only [List.head?_nil] at hld; simp [iteratorNext, hld]
  | cons c r =>
    simp only [List.head?_cons] at hld
    simp [iteratorNext, hld, isList_next hl]

/-- reading the iterator's link gives its current node -/
theorem cur_refines {h : Heap} {l : Lid} {pre post : List Node} (hl : IsList h l (pre ++ post)) :
    load h (linkAfter l pre) = post.head? := isList_load hl

theorem linkAfter_ne_nextOf {l : Lid} {pre : List Node} {n : Node} (hn : n ∉ pre) :
    linkAfter l pre ≠ .nextOf n := by
  rw [Ne, linkAfter_eq_nextOf]
  exact fun e => hn (List.mem_of_getLast? e)

/-- **list_iterator_insert** links the node in at the iterator's position (anywhere, including past the
    end, where it also moves the tail); the iterator then points at the new node -/
theorem iteratorInsert_refines {h : Heap} {l : Lid} {pre post : List Node} {n : Node}
    (hl : IsList h l (pre ++ post)) (hn : n ∉ pre ++ post) :
    IsList (iteratorInsert h ⟨linkAfter l pre, l⟩ n) l (pre ++ n :: post) ∧
    Frame h (iteratorInsert h ⟨linkAfter l pre, l⟩ n) l (n :: pre) ∧
    load (iteratorInsert h ⟨linkAfter l pre, l⟩ n) (linkAfter l pre) = some n := by
  have hld := isList_load hl
  have hnpre : n ∉ pre := fun e => hn (List.mem_append_left _ e)
  have hk := linkAfter_ne_nextOf (l := l) hnpre
  have key : ∀ h2 : Heap, h2 = setNext (store h (linkAfter l pre) (some n)) n post.head? →
      iteratorInsert h ⟨linkAfter l pre, l⟩ n = (if post = [] then setTail h2 l (.node n) else h2) := by
    intro h2 e
    simp only [iteratorInsert, hld]
    cases post <;> simp [e]
  rw [key _ rfl]
  have hlink : ∀ h2 : Heap, h2.next = (setNext (store h (linkAfter l pre) (some n)) n post.head?).next →
      h2.head = (store h (linkAfter l pre) (some n)).head → load h2 (linkAfter l pre) = some n := by
    intro h2 e1 e2
    rw [load_linkAfter_cases]
    cases hg : pre.getLast? with
    | none => dsimp only; rw [e2, store_head]; simp [linkAfter, hg]
    | some p =>
      have hpn : p ≠ n := fun e => hnpre (e ▸ List.mem_of_getLast? hg)
      dsimp only; rw [e1, setNext_next, if_neg hpn, store_next]; simp [linkAfter, hg]
  refine ⟨?_, ?_, ?_⟩
  · refine isList_insert_at hl hn ?_ ?_ ?_ ?_ ?_
    · split <;> exact hlink _ rfl rfl
    · split <;> simp
    · intro x hx hlast
      have hxn : x ≠ n := fun e => hn (e ▸ hx)
      have : linkAfter l pre ≠ .nextOf x := by rw [Ne, linkAfter_eq_nextOf]; exact hlast
      split <;> simp [hxn, store_next, this]
    · intro hp
      have : linkAfter l pre ≠ .headOf l := by rw [Ne, linkAfter_eq_headOf]; exact fun e => hp e.1
      split <;> simp [store_head, this]
    · split <;> simp [*]
  · refine ⟨fun l' e => ?_, fun l' e => ?_, fun i hi => ?_⟩
    · have : linkAfter l pre ≠ .headOf l' := by rw [Ne, linkAfter_eq_headOf]; exact fun e' => e e'.2.symm
      split <;> simp [store_head, this]
    · split <;> simp [e]
    · have hin : i ≠ n := fun e => hi (by simp [e])
      have : linkAfter l pre ≠ .nextOf i := by
        rw [Ne, linkAfter_eq_nextOf]; exact fun e => hi (List.mem_cons_of_mem _ (List.mem_of_getLast? e))
      split <;> simp [hin, store_next, this]
  · split <;> exact hlink _ rfl rfl

/-- **list_iterator_remove** unlinks the current node `c`, returns the node after it, clears `c`'s link
    (immediately reusable) and moves the tail back when `c` was the last node — to the bogus
    "address of head" value when `c` was the only one, which `IsList` of the now empty list tolerates -/
theorem iteratorRemove_refines {h : Heap} {l : Lid} {pre post : List Node} {c : Node}
    (hl : IsList h l (pre ++ c :: post)) :
    ∃ h', iteratorRemove h ⟨linkAfter l pre, l⟩ = .ok (h', post.head?) ∧ IsList h' l (pre ++ post) ∧
      h'.next c = none ∧ Frame h h' l (c :: pre) := by
  have hld : load h (linkAfter l pre) = some c := isList_load hl
  have hnc := isList_next hl
  have hnd := List.nodup_append.1 hl.nodup
  have hcpre : c ∉ pre := fun e => hnd.2.2 c e c (by simp) rfl
  have hcpost : c ∉ post := (List.nodup_cons.1 hnd.2.1).1
  have hk := linkAfter_ne_nextOf (l := l) hcpre
  -- the conditional tail update, as one write
  let t1 : Tail := if h.tail l = .node c then containerOf (linkAfter l pre) else h.tail l
  have h1eq : (if h.tail l = .node c then setTail h l (containerOf (linkAfter l pre)) else h) = setTail h l t1 := by
    by_cases e : h.tail l = .node c
    · simp [t1, e]
    · simp only [t1, if_neg e]; exact (setTail_self h l).symm
  let h3 : Heap := setNext (store (setTail h l t1) (linkAfter l pre) post.head?) c none
  have hlink : load h3 (linkAfter l pre) = post.head? := by
    rw [load_linkAfter_cases]
    cases hg : pre.getLast? with
    | none => simp [h3, store_head, linkAfter, hg]
    | some p =>
      have hpc : p ≠ c := fun e => hcpre (e ▸ List.mem_of_getLast? hg)
      simp [h3, hpc, store_next, linkAfter, hg]
  have hrun : iteratorRemove h ⟨linkAfter l pre, l⟩ = .ok (h3, post.head?) := by
    simp only [iteratorRemove, hld, h1eq]
    rw [← hlink]
    simp [h3, hnc]
  refine ⟨h3, hrun, ?_, by simp [h3], ?_⟩
  · refine isList_remove_at hl hlink ?_ ?_ ?_ ?_
    · intro x hx hlast
      have hxc : x ≠ c := by
        intro e; subst e
        rcases List.mem_append.1 hx with hx | hx
        · exact hcpre hx
        · exact hcpost hx
      have : linkAfter l pre ≠ .nextOf x := by rw [Ne, linkAfter_eq_nextOf]; exact hlast
      simp [h3, hxc, store_next, this]
    · intro hp
      have : linkAfter l pre ≠ .headOf l := by rw [Ne, linkAfter_eq_headOf]; exact fun e => hp e.1
      simp [h3, store_head, this]
    · intro hp
      obtain ⟨d, r, rfl⟩ := List.exists_cons_of_ne_nil hp
      obtain ⟨z, hz⟩ : ∃ z, (d :: r).getLast? = some z := by
        cases hg : (d :: r).getLast? with
        | none => simp at hg
        | some z => exact ⟨z, rfl⟩
      have htl := hl.tail z (by simpa [List.getLast?_append, List.getLast?_cons_cons] using hz)
      have hzc : z ≠ c := fun e => hcpost (e ▸ List.mem_of_getLast? hz)
      simp [h3, t1, htl, hzc]
    · intro hp p hg
      subst hp
      have htl := isList_tail (a := pre) (t := c) hl
      simp [h3, t1, htl, linkAfter, hg, containerOf]
  · refine ⟨fun l' e => ?_, fun l' e => by simp [h3, e], fun i hi => ?_⟩
    · have : linkAfter l pre ≠ .headOf l' := by rw [Ne, linkAfter_eq_headOf]; exact fun e' => e e'.2.symm
      simp [h3, store_head, this]
    · have hic : i ≠ c := fun e => hi (by simp [e])
      have : linkAfter l pre ≠ .nextOf i := by
        rw [Ne, linkAfter_eq_nextOf]; exact fun e => hi (List.mem_cons_of_mem _ (List.mem_of_getLast? e))
      simp [h3, hic, store_next, this]

/-- `list_iterator_remove` with no current node (iterator past the end, or empty list) fails its assert -/
theorem iteratorRemove_at_end {h : Heap} {l : Lid} {pre : List Node} (hl : IsList h l pre) :
    iteratorRemove h ⟨linkAfter l pre, l⟩ = .error .assertFail := by
  have hld : load h (linkAfter l pre) = none := isList_load (pre := pre) (post := []) (by simpa using hl)
  simp [iteratorRemove, hld]

/-! ### list_contains, list_remove -/

theorem Frame.mono {h h' : Heap} {l : Lid} {t t' : List Node} (hf : Frame h h' l t) (hs : ∀ x ∈ t, x ∈ t') :
    Frame h h' l t' :=
  ⟨hf.head, hf.tail, fun i hi => hf.next i (fun e => hi (hs i e))⟩

theorem containsLoop_refines {h : Heap} {l : Lid} (node : Node) : ∀ (post pre : List Node) (fuel : Nat),
    IsList h l (pre ++ post) → post.length < fuel →
    containsLoop h node fuel ⟨linkAfter l pre, l⟩ post.head? =
      .ok (⟨linkAfter l (pre ++ post.takeWhile (· != node)), l⟩, post.contains node)
  | [], pre, fuel, _, hf => by
    obtain ⟨f, rfl⟩ : ∃ f, fuel = f + 1 := ⟨fuel - 1, by simp at hf; omega⟩
    simp [containsLoop]
  | c :: r, pre, fuel, hl, hf => by
    obtain ⟨f, rfl⟩ : ∃ f, fuel = f + 1 := ⟨fuel - 1, by simp at hf; omega⟩
    simp only [List.head?_cons, containsLoop]
    by_cases e : c = node
    · subst e; simp
    · rw [if_neg e, iteratorNext_refines hl]
      have ih := containsLoop_refines node r (pre ++ [c]) f (by simpa using hl) (by simp at hf; omega)
      simp only [ih]
      have e' : node ≠ c := fun x => e x.symm
      simp [e, e']

/-- **list_contains** walks the whole list (`length + 1` iterations suffice), answers membership, and
    leaves the iterator on the node found, or past the end -/
theorem contains_refines {h : Heap} {l : Lid} {xs : List Node} (node : Node) {fuel : Nat}
    (hl : IsList h l xs) (hf : xs.length < fuel) :
    contains fuel h l node = .ok (⟨linkAfter l (xs.takeWhile (· != node)), l⟩, xs.contains node) := by
  have := containsLoop_refines (h := h) (l := l) node xs [] fuel (by simpa using hl) hf
  simpa [contains, iterate, isList_head hl] using this

theorem split_at_mem {node : Node} : ∀ {xs : List Node}, node ∈ xs →
    ∃ rest, xs = xs.takeWhile (· != node) ++ node :: rest ∧ xs.erase node = xs.takeWhile (· != node) ++ rest
  | c :: r, hm => by
    by_cases e : c = node
    · subst e; exact ⟨r, by simp, by simp⟩
    · have hm' : node ∈ r := by
        rcases List.mem_cons.1 hm with e' | hm'
        · exact absurd e'.symm e
        · exact hm'
      obtain ⟨rest, h1, h2⟩ := split_at_mem hm'
      refine ⟨rest, ?_, ?_⟩
      · have : (c != node) = true := by simpa using e
        rw [List.takeWhile_cons, if_pos this, List.cons_append, ← h1]
      · have : (c != node) = true := by simpa using e
        rw [List.takeWhile_cons, if_pos this, List.cons_append, ← h2, List.erase_cons_tail (by simpa using e)]

/-- **list_remove** removes the node if it is a member (fixing the tail when it was the last one,
    clearing its link so that it is immediately reusable) and reports whether it was -/
theorem remove_refines {h : Heap} {l : Lid} {xs : List Node} (node : Node) {fuel : Nat}
    (hl : IsList h l xs) (hf : xs.length < fuel) :
    ∃ h', remove fuel h l node = .ok (h', xs.contains node) ∧ IsList h' l (xs.erase node) ∧
      (node ∈ xs → h'.next node = none) ∧ (node ∉ xs → h' = h) ∧ Frame h h' l xs := by
  by_cases hm : node ∈ xs
  · obtain ⟨rest, h1, h2⟩ := split_at_mem hm
    have hl' : IsList h l (xs.takeWhile (· != node) ++ node :: rest) := by rw [← h1]; exact hl
    obtain ⟨h', hr, hl2, hnx, hfr⟩ := iteratorRemove_refines hl'
    refine ⟨h', ?_, by rw [h2]; exact hl2, fun _ => hnx, fun e => absurd hm e, ?_⟩
    · simp [remove, contains_refines node hl hf, hm, hr]
    · refine hfr.mono (fun x hx => ?_)
      rcases List.mem_cons.1 hx with rfl | hx
      · exact hm
      · exact (List.takeWhile_sublist _).subset hx
  · refine ⟨h, ?_, by rw [List.erase_of_not_mem hm]; exact hl, fun e => absurd e hm, fun _ => rfl, frame_refl _ _ _⟩
    simp [remove, contains_refines node hl hf, hm]

/-! ### list_insert_sorted -/

/-- what `list_insert_sorted` does to an arbitrary (not necessarily sorted) sequence: its two fast
    paths, then the scan -/
def sortedIns (cmp : Node → Node → Int) (n : Node) (xs : List Node) : List Node :=
  match xs.getLast? with
  | none => [n]
  | some t => if cmp n t ≥ 0 then xs ++ [n] else Librfn.Spec.ListSeq.insertSorted cmp n xs

theorem sortedLoop_refines {h : Heap} {l : Lid} (cmp : Node → Node → Int) (n : Node) :
    ∀ (post pre : List Node) (fuel : Nat), IsList h l (pre ++ post) → post.length < fuel →
    (∃ x ∈ post, ¬ cmp n x ≥ 0) →
    sortedLoop h cmp n fuel ⟨linkAfter l pre, l⟩ post.head? =
      .ok ⟨linkAfter l (pre ++ post.takeWhile (fun x => cmp n x ≥ 0)), l⟩
  | [], _, _, _, _, ⟨_, hx, _⟩ => absurd hx (by simp)
  | c :: r, pre, fuel, hl, hf, hex => by
    obtain ⟨f, rfl⟩ : ∃ f, fuel = f + 1 := ⟨fuel - 1, by simp at hf; omega⟩
    simp only [List.head?_cons, sortedLoop]
    by_cases e : cmp n c ≥ 0
    · rw [if_pos e, iteratorNext_refines hl]
      have hex' : ∃ x ∈ r, ¬ cmp n x ≥ 0 := by
        obtain ⟨x, hx, hnx⟩ := hex
        rcases List.mem_cons.1 hx with rfl | hx'
        · exact absurd e hnx
        · exact ⟨x, hx', hnx⟩
      have ih := sortedLoop_refines cmp n r (pre ++ [c]) f (by simpa using hl) (by simp at hf; omega) hex'
      simp only [ih]
      simp [e]
    · rw [if_neg e]; simp [e]

/-- **list_insert_sorted** on any list: the scan terminates at the latest at the tail (the fast path
    has just established `nodecmp(node, tail) < 0`), so the comparator never sees NULL and the assert
    never fires; the node goes in front of the first node it is strictly smaller than -/
theorem insertSorted_refines {h : Heap} {l : Lid} {xs : List Node} {n : Node} (cmp : Node → Node → Int)
    {fuel : Nat} (hl : IsList h l xs) (hn : n ∉ xs) (hnn : h.next n = none) (hf : xs.length < fuel) :
    ∃ h', insertSorted fuel h l n cmp = .ok h' ∧ IsList h' l (sortedIns cmp n xs) ∧ Frame h h' l (n :: xs) := by
  have hh := isList_head hl
  obtain ⟨hi, hrun, hli, hfi⟩ := insert_refines hl hn hnn
  have hfi' : Frame h hi l (n :: xs) := hfi.mono (fun x hx => List.mem_cons_of_mem _ hx)
  rcases nil_or_snoc xs with rfl | ⟨a, t, rfl⟩
  · simp only [List.head?_nil] at hh
    refine ⟨hi, ?_, by simpa [sortedIns] using hli, hfi'⟩
    rw [← hrun]; simp [insertSorted, Model.ListHeap.insert, hnn, hh]
  · obtain ⟨x, hx⟩ : ∃ x, h.head l = some x := by
      rw [hh]; cases a <;> simp
    have ht := isList_tail hl
    by_cases e : cmp n t ≥ 0
    · refine ⟨hi, ?_, by simpa [sortedIns, e] using hli, hfi'⟩
      rw [← hrun]; simp [insertSorted, Model.ListHeap.insert, hnn, hx, ht, e]
    · have hloop := sortedLoop_refines (h := h) (l := l) cmp n (a ++ [t]) [] fuel (by simpa using hl) hf
        ⟨t, by simp, e⟩
      have hsplit : a ++ [t] = (a ++ [t]).takeWhile (fun x => cmp n x ≥ 0) ++ (a ++ [t]).dropWhile (fun x => cmp n x ≥ 0) :=
        (List.takeWhile_append_dropWhile).symm
      have hl' : IsList h l ((a ++ [t]).takeWhile (fun x => cmp n x ≥ 0) ++ (a ++ [t]).dropWhile (fun x => cmp n x ≥ 0)) := by
        rw [← hsplit]; exact hl
      have hn' : n ∉ (a ++ [t]).takeWhile (fun x => cmp n x ≥ 0) ++ (a ++ [t]).dropWhile (fun x => cmp n x ≥ 0) := by
        rw [← hsplit]; exact hn
      obtain ⟨h1, h2, _⟩ := iteratorInsert_refines hl' hn'
      have hloop' : sortedLoop h cmp n fuel (iterate h l).1 (iterate h l).2 =
          .ok ⟨linkAfter l ((a ++ [t]).takeWhile (fun x => cmp n x ≥ 0)), l⟩ := by
        simpa [iterate, hh] using hloop
      refine ⟨iteratorInsert h ⟨linkAfter l ((a ++ [t]).takeWhile (fun x => cmp n x ≥ 0)), l⟩ n, ?_, ?_, ?_⟩
      · simp [insertSorted, hnn, hx, ht, e, hloop']
      · simpa [sortedIns, e, Librfn.Spec.ListSeq.insertSorted] using h1
      · exact h2.mono (fun y hy => by
          rcases List.mem_cons.1 hy with rfl | hy
          · simp
          · exact List.mem_cons_of_mem _ ((List.takeWhile_sublist _).subset hy))

theorem dropWhile_all_greater {cmp : Node → Node → Int} (hp : TotalPreorder cmp) (n : Node) :
    ∀ {xs : List Node}, Sorted cmp xs → ∀ y ∈ xs.dropWhile (fun x => cmp n x ≥ 0), ¬ cmp n y ≥ 0
  | [], _, y, hy => by simp at hy
  | c :: r, hs, y, hy => by
    have hs' := List.pairwise_cons.1 hs
    by_cases e : cmp n c ≥ 0
    · rw [List.dropWhile_cons, if_pos (by simpa using e)] at hy
      exact dropWhile_all_greater hp n hs'.2 y hy
    · rw [List.dropWhile_cons, if_neg (by simpa using e)] at hy
      rcases List.mem_cons.1 hy with rfl | hy
      · exact e
      · exact fun hny => e (hp.trans c y n (hs'.1 y hy) hny)

/-- **sorted insertion is stable**: into a list sorted by any total preorder, `list_insert_sorted`
    (fast paths included) puts the node after every node that is smaller **or equal** and before every
    strictly greater one, and the list stays sorted -/
theorem insert_sorted_stable {cmp : Node → Node → Int} (hp : TotalPreorder cmp) {xs : List Node} (n : Node)
    (hs : Sorted cmp xs) :
    sortedIns cmp n xs = Librfn.Spec.ListSeq.insertSorted cmp n xs ∧
    Sorted cmp (Librfn.Spec.ListSeq.insertSorted cmp n xs) ∧
    (∀ x ∈ xs.takeWhile (fun x => cmp n x ≥ 0), cmp n x ≥ 0) ∧
    (∀ y ∈ xs.dropWhile (fun x => cmp n x ≥ 0), ¬ cmp n y ≥ 0) := by
  have hB : ∀ x ∈ xs.takeWhile (fun x => cmp n x ≥ 0), cmp n x ≥ 0 := fun x hx => by
    simpa using mem_takeWhile_imp hx
  have hA := dropWhile_all_greater hp n hs
  refine ⟨?_, ?_, hB, hA⟩
  · unfold sortedIns
    cases hg : xs.getLast? with
    | none =>
      have : xs = [] := List.getLast?_eq_none_iff.1 hg
      subst this; simp [Librfn.Spec.ListSeq.insertSorted]
    | some t =>
      dsimp only
      by_cases e : cmp n t ≥ 0
      · rw [if_pos e]
        obtain ⟨a, rfl⟩ := List.getLast?_eq_some_iff.1 hg
        have hall : ∀ x ∈ a ++ [t], cmp n x ≥ 0 := by
          intro x hx
          rcases List.mem_append.1 hx with hx | hx
          · exact hp.trans x t n ((List.pairwise_append.1 hs).2.2 x hx t (by simp)) e
          · simp at hx; subst hx; exact e
        have h1 : (a ++ [t]).takeWhile (fun x => cmp n x ≥ 0) = a ++ [t] :=
          takeWhile_eq_self (fun x hx => by simpa using hall x hx)
        have h2 : (a ++ [t]).dropWhile (fun x => cmp n x ≥ 0) = [] :=
          dropWhile_eq_nil (fun x hx => by simpa using hall x hx)
        simp only [Librfn.Spec.ListSeq.insertSorted, h1, h2]
      · rw [if_neg e]
  · have hsplit : xs = xs.takeWhile (fun x => cmp n x ≥ 0) ++ xs.dropWhile (fun x => cmp n x ≥ 0) :=
      (List.takeWhile_append_dropWhile).symm
    have hs' : Sorted cmp (xs.takeWhile (fun x => cmp n x ≥ 0) ++ xs.dropWhile (fun x => cmp n x ≥ 0)) := by
      rw [← hsplit]; exact hs
    obtain ⟨p1, p2, p3⟩ := List.pairwise_append.1 hs'
    unfold Sorted Librfn.Spec.ListSeq.insertSorted
    rw [List.pairwise_append]
    refine ⟨p1, List.pairwise_cons.2 ⟨fun b hb => ?_, p2⟩, fun a ha b hb => ?_⟩
    · rcases hp.total n b with h | h
      · exact absurd h (hA b hb)
      · exact h
    · rcases List.mem_cons.1 hb with rfl | hb
      · exact hB a ha
      · exact p3 a ha b hb

end Librfn.C09
